(* C22 — Mempool bookkeeping stays consistent.  PROPERTY THEOREMS ONLY.

   Model (C22/Model.v): the four maps of protocol.TxPool as association lists
   (pool, utxo = output index, orphans, obp = orphansByPrev) and the functions
   of protocol/txpool.go and protocol/tx.go with the two repairs in place
   (checkOrphanUtxos keeps one hash per missing parent; addTransaction drops
   the orphan entry of the transaction it adds).  A history is any list of
     OChain c       the chain's set of spendable outputs becomes c (blocks connect / disconnect)
     OSubmit now t  Chain.ValidateTx of a valid transaction t at clock reading now
     ORemove h      TxPool.RemoveTransaction
     OExpire now    TxPool.ExpireOrphan
     OReject        a submission refused before it reaches the pool
   started from the empty pool; [run ordP ordE w ops] executes it.  The
   iteration orders of Go's maps (ordP: inner maps of orphansByPrev, ordE:
   orphans) are arbitrary permutations.  [avail c st o] = output o is spendable
   in the chain's set c or listed in the pool's output index.

   c22_statement c st (C22/Guard.v):
     (i)   the output index lists exactly the original outputs of pooled transactions;
     (ii)  every orphan is indexed under each output it spends that is not available,
           and every index entry points to a live orphan that spends that output;
     (iii) no transaction is both pooled and orphaned.
   c22_promotes w w' (iv): every orphan of w' that has all its parents available
     in w' already had them all available in w (the submission that led from w
     to w' left nobody behind whom it completed).

   The guard.  [hist_ok c0 ops ordP ordE] is a boolean computed from the history:
     wf_univ_b  the submitted transactions form a DAG universe: an id names one
                transaction, an output id belongs to one transaction, outputs
                that are not OriginalOutputs (retirements, votes) are not spent;
     run_ok     no OChain / ORemove step takes an output that was available
                away from under a live orphan that spends it (no_withdraw).
   Without the guard the statement is false on the repaired tree as well
   (C22_refuted_*: concrete histories, replayed on the implementation by the
   harness corpus and recorded as findings); inside it, it holds for ALL
   histories (c22_holds_outside, c22_promotion_all_histories). *)
From Coq Require Import List NArith Bool Permutation.
From C22 Require Import Model Maps Prims Proofs Guard History.
Import ListNotations.

(* (i)-(iii) after ANY guarded history, any length, any transactions, any map orders *)
Theorem c22_holds_outside :
  forall ordP ordE, (forall o l, Permutation (ordP o l) l) ->
  forall c0 ops w,
    hist_ok c0 ops ordP ordE = true ->
    run ordP ordE (init_world c0) ops = Some w ->
    c22_statement (wchain w) (wst w).
Proof. exact reachable_statement. Qed.
Print Assumptions c22_holds_outside.

(* (iv) for the submission that follows ANY guarded history *)
Theorem c22_promotion_all_histories :
  forall ordP ordE, (forall o l, Permutation (ordP o l) l) ->
  forall c0 ops now t w w' r,
    hist_ok c0 (ops ++ [OSubmit now t]) ordP ordE = true ->
    run ordP ordE (init_world c0) ops = Some w ->
    step ordP ordE w (OSubmit now t) = Some (w', r) ->
    c22_promotes w w'.
Proof. exact promotion_reachable. Qed.
Print Assumptions c22_promotion_all_histories.

(* The inductive invariant behind both: it holds for the empty pool ... *)
Theorem c22_inv_init : forall U c, pool_inv U (init_world c).
Proof. exact empty_inv. Qed.
Print Assumptions c22_inv_init.

(* ... every single operation preserves it (submissions, expirations and refusals
   unconditionally: step_ok is true for them; chain changes and removals under
   no_withdraw) ... *)
Theorem c22_inv_step :
  forall ordP ordE, (forall o l, Permutation (ordP o l) l) ->
  forall U w o w' r,
    wf_univ U -> pool_inv U w -> step_ok w o = true ->
    (forall t, In t (op_txs o) -> In t U) ->
    step ordP ordE w o = Some (w', r) -> pool_inv U w'.
Proof. exact step_statement. Qed.
Print Assumptions c22_inv_step.

(* ... hence it holds after every guarded history ... *)
Theorem c22_inv_reachable :
  forall ordP ordE, (forall o l, Permutation (ordP o l) l) ->
  forall c0 ops w,
    wf_univ (ops_txs ops) -> run_ok ordP ordE (init_world c0) ops = true ->
    run ordP ordE (init_world c0) ops = Some w -> pool_inv (ops_txs ops) w.
Proof. exact reachable_inv. Qed.
Print Assumptions c22_inv_reachable.

(* ... and it implies the statement. *)
Theorem c22_inv_implies_statement :
  forall U w, pool_inv U w -> c22_statement (wchain w) (wst w).
Proof. exact inv_statement. Qed.
Print Assumptions c22_inv_implies_statement.

(* (iv) as a one-step fact from the invariant *)
Theorem c22_promotion_step :
  forall ordP ordE, (forall o l, Permutation (ordP o l) l) ->
  forall U w now t w' r,
    wf_univ U -> pool_inv U w -> In t U ->
    step ordP ordE w (OSubmit now t) = Some (w', r) -> c22_promotes w w'.
Proof. exact promotion_step. Qed.
Print Assumptions c22_promotion_step.

(* (iv) as a state property: if no orphan had all its parents available before a
   submission, none has afterwards *)
Theorem c22_no_complete_orphan_after_submit :
  forall ordP ordE, (forall o l, Permutation (ordP o l) l) ->
  forall U w now t w' r,
    wf_univ U -> pool_inv U w -> In t U ->
    (forall h e, lookup (orphans (wst w)) h = Some e -> ~ complete (wchain w) (wst w) (otx e)) ->
    step ordP ordE w (OSubmit now t) = Some (w', r) ->
    forall h e, lookup (orphans (wst w')) h = Some e -> ~ complete (wchain w') (wst w') (otx e).
Proof. exact no_complete_orphan_preserved. Qed.
Print Assumptions c22_no_complete_orphan_after_submit.

(* ... and the submitted transaction itself is never left as an orphan with all
   its parents available *)
Theorem c22_submitted_not_a_complete_orphan :
  forall ordP ordE, (forall o l, Permutation (ordP o l) l) ->
  forall U w now t w' r,
    wf_univ U -> pool_inv U w -> In t U ->
    step ordP ordE w (OSubmit now t) = Some (w', r) ->
    forall e, lookup (orphans (wst w')) (tid t) = Some e ->
      ~ complete (wchain w') (wst w') (otx e).
Proof. exact submitted_not_complete_orphan. Qed.
Print Assumptions c22_submitted_not_a_complete_orphan.

(* processOrphans' work list always terminates within the fuel the model gives
   it: [run] never returns None, so the premise "run ... = Some w" is always met *)
Theorem c22_run_total :
  forall ordP ordE, (forall o l, Permutation (ordP o l) l) ->
  forall ops w, exists w', run ordP ordE w ops = Some w'.
Proof. exact run_never_stuck. Qed.
Print Assumptions c22_run_total.

(* the guard is decidable by computation: its well-formedness half is sound *)
Theorem c22_wf_univ_decidable : forall U, wf_univ_b U = true -> wf_univ U.
Proof. exact wf_univ_b_sound. Qed.
Print Assumptions c22_wf_univ_decidable.

(* ---- without the guard the statement is false (findings) ------------------------- *)
(* a pooled parent removed unconfirmed: the orphan that counted on its output is
   no longer indexed under it ... *)
Theorem C22_refuted_withdrawn_parent : ~ C22_full.
Proof. exact refuted_withdrawn_parent. Qed.
Print Assumptions C22_refuted_withdrawn_parent.

(* ... and is not promoted when all its parents are back *)
Theorem C22_refuted_withdrawn_parent_promotion : ~ C22_full_promotion.
Proof. exact refuted_withdrawn_parent_promotion. Qed.
Print Assumptions C22_refuted_withdrawn_parent_promotion.

(* two transactions with the same output ids: removing one unlists the outputs of
   the other *)
Theorem C22_refuted_shared_output_id : ~ C22_full.
Proof. exact refuted_shared_output_id. Qed.
Print Assumptions C22_refuted_shared_output_id.

(* ---- what the pinned tree did (before the repairs) --------------------------------- *)
Theorem c22_pinned_orphan_indexed_under_last_input_only :
  run_gen Run.idP Run.idE false (init_world c01) [OSubmit 10 tY] = Some pin_w1 /\
  ~ c22_statement (wchain pin_w1) (wst pin_w1).
Proof. exact pinned_orphan_indexed_under_last_input_only. Qed.
Print Assumptions c22_pinned_orphan_indexed_under_last_input_only.

Theorem c22_pinned_pooled_and_orphaned :
  run_gen Run.idP Run.idE false (init_world c01) pin_ops2 = Some pin_w2 /\
  ~ c22_statement (wchain pin_w2) (wst pin_w2).
Proof. exact pinned_pooled_and_orphaned. Qed.
Print Assumptions c22_pinned_pooled_and_orphaned.
