(* C22 — the invariant and its preservation by the primitive operations
   (removeOrphan, addOrphan, the pool/utxo update of addTransaction,
   RemoveTransaction, addRely). *)
From Coq Require Import List NArith Bool PeanoNat Lia Permutation.
From C22 Require Import Model Maps.
Import ListNotations.

(* ---- a transaction universe (DAG): ids identify transactions, an output id
   belongs to one transaction, non-original outputs are never spent -------- *)
Definition wf_univ (U : list tx) : Prop :=
  (forall t1 t2, In t1 U -> In t2 U -> tid t1 = tid t2 -> t1 = t2) /\
  (forall t1 t2 o, In t1 U -> In t2 U ->
     In o (map fst (outs t1)) -> In o (map fst (outs t2)) -> t1 = t2) /\
  (forall t1 t2 o, In t1 U -> In t2 U -> In (o, false) (outs t1) -> ~ In o (ins t2)).

(* ---- the invariant ------------------------------------------------------ *)
Record binv (U : list tx) (st : state) : Prop := {
  b_pool : forall h t, lookup (pool st) h = Some t -> tid t = h /\ In t U;
  b_orph : forall h e, lookup (orphans st) h = Some e -> tid (otx e) = h /\ In (otx e) U;
  (* (i) the output index lists exactly the original outputs of pooled transactions *)
  b_utxo : forall o, has (utxo st) o = true <->
                     exists h t, lookup (pool st) h = Some t /\ In (o, true) (outs t);
  (* (ii, second half) every index entry points to a live orphan that spends the output *)
  b_idx : forall o inner h t, lookup (obp st) o = Some inner -> In (h, t) inner ->
            In o (ins t) /\ exists e, lookup (orphans st) h = Some e /\ otx e = t;
  (* (iii) *)
  b_disj : forall h, has (pool st) h = true -> has (orphans st) h = true -> False
}.

(* (ii, first half) every orphan is indexed under each output it waits for *)
Definition winv (c : list N) (st : state) : Prop :=
  forall h e o, lookup (orphans st) h = Some e -> In o (ins (otx e)) ->
    avail c st o = false ->
    exists inner, lookup (obp st) o = Some inner /\ In (h, otx e) inner.

Definition complete (c : list N) (st : state) (t : tx) : Prop :=
  forall o, In o (ins t) -> avail c st o = true.

Ltac dmatch E :=
  match goal with
  | |- context [match ?x with Some _ => _ | None => _ end] => destruct x eqn:E
  | H : context [match ?x with Some _ => _ | None => _ end] |- _ => destruct x eqn:E
  end.

(* ---- removeOrphan -------------------------------------------------------- *)
Lemma ro_step_P1 h (m : amap (amap tx)) a o i1 :
  lookup (remove_orphan_step h m a) o = Some i1 ->
  exists i, lookup m o = Some i /\ (forall x, In x i1 -> In x i) /\
            (o = a -> forall t, ~ In (h, t) i1).
Proof.
  unfold remove_orphan_step. destruct (lookup m a) as [ia|] eqn:Ea.
  - destruct (remove h ia) as [|p l] eqn:R.
    + rewrite lookup_remove. destruct (N.eqb_spec a o); [discriminate|].
      intros H. exists i1. split; [exact H|]. split; [auto|]. intros; subst; contradiction.
    + rewrite lookup_insert. destruct (N.eqb_spec a o).
      * subst. intros H. inversion H; subst i1. exists ia. split; [exact Ea|]. split.
        -- intros [k v] Hx. rewrite <- R in Hx. apply In_remove in Hx. tauto.
        -- intros _ t Hx. rewrite <- R in Hx. apply In_remove in Hx. destruct Hx as [_ Hx]. apply Hx; reflexivity.
      * intros H. exists i1. split; [exact H|]. split; [auto|]. intros; subst; contradiction.
  - intros H. exists i1. split; [exact H|]. split; [auto|].
    intros -> . rewrite Ea in H. discriminate.
Qed.

Lemma ro_fold_P1 h os : forall (m : amap (amap tx)) o i1,
  lookup (fold_left (remove_orphan_step h) os m) o = Some i1 ->
  exists i, lookup m o = Some i /\ (forall x, In x i1 -> In x i) /\
            (In o os -> forall t, ~ In (h, t) i1).
Proof.
  induction os as [|a os IH]; cbn; intros m o i1 H.
  - exists i1. split; [exact H|]. split; [auto|]. tauto.
  - apply IH in H. destruct H as [i2 [H2 [Hs Hn]]].
    apply ro_step_P1 in H2. destruct H2 as [i [Hi [Hs2 Hn2]]].
    exists i. split; [exact Hi|]. split; [auto|].
    intros [Ha|Ho] t Hin.
    + apply (Hn2 (eq_sym Ha) t). auto.
    + apply (Hn Ho t Hin).
Qed.

Lemma ro_step_P2 h (m : amap (amap tx)) a o i h' t' :
  lookup m o = Some i -> In (h', t') i -> h' <> h ->
  exists i', lookup (remove_orphan_step h m a) o = Some i' /\ In (h', t') i'.
Proof.
  intros Hl Hin Hn. unfold remove_orphan_step. destruct (lookup m a) as [ia|] eqn:Ea.
  - destruct (N.eqb_spec a o).
    + subst a. rewrite Hl in Ea. inversion Ea; subst ia.
      assert (Hr : In (h', t') (remove h i)) by (apply In_remove_intro; assumption).
      destruct (remove h i) as [|p l] eqn:R; [destruct Hr|].
      exists (p :: l). cbv beta iota. rewrite lookup_insert_eq. split; [reflexivity|exact Hr].
    + destruct (remove h ia) as [|p l]; cbv beta iota.
      * exists i. rewrite lookup_remove_neq by assumption. split; assumption.
      * exists i. rewrite lookup_insert_neq by assumption. split; assumption.
  - exists i. split; assumption.
Qed.

Lemma ro_fold_P2 h os : forall (m : amap (amap tx)) o i h' t',
  lookup m o = Some i -> In (h', t') i -> h' <> h ->
  exists i', lookup (fold_left (remove_orphan_step h) os m) o = Some i' /\ In (h', t') i'.
Proof.
  induction os as [|a os IH]; cbn; intros m o i h' t' Hl Hin Hn.
  - exists i. split; assumption.
  - destruct (ro_step_P2 h m a o i h' t' Hl Hin Hn) as [i1 [H1 H1in]].
    eapply IH; eassumption.
Qed.

Lemma remove_orphan_pool st h : pool (remove_orphan st h) = pool st.
Proof. unfold remove_orphan. destruct (lookup (orphans st) h); reflexivity. Qed.

Lemma remove_orphan_utxo st h : utxo (remove_orphan st h) = utxo st.
Proof. unfold remove_orphan. destruct (lookup (orphans st) h); reflexivity. Qed.

Lemma remove_orphan_orphans st h h' :
  lookup (orphans (remove_orphan st h)) h' =
  if N.eqb h h' then None else lookup (orphans st) h'.
Proof.
  unfold remove_orphan. destruct (lookup (orphans st) h) eqn:E; cbn.
  - apply lookup_remove.
  - destruct (N.eqb_spec h h'); [subst; exact E|reflexivity].
Qed.

Lemma remove_orphan_avail c st h o : avail c (remove_orphan st h) o = avail c st o.
Proof. unfold avail. rewrite remove_orphan_utxo. reflexivity. Qed.

Lemma remove_orphan_sub st h o i1 :
  lookup (obp (remove_orphan st h)) o = Some i1 ->
  exists i, lookup (obp st) o = Some i /\ (forall x, In x i1 -> In x i).
Proof.
  unfold remove_orphan. destruct (lookup (orphans st) h) as [e|]; cbn; intros H.
  - apply ro_fold_P1 in H. destruct H as [i [H1 [H2 _]]]. eauto.
  - eauto.
Qed.

Lemma remove_orphan_keep st h o i h' t' :
  lookup (obp st) o = Some i -> In (h', t') i -> h' <> h ->
  exists i', lookup (obp (remove_orphan st h)) o = Some i' /\ In (h', t') i'.
Proof.
  intros Hl Hin Hn. unfold remove_orphan. destruct (lookup (orphans st) h) as [e|]; cbn.
  - eapply ro_fold_P2; eassumption.
  - eauto.
Qed.

Lemma remove_orphan_binv U st h : binv U st -> binv U (remove_orphan st h).
Proof.
  intros B. destruct (lookup (orphans st) h) as [e|] eqn:E.
  2:{ unfold remove_orphan. rewrite E. exact B. }
  constructor.
  - rewrite remove_orphan_pool. apply (b_pool _ _ B).
  - intros h' e'. rewrite remove_orphan_orphans. destruct (N.eqb h h'); [discriminate|].
    apply (b_orph _ _ B).
  - intros o. rewrite remove_orphan_utxo, remove_orphan_pool. apply (b_utxo _ _ B).
  - intros o i1 h' t Hl Hin. unfold remove_orphan in Hl. rewrite E in Hl. cbn in Hl.
    apply ro_fold_P1 in Hl. destruct Hl as [i [Hi [Hs Hn]]].
    destruct (b_idx _ _ B o i h' t Hi (Hs _ Hin)) as [Ho [e' [He' Ht]]].
    split; [exact Ho|]. exists e'. split; [|exact Ht].
    rewrite remove_orphan_orphans. destruct (N.eqb_spec h h'); [|exact He'].
    subst h'. exfalso. rewrite E in He'. inversion He'; subst e'. subst t.
    exact (Hn Ho _ Hin).
  - intros h'. rewrite remove_orphan_pool. intros Hp Ho.
    apply (b_disj _ _ B h' Hp). apply has_true in Ho. destruct Ho as [e' Ho].
    rewrite remove_orphan_orphans in Ho. destruct (N.eqb h h'); [discriminate|].
    apply has_true; eauto.
Qed.

Lemma remove_orphan_winv U c st h : binv U st -> winv c st -> winv c (remove_orphan st h).
Proof.
  intros B W h' e o He Ho Ha. rewrite remove_orphan_orphans in He.
  destruct (N.eqb_spec h h'); [discriminate|]. rewrite remove_orphan_avail in Ha.
  destruct (W h' e o He Ho Ha) as [i [Hi Hin]].
  eapply remove_orphan_keep; eauto.
Qed.

(* ---- the pool/utxo update of addTransaction ------------------------------ *)
Definition plain_add (st : state) (t : tx) : state :=
  mkState (insert (tid t) t (pool st))
          (fold_left (add_utxo_step (tid t)) (outs t) (utxo st))
          (orphans st) (obp st).

Lemma add_transaction_eq st t :
  add_transaction st t = plain_add (remove_orphan st (tid t)) t.
Proof. reflexivity. Qed.

Lemma add_utxo_has h os : forall u o,
  has (fold_left (add_utxo_step h) os u) o = true <-> has u o = true \/ In (o, true) os.
Proof.
  induction os as [|[o1 b] os IH]; cbn; intros u o.
  - tauto.
  - rewrite IH. unfold add_utxo_step; cbn. destruct b.
    + rewrite has_insert. rewrite orb_true_iff. rewrite N.eqb_eq. split.
      * intros [[H|H]|H]; auto. subst. auto.
      * intros [H|[H|H]]; auto. inversion H; auto.
    + split.
      * intros [H|H]; auto.
      * intros [H|[H|H]]; auto. inversion H.
Qed.

Lemma plain_add_avail_mono c st t o : avail c st o = true -> avail c (plain_add st t) o = true.
Proof.
  unfold avail. rewrite !orb_true_iff. intros [H|H]; [left; exact H|right].
  cbn. apply add_utxo_has. auto.
Qed.

Lemma plain_add_binv U st t :
  wf_univ U -> In t U -> binv U st -> has (orphans st) (tid t) = false ->
  binv U (plain_add st t).
Proof.
  intros [C1 [C2 C3]] HU B Hno. constructor; unfold plain_add; cbn [pool utxo orphans obp].
  - intros h t'. rewrite lookup_insert. destruct (N.eqb_spec (tid t) h).
    + intros H; inversion H; subst. auto.
    + apply (b_pool _ _ B).
  - apply (b_orph _ _ B).
  - intros o. rewrite add_utxo_has. rewrite (b_utxo _ _ B). split.
    + intros [[h [t' [Hl Hin]]]|Hin].
      * destruct (N.eqb_spec (tid t) h).
        -- exists h, t. rewrite lookup_insert. subst h. rewrite N.eqb_refl. split; [reflexivity|].
           destruct (b_pool _ _ B _ _ Hl) as [Ht HU'].
           assert (t' = t) by (apply C1; auto). subst; exact Hin.
        -- exists h, t'. rewrite lookup_insert_neq by assumption. auto.
      * exists (tid t), t. rewrite lookup_insert_eq. auto.
    + intros [h [t' [Hl Hin]]]. rewrite lookup_insert in Hl. destruct (N.eqb_spec (tid t) h).
      * inversion Hl; subst. right; exact Hin.
      * left. eauto.
  - apply (b_idx _ _ B).
  - intros h. rewrite has_insert. rewrite orb_true_iff. rewrite N.eqb_eq. intros [H|H] Ho.
    + subst h. rewrite Ho in Hno. discriminate.
    + apply (b_disj _ _ B h H Ho).
Qed.

Lemma add_transaction_binv U st t :
  wf_univ U -> In t U -> binv U st -> binv U (add_transaction st t).
Proof.
  intros WF HU B. rewrite add_transaction_eq. apply plain_add_binv; auto.
  - apply remove_orphan_binv; exact B.
  - apply has_false. rewrite remove_orphan_orphans. rewrite N.eqb_refl. reflexivity.
Qed.

(* ---- addOrphan ------------------------------------------------------------ *)
Lemma ao_fold_src t req : forall (m : amap (amap tx)) o i1 h' t',
  lookup (fold_left (add_orphan_step t) req m) o = Some i1 -> In (h', t') i1 ->
  (h' = tid t /\ t' = t /\ In o req) \/ (exists i, lookup m o = Some i /\ In (h', t') i).
Proof.
  induction req as [|a req IH]; cbn; intros m o i1 h' t' Hl Hin.
  - right; eauto.
  - destruct (IH _ _ _ _ _ Hl Hin) as [[H1 [H2 H3]]|[i [Hi Hini]]]; [left; auto|].
    unfold add_orphan_step in Hi. rewrite lookup_insert in Hi. destruct (N.eqb_spec a o).
    + subst a. inversion Hi; subst i. apply In_insert in Hini.
      destruct Hini as [[E1 E2]|[Hini _]]; [left; auto|].
      destruct (lookup m o) as [i0|]; [|destruct Hini]. right; eauto.
    + right; eauto.
Qed.

Lemma ao_fold_keep t req : forall (m : amap (amap tx)) o i h' t',
  lookup m o = Some i -> In (h', t') i -> (h' = tid t -> t' = t) ->
  exists i1, lookup (fold_left (add_orphan_step t) req m) o = Some i1 /\ In (h', t') i1.
Proof.
  induction req as [|a req IH]; cbn; intros m o i h' t' Hl Hin Hc.
  - eauto.
  - destruct (N.eqb_spec a o).
    + subst a. eapply IH with (i := insert (tid t) t i); [| |exact Hc].
      * unfold add_orphan_step. rewrite lookup_insert_eq. rewrite Hl. reflexivity.
      * destruct (N.eq_dec h' (tid t)).
        -- rewrite (Hc e), e. left; reflexivity.
        -- right. apply In_remove_intro; assumption.
    + eapply IH; [|exact Hin|exact Hc]. unfold add_orphan_step.
      rewrite lookup_insert_neq by assumption. exact Hl.
Qed.

Lemma ao_fold_new t req : forall (m : amap (amap tx)) o, In o req ->
  exists i1, lookup (fold_left (add_orphan_step t) req m) o = Some i1 /\ In (tid t, t) i1.
Proof.
  induction req as [|a req IH]; cbn; intros m o Hin; [destruct Hin|].
  destruct (in_dec N.eq_dec o req) as [Hr|Hr].
  - apply IH; exact Hr.
  - destruct Hin as [->|Hin]; [|contradiction].
    eapply ao_fold_keep with (i := insert (tid t) t (match lookup m o with Some i => i | None => [] end)).
    + unfold add_orphan_step. rewrite lookup_insert_eq. reflexivity.
    + left; reflexivity.
    + auto.
Qed.

Lemma add_orphan_binv U st now t req :
  wf_univ U -> In t U -> binv U st -> has (pool st) (tid t) = false ->
  (forall o, In o req -> In o (ins t)) ->
  binv U (add_orphan st now t req).
Proof.
  intros [C1 [C2 C3]] HU B Hnp Hreq. constructor; unfold add_orphan; cbn [pool utxo orphans obp].
  - apply (b_pool _ _ B).
  - intros h e. rewrite lookup_insert. destruct (N.eqb_spec (tid t) h).
    + intros H; inversion H; subst; cbn. auto.
    + apply (b_orph _ _ B).
  - apply (b_utxo _ _ B).
  - intros o i1 h' t' Hl Hin.
    destruct (ao_fold_src _ _ _ _ _ _ _ Hl Hin) as [[H1 [H2 H3]]|[i [Hi Hini]]].
    + subst. split; [auto|]. eexists. rewrite lookup_insert_eq. split; reflexivity.
    + destruct (b_idx _ _ B _ _ _ _ Hi Hini) as [Ho [e [He Ht]]]. split; [exact Ho|].
      rewrite lookup_insert. destruct (N.eqb_spec (tid t) h').
      * eexists; split; [reflexivity|]. cbn.
        destruct (b_orph _ _ B _ _ He) as [Hid HU']. subst t'. apply C1; auto. congruence.
      * eauto.
  - intros h Hp. rewrite has_insert. rewrite orb_true_iff. rewrite N.eqb_eq. intros [H|H].
    + subst h. rewrite Hp in Hnp. discriminate.
    + apply (b_disj _ _ B h Hp H).
Qed.

Lemma add_orphan_winv U c st now t :
  wf_univ U -> In t U -> binv U st -> winv c st ->
  winv c (add_orphan st now t (missing c st t)).
Proof.
  intros [C1 [C2 C3]] HU B W h e o He Ho Ha. unfold add_orphan in He; cbn [orphans] in He.
  assert (Hav : avail c st o = false) by exact Ha.
  rewrite lookup_insert in He. destruct (N.eqb_spec (tid t) h).
  - inversion He; subst e; cbn [otx] in *. subst h. unfold add_orphan; cbn [obp].
    apply ao_fold_new. unfold missing. apply filter_In. split; [exact Ho|].
    rewrite Hav. reflexivity.
  - destruct (W h e o He Ho Hav) as [i [Hi Hin]]. unfold add_orphan; cbn [obp].
    eapply ao_fold_keep; [exact Hi|exact Hin|].
    intros Hh. exfalso. destruct (b_orph _ _ B _ _ He) as [Hid _]. congruence.
Qed.

(* ---- RemoveTransaction ----------------------------------------------------- *)
Lemma rm_utxo_has (os : list (N * bool)) : forall (u : amap N) o,
  has (fold_left (fun u o => remove (fst o) u) os u) o = true <->
  has u o = true /\ ~ In o (map fst os).
Proof.
  induction os as [|[o1 b] os IH]; cbn; intros u o.
  - tauto.
  - rewrite IH. rewrite has_remove. rewrite andb_true_iff, negb_true_iff, N.eqb_neq. tauto.
Qed.

Lemma remove_transaction_binv U st h :
  wf_univ U -> binv U st -> binv U (remove_transaction st h).
Proof.
  intros [C1 [C2 C3]] B. unfold remove_transaction.
  destruct (lookup (pool st) h) as [t|] eqn:E; [|exact B].
  destruct (b_pool _ _ B _ _ E) as [Hid HU].
  constructor; cbn [pool utxo orphans obp].
  - intros h' t'. rewrite lookup_remove. destruct (N.eqb h h'); [discriminate|]. apply (b_pool _ _ B).
  - apply (b_orph _ _ B).
  - intros o. rewrite rm_utxo_has. rewrite (b_utxo _ _ B). split.
    + intros [[h' [t' [Hl Hin]]] Hn]. exists h', t'. split; [|exact Hin].
      rewrite lookup_remove. destruct (N.eqb_spec h h'); [|exact Hl].
      subst h'. rewrite E in Hl. inversion Hl; subst t'. exfalso. apply Hn.
      apply in_map_iff. exists (o, true). auto.
    + intros [h' [t' [Hl Hin]]]. rewrite lookup_remove in Hl.
      destruct (N.eqb_spec h h'); [discriminate|]. split; [eauto|].
      intros Hm. destruct (b_pool _ _ B _ _ Hl) as [Hid' HU'].
      assert (t' = t).
      { apply (C2 t' t o); auto. apply in_map_iff. exists (o, true). auto. }
      subst t'. congruence.
  - apply (b_idx _ _ B).
  - intros h'. rewrite has_remove. rewrite andb_true_iff. intros [_ Hp]. apply (b_disj _ _ B h' Hp).
Qed.

(* ---- size of the index (termination measure of processOrphans) ------------ *)
Lemma obp_size_cons k v (m : amap (amap tx)) : obp_size ((k, v) :: m) = length v + obp_size m.
Proof. reflexivity. Qed.

Lemma obp_size_remove o (m : amap (amap tx)) : obp_size (remove o m) <= obp_size m.
Proof.
  induction m as [|[k v] m IHm]; [cbn; lia|]. cbn [remove].
  destruct (N.eqb k o); rewrite ?obp_size_cons; lia.
Qed.

Lemma obp_size_lookup (m : amap (amap tx)) o i :
  lookup m o = Some i -> obp_size (remove o m) + length i <= obp_size m.
Proof.
  induction m as [|[k v] m IHm]; cbn [lookup remove]; [discriminate|].
  destruct (N.eqb_spec k o).
  - intros H; inversion H; subst. pose proof (obp_size_remove o m). rewrite obp_size_cons. lia.
  - intros H. rewrite !obp_size_cons. apply IHm in H. lia.
Qed.

Lemma ro_step_size h (m : amap (amap tx)) a : obp_size (remove_orphan_step h m a) <= obp_size m.
Proof.
  unfold remove_orphan_step. destruct (lookup m a) as [ia|] eqn:Ea; [|lia].
  pose proof (obp_size_lookup m a ia Ea) as Hs.
  pose proof (length_remove ia h) as Hl.
  destruct (remove h ia) as [|p l] eqn:R.
  - cbv beta iota. lia.
  - cbv beta iota. unfold insert. rewrite obp_size_cons. lia.
Qed.

Lemma remove_orphan_size st h : obp_size (obp (remove_orphan st h)) <= obp_size (obp st).
Proof.
  unfold remove_orphan. destruct (lookup (orphans st) h) as [e|]; cbn [obp]; [|lia].
  generalize (obp st). induction (ins (otx e)) as [|a os IH]; cbn [fold_left]; intros m; [lia|].
  pose proof (ro_step_size h m a). specialize (IH (remove_orphan_step h m a)). lia.
Qed.

(* ---- addRely ---------------------------------------------------------------- *)
Section Rely.
  Variable ordP : N -> amap tx -> amap tx.
  Hypothesis ordP_perm : forall o l, Permutation (ordP o l) l.

  Lemma ar_fold_spec os : forall (m : amap (amap tx)) wl (m' : amap (amap tx)) wl',
    fold_left (add_rely_step ordP) os (m, wl) = (m', wl') ->
    (forall o i, lookup m' o = Some i -> lookup m o = Some i /\ ~ In o os) /\
    (forall o i, lookup m o = Some i -> ~ In o os -> lookup m' o = Some i) /\
    (forall o i h t, lookup m o = Some i -> In o os -> In (h, t) i -> In t wl') /\
    (forall t, In t wl -> In t wl') /\
    (forall t, In t wl' -> In t wl \/ exists o i h, lookup m o = Some i /\ In (h, t) i) /\
    obp_size m' + length wl' <= obp_size m + length wl.
  Proof.
    induction os as [|a os IH]; cbn; intros m wl m' wl' H.
    - inversion H; subst. repeat split; auto; try tauto.
    - unfold add_rely_step at 2 in H. cbn in H.
      destruct (lookup m a) as [ia|] eqn:Ea.
      + apply IH in H. destruct H as [H1 [H2 [H3 [H4 [H5 H6]]]]].
        split; [|split; [|split; [|split; [|split]]]].
        * intros o i H. apply H1 in H. destruct H as [H Hn]. rewrite lookup_remove in H.
          destruct (N.eqb_spec a o); [discriminate|]. split; [exact H|]. intros [X|X]; auto.
        * intros o i Hl Hn. apply H2; [|tauto]. rewrite lookup_remove_neq; [exact Hl|].
          intros ->; apply Hn; auto.
        * intros o i h t Hl Hin Hi. destruct (N.eqb_spec a o).
          -- subst a. rewrite Hl in Ea. inversion Ea; subst ia. apply H4.
             apply in_or_app. right. apply in_map_iff. exists (h, t). split; [reflexivity|].
             apply (Permutation_in _ (Permutation_sym (ordP_perm o i))). exact Hi.
          -- destruct Hin as [Hin|Hin]; [contradiction|].
             apply (H3 o i h t); auto. rewrite lookup_remove_neq; assumption.
        * intros t Hin. apply H4. apply in_or_app; auto.
        * intros t Hin. apply H5 in Hin. destruct Hin as [Hin|[o [i [h [Hl Hi]]]]].
          -- apply in_app_or in Hin. destruct Hin as [Hin|Hin]; [auto|].
             apply in_map_iff in Hin. destruct Hin as [[h t'] [E Hin]]. cbn in E; subst t'.
             right. exists a, ia, h. split; [exact Ea|].
             apply (Permutation_in _ (ordP_perm a ia)). exact Hin.
          -- right. rewrite lookup_remove in Hl. destruct (N.eqb a o); [discriminate|]. eauto.
        * rewrite app_length, map_length in H6.
          rewrite (Permutation_length (ordP_perm a ia)) in H6.
          pose proof (obp_size_lookup m a ia Ea).
          lia.
      + apply IH in H. destruct H as [H1 [H2 [H3 [H4 [H5 H6]]]]].
        split; [|split; [|split; [|split; [|split]]]].
        * intros o i H. apply H1 in H. destruct H as [H Hn]. split; [exact H|]. intros [X|X]; [|auto].
          subst a. rewrite Ea in H. discriminate.
        * intros o i Hl Hn. apply H2; tauto.
        * intros o i h t Hl Hin Hi. destruct Hin as [Hin|Hin].
          -- subst a. rewrite Ea in Hl. discriminate.
          -- eapply H3; eauto.
        * exact H4.
        * exact H5.
        * exact H6.
  Qed.

  Lemma add_rely_spec (m : amap (amap tx)) wl t (m' : amap (amap tx)) wl' :
    add_rely ordP m wl t = (m', wl') ->
    (forall o i, lookup m' o = Some i -> lookup m o = Some i /\ ~ In o (map fst (outs t))) /\
    (forall o i, lookup m o = Some i -> ~ In o (map fst (outs t)) -> lookup m' o = Some i) /\
    (forall o i h x, lookup m o = Some i -> In o (map fst (outs t)) -> In (h, x) i -> In x wl') /\
    (forall x, In x wl -> In x wl') /\
    (forall x, In x wl' -> In x wl \/ exists o i h, lookup m o = Some i /\ In (h, x) i) /\
    obp_size m' + length wl' <= obp_size m + length wl.
  Proof. apply ar_fold_spec. Qed.
End Rely.

