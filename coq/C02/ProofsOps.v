(* C02 — exec_op of every instruction used by the standard programs, on an
   explicit machine state, with the exact gas accounting. *)
From Coq Require Import List ZArith NArith Bool Lia ZifyBool ZifyN ZifyNat.
From Verif Require Import Cmp VM.
From C02 Require Import Model ProofsVM.
Import ListNotations.
Open Scope Z_scope.

Ltac vmred := cbv beta iota zeta delta [exec_op n_dup n_dup_go bind ret fail lift get apply_cost defer_cost push push_alt
  push_bool push_bigint pop pop_bigint top do_equal do_hash
  set_runlimit set_deferred set_dstack set_astack set_nextpc set_pc set_vdata
  prog pc nextpc runlimit deferred expres vdata dstack astack Nat.ltb Nat.leb nth Nat.sub].
Ltac zsolve := unfold item_cost, nlen, bool_bytes in *; cbn [length] in *; lia.
Ltac gasok := match goal with |- context [Z.ltb ?a ?b] => replace (Z.ltb a b) with false by zsolve end.
Ltac stfin := try reflexivity; (f_equal; f_equal; zsolve).

Section Ops.
  Variable cr : crypto.
  Variable cx : context.

  Lemma popn_ok : forall l P pcv npc rl df er vd rest al,
    popn (length l) true (st P pcv npc rl df er vd (l ++ rest) al) =
    ROk l (st P pcv npc rl (df - stack_cost l) er vd rest al).
  Proof.
    induction l as [|x l IH]; intros.
    - cbn [length popn app]. unfold ret. change (stack_cost []) with 0. rewrite Z.sub_0_r. reflexivity.
    - cbn [length popn app]. unfold bind at 1. unfold pop at 1. vmred.
      unfold bind. rewrite IH. unfold ret. rewrite stack_cost_cons. f_equal. f_equal. lia.
  Qed.

  Lemma popn_short : forall k P pcv npc rl df er vd ds al, (length ds < k)%nat ->
    exists s', popn k true (st P pcv npc rl df er vd ds al) = RErr EDataStackUnderflow s'.
  Proof.
    induction k as [|k IH]; intros; [lia|].
    cbn [popn]. unfold bind at 1. unfold pop at 1. vmred. destruct ds as [|x ds].
    - eexists. reflexivity.
    - cbn [length] in H. unfold bind.
      edestruct (IH P pcv npc rl (df - item_cost x) er vd ds al) as [s' Hs]; [lia|].
      rewrite Hs. eexists. reflexivity.
  Qed.

  Lemma existsb_len32 pkl : forallb (fun p : item => (length p =? 32)%nat) pkl = true ->
    existsb (fun p : item => negb (length p =? 32)%nat) pkl = false.
  Proof.
    induction pkl as [|p l IH]; cbn; [reflexivity|]. intros H. apply andb_prop in H. destruct H as [H1 H2].
    rewrite H1, IH by assumption. reflexivity.
  Qed.

  (* DUP *)
  Lemma exec_dup rc P pcv npc rl df er vd x ds al : 1 + item_cost x <= rl ->
    exec_op cr cx rc 118 (st P pcv npc rl df er vd (x :: ds) al) =
    ROk tt (st P pcv npc (rl - 1 - item_cost x) df er vd (x :: x :: ds) al).
  Proof. intros H. vmred. repeat (gasok; vmred). cbn [length]. vmred. repeat (gasok; vmred). stfin. Qed.
  Lemma exec_dup_empty rc P pcv npc rl df er vd al : 1 <= rl ->
    exists s', exec_op cr cx rc 118 (st P pcv npc rl df er vd [] al) = RErr EDataStackUnderflow s'.
  Proof. intros H. vmred. repeat (gasok; vmred). cbn [length]. vmred. eexists. reflexivity. Qed.

  (* HASH160 *)
  Lemma exec_hash160 rc P pcv npc rl df er vd x ds al : 56 + item_cost (h_ripemd160 cr x) <= rl ->
    exec_op cr cx rc 171 (st P pcv npc rl df er vd (x :: ds) al) =
    ROk tt (st P pcv npc (rl - 56 - item_cost (h_ripemd160 cr x)) df er vd (h_ripemd160 cr x :: ds) al).
  Proof. intros H. vmred. repeat (gasok; vmred). stfin. Qed.

  (* SHA3 *)
  Lemma exec_sha3 rc P pcv npc rl df er vd x ds al :
    Z.max (nlen x) 64 - item_cost x + item_cost (h_sha3 cr x) <= rl -> 0 <= rl ->
    exec_op cr cx rc 170 (st P pcv npc rl df er vd (x :: ds) al) =
    ROk tt (st P pcv npc (rl + item_cost x - Z.max (nlen x) 64 - item_cost (h_sha3 cr x)) df er vd (h_sha3 cr x :: ds) al).
  Proof. intros H H0. vmred. repeat (gasok; vmred). stfin. Qed.

  (* data push (OP_DATA_n, OP_1..OP_16): pushes vdata *)
  Lemma exec_push rc op P pcv npc rl df er vd ds al : ((1 <= op <= 75) \/ (81 <= op <= 96))%N ->
    1 + item_cost vd <= rl ->
    exec_op cr cx rc op (st P pcv npc rl df er vd ds al) =
    ROk tt (st P pcv npc (rl - 1 - item_cost vd) df er vd (vd :: ds) al).
  Proof. intros Ho H. rewrite exec_pushdata by assumption. vmred. repeat (gasok; vmred). stfin. Qed.

  (* OP_0 / FALSE *)
  Lemma exec_false rc P pcv npc rl df er vd ds al : 9 <= rl ->
    exec_op cr cx rc 0 (st P pcv npc rl df er vd ds al) =
    ROk tt (st P pcv npc (rl - 9) df er vd ([] :: ds) al).
  Proof. intros H. vmred. repeat (gasok; vmred). stfin. Qed.

  (* EQUALVERIFY *)
  Lemma exec_equalverify rc P pcv npc rl df er vd a b ds al : 1 + Z.min (nlen a) (nlen b) <= rl ->
    exec_op cr cx rc 136 (st P pcv npc rl df er vd (b :: a :: ds) al) =
    if bytes_eqb a b
    then ROk tt (st P pcv npc (rl - 1 - Z.min (nlen a) (nlen b)) (df - item_cost b - item_cost a) er vd ds al)
    else RErr EVerifyFailed (st P pcv npc (rl - 1 - Z.min (nlen a) (nlen b)) (df - item_cost b - item_cost a) er vd ds al).
  Proof. intros H. vmred. repeat (gasok; vmred). destruct (bytes_eqb a b); vmred; stfin. Qed.

  (* TXSIGHASH *)
  Lemma exec_txsighash rc sh P pcv npc rl df er vd ds al : cx_txsighash cx = Some sh ->
    256 + item_cost sh <= rl ->
    exec_op cr cx rc 174 (st P pcv npc rl df er vd ds al) =
    ROk tt (st P pcv npc (rl - 256 - item_cost sh) df er vd (sh :: ds) al).
  Proof. intros Hs H. vmred. repeat (gasok; vmred). rewrite Hs. vmred. repeat (gasok; vmred). stfin. Qed.

  (* SWAP *)
  Lemma exec_swap rc P pcv npc rl df er vd a b ds al : 1 <= rl ->
    exec_op cr cx rc 124 (st P pcv npc rl df er vd (a :: b :: ds) al) =
    ROk tt (st P pcv npc (rl - 1) df er vd (b :: a :: ds) al).
  Proof. intros H. vmred. repeat (gasok; vmred). stfin. Qed.

  (* CHECKSIG *)
  Lemma exec_checksig rc P pcv npc rl df er vd pk msg sg ds al : 1024 <= rl -> length msg = 32%nat ->
    exec_op cr cx rc 172 (st P pcv npc rl df er vd (pk :: msg :: sg :: ds) al) =
    let r := (length pk =? 32)%nat && sig_verify cr pk msg sg in
    ROk tt (st P pcv npc (rl - 1024) (df - item_cost pk - item_cost msg - item_cost sg + item_cost (bool_bytes r))
               er vd (bool_bytes r :: ds) al).
  Proof.
    intros H Hm. vmred. repeat (gasok; vmred). rewrite Hm. cbn [Nat.eqb negb]. vmred.
    destruct (length pk =? 32)%nat; cbn [negb andb]; vmred; stfin.
  Qed.
  Lemma exec_checksig_short rc P pcv npc rl df er vd ds al : 1024 <= rl -> (length ds < 3)%nat ->
    exists e s', exec_op cr cx rc 172 (st P pcv npc rl df er vd ds al) = RErr e s'.
  Proof.
    intros H Hl. vmred. repeat (gasok; vmred).
    destruct ds as [|a [|b [|c ds]]]; cbn [length] in Hl; try lia; vmred; do 2 eexists; reflexivity.
  Qed.

  (* CHECKMULTISIG *)
  Lemma exec_cms rc P pcv npc rl df er vd ni mi pkl msg sgl rest al :
    as_bigint ni = inr (N.of_nat (length pkl)) -> as_bigint mi = inr (N.of_nat (length sgl)) ->
    Z.of_nat (length pkl) * 1024 <= rl -> Z.of_nat (length pkl) * 1024 <= 2^63 - 1 ->
    (length sgl <= length pkl)%nat -> (length pkl > 0 -> length sgl > 0)%nat ->
    length msg = 32%nat -> forallb (fun p => (length p =? 32)%nat) pkl = true ->
    exec_op cr cx rc 173 (st P pcv npc rl df er vd (ni :: mi :: pkl ++ msg :: sgl ++ rest) al) =
    ROk tt (st P pcv npc (rl - Z.of_nat (length pkl) * 1024)
               (df - item_cost ni - item_cost mi - stack_cost pkl - item_cost msg - stack_cost sgl
                + item_cost (bool_bytes (multisig_scan cr msg sgl pkl)))
               er vd (bool_bytes (multisig_scan cr msg sgl pkl) :: rest) al).
  Proof.
    intros Hn Hm Hg Ho Hle Hz Hmsg Hpk. vmred. rewrite Hn. vmred.
    unfold bigint_int64, two63. replace (2 ^ 63 <=? N.of_nat (length pkl))%N with false by lia. vmred.
    replace (2 ^ 63 - 1 <? Z.of_N (N.of_nat (length pkl)) * 1024) with false by lia. vmred. gasok. vmred.
    rewrite Hm. vmred. replace (2 ^ 63 <=? N.of_nat (length sgl))%N with false by lia. vmred.
    match goal with |- context [if ?c then fun s => RErr EBadValue s else _] => replace c with false by lia end.
    vmred. replace (Z.to_nat (Z.of_N (N.of_nat (length pkl)))) with (length pkl) by lia.
    rewrite popn_ok. vmred. rewrite Hmsg. cbn [Nat.eqb negb]. vmred.
    replace (Z.to_nat (Z.of_N (N.of_nat (length sgl)))) with (length sgl) by lia.
    rewrite popn_ok. rewrite existsb_len32 by assumption. vmred.
    f_equal. f_equal; lia.
  Qed.

  (* fewer than m items below the message: underflow *)
  Lemma exec_cms_short rc P pcv npc rl df er vd ni mi pkl msg (m : nat) ds al :
    as_bigint ni = inr (N.of_nat (length pkl)) -> as_bigint mi = inr (N.of_nat m) ->
    Z.of_nat (length pkl) * 1024 <= rl -> Z.of_nat (length pkl) * 1024 <= 2^63 - 1 ->
    (m <= length pkl)%nat -> (length pkl > 0 -> m > 0)%nat ->
    length msg = 32%nat -> (length ds < m)%nat ->
    exists s', exec_op cr cx rc 173 (st P pcv npc rl df er vd (ni :: mi :: pkl ++ msg :: ds) al) =
               RErr EDataStackUnderflow s'.
  Proof.
    intros Hn Hm Hg Ho Hle Hz Hmsg Hs. vmred. rewrite Hn. vmred.
    unfold bigint_int64, two63. replace (2 ^ 63 <=? N.of_nat (length pkl))%N with false by lia. vmred.
    replace (2 ^ 63 - 1 <? Z.of_N (N.of_nat (length pkl)) * 1024) with false by lia. vmred. gasok. vmred.
    rewrite Hm. vmred. replace (2 ^ 63 <=? N.of_nat m)%N with false by lia. vmred.
    match goal with |- context [if ?c then fun s => RErr EBadValue s else _] => replace c with false by lia end.
    vmred. replace (Z.to_nat (Z.of_N (N.of_nat (length pkl)))) with (length pkl) by lia.
    rewrite popn_ok. vmred. rewrite Hmsg. cbn [Nat.eqb negb]. vmred.
    replace (Z.to_nat (Z.of_N (N.of_nat m))) with m by lia.
    match goal with |- context [popn m true ?s] =>
      let H := fresh in
      edestruct (popn_short m) as [s' H]; [exact Hs|]; rewrite H end.
    eexists. reflexivity.
  Qed.
End Ops.
