(* C02 — the greedy scan of opCheckMultiSig is equivalent to the declarative
   "signatures match an order-preserving sub-sequence of the keys". *)
From Coq Require Import List ZArith NArith Bool Lia.
From Verif Require Import Cmp VM.
From C02 Require Import Model.
Import ListNotations.

Lemma forall2_length {A B} (R : A -> B -> Prop) l1 l2 : Forall2 R l1 l2 -> length l1 = length l2.
Proof. induction 1; cbn; congruence. Qed.

Section Scan.
  Variable cr : crypto.
  Variable msg : item.

  (* derivation form of the specification *)
  Inductive ms_match : list item -> list item -> Prop :=
  | mm_nil : forall pks, ms_match [] pks
  | mm_take : forall sg sgs pk pks, sig_verify cr pk msg sg = true -> ms_match sgs pks ->
                                    ms_match (sg :: sgs) (pk :: pks)
  | mm_skip : forall sgs pk pks, ms_match sgs pks -> ms_match sgs (pk :: pks).

  Lemma ms_match_spec sigs pks : ms_match sigs pks <-> multisig_spec cr msg sigs pks.
  Proof.
    split.
    - induction 1 as [pks | sg sgs pk pks Hv _ IH | sgs pk pks _ IH].
      + exists []. split; constructor.
      + destruct IH as [ks [Hs Hf]]. exists (pk :: ks). split; constructor; assumption.
      + destruct IH as [ks [Hs Hf]]. exists ks. split; [constructor|]; assumption.
    - intros [ks [Hs Hf]]. revert sigs Hf.
      induction Hs as [l | x l1 l2 Hs IH | x l1 l2 Hs IH]; intros sigs Hf.
      + inversion Hf; subst. constructor.
      + inversion Hf; subst. apply mm_take; [assumption | apply IH; assumption].
      + apply mm_skip. apply IH. assumption.
  Qed.

  Lemma ms_match_tail sg sgs pks : ms_match (sg :: sgs) pks -> ms_match sgs pks.
  Proof.
    intros H. remember (sg :: sgs) as l eqn:E. revert sg sgs E.
    induction H as [pks | sg' sgs' pk pks Hv H IH | sgs' pk pks H IH]; intros sg sgs E.
    - discriminate.
    - inversion E; subst. apply mm_skip. assumption.
    - apply mm_skip. eapply IH. eassumption.
  Qed.

  Lemma scan_match : forall pks sigs, multisig_scan cr msg sigs pks = true <-> ms_match sigs pks.
  Proof.
    induction pks as [|pk pks IH]; intros sigs.
    - cbn. destruct sigs; split; intros H; try constructor; try discriminate. inversion H.
    - cbn [multisig_scan]. destruct sigs as [|sg sgs].
      + split; intros; [constructor | reflexivity].
      + destruct (sig_verify cr pk msg sg) eqn:V.
        * rewrite IH. split; intros H.
          -- apply mm_take; assumption.
          -- inversion H; subst; [assumption|]. eapply ms_match_tail. eassumption.
        * rewrite IH. split; intros H.
          -- apply mm_skip. assumption.
          -- inversion H; subst; [congruence | assumption].
  Qed.

  Theorem scan_iff_spec sigs pks :
    multisig_scan cr msg sigs pks = true <-> multisig_spec cr msg sigs pks.
  Proof. rewrite scan_match. apply ms_match_spec. Qed.

  (* every signature accepted by the scan verifies under one of the keys *)
  Lemma spec_each_sig sigs pks : multisig_spec cr msg sigs pks ->
    Forall (fun sg => exists pk, In pk pks /\ sig_verify cr pk msg sg = true) sigs.
  Proof.
    intros [ks [Hs Hf]]. revert sigs Hf.
    induction Hs as [l | x l1 l2 Hs IH | x l1 l2 Hs IH]; intros sigs Hf.
    - inversion Hf. constructor.
    - inversion Hf; subst. constructor.
      + exists x. split; [left; reflexivity | assumption].
      + specialize (IH _ H3). eapply Forall_impl; [|exact IH].
        cbn. intros a [pk [Hi Hv]]. exists pk. split; [right|]; assumption.
    - specialize (IH _ Hf). eapply Forall_impl; [|exact IH].
      cbn. intros a [pk [Hi Hv]]. exists pk. split; [right|]; assumption.
  Qed.

  Lemma spec_length sigs pks : multisig_spec cr msg sigs pks -> (length sigs <= length pks)%nat.
  Proof.
    intros [ks [Hs Hf]]. apply forall2_length in Hf. rewrite Hf. clear Hf sigs.
    induction Hs; cbn; lia.
  Qed.
End Scan.

Lemma subseq_rev {A} (l1 l2 : list A) : subseq l1 l2 -> subseq (rev l1) (rev l2).
Proof.
  assert (App : forall (a b c : list A), subseq a b -> subseq a (b ++ c)).
  { intros a b c H. induction H; cbn; constructor; assumption. }
  assert (Snoc : forall (a b : list A) x, subseq a b -> subseq (a ++ [x]) (b ++ [x])).
  { intros a b x H. induction H as [l| |]; cbn.
    - induction l; cbn; constructor. constructor. assumption.
    - constructor; assumption.
    - constructor; assumption. }
  induction 1; cbn.
  - constructor.
  - apply Snoc. assumption.
  - apply App. assumption.
Qed.

Lemma forall2_rev {A B} (R : A -> B -> Prop) l1 l2 : Forall2 R l1 l2 -> Forall2 R (rev l1) (rev l2).
Proof.
  induction 1 as [|x y l1 l2 Hxy H IH]; cbn; [constructor|].
  apply Forall2_app; [assumption | constructor; [assumption | constructor]].
Qed.

Lemma spec_rev cr msg sigs pks : multisig_spec cr msg sigs pks -> multisig_spec cr msg (rev sigs) (rev pks).
Proof.
  intros [ks [Hs Hf]]. exists (rev ks). split; [apply subseq_rev; assumption | apply forall2_rev; assumption].
Qed.

(* stack-level acceptance condition of the m-of-n script in terms of the witness order:
   ds is the data stack (top first) = rev args *)
Lemma scan_witness_iff cr msg (m : nat) (ds pks : list item) :
  ((m <= length ds)%nat /\ multisig_scan cr msg (firstn m ds) (rev pks) = true) <->
  (exists extra sigs, rev ds = extra ++ sigs /\ length sigs = m /\ multisig_spec cr msg sigs pks).
Proof.
  split.
  - intros [Hl Hs]. exists (rev (skipn m ds)), (rev (firstn m ds)). split; [|split].
    + rewrite <- rev_app_distr, firstn_skipn. reflexivity.
    + rewrite rev_length. apply firstn_length_le. assumption.
    + apply scan_iff_spec in Hs. apply spec_rev in Hs. rewrite rev_involutive in Hs. assumption.
  - intros [extra [sigs [E [Hl Hs]]]].
    assert (Eds : ds = rev sigs ++ rev extra) by (rewrite <- rev_app_distr, <- E, rev_involutive; reflexivity).
    subst ds. split.
    + rewrite app_length, rev_length. lia.
    + rewrite firstn_app, rev_length, Hl, Nat.sub_diag. cbn [firstn]. rewrite app_nil_r.
      rewrite <- Hl, <- rev_length, firstn_all. apply scan_iff_spec. apply spec_rev. assumption.
Qed.
