(* C02 — Outputs locked by standard programs are spendable only with a matching
   witness.  PROPERTY THEOREMS ONLY.

   Everything is about the executable VM model Verif.VM run on the exact byte
   programs the node builds (C02.Model).  [accepts cr cx fuel sd args gas] means
   vm.Verify returns no error.  Hash functions and signature verification are
   arbitrary (record [crypto]); the only facts used about them are the output
   lengths (20 / 32 bytes), stated as premises.  Gas sufficiency is an explicit
   premise with a concrete bound; [fuel] only bounds the number of model steps. *)
From Coq Require Import List ZArith NArith Bool.
From Verif Require Import Cmp VM.
From C02 Require Import Model ProofsVM ProofsVerify ProofsScan ProofsP2PKH ProofsMultisig ProofsP2SH ProofsCommit Proofs.
Import ListNotations.
Open Scope Z_scope.

(* P2WPKH: the converted program accepts exactly the witnesses ending in [sig; pubkey] with
   hash160(pubkey) = committed hash and sig a valid signature of THIS sighash under pubkey *)
Theorem c02_p2pkh_iff : forall cr cx other h sh,
  length h = 20%nat -> cx_vmversion cx = 1%N -> cx_code cx = convert_program other (p2w_program h) ->
  cx_txsighash cx = Some sh -> length sh = 32%nat -> (forall x, length (h_ripemd160 cr x) = 20%nat) ->
  forall f sd args gas, p2pkh_gas_bound sd args <= gas ->
    (accepts cr cx (8 + f) sd args gas <->
     exists extra sg pk, args = extra ++ [sg; pk] /\ h_ripemd160 cr pk = h /\ length pk = 32%nat /\
                         sig_verify cr pk sh sg = true).
Proof. exact p2wpkh_iff. Qed.
Print Assumptions c02_p2pkh_iff.

(* the greedy scan of opCheckMultiSig = "the signatures match, in order, a sub-sequence of the keys" (all n) *)
Theorem c02_multisig_scan_iff : forall cr msg sigs pks,
  multisig_scan cr msg sigs pks = true <-> multisig_spec cr msg sigs pks.
Proof. exact scan_iff_spec. Qed.
Print Assumptions c02_multisig_scan_iff.

(* the m-of-n script TXSIGHASH <pk1..pkn> m n CHECKMULTISIG, for every n: accepted iff the last m
   arguments are signatures of the sighash matching an order-preserving sub-sequence of the keys *)
Theorem c02_multisig_iff : forall cr cx sh,
  cx_txsighash cx = Some sh -> length sh = 32%nat ->
  forall pks m, Forall len32 pks -> (m <= length pks)%nat -> (length pks > 0 -> m > 0)%nat ->
  lenok (multisig_body pks (N.of_nat m)) ->
  cx_vmversion cx = 1%N -> cx_code cx = multisig_body pks (N.of_nat m) ->
  forall f sd args gas, stack_cost sd + stack_cost args + ms_gas_bound (length pks) <= gas ->
    (accepts cr cx (length pks + 5 + f) sd args gas <->
     exists extra sigs, args = extra ++ sigs /\ length sigs = m /\ multisig_spec cr sh sigs pks).
Proof. exact multisig_iff. Qed.
Print Assumptions c02_multisig_iff.

(* P2WSH: the converted program accepts iff the last argument is a script with the committed
   sha3 hash and that script accepts the remaining arguments in a child VM *)
Theorem c02_p2sh_iff : forall cr cx other h,
  length h = 32%nat -> cx_vmversion cx = 1%N -> cx_code cx = convert_program other (p2w_program h) ->
  (forall x, length (h_sha3 cr x) = 32%nat) ->
  forall f sd args gas, p2sh_gas_bound sd args <= gas ->
    (accepts cr cx (9 + f) sd args gas <->
     exists rest script, args = rest ++ [script] /\ h_sha3 cr script = h /\
       child_accepts cr cx (S f) script (p2sh_child_limit (gas - stack_cost sd - stack_cost args) script) (rev rest) = true).
Proof. exact p2wsh_iff. Qed.
Print Assumptions c02_p2sh_iff.

(* P2WSH locked to the m-of-n script: exact acceptance condition (the sha3-collision case spelled out) *)
Theorem c02_p2wsh_multisig_iff : forall cr, (forall x, length (h_sha3 cr x) = 32%nat) ->
  forall pks m, Forall len32 pks -> (1 <= m)%nat -> (m <= length pks)%nat ->
  lenok (multisig_body pks (N.of_nat m)) ->
  forall cx sh other f sd args gas,
  cx_vmversion cx = 1%N ->
  cx_code cx = convert_program other (p2w_program (h_sha3 cr (multisig_body pks (N.of_nat m)))) ->
  cx_txsighash cx = Some sh -> length sh = 32%nat ->
  p2wsh_ms_gas_bound pks sd args <= gas ->
  (accepts cr cx (9 + (length pks + 4 + f)) sd args gas <->
   (exists extra sigs, args = extra ++ sigs ++ [multisig_body pks (N.of_nat m)] /\ length sigs = m /\
                       multisig_spec cr sh sigs pks)
   \/ (exists rest script, script <> multisig_body pks (N.of_nat m) /\
         h_sha3 cr script = h_sha3 cr (multisig_body pks (N.of_nat m)) /\ args = rest ++ [script] /\
         child_accepts cr cx (S (length pks + 4 + f)) script
           (p2sh_child_limit (gas - stack_cost sd - stack_cost args) script) (rev rest) = true)).
Proof. exact p2wsh_multisig_iff. Qed.
Print Assumptions c02_p2wsh_multisig_iff.

(* the signature hash sha3(entryID ‖ txID) determines the pair, or exhibits a sha3 collision *)
Theorem c02_sighash_commits : forall cr e t e' t', length e = length e' ->
  tx_sighash cr e t = tx_sighash cr e' t' -> (e = e' /\ t = t') \/ collision (h_sha3 cr).
Proof. exact sighash_commits. Qed.
Print Assumptions c02_sighash_commits.

(* FULL statement of the commitment part (not provable for abstract primitives: it needs
   unforgeability of the signature scheme and collision-freeness of the hashes):
   a witness is accepted only if it consists of signatures made by the committed keys. *)
Definition c02_commitment_full : Prop :=
  forall cr (signed : item -> item -> item -> Prop) pk0 sh0 sg0,
    (forall msg sg, signed pk0 msg sg -> msg = sh0 /\ sg = sg0) ->
    forall cx sh' other f sd args' gas,
      cx_vmversion cx = 1%N -> cx_code cx = convert_program other (p2w_program (h_ripemd160 cr pk0)) ->
      cx_txsighash cx = Some sh' -> length sh' = 32%nat -> p2pkh_gas_bound sd args' <= gas ->
      accepts cr cx (8 + f) sd args' gas ->
      sh' = sh0 /\ exists extra, args' = extra ++ [sg0; pk0].

(* [partial]: under sig_unforgeable (only signatures produced by the key owner verify) and up to an
   explicit hash collision.  If the owner of pk0 signed only sh0 (producing sg0), every accepted
   spend of the P2WPKH output has sighash sh0 and ends in [sg0; pk0]: any change of key,
   signature or signature hash is rejected. *)
Theorem c02_commitment_p2wpkh_partial : forall cr (signed : item -> item -> item -> Prop),
  (forall pk msg sg, sig_verify cr pk msg sg = true -> signed pk msg sg) ->
  (forall x, length (h_ripemd160 cr x) = 20%nat) ->
  forall pk0 sh0 sg0, (forall msg sg, signed pk0 msg sg -> msg = sh0 /\ sg = sg0) ->
  forall cx sh' other f sd args' gas,
    cx_vmversion cx = 1%N -> cx_code cx = convert_program other (p2w_program (h_ripemd160 cr pk0)) ->
    cx_txsighash cx = Some sh' -> length sh' = 32%nat -> p2pkh_gas_bound sd args' <= gas ->
    accepts cr cx (8 + f) sd args' gas ->
    (sh' = sh0 /\ exists extra, args' = extra ++ [sg0; pk0]) \/ collision (h_ripemd160 cr).
Proof. exact p2pkh_commitment. Qed.
Print Assumptions c02_commitment_p2wpkh_partial.

(* [partial]: P2WSH locked to the m-of-n script (m >= 1).  If the owners of the committed keys
   signed only sh0, every accepted spend has sighash sh0, its last argument is the committed
   script, and the m arguments below it are signatures produced by an order-preserving
   sub-sequence of the committed keys over sh0 (so changed, foreign, reordered or missing
   signatures, a changed script or a changed sighash are rejected) - or sha3 collides. *)
Theorem c02_commitment_p2wsh_partial : forall cr,
  (forall x, length (h_sha3 cr x) = 32%nat) ->
  forall (signed : item -> item -> item -> Prop),
  (forall pk msg sg, sig_verify cr pk msg sg = true -> signed pk msg sg) ->
  forall pks m, Forall len32 pks -> (1 <= m)%nat -> (m <= length pks)%nat ->
  lenok (multisig_body pks (N.of_nat m)) ->
  forall sh0, (forall pk msg sg, In pk pks -> signed pk msg sg -> msg = sh0) ->
  forall cx sh' other f sd args' gas,
    cx_vmversion cx = 1%N ->
    cx_code cx = convert_program other (p2w_program (h_sha3 cr (multisig_body pks (N.of_nat m)))) ->
    cx_txsighash cx = Some sh' -> length sh' = 32%nat -> p2wsh_ms_gas_bound pks sd args' <= gas ->
    accepts cr cx (9 + (length pks + 4 + f)) sd args' gas ->
    (sh' = sh0 /\ exists extra sigs ks, args' = extra ++ sigs ++ [multisig_body pks (N.of_nat m)] /\
                    length sigs = m /\ subseq ks pks /\ Forall2 (fun sg pk => signed pk sh0 sg) sigs ks)
    \/ collision (h_sha3 cr).
Proof. exact p2wsh_multisig_commitment. Qed.
Print Assumptions c02_commitment_p2wsh_partial.
