(* C02 — whole steps (parse + exec + deferred cost) for the instructions of
   the standard programs, number pushes, CHECKPREDICATE. *)
From Coq Require Import List ZArith NArith Bool Lia ZifyBool ZifyN ZifyNat.
From Verif Require Import Cmp VM.
From C02 Require Import Model ProofsVM ProofsOps.
Import ListNotations.
Open Scope Z_scope.

(* ---------- numbers pushed by PushDataUint64 ---------- *)

Lemma le_decode_encode_fuel : forall f n, (n < 256 ^ N.of_nat f)%N -> le_decode (le_encode_fuel f n) = n.
Proof.
  induction f as [|f IH]; intros n Hn.
  - cbn in *. lia.
  - cbn [le_encode_fuel]. destruct (n =? 0)%N eqn:E.
    + apply N.eqb_eq in E. subst. reflexivity.
    + cbn [le_decode]. rewrite IH.
      * pose proof (N.div_mod n 256 ltac:(lia)). lia.
      * rewrite Nat2N.inj_succ, N.pow_succ_r' in Hn.
        apply N.div_lt_upper_bound; lia.
Qed.

Lemma le_encode_fuel_len : forall f n j, (n < 256 ^ N.of_nat j)%N -> (length (le_encode_fuel f n) <= j)%nat.
Proof.
  induction f as [|f IH]; intros n j Hn; cbn [le_encode_fuel]; [cbn; lia|].
  destruct (n =? 0)%N eqn:E; [cbn; lia|]. apply N.eqb_neq in E.
  destruct j as [|j]; [cbn in Hn; lia|].
  cbn [length]. apply le_n_S. apply IH.
  rewrite Nat2N.inj_succ, N.pow_succ_r' in Hn. apply N.div_lt_upper_bound; lia.
Qed.

Lemma two63_lt_fuel : (2 ^ 63 < 256 ^ N.of_nat 40)%N. Proof. vm_compute. reflexivity. Qed.
Lemma two63_lt_8 : (2 ^ 63 < 256 ^ N.of_nat 8)%N. Proof. vm_compute. reflexivity. Qed.

Lemma le_encode_len k : (k < 2 ^ 63)%N -> (length (le_encode k) <= 8)%nat.
Proof. intros H. unfold le_encode. apply le_encode_fuel_len. pose proof two63_lt_8. lia. Qed.
Lemma le_encode_nonempty k : (0 < k)%N -> (1 <= length (le_encode k))%nat.
Proof.
  intros H. unfold le_encode. change 40%nat with (S 39). cbn [le_encode_fuel].
  replace (k =? 0)%N with false by lia. cbn [length]. lia.
Qed.
Lemma le_encode_0 : le_encode 0 = []. Proof. reflexivity. Qed.
Lemma le_encode_small k : (1 <= k <= 255)%N -> le_encode k = [k].
Proof.
  intros H. unfold le_encode. change 40%nat with (S (S 38)). cbn [le_encode_fuel].
  replace (k =? 0)%N with false by lia.
  replace (k / 256)%N with 0%N by (symmetry; apply N.div_small; lia).
  replace (k mod 256)%N with k by (symmetry; apply N.mod_small; lia). reflexivity.
Qed.

Lemma as_bigint_encode k : (k < 2 ^ 63)%N -> as_bigint (le_encode k) = inr k.
Proof.
  intros H. unfold as_bigint. pose proof (le_encode_len k H).
  replace (32 <? length (le_encode k))%nat with false by lia.
  unfold le_encode. rewrite le_decode_encode_fuel by (pose proof two63_lt_fuel; lia).
  unfold two255. replace (2 ^ 255 <=? k)%N with false; [reflexivity|].
  symmetry. apply N.leb_gt. eapply N.lt_trans; [exact H|]. vm_compute. reflexivity.
Qed.

Lemma length_pdb d : (1 <= length d <= 75)%nat -> length (push_data_bytes d) = S (length d).
Proof. intros H. rewrite push_data_bytes_small by assumption. reflexivity. Qed.

Definition u64_len (k : N) : nat := length (push_data_uint64 k).

Section Steps.
  Variable cr : crypto.
  Variable cx : context.

  Lemma pc_mod (pcv k : N) P : lenok P -> (pcv + k <= N.of_nat (length P))%N -> ((pcv + k) mod two32 = pcv + k)%N.
  Proof. unfold lenok, two32. intros. apply N.mod_small. lia. Qed.

  (* a plain (one-byte, no immediate) opcode whose exec succeeds *)
  Lemma step_plain_ok rc P pre op post pcv npc rl df er vd ds al s3 :
    P = pre ++ op :: post -> plain_op op = true -> is_expansion op = false -> lenok P ->
    pcv = N.of_nat (length pre) ->
    exec_op cr cx rc op (st P pcv (pcv + 1)%N rl 0 er [] ds al) = ROk tt s3 ->
    deferred s3 <= runlimit s3 ->
    step cr cx rc (st P pcv npc rl df er vd ds al) =
    ROk tt (set_pc (set_runlimit s3 (runlimit s3 - deferred s3)) (nextpc s3)).
  Proof.
    intros EP Hp He Hl Hpc Hx Hd.
    assert (Hparse := parse_plain P pre op post EP Hp Hl).
    rewrite (step_op cr cx rc (st P pcv npc rl df er vd ds al) {| i_op := op; i_len := 1; i_data := [] |});
      [| cbn [prog pc]; subst pcv; exact Hparse | exact He].
    unfold set_vdata, set_deferred, set_nextpc; cbn [i_op i_len i_data prog pc nextpc runlimit deferred expres vdata dstack astack].
    rewrite (pc_mod pcv 1 P Hl) by (subst; rewrite app_length; cbn [length]; lia).
    rewrite Hx. unfold apply_cost. replace (runlimit s3 <? deferred s3) with false by lia. reflexivity.
  Qed.

  Lemma step_plain_err rc P pre op post pcv npc rl df er vd ds al e s3 :
    P = pre ++ op :: post -> plain_op op = true -> is_expansion op = false -> lenok P ->
    pcv = N.of_nat (length pre) ->
    exec_op cr cx rc op (st P pcv (pcv + 1)%N rl 0 er [] ds al) = RErr e s3 ->
    step cr cx rc (st P pcv npc rl df er vd ds al) = RErr e s3.
  Proof.
    intros EP Hp He Hl Hpc Hx.
    assert (Hparse := parse_plain P pre op post EP Hp Hl).
    rewrite (step_op cr cx rc (st P pcv npc rl df er vd ds al) {| i_op := op; i_len := 1; i_data := [] |});
      [| cbn [prog pc]; subst pcv; exact Hparse | exact He].
    unfold set_vdata, set_deferred, set_nextpc; cbn [i_op i_len i_data prog pc nextpc runlimit deferred expres vdata dstack astack].
    rewrite (pc_mod pcv 1 P Hl) by (subst; rewrite app_length; cbn [length]; lia).
    rewrite Hx. reflexivity.
  Qed.

  (* OP_DATA_n *)
  Lemma step_push_ok rc P pre d post pcv npc rl df er vd ds al :
    P = pre ++ push_data_bytes d ++ post -> (1 <= length d <= 75)%nat -> lenok P ->
    pcv = N.of_nat (length pre) -> 1 + item_cost d <= rl ->
    step cr cx rc (st P pcv npc rl df er vd ds al) =
    ROk tt (st P (pcv + (1 + N.of_nat (length d)))%N (pcv + (1 + N.of_nat (length d)))%N
               (rl - 1 - item_cost d) 0 er d (d :: ds) al).
  Proof.
    intros EP Hd Hl Hpc Hg.
    assert (Hparse := parse_push P pre d post EP Hd Hl).
    rewrite (step_op cr cx rc (st P pcv npc rl df er vd ds al) _ ltac:(cbn [prog pc]; subst pcv; exact Hparse));
      [| cbn [i_op]; apply is_expansion_push; lia].
    unfold set_vdata, set_deferred, set_nextpc; cbn [i_op i_len i_data prog pc nextpc runlimit deferred expres vdata dstack astack].
    rewrite (pc_mod pcv _ P Hl) by (subst; rewrite !app_length, length_pdb by assumption; lia).
    rewrite exec_push by (try assumption; lia).
    unfold apply_cost. cbn [deferred runlimit]. pose proof (item_cost_pos d).
    replace (rl - 1 - item_cost d <? 0) with false by lia.
    unfold set_runlimit, set_pc; cbn [prog pc nextpc runlimit deferred expres vdata dstack astack].
    f_equal. f_equal. lia.
  Qed.

  (* PushDataUint64 k: OP_0, OP_k or a data push of the minimal little-endian encoding *)
  Lemma step_push_u64 rc P pre k post pcv npc rl df er vd ds al :
    P = pre ++ push_data_uint64 k ++ post -> (k < 2 ^ 63)%N -> lenok P ->
    pcv = N.of_nat (length pre) -> 1 + item_cost (le_encode k) <= rl ->
    exists vd', step cr cx rc (st P pcv npc rl df er vd ds al) =
    ROk tt (st P (pcv + N.of_nat (u64_len k))%N (pcv + N.of_nat (u64_len k))%N
               (rl - 1 - item_cost (le_encode k)) 0 er vd' (le_encode k :: ds) al).
  Proof.
    intros EP Hk Hl Hpc Hg. unfold u64_len. unfold push_data_uint64 in *.
    destruct (k =? 0)%N eqn:E0.
    - apply N.eqb_eq in E0. subst k. rewrite le_encode_0 in *. cbn [app] in EP. exists [].
      erewrite step_plain_ok; [| exact EP | reflexivity | reflexivity | exact Hl | exact Hpc
                               | apply exec_false; unfold item_cost in Hg; cbn [length] in Hg; lia
                               | cbn [deferred runlimit]; unfold item_cost in Hg; cbn [length] in Hg; lia].
      unfold set_runlimit, set_pc; cbn [prog pc nextpc runlimit deferred expres vdata dstack astack]. cbn [length].
      f_equal. f_equal. unfold item_cost. cbn [length]. lia.
    - apply N.eqb_neq in E0. destruct (k <=? 16)%N eqn:E16.
      + apply N.leb_le in E16. rewrite le_encode_small in * by lia. cbn [app] in EP. exists [k].
        assert (Hparse := parse_small P pre k post EP ltac:(lia) Hl).
        rewrite (step_op cr cx rc (st P pcv npc rl df er vd ds al) _ ltac:(cbn [prog pc]; subst pcv; exact Hparse));
          [| cbn [i_op]; apply is_expansion_push; unfold OP_1; lia].
        unfold set_vdata, set_deferred, set_nextpc; cbn [i_op i_len i_data prog pc nextpc runlimit deferred expres vdata dstack astack].
        rewrite (pc_mod pcv 1 P Hl) by (subst; rewrite app_length; cbn [length]; lia).
        rewrite exec_push by (try assumption; unfold OP_1; lia).
        unfold apply_cost. cbn [deferred runlimit]. pose proof (item_cost_pos [k]).
        replace (rl - 1 - item_cost [k] <? 0) with false by lia.
        unfold set_runlimit, set_pc; cbn [prog pc nextpc runlimit deferred expres vdata dstack astack]. cbn [length].
        f_equal. f_equal. lia.
      + apply N.leb_gt in E16. exists (le_encode k).
        pose proof (le_encode_len k Hk). pose proof (le_encode_nonempty k ltac:(lia)).
        rewrite (step_push_ok rc P pre (le_encode k) post) by (try assumption; lia).
        rewrite length_pdb by lia. f_equal. f_equal; lia.
  Qed.

  Lemma u64_len_pos k : (1 <= u64_len k)%nat.
  Proof.
    unfold u64_len, push_data_uint64. destruct (k =? 0)%N; [cbn; lia|]. destruct (k <=? 16)%N; [cbn; lia|].
    unfold push_data_bytes. repeat match goal with |- context [if ?c then _ else _] => destruct c end; cbn [length]; lia.
  Qed.

  (* ---------- CHECKPREDICATE with limit 0 and n 0 (as in P2SHProgram) ---------- *)

  Lemma exec_checkpredicate rc P pcv npc rl df er vd pred ds al ok cs :
    256 <= rl ->
    rc (child_state pred (rl - 256) ds) = (ok, cs) ->
    exec_op cr cx rc 192 (st P pcv npc rl df er vd ([] :: pred :: [] :: ds) al) =
    let r := ok && negb (match dstack cs with [] => true | t :: _ => negb (as_bool t) end) in
    ROk tt (st P pcv npc 0
               (df - 192 - item_cost [] - item_cost pred - item_cost []
                - runlimit cs - stack_cost (dstack cs) - stack_cost (astack cs) + item_cost (bool_bytes r))
               er vd [bool_bytes r] al).
  Proof.
    intros Hg Hrc. vmred.
    repeat (first [ progress change (as_bigint []) with (@inr vmerr N 0%N)
                  | progress change (bigint_int64 0) with (@inr vmerr Z 0)
                  | progress change (0 =? 0) with true
                  | rewrite Z.ltb_irrefl
                  | gasok ]; vmred).
    rewrite Nat2Z.id, firstn_all, skipn_all. unfold child_state in Hrc. rewrite Hrc. vmred.
    f_equal. f_equal; lia.
  Qed.
End Steps.
