(* C02 — wrappers used by the correspondence case files. *)
From Coq Require Import List ZArith NArith Bool.
From Verif Require Import Cmp Sha3 VM VMRun.
From C02 Require Import Model.
Import ListNotations.

(* one VM case: the raw control program is converted by the MODEL's
   convert_program, then run by the VM model; observed: the VM observables of
   vm.Verify on the node's own context, and the node's converted program *)
Definition c02_obs := (vmobs * list item)%type.
Definition c02_obs_eqb (a b : c02_obs) : bool :=
  vmobs_eqb (fst a) (fst b) && list_eqb bytes_eqb (snd a) (snd b).
Definition no_obs : vmobs := {| o_gas := 0; o_err := None; o_stack := None; o_trace := []; o_steps := 0%N |}.
Definition c02_items (l : list item) : c02_obs := (no_obs, l).

Definition c02_case (raw : item) (cr : crypto) (mkcx : item -> context) (vmversion : N)
  (statedata args : list item) (gas : Z) : c02_obs :=
  let code := convert_program (fun p => p) raw in
  (vm_case cr (mkcx code) vmversion statedata args gas, [code]).

(* builders / sighash / witness layout cases: everything is a list of byte strings *)
Definition c02_build (kind : N) (h : item) (pks : list item) (m : N) : list item :=
  match kind with
  | 0%N => [p2w_program h]
  | 1%N => [p2pkh_sig_program h]
  | 2%N => [p2sh_program h]
  | 3%N => match multisig_program pks m with Some p => [p] | None => [] end
  | _ => [h_sha3 (mk_crypto [] [] []) (h ++ concat pks)]    (* tx_sighash entryid txid *)
  end.

Definition c02_witness (quorum : nat) (slots : list item) (last : item) : list item :=
  p2w_witness quorum slots last.
Definition c02_sigwitness (args : list item) (quorum : nat) (slots : list item) (sigprog : item) : list item :=
  sigwitness_materialize args quorum slots sigprog.

