(* C02 — conversion of the segwit programs, the composed P2WSH(m-of-n) statement and the
   commitment theorems (unforgeability and collision-freeness are hypotheses / explicit
   disjuncts, never axioms). *)
From Coq Require Import List ZArith NArith Bool Lia ZifyBool ZifyN ZifyNat.
From Verif Require Import Cmp VM.
From C02 Require Import Model ProofsVM ProofsOps ProofsStep ProofsVerify ProofsScan ProofsP2PKH ProofsMultisig ProofsP2SH.
Import ListNotations.
Open Scope Z_scope.

Definition item_eq_dec : forall a b : item, {a = b} + {a <> b} := list_eq_dec N.eq_dec.

(* an explicit collision of a hash function *)
Definition collision (H : item -> item) : Prop := exists x y, x <> y /\ H x = H y.

(* ---------- convertProgram on the programs built by P2WPKHProgram / P2WSHProgram ---------- *)

Lemma convert_p2wpkh other h : length h = 20%nat ->
  convert_program other (p2w_program h) = p2pkh_sig_program h.
Proof.
  intros H. do 20 (destruct h as [|? h]; [discriminate|]). destruct h; [|discriminate].
  vm_compute. reflexivity.
Qed.

Lemma convert_p2wsh other h : length h = 32%nat ->
  convert_program other (p2w_program h) = p2sh_program h.
Proof.
  intros H. do 32 (destruct h as [|? h]; [discriminate|]). destruct h; [|discriminate].
  vm_compute. reflexivity.
Qed.

(* ---------- the signature hash commits to (entry id, tx id) ---------- *)

Lemma app_inv_len {A} : forall (a a' b b' : list A), length a = length a' -> a ++ b = a' ++ b' -> a = a' /\ b = b'.
Proof.
  induction a as [|x a IH]; intros [|y a'] b b' Hl E; try discriminate; cbn in *.
  - split; [reflexivity | exact E].
  - inversion E; subst. destruct (IH a' b b') as [E1 E2]; [lia | assumption |]. subst. split; reflexivity.
Qed.

Lemma sighash_commits cr e t e' t' : length e = length e' ->
  tx_sighash cr e t = tx_sighash cr e' t' -> (e = e' /\ t = t') \/ collision (h_sha3 cr).
Proof.
  intros Hl He. unfold tx_sighash in He.
  destruct (item_eq_dec (e ++ t) (e' ++ t')) as [E|E].
  - left. apply app_inv_len in E; [exact E | exact Hl].
  - right. exists (e ++ t), (e' ++ t'). split; assumption.
Qed.

Lemma subseq_in {A} (l1 l2 : list A) : subseq l1 l2 -> forall x, In x l1 -> In x l2.
Proof. induction 1; intros y Hy; cbn in *; [contradiction | destruct Hy; [left|right]; auto | right; auto]. Qed.

Section P2WSHMS.
  Variable cr : crypto.
  Hypothesis Hsha : forall x, length (h_sha3 cr x) = 32%nat.
  Variable pks : list item.
  Variable m : nat.
  Hypothesis Hpks : Forall len32 pks.
  Hypothesis Hm1 : (1 <= m)%nat.
  Hypothesis Hmn : (m <= length pks)%nat.
  Let MS := multisig_body pks (N.of_nat m).
  Hypothesis HMS : lenok MS.

  Definition p2wsh_ms_gas_bound (sd args : list item) : Z :=
    stack_cost sd + 3 * stack_cost args + 1065 * Z.of_nat (length pks) + 800.

  Lemma ms_child_limit_ok sd rest gas : p2wsh_ms_gas_bound sd (rest ++ [MS]) <= gas ->
    ms_gas_bound (length pks) <= p2sh_child_limit (gas - stack_cost sd - stack_cost (rest ++ [MS])) MS.
  Proof.
    unfold p2wsh_ms_gas_bound, ms_gas_bound, p2sh_child_limit. rewrite stack_cost_app, stack_cost_cons.
    change (stack_cost []) with 0. pose proof (stack_cost_nonneg rest). pose proof (stack_cost_nonneg sd).
    unfold item_cost, nlen. lia.
  Qed.

  (* exact statement, the collision case spelled out *)
  Theorem p2wsh_multisig_iff cx sh other f sd args gas :
    cx_vmversion cx = 1%N -> cx_code cx = convert_program other (p2w_program (h_sha3 cr MS)) ->
    cx_txsighash cx = Some sh -> length sh = 32%nat ->
    p2wsh_ms_gas_bound sd args <= gas ->
    (accepts cr cx (9 + (length pks + 4 + f)) sd args gas <->
     (exists extra sigs, args = extra ++ sigs ++ [MS] /\ length sigs = m /\ multisig_spec cr sh sigs pks)
     \/ (exists rest script, script <> MS /\ h_sha3 cr script = h_sha3 cr MS /\ args = rest ++ [script] /\
           child_accepts cr cx (S (length pks + 4 + f)) script
             (p2sh_child_limit (gas - stack_cost sd - stack_cost args) script) (rev rest) = true)).
  Proof.
    intros Hvm Hcode Hsh Hshl Hg.
    rewrite convert_p2wsh in Hcode by apply Hsha.
    assert (Hg' : p2sh_gas_bound sd args <= gas).
    { unfold p2wsh_ms_gas_bound in Hg. unfold p2sh_gas_bound. lia. }
    rewrite (p2sh_iff cr cx _ (Hsha MS) Hsha Hvm Hcode (length pks + 4 + f) sd args gas Hg').
    unfold p2sh_witness_ok.
    assert (Hm0 : (length pks > 0 -> m > 0)%nat) by lia.
    split.
    - intros [rest [script [Ea [Hh Hc]]]].
      destruct (item_eq_dec script MS) as [E|E].
      + left. subst script.
        replace (S (length pks + 4 + f)) with (length pks + 5 + f)%nat in Hc by lia.
        apply (child_accepts_ms cr cx sh Hsh Hshl pks m Hpks Hmn Hm0 HMS) in Hc.
        * rewrite rev_involutive in Hc. destruct Hc as [extra [sigs [Er [Hl Hs]]]].
          exists extra, sigs. subst rest args. rewrite <- app_assoc. repeat split; assumption.
        * subst args. apply ms_child_limit_ok. exact Hg.
      + right. exists rest, script. repeat split; assumption.
    - intros [[extra [sigs [Ea [Hl Hs]]]] | [rest [script [_ [Hh [Ea Hc]]]]]].
      + exists (extra ++ sigs), MS. split; [rewrite <- app_assoc; exact Ea|]. split; [reflexivity|].
        replace (S (length pks + 4 + f)) with (length pks + 5 + f)%nat by lia.
        apply (child_accepts_ms cr cx sh Hsh Hshl pks m Hpks Hmn Hm0 HMS).
        * subst args. rewrite app_assoc. apply ms_child_limit_ok. rewrite <- app_assoc. exact Hg.
        * rewrite rev_involutive. exists extra, sigs. repeat split; assumption.
      + exists rest, script. repeat split; assumption.
  Qed.

End P2WSHMS.

Section Commit.
  Variable cr : crypto.
  Hypothesis Hsha : forall x, length (h_sha3 cr x) = 32%nat.

  (* [signed pk msg sg]: the owner of pk produced sg as a signature of msg *)
  Variable signed : item -> item -> item -> Prop.
  Hypothesis sig_unforgeable : forall pk msg sg, sig_verify cr pk msg sg = true -> signed pk msg sg.

  (* ----- P2WPKH ----- *)
  Theorem p2pkh_commitment (Hrip : forall x, length (h_ripemd160 cr x) = 20%nat) pk0 sh0 sg0 :
    (forall msg sg, signed pk0 msg sg -> msg = sh0 /\ sg = sg0) ->
    forall cx sh' other f sd args' gas,
      cx_vmversion cx = 1%N -> cx_code cx = convert_program other (p2w_program (h_ripemd160 cr pk0)) ->
      cx_txsighash cx = Some sh' -> length sh' = 32%nat ->
      p2pkh_gas_bound sd args' <= gas ->
      accepts cr cx (8 + f) sd args' gas ->
      (sh' = sh0 /\ exists extra, args' = extra ++ [sg0; pk0]) \/ collision (h_ripemd160 cr).
  Proof.
    intros Honly cx sh' other f sd args' gas Hvm Hcode Hsh Hshl Hg Hacc.
    rewrite convert_p2wpkh in Hcode by apply Hrip.
    apply (p2pkh_iff cr cx _ sh' (Hrip pk0) Hsh Hshl Hrip Hvm Hcode f sd args' gas Hg) in Hacc.
    destruct Hacc as [extra [sg [pk [Ea [Hh [Hl Hv]]]]]].
    destruct (item_eq_dec pk pk0) as [E|E].
    - subst pk. apply sig_unforgeable in Hv. apply Honly in Hv. destruct Hv; subst. left. split; [reflexivity|]. exists extra. reflexivity.
    - right. exists pk, pk0. split; assumption.
  Qed.

  (* ----- P2WSH with the m-of-n script ----- *)
  Variable pks : list item.
  Variable m : nat.
  Hypothesis Hpks : Forall len32 pks.
  Hypothesis Hm1 : (1 <= m)%nat.
  Hypothesis Hmn : (m <= length pks)%nat.
  Let MS := multisig_body pks (N.of_nat m).
  Hypothesis HMS : lenok MS.

  Theorem p2wsh_multisig_commitment sh0 :
    (forall pk msg sg, In pk pks -> signed pk msg sg -> msg = sh0) ->
    forall cx sh' other f sd args' gas,
      cx_vmversion cx = 1%N -> cx_code cx = convert_program other (p2w_program (h_sha3 cr MS)) ->
      cx_txsighash cx = Some sh' -> length sh' = 32%nat ->
      p2wsh_ms_gas_bound pks sd args' <= gas ->
      accepts cr cx (9 + (length pks + 4 + f)) sd args' gas ->
      (sh' = sh0 /\ exists extra sigs ks, args' = extra ++ sigs ++ [MS] /\ length sigs = m /\ subseq ks pks /\
                      Forall2 (fun sg pk => signed pk sh0 sg) sigs ks)
      \/ collision (h_sha3 cr).
  Proof.
    intros Honly cx sh' other f sd args' gas Hvm Hcode Hsh Hshl Hg Hacc.
    apply (p2wsh_multisig_iff cr Hsha pks m Hpks Hm1 Hmn HMS cx sh' other f sd args' gas Hvm Hcode Hsh Hshl Hg) in Hacc.
    destruct Hacc as [[extra [sigs [Ea [Hl [ks [Hss Hf]]]]]] | [rest [script [Hne [Hh _]]]]].
    - left.
      assert (Hall : Forall2 (fun sg pk => signed pk sh' sg /\ In pk pks) sigs ks).
      { clear Ea Hl. revert Hss. induction Hf as [|sg pk sigs ks Hv Hf IH]; intros Hss; constructor.
        - split; [apply sig_unforgeable; exact Hv | eapply subseq_in; [exact Hss | left; reflexivity]].
        - apply IH. clear -Hss. remember (pk :: ks) as l eqn:El. revert pk ks El.
          induction Hss as [l2 | x l1 l2 Hs IHs | x l1 l2 Hs IHs]; intros pk ks El.
          + discriminate.
          + inversion El; subst. apply ss_skip. exact Hs.
          + apply ss_skip. eapply IHs. exact El. }
      assert (Hsh0 : sh' = sh0).
      { destruct Hall as [|sg pk sigs ks [Hs Hi] _]; [cbn in Hl; lia|]. eapply Honly; eassumption. }
      subst sh'. split; [reflexivity|]. exists extra, sigs, ks. repeat split; try assumption.
      clear -Hall. induction Hall as [|a b l1 l2 [Hs _] _ IH]; constructor; assumption.
    - right. exists script, MS. split; assumption.
  Qed.
End Commit.
