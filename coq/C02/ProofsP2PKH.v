(* C02 — the converted P2WPKH program  DUP HASH160 <h> EQUALVERIFY TXSIGHASH SWAP CHECKSIG. *)
From Coq Require Import List ZArith NArith Bool Lia ZifyBool ZifyN ZifyNat.
From Verif Require Import Cmp VM.
From C02 Require Import Model ProofsVM ProofsOps ProofsStep ProofsVerify.
Import ListNotations.
Open Scope Z_scope.

Ltac stsimpl := unfold set_runlimit, set_pc; cbn [prog pc nextpc runlimit deferred expres vdata dstack astack].

Section P2PKH.
  Variable cr : crypto.
  Variable cx : context.
  Variable h sh : item.
  Hypothesis Hh : length h = 20%nat.
  Hypothesis Hsh : cx_txsighash cx = Some sh.
  Hypothesis Hshl : length sh = 32%nat.
  Hypothesis Hrip : forall x, length (h_ripemd160 cr x) = 20%nat.

  Let P := p2pkh_sig_program h.

  Lemma P_len : length P = 27%nat.
  Proof. unfold P, p2pkh_sig_program. rewrite !app_length, length_pdb by lia. rewrite Hh. reflexivity. Qed.
  Lemma P_lenok : lenok P.
  Proof. unfold lenok. rewrite P_len. lia. Qed.

  Ltac inrange := cbn [prog pc]; rewrite P_len; reflexivity.
  Ltac decomp := unfold P, p2pkh_sig_program; repeat rewrite <- app_assoc; reflexivity.
  Ltac pcok := repeat rewrite app_length; rewrite ?length_pdb by lia; rewrite ?Hh; reflexivity.

  (* the run up to and including SWAP, with at least one item on the stack *)
  Lemma run_to_checksig f er pk rest al rl :
    1500 + 2 * item_cost pk <= rl ->
    run cr cx (S (S (S (S (S (S f)))))) (st P 0 0 rl 0 er [] (pk :: rest) al) =
    if bytes_eqb (h_ripemd160 cr pk) h
    then run cr cx f (st P 26 26 (rl - item_cost pk - 376) 0 er [] (pk :: sh :: rest) al)
    else RErr EVerifyFailed (st P 23 24 (rl - item_cost pk - 135) (-56) er [] (pk :: rest) al).
  Proof.
    intros Hg. pose proof (item_cost_pos pk) as Hpk.
    assert (Hic : item_cost (h_ripemd160 cr pk) = 28) by (unfold item_cost; rewrite Hrip; reflexivity).
    assert (Hich : item_cost h = 28) by (unfold item_cost; rewrite Hh; reflexivity).
    assert (Hics : item_cost sh = 40) by (unfold item_cost; rewrite Hshl; reflexivity).
    (* DUP *)
    rewrite (run_step cr cx _ _ (st P 1 1 (rl - 1 - item_cost pk) 0 er [] (pk :: pk :: rest) al)); [| inrange |].
    2:{ erewrite (step_plain_ok cr cx _ P [] 118%N); [| decomp | reflexivity | reflexivity | apply P_lenok | reflexivity
                                                  | apply exec_dup; lia | cbn [deferred runlimit]; lia ].
        stsimpl. f_equal. f_equal. lia. }
    (* HASH160 *)
    rewrite (run_step cr cx _ _ (st P 2 2 (rl - item_cost pk - 85) 0 er [] (h_ripemd160 cr pk :: pk :: rest) al)); [| inrange |].
    2:{ erewrite (step_plain_ok cr cx _ P [118%N] 171%N); [| decomp | reflexivity | reflexivity | apply P_lenok | reflexivity
                                                  | apply exec_hash160; lia | cbn [deferred runlimit]; lia ].
        stsimpl. f_equal. f_equal. lia. }
    (* push h *)
    rewrite (run_step cr cx _ _ (st P 23 23 (rl - item_cost pk - 114) 0 er h (h :: h_ripemd160 cr pk :: pk :: rest) al)); [| inrange |].
    2:{ rewrite (step_push_ok cr cx _ P [118; 171]%N h [136; 174; 124; 172]%N); [| decomp | lia | apply P_lenok | reflexivity | lia].
        rewrite Hh. f_equal. f_equal. lia. }
    (* EQUALVERIFY *)
    assert (Hmin : Z.min (nlen (h_ripemd160 cr pk)) (nlen h) = 20) by (unfold nlen; rewrite Hrip, Hh; reflexivity).
    destruct (bytes_eqb (h_ripemd160 cr pk) h) eqn:Eq.
    2:{ erewrite run_fail; [reflexivity | inrange |].
        erewrite (step_plain_err cr cx _ P ([118; 171]%N ++ push_data_bytes h) 136%N); [reflexivity | decomp | reflexivity | reflexivity | apply P_lenok | pcok |].
        rewrite exec_equalverify by lia. rewrite Eq, Hmin. f_equal. f_equal; lia. }
    rewrite (run_step cr cx _ _ (st P 24 24 (rl - item_cost pk - 79) (-56) er [] (pk :: rest) al)); [| inrange |].
    2:{ erewrite (step_plain_ok cr cx _ P ([118; 171]%N ++ push_data_bytes h) 136%N); [| decomp | reflexivity | reflexivity | apply P_lenok | pcok
                                                  | rewrite exec_equalverify by lia; rewrite Eq, Hmin; reflexivity | cbn [deferred runlimit]; lia ].
        stsimpl. f_equal. f_equal; lia. }
    (* TXSIGHASH *)
    rewrite (run_step cr cx _ _ (st P 25 25 (rl - item_cost pk - 375) 0 er [] (sh :: pk :: rest) al)); [| inrange |].
    2:{ erewrite (step_plain_ok cr cx _ P ([118; 171]%N ++ push_data_bytes h ++ [136]%N) 174%N); [| decomp | reflexivity | reflexivity | apply P_lenok | pcok
                                                  | apply (exec_txsighash cr cx _ sh); [exact Hsh | lia] | cbn [deferred runlimit]; lia ].
        stsimpl. f_equal. f_equal; lia. }
    (* SWAP *)
    rewrite (run_step cr cx _ _ (st P 26 26 (rl - item_cost pk - 376) 0 er [] (pk :: sh :: rest) al)); [| inrange |].
    2:{ erewrite (step_plain_ok cr cx _ P ([118; 171]%N ++ push_data_bytes h ++ [136; 174]%N) 124%N); [| decomp | reflexivity | reflexivity | apply P_lenok | pcok
                                                  | apply exec_swap; lia | cbn [deferred runlimit]; lia ].
        stsimpl. f_equal. f_equal; lia. }
    reflexivity.
  Qed.

  (* CHECKSIG and the end of the program *)
  Lemma run_checksig f er pk sg rest al rl : 1024 <= rl ->
    exists s, run cr cx (S (S f)) (st P 26 26 rl 0 er [] (pk :: sh :: sg :: rest) al) = ROk tt s /\
              dstack s = bool_bytes ((length pk =? 32)%nat && sig_verify cr pk sh sg) :: rest.
  Proof.
    intros Hg. pose proof (item_cost_pos pk). pose proof (item_cost_pos sg).
    assert (Hics : item_cost sh = 40) by (unfold item_cost; rewrite Hshl; reflexivity).
    set (r := ((length pk =? 32)%nat && sig_verify cr pk sh sg)).
    assert (Hb : 8 <= item_cost (bool_bytes r) <= 9) by (destruct r; cbv; split; discriminate).
    eexists. split.
    - erewrite run_step; [| inrange |].
      2:{ erewrite (step_plain_ok cr cx _ P ([118; 171]%N ++ push_data_bytes h ++ [136; 174; 124]%N) 172%N);
            [reflexivity | decomp | reflexivity | reflexivity | apply P_lenok | pcok
            | rewrite exec_checksig by (try assumption; lia); reflexivity
            | cbv zeta; cbn [deferred runlimit]; fold r; lia ]. }
      apply run_end. cbv zeta. stsimpl. rewrite P_len. reflexivity.
    - cbv zeta. stsimpl. reflexivity.
  Qed.

  Lemma run_checksig_short f er pk al rl : 1024 <= rl ->
    exists e s, run cr cx (S f) (st P 26 26 rl 0 er [] [pk; sh] al) = RErr e s.
  Proof.
    intros Hg.
    destruct (exec_checksig_short cr cx (rcf cr cx f) P 26 (26 + 1) rl 0 er [] [pk; sh] al Hg ltac:(cbn; lia)) as [e [s' He]].
    exists e, s'. erewrite run_fail; [reflexivity | inrange |].
    erewrite (step_plain_err cr cx _ P ([118; 171]%N ++ push_data_bytes h ++ [136; 174; 124]%N) 172%N);
      [reflexivity | decomp | reflexivity | reflexivity | apply P_lenok | pcok | exact He].
  Qed.

  Lemma run_dup_empty f er al rl : 1 <= rl ->
    exists e s, run cr cx (S f) (st P 0 0 rl 0 er [] [] al) = RErr e s.
  Proof.
    intros Hg.
    destruct (exec_dup_empty cr cx (rcf cr cx f) P 0 (0 + 1) rl 0 er [] al Hg) as [s' He].
    exists EDataStackUnderflow, s'. erewrite run_fail; [reflexivity | inrange |].
    erewrite (step_plain_err cr cx _ P [] 118%N);
      [reflexivity | decomp | reflexivity | reflexivity | apply P_lenok | reflexivity | exact He].
  Qed.

  Hypothesis Hvm : cx_vmversion cx = 1%N.
  Hypothesis Hcode : cx_code cx = P.

  (* the declarative condition on the witness *)
  Definition p2pkh_witness_ok (args : list item) : Prop :=
    exists extra sg pk, args = extra ++ [sg; pk] /\ h_ripemd160 cr pk = h /\ length pk = 32%nat /\
                        sig_verify cr pk sh sg = true.

  Definition p2pkh_gas_bound (sd args : list item) : Z := stack_cost sd + 3 * stack_cost args + 1500.

  Theorem p2pkh_iff f sd args gas : p2pkh_gas_bound sd args <= gas ->
    (accepts cr cx (8 + f) sd args gas <-> p2pkh_witness_ok args).
  Proof.
    unfold p2pkh_gas_bound. intros Hg.
    pose proof (stack_cost_nonneg sd) as Hsd. pose proof (stack_cost_nonneg args) as Hargs.
    rewrite accepts_iff by (try assumption; lia). unfold init_state. rewrite Hcode.
    assert (Hrev : stack_cost (rev args) = stack_cost args) by apply stack_cost_rev.
    cbn [Nat.add]. unfold p2pkh_witness_ok.
    destruct (rev args) as [|pk [|sg rest]] eqn:Er.
    - (* no argument *)
      destruct (run_dup_empty (S (S (S (S (S (S (S f))))))) (er0 cx) (rev sd) (gas - stack_cost sd - stack_cost args) ltac:(lia)) as [e [s' E]].
      rewrite E. split.
      + intros [s [Hx _]]. discriminate.
      + intros [extra [sg [pk [Ea _]]]]. apply (f_equal (@rev item)) in Ea. rewrite rev_app_distr in Ea. cbn in Ea. congruence.
    - (* one argument *)
      rewrite stack_cost_cons in Hrev. change (stack_cost []) with 0 in Hrev.
      rewrite run_to_checksig by lia. split.
      + intros [s [Hx _]]. destruct (bytes_eqb (h_ripemd160 cr pk) h); [|discriminate].
        destruct (run_checksig_short (S f) (er0 cx) pk (rev sd) (gas - stack_cost sd - stack_cost args - item_cost pk - 376) ltac:(lia)) as [e [s' E]].
        rewrite E in Hx. discriminate.
      + intros [extra [sg [pk' [Ea _]]]]. apply (f_equal (@rev item)) in Ea. rewrite rev_app_distr in Ea. cbn in Ea. congruence.
    - (* at least two arguments *)
      rewrite !stack_cost_cons in Hrev. pose proof (stack_cost_nonneg rest). pose proof (item_cost_pos sg).
      rewrite run_to_checksig by lia.
      destruct (bytes_eqb (h_ripemd160 cr pk) h) eqn:Eq.
      + apply bytes_eqb_eq in Eq.
        destruct (run_checksig f (er0 cx) pk sg rest (rev sd) (gas - stack_cost sd - stack_cost args - item_cost pk - 376) ltac:(lia)) as [s [E Ds]].
        rewrite E. split.
        * intros [s' [Hx Hf]]. inversion Hx; subst s'. unfold false_result in Hf. rewrite Ds in Hf.
          destruct (length pk =? 32)%nat eqn:El; [|discriminate].
          destruct (sig_verify cr pk sh sg) eqn:Ev; [|discriminate].
          exists (rev rest), sg, pk. repeat split; try assumption.
          -- rewrite <- (rev_involutive args), Er. cbn [rev]. rewrite <- app_assoc. reflexivity.
          -- apply Nat.eqb_eq. assumption.
        * intros [extra [sg' [pk' [Ea [Hh' [Hl Hv]]]]]].
          apply (f_equal (@rev item)) in Ea. rewrite rev_app_distr, Er in Ea. cbn in Ea.
          inversion Ea; subst pk' sg'. exists s. split; [reflexivity|].
          unfold false_result. rewrite Ds, Hl, Hv. reflexivity.
      + split; [intros [s [Hx _]]; discriminate|].
        intros [extra [sg' [pk' [Ea [Hh' _]]]]].
        apply (f_equal (@rev item)) in Ea. rewrite rev_app_distr, Er in Ea. cbn in Ea.
        inversion Ea; subst pk' sg'. apply bytes_eqb_eq in Hh'. congruence.
  Qed.
End P2PKH.
