(* C02 — small-step lemmas about the VM model (Verif.VM): instruction parsing
   inside a program given as  pre ++ instruction ++ post,  one lemma per
   instruction used by the standard programs, and chaining into [run]. *)
From Coq Require Import List ZArith NArith Bool Lia ZifyBool ZifyN ZifyNat.
From Verif Require Import Cmp VM.
From C02 Require Import Model.
Import ListNotations.
Open Scope Z_scope.

Notation st := Build_vmst.   (* prog pc nextpc runlimit deferred expres vdata dstack astack *)

Definition lenok (P : item) : Prop := (N.of_nat (length P) <= 2147483647)%N.

Lemma item_cost_pos d : 8 <= item_cost d.
Proof. unfold item_cost. lia. Qed.
Lemma stack_cost_cons x l : stack_cost (x :: l) = item_cost x + stack_cost l.
Proof. reflexivity. Qed.
Lemma stack_cost_nonneg l : 0 <= stack_cost l.
Proof. induction l as [|x l IH]; [cbv; discriminate|]. rewrite stack_cost_cons. pose proof (item_cost_pos x). lia. Qed.
Lemma stack_cost_app a b : stack_cost (a ++ b) = stack_cost a + stack_cost b.
Proof. induction a as [|x a IH]; [reflexivity|]. cbn [app]. rewrite !stack_cost_cons, IH. lia. Qed.
Lemma stack_cost_rev l : stack_cost (rev l) = stack_cost l.
Proof. induction l as [|x l IH]; [reflexivity|]. cbn [rev]. rewrite stack_cost_app, IH, !stack_cost_cons. change (stack_cost []) with 0. lia. Qed.

(* ---------- byte_at / slice inside pre ++ x ++ post ---------- *)

Lemma byte_at_app pre x post : byte_at (pre ++ x :: post) (N.of_nat (length pre)) = x.
Proof. unfold byte_at. rewrite Nat2N.id, app_nth2, Nat.sub_diag by lia. reflexivity. Qed.

Lemma slice_app pre x d post :
  slice (pre ++ x :: d ++ post) (N.of_nat (length pre) + 1) (N.of_nat (length pre) + (1 + N.of_nat (length d))) = d.
Proof.
  unfold slice.
  replace (N.to_nat (N.of_nat (length pre) + 1)) with (length pre + 1)%nat by lia.
  replace (N.to_nat _) with (length d) by lia.
  replace (pre ++ x :: d ++ post) with ((pre ++ [x]) ++ d ++ post) by (rewrite <- app_assoc; reflexivity).
  rewrite skipn_app. replace (length (pre ++ [x])) with (length pre + 1)%nat by (rewrite app_length; reflexivity).
  rewrite Nat.sub_diag. cbn [skipn].
  rewrite skipn_all2 by (rewrite app_length; cbn; lia). cbn [app].
  rewrite firstn_app, Nat.sub_diag, firstn_all. cbn. apply app_nil_r.
Qed.

(* ---------- parsing ---------- *)

Definition plain_op (op : N) : bool :=
  (negb ((81 <=? op) && (op <=? 96)) && negb ((1 <=? op) && (op <=? 75))
   && negb (op =? 76) && negb (op =? 77) && negb (op =? 78) && negb ((op =? 99) || (op =? 100)))%N.

Lemma parse_plain P pre op post :
  P = pre ++ op :: post -> plain_op op = true -> lenok P ->
  parse_op P (N.of_nat (length pre)) = inr {| i_op := op; i_len := 1; i_data := [] |}.
Proof.
  intros EP Hp Hl. unfold lenok in Hl. unfold parse_op.
  assert (L : (N.of_nat (length P) = N.of_nat (length pre) + 1 + N.of_nat (length post))%N).
  { subst P. rewrite app_length. cbn [length]. lia. }
  replace (2147483647 <? N.of_nat (length P))%N with false by lia.
  replace (N.of_nat (length P) <=? N.of_nat (length pre))%N with false by lia.
  replace (byte_at P (N.of_nat (length pre))) with op by (subst P; symmetry; apply byte_at_app).
  unfold plain_op in Hp. unfold OP_1, OP_16, OP_DATA_1, OP_DATA_75, OP_PUSHDATA1, OP_PUSHDATA2, OP_PUSHDATA4, OP_JUMP, OP_JUMPIF.
  repeat (apply andb_prop in Hp; destruct Hp as [Hp ?]).
  repeat match goal with H : negb ?b = true |- _ => apply negb_true_iff in H; rewrite H; clear H end.
  reflexivity.
Qed.

Lemma push_data_bytes_small d : (1 <= length d <= 75)%nat ->
  push_data_bytes d = N.of_nat (length d) :: d.
Proof.
  intros H. unfold push_data_bytes.
  replace (N.of_nat (length d) =? 0)%N with false by lia.
  replace (N.of_nat (length d) <=? 75)%N with true by lia.
  unfold OP_DATA_1. f_equal. lia.
Qed.

Lemma parse_push P pre d post :
  P = pre ++ push_data_bytes d ++ post -> (1 <= length d <= 75)%nat -> lenok P ->
  parse_op P (N.of_nat (length pre)) =
    inr {| i_op := N.of_nat (length d); i_len := 1 + N.of_nat (length d); i_data := d |}.
Proof.
  intros EP Hd Hl. unfold lenok in Hl. rewrite push_data_bytes_small in EP by assumption.
  cbn [app] in EP. unfold parse_op.
  assert (L : (N.of_nat (length P) = N.of_nat (length pre) + 1 + N.of_nat (length d) + N.of_nat (length post))%N).
  { subst P. rewrite app_length. cbn [length]. rewrite app_length. lia. }
  replace (2147483647 <? N.of_nat (length P))%N with false by lia.
  replace (N.of_nat (length P) <=? N.of_nat (length pre))%N with false by lia.
  replace (byte_at P (N.of_nat (length pre))) with (N.of_nat (length d)) by (subst P; symmetry; apply byte_at_app).
  unfold OP_1, OP_16, OP_DATA_1, OP_DATA_75.
  replace ((81 <=? N.of_nat (length d)) && (N.of_nat (length d) <=? 96))%N with false by lia.
  replace ((1 <=? N.of_nat (length d)) && (N.of_nat (length d) <=? 75))%N with true by lia.
  replace (1 + (N.of_nat (length d) - 1 + 1))%N with (1 + N.of_nat (length d))%N by lia.
  unfold add_u32, two32.
  replace (2 ^ 32 <=? N.of_nat (length pre) + (1 + N.of_nat (length d)))%N with false by lia.
  replace (N.of_nat (length P) <? N.of_nat (length pre) + (1 + N.of_nat (length d)))%N with false by lia.
  subst P. rewrite slice_app. reflexivity.
Qed.

(* OP_1 .. OP_16 *)
Lemma parse_small P pre k post :
  P = pre ++ (81 + k - 1)%N :: post -> (1 <= k <= 16)%N -> lenok P ->
  parse_op P (N.of_nat (length pre)) = inr {| i_op := (81 + k - 1)%N; i_len := 1; i_data := [k] |}.
Proof.
  intros EP Hk Hl. unfold lenok in Hl. unfold parse_op.
  assert (L : (N.of_nat (length P) = N.of_nat (length pre) + 1 + N.of_nat (length post))%N).
  { subst P. rewrite app_length. cbn [length]. lia. }
  replace (2147483647 <? N.of_nat (length P))%N with false by lia.
  replace (N.of_nat (length P) <=? N.of_nat (length pre))%N with false by lia.
  replace (byte_at P (N.of_nat (length pre))) with (81 + k - 1)%N by (subst P; symmetry; apply byte_at_app).
  unfold OP_1, OP_16.
  replace ((81 <=? 81 + k - 1) && (81 + k - 1 <=? 96))%N with true by lia.
  do 3 f_equal. lia.
Qed.

(* ---------- exec_op of the push-data opcodes ---------- *)

Lemma exec_pushdata rc cr cx op : ((1 <= op <= 75) \/ (81 <= op <= 96))%N ->
  exec_op cr cx rc op = (apply_cost 1 ;;; s <- get ;; push (vdata s) false).
Proof.
  intros H. destruct op as [|p]; [lia|].
  do 7 (destruct p as [p|p|]; try reflexivity; try lia).
Qed.

Lemma is_expansion_push op : ((1 <= op <= 75) \/ (81 <= op <= 96))%N -> is_expansion op = false.
Proof.
  intros H. unfold is_expansion.
  destruct H as [H|H].
  - replace ((1 <=? op) && (op <=? 75))%N with true by lia. reflexivity.
  - replace ((81 <=? op) && (op <=? 96))%N with true by lia. rewrite orb_true_r. reflexivity.
Qed.

(* ---------- one step ---------- *)

Section Steps.
  Variable cr : crypto.
  Variable cx : context.

  Lemma step_op rc s i :
    parse_op (prog s) (pc s) = inr i -> is_expansion (i_op i) = false ->
    step cr cx rc s =
      match exec_op cr cx rc (i_op i)
              (set_vdata (set_deferred (set_nextpc s ((pc s + i_len i) mod two32)%N) 0) (i_data i)) with
      | RErr e s3 => RErr e s3
      | ROk _ s3 =>
          match apply_cost (deferred s3) s3 with
          | RErr e s4 => RErr e (set_astack (set_dstack s4 []) [])
          | ROk _ s4 => ROk tt (set_pc s4 (nextpc s4))
          end
      end.
  Proof. intros Hp He. unfold step. rewrite Hp. cbv zeta. rewrite He. reflexivity. Qed.

  Definition rcf (f : nat) : vmst -> child_result :=
    fun c => match run cr cx f c with ROk _ cs => (true, cs) | RErr _ cs => (false, cs) end.

  Lemma run_S f s : run cr cx (S f) s =
    if (pc s <? N.of_nat (length (prog s)))%N then
      match step cr cx (rcf f) s with RErr e s' => RErr e s' | ROk _ s' => run cr cx f s' end
    else ROk tt s.
  Proof. reflexivity. Qed.

  Lemma run_step f s s' : (pc s <? N.of_nat (length (prog s)))%N = true ->
    step cr cx (rcf f) s = ROk tt s' -> run cr cx (S f) s = run cr cx f s'.
  Proof. intros H1 H2. rewrite run_S, H1, H2. reflexivity. Qed.
  Lemma run_fail f s e s' : (pc s <? N.of_nat (length (prog s)))%N = true ->
    step cr cx (rcf f) s = RErr e s' -> run cr cx (S f) s = RErr e s'.
  Proof. intros H1 H2. rewrite run_S, H1, H2. reflexivity. Qed.
  Lemma run_end f s : (pc s <? N.of_nat (length (prog s)))%N = false -> run cr cx (S f) s = ROk tt s.
  Proof. intros H1. rewrite run_S, H1. reflexivity. Qed.
End Steps.
