(* C02 — standard programs need a matching witness.  MODEL (no proofs).

   The byte programs the node builds and runs for standard outputs:
     - vmutil.P2WPKHProgram / P2WSHProgram      (protocol/vm/vmutil/script.go)
     - segwit.IsP2WPKHScript / IsP2WSHScript     (consensus/segwit/segwit.go)
     - validation.convertProgram                 (protocol/validation/vmcontext.go)
       via vmutil.P2PKHSigProgram / P2SHProgram
     - vmutil.P2SPMultiSigProgram                (m-of-n redeem script)
     - txSigHashFn: sha3(entryID ‖ txID)         (vmcontext.go, bc/tx.go SigHash)
     - witness layout: RawTxSigWitness / SignatureWitness / DataWitness materialize
       (blockchain/txbuilder/*_witness.go)
   The programs are run by the shared VM model Verif.VM.  Declarative
   specifications used by the theorems are at the end of the file. *)
From Coq Require Import List ZArith NArith Bool.
From Verif Require Import Cmp VM.
Import ListNotations.
Local Open Scope N_scope.

Definition blen (b : item) : N := N.of_nat (length b).

(* ---------- vm.ParseProgram ---------- *)

Fixpoint parse_program_fuel (fuel : nat) (p : item) (pcv : N) : option (list inst) :=
  if pcv <? blen p then
    match fuel with
    | O => None   (* not reached: every instruction has length >= 1 and fuel = length p *)
    | S f =>
        match parse_op p pcv with
        | inl _ => None
        | inr i =>
            match add_u32 pcv (i_len i) with
            | None => None
            | Some pc' =>
                match parse_program_fuel f p pc' with
                | None => None
                | Some r => Some (i :: r)
                end
            end
        end
    end
  else Some [].

Definition parse_program (p : item) : option (list inst) :=
  parse_program_fuel (length p) p 0.

(* ---------- consensus/segwit ---------- *)

Definition is_p2w (datalen : N) (p : item) : bool :=
  match parse_program p with
  | Some [i0; i1] => (i_op i0 =? 0) && (i_op i1 =? datalen) && (blen (i_data i1) =? datalen)
  | _ => false
  end.
Definition is_p2wpkh : item -> bool := is_p2w 20.   (* OP_0, OP_DATA_20 *)
Definition is_p2wsh : item -> bool := is_p2w 32.    (* OP_0, OP_DATA_32 *)

(* insts[1].Data of a recognised program *)
Definition p2w_data (p : item) : item :=
  match parse_program p with
  | Some (_ :: i1 :: _) => i_data i1
  | _ => []
  end.

(* ---------- vm.PushDataUint64, vmutil builders ---------- *)

Definition push_data_uint64 (n : N) : item :=
  if n =? 0 then [0]
  else if n <=? 16 then [OP_1 + n - 1]
  else push_data_bytes (le_encode n).

(* P2WPKHProgram and P2WSHProgram are the same builder: OP_0 <hash> *)
Definition p2w_program (h : item) : item := push_data_uint64 0 ++ push_data_bytes h.

(* DUP HASH160 <h> EQUALVERIFY TXSIGHASH SWAP CHECKSIG *)
Definition p2pkh_sig_program (h : item) : item :=
  [118; 171] ++ push_data_bytes h ++ [136; 174; 124; 172].

(* DUP SHA3 <h> EQUALVERIFY 0 SWAP 0 CHECKPREDICATE *)
Definition p2sh_program (h : item) : item :=
  [118; 170] ++ push_data_bytes h ++ [136] ++ push_data_uint64 0 ++ [124] ++ push_data_uint64 0 ++ [192].

(* checkMultiSigParams (nrequired, npubkeys are non-negative here) *)
Definition check_multisig_params (m n : N) : bool :=
  negb (n <? m) && negb ((m =? 0) && (0 <? n)).

(* TXSIGHASH <pk1> ... <pkn> <m> <n> CHECKMULTISIG *)
Definition multisig_body (pks : list item) (m : N) : item :=
  [174] ++ flat_map push_data_bytes pks ++ push_data_uint64 m ++ push_data_uint64 (N.of_nat (length pks)) ++ [173].
Definition multisig_program (pks : list item) (m : N) : option item :=
  if check_multisig_params m (N.of_nat (length pks)) then Some (multisig_body pks m) else None.

(* ---------- validation.convertProgram ---------- *)

(* [other] stands for the third branch (BCRP call-contract conversion through
   the node's converter callback, or the program itself) *)
Definition convert_program (other : item -> item) (p : item) : item :=
  if is_p2wpkh p then p2pkh_sig_program (p2w_data p)
  else if is_p2wsh p then p2sh_program (p2w_data p)
  else other p.

(* ---------- the signature hash ---------- *)

Definition tx_sighash (cr : crypto) (entryid txid : item) : item := h_sha3 cr (entryid ++ txid).

(* ---------- witness layout (txbuilder) ---------- *)

(* RawTxSigWitness.materialize: the first [quorum] non-empty signature slots, in key order *)
Fixpoint take_sigs (quorum : nat) (slots : list item) : list item :=
  match quorum, slots with
  | O, _ => []
  | _, [] => []
  | S q, s :: r => match s with [] => take_sigs quorum r | _ => s :: take_sigs q r end
  end.
Definition rawtxsig_materialize (args : list item) (quorum : nat) (slots : list item) : list item :=
  args ++ take_sigs quorum slots.
(* SignatureWitness.materialize: N (= number of arguments so far), signatures, signature program *)
Definition sigwitness_materialize (args : list item) (quorum : nat) (slots : list item) (sigprog : item) : list item :=
  args ++ [le_encode (N.of_nat (length args))] ++ take_sigs quorum slots ++ [sigprog].
Definition data_materialize (args : list item) (d : item) : list item := args ++ [d].

(* account.UtxoToInputs: raw signatures, then the public key (P2WPKH) or the redeem script (P2WSH) *)
Definition p2w_witness (quorum : nat) (slots : list item) (last : item) : list item :=
  data_materialize (rawtxsig_materialize [] quorum slots) last.

(* ---------- declarative specifications ---------- *)

(* l1 is an order-preserving sub-sequence of l2 *)
Inductive subseq {A} : list A -> list A -> Prop :=
| ss_nil : forall l, subseq [] l
| ss_take : forall x l1 l2, subseq l1 l2 -> subseq (x :: l1) (x :: l2)
| ss_skip : forall x l1 l2, subseq l1 l2 -> subseq l1 (x :: l2).

(* the signatures match, pairwise and in order, a sub-sequence of the keys *)
Definition multisig_spec (cr : crypto) (msg : item) (sigs pks : list item) : Prop :=
  exists ks, subseq ks pks /\ Forall2 (fun sg pk => sig_verify cr pk msg sg = true) sigs ks.

(* what opCheckPredicate + the end of step make of a child run: child error nil,
   top of the child's stack true, and the deferred refund can be applied *)
Definition child_state (script : item) (limit : Z) (stack : list item) : vmst :=
  {| prog := script; pc := 0; nextpc := 0; runlimit := limit; deferred := 0;
     expres := false; vdata := []; dstack := stack; astack := [] |}.
Definition child_accepts (cr : crypto) (cx : context) (fuel : nat) (script : item) (limit : Z) (stack : list item) : bool :=
  match run cr cx fuel (child_state script limit stack) with
  | ROk _ cs => negb (false_result cs)
                && (0 <=? 192 + item_cost [] + item_cost script + item_cost []
                          + runlimit cs + stack_cost (dstack cs) + stack_cost (astack cs) - item_cost [1%N])%Z
  | RErr _ _ => false
  end.
