(* C02 — the converted P2WSH program  DUP SHA3 <h> EQUALVERIFY 0 SWAP 0 CHECKPREDICATE. *)
From Coq Require Import List ZArith NArith Bool Lia ZifyBool ZifyN ZifyNat.
From Verif Require Import Cmp VM.
From C02 Require Import Model ProofsVM ProofsOps ProofsStep ProofsVerify.
Import ListNotations.
Open Scope Z_scope.

Ltac stsimpl := unfold set_runlimit, set_pc; cbn [prog pc nextpc runlimit deferred expres vdata dstack astack].

Section P2SH.
  Variable cr : crypto.
  Variable cx : context.
  Variable h : item.
  Hypothesis Hh : length h = 32%nat.
  Hypothesis Hsha : forall x, length (h_sha3 cr x) = 32%nat.

  Let P := p2sh_program h.

  Lemma PS_len : length P = 40%nat.
  Proof. unfold P, p2sh_program. rewrite !app_length, length_pdb by lia. rewrite Hh. reflexivity. Qed.
  Lemma PS_lenok : lenok P.
  Proof. unfold lenok. rewrite PS_len. lia. Qed.

  Ltac inrange := cbn [prog pc]; rewrite PS_len; reflexivity.
  Ltac decomp := unfold P, p2sh_program, push_data_uint64; cbn [N.eqb]; repeat rewrite <- app_assoc; reflexivity.
  Ltac pcok := repeat rewrite app_length; rewrite ?length_pdb by lia; rewrite ?Hh; reflexivity.

  (* gas handed to the child VM *)
  Definition p2sh_child_limit (rl : Z) (script : item) : Z := rl - Z.max (nlen script) 64 - 310.

  Lemma run_p2sh f er script rest al rl :
    700 + 2 * item_cost script <= rl ->
    run cr cx (S (S (S (S (S (S (S (S (S f))))))))) (st P 0 0 rl 0 er [] (script :: rest) al) =
    if bytes_eqb (h_sha3 cr script) h
    then
      match run cr cx (S f) (child_state script (p2sh_child_limit rl script) rest) with
      | ROk _ cs =>
          let r := negb (false_result cs) in
          let D := - 192 - item_cost [] - item_cost script - item_cost []
                   - runlimit cs - stack_cost (dstack cs) - stack_cost (astack cs) + item_cost (bool_bytes r) in
          if 0 <? D then RErr ERunLimitExceeded (st P 39 40 0 D er [] [] [])
          else ROk tt (st P 40 40 (0 - D) D er [] [bool_bytes r] al)
      | RErr _ cs =>
          let D := - 192 - item_cost [] - item_cost script - item_cost []
                   - runlimit cs - stack_cost (dstack cs) - stack_cost (astack cs) + item_cost [] in
          if 0 <? D then RErr ERunLimitExceeded (st P 39 40 0 D er [] [] [])
          else ROk tt (st P 40 40 (0 - D) D er [] [[]] al)
      end
    else RErr EVerifyFailed (st P 35 36 (rl - Z.max (nlen script) 64 - 115) (-80) er [] (script :: rest) al).
  Proof.
    intros Hg. pose proof (item_cost_pos script) as Hs.
    assert (Hic : item_cost (h_sha3 cr script) = 40) by (unfold item_cost; rewrite Hsha; reflexivity).
    assert (Hich : item_cost h = 40) by (unfold item_cost; rewrite Hh; reflexivity).
    assert (Hmax : 64 <= Z.max (nlen script) 64 <= item_cost script + 56) by (unfold item_cost, nlen; lia).
    (* DUP *)
    rewrite (run_step cr cx _ _ (st P 1 1 (rl - 1 - item_cost script) 0 er [] (script :: script :: rest) al)); [| inrange |].
    2:{ erewrite (step_plain_ok cr cx _ P [] 118%N); [| decomp | reflexivity | reflexivity | apply PS_lenok | reflexivity
                                                  | apply exec_dup; lia | cbn [deferred runlimit]; lia ].
        stsimpl. f_equal. f_equal. lia. }
    (* SHA3 *)
    rewrite (run_step cr cx _ _ (st P 2 2 (rl - Z.max (nlen script) 64 - 41) 0 er [] (h_sha3 cr script :: script :: rest) al)); [| inrange |].
    2:{ erewrite (step_plain_ok cr cx _ P [118%N] 170%N); [| decomp | reflexivity | reflexivity | apply PS_lenok | reflexivity
                                                  | apply exec_sha3; lia | cbn [deferred runlimit]; lia ].
        stsimpl. f_equal. f_equal. lia. }
    (* push h *)
    rewrite (run_step cr cx _ _ (st P 35 35 (rl - Z.max (nlen script) 64 - 82) 0 er h (h :: h_sha3 cr script :: script :: rest) al)); [| inrange |].
    2:{ rewrite (step_push_ok cr cx _ P [118; 170]%N h ([136] ++ [0] ++ [124] ++ [0] ++ [192])%N); [| decomp | lia | apply PS_lenok | reflexivity | lia].
        rewrite Hh. f_equal. f_equal. lia. }
    (* EQUALVERIFY *)
    assert (Hmin : Z.min (nlen (h_sha3 cr script)) (nlen h) = 32) by (unfold nlen; rewrite Hsha, Hh; reflexivity).
    destruct (bytes_eqb (h_sha3 cr script) h) eqn:Eq.
    2:{ erewrite run_fail; [reflexivity | inrange |].
        erewrite (step_plain_err cr cx _ P ([118; 170]%N ++ push_data_bytes h) 136%N); [reflexivity | decomp | reflexivity | reflexivity | apply PS_lenok | pcok |].
        rewrite exec_equalverify by lia. rewrite Eq, Hmin. f_equal. f_equal; lia. }
    rewrite (run_step cr cx _ _ (st P 36 36 (rl - Z.max (nlen script) 64 - 35) (-80) er [] (script :: rest) al)); [| inrange |].
    2:{ erewrite (step_plain_ok cr cx _ P ([118; 170]%N ++ push_data_bytes h) 136%N); [| decomp | reflexivity | reflexivity | apply PS_lenok | pcok
                                                  | rewrite exec_equalverify by lia; rewrite Eq, Hmin; reflexivity | cbn [deferred runlimit]; lia ].
        stsimpl. f_equal. f_equal; lia. }
    (* 0 *)
    rewrite (run_step cr cx _ _ (st P 37 37 (rl - Z.max (nlen script) 64 - 44) 0 er [] ([] :: script :: rest) al)); [| inrange |].
    2:{ erewrite (step_plain_ok cr cx _ P ([118; 170]%N ++ push_data_bytes h ++ [136]%N) 0%N); [| decomp | reflexivity | reflexivity | apply PS_lenok | pcok
                                                  | apply exec_false; lia | cbn [deferred runlimit]; lia ].
        stsimpl. f_equal. f_equal; lia. }
    (* SWAP *)
    rewrite (run_step cr cx _ _ (st P 38 38 (rl - Z.max (nlen script) 64 - 45) 0 er [] (script :: [] :: rest) al)); [| inrange |].
    2:{ erewrite (step_plain_ok cr cx _ P ([118; 170]%N ++ push_data_bytes h ++ [136; 0]%N) 124%N); [| decomp | reflexivity | reflexivity | apply PS_lenok | pcok
                                                  | apply exec_swap; lia | cbn [deferred runlimit]; lia ].
        stsimpl. f_equal. f_equal; lia. }
    (* 0 *)
    rewrite (run_step cr cx _ _ (st P 39 39 (rl - Z.max (nlen script) 64 - 54) 0 er [] ([] :: script :: [] :: rest) al)); [| inrange |].
    2:{ erewrite (step_plain_ok cr cx _ P ([118; 170]%N ++ push_data_bytes h ++ [136; 0; 124]%N) 0%N); [| decomp | reflexivity | reflexivity | apply PS_lenok | pcok
                                                  | apply exec_false; lia | cbn [deferred runlimit]; lia ].
        stsimpl. f_equal. f_equal; lia. }
    (* CHECKPREDICATE *)
    rewrite run_S. replace (pc _ <? _)%N with true by (symmetry; inrange).
    rewrite (step_op cr cx _ _ {| i_op := 192; i_len := 1; i_data := [] |});
      [| cbn [prog pc]; replace 39%N with (N.of_nat (length ([118; 170]%N ++ push_data_bytes h ++ [136; 0; 124; 0]%N))) by pcok;
         apply (parse_plain P ([118; 170]%N ++ push_data_bytes h ++ [136; 0; 124; 0]%N) 192%N []); [decomp | reflexivity | apply PS_lenok] | reflexivity].
    unfold set_vdata, set_deferred, set_nextpc; cbn [i_op i_len i_data prog pc nextpc runlimit deferred expres vdata dstack astack].
    rewrite (pc_mod 39 1 P PS_lenok) by (rewrite PS_len; lia).
    unfold p2sh_child_limit.
    replace (rl - Z.max (nlen script) 64 - 310) with (rl - Z.max (nlen script) 64 - 54 - 256) by lia.
    unfold rcf at 1.
    destruct (run cr cx (S f) (child_state script (rl - Z.max (nlen script) 64 - 54 - 256) rest)) as [[] cs|e cs] eqn:Ec.
    - erewrite exec_checkpredicate; [| lia | unfold rcf; rewrite Ec; reflexivity].
      cbv zeta. cbn [andb]. unfold apply_cost. cbn [deferred runlimit]. fold (false_result cs).
      match goal with |- context [0 <? ?d] => replace d with
        (-192 - item_cost [] - item_cost script - item_cost [] - runlimit cs - stack_cost (dstack cs) - stack_cost (astack cs)
         + item_cost (bool_bytes (negb (false_result cs)))) by lia;
        destruct (0 <? -192 - item_cost [] - item_cost script - item_cost [] - runlimit cs - stack_cost (dstack cs) - stack_cost (astack cs)
         + item_cost (bool_bytes (negb (false_result cs)))) eqn:Ed end.
      + reflexivity.
      + stsimpl. rewrite run_end by (stsimpl; rewrite PS_len; reflexivity). first [reflexivity | f_equal; f_equal; lia].
    - erewrite exec_checkpredicate; [| lia | unfold rcf; rewrite Ec; reflexivity].
      cbv zeta. cbn [andb bool_bytes]. unfold apply_cost. cbn [deferred runlimit].
      match goal with |- context [0 <? ?d] => replace d with
        (-192 - item_cost [] - item_cost script - item_cost [] - runlimit cs - stack_cost (dstack cs) - stack_cost (astack cs)
         + item_cost []) by lia;
        destruct (0 <? -192 - item_cost [] - item_cost script - item_cost [] - runlimit cs - stack_cost (dstack cs) - stack_cost (astack cs)
         + item_cost []) eqn:Ed end.
      + reflexivity.
      + stsimpl. rewrite run_end by (stsimpl; rewrite PS_len; reflexivity). first [reflexivity | f_equal; f_equal; lia].
  Qed.

  Lemma run_dup_empty_p2sh f er al rl : 1 <= rl ->
    exists e s, run cr cx (S f) (st P 0 0 rl 0 er [] [] al) = RErr e s.
  Proof.
    intros Hg.
    destruct (exec_dup_empty cr cx (rcf cr cx f) P 0 (0 + 1) rl 0 er [] al Hg) as [s' He].
    exists EDataStackUnderflow, s'. erewrite run_fail; [reflexivity | inrange |].
    erewrite (step_plain_err cr cx _ P [] 118%N);
      [reflexivity | decomp | reflexivity | reflexivity | apply PS_lenok | reflexivity | exact He].
  Qed.

  Hypothesis Hvm : cx_vmversion cx = 1%N.
  Hypothesis Hcode : cx_code cx = P.

  Definition p2sh_gas_bound (sd args : list item) : Z := stack_cost sd + 3 * stack_cost args + 700.

  (* the declarative condition: last argument is the committed script, which accepts the
     remaining arguments in a child VM *)
  Definition p2sh_witness_ok (f : nat) (sd args : list item) (gas : Z) : Prop :=
    exists rest script, args = rest ++ [script] /\ h_sha3 cr script = h /\
      child_accepts cr cx (S f) script (p2sh_child_limit (gas - stack_cost sd - stack_cost args) script) (rev rest) = true.

  Theorem p2sh_iff f sd args gas : p2sh_gas_bound sd args <= gas ->
    (accepts cr cx (9 + f) sd args gas <-> p2sh_witness_ok f sd args gas).
  Proof.
    unfold p2sh_gas_bound. intros Hg.
    pose proof (stack_cost_nonneg sd) as Hsd. pose proof (stack_cost_nonneg args) as Hargs.
    rewrite accepts_iff by (try assumption; lia). unfold init_state. rewrite Hcode.
    assert (Hrev : stack_cost (rev args) = stack_cost args) by apply stack_cost_rev.
    cbn [Nat.add]. unfold p2sh_witness_ok.
    destruct (rev args) as [|script rest'] eqn:Er.
    - destruct (run_dup_empty_p2sh (S (S (S (S (S (S (S (S f)))))))) (er0 cx) (rev sd) (gas - stack_cost sd - stack_cost args) ltac:(lia)) as [e [s' E]].
      rewrite E. split.
      + intros [s [Hx _]]. discriminate.
      + intros [rest [script [Ea _]]]. apply (f_equal (@rev item)) in Ea. rewrite rev_app_distr in Ea. cbn in Ea. congruence.
    - rewrite stack_cost_cons in Hrev. pose proof (stack_cost_nonneg rest').
      rewrite run_p2sh by lia.
      assert (Eargs : args = rev rest' ++ [script]) by (rewrite <- (rev_involutive args), Er; reflexivity).
      destruct (bytes_eqb (h_sha3 cr script) h) eqn:Eq.
      + apply bytes_eqb_eq in Eq.
        assert (Hiff : forall (X : Prop), (X <-> child_accepts cr cx (S f) script
                          (p2sh_child_limit (gas - stack_cost sd - stack_cost args) script) rest' = true) ->
                       (X <-> exists rest script0, args = rest ++ [script0] /\ h_sha3 cr script0 = h /\
                              child_accepts cr cx (S f) script0 (p2sh_child_limit (gas - stack_cost sd - stack_cost args) script0) (rev rest) = true)).
        { intros X HX. rewrite HX. split.
          - intros Hc. exists (rev rest'), script. rewrite rev_involutive. repeat split; assumption.
          - intros [rest [script0 [Ea [_ Hc]]]]. rewrite Eargs in Ea. apply app_inj_tail in Ea. destruct Ea as [E1 E2].
            subst script0. rewrite <- E1, rev_involutive in Hc. exact Hc. }
        apply Hiff. clear Hiff. unfold child_accepts.
        destruct (run cr cx (S f) (child_state script (p2sh_child_limit (gas - stack_cost sd - stack_cost args) script) rest')) as [[] cs|e cs].
        * cbv zeta. destruct (false_result cs) eqn:Fr; cbn [negb andb bool_bytes].
          -- split; [|discriminate]. intros [s [Hx Hf]].
             destruct (0 <? _) in Hx; [discriminate|]. inversion Hx; subst s. cbv in Hf. discriminate.
          -- match goal with |- context [0 <? ?d] => destruct (0 <? d) eqn:Ed end.
             ++ split; [intros [s [Hx _]]; discriminate|]. intros Hc. apply Z.leb_le in Hc. apply Z.ltb_lt in Ed. lia.
             ++ split; [|intros _; eexists; split; [reflexivity | reflexivity]].
                intros _. apply Z.leb_le. apply Z.ltb_ge in Ed. lia.
        * cbv zeta. split; [|discriminate]. intros [s [Hx Hf]].
          destruct (0 <? _) in Hx; [discriminate|]. inversion Hx; subst s. cbv in Hf. discriminate.
      + split; [intros [s [Hx _]]; discriminate|].
        intros [rest [script0 [Ea [Hh' _]]]]. rewrite Eargs in Ea. apply app_inj_tail in Ea. destruct Ea as [_ E2].
        subst script0. apply bytes_eqb_eq in Hh'. congruence.
  Qed.
End P2SH.
