(* C02 — the m-of-n script  TXSIGHASH <pk1> .. <pkn> <m> <n> CHECKMULTISIG  (P2SPMultiSigProgram),
   for every n. *)
From Coq Require Import List ZArith NArith Bool Lia ZifyBool ZifyN ZifyNat.
From Verif Require Import Cmp VM.
From C02 Require Import Model ProofsVM ProofsOps ProofsStep ProofsVerify ProofsScan.
Import ListNotations.
Open Scope Z_scope.

Ltac stsimpl := unfold set_runlimit, set_pc; cbn [prog pc nextpc runlimit deferred expres vdata dstack astack].

Definition len32 (p : item) : Prop := length p = 32%nat.

Lemma flat_map_pdb_len ks : Forall len32 ks -> length (flat_map push_data_bytes ks) = (33 * length ks)%nat.
Proof.
  induction 1 as [|k ks Hk _ IH]; [reflexivity|].
  cbn [flat_map]. rewrite app_length, IH, length_pdb by (unfold len32 in Hk; lia). unfold len32 in Hk. cbn [length]. lia.
Qed.
Lemma forallb_len32 ks : Forall len32 ks -> forallb (fun p : item => (length p =? 32)%nat) ks = true.
Proof. induction 1 as [|k ks Hk _ IH]; [reflexivity|]. cbn. rewrite Hk, IH. reflexivity. Qed.

Section Multisig.
  Variable cr : crypto.
  Variable cx : context.
  Variable sh : item.
  Hypothesis Hsh : cx_txsighash cx = Some sh.
  Hypothesis Hshl : length sh = 32%nat.

  (* the n key pushes *)
  Lemma run_keys : forall ks pre post P f npc rl df er vd ds al,
    P = pre ++ flat_map push_data_bytes ks ++ post -> (1 <= length post)%nat -> Forall len32 ks -> lenok P ->
    41 * Z.of_nat (length ks) <= rl ->
    exists npc' df' vd',
      run cr cx (length ks + f) (st P (N.of_nat (length pre)) npc rl df er vd ds al) =
      run cr cx f (st P (N.of_nat (length pre + 33 * length ks)) npc' (rl - 41 * Z.of_nat (length ks)) df' er vd' (rev ks ++ ds) al).
  Proof.
    induction ks as [|k ks IH]; intros pre post P f npc rl df er vd ds al EP Hpost Hks Hl Hg.
    - exists npc, df, vd. cbn [length Nat.add Nat.mul rev app]. rewrite Nat.add_0_r, Z.mul_0_r, Z.sub_0_r. reflexivity.
    - inversion Hks as [|k' ks' Hk Hks']; subst k' ks'. unfold len32 in Hk.
      cbn [flat_map] in EP. rewrite <- app_assoc in EP.
      cbn [length] in Hg. cbn [length Nat.add].
      assert (Hic : item_cost k = 40) by (unfold item_cost; rewrite Hk; reflexivity).
      assert (Hlen : length P = (length pre + 33 * S (length ks) + length post)%nat).
      { subst P. rewrite !app_length, length_pdb, flat_map_pdb_len by (try assumption; lia). lia. }
      erewrite run_step; [| cbn [prog pc]; rewrite Hlen; apply N.ltb_lt; lia
                          | apply (step_push_ok cr cx _ P pre k (flat_map push_data_bytes ks ++ post)); [exact EP | lia | exact Hl | reflexivity | lia] ].
      edestruct (IH (pre ++ push_data_bytes k) post P f) as [npc' [df' [vd' E]]];
        [ rewrite <- app_assoc; exact EP | exact Hpost | exact Hks' | exact Hl | | ].
      2:{ replace (N.of_nat (length pre) + (1 + N.of_nat (length k)))%N with (N.of_nat (length (pre ++ push_data_bytes k)))
            by (rewrite app_length, length_pdb by lia; lia).
          rewrite E. exists npc', df', vd'. f_equal. f_equal.
          - rewrite app_length, length_pdb by lia. lia.
          - lia.
          - cbn [rev]. rewrite <- app_assoc. reflexivity. }
      lia.
  Qed.

  Variable pks : list item.
  Variable m : nat.
  Hypothesis Hpks : Forall len32 pks.
  Hypothesis Hmn : (m <= length pks)%nat.
  Hypothesis Hm0 : (length pks > 0 -> m > 0)%nat.

  Let n := length pks.
  Let MS := multisig_body pks (N.of_nat m).
  Hypothesis HMS : lenok MS.

  Lemma MS_len : length MS = (1 + 33 * n + u64_len (N.of_nat m) + u64_len (N.of_nat n) + 1)%nat.
  Proof. unfold MS, multisig_body. rewrite !app_length, flat_map_pdb_len by assumption. unfold u64_len, n. cbn [length]. lia. Qed.

  Lemma n_small : Z.of_nat n * 1024 <= 2 ^ 63 - 1 /\ (N.of_nat n < 2 ^ 63)%N /\ (N.of_nat m < 2 ^ 63)%N.
  Proof. unfold lenok in HMS. rewrite MS_len in HMS. fold n in Hmn. lia. Qed.

  Definition ms_gas_bound (nkeys : nat) : Z := 1065 * Z.of_nat nkeys + 400.

  Lemma ic_encode k : (k < 2 ^ 63)%N -> 8 <= item_cost (le_encode k) <= 16.
  Proof. intros H. pose proof (le_encode_len k H). unfold item_cost. lia. Qed.

  (* the run up to CHECKMULTISIG *)
  Lemma run_to_cms f npc df er vd ds al rl : ms_gas_bound n <= rl ->
    exists npc' df' vd' rl', rl - 340 - 41 * Z.of_nat n <= rl' /\
      run cr cx (n + 3 + f) (st MS 0 npc rl df er vd ds al) =
      run cr cx f (st MS (N.of_nat (length MS - 1)) npc' rl' df' er vd'
                      (le_encode (N.of_nat n) :: le_encode (N.of_nat m) :: rev pks ++ sh :: ds) al).
  Proof.
    unfold ms_gas_bound. intros Hg. destruct n_small as [Hn1 [Hn2 Hn3]].
    pose proof (ic_encode _ Hn2) as Hicn. pose proof (ic_encode _ Hn3) as Hicm.
    pose proof (u64_len_pos (N.of_nat m)) as Hum. pose proof (u64_len_pos (N.of_nat n)) as Hun.
    assert (Hics : item_cost sh = 40) by (unfold item_cost; rewrite Hshl; reflexivity).
    pose proof MS_len as HL.
    (* TXSIGHASH *)
    replace (n + 3 + f)%nat with (S (n + (S (S f))))%nat by lia.
    rewrite (run_step cr cx _ _ (st MS 1 1 (rl - 296) 0 er [] (sh :: ds) al));
      [| cbn [prog pc]; rewrite HL; apply N.ltb_lt; lia |].
    2:{ erewrite (step_plain_ok cr cx _ MS [] 174%N); [| reflexivity | reflexivity | reflexivity | exact HMS | reflexivity
                                                     | apply (exec_txsighash cr cx _ sh); [exact Hsh | lia] | cbn [deferred runlimit]; lia ].
        stsimpl. f_equal. f_equal; lia. }
    (* keys *)
    edestruct (run_keys pks [174%N] (push_data_uint64 (N.of_nat m) ++ push_data_uint64 (N.of_nat n) ++ [173%N]) MS (S (S f)) 1%N (rl - 296) 0 er [] (sh :: ds) al)
      as [npc1 [df1 [vd1 E1]]]; [reflexivity | rewrite !app_length; cbn [length]; lia | exact Hpks | exact HMS | fold n; lia |].
    change (N.of_nat (length [174%N])) with 1%N in E1. fold n in E1. rewrite E1. clear E1.
    (* m *)
    edestruct (step_push_u64 cr cx (rcf cr cx (S f)) MS ([174%N] ++ flat_map push_data_bytes pks) (N.of_nat m) (push_data_uint64 (N.of_nat n) ++ [173%N])
                 (N.of_nat (length [174%N] + 33 * n)) npc1 (rl - 296 - 41 * Z.of_nat n) df1 er vd1 (rev pks ++ sh :: ds) al)
      as [vd2 E2]; [unfold MS, multisig_body; rewrite <- !app_assoc; reflexivity | exact Hn3 | exact HMS
                   | rewrite app_length, flat_map_pdb_len by assumption; reflexivity | lia |].
    erewrite run_step; [| cbn [prog pc]; rewrite HL; apply N.ltb_lt; cbn [length]; lia | exact E2]. clear E2.
    (* n *)
    edestruct (step_push_u64 cr cx (rcf cr cx f) MS ([174%N] ++ flat_map push_data_bytes pks ++ push_data_uint64 (N.of_nat m)) (N.of_nat n) [173%N]
                 (N.of_nat (length [174%N] + 33 * n) + N.of_nat (u64_len (N.of_nat m)))%N
                 (N.of_nat (length [174%N] + 33 * n) + N.of_nat (u64_len (N.of_nat m)))%N
                 (rl - 296 - 41 * Z.of_nat n - 1 - item_cost (le_encode (N.of_nat m))) 0 er vd2 (le_encode (N.of_nat m) :: rev pks ++ sh :: ds) al)
      as [vd3 E3]; [unfold MS, multisig_body; rewrite <- !app_assoc; reflexivity | exact Hn2 | exact HMS
                   | rewrite !app_length, flat_map_pdb_len by assumption; unfold u64_len; cbn [length]; lia | lia |].
    erewrite run_step; [| cbn [prog pc]; rewrite HL; apply N.ltb_lt; cbn [length]; lia | exact E3]. clear E3.
    assert (Hpc : N.of_nat (length MS - 1) = (N.of_nat (length [174%N] + 33 * n) + N.of_nat (u64_len (N.of_nat m)) + N.of_nat (u64_len (N.of_nat n)))%N)
      by (rewrite HL; cbn [length]; lia).
    rewrite Hpc. do 4 eexists. split; [|reflexivity]. lia.
  Qed.

  Lemma MS_decomp : MS = ([174%N] ++ flat_map push_data_bytes pks ++ push_data_uint64 (N.of_nat m) ++ push_data_uint64 (N.of_nat n)) ++ 173%N :: [].
  Proof. unfold MS, multisig_body. rewrite <- !app_assoc. reflexivity. Qed.
  Lemma MS_pre_len : N.of_nat (length MS - 1) =
    N.of_nat (length ([174%N] ++ flat_map push_data_bytes pks ++ push_data_uint64 (N.of_nat m) ++ push_data_uint64 (N.of_nat n))).
  Proof. rewrite MS_decomp at 1. rewrite app_length. cbn [length]. f_equal. lia. Qed.

  Lemma ms_run_ok' f npc df er vd sgl rest al rl : ms_gas_bound n <= rl -> length sgl = m ->
    exists s, run cr cx (n + 5 + f) (st MS 0 npc rl df er vd (sgl ++ rest) al) = ROk tt s /\
              dstack s = bool_bytes (multisig_scan cr sh sgl (rev pks)) :: rest /\ astack s = al /\ 0 <= runlimit s.
  Proof.
    intros Hg Hsl. destruct n_small as [Hn1 [Hn2 Hn3]].
    pose proof (ic_encode _ Hn2) as Hicn. pose proof (ic_encode _ Hn3) as Hicm.
    assert (Hics : item_cost sh = 40) by (unfold item_cost; rewrite Hshl; reflexivity).
    replace (n + 5 + f)%nat with (n + 3 + S (S f))%nat by lia.
    destruct (run_to_cms (S (S f)) npc df er vd (sgl ++ rest) al rl Hg) as [npc' [df' [vd' [rl' [Hrl E]]]]].
    rewrite E. clear E. unfold ms_gas_bound in Hg.
    set (r := multisig_scan cr sh sgl (rev pks)).
    assert (Hb : 8 <= item_cost (bool_bytes r) <= 9) by (destruct r; cbv; split; discriminate).
    pose proof (stack_cost_nonneg (rev pks)). pose proof (stack_cost_nonneg sgl).
    eexists. split; [|split; [|split]].
    - erewrite run_step; [| cbn [prog pc]; apply N.ltb_lt; pose proof MS_len; lia |].
      2:{ erewrite (step_plain_ok cr cx _ MS _ 173%N []); [reflexivity | exact MS_decomp | reflexivity | reflexivity | exact HMS | exact MS_pre_len | |].
          - rewrite (exec_cms cr cx _ MS _ _ _ _ _ _ (le_encode (N.of_nat n)) (le_encode (N.of_nat m)) (rev pks) sh sgl rest al); [reflexivity | | | | | | | |].
            + rewrite rev_length. apply as_bigint_encode. exact Hn2.
            + transitivity (@inr vmerr N (N.of_nat m)); [apply as_bigint_encode; exact Hn3 | do 2 f_equal; symmetry; exact Hsl].
            + rewrite rev_length. fold n. lia.
            + rewrite rev_length. exact Hn1.
            + rewrite rev_length. match goal with |- context [@length ?T sgl] => let Hx := fresh in assert (Hx : @length T sgl = m) by exact Hsl; rewrite Hx end. exact Hmn.
            + rewrite rev_length. match goal with |- context [@length ?T sgl] => let Hx := fresh in assert (Hx : @length T sgl = m) by exact Hsl; rewrite Hx end. exact Hm0.
            + exact Hshl.
            + apply forallb_len32. apply Forall_rev. exact Hpks.
          - cbn [deferred runlimit]. rewrite rev_length. fold n. fold r. lia. }
      apply run_end. stsimpl. apply N.ltb_ge. pose proof MS_len. lia.
    - stsimpl. reflexivity.
    - stsimpl. reflexivity.
    - stsimpl. rewrite rev_length. fold n. fold r. lia.
  Qed.

  Lemma ms_run_ok f npc df er vd ds al rl : ms_gas_bound n <= rl -> (m <= length ds)%nat ->
    exists s, run cr cx (n + 5 + f) (st MS 0 npc rl df er vd ds al) = ROk tt s /\
              dstack s = bool_bytes (multisig_scan cr sh (firstn m ds) (rev pks)) :: skipn m ds /\
              astack s = al /\ 0 <= runlimit s.
  Proof.
    intros Hg Hl.
    pose proof (ms_run_ok' f npc df er vd (firstn m ds) (skipn m ds) al rl Hg (firstn_length_le _ Hl)) as H.
    rewrite firstn_skipn in H. exact H.
  Qed.

  Lemma ms_run_short f npc df er vd ds al rl : ms_gas_bound n <= rl -> (length ds < m)%nat ->
    exists e s, run cr cx (n + 5 + f) (st MS 0 npc rl df er vd ds al) = RErr e s.
  Proof.
    intros Hg Hl. destruct n_small as [Hn1 [Hn2 Hn3]].
    replace (n + 5 + f)%nat with (n + 3 + S (S f))%nat by lia.
    destruct (run_to_cms (S (S f)) npc df er vd ds al rl Hg) as [npc' [df' [vd' [rl' [Hrl E]]]]].
    rewrite E. clear E. unfold ms_gas_bound in Hg.
    edestruct (exec_cms_short cr cx (rcf cr cx (S f)) MS (N.of_nat (length MS - 1)) (N.of_nat (length MS - 1) + 1)%N rl' 0 er []
                 (le_encode (N.of_nat n)) (le_encode (N.of_nat m)) (rev pks) sh m ds al) as [s' He].
    - rewrite rev_length. apply as_bigint_encode. exact Hn2.
    - apply as_bigint_encode. exact Hn3.
    - rewrite rev_length. fold n. lia.
    - rewrite rev_length. exact Hn1.
    - rewrite rev_length. exact Hmn.
    - rewrite rev_length. exact Hm0.
    - exact Hshl.
    - exact Hl.
    - exists EDataStackUnderflow, s'. erewrite run_fail; [reflexivity | cbn [prog pc]; apply N.ltb_lt; pose proof MS_len; lia |].
      erewrite (step_plain_err cr cx _ MS _ 173%N []); [reflexivity | exact MS_decomp | reflexivity | reflexivity | exact HMS | exact MS_pre_len | exact He].
  Qed.

  (* the child-VM acceptance (CHECKPREDICATE) of the script *)
  Lemma child_accepts_ms f limit stack : ms_gas_bound n <= limit ->
    (child_accepts cr cx (n + 5 + f) MS limit stack = true <->
     exists extra sigs, rev stack = extra ++ sigs /\ length sigs = m /\ multisig_spec cr sh sigs pks).
  Proof.
    intros Hg. rewrite <- scan_witness_iff. unfold child_accepts, child_state.
    destruct (le_lt_dec m (length stack)) as [Hl|Hl].
    - destruct (ms_run_ok f 0%N 0 false [] stack [] limit Hg Hl) as [s [E [Ds [As Hr]]]].
      rewrite E. unfold false_result. rewrite Ds, As.
      pose proof (stack_cost_nonneg (skipn m stack)). pose proof (item_cost_pos MS).
      destruct (multisig_scan cr sh (firstn m stack) (rev pks)) eqn:Es.
      + cbn [bool_bytes as_bool existsb N.eqb negb orb andb].
        split; [intros _; split; [assumption | reflexivity]|]. intros _.
        apply Z.leb_le. rewrite stack_cost_cons. unfold item_cost in *. cbn [length stack_cost fold_right] in *. lia.
      + cbn [bool_bytes as_bool existsb negb andb]. split; [discriminate | intros [_ Hx]; discriminate].
    - destruct (ms_run_short f 0%N 0 false [] stack [] limit Hg Hl) as [e [s E]].
      rewrite E. split; [discriminate | intros [Hx _]; lia].
  Qed.

  (* the script as a control program of its own: vm.Verify accepts iff the last m
     arguments are signatures matching, in order, a sub-sequence of the keys *)
  Hypothesis Hvm : cx_vmversion cx = 1%N.
  Hypothesis Hcode : cx_code cx = MS.

  Theorem multisig_iff f sd args gas : stack_cost sd + stack_cost args + ms_gas_bound n <= gas ->
    (accepts cr cx (n + 5 + f) sd args gas <->
     exists extra sigs, args = extra ++ sigs /\ length sigs = m /\ multisig_spec cr sh sigs pks).
  Proof.
    intros Hg. pose proof (stack_cost_nonneg sd). pose proof (stack_cost_nonneg args).
    rewrite accepts_iff by (try assumption; unfold ms_gas_bound in Hg; lia).
    unfold init_state. rewrite Hcode.
    pose proof (scan_witness_iff cr sh m (rev args) pks) as Hiff. rewrite rev_involutive in Hiff. rewrite <- Hiff. clear Hiff.
    destruct (le_lt_dec m (length (rev args))) as [Hl|Hl].
    - destruct (ms_run_ok f 0%N 0 (er0 cx) [] (rev args) (rev sd) (gas - stack_cost sd - stack_cost args) ltac:(lia) Hl) as [s [E [Ds _]]].
      rewrite E. split.
      + intros [s' [Hx Hf]]. inversion Hx; subst s'. unfold false_result in Hf. rewrite Ds in Hf.
        split; [assumption|]. destruct (multisig_scan cr sh (firstn m (rev args)) (rev pks)); [reflexivity | discriminate].
      + intros [_ Hs]. exists s. split; [reflexivity|]. unfold false_result. rewrite Ds, Hs. reflexivity.
    - destruct (ms_run_short f 0%N 0 (er0 cx) [] (rev args) (rev sd) (gas - stack_cost sd - stack_cost args) ltac:(lia) Hl) as [e [s E]].
      rewrite E. split; [intros [s' [Hx _]]; discriminate | intros [Hx _]; lia].
  Qed.
End Multisig.
