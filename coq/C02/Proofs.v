(* C02 — final statements (wrappers over the Proofs* files) and non-vacuity examples. *)
From Coq Require Import List ZArith NArith Bool Lia.
From Verif Require Import Cmp Sha3 VM VMRun.
From C02 Require Import Model ProofsVM ProofsOps ProofsStep ProofsVerify ProofsScan ProofsP2PKH ProofsMultisig ProofsP2SH ProofsCommit.
Import ListNotations.
Open Scope Z_scope.

(* ---------- the converted segwit programs ---------- *)

Lemma p2wpkh_iff cr cx other h sh :
  length h = 20%nat -> cx_vmversion cx = 1%N -> cx_code cx = convert_program other (p2w_program h) ->
  cx_txsighash cx = Some sh -> length sh = 32%nat -> (forall x, length (h_ripemd160 cr x) = 20%nat) ->
  forall f sd args gas, p2pkh_gas_bound sd args <= gas ->
    (accepts cr cx (8 + f) sd args gas <->
     exists extra sg pk, args = extra ++ [sg; pk] /\ h_ripemd160 cr pk = h /\ length pk = 32%nat /\
                         sig_verify cr pk sh sg = true).
Proof.
  intros Hh Hvm Hcode Hsh Hshl Hrip f sd args gas Hg. rewrite convert_p2wpkh in Hcode by exact Hh.
  exact (p2pkh_iff cr cx h sh Hh Hsh Hshl Hrip Hvm Hcode f sd args gas Hg).
Qed.

Lemma p2wsh_iff cr cx other h :
  length h = 32%nat -> cx_vmversion cx = 1%N -> cx_code cx = convert_program other (p2w_program h) ->
  (forall x, length (h_sha3 cr x) = 32%nat) ->
  forall f sd args gas, p2sh_gas_bound sd args <= gas ->
    (accepts cr cx (9 + f) sd args gas <->
     exists rest script, args = rest ++ [script] /\ h_sha3 cr script = h /\
       child_accepts cr cx (S f) script (p2sh_child_limit (gas - stack_cost sd - stack_cost args) script) (rev rest) = true).
Proof.
  intros Hh Hvm Hcode Hsha f sd args gas Hg. rewrite convert_p2wsh in Hcode by exact Hh.
  exact (p2sh_iff cr cx h Hh Hsha Hvm Hcode f sd args gas Hg).
Qed.

(* when the child run leaves a non-negative run limit (C07) the refund condition inside
   child_accepts is automatically true *)
Lemma child_accepts_simple cr cx fuel script limit stack cs :
  run cr cx fuel (child_state script limit stack) = ROk tt cs -> 0 <= runlimit cs ->
  child_accepts cr cx fuel script limit stack = negb (false_result cs).
Proof.
  intros E Hr. unfold child_accepts. rewrite E.
  pose proof (stack_cost_nonneg (dstack cs)). pose proof (stack_cost_nonneg (astack cs)). pose proof (item_cost_pos script).
  replace (0 <=? _) with true; [apply andb_true_r|].
  symmetry. apply Z.leb_le. unfold item_cost in *. cbn [length] in *. lia.
Qed.

(* the m-of-n program builder agrees with checkMultiSigParams *)
Lemma multisig_program_some pks m : (m <= length pks)%nat -> (length pks > 0 -> m > 0)%nat ->
  multisig_program pks (N.of_nat m) = Some (multisig_body pks (N.of_nat m)).
Proof.
  intros H1 H2. unfold multisig_program, check_multisig_params.
  replace (N.of_nat (length pks) <? N.of_nat m)%N with false by lia.
  destruct (N.of_nat m =? 0)%N eqn:E; [|reflexivity].
  replace (0 <? N.of_nat (length pks))%N with false by lia. reflexivity.
Qed.

(* ---------- gas bounds at the consensus maximum (validation caps the gas of a
   transaction at MaxGasAmount = 300000) ---------- *)

Definition sig64 : item := repeat 0%N 64.
Definition key32 : item := repeat 0%N 32.

Example p2wpkh_bound_value : p2pkh_gas_bound [] [sig64; key32] = 1836.
Proof. reflexivity. Qed.
Example p2wsh_bound_2of3 :
  p2wsh_ms_gas_bound [key32; key32; key32] [] [sig64; sig64; multisig_body [key32; key32; key32] 2] = 4760.
Proof. vm_compute. reflexivity. Qed.
Example p2wsh_bound_6of6 :
  let pks := repeat key32 6 in
  p2wsh_ms_gas_bound pks [] (repeat sig64 6 ++ [multisig_body pks 6]) = 9116 /\ 9116 <= 300000.
Proof. vm_compute. split; [reflexivity | discriminate]. Qed.

(* ---------- non-vacuity ---------- *)

(* a table-backed crypto in which exactly one signature exists: the hypotheses of the
   commitment theorems (unforgeability log, "the owner signed only this sighash") hold *)
Definition pk_ex : item := repeat 7%N 32.
Definition sh_ex : item := repeat 9%N 32.
Definition sg_ex : item := repeat 5%N 64.
Definition cr_ex : crypto :=
  {| h_sha256 := fun _ => repeat 0%N 32; h_sha3 := sha3_256; h_ripemd160 := fun x => firstn 20 (sha3_256 x);
     sig_verify := sig_lookup [(pk_ex, sh_ex, sg_ex)] |}.
Definition signed_ex (pk msg sg : item) : Prop := sig_verify cr_ex pk msg sg = true.

Example unforgeable_ex : forall pk msg sg, sig_verify cr_ex pk msg sg = true -> signed_ex pk msg sg.
Proof. intros. assumption. Qed.
Example owner_signed_only_ex : forall msg sg, signed_ex pk_ex msg sg -> msg = sh_ex /\ sg = sg_ex.
Proof.
  unfold signed_ex. cbn [cr_ex sig_verify sig_lookup]. intros msg sg H. rewrite orb_false_r in H.
  apply andb_prop in H. destruct H as [H H3]. apply andb_prop in H. destruct H as [_ H2].
  apply bytes_eqb_eq in H2. apply bytes_eqb_eq in H3. split; congruence.
Qed.

(* the P2WPKH program locked to pk_ex accepts [sg_ex; pk_ex] at gas 2000 and rejects a flipped signature *)
Definition cx_ex (code sh : item) : context :=
  mk_context code (repeat 1%N 32) (Some 1%N) (Some 10%N) (Some (repeat 2%N 32)) (Some 5%N) (Some 0%N)
             (Some (repeat 3%N 32)) (Some sh) false.
Definition code_ex : item := convert_program (fun p => p) (p2w_program (h_ripemd160 cr_ex pk_ex)).

Example p2wpkh_accepts_ex : snd (verify cr_ex (cx_ex code_ex sh_ex) 50 [] [sg_ex; pk_ex] 2000) = None.
Proof. vm_compute. reflexivity. Qed.
Example p2wpkh_rejects_flipped_sig :
  snd (verify cr_ex (cx_ex code_ex sh_ex) 50 [] [6%N :: tl sg_ex; pk_ex] 2000) = Some EFalseVMResult.
Proof. vm_compute. reflexivity. Qed.
Example p2wpkh_rejects_other_sighash :
  snd (verify cr_ex (cx_ex code_ex (repeat 8%N 32)) 50 [] [sg_ex; pk_ex] 2000) = Some EFalseVMResult.
Proof. vm_compute. reflexivity. Qed.

(* 1-of-2 P2WSH: the second key signs *)
Definition pk2_ex : item := repeat 4%N 32.
Definition script_ex : item := multisig_body [pk2_ex; pk_ex] 1.
Definition code_sh_ex : item := convert_program (fun p => p) (p2w_program (sha3_256 script_ex)).
Example p2wsh_accepts_ex : snd (verify cr_ex (cx_ex code_sh_ex sh_ex) 60 [] [sg_ex; script_ex] 5000) = None.
Proof. vm_compute. reflexivity. Qed.
Example p2wsh_rejects_other_script :
  snd (verify cr_ex (cx_ex code_sh_ex sh_ex) 60 [] [sg_ex; multisig_body [pk_ex; pk2_ex] 1] 5000) = Some EVerifyFailed.
Proof. vm_compute. reflexivity. Qed.
