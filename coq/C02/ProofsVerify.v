(* C02 — vm.Verify in terms of [run] on the initial machine state. *)
From Coq Require Import List ZArith NArith Bool Lia ZifyBool ZifyN ZifyNat.
From Verif Require Import Cmp VM.
From C02 Require Import Model ProofsVM ProofsOps.
Import ListNotations.
Open Scope Z_scope.

(* acceptance by vm.Verify: the returned error is nil *)
Definition accepts (cr : crypto) (cx : context) (fuel : nat) (statedata args : list item) (gas : Z) : Prop :=
  snd (verify cr cx fuel statedata args gas) = None.

Section Verify.
  Variable cr : crypto.
  Variable cx : context.

  Lemma push_all_push : forall args P pcv npc rl df er vd ds al, stack_cost args <= rl ->
    push_all push args (st P pcv npc rl df er vd ds al) =
    ROk tt (st P pcv npc (rl - stack_cost args) df er vd (rev args ++ ds) al).
  Proof.
    induction args as [|x args IH]; intros.
    - cbn [push_all rev app]. unfold ret. change (stack_cost []) with 0. rewrite Z.sub_0_r. reflexivity.
    - rewrite stack_cost_cons in H. pose proof (stack_cost_nonneg args). pose proof (item_cost_pos x).
      cbn [push_all]. unfold bind at 1. unfold push at 1. vmred. gasok. vmred.
      rewrite IH by lia. cbn [rev]. rewrite <- app_assoc. cbn [app]. rewrite stack_cost_cons.
      f_equal. f_equal. lia.
  Qed.
  Lemma push_all_push_alt : forall args P pcv npc rl df er vd ds al, stack_cost args <= rl ->
    push_all push_alt args (st P pcv npc rl df er vd ds al) =
    ROk tt (st P pcv npc (rl - stack_cost args) df er vd ds (rev args ++ al)).
  Proof.
    induction args as [|x args IH]; intros.
    - cbn [push_all rev app]. unfold ret. change (stack_cost []) with 0. rewrite Z.sub_0_r. reflexivity.
    - rewrite stack_cost_cons in H. pose proof (stack_cost_nonneg args). pose proof (item_cost_pos x).
      cbn [push_all]. unfold bind at 1. unfold push_alt at 1. vmred. gasok. vmred.
      rewrite IH by lia. cbn [rev]. rewrite <- app_assoc. cbn [app]. rewrite stack_cost_cons.
      f_equal. f_equal. lia.
  Qed.

  Definition er0 : bool := match cx_txversion cx with Some 1%N => true | _ => false end.
  Definition init_state (sd args : list item) (gas : Z) : vmst :=
    st (cx_code cx) 0%N 0%N (gas - stack_cost sd - stack_cost args) 0 er0 [] (rev args) (rev sd).

  Lemma accepts_iff fuel sd args gas :
    cx_vmversion cx = 1%N -> stack_cost sd + stack_cost args <= gas ->
    (accepts cr cx fuel sd args gas <->
     exists s, run cr cx fuel (init_state sd args gas) = ROk tt s /\ false_result s = false).
  Proof.
    intros Hv Hg. unfold accepts, verify. rewrite Hv. cbn [N.eqb Pos.eqb negb].
    pose proof (stack_cost_nonneg sd). pose proof (stack_cost_nonneg args).
    unfold bind. rewrite push_all_push_alt by lia. rewrite push_all_push by lia.
    rewrite !app_nil_r. fold er0. fold (init_state sd args gas).
    destruct (run cr cx fuel (init_state sd args gas)) as [[] s|e s].
    - cbn [snd]. destruct (false_result s) eqn:F.
      + split; [discriminate|]. intros [s' [E F']]. inversion E; subst. congruence.
      + split; [|reflexivity]. intros _. exists s. split; [reflexivity | assumption].
    - split.
      + destruct e; cbn [snd]; discriminate.
      + intros [s' [E _]]. discriminate.
  Qed.
End Verify.
