(* C31 — proofs about the GENERATED model of math/checked/checked.go.
   The functions proved about here are VerifGen.Checked.*, regenerated from
   /repo's working tree by tools/go2coq before every build. *)
From Coq Require Import ZArith Bool Lia List String ZifyBool.
From Verif Require Import GoInt.
From VerifGen Require Import Checked.
Open Scope Z_scope.

Ltac Zify.zify_post_hook ::= Z.to_euclidean_division_equations.

(* The specification: exact result and success when it fits, (0,false) otherwise.
   [valid] is the operation's own domain condition (non-zero divisor, shift
   count inside the word). *)
Definition spec (t : ity) (valid : bool) (exact : Z) : cres :=
  if valid && in_range t exact then Some (exact, true) else Some (0, false).

Definition spec_add t a b := spec t true (a + b).
Definition spec_sub t a b := spec t true (a - b).
Definition spec_mul t a b := spec t true (a * b).
Definition spec_div t a b := spec t (negb (b =? 0)) (Z.quot a b).
(* a % b: Go defines the remainder to fail together with the quotient
   (MinInt % -1 is reported as overflow by the code; the quotient does not fit) *)
Definition spec_mod t a b :=
  if negb (b =? 0) && in_range t (Z.quot a b) then Some (Z.rem a b, true) else Some (0, false).
Definition spec_neg t a := spec t true (- a).
Definition spec_shl t a b := spec t ((0 <=? b) && (b <? width t)) (a * 2 ^ b).

Ltac unfold_ops :=
  cbv [ocmp oret obind1 obind2 gadd gsub gmul gneg gdiv gmod gshl gshr gtouint
       spec spec_add spec_sub spec_mul spec_div spec_mod spec_neg spec_shl
       in_range tmin tmax wrap width].

(* in_range hypotheses as linear facts *)
Ltac range_hyps :=
  repeat match goal with
  | H : in_range _ _ = true |- _ =>
      cbv [in_range tmin tmax] in H; apply andb_prop in H;
      let H1 := fresh "Hlo" in let H2 := fresh "Hhi" in
      destruct H as [H1 H2]; apply Z.leb_le in H1; apply Z.leb_le in H2
  end.

(* decide one [if] of the goal at a time, both in the code and in the spec *)
Ltac split_ifs :=
  repeat match goal with
  | |- context [if ?c then _ else _] =>
      let E := fresh "E" in destruct c eqn:E
  end.

Ltac finish := first [ reflexivity | discriminate | (exfalso; lia) | (exfalso; nia)
                      | (f_equal; f_equal; lia) | (f_equal; f_equal; nia) ].

Ltac solve_lin := intros; range_hyps; unfold_ops; split_ifs; finish.

Section Linear.
  (* add, sub, neg, div-guards: linear arithmetic after removing mod by constants *)
  Lemma AddInt64_exact a b : in_range I64 a = true -> in_range I64 b = true ->
    AddInt64 a b = spec_add I64 a b.
  Proof. unfold AddInt64. solve_lin. Qed.
  Lemma SubInt64_exact a b : in_range I64 a = true -> in_range I64 b = true ->
    SubInt64 a b = spec_sub I64 a b.
  Proof. unfold SubInt64. solve_lin. Qed.
  Lemma NegateInt64_exact a : in_range I64 a = true -> NegateInt64 a = spec_neg I64 a.
  Proof. unfold NegateInt64. solve_lin. Qed.
  Lemma AddInt32_exact a b : in_range I32 a = true -> in_range I32 b = true ->
    AddInt32 a b = spec_add I32 a b.
  Proof. unfold AddInt32. solve_lin. Qed.
  Lemma SubInt32_exact a b : in_range I32 a = true -> in_range I32 b = true ->
    SubInt32 a b = spec_sub I32 a b.
  Proof. unfold SubInt32. solve_lin. Qed.
  Lemma NegateInt32_exact a : in_range I32 a = true -> NegateInt32 a = spec_neg I32 a.
  Proof. unfold NegateInt32. solve_lin. Qed.
  Lemma AddUint64_exact a b : in_range U64 a = true -> in_range U64 b = true ->
    AddUint64 a b = spec_add U64 a b.
  Proof. unfold AddUint64. solve_lin. Qed.
  Lemma SubUint64_exact a b : in_range U64 a = true -> in_range U64 b = true ->
    SubUint64 a b = spec_sub U64 a b.
  Proof. unfold SubUint64. solve_lin. Qed.
  Lemma AddUint32_exact a b : in_range U32 a = true -> in_range U32 b = true ->
    AddUint32 a b = spec_add U32 a b.
  Proof. unfold AddUint32. solve_lin. Qed.
  Lemma SubUint32_exact a b : in_range U32 a = true -> in_range U32 b = true ->
    SubUint32 a b = spec_sub U32 a b.
  Proof. unfold SubUint32. solve_lin. Qed.
End Linear.

Section DivMod.
  Lemma DivInt64_exact a b : in_range I64 a = true -> in_range I64 b = true ->
    DivInt64 a b = spec_div I64 a b.
  Proof. unfold DivInt64. solve_lin. Qed.
  Lemma ModInt64_exact a b : in_range I64 a = true -> in_range I64 b = true ->
    ModInt64 a b = spec_mod I64 a b.
  Proof. unfold ModInt64. solve_lin. Qed.
  Lemma DivInt32_exact a b : in_range I32 a = true -> in_range I32 b = true ->
    DivInt32 a b = spec_div I32 a b.
  Proof. unfold DivInt32. solve_lin. Qed.
  Lemma ModInt32_exact a b : in_range I32 a = true -> in_range I32 b = true ->
    ModInt32 a b = spec_mod I32 a b.
  Proof. unfold ModInt32. solve_lin. Qed.
  Lemma DivUint64_exact a b : in_range U64 a = true -> in_range U64 b = true ->
    DivUint64 a b = spec_div U64 a b.
  Proof. unfold DivUint64. solve_lin. Qed.
  Lemma ModUint64_exact a b : in_range U64 a = true -> in_range U64 b = true ->
    ModUint64 a b = spec_mod U64 a b.
  Proof. unfold ModUint64. solve_lin. Qed.
  Lemma DivUint32_exact a b : in_range U32 a = true -> in_range U32 b = true ->
    DivUint32 a b = spec_div U32 a b.
  Proof. unfold DivUint32. solve_lin. Qed.
  Lemma ModUint32_exact a b : in_range U32 a = true -> in_range U32 b = true ->
    ModUint32 a b = spec_mod U32 a b.
  Proof. unfold ModUint32. solve_lin. Qed.
End DivMod.

(* ---- multiplication: guards use truncated division ---- *)

Lemma quot_bound M x : x <> 0 ->
  (0 <= M -> 0 < x -> 0 <= Z.quot M x <= M) /\
  (0 <= M -> x < 0 -> - M <= Z.quot M x <= 0) /\
  (M <= 0 -> 0 < x -> M <= Z.quot M x <= 0) /\
  (M <= 0 -> x < 0 -> 0 <= Z.quot M x <= - M).
Proof. intros Hx. Z.quot_rem_to_equations. repeat split; intros; nia. Qed.

Lemma quot_facts M x v :
  (0 < x -> 0 <= M -> (v > Z.quot M x <-> M < v * x)) /\
  (0 < x -> M <= 0 -> (v < Z.quot M x <-> v * x < M)) /\
  (x < 0 -> 0 <= M -> (v < Z.quot M x <-> M < v * x)) /\
  (x < 0 -> M <= 0 -> (v > Z.quot M x <-> v * x < M)).
Proof. Z.quot_rem_to_equations. repeat split; intros; nia. Qed.

Ltac decide_one c :=
  let H := fresh "Hc" in
  first [ assert (H : c = true) by lia | assert (H : c = false) by lia ];
  rewrite H; clear H.
Ltac decide_sign_cmp :=
  repeat match goal with
  | |- context [?x >? 0] => decide_one (x >? 0)
  | |- context [?x <? 0] => decide_one (x <? 0)
  | |- context [?x <=? 0] => decide_one (x <=? 0)
  | |- context [?x >=? 0] => decide_one (x >=? 0)
  | |- context [?x =? 0] => decide_one (x =? 0)
  end; cbv beta iota.

Ltac abstract_quots a b :=
  repeat match goal with
  | |- context [Z.quot ?M ?x] =>
      let q := fresh "q" in
      pose proof (quot_facts M x a); pose proof (quot_facts M x b);
      pose proof (quot_bound M x);
      set (q := Z.quot M x) in *; clearbody q
  end.

Ltac sign_split x :=
  destruct (Z.lt_trichotomy x 0) as [?|[?|?]].

Ltac solve_mul a b :=
  intros; range_hyps; unfold_ops; sign_split a; sign_split b;
  decide_sign_cmp; abstract_quots a b; split_ifs; finish.

  Lemma MulUint64_exact a b : in_range U64 a = true -> in_range U64 b = true ->
    MulUint64 a b = spec_mul U64 a b.
  Proof. unfold MulUint64. solve_mul a b. Qed.
  Lemma MulInt64_exact a b : in_range I64 a = true -> in_range I64 b = true ->
    MulInt64 a b = spec_mul I64 a b.
  Proof. unfold MulInt64. solve_mul a b. Qed.

  Lemma MulUint32_exact a b : in_range U32 a = true -> in_range U32 b = true ->
    MulUint32 a b = spec_mul U32 a b.
  Proof. unfold MulUint32. solve_mul a b. Qed.
  Lemma MulInt32_exact a b : in_range I32 a = true -> in_range I32 b = true ->
    MulInt32 a b = spec_mul I32 a b.
  Proof. unfold MulInt32. solve_mul a b. Qed.

(* ---- shifts ---- *)

Lemma div_facts M p v : 0 < p ->
  (v > M / p <-> M < v * p) /\ (v < M / p <-> v * p + p <= M).
Proof. intros Hp. Z.div_mod_to_equations. split; split; intros; nia. Qed.

Lemma pow2_split w n : 0 <= n < w -> 0 < 2 ^ n /\ 0 < 2 ^ (w - 1 - n) /\ 2 ^ (w - 1) = 2 ^ (w - 1 - n) * 2 ^ n.
Proof.
  intros H. repeat split; try (apply Z.pow_pos_nonneg; lia).
  rewrite <- Z.pow_add_r by lia. f_equal. lia.
Qed.

Ltac decide_cmp :=
  repeat match goal with
  | |- context [?x >? ?y] => decide_one (x >? y)
  | |- context [?x <? ?y] => decide_one (x <? y)
  | |- context [?x <=? ?y] => decide_one (x <=? y)
  | |- context [?x >=? ?y] => decide_one (x >=? y)
  | |- context [?x =? ?y] => decide_one (x =? y)
  end; cbv beta iota.

(* w = width; the goal has been unfolded; b is the shift count *)
Ltac solve_shl w a b :=
  intros; range_hyps; unfold_ops;
  destruct (Z_lt_le_dec b 0); [ first [exfalso; lia | decide_cmp; cbn [andb orb]; reflexivity] |];
  destruct (Z_lt_le_dec b w) as [?|?]; [| decide_cmp; cbn [andb orb]; reflexivity ];
  rewrite ?(Z.mod_small b (2 ^ 64)) by lia;
  let Hp := fresh "Hp" in
  pose proof (pow2_split w b ltac:(lia)) as Hp; 
  let p := fresh "p" in let k := fresh "k" in
  set (p := 2 ^ b) in *; set (k := 2 ^ (w - 1 - b)) in *; 
  change (2 ^ (w - 1)) with (2 ^ (w-1)) in Hp;
  destruct Hp as (Hp1 & Hp2 & Hp3); clearbody p k;
  repeat match goal with
  | |- context [?M / p] =>
      let q := fresh "q" in
      pose proof (div_facts M p a Hp1); set (q := M / p) in *; clearbody q
  end;
  let Hk := fresh "Hk" in
  assert (Hk : a * p + p <= - (k * p) <-> a * p < - (k * p)) by nia;
  rewrite <- Hp3 in Hk; cbn in Hk; clear Hp3;
  decide_cmp; destruct (Z_lt_le_dec a 0); decide_cmp; split_ifs; finish.

  Lemma LshiftInt64_exact a b : in_range I64 a = true -> in_range I64 b = true ->
    LshiftInt64 a b = spec_shl I64 a b.
  Proof. unfold LshiftInt64. solve_shl 64 a b. Qed.

  Lemma LshiftInt32_exact a b : in_range I32 a = true -> in_range I32 b = true ->
    LshiftInt32 a b = spec_shl I32 a b.
  Proof. unfold LshiftInt32. solve_shl 32 a b. Qed.
  Lemma LshiftUint64_exact a b : in_range U64 a = true -> in_range U64 b = true ->
    LshiftUint64 a b = spec_shl U64 a b.
  Proof. unfold LshiftUint64. solve_shl 64 a b. Qed.
  Lemma LshiftUint32_exact a b : in_range U32 a = true -> in_range U32 b = true ->
    LshiftUint32 a b = spec_shl U32 a b.
  Proof. unfold LshiftUint32. solve_shl 32 a b. Qed.

(* ---- the translated file contains exactly the functions proved about ---- *)
Open Scope string_scope.
Definition expected_functions : list string :=
  "AddInt32:I32/2" :: "AddInt64:I64/2" :: "AddUint32:U32/2" :: "AddUint64:U64/2" ::
  "DivInt32:I32/2" :: "DivInt64:I64/2" :: "DivUint32:U32/2" :: "DivUint64:U64/2" ::
  "LshiftInt32:I32/2" :: "LshiftInt64:I64/2" :: "LshiftUint32:U32/2" :: "LshiftUint64:U64/2" ::
  "ModInt32:I32/2" :: "ModInt64:I64/2" :: "ModUint32:U32/2" :: "ModUint64:U64/2" ::
  "MulInt32:I32/2" :: "MulInt64:I64/2" :: "MulUint32:U32/2" :: "MulUint64:U64/2" ::
  "NegateInt32:I32/1" :: "NegateInt64:I64/1" ::
  "SubInt32:I32/2" :: "SubInt64:I64/2" :: "SubUint32:U32/2" :: "SubUint64:U64/2" :: nil.
Lemma function_set : checked_functions = expected_functions.
Proof. reflexivity. Qed.
Close Scope string_scope.

(* spec never panics and never returns a wrapped value: the value is the exact
   result or the pair (0,false) *)
Lemma spec_sound t v e : exists r ok, spec t v e = Some (r, ok) /\
  (ok = true -> r = e /\ in_range t e = true) /\ (ok = false -> r = 0 /\ (v = false \/ in_range t e = false)).
Proof.
  unfold spec. destruct v; cbn [andb].
  - destruct (in_range t e) eqn:E; eexists; eexists; split; try reflexivity; split; intros; try discriminate; auto.
  - eexists; eexists; split; try reflexivity; split; intros; try discriminate; auto.
Qed.
