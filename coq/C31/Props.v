(* C31 — Checked arithmetic is exact.  PROPERTY THEOREMS ONLY.
   Each theorem is about the function of the same name in VerifGen.Checked,
   the Gallina translation of /repo/math/checked/checked.go that tools/go2coq
   regenerates before every build.  [spec] (C31/Proofs.v) is "the exact result
   and success when it fits the type, (0,false) otherwise"; a result of [None]
   would be a run-time panic (division by zero), so equality with [spec] also
   states that none is reachable. *)
From Coq Require Import ZArith List String.
From Verif Require Import GoInt.
From VerifGen Require Import Checked.
From C31 Require Import Proofs.
Open Scope Z_scope.

Theorem c31_AddInt64 : forall a b, in_range I64 a = true -> in_range I64 b = true ->
  AddInt64 a b = spec_add I64 a b.
Proof. exact AddInt64_exact. Qed.
Print Assumptions c31_AddInt64.

Theorem c31_SubInt64 : forall a b, in_range I64 a = true -> in_range I64 b = true ->
  SubInt64 a b = spec_sub I64 a b.
Proof. exact SubInt64_exact. Qed.
Print Assumptions c31_SubInt64.

Theorem c31_MulInt64 : forall a b, in_range I64 a = true -> in_range I64 b = true ->
  MulInt64 a b = spec_mul I64 a b.
Proof. exact MulInt64_exact. Qed.
Print Assumptions c31_MulInt64.

Theorem c31_DivInt64 : forall a b, in_range I64 a = true -> in_range I64 b = true ->
  DivInt64 a b = spec_div I64 a b.
Proof. exact DivInt64_exact. Qed.
Print Assumptions c31_DivInt64.

Theorem c31_ModInt64 : forall a b, in_range I64 a = true -> in_range I64 b = true ->
  ModInt64 a b = spec_mod I64 a b.
Proof. exact ModInt64_exact. Qed.
Print Assumptions c31_ModInt64.

Theorem c31_LshiftInt64 : forall a b, in_range I64 a = true -> in_range I64 b = true ->
  LshiftInt64 a b = spec_shl I64 a b.
Proof. exact LshiftInt64_exact. Qed.
Print Assumptions c31_LshiftInt64.

Theorem c31_NegateInt64 : forall a, in_range I64 a = true -> NegateInt64 a = spec_neg I64 a.
Proof. exact NegateInt64_exact. Qed.
Print Assumptions c31_NegateInt64.

Theorem c31_AddInt32 : forall a b, in_range I32 a = true -> in_range I32 b = true ->
  AddInt32 a b = spec_add I32 a b.
Proof. exact AddInt32_exact. Qed.
Print Assumptions c31_AddInt32.

Theorem c31_SubInt32 : forall a b, in_range I32 a = true -> in_range I32 b = true ->
  SubInt32 a b = spec_sub I32 a b.
Proof. exact SubInt32_exact. Qed.
Print Assumptions c31_SubInt32.

Theorem c31_MulInt32 : forall a b, in_range I32 a = true -> in_range I32 b = true ->
  MulInt32 a b = spec_mul I32 a b.
Proof. exact MulInt32_exact. Qed.
Print Assumptions c31_MulInt32.

Theorem c31_DivInt32 : forall a b, in_range I32 a = true -> in_range I32 b = true ->
  DivInt32 a b = spec_div I32 a b.
Proof. exact DivInt32_exact. Qed.
Print Assumptions c31_DivInt32.

Theorem c31_ModInt32 : forall a b, in_range I32 a = true -> in_range I32 b = true ->
  ModInt32 a b = spec_mod I32 a b.
Proof. exact ModInt32_exact. Qed.
Print Assumptions c31_ModInt32.

Theorem c31_LshiftInt32 : forall a b, in_range I32 a = true -> in_range I32 b = true ->
  LshiftInt32 a b = spec_shl I32 a b.
Proof. exact LshiftInt32_exact. Qed.
Print Assumptions c31_LshiftInt32.

Theorem c31_NegateInt32 : forall a, in_range I32 a = true -> NegateInt32 a = spec_neg I32 a.
Proof. exact NegateInt32_exact. Qed.
Print Assumptions c31_NegateInt32.

Theorem c31_AddUint64 : forall a b, in_range U64 a = true -> in_range U64 b = true ->
  AddUint64 a b = spec_add U64 a b.
Proof. exact AddUint64_exact. Qed.
Print Assumptions c31_AddUint64.

Theorem c31_SubUint64 : forall a b, in_range U64 a = true -> in_range U64 b = true ->
  SubUint64 a b = spec_sub U64 a b.
Proof. exact SubUint64_exact. Qed.
Print Assumptions c31_SubUint64.

Theorem c31_MulUint64 : forall a b, in_range U64 a = true -> in_range U64 b = true ->
  MulUint64 a b = spec_mul U64 a b.
Proof. exact MulUint64_exact. Qed.
Print Assumptions c31_MulUint64.

Theorem c31_DivUint64 : forall a b, in_range U64 a = true -> in_range U64 b = true ->
  DivUint64 a b = spec_div U64 a b.
Proof. exact DivUint64_exact. Qed.
Print Assumptions c31_DivUint64.

Theorem c31_ModUint64 : forall a b, in_range U64 a = true -> in_range U64 b = true ->
  ModUint64 a b = spec_mod U64 a b.
Proof. exact ModUint64_exact. Qed.
Print Assumptions c31_ModUint64.

Theorem c31_LshiftUint64 : forall a b, in_range U64 a = true -> in_range U64 b = true ->
  LshiftUint64 a b = spec_shl U64 a b.
Proof. exact LshiftUint64_exact. Qed.
Print Assumptions c31_LshiftUint64.

Theorem c31_AddUint32 : forall a b, in_range U32 a = true -> in_range U32 b = true ->
  AddUint32 a b = spec_add U32 a b.
Proof. exact AddUint32_exact. Qed.
Print Assumptions c31_AddUint32.

Theorem c31_SubUint32 : forall a b, in_range U32 a = true -> in_range U32 b = true ->
  SubUint32 a b = spec_sub U32 a b.
Proof. exact SubUint32_exact. Qed.
Print Assumptions c31_SubUint32.

Theorem c31_MulUint32 : forall a b, in_range U32 a = true -> in_range U32 b = true ->
  MulUint32 a b = spec_mul U32 a b.
Proof. exact MulUint32_exact. Qed.
Print Assumptions c31_MulUint32.

Theorem c31_DivUint32 : forall a b, in_range U32 a = true -> in_range U32 b = true ->
  DivUint32 a b = spec_div U32 a b.
Proof. exact DivUint32_exact. Qed.
Print Assumptions c31_DivUint32.

Theorem c31_ModUint32 : forall a b, in_range U32 a = true -> in_range U32 b = true ->
  ModUint32 a b = spec_mod U32 a b.
Proof. exact ModUint32_exact. Qed.
Print Assumptions c31_ModUint32.

Theorem c31_LshiftUint32 : forall a b, in_range U32 a = true -> in_range U32 b = true ->
  LshiftUint32 a b = spec_shl U32 a b.
Proof. exact LshiftUint32_exact. Qed.
Print Assumptions c31_LshiftUint32.

(* the translated source contains exactly the 26 functions above *)
Theorem c31_function_set : checked_functions = expected_functions.
Proof. exact function_set. Qed.
Print Assumptions c31_function_set.

(* reading of [spec]: never a wrapped value *)
Theorem c31_spec_sound : forall t v e, exists r ok, spec t v e = Some (r, ok) /\
  (ok = true -> r = e /\ in_range t e = true) /\
  (ok = false -> r = 0 /\ (v = false \/ in_range t e = false)).
Proof. exact spec_sound. Qed.
Print Assumptions c31_spec_sound.
