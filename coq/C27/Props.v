(* C27 — built and signed wallet transactions are valid and pay as requested.
   PROPERTY THEOREMS ONLY.

   Model (C27/Model.v): the decoded actions (spend_account, spend_account_unspent_output,
   veto, control_address / control_program, retire, vote_output), account.MergeSpendAction,
   the Build method of every action, TemplateBuilder.AddInput / AddOutput / Build, the loop
   and the rollback of txbuilder.Build, Sign / materialize as witness shapes.  Funding is
   the keeper model of C26 itself (C26.Model.reserve / reserve_particular with the
   de-duplicating findUtxos), threaded through the actions; validation is the value-level
   model of C01 (C01.Model.validate) on the projection [tx_of] of the built transaction.
   [build w ordf st acts] is txbuilder.Build on an already merged list, [wallet_build] =
   MergeSpendAction then Build.  [w] is what the wallet's tables say (program of an output,
   owner of a program, account -> quorum and keys, length of a vote key); [ordf k] is the
   result of sort.Slice inside the Reserve call of action k: every theorem holds for EVERY
   [ordf] (a value that is not a sorting of the candidates gives BBadOrder, not BOk).

   Vocabulary (C27/Proofs.v, C27/Merge.v):
     in_amt a ins / out_amt a outs     exact totals of asset a over Z
     req_in st a act / req_out a act   what one action asks for: the amount of a spend / veto
                                       action, the value of the output a spend-output action
                                       names; the amount of a recipient action
     total f acts                      sum over the action list
     requested k acts                  the recipient outputs asked for (action index, output)
     recipients outs / changes outs    the outputs tagged as recipient of / change of action k
     reqs acts                         the requested recipient outputs without indices
     nowrap st                         C26's side condition: the funds of any one
                                       (account, asset, vote) request sum to less than 2^64.

   [partial] The account manager, key store and DB plumbing are exercised by the
   correspondence only.  c27_validates_partial takes the answer of the VM on a standard
   program with a complete witness as a hypothesis (that is C02's theorem plus the signature
   scheme); the statement without that hypothesis is [C27_validates_full]. *)
From Coq Require Import List ZArith NArith Bool.
From Verif Require Import Outcome GoInt.
From C26 Require Model Proofs.
From C01 Require Model Proofs.
From C27 Require Import Model Proofs Build Valid Merge Main Safe.
Import ListNotations.
Open Scope N_scope.

(* 1. PAYS AS REQUESTED.  For ANY action list, ANY wallet state and ANY sort order, when Build
   succeeds: (a) the recipient outputs of the transaction are exactly the requested ones
   (asset, amount, program, kind, vote), in request order; (b) every other output is the
   change of a spend / veto action k: an ordinary output of that action's asset, of positive
   amount, to the control program of one of the inputs added for it, an input of that
   action's account; (c) per asset, inputs - outputs = requested in - requested out, over Z
   (so a request that is balanced in every other asset yields a transaction that is, and the
   BTM difference is the requested one); (d) the inputs are pairwise distinct outputs of the
   wallet, mature, unreserved before and reserved after the call. *)
Theorem c27_balanced : forall w ordf st acts t st',
  build w ordf st acts = BOk t st' -> nowrap st ->
  recipients (tp_outs t) = requested 0 acts /\
  (forall k o, In (k, o) (changes (tp_outs t)) ->
     exists a acct asset amount vote,
       nth_error acts k = Some a /\ spendlike a = Some (acct, asset, amount, vote) /\
       to_kind o = V.KOrig /\ to_asset o = asset /\ 0 < to_amount o /\
       exists i, In i (tp_ins t) /\ ti_acct i = acct /\ to_prog o = ti_prog i) /\
  (forall a, (in_amt a (tp_ins t) - out_amt a (tp_outs t) =
              total (req_in st a) acts - total (req_out a) acts)%Z) /\
  NoDup (map ti_out (tp_ins t)) /\
  (forall i, In i (tp_ins t) ->
     exists u, wallet_utxo st u /\ i = input_of w u /\ K.uvh u <= K.height st /\
               K.rmem (K.uid u) (K.reserved st) = false /\ K.rmem (K.uid u) (K.reserved st') = true).
Proof. exact balanced. Qed.
Print Assumptions c27_balanced.

(* the change returns to the spending account: its program is one the account manager's
   table attributes to the account of the action ([programs_owned]: the table knows the
   program of each wallet output as belonging to that output's account) *)
Theorem c27_change_to_spender : forall w ordf st acts t st',
  build w ordf st acts = BOk t st' -> nowrap st -> programs_owned w st ->
  forall k o, In (k, o) (changes (tp_outs t)) ->
    exists a acct asset amount vote,
      nth_error acts k = Some a /\ spendlike a = Some (acct, asset, amount, vote) /\
      to_asset o = asset /\ w_owner w (to_prog o) = Some acct.
Proof. exact change_to_spender. Qed.
Print Assumptions c27_change_to_spender.

(* Template.Fee (TxData.Fee with its uint64 arithmetic) = BTM inputs - BTM outputs = the
   requested BTM difference, whenever that difference is not negative *)
Theorem c27_fee : forall w ordf st acts t st',
  build w ordf st acts = BOk t st' -> nowrap st ->
  (0 <= total (req_in st BTM) acts - total (req_out BTM) acts)%Z ->
  (in_amt BTM (tp_ins t) < 2^64)%Z ->
  tp_fee t = (in_amt BTM (tp_ins t) - out_amt BTM (tp_outs t))%Z /\
  tp_fee t = (total (req_in st BTM) acts - total (req_out BTM) acts)%Z.
Proof. exact fee_is_difference. Qed.
Print Assumptions c27_fee.

(* MergeSpendAction changes nothing of what is asked for (per-asset totals, recipient
   outputs and their order), provided the uint64 sum of the spend amounts does not wrap *)
Theorem c27_merge_keeps_request : forall st acts, spend_total acts < K.two64 ->
  (forall x, total (req_in st x) (merge acts) = total (req_in st x) acts) /\
  (forall x, total (req_out x) (merge acts) = total (req_out x) acts) /\
  reqs (merge acts) = reqs acts.
Proof. exact merge_spec. Qed.
Print Assumptions c27_merge_keeps_request.

(* ... so the wallet's whole path (merge, then build) pays as requested *)
Theorem c27_wallet_pays : forall w ordf st acts t st',
  wallet_build w ordf st acts = BOk t st' -> nowrap st -> spend_total acts < K.two64 ->
  map (@snd nat tout) (recipients (tp_outs t)) = reqs acts /\
  (forall a, (in_amt a (tp_ins t) - out_amt a (tp_outs t) =
              total (req_in st a) acts - total (req_out a) acts)%Z) /\
  NoDup (map ti_out (tp_ins t)).
Proof. exact wallet_pays. Qed.
Print Assumptions c27_wallet_pays.

(* Build never panics (for amounts that do not wrap): it returns a template or the error
   list.  Before the repair of vetoAction.Build (amount 0 is now a missing field, as in
   spendAction.Build) a veto action of amount 0 with a matching output available reached
   optUTXOs' dereference of the front of an empty list. *)
Theorem c27_no_panic : forall w ordf st acts, nowrap st -> build w ordf st acts <> BPanic.
Proof. exact build_no_panic. Qed.
Print Assumptions c27_no_panic.

(* 2. SIGNING.  If the signer holds every key of the input's account and Sign is called at
   least quorum times, the witness holds a full quorum of signatures (then the data item). *)
Theorem c27_witness_complete : forall w avail rounds i q keys,
  w_acct w (ti_acct i) = Some (q, keys) -> ti_acct i <> 0 ->
  (forall key, In key keys -> avail key = true) ->
  (q <= length keys)%nat -> (q <= rounds)%nat ->
  witness_complete w avail rounds i = true.
Proof. exact witness_complete_all. Qed.
Print Assumptions c27_witness_complete.

(* 3. PASSES VALIDATION.  C01's validation accepts a transaction (without coinbase inputs)
   under exactly these value-level conditions, for the real consensus constants: distinct
   inputs, amounts and per-asset input totals at most 2^63-1, every non-BTM asset balanced,
   BTM outputs <= inputs, legal vote outputs / veto inputs, and a fee that buys
   (size + the VM's gas) at the VM's answers [vm k gl = gl - c k]. *)
Theorem c27_value_conditions_suffice : forall vm perm c b t,
  VP.is_order perm ->
  V.t_version t = 1%Z -> (0 < V.t_size t <= V.MaxInt64)%Z ->
  (V.t_timerange t = 0 \/ V.b_height b <= V.t_timerange t)%Z ->
  NoDup (map V.i_id (V.t_inputs t)) ->
  Forall plain (V.t_inputs t) ->
  V.t_outputs t <> [] -> Forall legal_output (V.t_outputs t) ->
  Forall (fun i => 0 <= V.i_amount i <= V.MaxInt64)%Z (V.t_inputs t) ->
  Forall (fun o => 0 < V.o_amount o <= V.MaxInt64)%Z (V.t_outputs t) ->
  (forall a, VP.in_sum a t <= V.MaxInt64)%Z ->
  (forall a, a <> V.BTM -> VP.in_sum a t = VP.out_sum a t) ->
  (VP.out_sum V.BTM t <= VP.in_sum V.BTM t)%Z ->
  (forall k gl, (k < length (V.t_inputs t))%nat ->
                (0 <= c k)%Z /\ ((c k <= gl)%Z -> vm k gl = Some (gl - c k)%Z)) ->
  (V.t_size t + csum c 0 (V.t_inputs t) <= gas_limit (VP.in_sum V.BTM t - VP.out_sum V.BTM t))%Z ->
  exists g, V.validate VP.real_consts vm perm b t = Ok g.
Proof. exact validate_ok. Qed.
Print Assumptions c27_value_conditions_suffice.

(* The built transaction passes.  If Build succeeds for a request that has a recipient, is
   balanced in every non-BTM asset, asks only for legal vote outputs, and leaves a BTM
   difference that buys the storage and VM gas; the wallet's vote outputs carry 64-byte keys
   and no asset's input total exceeds 2^63-1 (true when the asset's supply does not); every
   signer key is available and Sign is called quorum times; then the value-level validation
   of C01 accepts the signed transaction, for every block of version 1 whose height the time
   range allows, every serialized size, every map iteration order.
   EXPLICIT HYPOTHESIS about the VM (C02 + signature scheme, not proved here): on an input
   whose witness is complete (a full quorum of the owning account's signatures, then the
   public key / script) the VM accepts the account's standard program using c k gas. *)
Theorem c27_validates_partial : forall w ordf st acts t st' vm perm c blk size tr avail rounds,
  build w ordf st acts = BOk t st' -> nowrap st ->
  VP.is_order perm -> (0 < size <= V.MaxInt64)%Z -> (tr = 0 \/ V.b_height blk <= tr)%Z ->
  requested 0 acts <> [] ->
  (forall a, a <> BTM -> total (req_in st a) acts = total (req_out a) acts) ->
  votes_legal w acts ->
  (forall u, wallet_utxo st u -> K.uvote u <> 0 -> w_vlen w (K.uvote u) = 64%Z) ->
  (forall a, (in_amt a (tp_ins t) <= V.MaxInt64)%Z) ->
  (forall i, In i (tp_ins t) -> exists q keys,
      w_acct w (ti_acct i) = Some (q, keys) /\ ti_acct i <> 0 /\
      (forall key, In key keys -> avail key = true) /\ (q <= length keys)%nat /\ (q <= rounds)%nat) ->
  (forall k i gl, nth_error (tp_ins t) k = Some i -> witness_complete w avail rounds i = true ->
      (0 <= c k)%Z /\ ((c k <= gl)%Z -> vm k gl = Some (gl - c k)%Z)) ->
  (size + csum c 0 (tp_ins t) <= gas_limit (total (req_in st BTM) acts - total (req_out BTM) acts))%Z ->
  exists g, V.validate VP.real_consts vm perm blk (tx_of w t size tr) = Ok g.
Proof. exact validates. Qed.
Print Assumptions c27_validates_partial.

(* The full statement: the same without the hypothesis on the VM, for the VM's actual
   semantics [vm_sem] (the function that runs the input's control program on its signed
   witness: C02 / C08's VM with the real signature check) and its gas use [cost]. *)
Definition C27_validates_full
  (vm_sem : world -> (N -> bool) -> nat -> template -> nat -> Z -> option Z)
  (cost : world -> template -> nat -> Z) : Prop :=
  forall w ordf st acts t st' perm blk size tr avail rounds,
  build w ordf st acts = BOk t st' -> nowrap st ->
  VP.is_order perm -> (0 < size <= V.MaxInt64)%Z -> (tr = 0 \/ V.b_height blk <= tr)%Z ->
  requested 0 acts <> [] ->
  (forall a, a <> BTM -> total (req_in st a) acts = total (req_out a) acts) ->
  votes_legal w acts ->
  (forall u, wallet_utxo st u -> K.uvote u <> 0 -> w_vlen w (K.uvote u) = 64%Z) ->
  (forall a, (in_amt a (tp_ins t) <= V.MaxInt64)%Z) ->
  (forall i, In i (tp_ins t) -> exists q keys,
      w_acct w (ti_acct i) = Some (q, keys) /\ ti_acct i <> 0 /\
      (forall key, In key keys -> avail key = true) /\ (q <= length keys)%nat /\ (q <= rounds)%nat) ->
  (size + csum (cost w t) 0 (tp_ins t)
   <= gas_limit (total (req_in st BTM) acts - total (req_out BTM) acts))%Z ->
  exists g, V.validate VP.real_consts (vm_sem w avail rounds t) perm blk (tx_of w t size tr) = Ok g.
