(* C27 — MergeSpendAction keeps what the request asks for: per asset the same totals,
   the same recipient outputs in the same order, as long as the uint64 addition of the
   merged spend amounts does not wrap. *)
From Coq Require Import List ZArith NArith Bool Lia.
From Coq Require Import ZifyBool ZifyN ZifyNat.
From Verif Require Import Outcome GoInt.
From C26 Require Model Proofs.
From C27 Require Import Model Proofs Build.
Import ListNotations.
Open Scope N_scope.

Definition spend_amount (a : action) : N := match a with ASpend _ _ am _ => am | _ => 0 end.
Fixpoint spend_total (acts : list action) : N :=
  match acts with [] => 0 | a :: r => spend_amount a + spend_total r end.

(* the requested recipient outputs, in order *)
Definition reqs (acts : list action) : list tout :=
  flat_map (fun a => match recipient_out a with Some o => [o] | None => [] end) acts.

Lemma requested_reqs : forall acts k, map snd (requested k acts) = reqs acts.
Proof.
  induction acts as [|a acts IH]; intros k; [reflexivity|].
  cbn [requested reqs flat_map]. rewrite map_app, IH. destruct (recipient_out a); reflexivity.
Qed.

Lemma spend_total_app l1 l2 : spend_total (l1 ++ l2) = spend_total l1 + spend_total l2.
Proof. induction l1 as [|a l1 IH]; cbn [app spend_total]; [reflexivity | rewrite IH; lia]. Qed.

Lemma total_cons {A} (f : A -> Z) x l : total f (x :: l) = (f x + total f l)%Z.
Proof. reflexivity. Qed.

Lemma merge_into_spec st acct asset amount uu : forall res r,
  merge_into acct asset amount uu res = Some r -> spend_total res + amount < K.two64 ->
  (forall x, total (req_in st x) r = (total (req_in st x) res + (if (asset =? x)%N then Z.of_N amount else 0))%Z) /\
  (forall x, total (req_out x) r = total (req_out x) res) /\
  reqs r = reqs res /\ spend_total r = spend_total res + amount.
Proof.
  induction res as [|a res IH]; intros r H Hlt; cbn [merge_into] in H; [discriminate|].
  assert (Hrec : forall r', merge_into acct asset amount uu res = Some r' -> r = a :: r' ->
     (forall x, total (req_in st x) r = (total (req_in st x) (a :: res) + (if (asset =? x)%N then Z.of_N amount else 0))%Z) /\
     (forall x, total (req_out x) r = total (req_out x) (a :: res)) /\
     reqs r = reqs (a :: res) /\ spend_total r = spend_total (a :: res) + amount).
  { intros r' Hr' ->. cbn [spend_total] in Hlt. destruct (IH r' Hr') as (I1 & I2 & I3 & I4); [lia|].
    repeat split.
    - intros x. rewrite !total_cons, I1. lia.
    - intros x. rewrite !total_cons, I2. reflexivity.
    - cbn [reqs flat_map]. fold (reqs r'). fold (reqs res). now rewrite I3.
    - cbn [spend_total]. rewrite I4. lia. }
  destruct a as [ac s am u | o u | ac s am v u | s am rr | s am p | s am rr v];
    try (destruct (merge_into acct asset amount uu res) as [r'|] eqn:Em; [|discriminate];
         inversion H; subst r; now apply (Hrec r')).
  destruct ((ac =? acct) && (s =? asset)) eqn:E.
  - inversion H; subst r. apply andb_prop in E. destruct E as [_ Es]. apply N.eqb_eq in Es. subst s.
    cbn [spend_total spend_amount] in Hlt.
    assert (Ha : K.add64 am amount = am + amount) by (apply KP.add64_small; lia).
    rewrite Ha. repeat split.
    + intros x. rewrite !total_cons. cbn [req_in]. destruct (asset =? x); lia.
    + cbn [spend_total spend_amount]. lia.
  - destruct (merge_into acct asset amount uu res) as [r'|] eqn:Em; [|discriminate].
    inversion H; subst r. now apply (Hrec r').
Qed.

Lemma merge_fold st : forall acts res,
  spend_total res + spend_total acts < K.two64 ->
  let m := fold_left merge_step acts res in
  (forall x, total (req_in st x) m = (total (req_in st x) res + total (req_in st x) acts)%Z) /\
  (forall x, total (req_out x) m = (total (req_out x) res + total (req_out x) acts)%Z) /\
  reqs m = reqs res ++ reqs acts /\ spend_total m = spend_total res + spend_total acts.
Proof.
  induction acts as [|a acts IH]; intros res Hlt; cbn [fold_left].
  - repeat split; intros; cbn [total fold_right reqs flat_map spend_total]; try lia. now rewrite app_nil_r.
  - cbn [spend_total] in Hlt.
    assert (Happ : merge_step res a = res ++ [a] ->
      (forall x, total (req_in st x) (merge_step res a) = (total (req_in st x) res + req_in st x a)%Z) /\
      (forall x, total (req_out x) (merge_step res a) = (total (req_out x) res + req_out x a)%Z) /\
      reqs (merge_step res a) = reqs res ++ reqs [a] /\
      spend_total (merge_step res a) = spend_total res + spend_amount a).
    { intros ->. repeat split.
      - intros x. rewrite total_app. cbn [total fold_right]. lia.
      - intros x. rewrite total_app. cbn [total fold_right]. lia.
      - unfold reqs. apply flat_map_app.
      - rewrite spend_total_app. cbn [spend_total]. lia. }
    assert (Hstep :
      (forall x, total (req_in st x) (merge_step res a) = (total (req_in st x) res + req_in st x a)%Z) /\
      (forall x, total (req_out x) (merge_step res a) = (total (req_out x) res + req_out x a)%Z) /\
      reqs (merge_step res a) = reqs res ++ reqs [a] /\
      spend_total (merge_step res a) = spend_total res + spend_amount a).
    { destruct a as [ac s am u | o u | ac s am v u | s am rr | s am p | s am rr v];
        try (apply Happ; reflexivity).
      destruct (merge_into ac s am u res) as [r|] eqn:Em.
      - assert (E : merge_step res (ASpend ac s am u) = r) by (cbn [merge_step]; now rewrite Em).
        rewrite E. cbn [spend_amount] in Hlt. destruct (merge_into_spec st ac s am u res r Em) as (M1 & M2 & M3 & M4); [lia|].
        repeat split; auto.
        + intros x. rewrite M2. cbn [req_out]. lia.
        + rewrite M3. cbn [reqs flat_map recipient_out]. now rewrite !app_nil_r.
      - apply Happ. cbn [merge_step]. now rewrite Em. }
    destruct Hstep as (S1 & S2 & S3 & S4).
    destruct (IH (merge_step res a)) as (I1 & I2 & I3 & I4); [lia|].
    repeat split.
    + intros x. rewrite I1, S1, total_cons. lia.
    + intros x. rewrite I2, S2, total_cons. lia.
    + rewrite I3, S3, <- app_assoc. cbn [reqs flat_map]. now rewrite app_nil_r.
    + rewrite I4, S4. cbn [spend_total]. lia.
Qed.

Lemma merge_spec st acts : spend_total acts < K.two64 ->
  (forall x, total (req_in st x) (merge acts) = total (req_in st x) acts) /\
  (forall x, total (req_out x) (merge acts) = total (req_out x) acts) /\
  reqs (merge acts) = reqs acts.
Proof.
  intros H. destruct (merge_fold st acts []) as (M1 & M2 & M3 & _); [cbn [spend_total]; lia|].
  unfold merge. repeat split; intros; [rewrite M1 | rewrite M2 | rewrite M3]; cbn [total fold_right reqs flat_map app]; lia || reflexivity.
Qed.
