(* C27 — what a successful Build returns: composition of the per-action facts of
   C27/Proofs.v along txbuilder.Build's loop. *)
From Coq Require Import List ZArith NArith Bool Lia Permutation.
From Coq Require Import ZifyBool ZifyN ZifyNat.
From Verif Require Import Outcome GoInt.
From C26 Require Model Proofs Reserve.
From C01 Require Model Proofs.
From C27 Require Import Model Proofs.
Import ListNotations.
Module VP := C01.Proofs.
Open Scope N_scope.

Lemma total_app {A} (f : A -> Z) l1 l2 : total f (l1 ++ l2) = (total f l1 + total f l2)%Z.
Proof. unfold total. induction l1 as [|x l1 IH]; cbn [app fold_right]; [reflexivity|]. rewrite IH. apply Z.add_assoc. Qed.
Lemma total_ext {A} (f g : A -> Z) l : (forall x, f x = g x) -> total f l = total g l.
Proof. intros H. unfold total. induction l as [|x l IH]; cbn [fold_right]; [reflexivity|]. now rewrite IH, H. Qed.

(* the error list only grows *)
Lemma run_actions_errs w ordf : forall acts k b errs b' errs',
  run_actions w ordf k acts b errs = LDone b' errs' -> exists more, errs' = errs ++ more.
Proof.
  induction acts as [|a acts IH]; intros k b errs b' errs' H; cbn [run_actions] in H.
  - inversion H. exists []. now rewrite app_nil_r.
  - destruct (act_build w (ordf k) k b a) as [b1|e b1| |]; try discriminate.
    + eapply IH; eauto.
    + apply IH in H. destruct H as [more ->]. exists (e :: more). now rewrite <- app_assoc.
Qed.

(* everything a run of the loop without errors adds *)
Record run_spec (w : world) (k : nat) (acts : list action) (b b' : bst)
       (nins : list tin) (nouts : list (origin * tout)) : Prop := mkRS {
  rs_ins : b_ins b' = b_ins b ++ nins;
  rs_outs : b_outs b' = b_outs b ++ nouts;
  rs_env : env_eq (b_keeper b) (b_keeper b');
  rs_mono : forall o, K.rmem o (K.reserved (b_keeper b)) = true ->
                      K.rmem o (K.reserved (b_keeper b')) = true;
  rs_nodup : NoDup (map ti_out nins);
  rs_new : forall i, In i nins ->
     K.rmem (ti_out i) (K.reserved (b_keeper b)) = false /\
     K.rmem (ti_out i) (K.reserved (b_keeper b')) = true /\
     ti_amount i <= MaxInt64N /\
     exists u, wallet_utxo (b_keeper b) u /\ i = input_of w u /\ K.uvh u <= K.height (b_keeper b);
  rs_bal : forall x, (in_amt x nins - out_amt x nouts =
                      total (req_in (b_keeper b) x) acts - total (req_out x) acts)%Z;
  rs_rec : recipients nouts = requested k acts;
  rs_chg : forall j o, In (j, o) (changes nouts) ->
     exists a, nth_error acts (j - k) = Some a /\ (k <= j)%nat /\ change_ok a nins o;
  rs_amt : forall o, In o nouts -> 0 < to_amount (snd o) <= MaxInt64N }.

Lemma change_ok_mono a n1 n2 o : change_ok a n1 o -> (forall i, In i n1 -> In i n2) -> change_ok a n2 o.
Proof.
  intros (acct & asset & amount & vote & H1 & H2 & H3 & H4 & i & Hi & H5 & H6) Hsub.
  exists acct, asset, amount, vote. repeat split; auto. exists i. auto.
Qed.

Lemma run_actions_spec w ordf : forall acts k b b',
  run_actions w ordf k acts b [] = LDone b' [] -> nowrap (b_keeper b) ->
  exists nins nouts, run_spec w k acts b b' nins nouts.
Proof.
  induction acts as [|a acts IH]; intros k b b' H Hnw; cbn [run_actions] in H.
  - inversion H; subst b'. exists [], [].
    constructor; cbn [map app in_amt out_amt fold_right total requested recipients changes flat_map In];
      try (now rewrite app_nil_r); try apply env_eq_refl; try constructor; try tauto;
      try (intros; reflexivity); auto.
  - destruct (act_build w (ordf k) k b a) as [b1|e b1| |] eqn:Ea; try discriminate.
    2:{ apply run_actions_errs in H. destruct H as [more H]. destruct more; discriminate. }
    destruct (act_build_spec w (ordf k) k b a b1 Ea Hnw) as (n1 & o1 & S1).
    destruct S1 as [I1 O1 E1 M1 D1 N1 W1 B1 R1 C1 A1].
    assert (Hnw1 : nowrap (b_keeper b1)) by (eapply nowrap_env; eauto).
    destruct (IH (S k) b1 b' H Hnw1) as (n2 & o2 & S2).
    destruct S2 as [I2 O2 E2 M2 D2 N2 B2 R2 C2 A2].
    exists (n1 ++ n2), (o1 ++ o2). constructor.
    + rewrite I2, I1. now rewrite app_assoc.
    + rewrite O2, O1. now rewrite app_assoc.
    + eapply env_eq_trans; eauto.
    + auto.
    + rewrite map_app. apply KP.NoDup_app_intro; auto.
      intros x Hx1 Hx2. apply in_map_iff in Hx1. destruct Hx1 as (i1 & <- & Hi1).
      apply in_map_iff in Hx2. destruct Hx2 as (i2 & Ex & Hi2).
      destruct (N1 i1 Hi1) as (_ & Ht & _). destruct (N2 i2 Hi2) as (Hf & _). congruence.
    + intros i Hi. apply in_app_or in Hi. destruct Hi as [Hi|Hi].
      * destruct (N1 i Hi) as (F1 & T1 & L1 & u & U1). repeat split; auto. exists u. exact U1.
      * destruct (N2 i Hi) as (F2 & T2 & L2 & u & U2 & U3 & U4). repeat split; auto.
        -- destruct (K.rmem (ti_out i) (K.reserved (b_keeper b))) eqn:Er; [|reflexivity].
           apply M1 in Er. congruence.
        -- exists u. pose proof E1 as (_ & _ & _ & Eh). rewrite Eh in U4. repeat split; auto.
           eapply wallet_utxo_env; eauto.
    + intros x. rewrite in_amt_app, out_amt_app. cbn [total fold_right]. fold (total (req_in (b_keeper b) x) acts).
      fold (total (req_out x) acts). specialize (B1 x). specialize (B2 x).
      rewrite (total_ext (req_in (b_keeper b1) x) (req_in (b_keeper b) x)) in B2
        by (intros; apply req_in_env; exact E1).
      lia.
    + rewrite recipients_app, R1, R2. reflexivity.
    + intros j o Hj. rewrite changes_app in Hj. apply in_app_or in Hj. destruct Hj as [Hj|Hj].
      * destruct (C1 j o Hj) as [-> Hc]. exists a. rewrite Nat.sub_diag. repeat split; auto.
        eapply change_ok_mono; eauto. intros; apply in_or_app; now left.
      * destruct (C2 j o Hj) as (a' & Hn & Hle & Hc). exists a'.
        replace (j - k)%nat with (S (j - S k)) by lia. cbn [nth_error]. repeat split; auto; [lia|].
        eapply change_ok_mono; eauto. intros; apply in_or_app; now right.
    + intros o Ho. apply in_app_or in Ho. destruct Ho; auto.
Qed.

(* ---- Build -------------------------------------------------------------------------------- *)
Lemma build_ok_inv w ordf st acts t st' :
  build w ordf st acts = BOk t st' ->
  exists b, run_actions w ordf 0 acts (mkB st [] [] []) [] = LDone b [] /\
            tp_ins t = b_ins b /\ tp_outs t = b_outs b /\ st' = b_keeper b /\
            tp_fee t = V.fee (tx_of w t 0 0).
Proof.
  unfold build. destruct (run_actions w ordf 0 acts (mkB st [] [] []) []) as [b errs| |] eqn:E; try discriminate.
  destruct errs; [|discriminate]. intros H. inversion H; subst. exists b. repeat split; auto.
Qed.

Lemma build_spec w ordf st acts t st' :
  build w ordf st acts = BOk t st' -> nowrap st ->
  run_spec w 0 acts (mkB st [] [] []) (mkB st' (tp_ins t) (tp_outs t) []) (tp_ins t) (tp_outs t).
Proof.
  intros H Hnw. apply build_ok_inv in H. destruct H as (b & Hr & Hi & Ho & Hs & _).
  apply run_actions_spec in Hr; [|exact Hnw]. destruct Hr as (nins & nouts & S).
  destruct S as [I O E M D N B R C A]. cbn [b_ins b_outs b_keeper app] in *.
  rewrite Hi, Ho, I, O, Hs. constructor; cbn [b_ins b_outs b_keeper app]; auto.
Qed.

(* ---- the value-level projection -------------------------------------------------------------- *)
Lemma in_sum_tx_of w t size tr a : VP.in_sum a (tx_of w t size tr) = in_amt a (tp_ins t).
Proof.
  unfold VP.in_sum, tx_of, in_amt. cbn [V.t_inputs]. induction (tp_ins t) as [|i l IH]; cbn [map fold_right]; [reflexivity|].
  rewrite IH. unfold in_of at 1 2 3. cbn [V.is_cb V.i_kind V.i_asset V.i_amount].
  destruct (ti_veto i); cbn [negb andb]; reflexivity.
Qed.
Lemma out_sum_tx_of w t size tr a : VP.out_sum a (tx_of w t size tr) = out_amt a (tp_outs t).
Proof.
  unfold VP.out_sum, tx_of, out_amt. cbn [V.t_outputs]. induction (tp_outs t) as [|o l IH]; cbn [map fold_right]; [reflexivity|].
  rewrite IH. reflexivity.
Qed.

Lemma wf_tx_of w t size tr :
  (forall i, In i (tp_ins t) -> ti_amount i <= MaxInt64N) ->
  (forall o, In o (tp_outs t) -> to_amount (snd o) <= MaxInt64N) ->
  VP.wf_tx (tx_of w t size tr).
Proof.
  intros Hi Ho. split; cbn [tx_of V.t_inputs V.t_outputs]; apply Forall_forall; intros x Hx;
    apply in_map_iff in Hx; destruct Hx as (y & <- & Hy).
  - specialize (Hi y Hy). cbn [in_of V.i_amount]. unfold MaxInt64N in Hi. lia.
  - specialize (Ho y Hy). cbn [out_of V.o_amount]. unfold MaxInt64N in Ho. lia.
Qed.

(* Template.Fee is the exact BTM difference *)
Lemma fee_exact w t :
  (forall i, In i (tp_ins t) -> ti_amount i <= MaxInt64N) ->
  (forall o, In o (tp_outs t) -> to_amount (snd o) <= MaxInt64N) ->
  (out_amt BTM (tp_outs t) <= in_amt BTM (tp_ins t) < 2^64)%Z ->
  V.fee (tx_of w t 0 0) = (in_amt BTM (tp_ins t) - out_amt BTM (tp_outs t))%Z.
Proof.
  intros Hi Ho Hb. pose proof (wf_tx_of w t 0 0 Hi Ho) as Hwf.
  unfold V.fee. change BTM with V.BTM in *.
  rewrite (VP.fee_in_exact _ Hwf) by (rewrite in_sum_tx_of; lia).
  destruct (VP.fee_out_exact _ Hwf) as [-> Hnn]; [rewrite out_sum_tx_of; lia|].
  rewrite out_sum_tx_of in Hnn. rewrite in_sum_tx_of, out_sum_tx_of.
  destruct (in_amt V.BTM (tp_ins t) >? out_amt V.BTM (tp_outs t))%Z eqn:E.
  - apply Z.gtb_lt in E. cbn [wrap]. rewrite Z.mod_small; lia.
  - rewrite Z.gtb_ltb in E. apply Z.ltb_ge in E. lia.
Qed.
