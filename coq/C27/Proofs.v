(* C27 — proofs about the model of the wallet's transaction builder (C27/Model.v):
   what one action adds to the transaction under construction ([step_spec]), and
   what a successful Build therefore returns ([build_spec]).  Funding facts come from
   C26 (reserve_analysis / reserve_particular_analysis). *)
From Coq Require Import List ZArith NArith Bool Lia Permutation.
From Coq Require Import ZifyBool ZifyN ZifyNat.
From Verif Require Import Outcome GoInt.
From C26 Require Model Proofs Reserve.
From C01 Require Model.
From C27 Require Import Model.
Import ListNotations.
Module KP := C26.Proofs.
Module KR := C26.Reserve.
Open Scope N_scope.

(* ---- vocabulary ---------------------------------------------------------------------- *)

(* the wallet's outputs do not change while a transaction is built *)
Definition env_eq (s s' : K.state) : Prop :=
  K.confirmed s' = K.confirmed s /\ K.contract s' = K.contract s /\
  K.unconf s' = K.unconf s /\ K.height s' = K.height s.

(* uint64 sums over the funds of any one request do not wrap (C26's side condition) *)
Definition nowrap (st : K.state) : Prop :=
  forall acct asset uu vote, KP.sumN (KP.funds st acct asset uu vote) < K.two64.

Definition wallet_utxo (st : K.state) (u : K.utxo) : Prop :=
  In u (K.confirmed st) \/ In u (K.contract st) \/ In u (K.unconf st).

(* exact totals per asset, over Z *)
Definition in_amt (a : N) (ins : list tin) : Z :=
  fold_right (fun i acc => if ti_asset i =? a then (Z.of_N (ti_amount i) + acc)%Z else acc) 0%Z ins.
Definition out_amt (a : N) (outs : list (origin * tout)) : Z :=
  fold_right (fun o acc => if to_asset (snd o) =? a then (Z.of_N (to_amount (snd o)) + acc)%Z else acc)
             0%Z outs.

(* what an action asks for *)
Definition req_in (st : K.state) (a : N) (act : action) : Z :=
  match act with
  | ASpend _ s am _ => if s =? a then Z.of_N am else 0%Z
  | AVeto _ s am _ _ => if s =? a then Z.of_N am else 0%Z
  | ASpendUtxo (Some out) uu =>
    match K.find_utxo st out uu with
    | Some u => if K.uasset u =? a then Z.of_N (K.uamt u) else 0%Z
    | None => 0%Z
    end
  | _ => 0%Z
  end.
Definition req_out (a : N) (act : action) : Z :=
  match act with
  | AControl s am _ => if s =? a then Z.of_N am else 0%Z
  | ARetire s am _ => if s =? a then Z.of_N am else 0%Z
  | AVote s am _ _ => if s =? a then Z.of_N am else 0%Z
  | _ => 0%Z
  end.
Definition total {A} (f : A -> Z) (l : list A) : Z := fold_right (fun x acc => (f x + acc)%Z) 0%Z l.

Definition rprog (r : recipient) : option N :=
  match r with RAddr p => Some p | RProg p => Some p | _ => None end.
(* the output a recipient action asks for *)
Definition recipient_out (a : action) : option tout :=
  match a with
  | AControl s am r => option_map (fun p => mkTO V.KOrig s am p 0) (rprog r)
  | ARetire s am p => Some (mkTO V.KRetire s am p 0)
  | AVote s am r v => option_map (fun p => mkTO V.KVote s am p v) (rprog r)
  | _ => None
  end.
Fixpoint requested (k : nat) (acts : list action) : list (nat * tout) :=
  match acts with
  | [] => []
  | a :: r => (match recipient_out a with Some o => [(k, o)] | None => [] end) ++ requested (S k) r
  end.
Definition recipients (outs : list (origin * tout)) : list (nat * tout) :=
  flat_map (fun o => match fst o with FromAction k => [(k, snd o)] | Change _ => [] end) outs.
Definition changes (outs : list (origin * tout)) : list (nat * tout) :=
  flat_map (fun o => match fst o with Change k => [(k, snd o)] | FromAction _ => [] end) outs.

Definition spendlike (a : action) : option (N * N * N * N) :=
  match a with
  | ASpend acct asset amount _ => Some (acct, asset, amount, 0)
  | AVeto acct asset amount vote _ => Some (acct, asset, amount, vote)
  | _ => None
  end.

(* a change output: an ordinary output of the action's asset to the program of one of the
   inputs this action added, all of which belong to the action's account *)
Definition change_ok (a : action) (nins : list tin) (o : tout) : Prop :=
  exists acct asset amount vote, spendlike a = Some (acct, asset, amount, vote) /\
    to_kind o = V.KOrig /\ to_asset o = asset /\ to_vote o = 0 /\
    (exists i, In i nins /\ to_prog o = ti_prog i /\ ti_acct i = acct).

(* ---- small lemmas ------------------------------------------------------------------------ *)
Lemma in_amt_app a l1 l2 : in_amt a (l1 ++ l2) = (in_amt a l1 + in_amt a l2)%Z.
Proof. unfold in_amt. induction l1 as [|i l1 IH]; cbn [app fold_right]; [reflexivity|].
       rewrite IH. destruct (ti_asset i =? a); [apply Z.add_assoc | reflexivity]. Qed.
Lemma out_amt_app a l1 l2 : out_amt a (l1 ++ l2) = (out_amt a l1 + out_amt a l2)%Z.
Proof. unfold out_amt. induction l1 as [|i l1 IH]; cbn [app fold_right]; [reflexivity|].
       rewrite IH. destruct (to_asset (snd i) =? a); [apply Z.add_assoc | reflexivity]. Qed.
Lemma recipients_app l1 l2 : recipients (l1 ++ l2) = recipients l1 ++ recipients l2.
Proof. unfold recipients. apply flat_map_app. Qed.
Lemma changes_app l1 l2 : changes (l1 ++ l2) = changes l1 ++ changes l2.
Proof. unfold changes. apply flat_map_app. Qed.

Lemma env_eq_refl s : env_eq s s. Proof. repeat split. Qed.
Lemma env_eq_trans s1 s2 s3 : env_eq s1 s2 -> env_eq s2 s3 -> env_eq s1 s3.
Proof. intros (a & b & c & d) (a' & b' & c' & d'). repeat split; congruence. Qed.

Lemma env_set_reservation st rsv rs nx : env_eq st (K.set_reservation st rsv rs nx).
Proof. repeat split. Qed.

Lemma funds_env s s' acct asset uu vote : env_eq s s' ->
  KP.funds s' acct asset uu vote = KP.funds s acct asset uu vote.
Proof. intros (a & b & c & d). unfold KP.funds, KP.sources. now rewrite a, c. Qed.
Lemma nowrap_env s s' : env_eq s s' -> nowrap s -> nowrap s'.
Proof. intros E H acct asset uu vote. rewrite (funds_env s s') by exact E. apply H. Qed.
Lemma find_utxo_env s s' out uu : env_eq s s' -> K.find_utxo s' out uu = K.find_utxo s out uu.
Proof. intros (a & b & c & d). unfold K.find_utxo. now rewrite a, b, c. Qed.
Lemma wallet_utxo_env s s' u : env_eq s s' -> wallet_utxo s' u -> wallet_utxo s u.
Proof. intros (a & b & c & d). unfold wallet_utxo. now rewrite a, b, c. Qed.
Lemma req_in_env s s' a act : env_eq s s' -> req_in s' a act = req_in s a act.
Proof. intros E. destruct act as [| [o|] uu | | | |]; cbn [req_in]; try reflexivity.
       now rewrite (find_utxo_env s s'). Qed.

(* add_inputs appends one input per output, all amounts at most MaxInt64 *)
Lemma add_inputs_ok w : forall us ins ins',
  add_inputs w us ins = Ok ins' ->
  ins' = ins ++ map (input_of w) us /\ (forall u, In u us -> K.uamt u <= MaxInt64N).
Proof.
  induction us as [|u us IH]; intros ins ins' H; cbn [add_inputs] in H.
  - inversion H. rewrite app_nil_r. split; [reflexivity | intros ? []].
  - destruct (MaxInt64N <? K.uamt u) eqn:E; [discriminate|].
    apply IH in H. destruct H as [H1 H2]. split.
    + rewrite H1, <- app_assoc. reflexivity.
    + intros v [<-|Hv]; [lia | auto].
Qed.

Lemma in_amt_inputs w a asset us :
  (forall u, In u us -> K.uasset u = asset) ->
  in_amt a (map (input_of w) us) = if asset =? a then Z.of_N (KP.sumN us) else 0%Z.
Proof.
  induction us as [|u us IH]; intros H; cbn [map in_amt fold_right KP.sumN].
  - destruct (asset =? a); reflexivity.
  - fold (in_amt a (map (input_of w) us)). rewrite IH by (intros; apply H; now right).
    cbn [input_of ti_asset ti_amount]. rewrite (H u) by now left.
    destruct (asset =? a); lia.
Qed.

Lemma matches_fields acct asset vote u : K.matches acct asset vote u = true ->
  K.uacct u = acct /\ K.uasset u = asset /\ K.uvote u = vote.
Proof. unfold K.matches. intros H. apply andb_prop in H. destruct H as [H H3].
       apply andb_prop in H. destruct H as [H1 H2]. repeat split; now apply N.eqb_eq. Qed.

Lemma sources_wallet st uu u : In u (KP.sources st uu) -> wallet_utxo st u.
Proof. unfold KP.sources, wallet_utxo. intros H. apply in_app_or in H. destruct H as [H|H]; [auto|].
       destruct uu; [auto | destruct H]. Qed.

Lemma find_utxo_wallet st out uu u : K.find_utxo st out uu = Some u -> wallet_utxo st u /\ K.uid u = out.
Proof.
  intros H. pose proof (KR.find_utxo_Some st out uu u H) as [H1 H2]. split; [|exact H1].
  unfold wallet_utxo. tauto.
Qed.

(* ---- what one action does --------------------------------------------------------------- *)
Record step_spec (w : world) (k : nat) (a : action) (b b' : bst)
       (nins : list tin) (nouts : list (origin * tout)) : Prop := mkSS {
  ss_ins : b_ins b' = b_ins b ++ nins;
  ss_outs : b_outs b' = b_outs b ++ nouts;
  ss_env : env_eq (b_keeper b) (b_keeper b');
  ss_mono : forall o, K.rmem o (K.reserved (b_keeper b)) = true ->
                      K.rmem o (K.reserved (b_keeper b')) = true;
  ss_nodup : NoDup (map ti_out nins);
  ss_new : forall i, In i nins ->
     K.rmem (ti_out i) (K.reserved (b_keeper b)) = false /\
     K.rmem (ti_out i) (K.reserved (b_keeper b')) = true /\
     ti_amount i <= MaxInt64N /\
     exists u, wallet_utxo (b_keeper b) u /\ i = input_of w u /\ K.uvh u <= K.height (b_keeper b);
  ss_own : forall acct asset amount vote, spendlike a = Some (acct, asset, amount, vote) ->
     forall i, In i nins -> ti_acct i = acct /\ ti_asset i = asset /\ ti_vote i = vote;
  ss_bal : forall x, (in_amt x nins - out_amt x nouts = req_in (b_keeper b) x a - req_out x a)%Z;
  ss_rec : recipients nouts = match recipient_out a with Some o => [(k, o)] | None => [] end;
  ss_chg : forall j o, In (j, o) (changes nouts) -> j = k /\ change_ok a nins o;
  ss_amt : forall o, In o nouts -> 0 < to_amount (snd o) <= MaxInt64N }.

Lemma add_output_ok o outs outs' : add_output o outs = Ok outs' ->
  outs' = outs ++ [o] /\ to_amount (snd o) <= MaxInt64N.
Proof. unfold add_output. destruct (MaxInt64N <? to_amount (snd o)) eqn:E; [discriminate|].
       intros H. inversion H. split; [reflexivity | lia]. Qed.

(* an output action *)
Lemma out_step w k b kind asset amount r vote vm b' a :
  out_action k b kind asset amount r vote vm = SOk b' ->
  recipient_out a = option_map (fun p => mkTO kind asset amount p vote) (rprog r) ->
  (forall x, req_out x a = if asset =? x then Z.of_N amount else 0%Z) ->
  (forall st x, req_in st x a = 0%Z) -> spendlike a = None ->
  exists nouts, step_spec w k a b b' [] nouts.
Proof.
  unfold out_action. intros H Hrec Hro Hri Hsl.
  destruct (recipient_missing r || (asset =? NOASSET) || (amount =? 0) || vm) eqn:Em; [discriminate|].
  apply orb_false_elim in Em. destruct Em as [Em _]. apply orb_false_elim in Em. destruct Em as [_ Eam].
  destruct (recipient_prog r) as [p| |] eqn:Ep; try discriminate.
  destruct (add_output _ _) as [outs| |] eqn:Eo; try discriminate.
  inversion H; subst b'. apply add_output_ok in Eo. destruct Eo as [-> Hle]. cbn [snd to_amount] in Hle.
  assert (Hp : rprog r = Some p).
  { destruct r as [q| | |q]; cbn in Ep |- *; try discriminate; [now inversion Ep|].
    destruct (q =? 0); [discriminate | now inversion Ep]. }
  exists [(FromAction k, mkTO kind asset amount p vote)].
  constructor; cbn [b_ins b_outs b_keeper]; auto.
  - now rewrite app_nil_r.
  - apply env_eq_refl.
  - constructor.
  - intros i [].
  - intros ? ? ? ? E. congruence.
  - intros x. rewrite Hri, Hro. cbn [in_amt out_amt fold_right snd to_asset to_amount].
    destruct (asset =? x); lia.
  - rewrite Hrec, Hp. reflexivity.
  - intros j o [].
  - intros o [<-|[]]. cbn [snd to_amount]. lia.
Qed.

(* spendAction.Build / vetoAction.Build *)
Lemma spend_step w ord k b acct asset amount vote uu b' a :
  spend_like w ord k b acct asset amount vote uu = SOk b' ->
  nowrap (b_keeper b) ->
  spendlike a = Some (acct, asset, amount, vote) -> recipient_out a = None ->
  (forall st x, req_in st x a = if asset =? x then Z.of_N amount else 0%Z) ->
  (forall x, req_out x a = 0%Z) ->
  exists nins nouts, step_spec w k a b b' nins nouts.
Proof.
  unfold spend_like. intros H Hnw Hsl Hrec Hri Hro.
  destruct ((acct =? 0) || (asset =? NOASSET) || (amount =? 0)) eqn:Em; [discriminate|].
  destruct (w_acct w acct); [|discriminate].
  pose proof (KR.reserve_analysis (b_keeper b) acct asset amount uu vote 0%Z ord
                (Hnw acct asset uu vote)) as HA.
  destruct (K.reserve true (b_keeper b) acct asset amount uu vote 0%Z ord) as [st' [|id us change|e|pp|]];
    try discriminate.
  destruct HA as (_ & Hnd & HU & Hsum & Hch & _ & Hst').
  assert (Hfund : KP.sumN (KP.funds (b_keeper b) acct asset uu vote) < K.two64) by apply Hnw.
  assert (HusF : forall u, In u us -> In u (KP.funds (b_keeper b) acct asset uu vote) /\
                                     K.uvh u <= K.height (b_keeper b) /\
                                     K.rmem (K.uid u) (K.reserved (b_keeper b)) = false).
  { intros u Hu. apply HU in Hu. apply filter_In in Hu. destruct Hu as [Hu Hr].
    apply filter_In in Hu. destruct Hu as [Hu Hm]. split; [exact Hu|].
    unfold KP.mature in Hm. unfold KP.unreserved in Hr. split; [lia|].
    now apply negb_true_iff in Hr. }
  assert (Hfields : forall u, In u us -> K.uacct u = acct /\ K.uasset u = asset /\ K.uvote u = vote).
  { intros u Hu. apply HusF in Hu. destruct Hu as [Hu _]. apply KR.funds_In in Hu.
    destruct Hu as [_ Hm]. now apply matches_fields. }
  assert (Hres : forall o, K.rmem o (K.reserved st') = true <->
                           In o (map K.uid us) \/ K.rmem o (K.reserved (b_keeper b)) = true).
  { intros o. rewrite Hst'. cbn [K.set_reservation K.reserved]. apply KP.rmem_fold_rput. }
  unfold fund in H.
  destruct (add_inputs w us (b_ins b)) as [ins| |] eqn:Ei; try discriminate.
  apply add_inputs_ok in Ei. destruct Ei as [-> Hle].
  assert (Hcommon : forall nouts bb,
     b_ins bb = b_ins b ++ map (input_of w) us -> b_outs bb = b_outs b ++ nouts -> b_keeper bb = st' ->
     (in_amt asset (map (input_of w) us) - out_amt asset nouts = Z.of_N amount)%Z ->
     (forall x, x <> asset -> out_amt x nouts = 0%Z) ->
     recipients nouts = [] ->
     (forall j o, In (j, o) (changes nouts) -> j = k /\ change_ok a (map (input_of w) us) o) ->
     (forall o, In o nouts -> 0 < to_amount (snd o) <= MaxInt64N) ->
     step_spec w k a b bb (map (input_of w) us) nouts).
  { intros nouts bb E1 E2 E3 Hbal Hoth Hr Hc Ha. constructor; auto.
    - rewrite E3, Hst'. apply env_set_reservation.
    - intros o Ho. rewrite E3. apply Hres. now right.
    - rewrite map_map. cbn [input_of ti_out]. exact Hnd.
    - intros i Hi. apply in_map_iff in Hi. destruct Hi as (u & <- & Hu). cbn [input_of ti_out ti_amount].
      destruct (HusF u Hu) as (HF & Hm & Hr0). repeat split; auto.
      + rewrite E3. apply Hres. left. now apply in_map.
      + exists u. repeat split; auto. apply KR.funds_In in HF. destruct HF as [HF _].
        eapply sources_wallet; exact HF.
    - intros ac s am v E i Hi. rewrite Hsl in E. inversion E; subst ac s am v.
      apply in_map_iff in Hi. destruct Hi as (u & <- & Hu). cbn [input_of ti_acct ti_asset ti_vote].
      now apply Hfields.
    - intros x. rewrite Hri, Hro. destruct (N.eq_dec x asset) as [->|Hx].
      + rewrite N.eqb_refl. lia.
      + rewrite (Hoth x Hx). rewrite (in_amt_inputs w x asset) by (intros u Hu; now apply Hfields).
        destruct (asset =? x) eqn:E; [apply N.eqb_eq in E; congruence | lia].
    - now rewrite Hrec. }
  assert (Hinsum : in_amt asset (map (input_of w) us) = Z.of_N (KP.sumN us)).
  { rewrite (in_amt_inputs w asset asset) by (intros u Hu; now apply Hfields). now rewrite N.eqb_refl. }
  destruct (0 <? change) eqn:Ec.
  - destruct us as [|u0 us']; [discriminate|].
    destruct (add_output _ _) as [outs| |] eqn:Eo; try discriminate.
    inversion H; subst b'. apply add_output_ok in Eo. destruct Eo as [-> Hcle]. cbn [snd to_amount] in Hcle.
    exists (map (input_of w) (u0 :: us')), [(Change k, mkTO V.KOrig asset change (w_prog w (K.uid u0)) 0)].
    apply Hcommon; cbn [b_ins b_outs b_keeper]; auto.
    + rewrite Hinsum. cbn [out_amt fold_right snd to_asset to_amount]. rewrite N.eqb_refl. lia.
    + intros x Hx. cbn [out_amt fold_right snd to_asset to_amount].
      destruct (asset =? x) eqn:E; [apply N.eqb_eq in E; congruence | reflexivity].
    + intros j o [E|[]]. inversion E; subst j o. split; [reflexivity|].
      exists acct, asset, amount, vote. repeat split; auto.
      exists (input_of w u0). split; [now left|]. cbn [to_prog input_of ti_prog ti_acct]. split; [reflexivity|].
      apply (Hfields u0). now left.
    + intros o [<-|[]]. cbn [snd to_amount]. lia.
  - inversion H; subst b'. exists (map (input_of w) us), [].
    apply Hcommon; cbn [b_ins b_outs b_keeper]; auto.
    + now rewrite app_nil_r.
    + rewrite Hinsum. cbn [out_amt fold_right]. lia.
    + intros j o [].
    + intros o [].
Qed.

(* spendUTXOAction.Build *)
Lemma utxo_step w k b out uu b' :
  act_build w [] k b (ASpendUtxo (Some out) uu) = SOk b' ->
  exists nins, step_spec w k (ASpendUtxo (Some out) uu) b b' nins [].
Proof.
  cbn [act_build]. intros H.
  pose proof (KR.reserve_particular_analysis (b_keeper b) out uu 0%Z) as HA.
  destruct (K.reserve_particular (b_keeper b) out uu 0%Z) as [st' [|id us change|e|pp|]]; try discriminate.
  destruct HA as (u & -> & -> & Hf & Hid & Hm & Hr & _ & Hst').
  destruct (negb (K.uacct u =? 0) && _); [discriminate|].
  destruct (add_inputs w [u] (b_ins b)) as [ins| |] eqn:Ei; try discriminate.
  inversion H; subst b'. apply add_inputs_ok in Ei. destruct Ei as [-> Hle].
  exists [input_of w u]. constructor; cbn [b_ins b_outs b_keeper map]; auto.
  - now rewrite app_nil_r.
  - rewrite Hst'. apply env_set_reservation.
  - intros o Ho. rewrite Hst'. cbn [K.set_reservation K.reserved]. rewrite KP.rmem_rput. now rewrite Ho, orb_true_r.
  - constructor; [intros [] | constructor].
  - intros i [<-|[]]. cbn [input_of ti_out ti_amount]. rewrite Hid. repeat split; auto.
    + rewrite Hst'. cbn [K.set_reservation K.reserved]. rewrite KP.rmem_rput, Hid, N.eqb_refl. reflexivity.
    + apply Hle. now left.
    + exists u. apply find_utxo_wallet in Hf. destruct Hf as [Hf _]. repeat split; auto.
  - intros ? ? ? ? E. discriminate.
  - intros x. cbn [req_in req_out in_amt out_amt fold_right input_of ti_asset ti_amount]. rewrite Hf.
    destruct (K.uasset u =? x); lia.
  - intros j o [].
  - intros o [].
Qed.

Lemma act_build_spec w ord k b a b' :
  act_build w ord k b a = SOk b' -> nowrap (b_keeper b) ->
  exists nins nouts, step_spec w k a b b' nins nouts.
Proof.
  intros H Hnw. destruct a as [acct asset amount uu | [out|] uu | acct asset amount vote uu
                               | asset amount r | asset amount p | asset amount r vote].
  - eapply spend_step; eauto; intros; reflexivity.
  - cbn [act_build] in H.
    destruct (utxo_step w k b out uu b') as [nins Hs]; [exact H|]. now exists nins, [].
  - discriminate.
  - eapply spend_step; eauto; intros; reflexivity.
  - cbn [act_build] in H. exists [].
    eapply (out_step w k b V.KOrig asset amount r 0 false b' (AControl asset amount r)); eauto.
  - cbn [act_build] in H.
    destruct ((asset =? NOASSET) || (amount =? 0)) eqn:Em; [discriminate|].
    apply orb_false_elim in Em. destruct Em as [_ Eam].
    destruct (add_output _ _) as [outs| |] eqn:Eo; try discriminate.
    inversion H; subst b'. apply add_output_ok in Eo. destruct Eo as [-> Hle]. cbn [snd to_amount] in Hle.
    exists [], [(FromAction k, mkTO V.KRetire asset amount p 0)].
    constructor; cbn [b_ins b_outs b_keeper]; auto.
    + now rewrite app_nil_r.
    + apply env_eq_refl.
    + constructor.
    + intros i [].
    + intros ? ? ? ? E. discriminate.
    + intros x. cbn [req_in req_out in_amt out_amt fold_right snd to_asset to_amount].
      destruct (asset =? x); lia.
    + intros j o [].
    + intros o [<-|[]]. cbn [snd to_amount]. lia.
  - cbn [act_build] in H. exists [].
    eapply (out_step w k b V.KVote asset amount r vote (vote =? 0) b' (AVote asset amount r vote)); eauto.
Qed.
