(* C27 — built and signed wallet transactions.  EXECUTABLE MODEL ONLY (no proofs).

   Mirrors, in this order:
     account/builder.go            MergeSpendAction, spendAction.Build,
                                   spendUTXOAction.Build (without contract arguments),
                                   vetoAction.Build (with the repair: amount 0 is a
                                   missing field, as in spendAction.Build),
                                   UtxoToInputs (spend / veto input by UTXO.Vote);
     blockchain/txbuilder/actions.go   controlAddressAction, controlProgramAction,
                                   retireAction, voteOutputAction (.Build);
     blockchain/txbuilder/builder.go   AddInput / AddOutput (> MaxInt64 guard),
                                   TemplateBuilder.Build (outputs, then inputs, Fee),
                                   Rollback;
     blockchain/txbuilder/txbuilder.go Build (every action is run, errors are collected,
                                   any error => Rollback), Sign (one signature per
                                   witness component and call);
     blockchain/txbuilder/{rawtxsig_witness,witness}.go  sign / materialize.
   Funding is the keeper of C26 (C26/Model.v: Reserve, ReserveParticular, cancel), used
   as it is: the keeper state is threaded through the actions, so a later action sees
   the reservations of the earlier ones.  The result of sort.Slice inside Reserve is an
   explicit argument ([ordf k] for the action at position k of the merged list); the
   theorems hold for every value of it.
   Validation is the value-level model of C01 (C01/Model.v: validate, fee) applied to
   the projection [tx_of] of the built transaction.

   Labels ([N], compared by equality only): accounts (0 = the empty account id),
   assets (0 = BTM as in C01; 1 = asset id absent / all-zero), output ids, control
   programs (0 = empty), vote keys (0 = nil), signing keys.  Amounts are uint64 values.

   What the wallet's tables say is a record [world] (a parameter of everything):
     w_prog    output id -> control program of that UTXO (UTXO.ControlProgram)
     w_owner   control program -> the account whose program it is (the account manager's
               control-program table, GetLocalCtrlProgramByAddress); None = not ours
     w_acct    account id -> (quorum, key labels in XPubs order); None = FindByID fails
     w_vlen    vote key -> its length in bytes
   UtxoToInputs is taken to succeed on the wallet's own UTXOs (they carry the address
   and derivation index the wallet generated). *)
From Coq Require Import List ZArith NArith Bool.
From Verif Require Import Outcome GoInt.
From C26 Require Model.
From C01 Require Model.
Import ListNotations.
Module K := C26.Model.
Module V := C01.Model.
Open Scope N_scope.

Definition BTM : N := 0.
Definition NOASSET : N := 1.
Definition MaxInt64N : N := 9223372036854775807.

Record world := mkW {
  w_prog : N -> N;
  w_owner : N -> option N;
  w_acct : N -> option (nat * list N);
  w_vlen : N -> Z }.

(* ---- actions (the decoded JSON actions) ------------------------------------------- *)
Inductive recipient :=
| RAddr (p : N)        (* control_address / vote_output: an address that decodes to program p *)
| RAddrEmpty           (* address "" *)
| RAddrBad             (* an address that does not decode *)
| RProg (p : N).       (* control_program: program p (0 = empty) *)

Inductive action :=
| ASpend (acct asset amount : N) (uu : bool)                 (* spend_account *)
| ASpendUtxo (out : option N) (uu : bool)                    (* spend_account_unspent_output *)
| AVeto (acct asset amount vote : N) (uu : bool)             (* veto *)
| AControl (asset amount : N) (r : recipient)                (* control_address / control_program *)
| ARetire (asset amount : N) (p : N)                         (* retire; p = label of the retire program *)
| AVote (asset amount : N) (r : recipient) (vote : N).       (* vote_output *)

(* ---- MergeSpendAction ---------------------------------------------------------------- *)
(* tmpAct is the first spend action with the same (asset, account); Amount += (uint64) *)
Fixpoint merge_into (acct asset amount : N) (uu : bool) (res : list action) : option (list action) :=
  match res with
  | [] => None
  | a :: res' =>
    match a with
    | ASpend ac s am u =>
      if (ac =? acct) && (s =? asset) then Some (ASpend ac s (K.add64 am amount) (u || uu) :: res')
      else match merge_into acct asset amount uu res' with
           | Some r => Some (a :: r)
           | None => None
           end
    | _ => match merge_into acct asset amount uu res' with
           | Some r => Some (a :: r)
           | None => None
           end
    end
  end.

Definition merge_step (res : list action) (a : action) : list action :=
  match a with
  | ASpend ac s am u =>
    match merge_into ac s am u res with
    | Some r => r
    | None => res ++ [a]
    end
  | _ => res ++ [a]
  end.

Definition merge (acts : list action) : list action := fold_left merge_step acts [].

(* ---- the transaction under construction ---------------------------------------------- *)
Record tin := mkTI {
  ti_veto : bool; ti_asset : N; ti_amount : N; ti_out : N; ti_prog : N; ti_vote : N; ti_acct : N }.
Record tout := mkTO { to_kind : V.okind; to_asset : N; to_amount : N; to_prog : N; to_vote : N }.
(* where an output comes from: the recipient of action k, or the change of action k *)
Inductive origin := FromAction (k : nat) | Change (k : nat).

Inductive berr :=
| EMissing | EFindAccount | EInsufficient | EImmature | EReserved | EMatchUTXO
| EBadAmount | EAddress.

(* UtxoToInputs: a veto input iff the UTXO carries a vote *)
Definition input_of (w : world) (u : K.utxo) : tin :=
  mkTI (negb (K.uvote u =? 0)) (K.uasset u) (K.uamt u) (K.uid u) (w_prog w (K.uid u))
       (K.uvote u) (K.uacct u).

(* TemplateBuilder.AddInput for each reserved UTXO, in order *)
Fixpoint add_inputs (w : world) (us : list K.utxo) (ins : list tin) : outcome berr (list tin) :=
  match us with
  | [] => Ok ins
  | u :: us' =>
    if MaxInt64N <? K.uamt u then Err EBadAmount
    else add_inputs w us' (ins ++ [input_of w u])
  end.

(* TemplateBuilder.AddOutput *)
Definition add_output (o : origin * tout) (outs : list (origin * tout))
  : outcome berr (list (origin * tout)) :=
  if MaxInt64N <? to_amount (snd o) then Err EBadAmount else Ok (outs ++ [o]).

Definition reserve_err (e : K.errclass) : berr :=
  match e with
  | K.EInsufficient => EInsufficient
  | K.EImmature => EImmature
  | K.EReserved => EReserved
  | K.EMatchUTXO => EMatchUTXO
  end.

(* builder state: keeper, inputs, outputs, reservation ids registered with OnRollback *)
Record bst := mkB {
  b_keeper : K.state; b_ins : list tin; b_outs : list (origin * tout); b_rids : list N }.

Inductive step_res :=
| SOk (b : bst)
| SErr (e : berr) (b : bst)     (* the action failed; what it did before failing stays *)
| SPanic
| SBadOrder.

(* the common tail of spendAction.Build and vetoAction.Build after Reserve succeeded *)
Definition fund (w : world) (k : nat) (b : bst) (st' : K.state) (id : N) (us : list K.utxo)
           (change asset : N) : step_res :=
  let b1 := mkB st' (b_ins b) (b_outs b) (b_rids b ++ [id]) in
  match add_inputs w us (b_ins b) with
  | Err e => SErr e b1
  | Panic _ => SPanic
  | Ok ins =>
    let b2 := mkB st' ins (b_outs b) (b_rids b ++ [id]) in
    if 0 <? change then
      match us with
      | [] => SPanic                                        (* res.utxos[0] *)
      | u0 :: _ =>
        match add_output (Change k, mkTO V.KOrig asset change (w_prog w (K.uid u0)) 0) (b_outs b) with
        | Ok outs => SOk (mkB st' ins outs (b_rids b ++ [id]))
        | Err e => SErr e b2
        | Panic _ => SPanic
        end
      end
    else SOk b2
  end.

Definition spend_like (w : world) (ord : list N) (k : nat) (b : bst)
           (acct asset amount vote : N) (uu : bool) : step_res :=
  if (acct =? 0) || (asset =? NOASSET) || (amount =? 0) then SErr EMissing b
  else match w_acct w acct with
       | None => SErr EFindAccount b
       | Some _ =>
         match K.reserve true (b_keeper b) acct asset amount uu vote 0%Z ord with
         | (_, K.RErr e) => SErr (reserve_err e) b
         | (_, K.RPanic _) => SPanic
         | (_, K.RBadOrder) => SBadOrder
         | (_, K.RNone) => SPanic                            (* not a result of Reserve *)
         | (st', K.RRes id us change) => fund w k b st' id us change asset
         end
       end.

(* the output actions: field checks, address decoding, program, AddOutput *)
Definition recipient_prog (r : recipient) : outcome berr N :=
  match r with
  | RAddr p => Ok p
  | RAddrEmpty => Err EMissing
  | RAddrBad => Err EAddress
  | RProg p => if p =? 0 then Err EMissing else Ok p
  end.
Definition recipient_missing (r : recipient) : bool :=
  match r with RAddrEmpty => true | RProg p => p =? 0 | _ => false end.

Definition out_action (k : nat) (b : bst) (kind : V.okind) (asset amount : N) (r : recipient)
           (vote : N) (vote_missing : bool) : step_res :=
  if recipient_missing r || (asset =? NOASSET) || (amount =? 0) || vote_missing then SErr EMissing b
  else match recipient_prog r with
       | Err e => SErr e b
       | Panic _ => SPanic
       | Ok p =>
         match add_output (FromAction k, mkTO kind asset amount p vote) (b_outs b) with
         | Ok outs => SOk (mkB (b_keeper b) (b_ins b) outs (b_rids b))
         | Err e => SErr e b
         | Panic _ => SPanic
         end
       end.

Definition act_build (w : world) (ord : list N) (k : nat) (b : bst) (a : action) : step_res :=
  match a with
  | ASpend acct asset amount uu => spend_like w ord k b acct asset amount 0 uu
  | AVeto acct asset amount vote uu => spend_like w ord k b acct asset amount vote uu
  | ASpendUtxo None _ => SErr EMissing b
  | ASpendUtxo (Some out) uu =>
    match K.reserve_particular (b_keeper b) out uu 0%Z with
    | (_, K.RErr e) => SErr (reserve_err e) b
    | (st', K.RRes id us _) =>
      let b1 := mkB st' (b_ins b) (b_outs b) (b_rids b ++ [id]) in
      match us with
      | [] => SPanic
      | u :: _ =>
        if negb (K.uacct u =? 0) && (match w_acct w (K.uacct u) with None => true | _ => false end)
        then SErr EFindAccount b1
        else match add_inputs w [u] (b_ins b) with
             | Ok ins => SOk (mkB st' ins (b_outs b) (b_rids b ++ [id]))
             | Err e => SErr e b1
             | Panic _ => SPanic
             end
      end
    | _ => SPanic
    end
  | AControl asset amount r => out_action k b V.KOrig asset amount r 0 false
  | ARetire asset amount p =>
    if (asset =? NOASSET) || (amount =? 0) then SErr EMissing b
    else match add_output (FromAction k, mkTO V.KRetire asset amount p 0) (b_outs b) with
         | Ok outs => SOk (mkB (b_keeper b) (b_ins b) outs (b_rids b))
         | Err e => SErr e b
         | Panic _ => SPanic
         end
  | AVote asset amount r vote => out_action k b V.KVote asset amount r vote (vote =? 0)
  end.

(* txbuilder.Build: for i, action := range actions { err := action.Build(...) ... } *)
Inductive loop_res := LDone (b : bst) (errs : list berr) | LPanic | LBadOrder.

Fixpoint run_actions (w : world) (ordf : nat -> list N) (k : nat) (acts : list action)
         (b : bst) (errs : list berr) : loop_res :=
  match acts with
  | [] => LDone b errs
  | a :: acts' =>
    match act_build w (ordf k) k b a with
    | SOk b' => run_actions w ordf (S k) acts' b' errs
    | SErr e b' => run_actions w ordf (S k) acts' b' (errs ++ [e])
    | SPanic => LPanic
    | SBadOrder => LBadOrder
    end
  end.

Definition rollback (st : K.state) (rids : list N) : K.state := fold_left K.cancel rids st.

Definition in_of (w : world) (i : tin) : V.input :=
  V.mkIn (if ti_veto i then V.KVeto else V.KSpend) (ti_asset i) (Z.of_N (ti_amount i)) (ti_out i)
         (if ti_veto i then w_vlen w (ti_vote i) else 0%Z).
Definition out_of (w : world) (o : tout) : V.output :=
  V.mkOut (to_kind o) (to_asset o) (Z.of_N (to_amount o))
          (match to_kind o with V.KVote => w_vlen w (to_vote o) | _ => 0%Z end).

Record template := mkT { tp_ins : list tin; tp_outs : list (origin * tout); tp_fee : Z }.

(* the value-level transaction validated by C01's model: version 1 *)
Definition tx_of (w : world) (t : template) (size timerange : Z) : V.tx :=
  V.mkT 1 size timerange (map (in_of w) (tp_ins t)) (map (fun o => out_of w (snd o)) (tp_outs t)).

Inductive bresult :=
| BOk (t : template) (st : K.state)
| BErr (errs : list berr) (st : K.state)
| BPanic
| BBadOrder.

(* Build over an already merged action list *)
Definition build (w : world) (ordf : nat -> list N) (st : K.state) (acts : list action) : bresult :=
  match run_actions w ordf 0 acts (mkB st [] [] []) [] with
  | LPanic => BPanic
  | LBadOrder => BBadOrder
  | LDone b [] =>
    let t0 := mkT (b_ins b) (b_outs b) 0 in
    BOk (mkT (b_ins b) (b_outs b) (V.fee (tx_of w t0 0 0))) (b_keeper b)
  | LDone b errs => BErr errs (rollback (b_keeper b) (b_rids b))
  end.

(* the wallet's build: MergeSpendAction, then txbuilder.Build *)
Definition wallet_build (w : world) (ordf : nat -> list N) (st : K.state) (acts : list action) : bresult :=
  build w ordf st (merge acts).

(* ---- signing ---------------------------------------------------------------------------- *)
(* RawTxSigWitness.sign: the first key without a signature for which signFn succeeds gets
   one; at most one per call.  [sigs]: which key slots hold a signature. *)
Fixpoint sign_once (avail : N -> bool) (keys : list N) (sigs : list bool) : list bool :=
  match keys, sigs with
  | key :: keys', s :: sigs' =>
    if s then s :: sign_once avail keys' sigs'
    else if avail key then true :: sigs'
    else s :: sign_once avail keys' sigs'
  | _, _ => sigs
  end.

Fixpoint sign_rounds (avail : N -> bool) (keys : list N) (rounds : nat) (sigs : list bool) : list bool :=
  match rounds with
  | O => sigs
  | S r => sign_rounds avail keys r (sign_once avail keys sigs)
  end.

Definition count_true (l : list bool) : nat := length (filter (fun b => b) l).

(* materialize: the first [quorum] signatures, then the data witness (public key / script).
   (number of signatures in the witness, a data item follows) *)
Definition witness_of (w : world) (avail : N -> bool) (rounds : nat) (i : tin) : nat * bool :=
  if ti_acct i =? 0 then (O, false)
  else match w_acct w (ti_acct i) with
       | None => (O, false)
       | Some (q, keys) =>
         (Nat.min q (count_true (sign_rounds avail keys rounds (map (fun _ => false) keys))), true)
       end.

(* the witness carries a full quorum of signatures of the owning account *)
Definition witness_complete (w : world) (avail : N -> bool) (rounds : nat) (i : tin) : bool :=
  match w_acct w (ti_acct i) with
  | None => false
  | Some (q, keys) =>
    negb (ti_acct i =? 0) &&
    Nat.eqb (fst (witness_of w avail rounds i)) q
  end.
