(* C27 — sufficient conditions for C01's value-level validation to ACCEPT a
   transaction without coinbase inputs ([validate_ok]).  C01/Proofs.v shows what an
   accepted transaction satisfies; here is the converse direction needed for
   "the built transaction passes": exact conditions on sums, gas and the VM's answers.
   Consensus constants: the real ones (C01.Proofs.real_consts = VMGasRate 200,
   MaxGasAmount 300000, StorageGasRate 1, MinVoteOutputAmount 10^8). *)
From Coq Require Import ZArith NArith List Bool Lia Permutation.
From Verif Require Import Outcome GoInt.
From VerifGen Require Import Checked.
From C31 Require Proofs.
From C01 Require Import Model Proofs.
Import ListNotations.
Open Scope Z_scope.

Lemma in_range_I64_iff v : in_range I64 v = true <-> - 2^63 <= v <= 2^63 - 1.
Proof. apply in_range_I64. Qed.

Lemma sumfor_nonneg a l : nonneg l -> 0 <= sumfor a l.
Proof.
  induction 1 as [|p l Hp _ IH]; [cbn; lia|]. rewrite sumfor_cons. destruct (N.eqb (fst p) a); lia.
Qed.

(* ---- the source loop succeeds ------------------------------------------------------------ *)
Lemma add_sources_ok : forall srcs m,
  nonneg srcs -> range_ok m -> NoDup (keys m) ->
  (forall a, 0 <= getd a m) ->
  (forall a, getd a m + sumfor a srcs <= MaxInt64) ->
  exists m', add_sources srcs m = Ok m'.
Proof.
  induction srcs as [|[a amt] r IH]; intros m Hnn Hr Hnd Hpos Hb.
  - exists m. reflexivity.
  - cbn [add_sources]. inversion Hnn as [|? ? Hamt Hnn']; subst. cbn [snd] in Hamt.
    pose proof (sumfor_nonneg a r Hnn') as Hsr.
    pose proof (Hb a) as Hba. rewrite sumfor_cons in Hba. cbn [fst snd] in Hba. rewrite N.eqb_refl in Hba.
    pose proof (Hpos a) as Hpa.
    assert (Eg : (amt >? MaxInt64) = false) by (rewrite Z.gtb_ltb; apply Z.ltb_ge; lia).
    rewrite Eg. pose proof (in_range_amt amt Hamt Eg) as Ramt.
    rewrite (in_range_wrap I64 amt Ramt). fold (getd a m).
    rewrite (C31.Proofs.AddInt64_exact _ _ (range_getd a m Hr) Ramt).
    unfold C31.Proofs.spec_add, C31.Proofs.spec. cbn [andb].
    assert (Es : in_range I64 (getd a m + amt) = true) by (apply in_range_I64_iff; unfold MaxInt64 in *; lia).
    rewrite Es. apply IH; auto.
    + apply range_ok_pset; auto.
    + apply keys_pset_nodup; auto.
    + intros b. destruct (N.eq_dec a b) as [<-|E]; [rewrite getd_pset_same; lia | rewrite getd_pset_other; auto].
    + intros b. specialize (Hb b). rewrite sumfor_cons in Hb. cbn [fst snd] in Hb.
      destruct (N.eq_dec a b) as [<-|E].
      * rewrite N.eqb_refl in Hb. rewrite getd_pset_same. lia.
      * rewrite getd_pset_other by auto. destruct (N.eqb a b) eqn:E'; [apply N.eqb_eq in E'; congruence | lia].
Qed.

(* ---- the destination loop succeeds -------------------------------------------------------- *)
Lemma sub_dests_ok : forall dsts m,
  nonneg dsts -> fits dsts -> range_ok m -> NoDup (keys m) ->
  (forall p, In p dsts -> has (fst p) m = true) ->
  (forall a, sumfor a dsts <= getd a m) ->
  exists m', sub_dests dsts m = Ok m'.
Proof.
  induction dsts as [|[a amt] r IH]; intros m Hnn Hf Hr Hnd Hhas Hb.
  - exists m. reflexivity.
  - cbn [sub_dests]. inversion Hnn as [|? ? Hamt Hnn']; subst. cbn [snd] in Hamt.
    inversion Hf as [|? ? Hfa Hf']; subst. cbn [snd] in Hfa.
    pose proof (Hhas (a, amt) (or_introl eq_refl)) as Ha. cbn [fst] in Ha. unfold has in Ha.
    destruct (plookup a m) as [s|] eqn:El; [|discriminate].
    assert (Hs : getd a m = s) by (unfold getd; now rewrite El).
    assert (Eg : (amt >? MaxInt64) = false) by (rewrite Z.gtb_ltb; apply Z.ltb_ge; lia).
    rewrite Eg. pose proof (in_range_amt amt Hamt Eg) as Ramt.
    rewrite (in_range_wrap I64 amt Ramt).
    pose proof (Hr a s El) as Rs.
    rewrite (C31.Proofs.SubInt64_exact _ _ Rs Ramt).
    unfold C31.Proofs.spec_sub, C31.Proofs.spec. cbn [andb].
    pose proof (sumfor_nonneg a r Hnn') as Hsr.
    pose proof (Hb a) as Hba. rewrite sumfor_cons in Hba. cbn [fst snd] in Hba. rewrite N.eqb_refl, Hs in Hba.
    apply in_range_I64_iff in Rs.
    assert (Es : in_range I64 (s - amt) = true) by (apply in_range_I64_iff; lia).
    rewrite Es. apply IH; auto.
    + apply range_ok_pset; auto.
    + apply keys_pset_nodup; auto.
    + intros p Hp. destruct (N.eq_dec a (fst p)) as [<-|E]; [apply has_pset_same|].
      rewrite has_pset_other by auto. apply Hhas. now right.
    + intros b. specialize (Hb b). rewrite sumfor_cons in Hb. cbn [fst snd] in Hb.
      destruct (N.eq_dec a b) as [<-|E].
      * rewrite N.eqb_refl in Hb. rewrite getd_pset_same. lia.
      * rewrite getd_pset_other by auto. destruct (N.eqb a b) eqn:E'; [apply N.eqb_eq in E'; congruence | lia].
Qed.

(* ---- the parity loop ------------------------------------------------------------------------ *)
Definition gas_limit (btm : Z) : Z := Z.min (Z.quot btm 200) 300000.

Lemma set_gas_real g btm size :
  0 <= btm <= MaxInt64 -> 0 <= size <= MaxInt64 ->
  set_gas real_consts g btm size = Ok (mkG (wrap U64 btm) (gas_limit btm) (GasUsed g) size).
Proof.
  intros Hb Hs. unfold set_gas, real_consts. cbn [c_gasrate c_maxgas c_storagerate].
  assert (E0 : (btm <? 0) = false) by (apply Z.ltb_ge; lia). rewrite E0.
  assert (Rb : in_range I64 btm = true) by (apply in_range_I64_iff; unfold MaxInt64 in *; lia).
  assert (R200 : in_range I64 200 = true) by reflexivity.
  rewrite (C31.Proofs.DivInt64_exact _ _ Rb R200).
  unfold C31.Proofs.spec_div, C31.Proofs.spec. cbn [Z.eqb negb andb].
  assert (Hq : 0 <= Z.quot btm 200 <= btm).
  { split; [apply Z.quot_pos; lia|]. rewrite Z.quot_div_nonneg by lia.
    apply Z.div_le_upper_bound; lia. }
  assert (Rq : in_range I64 (Z.quot btm 200) = true) by (apply in_range_I64_iff; unfold MaxInt64 in *; lia).
  rewrite Rq.
  assert (Rs : in_range I64 size = true) by (apply in_range_I64_iff; unfold MaxInt64 in *; lia).
  assert (R1 : in_range I64 1 = true) by reflexivity.
  rewrite (C31.Proofs.MulInt64_exact _ _ Rs R1).
  unfold C31.Proofs.spec_mul, C31.Proofs.spec. cbn [andb]. rewrite Z.mul_1_r, Rs.
  unfold gas_limit. destruct (Z.quot btm 200 >? 300000) eqn:E.
  - rewrite Z.gtb_ltb in E. apply Z.ltb_lt in E. rewrite Z.min_r by lia. reflexivity.
  - rewrite Z.gtb_ltb in E. apply Z.ltb_ge in E. rewrite Z.min_l by lia. reflexivity.
Qed.

Lemma check_parity_ok size btm : forall l g,
  0 <= btm <= MaxInt64 -> 0 <= size <= MaxInt64 ->
  (forall a v, In (a, v) l -> if N.eqb a BTM then v = btm else v = 0) ->
  check_parity real_consts size l g =
  Ok (if existsb (fun p => N.eqb (fst p) BTM) l
      then mkG (wrap U64 btm) (gas_limit btm) (GasUsed g) size else g).
Proof.
  induction l as [|[a v] r IH]; intros g Hb Hs Hl; [reflexivity|].
  cbn [check_parity existsb fst]. pose proof (Hl a v (or_introl eq_refl)) as Hav.
  assert (Hr : forall a v, In (a, v) r -> if N.eqb a BTM then v = btm else v = 0)
    by (intros; apply Hl; now right).
  destruct (N.eqb a BTM) eqn:Ea.
  - subst v. rewrite (set_gas_real g btm size Hb Hs). rewrite (IH _ Hb Hs Hr). cbn [GasUsed orb].
    destruct (existsb _ r); reflexivity.
  - subst v. cbn [Z.eqb orb]. apply IH; auto.
Qed.

(* ---- the inputs --------------------------------------------------------------------------------- *)
Fixpoint csum {A} (c : nat -> Z) (idx : nat) (l : list A) : Z :=
  match l with [] => 0 | _ :: r => c idx + csum c (S idx) r end.

Section Inputs.
  Variable vm : nat -> Z -> option Z.
  Variable c : nat -> Z.
  Variable b : blk.
  Variable t : tx.

  Definition plain (i : input) : Prop :=
    is_cb i = false /\ (i_kind i = KVeto -> i_aux i = 64).

  Lemma check_inputs_ok : forall ins idx g,
    Forall plain ins ->
    (forall k gl, (idx <= k < idx + length ins)%nat -> 0 <= c k /\ (c k <= gl -> vm k gl = Some (gl - c k))) ->
    0 <= StorageGas g -> 0 <= GasUsed g -> GasUsed g + GasLeft g <= 300000 ->
    StorageGas g + csum c idx ins <= GasLeft g ->
    exists g', check_inputs real_consts vm b t idx ins g = Ok g' /\
               StorageGas g' = StorageGas g /\ BTMValue g' = BTMValue g /\
               StorageGas g <= GasLeft g' /\ 0 <= GasUsed g' /\ GasUsed g' + GasLeft g' <= 300000.
  Proof.
    induction ins as [|i ins IH]; intros idx g Hp Hvm Hs Hu Htot Hgas.
    - exists g. cbn [check_inputs csum] in *. repeat split; auto; lia.
    - cbn [check_inputs csum] in *. inversion Hp as [|? ? [Hcb Hv] Hp']; subst.
      destruct (Hvm idx (GasLeft g)) as [Hc0 Hvmi]; [cbn [length]; lia|].
      assert (Hcs : 0 <= csum c (S idx) ins).
      { clear - Hvm. revert idx Hvm. induction ins as [|j r IHr]; intros idx Hvm; cbn [csum]; [lia|].
        destruct (Hvm (S idx) 0) as [H0 _]; [cbn [length]; lia|].
        assert (0 <= csum c (S (S idx)) r); [|lia].
        apply IHr. intros k gl Hk. apply Hvm. cbn [length] in *. lia. }
      assert (Hstep : run_vm vm idx g =
                      Ok (mkG (BTMValue g) (GasLeft g - c idx) (GasUsed g + c idx) (StorageGas g))).
      { unfold run_vm. rewrite Hvmi by lia. unfold update_usage.
        assert (E0 : (GasLeft g - c idx <? 0) = false) by (apply Z.ltb_ge; lia). rewrite E0.
        assert (R1 : in_range I64 (GasLeft g) = true) by (apply in_range_I64_iff; lia).
        assert (R2 : in_range I64 (GasLeft g - c idx) = true) by (apply in_range_I64_iff; lia).
        rewrite (C31.Proofs.SubInt64_exact _ _ R1 R2).
        unfold C31.Proofs.spec_sub, C31.Proofs.spec. cbn [andb].
        replace (GasLeft g - (GasLeft g - c idx)) with (c idx) by lia.
        assert (R3 : in_range I64 (c idx) = true) by (apply in_range_I64_iff; lia). rewrite R3.
        assert (R4 : in_range I64 (GasUsed g + c idx) = true) by (apply in_range_I64_iff; lia).
        rewrite (in_range_wrap I64 _ R4). cbn [StorageGas GasLeft].
        assert (E1 : (StorageGas g >? GasLeft g - c idx) = false)
          by (rewrite Z.gtb_ltb; apply Z.ltb_ge; lia).
        rewrite E1. reflexivity. }
      assert (Hci : check_input real_consts vm b t idx i (existsb is_cb ins) g =
                    Ok (mkG (BTMValue g) (GasLeft g - c idx) (GasUsed g + c idx) (StorageGas g))).
      { unfold check_input. unfold is_cb in Hcb. destruct (i_kind i) eqn:Ek; try discriminate; auto.
        rewrite (Hv eq_refl). cbn [Z.eqb negb]. exact Hstep. }
      rewrite Hci.
      destruct (IH (S idx) (mkG (BTMValue g) (GasLeft g - c idx) (GasUsed g + c idx) (StorageGas g)))
        as (g' & Hg' & H1 & H2 & H3 & H4 & H5); cbn [StorageGas GasLeft GasUsed BTMValue]; auto; try lia.
      { intros k gl Hk. apply Hvm. cbn [length]. lia. }
      exists g'. cbn [StorageGas GasLeft GasUsed BTMValue] in *. repeat split; auto.
  Qed.
End Inputs.

Lemma charge_storage_ok g :
  0 <= StorageGas g <= GasLeft g -> 0 <= GasUsed g -> GasUsed g + GasLeft g <= 300000 ->
  exists g', charge_storage g = Ok g' /\ BTMValue g' = BTMValue g.
Proof.
  intros Hs Hu Ht. unfold charge_storage.
  assert (R1 : in_range I64 (GasLeft g) = true) by (apply in_range_I64_iff; lia).
  assert (R2 : in_range I64 (StorageGas g) = true) by (apply in_range_I64_iff; lia).
  rewrite (C31.Proofs.SubInt64_exact _ _ R1 R2). unfold C31.Proofs.spec_sub, C31.Proofs.spec. cbn [andb].
  assert (R3 : in_range I64 (GasLeft g - StorageGas g) = true) by (apply in_range_I64_iff; lia). rewrite R3.
  cbn [negb orb]. assert (E : (GasLeft g - StorageGas g <? 0) = false) by (apply Z.ltb_ge; lia). rewrite E.
  assert (R4 : in_range I64 (GasUsed g) = true) by (apply in_range_I64_iff; lia).
  rewrite (C31.Proofs.AddInt64_exact _ _ R4 R2). unfold C31.Proofs.spec_add, C31.Proofs.spec. cbn [andb].
  assert (R5 : in_range I64 (GasUsed g + StorageGas g) = true) by (apply in_range_I64_iff; lia). rewrite R5.
  eexists. split; reflexivity.
Qed.

(* ---- results ---------------------------------------------------------------------------------------- *)
Definition legal_output (o : output) : Prop :=
  is_vote o = true -> o_aux o = 64 /\ 100000000 <= o_amount o /\ o_asset o = BTM.

Lemma check_results_done vm perm b t : forall outs g,
  Forall legal_output outs -> check_results real_consts vm perm b t outs true g = Ok g.
Proof.
  induction outs as [|o outs IH]; intros g H; [reflexivity|].
  inversion H as [|? ? Ho H']; subst. cbn [check_results].
  destruct (is_vote o) eqn:Ev.
  - destruct (Ho Ev) as (H1 & H2 & H3). rewrite H1. cbn [Z.eqb negb andb].
    cbn [c_minvote real_consts]. assert (E : (o_amount o <? 100000000) = false) by (apply Z.ltb_ge; lia).
    rewrite E, H3. cbn [andb negb]. rewrite N.eqb_refl. cbn [negb]. apply IH. exact H'.
  - cbn [andb]. apply IH. exact H'.
Qed.

Lemma has_dup_nodup l : NoDup l -> has_dup l = false.
Proof.
  induction 1 as [|x l Hx _ IH]; [reflexivity|]. cbn [has_dup]. rewrite IH, orb_false_r.
  destruct (existsb (N.eqb x) l) eqn:E; [|reflexivity].
  apply existsb_exists in E. destruct E as (y & Hy & E). apply N.eqb_eq in E. subst. contradiction.
Qed.

Lemma perm_in_keys (perm : pmap -> pmap) m : is_order perm ->
  forall a v, In (a, v) (perm m) -> In (a, v) m.
Proof. intros H a v Hin. eapply Permutation_in; [apply H | exact Hin]. Qed.

Lemma in_plookup a v m : NoDup (keys m) -> In (a, v) m -> plookup a m = Some v.
Proof.
  induction m as [|[k x] r IH]; intros Hnd Hin; [destruct Hin|].
  cbn [keys map fst] in Hnd. inversion Hnd as [|? ? Hk Hnd']; subst. cbn [plookup].
  destruct Hin as [E|Hin].
  - inversion E; subst. now rewrite N.eqb_refl.
  - destruct (N.eqb k a) eqn:E; [|apply IH; auto].
    apply N.eqb_eq in E. subst. exfalso. apply Hk. change (In a (map fst r)). apply in_map_iff.
    exists (a, v). auto.
Qed.


(* ---- validate ---------------------------------------------------------------------------------------- *)
Lemma in_sum_pos_source a t : has_coinbase t = false -> 0 < in_sum a t ->
  existsb (N.eqb a) (map fst (mux_sources t)) = true.
Proof.
  unfold has_coinbase, in_sum, mux_sources. induction (t_inputs t) as [|i l IH]; intros Hc Hp; cbn [fold_right] in Hp; [lia|].
  cbn [existsb] in Hc. apply orb_false_iff in Hc. destruct Hc as [Hi Hl].
  cbn [map existsb]. unfold mux_source at 1. rewrite Hi in *. cbn [fst negb andb] in *.
  destruct (N.eqb (i_asset i) a) eqn:E.
  - apply N.eqb_eq in E. subst a. now rewrite N.eqb_refl.
  - rewrite (IH Hl Hp). apply orb_true_r.
Qed.

Lemma out_sum_member t o : Forall (fun o => 0 < o_amount o <= MaxInt64) (t_outputs t) ->
  In o (t_outputs t) -> o_amount o <= out_sum (o_asset o) t.
Proof.
  unfold out_sum. induction (t_outputs t) as [|x l IH]; intros Hf Hin; [destruct Hin|].
  inversion Hf as [|? ? Hx Hf']; subst. cbn [fold_right].
  assert (Hnn : forall a, 0 <= fold_right (fun o acc => if N.eqb (o_asset o) a then o_amount o + acc else acc) 0 l).
  { clear - Hf'. intros a. induction Hf' as [|y l Hy _ IHl]; cbn [fold_right]; [lia|].
    destruct (N.eqb (o_asset y) a); lia. }
  destruct Hin as [->|Hin].
  - rewrite N.eqb_refl. specialize (Hnn (o_asset o)). lia.
  - specialize (IH Hf' Hin). destruct (N.eqb (o_asset x) (o_asset o)); lia.
Qed.

Lemma csum_nonneg {A} (c : nat -> Z) : forall (l : list A) idx,
  (forall k, (idx <= k < idx + length l)%nat -> 0 <= c k) -> 0 <= csum c idx l.
Proof.
  induction l as [|j r IHr]; intros idx H; cbn [csum]; [lia|].
  assert (0 <= c idx) by (apply H; cbn [length]; lia).
  assert (0 <= csum c (S idx) r); [|lia]. apply IHr. intros k Hk. apply H. cbn [length]. lia.
Qed.

Theorem validate_ok vm perm c b t :
  is_order perm ->
  t_version t = 1 -> 0 < t_size t <= MaxInt64 ->
  (t_timerange t = 0 \/ b_height b <= t_timerange t) ->
  NoDup (map i_id (t_inputs t)) ->
  Forall plain (t_inputs t) ->
  t_outputs t <> [] -> Forall legal_output (t_outputs t) ->
  Forall (fun i => 0 <= i_amount i <= MaxInt64) (t_inputs t) ->
  Forall (fun o => 0 < o_amount o <= MaxInt64) (t_outputs t) ->
  (forall a, in_sum a t <= MaxInt64) ->
  (forall a, a <> BTM -> in_sum a t = out_sum a t) ->
  out_sum BTM t <= in_sum BTM t ->
  (forall k gl, (k < length (t_inputs t))%nat -> 0 <= c k /\ (c k <= gl -> vm k gl = Some (gl - c k))) ->
  t_size t + csum c 0 (t_inputs t) <= gas_limit (in_sum BTM t - out_sum BTM t) ->
  exists g, validate real_consts vm perm b t = Ok g.
Proof.
  intros Hperm Hver Hsize Htr Hnd Hplain Hne Hlegal Hin Hout Hfit Hbal Hbtm Hvm Hgas.
  assert (Hncb : has_coinbase t = false).
  { unfold has_coinbase. clear - Hplain. induction Hplain as [|i l [Hi _] _ IH]; [reflexivity|].
    cbn [existsb]. now rewrite Hi, IH. }
  assert (Hwf : wf_tx t).
  { split; [eapply Forall_impl; [|exact Hin] | eapply Forall_impl; [|exact Hout]]; cbn beta;
      intros x Hx; unfold MaxInt64 in Hx; lia. }
  assert (Hcs : 0 <= csum c 0 (t_inputs t)).
  { apply csum_nonneg. intros k Hk. apply (Hvm k 0). lia. }
  set (btm := in_sum BTM t - out_sum BTM t) in *.
  assert (Hbtm0 : 0 <= btm <= MaxInt64).
  { pose proof (out_sum_nonneg BTM t Hwf). specialize (Hfit BTM). subst btm. lia. }
  assert (Hgl : gas_limit btm <= 300000) by (unfold gas_limit; lia).
  assert (Hbpos : 0 < in_sum BTM t).
  { destruct (Z.le_gt_cases btm 199) as [Hle|Hgt].
    - assert (Z.quot btm 200 = 0) by (apply Z.quot_small; lia).
      unfold gas_limit in Hgas. rewrite H in Hgas. lia.
    - pose proof (out_sum_nonneg BTM t Hwf). subst btm. lia. }
  (* the mux *)
  pose proof (nonneg_sources t Hwf) as Hns. pose proof (nonneg_dests t Hwf) as Hndst.
  assert (Hsf : forall a, sumfor a (mux_sources t) = in_sum a t) by (intros; now apply sumfor_sources_nocb).
  destruct (add_sources_ok (mux_sources t) []) as [m1 Hm1]; auto.
  { intros a v H. discriminate. } { constructor. } { intros a. cbn. lia. }
  { intros a. rewrite Hsf. cbn. apply Hfit. }
  destruct (add_sources_spec _ _ _ Hm1 Hns) as (R1 & N1 & G1 & H1 & _).
  { intros a v H. discriminate. } { constructor. }
  assert (Hg1 : forall a, getd a m1 = in_sum a t) by (intros a; rewrite G1, Hsf; reflexivity).
  assert (Hio : forall a, out_sum a t <= in_sum a t).
  { intros a. destruct (N.eq_dec a BTM) as [->|E]; [exact Hbtm | rewrite (Hbal a E); lia]. }
  destruct (sub_dests_ok (mux_dests t) m1) as [m2 Hm2]; auto.
  { unfold fits, mux_dests. apply Forall_map. eapply Forall_impl; [|exact Hout]. cbn. intros; lia. }
  { intros p Hp. unfold mux_dests in Hp. apply in_map_iff in Hp. destruct Hp as (o & <- & Ho). cbn [fst].
    rewrite H1. cbn [has plookup orb]. apply in_sum_pos_source; auto.
    pose proof (out_sum_member t o Hout Ho). specialize (Hio (o_asset o)).
    rewrite Forall_forall in Hout. specialize (Hout o Ho). lia. }
  { intros a. rewrite sumfor_dests, Hg1. apply Hio. }
  destruct (sub_dests_spec _ _ _ Hm2 Hndst R1 N1) as (R2 & N2 & G2 & H2 & _).
  assert (Hg2 : forall a, getd a m2 = in_sum a t - out_sum a t)
    by (intros a; rewrite G2, Hg1, sumfor_dests; reflexivity).
  assert (Hsz : wrap I64 (t_size t) = t_size t).
  { apply in_range_wrap. apply in_range_I64_iff. unfold MaxInt64 in Hsize. lia. }
  assert (Hpar : check_parity real_consts (t_size t) (perm m2) gas0 =
                 Ok (mkG (wrap U64 btm) (gas_limit btm) 0 (t_size t))).
  { rewrite (check_parity_ok (t_size t) btm); try lia.
    - assert (E : existsb (fun p => N.eqb (fst p) BTM) (perm m2) = true).
      { assert (Hh : has BTM m2 = true).
        { rewrite H2, H1. cbn [has plookup orb]. apply in_sum_pos_source; auto. }
        unfold has in Hh. destruct (plookup BTM m2) as [v|] eqn:El; [|discriminate].
        apply plookup_in in El. apply existsb_exists. exists (BTM, v). split; [|apply N.eqb_refl].
        eapply Permutation_in; [apply Permutation_sym; apply Hperm | exact El]. }
      rewrite E. reflexivity.
    - intros a v Hav. apply (perm_in_keys perm m2 Hperm) in Hav. apply (in_plookup _ _ _ N2) in Hav.
      assert (Hv : getd a m2 = v) by (unfold getd; now rewrite Hav). rewrite Hg2 in Hv.
      destruct (N.eqb a BTM) eqn:E.
      + apply N.eqb_eq in E. subst a. now subst btm.
      + apply N.eqb_neq in E. rewrite (Hbal a E) in Hv. lia. }
  destruct (check_inputs_ok vm c b t (t_inputs t) 0 (mkG (wrap U64 btm) (gas_limit btm) 0 (t_size t)))
    as (g2 & Hci & S2 & _ & L2 & U2 & T2); cbn [StorageGas GasUsed GasLeft]; auto; try lia.
  { intros k gl Hk. apply Hvm. lia. }
  cbn [StorageGas GasUsed GasLeft] in *.
  destruct (charge_storage_ok g2) as (g3 & Hcs3 & _); try lia.
  assert (Hmux : check_mux real_consts vm perm b t gas0 = Ok g3).
  { unfold check_mux. rewrite Hm1, Hm2, Hsz, Hpar, Hci. exact Hcs3. }
  (* the header *)
  unfold validate. rewrite Hver. cbn [Z.eqb negb]. rewrite andb_false_r.
  assert (E1 : (t_size t =? 0) = false) by (apply Z.eqb_neq; lia). rewrite E1.
  assert (E2 : negb (t_timerange t =? 0) && (t_timerange t <? b_height b) = false).
  { destruct Htr as [->|Hle]; [reflexivity|].
    assert ((t_timerange t <? b_height b) = false) by (apply Z.ltb_ge; lia). rewrite H. apply andb_false_r. }
  rewrite E2. rewrite (has_dup_nodup _ Hnd).
  destruct (t_outputs t) as [|o outs] eqn:Eo; [congruence|].
  inversion Hlegal as [|? ? Ho Hl']; subst.
  exists g3. cbn [check_results]. rewrite Hmux.
  destruct (is_vote o) eqn:Ev.
  - destruct (Ho Ev) as (A1 & A2 & A3). rewrite A1, A3.
    cbn [Z.eqb Pos.eqb negb andb c_minvote real_consts].
    assert (Hlt : (o_amount o <? 100000000) = false) by (apply Z.ltb_ge; lia). rewrite Hlt.
    rewrite N.eqb_refl. cbn [negb].
    rewrite (check_results_done vm perm b t outs g3 Hl'). reflexivity.
  - cbn [andb]. rewrite (check_results_done vm perm b t outs g3 Hl'). reflexivity.
Qed.
