(* C27 — the property statements, proved from C27/Build.v (what Build returns) and
   C27/Valid.v (when C01's validation accepts). *)
From Coq Require Import List ZArith NArith Bool Lia Permutation.
From Coq Require Import ZifyBool ZifyN ZifyNat.
From Verif Require Import Outcome GoInt.
From C26 Require Model Proofs Reserve.
From C01 Require Model Proofs.
From C27 Require Import Model Proofs Build Valid Merge.
Import ListNotations.
Open Scope N_scope.

(* ---- pays as requested ------------------------------------------------------------------- *)
Lemma balanced w ordf st acts t st' :
  build w ordf st acts = BOk t st' -> nowrap st ->
  recipients (tp_outs t) = requested 0 acts /\
  (forall k o, In (k, o) (changes (tp_outs t)) ->
     exists a acct asset amount vote,
       nth_error acts k = Some a /\ spendlike a = Some (acct, asset, amount, vote) /\
       to_kind o = V.KOrig /\ to_asset o = asset /\ 0 < to_amount o /\
       exists i, In i (tp_ins t) /\ ti_acct i = acct /\ to_prog o = ti_prog i) /\
  (forall a, (in_amt a (tp_ins t) - out_amt a (tp_outs t) =
              total (req_in st a) acts - total (req_out a) acts)%Z) /\
  NoDup (map ti_out (tp_ins t)) /\
  (forall i, In i (tp_ins t) ->
     exists u, wallet_utxo st u /\ i = input_of w u /\ K.uvh u <= K.height st /\
               K.rmem (K.uid u) (K.reserved st) = false /\ K.rmem (K.uid u) (K.reserved st') = true).
Proof.
  intros H Hnw. pose proof (build_spec w ordf st acts t st' H Hnw) as S.
  destruct S as [_ _ _ _ D N B R C A]. cbn [b_ins b_outs b_keeper] in *.
  split; [exact R|]. split; [|split; [exact B|split; [exact D|]]].
  - intros k o Hk. destruct (C k o Hk) as (a & Hn & _ & (acct & asset & amount & vote & Hs & H1 & H2 & _ & i & Hi & H5 & H6)).
    rewrite Nat.sub_0_r in Hn. exists a, acct, asset, amount, vote. repeat split; auto.
    + unfold changes in Hk. apply in_flat_map in Hk. destruct Hk as ([og x] & Hx & Hk). cbn [fst snd] in Hk.
      destruct og; [destruct Hk|]. destruct Hk as [E|[]]. inversion E; subst. apply (A _ Hx).
    + exists i. auto.
  - intros i Hi. destruct (N i Hi) as (F & T & _ & u & U1 & U2 & U3). exists u. subst i. cbn [input_of ti_out] in *.
    repeat split; auto.
Qed.

(* the change output pays a program of the spending account, when the wallet's table of
   control programs knows the program of each of its outputs as belonging to that output's
   account *)
Definition programs_owned (w : world) (st : K.state) : Prop :=
  forall u, wallet_utxo st u -> w_owner w (w_prog w (K.uid u)) = Some (K.uacct u).

Lemma change_to_spender w ordf st acts t st' :
  build w ordf st acts = BOk t st' -> nowrap st -> programs_owned w st ->
  forall k o, In (k, o) (changes (tp_outs t)) ->
    exists a acct asset amount vote,
      nth_error acts k = Some a /\ spendlike a = Some (acct, asset, amount, vote) /\
      to_asset o = asset /\ w_owner w (to_prog o) = Some acct.
Proof.
  intros H Hnw Hown k o Hk. destruct (balanced w ordf st acts t st' H Hnw) as (_ & C & _ & _ & I).
  destruct (C k o Hk) as (a & acct & asset & amount & vote & Hn & Hs & _ & Ha & _ & i & Hi & Hacct & Hp).
  exists a, acct, asset, amount, vote. repeat split; auto.
  destruct (I i Hi) as (u & Hu & -> & _). cbn [input_of ti_prog ti_acct] in *. rewrite Hp, <- Hacct. now apply Hown.
Qed.

Lemma fee_is_difference w ordf st acts t st' :
  build w ordf st acts = BOk t st' -> nowrap st ->
  (0 <= total (req_in st BTM) acts - total (req_out BTM) acts)%Z ->
  (in_amt BTM (tp_ins t) < 2^64)%Z ->
  tp_fee t = (in_amt BTM (tp_ins t) - out_amt BTM (tp_outs t))%Z /\
  tp_fee t = (total (req_in st BTM) acts - total (req_out BTM) acts)%Z.
Proof.
  intros H Hnw Hpos Hlt. pose proof (build_spec w ordf st acts t st' H Hnw) as S.
  destruct S as [_ _ _ _ _ N B _ _ A]. cbn [b_ins b_outs b_keeper] in *.
  apply build_ok_inv in H. destruct H as (_ & _ & _ & _ & _ & Hfee).
  rewrite Hfee. specialize (B BTM). rewrite fee_exact; [split; lia| | |lia].
  - intros i Hi. now destruct (N i Hi) as (_ & _ & L & _).
  - intros o Ho. now destruct (A o Ho).
Qed.

(* ---- signing: every key available => every witness is complete --------------------------- *)
Lemma sign_once_all avail : forall keys n m,
  (forall key, In key keys -> avail key = true) -> length keys = (n + m)%nat ->
  sign_once avail keys (repeat true n ++ repeat false m) =
  match m with O => repeat true n | S m' => repeat true (S n) ++ repeat false m' end.
Proof.
  induction keys as [|key keys IH]; intros n m Hav Hlen.
  - destruct n, m; try discriminate. reflexivity.
  - destruct n as [|n].
    + destruct m as [|m]; [discriminate|]. cbn [repeat app sign_once].
      rewrite (Hav key) by now left. reflexivity.
    + cbn [repeat app sign_once]. cbn [length] in Hlen.
      assert (Hav' : forall k0, In k0 keys -> avail k0 = true) by (intros; apply Hav; now right).
      assert (Hlen' : length keys = (n + m)%nat) by lia.
      rewrite (IH n m Hav' Hlen').
      destruct m; reflexivity.
Qed.

Lemma count_true_repeat n m : count_true (repeat true n ++ repeat false m) = n.
Proof.
  unfold count_true. induction n as [|n IH]; cbn [repeat app filter length].
  - induction m as [|m IHm]; cbn [repeat filter length]; auto.
  - now rewrite IH.
Qed.

Lemma sign_rounds_all avail keys : (forall key, In key keys -> avail key = true) ->
  forall r n m, length keys = (n + m)%nat ->
  count_true (sign_rounds avail keys r (repeat true n ++ repeat false m)) = Nat.min (n + r) (n + m).
Proof.
  intros Hav. induction r as [|r IH]; intros n m Hlen; cbn [sign_rounds].
  - rewrite count_true_repeat. lia.
  - rewrite (sign_once_all avail keys n m Hav Hlen). destruct m as [|m].
    + replace (repeat true n) with (repeat true n ++ repeat false 0) by apply app_nil_r.
      rewrite IH by lia. lia.
    + rewrite IH by lia. lia.
Qed.

Lemma witness_complete_all w avail rounds i q keys :
  w_acct w (ti_acct i) = Some (q, keys) -> ti_acct i <> 0 ->
  (forall key, In key keys -> avail key = true) ->
  (q <= length keys)%nat -> (q <= rounds)%nat ->
  witness_complete w avail rounds i = true.
Proof.
  intros Ha Hn Hav Hq Hr. unfold witness_complete, witness_of. rewrite Ha.
  apply N.eqb_neq in Hn. rewrite Hn. cbn [negb andb fst].
  replace (map (fun _ : N => false) keys) with (repeat true 0 ++ repeat false (length keys)).
  - rewrite (sign_rounds_all avail keys Hav rounds 0 (length keys) eq_refl). apply Nat.eqb_eq. lia.
  - cbn [repeat app]. clear. induction keys; cbn; congruence.
Qed.

(* ---- passes validation ------------------------------------------------------------------------ *)
Lemma csum_map {A B} (f : A -> B) c : forall (l : list A) idx, csum c idx (map f l) = csum c idx l.
Proof. induction l as [|x l IH]; intros idx; cbn [map csum]; [reflexivity | now rewrite IH]. Qed.

Lemma in_recipients k o outs : In (FromAction k, o) outs -> In (k, o) (recipients outs).
Proof. intros H. unfold recipients. apply in_flat_map. exists (FromAction k, o). split; [exact H | now left]. Qed.
Lemma in_changes k o outs : In (Change k, o) outs -> In (k, o) (changes outs).
Proof. intros H. unfold changes. apply in_flat_map. exists (Change k, o). split; [exact H | now left]. Qed.

(* a legally requested vote output: BTM, at least MinVoteOutputAmount, a 64-byte key *)
Definition votes_legal (w : world) (acts : list action) : Prop :=
  forall k o, In (k, o) (requested 0 acts) -> to_kind o = V.KVote ->
    w_vlen w (to_vote o) = 64%Z /\ 100000000 <= to_amount o /\ to_asset o = BTM.

Lemma validates w ordf st acts t st' vm perm c blk size tr avail rounds :
  build w ordf st acts = BOk t st' -> nowrap st ->
  VP.is_order perm -> (0 < size <= V.MaxInt64)%Z -> (tr = 0 \/ V.b_height blk <= tr)%Z ->
  requested 0 acts <> [] ->
  (forall a, a <> BTM -> total (req_in st a) acts = total (req_out a) acts) ->
  votes_legal w acts ->
  (forall u, wallet_utxo st u -> K.uvote u <> 0 -> w_vlen w (K.uvote u) = 64%Z) ->
  (forall a, (in_amt a (tp_ins t) <= V.MaxInt64)%Z) ->
  (* every signer key is available *)
  (forall i, In i (tp_ins t) -> exists q keys,
      w_acct w (ti_acct i) = Some (q, keys) /\ ti_acct i <> 0 /\
      (forall key, In key keys -> avail key = true) /\ (q <= length keys)%nat /\ (q <= rounds)%nat) ->
  (* C02 + the signature scheme: the VM accepts the program of an input whose witness holds a
     full quorum of the account's signatures and the public key / script, using c k gas *)
  (forall k i gl, nth_error (tp_ins t) k = Some i -> witness_complete w avail rounds i = true ->
      (0 <= c k)%Z /\ ((c k <= gl)%Z -> vm k gl = Some (gl - c k)%Z)) ->
  (* the requested fee pays for storage and VM gas *)
  (size + csum c 0 (tp_ins t) <= gas_limit (total (req_in st BTM) acts - total (req_out BTM) acts))%Z ->
  exists g, V.validate VP.real_consts vm perm blk (tx_of w t size tr) = Ok g.
Proof.
  intros H Hnw Hperm Hsize Htr Hreq Hbal Hvotes Hvl Hsup Hkeys Hvm Hgas.
  destruct (balanced w ordf st acts t st' H Hnw) as (R & C & B & D & I).
  pose proof (build_spec w ordf st acts t st' H Hnw) as S.
  destruct S as [_ _ _ _ _ N _ _ _ A]. cbn [b_ins b_outs b_keeper] in *.
  assert (Hcs : (0 <= csum c 0 (tp_ins t))%Z).
  { apply csum_nonneg. intros k Hk. destruct (nth_error (tp_ins t) k) as [i|] eqn:En.
    - destruct (Hkeys i) as (q & keys & K1 & K2 & K3 & K4 & K5); [eapply nth_error_In; eauto|].
      apply (Hvm k i 0%Z En). eapply witness_complete_all; eauto.
    - apply nth_error_None in En. lia. }
  set (fee := (total (req_in st BTM) acts - total (req_out BTM) acts)%Z) in *.
  assert (Hfee : (0 < fee)%Z).
  { destruct (Z.le_gt_cases fee 0) as [Hle|]; [|lia]. exfalso.
    assert (gas_limit fee <= 0)%Z; [|lia]. unfold gas_limit.
    assert (Z.quot fee 200 <= 0)%Z; [|lia]. apply Z.quot_le_upper_bound; lia. }
  apply (validate_ok vm perm c blk (tx_of w t size tr)); auto; cbn [tx_of V.t_version V.t_size V.t_timerange V.t_inputs V.t_outputs].
  - rewrite map_map. cbn [in_of V.i_id]. exact D.
  - apply Forall_forall. intros x Hx. apply in_map_iff in Hx. destruct Hx as (i & <- & Hi).
    split; [unfold V.is_cb, in_of; cbn [V.i_kind]; destruct (ti_veto i); reflexivity|].
    unfold in_of; cbn [V.i_kind V.i_aux]. destruct (ti_veto i) eqn:Ev; [|discriminate]. intros _.
    destruct (I i Hi) as (u & Hu & -> & _). cbn [input_of ti_veto ti_vote] in *.
    apply Hvl; auto. apply negb_true_iff in Ev. now apply N.eqb_neq.
  - intros E. apply map_eq_nil in E. rewrite E in R. cbn in R. congruence.
  - apply Forall_forall. intros x Hx. apply in_map_iff in Hx. destruct Hx as ([og o] & <- & Ho).
    cbn [snd]. intros Hv. unfold V.is_vote in Hv. cbn [out_of V.o_kind] in Hv.
    destruct (to_kind o) eqn:Ek; try discriminate. cbn [out_of V.o_aux V.o_amount V.o_asset]. rewrite Ek.
    destruct og as [k|k].
    + apply in_recipients in Ho. rewrite R in Ho. destruct (Hvotes k o Ho Ek) as (V1 & V2 & V3).
      repeat split; auto. lia.
    + apply in_changes in Ho. destruct (C k o Ho) as (? & ? & ? & ? & ? & _ & _ & Hk & _). congruence.
  - apply Forall_forall. intros x Hx. apply in_map_iff in Hx. destruct Hx as (i & <- & Hi).
    destruct (N i Hi) as (_ & _ & L & _). cbn [in_of V.i_amount]. unfold MaxInt64N in L. unfold V.MaxInt64. lia.
  - apply Forall_forall. intros x Hx. apply in_map_iff in Hx. destruct Hx as (o & <- & Ho).
    destruct (A o Ho) as [A1 A2]. cbn [out_of V.o_amount]. unfold MaxInt64N in A2. unfold V.MaxInt64. lia.
  - intros a. rewrite in_sum_tx_of. apply Hsup.
  - intros a Ha. rewrite in_sum_tx_of, out_sum_tx_of. specialize (B a). specialize (Hbal a Ha). lia.
  - rewrite in_sum_tx_of, out_sum_tx_of. specialize (B BTM). change V.BTM with BTM. lia.
  - intros k gl Hk. rewrite map_length in Hk. destruct (nth_error (tp_ins t) k) as [i|] eqn:En.
    + destruct (Hkeys i) as (q & keys & K1 & K2 & K3 & K4 & K5); [eapply nth_error_In; eauto|].
      apply (Hvm k i gl En). eapply witness_complete_all; eauto.
    + apply nth_error_None in En. lia.
  - rewrite csum_map, in_sum_tx_of, out_sum_tx_of. specialize (B BTM). change V.BTM with BTM.
    replace (in_amt BTM (tp_ins t) - out_amt BTM (tp_outs t))%Z with fee by lia. exact Hgas.
Qed.

(* ---- the hypotheses are satisfiable: a concrete wallet, request and transaction ------------------- *)
Definition ex_world : world :=
  mkW (fun i => if i =? 1 then 11 else 12)
      (fun p => if (p =? 11) || (p =? 12) then Some 1 else None)
      (fun a => if a =? 1 then Some (1%nat, [1]) else None)
      (fun _ => 64%Z).
Definition ex_state : K.state :=
  K.init_state [K.mkU 1 1 0 0 1000000000 0; K.mkU 2 1 2 0 70 0] [] [] 100.
Definition ex_acts : list action :=
  [ASpend 1 0 600000000 false; AControl 0 500000000 (RAddr 21); ASpend 1 2 50 false; ARetire 2 50 30].
Definition ex_ordf (k : nat) : list N := match k with O => [1] | _ => [2] end.

Example ex_build :
  exists t st', build ex_world ex_ordf ex_state ex_acts = BOk t st' /\
    map ti_out (tp_ins t) = [1; 2] /\ tp_fee t = 100000000%Z /\
    changes (tp_outs t) = [(0%nat, mkTO V.KOrig 0 400000000 11 0); (2%nat, mkTO V.KOrig 2 20 12 0)].
Proof. eexists. eexists. split; [vm_compute; reflexivity|]. repeat split. Qed.

Example ex_nowrap : nowrap ex_state.
Proof.
  intros acct asset uu vote.
  assert (forall l, (forall u, In u l -> In u [K.mkU 1 1 0 0 1000000000 0; K.mkU 2 1 2 0 70 0]) ->
                    NoDup (map K.uid l) -> KP.sumN l < K.two64) as G.
  { intros l Hl Hnd.
    assert (KP.sumN l <= 1000000000 + 70); [|unfold K.two64; lia].
    destruct l as [|x [|y [|z l]]]; cbn [KP.sumN].
    - lia.
    - destruct (Hl x (or_introl eq_refl)) as [<-|[<-|[]]]; cbn; lia.
    - inversion Hnd as [|? ? Hx _]; subst.
      destruct (Hl x (or_introl eq_refl)) as [<-|[<-|[]]];
        destruct (Hl y (or_intror (or_introl eq_refl))) as [<-|[<-|[]]]; cbn in *; try lia; exfalso; apply Hx; now left.
    - exfalso. inversion Hnd as [|? ? Hx Hnd1]; subst. inversion Hnd1 as [|? ? Hy Hnd2]; subst.
      inversion Hnd2 as [|? ? Hz _]; subst. cbn [map In] in *.
      destruct (Hl x (or_introl eq_refl)) as [<-|[<-|[]]];
        destruct (Hl y (or_intror (or_introl eq_refl))) as [<-|[<-|[]]];
        destruct (Hl z (or_intror (or_intror (or_introl eq_refl)))) as [<-|[<-|[]]]; cbn in *; tauto. }
  apply G.
  - intros u Hu. apply KR.funds_In in Hu. destruct Hu as [Hu _].
    unfold KP.sources, ex_state, K.init_state in Hu. cbn [K.confirmed K.unconf] in Hu.
    destruct uu; rewrite app_nil_r in Hu; exact Hu.
  - apply KR.funds_nodup.
Qed.

(* the concrete transaction of the example, and the hypotheses of [validates] on it *)
Definition ex_t : template :=
  Eval vm_compute in
    match build ex_world ex_ordf ex_state ex_acts with BOk t _ => t | _ => mkT [] [] 0%Z end.
Definition ex_st' : K.state :=
  Eval vm_compute in
    match build ex_world ex_ordf ex_state ex_acts with BOk _ s => s | _ => ex_state end.
Lemma ex_build_eq : build ex_world ex_ordf ex_state ex_acts = BOk ex_t ex_st'.
Proof. vm_compute. reflexivity. Qed.

Definition ex_vm (_ : nat) (gl : Z) : option Z := if (1500 <=? gl)%Z then Some (gl - 1500)%Z else None.

Example ex_validates :
  exists g, V.validate VP.real_consts ex_vm (fun m => m) (V.mkB 1 60 false) (tx_of ex_world ex_t 400 0) = Ok g.
Proof.
  apply (validates ex_world ex_ordf ex_state ex_acts ex_t ex_st' ex_vm (fun m => m) (fun _ => 1500%Z)
                   (V.mkB 1 60 false) 400%Z 0%Z (fun _ => true) 1%nat).
  - exact ex_build_eq.
  - exact ex_nowrap.
  - intros m. apply Permutation_refl.
  - unfold V.MaxInt64. lia.
  - now left.
  - discriminate.
  - intros a Ha. unfold ex_acts. cbn [total fold_right req_in req_out].
    destruct (2 =? a) eqn:E2; destruct (0 =? a) eqn:E0; try lia.
    apply N.eqb_eq in E0. unfold BTM in Ha. congruence.
  - intros k o Hk Hv. cbn in Hk. destruct Hk as [E|[E|[]]]; inversion E; subst; discriminate.
  - intros u Hu Hv. unfold wallet_utxo, ex_state, K.init_state in Hu. cbn [K.confirmed K.contract K.unconf] in Hu.
    destruct Hu as [[<-|[<-|[]]]|[[]|[]]]; cbn in Hv; congruence.
  - intros a. unfold ex_t. cbn [tp_ins in_amt fold_right ti_asset ti_amount].
    unfold V.MaxInt64. destruct (0 =? a); destruct (2 =? a); lia.
  - intros i Hi. exists 1%nat, [1]. unfold ex_t in Hi. cbn [tp_ins] in Hi.
    destruct Hi as [<-|[<-|[]]]; cbn; repeat split; auto; discriminate.
  - intros k i gl _ _. split; [lia|]. intros Hc. unfold ex_vm.
    assert ((1500 <=? gl)%Z = true) by (apply Z.leb_le; lia). now rewrite H.
  - vm_compute. discriminate.
Qed.

(* ---- through MergeSpendAction: the wallet's build --------------------------------------------------- *)
Lemma wallet_pays w ordf st acts t st' :
  wallet_build w ordf st acts = BOk t st' -> nowrap st -> spend_total acts < K.two64 ->
  map snd (recipients (tp_outs t)) = reqs acts /\
  (forall a, (in_amt a (tp_ins t) - out_amt a (tp_outs t) =
              total (req_in st a) acts - total (req_out a) acts)%Z) /\
  NoDup (map ti_out (tp_ins t)).
Proof.
  unfold wallet_build. intros H Hnw Hsp.
  destruct (balanced w ordf st (merge acts) t st' H Hnw) as (R & _ & B & D & _).
  destruct (merge_spec st acts Hsp) as (M1 & M2 & M3).
  split; [rewrite R, requested_reqs; exact M3|]. split; [|exact D].
  intros a. rewrite B, M1, M2. reflexivity.
Qed.
