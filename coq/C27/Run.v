(* C27 — helpers used by the generated case files (correspondence).

   A case: the wallet's tables (association lists), the keeper's DB / unconfirmed map /
   height, the decoded action list (before MergeSpendAction), the signing keys the
   signer holds and the number of Sign calls, and what the harness measured on the
   signed transaction for the validation step (serialized size, per-input VM cost) with
   the block (height) and the time range.  The result is a list of rows of integers:
     [tag]            0 built, 1 build error, 2 panic, 3 (model only) bad sort order
     errs             error classes of the failing actions, in order
     [fee]            Template.Fee
     reserved         output ids reserved after Build, sorted
     [verdict]        ValidateTx on the signed transaction: 0 valid, 1 overflow, 2 no source,
                      3 unbalanced or gas calculation, 4 other, 5 panic, 9 depends on map order
     100 :: input     veto?, asset, amount, output id, program, vote
     200 :: output    kind (0 original, 1 retirement, 2 vote), asset, amount, program, vote
     300 :: witness   signatures, data item present
   The sort order inside Reserve is the descending order by amount of the candidates
   (the harness keeps amounts distinct within one (account, asset, vote) group). *)
From Coq Require Import List ZArith NArith Bool.
From Verif Require Import Outcome Cmp.
From C26 Require Model.
From C01 Require Model.
From C27 Require Import Model.
Import ListNotations.
Open Scope N_scope.

Definition U := K.mkU.

Fixpoint lookupN {A} (k : N) (l : list (N * A)) : option A :=
  match l with
  | [] => None
  | (k', v) :: l' => if k' =? k then Some v else lookupN k l'
  end.

Definition mkworld (progs owners : list (N * N)) (accts : list (N * (nat * list N)))
           (vlens : list (N * Z)) : world :=
  mkW (fun i => match lookupN i progs with Some p => p | None => 0 end)
      (fun p => lookupN p owners)
      (fun a => lookupN a accts)
      (fun v => match lookupN v vlens with Some z => z | None => 0%Z end).

(* descending insertion sort by amount *)
Fixpoint ins_desc (u : K.utxo) (l : list K.utxo) : list K.utxo :=
  match l with
  | [] => [u]
  | v :: l' => if K.uamt v <=? K.uamt u then u :: l else v :: ins_desc u l'
  end.
Definition sort_desc (l : list K.utxo) : list K.utxo := fold_right ins_desc [] l.

Definition auto_ordf (st : K.state) (acts : list action) (k : nat) : list N :=
  match nth_error acts k with
  | Some (ASpend acct asset _ uu) => map K.uid (sort_desc (fst (K.find_utxos true st acct asset uu 0)))
  | Some (AVeto acct asset _ vote uu) => map K.uid (sort_desc (fst (K.find_utxos true st acct asset uu vote)))
  | _ => []
  end.

Fixpoint insN (x : N) (l : list N) : list N :=
  match l with
  | [] => [x]
  | y :: l' => if x <=? y then x :: l else y :: insN x l'
  end.
Definition sortN (l : list N) : list N := fold_right insN [] l.

Definition berr_code (e : berr) : Z :=
  match e with
  | EMissing => 1 | EFindAccount => 2 | EInsufficient => 3 | EImmature => 4 | EReserved => 5
  | EMatchUTXO => 6 | EBadAmount => 7 | EAddress => 8
  end%Z.

Definition kind_code (k : V.okind) : Z :=
  match k with V.KOrig => 0 | V.KRetire => 1 | V.KVote => 2 end%Z.

Definition b2z (b : bool) : Z := if b then 1%Z else 0%Z.

Definition in_row (i : tin) : list Z :=
  [100%Z; b2z (ti_veto i); Z.of_N (ti_asset i); Z.of_N (ti_amount i); Z.of_N (ti_out i);
   Z.of_N (ti_prog i); Z.of_N (ti_vote i)].
Definition out_row (o : origin * tout) : list Z :=
  [200%Z; kind_code (to_kind (snd o));
   Z.of_N (to_asset (snd o)); Z.of_N (to_amount (snd o)); Z.of_N (to_prog (snd o)); Z.of_N (to_vote (snd o))].
Definition wit_row (x : nat * bool) : list Z := [300%Z; Z.of_nat (fst x); b2z (snd x)].

Definition real_consts : V.consts := V.mkC 200 300000 1 100000000 128.

Definition vm_of (w : world) (avail : N -> bool) (rounds : nat) (ins : list tin) (costs : list Z)
           (idx : nat) (gasl : Z) : option Z :=
  match nth_error ins idx, nth_error costs idx with
  | Some i, Some c =>
    if witness_complete w avail rounds i && (c <=? gasl)%Z then Some (gasl - c)%Z else None
  | _, _ => None
  end.

Definition verdict_code (r : V.res) : Z :=
  match r with
  | Ok _ => 0
  | Err V.EOverflow => 1
  | Err V.ENoSource => 2
  | Err V.EUnbalanced => 3
  | Err V.EGasCalc => 3
  | Err V.EOther => 4
  | Panic _ => 5
  end%Z.

Definition cres : Type := list (list Z).
Definition cres_eqb : cres -> cres -> bool := list_eqb (list_eqb Z.eqb).

Definition run_case (progs owners : list (N * N)) (accts : list (N * (nat * list N)))
           (vlens : list (N * Z)) (conf unc : list K.utxo) (h : N) (acts : list action)
           (keys : list N) (rounds : nat) (size timerange bheight : Z) (costs : list Z) : cres :=
  let w := mkworld progs owners accts vlens in
  let st := K.init_state conf [] unc h in
  let macts := merge acts in
  match build w (auto_ordf st macts) st macts with
  | BPanic => [[2%Z]]
  | BBadOrder => [[3%Z]]
  | BErr errs st' =>
    [[1%Z]; map berr_code errs; [0%Z]; map Z.of_N (sortN (map fst (K.reserved st'))); [0%Z]]
  | BOk t st' =>
    let avail := fun key => K.memN key keys in
    let vm := vm_of w avail rounds (tp_ins t) costs in
    let b := V.mkB 1 bheight false in
    let x := tx_of w t size timerange in
    let v1 := verdict_code (V.validate real_consts vm (fun m => m) b x) in
    let v2 := verdict_code (V.validate real_consts vm (@rev _) b x) in
    [[0%Z]; []; [tp_fee t]; map Z.of_N (sortN (map fst (K.reserved st')));
     [if Z.eqb v1 v2 then v1 else 9%Z]]
      ++ map in_row (tp_ins t) ++ map out_row (tp_outs t)
      ++ map (fun i => wit_row (witness_of w avail rounds i)) (tp_ins t)
  end.
