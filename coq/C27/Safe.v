(* C27 — Build does not panic: with amounts that do not wrap (C26's side condition), no
   action dereferences an empty selection (the veto action rejects amount 0 like the spend
   action does), so txbuilder.Build returns a template or an error list. *)
From Coq Require Import List ZArith NArith Bool Lia.
From Coq Require Import ZifyBool ZifyN ZifyNat.
From Verif Require Import Outcome GoInt.
From C26 Require Model Proofs Reserve.
From C27 Require Import Model Proofs.
Import ListNotations.
Open Scope N_scope.

Definition step_safe (b : bst) (r : step_res) : Prop :=
  match r with
  | SOk b' => env_eq (b_keeper b) (b_keeper b')
  | SErr _ b' => env_eq (b_keeper b) (b_keeper b')
  | SPanic => False
  | SBadOrder => True
  end.

Lemma add_inputs_no_panic w : forall us ins p, add_inputs w us ins <> Panic p.
Proof.
  induction us as [|u us IH]; intros ins p; cbn [add_inputs]; [discriminate|].
  destruct (MaxInt64N <? K.uamt u); [discriminate | apply IH].
Qed.

Lemma add_output_no_panic o outs p : add_output o outs <> Panic p.
Proof. unfold add_output. destruct (MaxInt64N <? to_amount (snd o)); discriminate. Qed.

Lemma spend_like_safe w ord k b acct asset amount vote uu :
  nowrap (b_keeper b) -> step_safe b (spend_like w ord k b acct asset amount vote uu).
Proof.
  intros Hnw. unfold spend_like.
  destruct ((acct =? 0) || (asset =? NOASSET) || (amount =? 0)) eqn:Em; [apply env_eq_refl|].
  apply orb_false_elim in Em. destruct Em as [_ Eam]. apply N.eqb_neq in Eam.
  destruct (w_acct w acct); [|apply env_eq_refl].
  pose proof (KR.reserve_analysis (b_keeper b) acct asset amount uu vote 0%Z ord
                (Hnw acct asset uu vote)) as HA.
  destruct (K.reserve true (b_keeper b) acct asset amount uu vote 0%Z ord) as [st' [|id us change|e|pp|]];
    cbn [step_safe]; try apply env_eq_refl; try tauto.
  - destruct HA as (_ & _ & _ & Hsum & Hch & _ & Hst').
    assert (Henv : env_eq (b_keeper b) st') by (rewrite Hst'; apply env_set_reservation).
    unfold fund. destruct (add_inputs w us (b_ins b)) as [ins|e1|p1] eqn:Ei; cbn [step_safe b_keeper]; auto.
    + destruct (0 <? change) eqn:Ec; cbn [step_safe b_keeper]; auto.
      destruct us as [|u0 us']; [cbn [KP.sumN] in *; lia|].
      destruct (add_output _ _) as [outs|e2|p2] eqn:Eo; cbn [step_safe b_keeper]; auto.
      exact (add_output_no_panic _ _ _ Eo).
    + exact (add_inputs_no_panic _ _ _ _ Ei).
Qed.

Lemma out_action_safe k b kind asset amount r vote vm : step_safe b (out_action k b kind asset amount r vote vm).
Proof.
  unfold out_action. destruct (_ || _ || _ || _); [apply env_eq_refl|].
  destruct (recipient_prog r) as [p0|e0|p3] eqn:Ep; cbn [step_safe]; try apply env_eq_refl.
  - destruct (add_output _ _) as [outs|e2|p2] eqn:Eo; cbn [step_safe b_keeper]; try apply env_eq_refl.
    exact (add_output_no_panic _ _ _ Eo).
  - destruct r as [q| | |q]; cbn in Ep; try discriminate. destruct (q =? 0); discriminate.
Qed.

Lemma act_build_safe w ord k b a : nowrap (b_keeper b) -> step_safe b (act_build w ord k b a).
Proof.
  intros Hnw. destruct a as [acct asset amount uu | [out|] uu | acct asset amount vote uu
                             | asset amount r | asset amount p | asset amount r vote]; cbn [act_build].
  - now apply spend_like_safe.
  - pose proof (KR.reserve_particular_analysis (b_keeper b) out uu 0%Z) as HA.
    destruct (K.reserve_particular (b_keeper b) out uu 0%Z) as [st' [|id us change|e|pp|]];
      cbn [step_safe]; try apply env_eq_refl; try tauto.
    destruct HA as (u & -> & _ & _ & _ & _ & _ & _ & Hst').
    assert (Henv : env_eq (b_keeper b) st') by (rewrite Hst'; apply env_set_reservation).
    destruct (negb (K.uacct u =? 0) && _); cbn [step_safe b_keeper]; auto.
    destruct (add_inputs w [u] (b_ins b)) as [ins|e1|p1] eqn:Ei; cbn [step_safe b_keeper]; auto.
    exact (add_inputs_no_panic _ _ _ _ Ei).
  - apply env_eq_refl.
  - now apply spend_like_safe.
  - apply out_action_safe.
  - destruct ((asset =? NOASSET) || (amount =? 0)); [apply env_eq_refl|].
    destruct (add_output _ _) as [outs|e2|p2] eqn:Eo; cbn [step_safe b_keeper]; try apply env_eq_refl.
    exact (add_output_no_panic _ _ _ Eo).
  - apply out_action_safe.
Qed.

Lemma run_actions_no_panic w ordf : forall acts k b errs,
  nowrap (b_keeper b) -> run_actions w ordf k acts b errs <> LPanic.
Proof.
  induction acts as [|a acts IH]; intros k b errs Hnw; cbn [run_actions]; [discriminate|].
  pose proof (act_build_safe w (ordf k) k b a Hnw) as Hs.
  destruct (act_build w (ordf k) k b a) as [b'|e b'| |]; cbn [step_safe] in Hs; try discriminate; try tauto.
  - apply IH. eapply nowrap_env; eauto.
  - apply IH. eapply nowrap_env; eauto.
Qed.

Lemma build_no_panic w ordf st acts : nowrap st -> build w ordf st acts <> BPanic.
Proof.
  intros Hnw. unfold build.
  pose proof (run_actions_no_panic w ordf acts 0 (mkB st [] [] []) [] Hnw) as H.
  destruct (run_actions w ordf 0 acts (mkB st [] [] []) []) as [b errs| |]; try congruence.
  destruct errs; discriminate.
Qed.
