(* C10 — concrete histories: the hypotheses of the theorems are satisfiable by
   non-trivial histories, and the full statement fails on the pinned code
   (witnesses evaluated by vm_compute on the faithful model). *)
From Coq Require Import List NArith Bool Lia.
From Verif Require Import Outcome.
From C10 Require Import Model Maps Utxo Sim Contracts Proofs Final.
Import ListNotations.
Open Scope N_scope.

(* ------------------------------------------------------------------ the full statement *)

(* Every history whose adopted chains have unique ids (no other restriction):
   the persisted state shows the spendable outputs, constraints and contracts
   of a fresh node fed the main chain, and any further change of the main chain
   is accepted by the one iff by the other. *)
Definition c10_full : Prop :=
  forall P g steps st0,
    init P g = Ok st0 -> wf_chain true P (chain st0) -> hist (step_wf P) P st0 steps ->
    exists st_r,
      replay P (chain (run P st0 steps)) = Ok st_r /\
      agree true (run P st0 steps) st_r /\
      (forall s, step_wf P (run P st0 steps) s ->
         snd (do_step P (run P st0 steps) s) = snd (do_step P st_r s)).

(* ------------------------------------------------------------------ evaluated states *)

Definition s1 := Eval vm_compute in fst (do_step P0 st_g0 (Reorg 0 [b1])).
Definition s2 := Eval vm_compute in fst (do_step P0 s1 (Reorg 0 [b2])).
Definition s3 := Eval vm_compute in fst (do_step P0 s2 (Reorg 0 [b3])).
Definition s4 := Eval vm_compute in fst (do_step P0 s3 (Reorg 0 [b4x])).
Definition s5 := Eval vm_compute in fst (do_step P0 s4 (Reorg 3 [y2; y3; y4; y5])).

Lemma e0 : init P0 g0 = Ok st_g0. Proof. vm_compute. reflexivity. Qed.
Lemma e1 : do_step P0 st_g0 (Reorg 0 [b1]) = (s1, true). Proof. vm_compute. reflexivity. Qed.
Lemma e2 : do_step P0 s1 (Reorg 0 [b2]) = (s2, true). Proof. vm_compute. reflexivity. Qed.
Lemma e3 : do_step P0 s2 (Reorg 0 [b3]) = (s3, true). Proof. vm_compute. reflexivity. Qed.
Lemma e4 : do_step P0 s3 (Reorg 0 [b4x]) = (s4, true). Proof. vm_compute. reflexivity. Qed.
Lemma e5 : do_step P0 s4 (Reorg 3 [y2; y3; y4; y5]) = (s5, true). Proof. vm_compute. reflexivity. Qed.

Lemma run_xy : run P0 st_g0 hist_xy = s5.
Proof. unfold hist_xy, hist_x. cbn [app run]. rewrite e1; cbn [fst]. rewrite e2; cbn [fst]. rewrite e3; cbn [fst]. rewrite e4; cbn [fst]. rewrite e5. reflexivity. Qed.

Ltac keeps_tac := cbn; lia.
Ltac swf lem := split; [keeps_tac | intros _; apply lem].
Ltac swk lem := split; [keeps_tac | split; [vm_compute; reflexivity | apply lem]].

Lemma wf_g : forall sb, wf_chain sb P0 (chain st_g0).
Proof. intros sb. destruct sb; wfc. Qed.

Lemma wf1 sb : wf_chain sb P0 (chain s1). Proof. destruct sb; wfc. Qed.
Lemma wf2 sb : wf_chain sb P0 (chain s2). Proof. destruct sb; wfc. Qed.
Lemma wf3 sb : wf_chain sb P0 (chain s3). Proof. destruct sb; wfc. Qed.
Lemma wf4 sb : wf_chain sb P0 (chain s4). Proof. destruct sb; wfc. Qed.
Lemma wf5 sb : wf_chain sb P0 (chain s5). Proof. destruct sb; wfc. Qed.

(* the history with the reorganisation that un-spends the vetoed vote output
   meets the unrestricted hypotheses ... *)
Lemma hist_xy_wf : hist (step_wf P0) P0 st_g0 hist_xy.
Proof.
  unfold hist_xy, hist_x. cbn [app hist].
  rewrite e1; cbn [fst]. rewrite e2; cbn [fst]. rewrite e3; cbn [fst]. rewrite e4; cbn [fst].
  split; [swf (wf1 true)|]. split; [swf (wf2 true)|]. split; [swf (wf3 true)|]. split; [swf (wf4 true)|].
  split; [swf (wf5 true) | exact I].
Qed.

(* ... and the hypotheses of the weak reading: every target chain is valid *)
Example hist_xy_weak : hist_ok false P0 st_g0 hist_xy.
Proof.
  unfold hist_ok, hist_xy, hist_x. cbn [app hist].
  rewrite e1; cbn [fst]. rewrite e2; cbn [fst]. rewrite e3; cbn [fst]. rewrite e4; cbn [fst]. unfold step_ok, step_weak.
  split; [swk (wf1 false)|]. split; [swk (wf2 false)|]. split; [swk (wf3 false)|]. split; [swk (wf4 false)|].
  split; [swk (wf5 false) | exact I].
Qed.

(* a guarded history with a real reorganisation (block 2 is replaced by y2, y3
   after block 1 created a vote output, spent a coinbase output and registered
   a contract): the hypotheses of the strict reading are satisfiable *)
Definition hist_s : list step := [Reorg 0 [b1]; Reorg 0 [b2]; Reorg 1 [y2; y3]].
Definition s3' := Eval vm_compute in fst (do_step P0 s2 (Reorg 1 [y2; y3])).
Lemma e3' : do_step P0 s2 (Reorg 1 [y2; y3]) = (s3', true). Proof. vm_compute. reflexivity. Qed.
Lemma wf3' sb : wf_chain sb P0 (chain s3'). Proof. destruct sb; wfc. Qed.

Example hist_s_strict : hist_ok true P0 st_g0 hist_s.
Proof.
  unfold hist_ok, hist_s. cbn [hist]. rewrite e1; cbn [fst]. rewrite e2; cbn [fst]. unfold step_ok, step_wf, step_guard.
  split; [split; [swf (wf1 true) | vm_compute; reflexivity]|].
  split; [split; [swf (wf2 true) | vm_compute; reflexivity]|].
  split; [split; [swf (wf3' true) | vm_compute; reflexivity] | exact I].
Qed.

(* ------------------------------------------------------------------ refutation *)

Definition s5r := Eval vm_compute in
  match replay P0 (chain s5) with Ok s => s | _ => mkS [] [] [] end.
Lemma e5r : replay P0 (chain s5) = Ok s5r. Proof. vm_compute. reflexivity. Qed.

(* the vote output 2, created at height 1: the reorganised node holds it with
   height 0, the fresh node with height 1 *)
Lemma vote_height_differs :
  cons true (uget (udb s5) (2, KVote)) = Some (TVote, Some 0) /\
  cons true (uget (udb s5r) (2, KVote)) = Some (TVote, Some 1).
Proof. split; vm_compute; reflexivity. Qed.

Theorem refuted_vote_height : ~ c10_full.
Proof.
  intros H. destruct (H P0 g0 hist_xy st_g0 e0 (wf_g true) hist_xy_wf) as [st_r [Hr [[_ [Hc _]] _]]].
  rewrite run_xy in Hr, Hc. rewrite e5r in Hr. inversion Hr; subst st_r.
  specialize (Hc (2, KVote)). destruct vote_height_differs as [H1 H2]. rewrite H1, H2 in Hc. discriminate.
Qed.

(* acceptance depends on the forks seen: branch Z (veto at height 3, one block
   before the lock of the vote output ends) is adopted by the reorganised node
   and refused by the fresh node with the same main chain *)
Theorem refuted_acceptance :
  exists P g steps st0 st_r s,
    init P g = Ok st0 /\ wf_chain true P (chain st0) /\ hist (step_wf P) P st0 steps /\
    replay P (chain (run P st0 steps)) = Ok st_r /\
    keeps (run P st0 steps) s /\ wf_chain true P (target (run P st0 steps) s) /\
    snd (do_step P (run P st0 steps) s) = true /\ snd (do_step P st_r s) = false.
Proof.
  exists P0, g0, hist_xy, st_g0, s5r, probe_z.
  split; [exact e0|]. split; [exact (wf_g true)|]. split; [exact hist_xy_wf|].
  rewrite run_xy. split; [exact e5r|]. split; [cbn; lia|]. split; [wfc|].
  split; vm_compute; reflexivity.
Qed.
