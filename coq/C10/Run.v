(* C10 — helpers used by the generated case files.

   A case: the genesis block and the trunk (given once in the header of the case
   file), then one entry per block delivery: [DNone] when the node's best block
   did not change and no reorganisation was attempted, [DStep k news] when the
   node went (or, for a rejected probe, tried to go) from its main chain to the
   chain obtained by detaching the top k blocks and attaching [news].  After every
   delivery the projection compared with the implementation is: whether the
   reorganisation succeeded, store.GetUtxo of every tracked output id (type code
   0 normal / 1 coinbase / 2 vote, height, spent) and the registering transaction
   stored under every tracked contract hash.  [None] = the model could not even
   start the chain (never produced for a well-formed case). *)
From Coq Require Import List NArith Bool.
From Verif Require Import Outcome Cmp.
From C10 Require Import Model.
Import ListNotations.
Open Scope N_scope.

(* consensus.CoinbasePendingBlockNumber = 10; chainlib sets the vote lock to 3 blocks *)
Definition PR : params := mkP 10 (fun _ => 3).

Inductive deliv := DNone | DStep (k : nat) (news : list block).

Definition oent := option (N * N * bool).

Definition tcode (t : utyp) : N := match t with TNormal => 0 | TCoinbase => 1 | TVote => 2 end.

Definition proj_e (eo : option entry) : oent :=
  match eo with Some e => Some (tcode (e_typ e), e_height e, e_spent e) | None => None end.

Definition obs := (bool * list oent * list (option N))%type.

Definition dump (st : state) (outs : list outid) (hs : list N) : list oent * list (option N) :=
  (map (fun o => proj_e (uget (udb st) o)) outs, map (cget (cdb st)) hs).

Fixpoint deliver (st : state) (ds : list deliv) (outs : list outid) (hs : list N) : list obs :=
  match ds with
  | [] => []
  | DNone :: r => (true, fst (dump st outs hs), snd (dump st outs hs)) :: deliver st r outs hs
  | DStep k news :: r =>
    let (st', ok) := do_step PR st (Reorg k news) in
    (ok, fst (dump st' outs hs), snd (dump st' outs hs)) :: deliver st' r outs hs
  end.

Definition run_case (g : block) (trunk : list block) (ds : list deliv)
           (outs : list outid) (hs : list N) : option (list obs) :=
  match init PR g with
  | Ok st0 =>
    match extend PR st0 trunk with
    | Ok st => Some (deliver st ds outs hs)
    | _ => None
    end
  | _ => None
  end.

Definition oent_eqb : oent -> oent -> bool :=
  option_eqb (pair_eqb (pair_eqb N.eqb N.eqb) Bool.eqb).

Definition obs_eqb : obs -> obs -> bool :=
  pair_eqb (pair_eqb Bool.eqb (list_eqb oent_eqb)) (list_eqb (option_eqb N.eqb)).

Definition cres := option (list obs).
Definition cres_eqb : cres -> cres -> bool := option_eqb (list_eqb obs_eqb).
