(* C10 — ledger state depends only on the main chain, not on reorg history.
   PROPERTY THEOREMS ONLY.

   Model (C10/Model.v): a node state is (main chain, utxo database, contract
   table).  [do_step P st (Reorg k news)] is reorganizeChain: the top k blocks of
   the main chain are detached (tip first) and the blocks [news] attached (bottom
   up) through ONE lazily loaded utxo view and ONE contract view, saved in one
   batch; when any block fails nothing is written and the step returns false.
   A plain extension is [Reorg 0 [b]].  [run] folds a history of such steps,
   [init] is initChainStatus, [replay P c] is a FRESH node fed exactly the blocks
   of [c] in order.  Blocks, transactions, output ids, contract hashes are
   arbitrary (labels); histories are arbitrary lists of steps of any length.

   What is compared, for every output id [o] and contract hash [h]:
     cons sb (uget (udb st) o)  spendable or not; if spendable its utxo type and
                                the height applySpendUtxo reads for it: coinbase
                                maturity, and (sb = true) the vote lock height;
     cget (cdb st) h            the registering transaction of contract h;
     snd (do_step P st s)       whether a further change of the main chain is accepted.

   Hypotheses (C10/Proofs.v):
     keeps             the genesis block is never detached;
     wf_chain _ P c    ids are unique along the chain c: every output id is created
                       once, every transaction id occurs once (they are hashes);
                       in the weak reading also: BlockHeight + vote lock < 2^64;
     step_wf           keeps, and the chain a successful step adopts is wf_chain;
     step_guard        DECIDABLE GUARD: no detached block spends (vetoes) a vote output;
     step_weak         keeps, the target chain is wf_chain and valid for a fresh
                       node (is_ok (spec P target) - what "built from valid blocks" means).
   Examples hist_s_strict / hist_xy_weak (C10/History.v): the hypotheses hold for
   histories with real reorganisations, spends, a coinbase spend, a vote, a veto
   and a contract registration.

   Outcome on the pinned code: the full statement c10_full is REFUTED
   (known finding C10-vote-utxo-height-lost): a vote output spent by a veto and
   un-spent by a reorganisation is re-created with height 0. *)
From Coq Require Import List NArith Bool.
From Verif Require Import Outcome.
From C10 Require Import Model Maps Utxo Sim Contracts Proofs Final History.
Import ListNotations.

(* The set of spendable outputs, their types and coinbase maturity heights, for
   EVERY history of reorganisations between valid chains: equal to the fresh
   node's.  (Vote lock heights are the refuted part, see below.) *)
Theorem c10_utxo_set :
  forall P g steps st0,
    init P g = Ok st0 -> wf_chain false P (chain st0) -> hist_ok false P st0 steps ->
    exists st_r,
      replay P (chain (run P st0 steps)) = Ok st_r /\
      chain st_r = chain (run P st0 steps) /\
      (forall o, cons false (uget (udb (run P st0 steps)) o) = cons false (uget (udb st_r) o)) /\
      (forall h, cget (cdb (run P st0 steps)) h = cget (cdb st_r) h /\
                 cget (cdb st_r) h = ctab (chain (run P st0 steps)) h).
Proof. exact weak_statement. Qed.
Print Assumptions c10_utxo_set.

(* The registered-contract table after every such history is the fresh node's,
   which is "the first registering transaction on the main chain" [ctab]. *)
Theorem c10_contracts :
  forall P g steps st0,
    init P g = Ok st0 -> wf_chain false P (chain st0) -> hist_ok false P st0 steps ->
    forall h, cget (cdb (run P st0 steps)) h = ctab (chain (run P st0 steps)) h.
Proof. exact contracts_statement. Qed.
Print Assumptions c10_contracts.

(* A change of the main chain to a chain that a fresh node accepts is never
   refused because of the forks seen before (one direction of "acceptance"). *)
Theorem c10_acceptance_partial :
  forall P g steps s st0,
    init P g = Ok st0 -> wf_chain false P (chain st0) -> hist_ok false P st0 (steps ++ [s]) ->
    snd (do_step P (run P st0 steps) s) = true.
Proof. exact weak_steps_succeed. Qed.
Print Assumptions c10_acceptance_partial.

(* The full statement fails on the pinned code: concrete history (C10/History.v:
   vote output created at height 1, vetoed at height 4 on branch X, branch Y
   forking below the veto wins) - the persisted vote lock height is 0, a fresh
   node's is 1. *)
Theorem c10_refuted_vote_height : ~ c10_full.
Proof. exact refuted_vote_height. Qed.
Print Assumptions c10_refuted_vote_height.

(* ... and acceptance then depends on the forks seen: a branch vetoing that vote
   output one block before its lock ends is adopted by the node with the history
   and refused by a fresh node with the same main chain. *)
Theorem c10_refuted_acceptance :
  exists P g steps st0 st_r s,
    init P g = Ok st0 /\ wf_chain true P (chain st0) /\ hist (step_wf P) P st0 steps /\
    replay P (chain (run P st0 steps)) = Ok st_r /\
    keeps (run P st0 steps) s /\ wf_chain true P (target (run P st0 steps) s) /\
    snd (do_step P (run P st0 steps) s) = true /\ snd (do_step P st_r s) = false.
Proof. exact refuted_acceptance. Qed.
Print Assumptions c10_refuted_acceptance.

(* Outside the defect class the FULL statement holds, for every history
   (valid or invalid blocks, failing steps included): spendable set, all
   constraints including the vote lock height, contract table, and acceptance of
   any further guarded step.  This is c10_full with the guard added. *)
Theorem c10_holds_outside :
  forall P g steps st0,
    init P g = Ok st0 -> wf_chain true P (chain st0) ->
    hist (step_wf P) P st0 steps -> hist (fun st s => step_guard st s) P st0 steps ->
    exists st_r,
      replay P (chain (run P st0 steps)) = Ok st_r /\
      agree true (run P st0 steps) st_r /\
      (forall s, step_guard (run P st0 steps) s ->
         snd (do_step P (run P st0 steps) s) = snd (do_step P st_r s)).
Proof. exact strict_statement. Qed.
Print Assumptions c10_holds_outside.

(* The inductive invariant behind all of it, one step: the persisted utxo map
   stays related ([R]) to the map obtained by applying the main chain from
   genesis, and the contract table stays [ctab] of the main chain. *)
Theorem c10_step_invariant :
  forall sb P st s,
    Inv sb P st -> wf_chain sb P (chain st) -> step_ok sb P st s ->
    Inv sb P (fst (do_step P st s)) /\ wf_chain sb P (chain (fst (do_step P st s))).
Proof. exact step_inv. Qed.
Print Assumptions c10_step_invariant.
