(* C10 — ledger state depends only on the main chain.  EXECUTABLE MODEL, no proofs.

   Mirrors
     protocol/state/utxo_view.go      applySpendUtxo / applyOutputUtxo / ApplyBlock,
                                      detachSpendUtxo / detachOutputUtxo / DetachBlock
     database/utxo_view.go            getTransactionsUtxo (load), saveUtxoView (save)
     protocol/state/contract_view.go  ContractViewpoint.ApplyBlock / DetachBlock
     database/contract_view.go        deleteContractView, saveContractView
     database/store.go                SaveChainStatus (one batch: utxo ops, contract
                                      deletes, then contract sets; the contract loops
                                      read the PRE-batch database)
     protocol/block.go                reorganizeChain (one utxo view and one contract
                                      view across all detaches and attaches, one save;
                                      nothing is written when any step fails)
     protocol/protocol.go             initChainStatus (genesis: utxo view only)

   Identities are labels.  An output id is a pair (label, kind): the kind of the
   output entry (original / vote / anything else, e.g. a retirement) is part of
   what the id hashes, so two outputs of different kinds never share an id; this
   is how the model expresses that the spent-output entry a transaction carries
   (tx.Entries[prevout], which detachSpendUtxo reads) has the kind of the output
   that was created under that id.

   Go maps are association lists: [uset] conses (the newest binding shadows),
   [udel] filters, [uget] returns the first binding.  Every map iteration in the
   mirrored code touches each key once and the writes of one loop hit distinct
   keys, so iteration order is immaterial. *)
From Coq Require Import List NArith Bool.
From Verif Require Import Outcome.
Import ListNotations.
Open Scope N_scope.
Open Scope outcome_scope.

(* ------------------------------------------------------------------ ids *)

Inductive kind := KOrig | KVote | KOther.

Definition kind_eqb (a b : kind) : bool :=
  match a, b with
  | KOrig, KOrig | KVote, KVote | KOther, KOther => true
  | _, _ => false
  end.

Definition outid := (N * kind)%type.

Definition outid_eqb (a b : outid) : bool :=
  N.eqb (fst a) (fst b) && kind_eqb (snd a) (snd b).

(* ------------------------------------------------------------------ utxo entries *)

(* storage.NormalUTXOType / CoinbaseUTXOType / VoteUTXOType *)
Inductive utyp := TNormal | TCoinbase | TVote.

Record entry := mkE { e_typ : utyp; e_height : N; e_spent : bool }.

Definition spend (e : entry) : entry := mkE (e_typ e) (e_height e) true.
Definition unspend (e : entry) : entry := mkE (e_typ e) (e_height e) false.

(* the utxo type the switch on the entry's Go type yields (never coinbase) *)
Definition tk (k : kind) : utyp :=
  match k with KVote => TVote | _ => TNormal end.

Definition umap := list (outid * entry).

Fixpoint uget (m : umap) (o : outid) : option entry :=
  match m with
  | [] => None
  | (k, e) :: m' => if outid_eqb o k then Some e else uget m' o
  end.

Definition uset (m : umap) (o : outid) (e : entry) : umap := (o, e) :: m.

Definition udel (m : umap) (o : outid) : umap :=
  filter (fun p => negb (outid_eqb o (fst p))) m.

(* ------------------------------------------------------------------ transactions, blocks *)

Record tx := mkTx {
  t_id : N;
  t_spends : list outid;            (* SpentOutputIDs, with the kind of the carried entry *)
  t_outs : list (outid * bool);     (* ResultIds in order; bool = amount <> 0 *)
  t_regs : list N                   (* contract hashes of the BCRP outputs, in output order *)
}.

Record block := mkB { b_id : N; b_height : N; b_txs : list tx }.

(* consensus parameters read by applySpendUtxo *)
Record params := mkP { cb_pend : N; vote_pend : N -> N }.

Definition wrap64 (x : N) : N := x mod 18446744073709551616.

(* entry.BlockHeight + pending > block.Height, in uint64 *)
Definition locked (P : params) (e : entry) (H : N) : bool :=
  match e_typ e with
  | TCoinbase => H <? wrap64 (e_height e + cb_pend P)
  | TVote => H <? wrap64 (e_height e + vote_pend P H)
  | TNormal => false
  end.

(* ------------------------------------------------------------------ UtxoViewpoint *)

Definition res := outcome unit.

Definition apply_spend (P : params) (H : N) (v : umap) (o : outid) : res umap :=
  match uget v o with
  | None => Err tt                                   (* fail to find utxo entry *)
  | Some e =>
    if e_spent e then Err tt                         (* utxo has been spent *)
    else if locked P e H then Err tt                 (* coinbase not mature / vote locked *)
    else Ok (uset v o (spend e))
  end.

Fixpoint apply_spends (P : params) (H : N) (v : umap) (l : list outid) : res umap :=
  match l with
  | [] => Ok v
  | o :: l' => do v' <- apply_spend P H v o; apply_spends P H v' l'
  end.

(* one ResultId of applyOutputUtxo; [cb] = block.Transactions[0].ID == tx.ID *)
Definition apply_out (cb : bool) (H : N) (v : umap) (oz : outid * bool) : umap :=
  let (o, nz) := oz in
  match snd o with
  | KOther => v
  | k => if nz then uset v o (mkE (if cb then TCoinbase else tk k) H false) else v
  end.

Definition apply_outs (cb : bool) (H : N) (v : umap) (l : list (outid * bool)) : umap :=
  fold_left (apply_out cb H) l v.

Definition first_id (b : block) : option N :=
  match b_txs b with [] => None | t :: _ => Some (t_id t) end.

Definition is_cb (b : block) (t : tx) : bool :=
  match first_id b with Some i => N.eqb i (t_id t) | None => false end.

Definition apply_tx (P : params) (b : block) (v : umap) (t : tx) : res umap :=
  do v' <- apply_spends P (b_height b) v (t_spends t);
  Ok (apply_outs (is_cb b t) (b_height b) v' (t_outs t)).

Fixpoint apply_txs (P : params) (b : block) (v : umap) (l : list tx) : res umap :=
  match l with
  | [] => Ok v
  | t :: l' => do v' <- apply_tx P b v t; apply_txs P b v' l'
  end.

Definition apply_block (P : params) (v : umap) (b : block) : res umap :=
  apply_txs P b v (b_txs b).

Definition detach_spend (v : umap) (o : outid) : res umap :=
  match snd o with
  | KOther => Err tt                                 (* bc.ErrEntryType *)
  | k =>
    match uget v o with
    | Some e => if e_spent e then Ok (uset v o (unspend e))
                else Err tt                          (* try to revert an unspent utxo *)
    | None => Ok (uset v o (mkE (tk k) 0 false))     (* NewUtxoEntry(utxoType, 0, false) *)
    end
  end.

Fixpoint detach_spends (v : umap) (l : list outid) : res umap :=
  match l with
  | [] => Ok v
  | o :: l' => do v' <- detach_spend v o; detach_spends v' l'
  end.

Definition detach_out (v : umap) (oz : outid * bool) : umap :=
  let (o, nz) := oz in
  match snd o with
  | KOther => v
  | k => if nz then uset v o (mkE (tk k) 0 true) else v
  end.

Definition detach_outs (v : umap) (l : list (outid * bool)) : umap :=
  fold_left detach_out l v.

Definition detach_tx (v : umap) (t : tx) : res umap :=
  do v' <- detach_spends v (t_spends t);
  Ok (detach_outs v' (t_outs t)).

Fixpoint detach_txs (v : umap) (l : list tx) : res umap :=
  match l with
  | [] => Ok v
  | t :: l' => do v' <- detach_tx v t; detach_txs v' l'
  end.

(* for i := len-1 .. 0 *)
Definition detach_block (v : umap) (b : block) : res umap :=
  detach_txs v (rev (b_txs b)).

(* ------------------------------------------------------------------ database side *)

(* getTransactionsUtxo: only entries the view does not have are read *)
Definition load1 (db v : umap) (o : outid) : umap :=
  match uget v o with
  | Some _ => v
  | None => match uget db o with Some e => uset v o e | None => v end
  end.

Definition block_spends (b : block) : list outid := flat_map t_spends (b_txs b).

Definition load (db v : umap) (b : block) : umap :=
  fold_left (load1 db) (block_spends b) v.

(* saveUtxoView: spent non-coinbase entries are deleted, all others written.  The
   view list is replayed oldest binding first, so the newest binding of a key -
   the map's value - is the one that stays. *)
Definition dead (e : entry) : bool :=
  e_spent e && match e_typ e with TCoinbase => false | _ => true end.

Definition save1 (p : outid * entry) (db : umap) : umap :=
  if dead (snd p) then udel db (fst p) else uset db (fst p) (snd p).

Definition save (db v : umap) : umap := fold_right save1 db v.

(* ------------------------------------------------------------------ contracts *)

Definition cmap := list (N * N).          (* contract hash -> registering tx id *)

Fixpoint cget (m : cmap) (h : N) : option N :=
  match m with
  | [] => None
  | (k, x) :: m' => if N.eqb h k then Some x else cget m' h
  end.

Definition cdel (m : cmap) (h : N) : cmap := filter (fun p => negb (N.eqb h (fst p))) m.
Definition cput (m : cmap) (h x : N) : cmap := (h, x) :: cdel m h.   (* one binding per key *)

Record cview := mkCV { att : cmap; det : cmap }.

(* ContractViewpoint.ApplyBlock: the first registration in the view wins *)
Definition capply1 (i : N) (a : cmap) (h : N) : cmap :=
  match cget a h with Some _ => a | None => cput a h i end.

Definition capply_block (cv : cview) (b : block) : cview :=
  mkCV (fold_left (fun a t => fold_left (capply1 (t_id t)) (t_regs t) a) (b_txs b) (att cv)) (det cv).

(* ContractViewpoint.DetachBlock: the last write wins *)
Definition cdetach_block (cv : cview) (b : block) : cview :=
  mkCV (att cv)
       (fold_left (fun d t => fold_left (fun d h => cput d h (t_id t)) (t_regs t) d) (rev (b_txs b)) (det cv)).

Inductive bop := BDel (h : N) | BSet (h x : N).

Definition opt_eqb (a b : option N) : bool :=
  match a, b with
  | Some x, Some y => N.eqb x y
  | None, None => true
  | _, _ => false
  end.

(* deleteContractView: bytes.Equal(db.Get(key), value) *)
Definition cdel_ops (db : cmap) (cv : cview) : list bop :=
  flat_map (fun p => if opt_eqb (cget db (fst p)) (Some (snd p)) then [BDel (fst p)] else []) (det cv).

(* saveContractView *)
Definition cset_ops (db : cmap) (cv : cview) : list bop :=
  flat_map (fun p =>
    let data := cget db (fst p) in
    (match data with None => [BSet (fst p) (snd p)] | Some _ => [] end) ++
    (match cget (det cv) (fst p) with
     | Some x => if opt_eqb data (Some x) then [BSet (fst p) (snd p)] else []
     | None => []
     end)) (att cv).

Definition bapply (db : cmap) (op : bop) : cmap :=
  match op with BDel h => cdel db h | BSet h x => (h, x) :: db end.

Definition csave (db : cmap) (cv : cview) : cmap :=
  fold_left bapply (cdel_ops db cv ++ cset_ops db cv) db.

(* ------------------------------------------------------------------ reorganizeChain *)

Fixpoint detach_all (db v : umap) (cv : cview) (ds : list block) : res (umap * cview) :=
  match ds with
  | [] => Ok (v, cv)
  | d :: ds' =>
    do v' <- detach_block (load db v d) d;
    detach_all db v' (cdetach_block cv d) ds'
  end.

Fixpoint attach_all (P : params) (db v : umap) (cv : cview) (bs : list block) : res (umap * cview) :=
  match bs with
  | [] => Ok (v, cv)
  | a :: bs' =>
    do v' <- apply_block P (load db v a) a;
    attach_all P db v' (capply_block cv a) bs'
  end.

(* detaches tip first, attaches bottom up *)
Definition reorg (P : params) (db : umap) (cdb : cmap) (ds news : list block) : res (umap * cmap) :=
  do vc <- detach_all db [] (mkCV [] []) ds;
  do vc' <- attach_all P db (fst vc) (snd vc) news;
  Ok (save db (fst vc'), csave cdb (snd vc')).

(* ------------------------------------------------------------------ node state, histories *)

Record state := mkS { chain : list block (* tip first *); udb : umap; cdb : cmap }.

(* initChainStatus: the genesis block goes through the utxo view only; its
   contract registrations (the real genesis block has none) are never looked at,
   so the chain records the genesis block without them *)
Definition strip_regs (b : block) : block :=
  mkB (b_id b) (b_height b) (map (fun t => mkTx (t_id t) (t_spends t) (t_outs t) []) (b_txs b)).

Definition init (P : params) (g : block) : res state :=
  do v <- apply_block P [] (strip_regs g);
  Ok (mkS [strip_regs g] (save [] v) []).

(* one change of the main chain: the top k blocks leave, [news] (bottom up) enter *)
Inductive step := Reorg (k : nat) (news : list block).

Definition do_step (P : params) (st : state) (s : step) : state * bool :=
  let (k, news) := s in
  match reorg P (udb st) (cdb st) (firstn k (chain st)) news with
  | Ok (u, c) => (mkS (rev news ++ skipn k (chain st)) u c, true)
  | _ => (st, false)                      (* error returned, nothing written *)
  end.

Fixpoint run (P : params) (st : state) (l : list step) : state :=
  match l with
  | [] => st
  | s :: l' => run P (fst (do_step P st s)) l'
  end.

(* a node that is fed exactly the blocks of [c] (tip first), in order *)
Fixpoint extend (P : params) (st : state) (bs : list block) : res state :=
  match bs with
  | [] => Ok st
  | b :: bs' =>
    match do_step P st (Reorg 0 [b]) with
    | (st', true) => extend P st' bs'
    | (_, false) => Err tt
    end
  end.

Definition replay (P : params) (c : list block) : res state :=
  match rev c with
  | [] => Err tt
  | g :: bs => do st <- init P g; extend P st bs
  end.
