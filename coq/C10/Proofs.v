(* C10 — composition: reorganizeChain keeps the persisted state related to the
   replay of the main chain; histories; the comparison with a fresh node. *)
From Coq Require Import List NArith Bool Lia.
From Verif Require Import Outcome.
From C10 Require Import Model Maps Utxo Sim Contracts.
Import ListNotations.
Open Scope N_scope.

(* ------------------------------------------------------------------ the specification of the utxo set *)

(* applying the chain (tip first) from genesis on one map that never forgets *)
Fixpoint spec (P : params) (c : list block) : res umap :=
  match c with
  | [] => Ok []
  | b :: r => obind (spec P r) (fun M => apply_block P M b)
  end.

Definition block_couts (b : block) : list outid := txs_couts (b_txs b).

Fixpoint chain_outs (c : list block) : list outid :=
  match c with [] => [] | b :: r => chain_outs r ++ block_couts b end.

Definition heights_ok (sb : bool) (P : params) (c : list block) : Prop :=
  forall b, In b c -> hk sb P (b_height b).

(* identities are unique along the chain: an output id is created once, a
   transaction id occurs once (ids are hashes) *)
Definition wf_chain (sb : bool) (P : params) (c : list block) : Prop :=
  NoDup (chain_outs c) /\ NoDup (chain_txids c) /\ heights_ok sb P c.

Lemma hk_true P h : hk true P h.
Proof. intros X; discriminate. Qed.

Lemma heights_true P c : heights_ok true P c.
Proof. intros b _. apply hk_true. Qed.

Lemma chain_outs_app l1 l2 : chain_outs (l1 ++ l2) = chain_outs l2 ++ chain_outs l1.
Proof.
  induction l1 as [|b l1 IH]; cbn; [rewrite app_nil_r; reflexivity|].
  rewrite IH, app_assoc. reflexivity.
Qed.

Lemma NoDup_app_r {A} (l1 l2 : list A) : NoDup (l1 ++ l2) -> NoDup l2.
Proof. induction l1 as [|a l1 IH]; cbn; intros H; [exact H | inversion H; subst; apply IH; assumption]. Qed.

Lemma wf_chain_suffix sb P l1 l2 : wf_chain sb P (l1 ++ l2) -> wf_chain sb P l2.
Proof.
  intros [H1 [H2 H3]]. split; [|split].
  - rewrite chain_outs_app in H1. eapply NoDup_app_l; exact H1.
  - rewrite chain_txids_app in H2. eapply NoDup_app_r; exact H2.
  - intros b Hb. apply H3. apply in_or_app. right; exact Hb.
Qed.

Lemma wf_chain_true sb P c : wf_chain sb P c -> wf_chain true P c.
Proof. intros [H1 [H2 _]]. split; [exact H1 | split; [exact H2 | apply heights_true]]. Qed.

Lemma spec_suffix P l1 : forall l2 M, spec P (l1 ++ l2) = Ok M -> exists M2, spec P l2 = Ok M2.
Proof.
  induction l1 as [|b l1 IH]; intros l2 M H; [eauto|].
  cbn in H. apply obind_ok in H. destruct H as [M1 [H1 _]]. eapply IH; exact H1.
Qed.

Lemma spec_facts sb P c : forall M,
  spec P c = Ok M -> heights_ok sb P c ->
  wfm sb P M /\ (forall o, uget M o <> None -> In o (chain_outs c)).
Proof.
  induction c as [|b c IH]; intros M Hs Hh.
  - cbn in Hs. inversion Hs; subst. split; [intros o m X; discriminate | intros o X; exfalso; apply X; reflexivity].
  - cbn in Hs. apply obind_ok in Hs. destruct Hs as [M1 [H1 H2]].
    destruct (IH M1 H1) as [Hwf Hdom]; [intros x Hx; apply Hh; right; exact Hx|].
    destruct (apply_txs_wfm sb P b (b_txs b) M1 M Hwf (Hh b (or_introl eq_refl)) H2) as [Hwf' Hdom'].
    split; [exact Hwf'|]. intros o Ho. cbn. apply in_or_app.
    destruct (Hdom' o Ho) as [X|X]; [left; apply Hdom; exact X | right; exact X].
Qed.

(* ------------------------------------------------------------------ the guard *)

Definition guard (ds : list block) : Prop := novote (flat_map block_spends ds).

Definition guardb (ds : list block) : bool :=
  forallb (fun o => negb (kind_eqb (snd o) KVote)) (flat_map block_spends ds).

Lemma guardb_ok ds : guardb ds = true -> guard ds.
Proof.
  unfold guardb, guard, novote. rewrite forallb_forall. intros H o Ho E.
  specialize (H o Ho). rewrite E in H. discriminate.
Qed.

(* ------------------------------------------------------------------ the two phases of reorganizeChain *)

Lemma R_ext sb E E' M : (forall o, uget E' o = uget E o) -> R sb E M -> R sb E' M.
Proof. intros He HR o. rewrite He. apply HR. Qed.

Lemma detach_all_ok sb P db : forall ds v cv base M0,
  spec P (ds ++ base) = Ok M0 -> wf_chain sb P (ds ++ base) -> R sb (v ++ db) M0 ->
  (sb = true -> guard ds) ->
  exists v' Mb, detach_all db v cv ds = Ok (v', fold_left cdetach_block ds cv) /\
                spec P base = Ok Mb /\ R sb (v' ++ db) Mb.
Proof.
  induction ds as [|d ds IH]; intros v cv base M0 Hs Hwf HR Hg.
  - exists v, M0. cbn. auto.
  - cbn [app spec] in Hs. apply obind_ok in Hs. destruct Hs as [M1 [Hs1 Ha]].
    assert (Hwf1 : wf_chain sb P (ds ++ base)) by (apply (wf_chain_suffix sb P [d]); exact Hwf).
    destruct Hwf as [Hnd [_ Hh]].
    destruct (spec_facts sb P (ds ++ base) M1 Hs1) as [Hwfm Hdom]; [apply Hwf1|].
    destruct (load_spec db v d) as [Hget Hcov].
    assert (HR1 : R sb (load db v d ++ db) M0) by (eapply R_ext; [exact Hget | exact HR]).
    destruct (detach_txs_rel sb P d (b_txs d) (load db v d ++ db) M1 M0 (chain_outs (ds ++ base)))
      as [E' [HE' HRE']]; auto.
    { apply Hh. left; reflexivity. }
    { intros Es o Ho. apply (Hg Es). cbn [flat_map]. apply in_or_app. left. exact Ho. }
    rewrite detach_txs_appdb in HE'
      by (intros o Ho; apply Hcov; unfold block_spends; apply in_flat_map_rev; exact Ho).
    apply omap_ok in HE'. destruct HE' as [v2 [Hv2 ->]].
    destruct (IH v2 (cdetach_block cv d) base M1 Hs1 Hwf1 HRE') as [v' [Mb [H1 [H2 H3]]]].
    { intros Es o Ho. apply (Hg Es). cbn [flat_map]. apply in_or_app. right. exact Ho. }
    exists v', Mb. cbn [detach_all fold_left]. unfold detach_block. rewrite Hv2. cbn. auto.
Qed.

Lemma rev_cons_app {A} (a : A) l base : rev (a :: l) ++ base = rev l ++ a :: base.
Proof. cbn. rewrite <- app_assoc. reflexivity. Qed.

Lemma attach_all_fw sb P db : forall news v cv base Mb Mn,
  spec P base = Ok Mb -> heights_ok sb P (rev news ++ base) -> R sb (v ++ db) Mb ->
  spec P (rev news ++ base) = Ok Mn ->
  exists v', attach_all P db v cv news = Ok (v', fold_left capply_block news cv) /\ R sb (v' ++ db) Mn.
Proof.
  induction news as [|a news IH]; intros v cv base Mb Mn Hb Hh HR Hn.
  - cbn in Hn. rewrite Hb in Hn. inversion Hn; subst. exists v. cbn. auto.
  - rewrite rev_cons_app in Hn, Hh.
    destruct (spec_suffix P (rev news) (a :: base) Mn Hn) as [Ma Hsa].
    assert (Haa : apply_block P Mb a = Ok Ma) by (cbn in Hsa; rewrite Hb in Hsa; exact Hsa).
    destruct (spec_facts sb P base Mb Hb) as [Hwfm _].
    { intros x Hx. apply Hh. apply in_or_app. right. right. exact Hx. }
    destruct (load_spec db v a) as [Hget Hcov].
    assert (HR1 : R sb (load db v a ++ db) Mb) by (eapply R_ext; [exact Hget | exact HR]).
    destruct (apply_txs_fw sb P a (b_txs a) (load db v a ++ db) Mb Ma HR1 Hwfm) as [E' [HE' HRE']].
    { apply Hh. apply in_or_app. right. left. reflexivity. }
    { exact Haa. }
    rewrite apply_txs_app in HE' by exact Hcov.
    apply omap_ok in HE'. destruct HE' as [v2 [Hv2 ->]].
    destruct (IH v2 (capply_block cv a) (a :: base) Ma Mn Hsa Hh HRE' Hn) as [v' [H1 H2]].
    exists v'. cbn [attach_all fold_left]. unfold apply_block. rewrite Hv2. cbn. auto.
Qed.

Lemma attach_all_bw P db : forall news v cv base Mb r,
  attach_all P db v cv news = Ok r -> spec P base = Ok Mb -> R true (v ++ db) Mb ->
  exists Mn, spec P (rev news ++ base) = Ok Mn.
Proof.
  induction news as [|a news IH]; intros v cv base Mb r Ha Hb HR.
  - exists Mb. exact Hb.
  - cbn [attach_all] in Ha. apply obind_ok in Ha. destruct Ha as [v2 [Hv2 Hrest]].
    destruct (spec_facts true P base Mb Hb (heights_true P base)) as [Hwfm _].
    destruct (load_spec db v a) as [Hget Hcov].
    assert (HR1 : R true (load db v a ++ db) Mb) by (eapply R_ext; [exact Hget | exact HR]).
    assert (HE : apply_txs P a (load db v a ++ db) (b_txs a) = Ok (v2 ++ db)).
    { rewrite apply_txs_app by exact Hcov. unfold apply_block in Hv2. rewrite Hv2. reflexivity. }
    destruct (apply_txs_bw true P a (b_txs a) _ Mb _ eq_refl HR1 Hwfm (hk_true P _) HE) as [Ma HMa].
    destruct (apply_txs_fw true P a (b_txs a) _ Mb Ma HR1 Hwfm (hk_true P _) HMa) as [E' [HE' HRE']].
    rewrite HE in HE'. inversion HE'; subst E'.
    assert (Hsa : spec P (a :: base) = Ok Ma) by (cbn; rewrite Hb; exact HMa).
    destruct (IH v2 (capply_block cv a) (a :: base) Ma r Hrest Hsa HRE') as [Mn HMn].
    exists Mn. rewrite rev_cons_app. exact HMn.
Qed.

(* ------------------------------------------------------------------ one reorganisation *)

Definition CInv (c : list block) (cdb : cmap) : Prop := forall h, cget cdb h = ctab c h.

Lemma reorg_fw sb P db cdb ds base news M0 Mn :
  spec P (ds ++ base) = Ok M0 -> R sb db M0 -> CInv (ds ++ base) cdb ->
  wf_chain sb P (ds ++ base) -> (sb = true -> guard ds) ->
  spec P (rev news ++ base) = Ok Mn -> heights_ok sb P (rev news ++ base) ->
  exists u c, reorg P db cdb ds news = Ok (u, c) /\ R sb u Mn /\ CInv (rev news ++ base) c.
Proof.
  intros Hs HR HC Hwf Hg Hn Hh.
  destruct (detach_all_ok sb P db ds [] (mkCV [] []) base M0 Hs Hwf HR Hg) as [v1 [Mb [Hd [Hb HR1]]]].
  destruct (attach_all_fw sb P db news v1 (fold_left cdetach_block ds (mkCV [] [])) base Mb Mn Hb Hh HR1 Hn)
    as [v2 [Ha HR2]].
  unfold reorg. rewrite Hd. cbn [obind fst snd]. rewrite Ha. cbn [obind fst snd].
  eexists. eexists. split; [reflexivity|]. split.
  - apply save_rel. exact HR2.
  - intros h. apply contracts_reorg; [exact HC | apply Hwf].
Qed.

Lemma reorg_bw P db cdb ds base news M0 r :
  spec P (ds ++ base) = Ok M0 -> R true db M0 ->
  wf_chain true P (ds ++ base) -> guard ds ->
  reorg P db cdb ds news = Ok r ->
  exists Mn, spec P (rev news ++ base) = Ok Mn.
Proof.
  intros Hs HR Hwf Hg Hr.
  destruct (detach_all_ok true P db ds [] (mkCV [] []) base M0 Hs Hwf HR (fun _ => Hg)) as [v1 [Mb [Hd [Hb HR1]]]].
  unfold reorg in Hr. rewrite Hd in Hr. cbn [obind fst snd] in Hr.
  apply obind_ok in Hr. destruct Hr as [r2 [Ha _]].
  eapply attach_all_bw; eassumption.
Qed.

(* ------------------------------------------------------------------ histories *)

Definition Inv (sb : bool) (P : params) (st : state) : Prop :=
  (exists M, spec P (chain st) = Ok M /\ R sb (udb st) M) /\ CInv (chain st) (cdb st).

Definition target (st : state) (s : step) : list block :=
  let (k, news) := s in rev news ++ skipn k (chain st).

Definition detached (st : state) (s : step) : list block :=
  let (k, _) := s in firstn k (chain st).

(* What the theorems ask of one step of a history, before it is taken.
   keeps:      the genesis block is never detached;
   step_wf:    the chain the step adopts (if it succeeds) has unique ids;
   step_guard: no detached block vetoes a vote output (the decidable guard that
               excludes the known defect);
   step_weak:  the target chain is valid for a fresh node, has unique ids and
               heights that do not wrap around in uint64. *)
Definition keeps (st : state) (s : step) : Prop :=
  let (k, _) := s in (k < length (chain st))%nat.

Definition step_wf (P : params) (st : state) (s : step) : Prop :=
  keeps st s /\ (snd (do_step P st s) = true -> wf_chain true P (target st s)).

Definition step_guard (st : state) (s : step) : Prop := guardb (detached st s) = true.

Definition step_weak (P : params) (st : state) (s : step) : Prop :=
  keeps st s /\ is_ok (spec P (target st s)) = true /\ wf_chain false P (target st s).

Definition step_ok (sb : bool) (P : params) (st : state) (s : step) : Prop :=
  if sb then step_wf P st s /\ step_guard st s else step_weak P st s.

Fixpoint hist (Q : state -> step -> Prop) (P : params) (st : state) (l : list step) : Prop :=
  match l with
  | [] => True
  | s :: l' => Q st s /\ hist Q P (fst (do_step P st s)) l'
  end.

Definition hist_ok (sb : bool) (P : params) : state -> list step -> Prop := hist (step_ok sb P) P.

Lemma chain_split st k : chain st = firstn k (chain st) ++ skipn k (chain st).
Proof. symmetry. apply firstn_skipn. Qed.

Lemma is_ok_ex {A} (x : res A) : is_ok x = true -> exists a, x = Ok a.
Proof. destruct x; cbn; intros H; try discriminate. eauto. Qed.

(* outcome of a step in terms of the specification *)
Lemma step_fw sb P st k news Mn :
  Inv sb P st -> wf_chain sb P (chain st) -> (sb = true -> guard (firstn k (chain st))) ->
  spec P (rev news ++ skipn k (chain st)) = Ok Mn -> heights_ok sb P (rev news ++ skipn k (chain st)) ->
  exists st', do_step P st (Reorg k news) = (st', true) /\ Inv sb P st' /\
              chain st' = rev news ++ skipn k (chain st).
Proof.
  intros [[M0 [Hs HR]] HC] Hwf Hg Hn Hh.
  rewrite (chain_split st k) in Hs, HC, Hwf.
  destruct (reorg_fw sb P (udb st) (cdb st) _ _ news M0 Mn Hs HR HC Hwf Hg Hn Hh) as [u [c [Hr [HRu HCc]]]].
  cbn [do_step]. rewrite Hr. eexists. split; [reflexivity|]. split; [|reflexivity].
  split; [exists Mn; split; assumption | exact HCc].
Qed.

Lemma step_strict P st k news :
  Inv true P st -> wf_chain true P (chain st) -> guard (firstn k (chain st)) ->
  snd (do_step P st (Reorg k news)) = is_ok (spec P (rev news ++ skipn k (chain st))) /\
  Inv true P (fst (do_step P st (Reorg k news))).
Proof.
  intros HI Hwf Hg.
  destruct (spec P (rev news ++ skipn k (chain st))) as [Mn| |] eqn:En.
  - destruct (step_fw true P st k news Mn HI Hwf (fun _ => Hg) En (heights_true P _)) as [st' [Hd [HI' _]]].
    rewrite Hd. cbn. auto.
  - cbn [do_step]. destruct (reorg P (udb st) (cdb st) (firstn k (chain st)) news) as [[u c]| |] eqn:Er; cbn; auto.
    exfalso. destruct HI as [[M0 [Hs HR]] _]. rewrite (chain_split st k) in Hs, Hwf.
    destruct (reorg_bw P _ _ _ _ news M0 _ Hs HR Hwf Hg Er) as [Mn HMn]. congruence.
  - cbn [do_step]. destruct (reorg P (udb st) (cdb st) (firstn k (chain st)) news) as [[u c]| |] eqn:Er; cbn; auto.
    exfalso. destruct HI as [[M0 [Hs HR]] _]. rewrite (chain_split st k) in Hs, Hwf.
    destruct (reorg_bw P _ _ _ _ news M0 _ Hs HR Hwf Hg Er) as [Mn HMn]. congruence.
Qed.

Lemma do_step_chain P st s :
  (snd (do_step P st s) = true /\ chain (fst (do_step P st s)) = target st s) \/
  (snd (do_step P st s) = false /\ fst (do_step P st s) = st).
Proof.
  destruct s as [k news]. cbn [do_step target].
  destruct (reorg P (udb st) (cdb st) (firstn k (chain st)) news) as [[u c]| |]; cbn; auto.
Qed.

Lemma step_inv sb P st s :
  Inv sb P st -> wf_chain sb P (chain st) -> step_ok sb P st s ->
  Inv sb P (fst (do_step P st s)) /\ wf_chain sb P (chain (fst (do_step P st s))).
Proof.
  intros HI Hwf Hok. destruct sb.
  - destruct Hok as [[_ Hwf'] Hc]. unfold step_guard in Hc. destruct s as [k news].
    split; [apply step_strict; [exact HI | exact Hwf | apply guardb_ok; exact Hc]|].
    destruct (do_step_chain P st (Reorg k news)) as [[H1 H2]|[H1 H2]].
    + rewrite H2. apply Hwf'. exact H1.
    + rewrite H2. exact Hwf.
  - destruct Hok as [_ [Hc Hwf']]. destruct s as [k news]. cbn [target] in Hc, Hwf'.
    apply is_ok_ex in Hc. destruct Hc as [Mn Hn].
    destruct (step_fw false P st k news Mn HI Hwf (fun X => ltac:(discriminate X)) Hn) as [st' [Hd [HI' Hch]]];
      [apply Hwf'|].
    rewrite Hd. cbn [fst]. split; [exact HI' | rewrite Hch; exact Hwf'].
Qed.

Lemma run_inv sb P l : forall st,
  Inv sb P st -> wf_chain sb P (chain st) -> hist_ok sb P st l ->
  Inv sb P (run P st l) /\ wf_chain sb P (chain (run P st l)).
Proof.
  induction l as [|s l IH]; intros st HI Hwf Hh; [split; assumption|].
  destruct Hh as [H1 H2]. destruct (step_inv sb P st s HI Hwf H1) as [HI' Hwf'].
  cbn [run]. apply IH; assumption.
Qed.

(* in a weak history every step succeeds *)
Lemma weak_step_succeeds P st s :
  Inv false P st -> wf_chain false P (chain st) -> step_ok false P st s ->
  snd (do_step P st s) = true.
Proof.
  intros HI Hwf [_ [Hc Hwf']]. destruct s as [k news]. cbn [target] in Hc, Hwf'.
  apply is_ok_ex in Hc. destruct Hc as [Mn Hn].
  destruct (step_fw false P st k news Mn HI Hwf (fun X => ltac:(discriminate X)) Hn) as [st' [Hd _]];
    [apply Hwf'|]. rewrite Hd. reflexivity.
Qed.
