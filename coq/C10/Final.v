(* C10 — the statements: a node that went through any history of reorganisations
   compared with a fresh node fed only the main chain. *)
From Coq Require Import List NArith Bool Lia.
From Verif Require Import Outcome.
From C10 Require Import Model Maps Utxo Sim Contracts Proofs.
Import ListNotations.
Open Scope N_scope.

(* ------------------------------------------------------------------ what the property compares *)

(* spendable outputs and their spending constraints: an unspent entry shows its
   type and the height that applySpendUtxo reads for it (coinbase maturity;
   vote lock when [sb]); anything else is not spendable *)
Definition cons (sb : bool) (eo : option entry) : option (utyp * option N) :=
  match eo with
  | Some e =>
    if e_spent e then None
    else Some (e_typ e,
               match e_typ e with
               | TCoinbase => Some (e_height e)
               | TVote => if sb then Some (e_height e) else None
               | TNormal => None
               end)
  | None => None
  end.

Lemma cons_gone sb sb' m a : gone_rel sb' m a -> cons sb a = None.
Proof. destruct a as [e|]; cbn; [intros [_ [-> _]]; reflexivity | reflexivity]. Qed.

Lemma cons_agree sb a b mo : rel sb a mo -> rel true b mo -> cons sb a = cons sb b.
Proof.
  unfold rel. destruct mo as [m|].
  - destruct (e_spent m).
    + destruct (e_typ m) eqn:Et.
      * intros Ha Hb. rewrite (cons_gone sb sb m a Ha), (cons_gone sb true m b Hb). reflexivity.
      * intros -> ->. reflexivity.
      * intros Ha Hb. rewrite (cons_gone sb sb m a Ha), (cons_gone sb true m b Hb). reflexivity.
    + intros [ea [-> [Ha1 [Ha2 Ha3]]]] [eb [-> [Hb1 [Hb2 Hb3]]]]. cbn. rewrite Ha2, Hb2, Ha1, Hb1.
      destruct (e_typ m); cbn in *.
      * reflexivity.
      * rewrite Ha3, Hb3. reflexivity.
      * destruct sb; [rewrite Ha3, Hb3; reflexivity | reflexivity].
  - destruct a as [ea|], b as [eb|]; cbn; intros Ha Hb; rewrite ?Ha, ?Hb; reflexivity.
Qed.

(* ------------------------------------------------------------------ initialisation *)

Lemma R_refl sb M : R sb M M.
Proof.
  intros o. unfold rel. destruct (uget M o) as [m|]; [|exact I].
  destruct (e_spent m) eqn:Es.
  - destruct (e_typ m) eqn:Et; try reflexivity; cbn; rewrite Et; repeat split; auto; apply hrel_refl.
  - exists m. repeat split; auto. apply hrel_refl.
Qed.

Lemma strip_idem g : strip_regs (strip_regs g) = strip_regs g.
Proof. unfold strip_regs. cbn. rewrite map_map. reflexivity. Qed.

Lemma find_strip h l :
  find (regs_tx h) (map (fun t => mkTx (t_id t) (t_spends t) (t_outs t) []) l) = None.
Proof. induction l as [|t l IH]; cbn; [reflexivity | exact IH]. Qed.

Lemma ctab_strip g h : ctab [strip_regs g] h = None.
Proof. cbn. unfold reg_block, strip_regs. cbn [b_txs]. rewrite find_strip. reflexivity. Qed.

Lemma init_ok sb P g st0 :
  init P g = Ok st0 -> Inv sb P st0 /\ chain st0 = [strip_regs g].
Proof.
  unfold init. intros H. apply obind_ok in H. destruct H as [v [Hv Hst]]. inversion Hst; subst st0; clear Hst.
  split; [|reflexivity]. split.
  - exists v. cbn [chain udb spec obind]. split; [exact Hv|].
    apply save_rel. rewrite app_nil_r. apply R_refl.
  - intros h. cbn [chain cdb cget]. rewrite ctab_strip. reflexivity.
Qed.

(* ------------------------------------------------------------------ the genesis block stays *)

Definition ends_with (sg : block) (c : list block) : Prop := exists c', c = c' ++ [sg].

Lemma keeps_ends P sg st s :
  ends_with sg (chain st) -> keeps st s -> ends_with sg (chain (fst (do_step P st s))).
Proof.
  intros [c' Hc] Hk. destruct (do_step_chain P st s) as [[_ H2]|[_ H2]]; rewrite H2; [|exists c'; exact Hc].
  destruct s as [k news]. cbn [target keeps] in *. rewrite Hc in *. rewrite app_length in Hk. cbn in Hk.
  rewrite skipn_app. replace (k - length c')%nat with 0%nat by lia. cbn [skipn].
  exists (rev news ++ skipn k c'). rewrite app_assoc. reflexivity.
Qed.

Lemma hist_ends (Q : state -> step -> Prop) P sg l : forall st,
  (forall st s, Q st s -> keeps st s) ->
  ends_with sg (chain st) -> hist Q P st l -> ends_with sg (chain (run P st l)).
Proof.
  induction l as [|s l IH]; intros st HQ He Hh; [exact He|].
  destruct Hh as [H1 H2]. cbn [run]. apply IH; [exact HQ | apply keeps_ends; [exact He | apply HQ; exact H1] | exact H2].
Qed.

Lemma step_ok_keeps sb P st s : step_ok sb P st s -> keeps st s.
Proof. destruct sb; cbn; [intros [[H _] _] | intros [H _]]; exact H. Qed.

(* ------------------------------------------------------------------ the fresh node *)

Lemma extend_ok P bs : forall st c0,
  Inv true P st -> chain st = c0 ->
  (exists M, spec P (rev bs ++ c0) = Ok M) -> wf_chain true P (rev bs ++ c0) ->
  exists st', extend P st bs = Ok st' /\ Inv true P st' /\ chain st' = rev bs ++ c0.
Proof.
  induction bs as [|b bs IH]; intros st c0 HI Hc [M HM] Hwf.
  - exists st. cbn. auto.
  - rewrite rev_cons_app in HM, Hwf.
    destruct (spec_suffix P (rev bs) (b :: c0) M HM) as [Mb HMb].
    assert (Hwfb : wf_chain true P (b :: c0)) by (eapply wf_chain_suffix; exact Hwf).
    assert (Hwf0 : wf_chain true P c0) by (apply (wf_chain_suffix true P [b]); exact Hwfb).
    destruct (step_fw true P st 0 [b] Mb HI) as [st1 [Hd [HI1 Hc1]]].
    + rewrite Hc. exact Hwf0.
    + intros _ o Ho. destruct Ho.
    + cbn [rev app skipn]. rewrite Hc. exact HMb.
    + apply heights_true.
    + cbn [rev app skipn] in Hc1. rewrite Hc in Hc1.
      destruct (IH st1 (b :: c0) HI1 Hc1 (ex_intro _ M HM) Hwf) as [st' [He [HI' Hc']]].
      exists st'. cbn [extend]. rewrite Hd. rewrite rev_cons_app. auto.
Qed.

Lemma replay_ok P g c M :
  ends_with (strip_regs g) c -> spec P c = Ok M -> wf_chain true P c ->
  exists st_r, replay P c = Ok st_r /\ Inv true P st_r /\ chain st_r = c.
Proof.
  intros [c' Hc] HM Hwf. subst c.
  destruct (spec_suffix P c' [strip_regs g] M HM) as [Mg HMg].
  assert (Hi : exists st0, init P (strip_regs g) = Ok st0).
  { unfold init. rewrite strip_idem. cbn [spec obind] in HMg. rewrite HMg. cbn [obind]. eauto. }
  destruct Hi as [st0 Hi]. destruct (init_ok true P _ _ Hi) as [HI0 Hc0]. rewrite strip_idem in Hc0.
  destruct (extend_ok P (rev c') st0 [strip_regs g] HI0 Hc0) as [st' [He [HI' Hc']]].
  - rewrite rev_involutive. eauto.
  - rewrite rev_involutive. exact Hwf.
  - exists st'. unfold replay. rewrite rev_app_distr. cbn [rev app]. rewrite Hi. cbn [obind].
    rewrite rev_involutive in Hc'. auto.
Qed.

(* ------------------------------------------------------------------ main statement, both readings *)

Definition agree (sb : bool) (st st_r : state) : Prop :=
  chain st_r = chain st /\
  (forall o, cons sb (uget (udb st) o) = cons sb (uget (udb st_r) o)) /\
  (forall h, cget (cdb st) h = cget (cdb st_r) h).

Theorem history_vs_replay sb P g steps st0 :
  init P g = Ok st0 -> wf_chain sb P (chain st0) -> hist_ok sb P st0 steps ->
  exists st_r,
    replay P (chain (run P st0 steps)) = Ok st_r /\ agree sb (run P st0 steps) st_r /\
    Inv sb P (run P st0 steps) /\ Inv true P st_r /\ wf_chain sb P (chain (run P st0 steps)).
Proof.
  intros Hi Hwf Hh. destruct (init_ok sb P g st0 Hi) as [HI0 Hc0].
  destruct (run_inv sb P steps st0 HI0 Hwf Hh) as [HI Hwf'].
  assert (He : ends_with (strip_regs g) (chain (run P st0 steps))).
  { eapply hist_ends; [intros st s; apply step_ok_keeps | exists []; rewrite Hc0; reflexivity | exact Hh]. }
  destruct HI as [[M [HM HR]] HC].
  destruct (replay_ok P g _ M He HM (wf_chain_true _ _ _ Hwf')) as [st_r [Hr [HIr Hcr]]].
  exists st_r. split; [exact Hr|]. split; [|split; [split; [eauto | exact HC] | split; [exact HIr | exact Hwf']]].
  split; [exact Hcr|]. destruct HIr as [[Mr [HMr HRr]] HCr]. rewrite Hcr in HMr, HCr.
  rewrite HM in HMr. inversion HMr; subst Mr. split.
  - intros o. eapply cons_agree; [apply HR | apply HRr].
  - intros h. rewrite HC, HCr. reflexivity.
Qed.

(* acceptance: what a further step returns *)
Theorem acceptance_strict P st st_r s :
  Inv true P st -> Inv true P st_r -> chain st_r = chain st -> wf_chain true P (chain st) ->
  guardb (detached st s) = true ->
  snd (do_step P st s) = snd (do_step P st_r s).
Proof.
  intros HI HIr Hc Hwf Hg. destruct s as [k news]. cbn [detached] in Hg. apply guardb_ok in Hg.
  destruct (step_strict P st k news HI Hwf Hg) as [H1 _].
  destruct (step_strict P st_r k news HIr) as [H2 _]; [rewrite Hc; exact Hwf | rewrite Hc; exact Hg|].
  rewrite H1, H2, Hc. reflexivity.
Qed.

(* ------------------------------------------------------------------ statements as used in Props.v *)

Lemma hist_app (Q : state -> step -> Prop) P l1 : forall st l2,
  hist Q P st (l1 ++ l2) <-> hist Q P st l1 /\ hist Q P (run P st l1) l2.
Proof.
  induction l1 as [|s l1 IH]; intros st l2; cbn [app hist run]; [tauto|].
  rewrite IH. tauto.
Qed.

Lemma hist_and (Q1 Q2 : state -> step -> Prop) P l : forall st,
  hist Q1 P st l -> hist Q2 P st l -> hist (fun st s => Q1 st s /\ Q2 st s) P st l.
Proof.
  induction l as [|s l IH]; intros st H1 H2; cbn [hist] in *; [exact I|].
  destruct H1 as [A1 B1], H2 as [A2 B2]. split; [split; assumption | apply IH; assumption].
Qed.

(* weak reading: valid target chains; vote-lock heights are not compared *)
Theorem weak_statement P g steps st0 :
  init P g = Ok st0 -> wf_chain false P (chain st0) -> hist_ok false P st0 steps ->
  exists st_r,
    replay P (chain (run P st0 steps)) = Ok st_r /\
    chain st_r = chain (run P st0 steps) /\
    (forall o, cons false (uget (udb (run P st0 steps)) o) = cons false (uget (udb st_r) o)) /\
    (forall h, cget (cdb (run P st0 steps)) h = cget (cdb st_r) h /\
               cget (cdb st_r) h = ctab (chain (run P st0 steps)) h).
Proof.
  intros Hi Hwf Hh. destruct (history_vs_replay false P g steps st0 Hi Hwf Hh) as [st_r [Hr [[Hc [Hu Hk]] [_ [HIr _]]]]].
  exists st_r. split; [exact Hr|]. split; [exact Hc|]. split; [exact Hu|].
  intros h. split; [apply Hk|]. destruct HIr as [_ HC]. rewrite <- Hc. apply HC.
Qed.

Theorem contracts_statement P g steps st0 :
  init P g = Ok st0 -> wf_chain false P (chain st0) -> hist_ok false P st0 steps ->
  forall h, cget (cdb (run P st0 steps)) h = ctab (chain (run P st0 steps)) h.
Proof.
  intros Hi Hwf Hh h.
  destruct (weak_statement P g steps st0 Hi Hwf Hh) as [st_r [_ [_ [_ Hc]]]].
  destruct (Hc h) as [H1 H2]. rewrite H1. exact H2.
Qed.

Theorem weak_steps_succeed P g steps s st0 :
  init P g = Ok st0 -> wf_chain false P (chain st0) -> hist_ok false P st0 (steps ++ [s]) ->
  snd (do_step P (run P st0 steps) s) = true.
Proof.
  intros Hi Hwf Hh. apply hist_app in Hh. destruct Hh as [H1 [H2 _]].
  destruct (init_ok false P g st0 Hi) as [HI0 _].
  destruct (run_inv false P steps st0 HI0 Hwf H1) as [HI Hwf'].
  eapply weak_step_succeeds; eassumption.
Qed.

(* strict reading: the guard excludes detaching a veto *)
Theorem strict_statement P g steps st0 :
  init P g = Ok st0 -> wf_chain true P (chain st0) ->
  hist (step_wf P) P st0 steps -> hist (fun st s => step_guard st s) P st0 steps ->
  exists st_r,
    replay P (chain (run P st0 steps)) = Ok st_r /\
    agree true (run P st0 steps) st_r /\
    (forall s, step_guard (run P st0 steps) s ->
       snd (do_step P (run P st0 steps) s) = snd (do_step P st_r s)).
Proof.
  intros Hi Hwf H1 H2.
  assert (Hh : hist_ok true P st0 steps) by (apply hist_and; assumption).
  destruct (history_vs_replay true P g steps st0 Hi Hwf Hh) as [st_r [Hr [Ha [HI [HIr Hwf']]]]].
  exists st_r. split; [exact Hr|]. split; [exact Ha|].
  intros s Hg. apply (acceptance_strict P _ st_r s HI HIr); [apply Ha | exact Hwf' | exact Hg].
Qed.

(* ------------------------------------------------------------------ satisfiability of the hypotheses,
   and the concrete history on which the full statement fails *)

Definition P0 : params := mkP 1 (fun _ => 3).

Definition cbtx (i : N) : tx := mkTx i [] [] [].
Definition eblk (i h : N) : block := mkB i h [cbtx (100 + i)].

(* genesis pays output 1 (coinbase, mature after one block) *)
Definition g0 : block := mkB 0 0 [mkTx 100 [] [((1, KOrig), true)] []].
(* block 1 turns it into a vote output 2 and registers contract 7 *)
Definition b1 : block :=
  mkB 1 1 [cbtx 101; mkTx 11 [(1, KOrig)] [((2, KVote), true); ((5, KOrig), true)] [7]].
Definition b2 := eblk 2 2.
Definition b3 := eblk 3 3.
(* branch X: block 4 vetoes the vote output (height 1 + lock 3 <= 4) *)
Definition b4x : block := mkB 4 4 [cbtx 104; mkTx 41 [(2, KVote)] [((3, KOrig), true)] []].
(* branch Y forks at block 1: four empty blocks *)
Definition y2 := eblk 12 2.
Definition y3 := eblk 13 3.
Definition y4 := eblk 14 4.
Definition y5 := eblk 15 5.
(* branch Z forks at block 1 too and vetoes the vote output at height 3: locked until 4 *)
Definition z2 := eblk 22 2.
Definition z3 : block := mkB 23 3 [cbtx 123; mkTx 42 [(2, KVote)] [((4, KOrig), true)] []].
Definition z4 := eblk 24 4.
Definition z5 := eblk 25 5.
Definition z6 := eblk 26 6.

Definition hist_x : list step := [Reorg 0 [b1]; Reorg 0 [b2]; Reorg 0 [b3]; Reorg 0 [b4x]].
Definition hist_xy : list step := hist_x ++ [Reorg 3 [y2; y3; y4; y5]].
Definition probe_z : step := Reorg 4 [z2; z3; z4; z5; z6].

Definition st_g0 : state := match init P0 g0 with Ok s => s | _ => mkS [] [] [] end.

Ltac nodup := repeat (constructor; [cbn; intuition discriminate|]); constructor.

Ltac wfc := split; [cbn; nodup | split; [cbn; nodup | first [apply heights_true |
  intros b Hb X H; cbn in Hb; repeat (destruct Hb as [<-|Hb]; [cbn; lia|]); destruct Hb]]].
