(* C10 — the lazily loaded view over the database behaves like one total map:
   running an operation on the view [v] (after getTransactionsUtxo) and on the
   overlay [v ++ db] gives the same outcome, and the results stay overlays. *)
From Coq Require Import List NArith Bool Lia.
From Verif Require Import Outcome.
From C10 Require Import Model Maps.
Import ListNotations.
Open Scope N_scope.

(* the view already answers for [o] the way the overlay does *)
Definition cov (db v : umap) (o : outid) : Prop := uget v o <> None \/ uget db o = None.

Definition ext (v v' : umap) : Prop := forall o, uget v o <> None -> uget v' o <> None.

Lemma ext_refl v : ext v v.
Proof. intros o H; exact H. Qed.

Lemma ext_trans a b c : ext a b -> ext b c -> ext a c.
Proof. intros H1 H2 o H. apply H2, H1, H. Qed.

Lemma ext_uset v o e : ext v (uset v o e).
Proof. intros o' H. rewrite uget_uset. destruct (outid_eqb o' o); [discriminate | exact H]. Qed.

Lemma cov_ext db v v' o : ext v v' -> cov db v o -> cov db v' o.
Proof. intros He [H|H]; [left; apply He; exact H | right; exact H]. Qed.

(* ------------------------------------------------------------------ apply *)

Lemma apply_spend_app P H db v o :
  cov db v o -> apply_spend P H (v ++ db) o = omap (fun x => x ++ db) (apply_spend P H v o).
Proof.
  intros Hc. unfold apply_spend. rewrite uget_app. destruct (uget v o) as [e|] eqn:Eg.
  - destruct (e_spent e); [reflexivity|]. destruct (locked P e H); reflexivity.
  - destruct Hc as [Hc|Hc]; [congruence|]. rewrite Hc. reflexivity.
Qed.

Lemma apply_spend_ext P H v o v' : apply_spend P H v o = Ok v' -> ext v v'.
Proof. intros Ha. apply apply_spend_ok in Ha. destruct Ha as [e [_ [_ [_ ->]]]]. apply ext_uset. Qed.

Lemma apply_spends_ext P H l : forall v v', apply_spends P H v l = Ok v' -> ext v v'.
Proof.
  induction l as [|a l IH]; intros v v' Ha; cbn in Ha.
  - inversion Ha; subst. apply ext_refl.
  - apply obind_ok in Ha. destruct Ha as [v1 [H1 H2]].
    eapply ext_trans; [eapply apply_spend_ext; exact H1 | apply IH; exact H2].
Qed.

Lemma apply_spends_app P H db l : forall v,
  (forall o, In o l -> cov db v o) ->
  apply_spends P H (v ++ db) l = omap (fun x => x ++ db) (apply_spends P H v l).
Proof.
  induction l as [|a l IH]; intros v Hc; [reflexivity|].
  cbn. rewrite apply_spend_app by (apply Hc; left; reflexivity).
  destruct (apply_spend P H v a) as [v1| |] eqn:E1; cbn; try reflexivity.
  apply IH. intros o Ho. eapply cov_ext; [eapply apply_spend_ext; exact E1 | apply Hc; right; exact Ho].
Qed.

Lemma apply_outs_app cb H db l : forall v,
  apply_outs cb H (v ++ db) l = apply_outs cb H v l ++ db.
Proof.
  induction l as [|oz l IH]; intros v; [reflexivity|].
  unfold apply_outs in *. cbn [fold_left]. rewrite <- IH. f_equal.
  destruct oz as [[n k] nz]. unfold apply_out. cbn [snd]. destruct k, nz; reflexivity.
Qed.

Lemma apply_outs_ext cb H l v : ext v (apply_outs cb H v l).
Proof.
  intros o Ho. rewrite apply_outs_get. destruct (creates l o); [discriminate | exact Ho].
Qed.

Lemma apply_tx_ext P b v t v' : apply_tx P b v t = Ok v' -> ext v v'.
Proof.
  unfold apply_tx. intros Ha. apply obind_ok in Ha. destruct Ha as [v1 [H1 H2]]. inversion H2; subst.
  eapply ext_trans; [eapply apply_spends_ext; exact H1 | apply apply_outs_ext].
Qed.

Lemma apply_tx_app P b db v t :
  (forall o, In o (t_spends t) -> cov db v o) ->
  apply_tx P b (v ++ db) t = omap (fun x => x ++ db) (apply_tx P b v t).
Proof.
  intros Hc. unfold apply_tx. rewrite apply_spends_app by exact Hc.
  destruct (apply_spends P (b_height b) v (t_spends t)); cbn; try reflexivity.
  rewrite apply_outs_app. reflexivity.
Qed.

Lemma apply_txs_app P b db l : forall v,
  (forall o, In o (flat_map t_spends l) -> cov db v o) ->
  apply_txs P b (v ++ db) l = omap (fun x => x ++ db) (apply_txs P b v l).
Proof.
  induction l as [|t l IH]; intros v Hc; [reflexivity|].
  cbn. rewrite apply_tx_app by (intros o Ho; apply Hc; cbn; apply in_or_app; left; exact Ho).
  destruct (apply_tx P b v t) as [v1| |] eqn:E1; cbn; try reflexivity.
  apply IH. intros o Ho. eapply cov_ext; [eapply apply_tx_ext; exact E1|].
  apply Hc. cbn. apply in_or_app. right; exact Ho.
Qed.

(* ------------------------------------------------------------------ detach *)

Lemma detach_spend_app db v o :
  cov db v o -> detach_spend (v ++ db) o = omap (fun x => x ++ db) (detach_spend v o).
Proof.
  intros Hc. unfold detach_spend. rewrite uget_app. destruct (uget v o) as [e|] eqn:Eg.
  - destruct (snd o); try reflexivity; destruct (e_spent e); reflexivity.
  - destruct Hc as [Hc|Hc]; [congruence|]. rewrite Hc. destruct (snd o); reflexivity.
Qed.

Lemma detach_spend_ext v o v' : detach_spend v o = Ok v' -> ext v v'.
Proof.
  unfold detach_spend. intros Hd.
  destruct (snd o); try discriminate;
    (destruct (uget v o) as [e|]; [destruct (e_spent e); [|discriminate]|]; inversion Hd; subst; apply ext_uset).
Qed.

Lemma detach_spends_ext l : forall v v', detach_spends v l = Ok v' -> ext v v'.
Proof.
  induction l as [|a l IH]; intros v v' Ha; cbn in Ha.
  - inversion Ha; subst. apply ext_refl.
  - apply obind_ok in Ha. destruct Ha as [v1 [H1 H2]].
    eapply ext_trans; [eapply detach_spend_ext; exact H1 | apply IH; exact H2].
Qed.

Lemma detach_spends_app db l : forall v,
  (forall o, In o l -> cov db v o) ->
  detach_spends (v ++ db) l = omap (fun x => x ++ db) (detach_spends v l).
Proof.
  induction l as [|a l IH]; intros v Hc; [reflexivity|].
  cbn. rewrite detach_spend_app by (apply Hc; left; reflexivity).
  destruct (detach_spend v a) as [v1| |] eqn:E1; cbn; try reflexivity.
  apply IH. intros o Ho. eapply cov_ext; [eapply detach_spend_ext; exact E1 | apply Hc; right; exact Ho].
Qed.

Lemma detach_outs_app db l : forall v, detach_outs (v ++ db) l = detach_outs v l ++ db.
Proof.
  induction l as [|oz l IH]; intros v; [reflexivity|].
  unfold detach_outs in *. cbn [fold_left]. rewrite <- IH. f_equal.
  destruct oz as [[n k] nz]. unfold detach_out. cbn [snd]. destruct k, nz; reflexivity.
Qed.

Lemma detach_outs_ext l v : ext v (detach_outs v l).
Proof.
  intros o Ho. rewrite detach_outs_get. destruct (creates l o); [discriminate | exact Ho].
Qed.

Lemma detach_tx_ext v t v' : detach_tx v t = Ok v' -> ext v v'.
Proof.
  unfold detach_tx. intros Ha. apply obind_ok in Ha. destruct Ha as [v1 [H1 H2]]. inversion H2; subst.
  eapply ext_trans; [eapply detach_spends_ext; exact H1 | apply detach_outs_ext].
Qed.

Lemma detach_tx_app db v t :
  (forall o, In o (t_spends t) -> cov db v o) ->
  detach_tx (v ++ db) t = omap (fun x => x ++ db) (detach_tx v t).
Proof.
  intros Hc. unfold detach_tx. rewrite detach_spends_app by exact Hc.
  destruct (detach_spends v (t_spends t)); cbn; try reflexivity.
  rewrite detach_outs_app. reflexivity.
Qed.

Lemma detach_txs_appdb db l : forall v,
  (forall o, In o (flat_map t_spends l) -> cov db v o) ->
  detach_txs (v ++ db) l = omap (fun x => x ++ db) (detach_txs v l).
Proof.
  induction l as [|t l IH]; intros v Hc; [reflexivity|].
  cbn. rewrite detach_tx_app by (intros o Ho; apply Hc; cbn; apply in_or_app; left; exact Ho).
  destruct (detach_tx v t) as [v1| |] eqn:E1; cbn; try reflexivity.
  apply IH. intros o Ho. eapply cov_ext; [eapply detach_tx_ext; exact E1|].
  apply Hc. cbn. apply in_or_app. right; exact Ho.
Qed.

Lemma in_flat_map_rev {A B} (f : A -> list B) l x : In x (flat_map f (rev l)) -> In x (flat_map f l).
Proof.
  rewrite !in_flat_map. intros [a [H1 H2]]. exists a. split; [apply in_rev; exact H1 | exact H2].
Qed.

(* ------------------------------------------------------------------ load *)

Lemma load1_get db v a o : uget (load1 db v a ++ db) o = uget (v ++ db) o.
Proof.
  unfold load1. destruct (uget v a) as [e|] eqn:Ev; [reflexivity|].
  destruct (uget db a) as [e|] eqn:Ed; [|reflexivity].
  rewrite !uget_app, uget_uset. destruct (outid_eqb o a) eqn:Eo; [|reflexivity].
  apply outid_eqb_eq in Eo; subst o. rewrite Ev, Ed. reflexivity.
Qed.

Lemma load1_ext db v a : ext v (load1 db v a).
Proof.
  unfold load1. destruct (uget v a); [apply ext_refl|]. destruct (uget db a); [apply ext_uset | apply ext_refl].
Qed.

Lemma load1_cov db v a : cov db (load1 db v a) a.
Proof.
  unfold load1, cov. destruct (uget v a) as [e|] eqn:Ev; [left; rewrite Ev; discriminate|].
  destruct (uget db a) as [e|] eqn:Ed; [left; rewrite uget_uset, outid_eqb_refl; discriminate | right; reflexivity].
Qed.

Lemma load_list db l : forall v,
  (forall o, uget (fold_left (load1 db) l v ++ db) o = uget (v ++ db) o) /\
  ext v (fold_left (load1 db) l v) /\
  (forall o, In o l -> cov db (fold_left (load1 db) l v) o).
Proof.
  induction l as [|a l IH]; intros v.
  - split; [reflexivity|]. split; [apply ext_refl | intros o []].
  - cbn [fold_left]. destruct (IH (load1 db v a)) as [H1 [H2 H3]]. split.
    + intros o. rewrite H1. apply load1_get.
    + split; [eapply ext_trans; [apply load1_ext | exact H2]|].
      intros o [->|Ho]; [eapply cov_ext; [exact H2 | apply load1_cov] | apply H3; exact Ho].
Qed.

Lemma load_spec db v b :
  (forall o, uget (load db v b ++ db) o = uget (v ++ db) o) /\
  (forall o, In o (block_spends b) -> cov db (load db v b) o).
Proof.
  unfold load. destruct (load_list db (block_spends b) v) as [H1 [_ H3]]. split; assumption.
Qed.

Lemma omap_ok {A B} (f : A -> B) (x : res A) y : omap f x = Ok y -> exists a, x = Ok a /\ y = f a.
Proof. destruct x; cbn; intros H; try discriminate. inversion H; subst. eauto. Qed.
