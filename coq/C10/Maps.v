(* C10 — lemmas about the association-list maps and the four loops of the utxo
   view, stated pointwise (through [uget]). *)
From Coq Require Import List NArith Bool Lia.
From Verif Require Import Outcome.
From C10 Require Import Model.
Import ListNotations.
Open Scope N_scope.

(* ------------------------------------------------------------------ equality on ids *)

Lemma kind_eqb_eq a b : kind_eqb a b = true <-> a = b.
Proof. destruct a, b; cbn; split; intros; congruence. Qed.

Lemma outid_eqb_eq a b : outid_eqb a b = true <-> a = b.
Proof.
  destruct a as [n k], b as [n' k']; unfold outid_eqb; cbn [fst snd]. rewrite andb_true_iff, N.eqb_eq, kind_eqb_eq.
  split; [intros [-> ->]; reflexivity | intros E; inversion E; auto].
Qed.

Lemma outid_eqb_refl a : outid_eqb a a = true.
Proof. apply outid_eqb_eq; reflexivity. Qed.

Lemma outid_eqb_neq a b : a <> b -> outid_eqb a b = false.
Proof. intros H. destruct (outid_eqb a b) eqn:E; [apply outid_eqb_eq in E; contradiction | reflexivity]. Qed.

Lemma outid_eq_dec (a b : outid) : {a = b} + {a <> b}.
Proof. destruct (outid_eqb a b) eqn:E; [left; apply outid_eqb_eq; exact E | right; intros ->; rewrite outid_eqb_refl in E; discriminate]. Qed.

Ltac oeq a b := destruct (outid_eq_dec a b) as [?|?];
  [subst; rewrite ?outid_eqb_refl in * | rewrite ?(outid_eqb_neq a b) in * by assumption].

(* ------------------------------------------------------------------ uget *)

Lemma uget_uset m o e o' : uget (uset m o e) o' = if outid_eqb o' o then Some e else uget m o'.
Proof. reflexivity. Qed.

Lemma uget_udel m o o' : uget (udel m o) o' = if outid_eqb o' o then None else uget m o'.
Proof.
  induction m as [|[k e] m IH].
  - cbn. destruct (outid_eqb o' o); reflexivity.
  - unfold udel in *. cbn [filter fst]. destruct (outid_eqb o k) eqn:Eok; cbn [negb uget].
    + apply outid_eqb_eq in Eok; subst k. rewrite IH. destruct (outid_eqb o' o); reflexivity.
    + rewrite IH. destruct (outid_eqb o' o) eqn:E1.
      * apply outid_eqb_eq in E1; subst o'. rewrite Eok. reflexivity.
      * reflexivity.
Qed.

Lemma uget_app v db o :
  uget (v ++ db) o = match uget v o with Some e => Some e | None => uget db o end.
Proof.
  induction v as [|[k e] v IH]; cbn; [reflexivity|].
  destruct (outid_eqb o k); [reflexivity | exact IH].
Qed.

(* ------------------------------------------------------------------ outcome helpers *)

Definition omap {A B} (f : A -> B) (x : res A) : res B :=
  match x with Ok a => Ok (f a) | Err e => Err e | Panic p => Panic p end.

Lemma obind_ok {A B} (x : res A) (f : A -> res B) b :
  obind x f = Ok b -> exists a, x = Ok a /\ f a = Ok b.
Proof. destruct x; cbn; intros H; try discriminate. eauto. Qed.

(* ------------------------------------------------------------------ outputs created by a transaction *)

Definition counts (oz : outid * bool) : bool :=
  snd oz && negb (kind_eqb (snd (fst oz)) KOther).

Definition couts (l : list (outid * bool)) : list outid := map fst (filter counts l).

Definition creates (l : list (outid * bool)) (o : outid) : bool :=
  existsb (fun oz => outid_eqb o (fst oz) && counts oz) l.

Lemma creates_In l o : creates l o = true <-> In o (couts l).
Proof.
  unfold creates, couts. rewrite existsb_exists, in_map_iff. split.
  - intros [oz [Hin H]]. apply andb_prop in H. destruct H as [H1 H2]. apply outid_eqb_eq in H1.
    exists oz. split; [auto|]. apply filter_In; auto.
  - intros [oz [H1 H2]]. apply filter_In in H2. destruct H2 as [H2 H3]. exists oz. split; [auto|].
    subst o. rewrite outid_eqb_refl, H3. reflexivity.
Qed.

Lemma creates_cons oz l o : creates (oz :: l) o = (outid_eqb o (fst oz) && counts oz) || creates l o.
Proof. reflexivity. Qed.

Definition mk_out (cb : bool) (H : N) (o : outid) : entry :=
  mkE (if cb then TCoinbase else tk (snd o)) H false.

Definition mk_gone (o : outid) : entry := mkE (tk (snd o)) 0 true.

Lemma apply_out_get cb H v oz o :
  uget (apply_out cb H v oz) o =
  if outid_eqb o (fst oz) && counts oz then Some (mk_out cb H o) else uget v o.
Proof.
  destruct oz as [[n k] nz]. unfold apply_out, counts, mk_out. cbn [fst snd].
  destruct k, nz; cbn [kind_eqb negb andb]; rewrite ?andb_false_r, ?andb_true_r; try reflexivity;
    rewrite uget_uset; destruct (outid_eqb o _) eqn:E; try reflexivity;
    apply outid_eqb_eq in E; subst o; reflexivity.
Qed.

Lemma apply_outs_get cb H l : forall v o,
  uget (apply_outs cb H v l) o = if creates l o then Some (mk_out cb H o) else uget v o.
Proof.
  induction l as [|oz l IH]; intros v o; [reflexivity|].
  unfold apply_outs in *. cbn [fold_left]. rewrite IH, creates_cons, apply_out_get.
  destruct (creates l o); [rewrite orb_true_r; reflexivity|]. rewrite orb_false_r. reflexivity.
Qed.

Lemma detach_out_get v oz o :
  uget (detach_out v oz) o =
  if outid_eqb o (fst oz) && counts oz then Some (mk_gone o) else uget v o.
Proof.
  destruct oz as [[n k] nz]. unfold detach_out, counts, mk_gone. cbn [fst snd].
  destruct k, nz; cbn [kind_eqb negb andb]; rewrite ?andb_false_r, ?andb_true_r; try reflexivity;
    rewrite uget_uset; destruct (outid_eqb o _) eqn:E; try reflexivity;
    apply outid_eqb_eq in E; subst o; reflexivity.
Qed.

Lemma detach_outs_get l : forall v o,
  uget (detach_outs v l) o = if creates l o then Some (mk_gone o) else uget v o.
Proof.
  induction l as [|oz l IH]; intros v o; [reflexivity|].
  unfold detach_outs in *. cbn [fold_left]. rewrite IH, creates_cons, detach_out_get.
  destruct (creates l o); [rewrite orb_true_r; reflexivity|]. rewrite orb_false_r. reflexivity.
Qed.

(* ------------------------------------------------------------------ spends *)

Definition spendable (P : params) (H : N) (eo : option entry) : Prop :=
  exists e, eo = Some e /\ e_spent e = false /\ locked P e H = false.

Lemma apply_spend_ok P H v o v' :
  apply_spend P H v o = Ok v' ->
  exists e, uget v o = Some e /\ e_spent e = false /\ locked P e H = false /\ v' = uset v o (spend e).
Proof.
  unfold apply_spend. destruct (uget v o) as [e|]; [|discriminate].
  destruct (e_spent e) eqn:Es; [discriminate|]. destruct (locked P e H) eqn:El; [discriminate|].
  intros E; inversion E; subst. eauto.
Qed.

Lemma apply_spends_ok P H l : forall v v',
  apply_spends P H v l = Ok v' ->
  NoDup l /\
  (forall o, In o l -> exists e, uget v o = Some e /\ e_spent e = false /\ locked P e H = false /\
                                 uget v' o = Some (spend e)) /\
  (forall o, ~ In o l -> uget v' o = uget v o).
Proof.
  induction l as [|a l IH]; intros v v' Hr.
  - cbn in Hr. inversion Hr; subst. split; [apply NoDup_nil|]. split; [intros o [] | reflexivity].
  - cbn in Hr. apply obind_ok in Hr. destruct Hr as [v1 [H1 H2]].
    apply apply_spend_ok in H1. destruct H1 as [e [Hg [Hs [Hl ->]]]].
    apply IH in H2. destruct H2 as [Hnd [Hin Hout]].
    assert (Hna : ~ In a l).
    { intros Ha. destruct (Hin a Ha) as [e' [Hg' [Hs' _]]]. rewrite uget_uset, outid_eqb_refl in Hg'.
      inversion Hg'; subst. cbn in Hs'. discriminate. }
    split; [constructor; assumption|]. split.
    + intros o [->|Ho].
      * exists e. repeat split; auto. rewrite (Hout o Hna), uget_uset, outid_eqb_refl. reflexivity.
      * destruct (Hin o Ho) as [e' [Hg' [Hs' [Hl' Hv']]]]. exists e'. repeat split; auto.
        rewrite uget_uset in Hg'. destruct (outid_eq_dec o a) as [->|Hne]; [contradiction|].
        rewrite (outid_eqb_neq _ _ Hne) in Hg'. exact Hg'.
    + intros o Ho. rewrite Hout by (intros X; apply Ho; right; exact X).
      rewrite uget_uset. destruct (outid_eq_dec o a) as [->|Hne]; [exfalso; apply Ho; left; reflexivity|].
      rewrite (outid_eqb_neq _ _ Hne). reflexivity.
Qed.

Lemma apply_spends_succeeds P H l : forall v,
  NoDup l -> (forall o, In o l -> spendable P H (uget v o)) ->
  exists v', apply_spends P H v l = Ok v'.
Proof.
  induction l as [|a l IH]; intros v Hnd Hsp; [eexists; reflexivity|].
  inversion Hnd as [|? ? Hna Hnd']; subst.
  destruct (Hsp a (or_introl eq_refl)) as [e [Hg [Hs Hl]]].
  cbn. unfold apply_spend. rewrite Hg, Hs, Hl. cbn. apply IH; [assumption|].
  intros o Ho. rewrite uget_uset. destruct (outid_eq_dec o a) as [->|Hne]; [contradiction|].
  rewrite (outid_eqb_neq _ _ Hne). apply Hsp. right; exact Ho.
Qed.

(* what detachSpendUtxo leaves under a spent id *)
Definition revive (o : outid) (eo : option entry) : entry :=
  match eo with Some e => unspend e | None => mkE (tk (snd o)) 0 false end.

Definition revivable (o : outid) (eo : option entry) : Prop :=
  snd o <> KOther /\ match eo with Some e => e_spent e = true | None => True end.

Lemma detach_spend_ok v o :
  revivable o (uget v o) -> detach_spend v o = Ok (uset v o (revive o (uget v o))).
Proof.
  intros [Hk He]. unfold detach_spend, revive. destruct (uget v o) as [e|].
  - rewrite He. destruct (snd o); try reflexivity. contradiction.
  - destruct (snd o); try reflexivity. contradiction.
Qed.

Lemma detach_spends_ok l : forall v,
  NoDup l -> (forall o, In o l -> revivable o (uget v o)) ->
  exists v', detach_spends v l = Ok v' /\
    (forall o, In o l -> uget v' o = Some (revive o (uget v o))) /\
    (forall o, ~ In o l -> uget v' o = uget v o).
Proof.
  induction l as [|a l IH]; intros v Hnd Hr.
  - exists v. split; [reflexivity|]. split; [intros o [] | reflexivity].
  - inversion Hnd as [|? ? Hna Hnd']; subst.
    cbn. rewrite (detach_spend_ok v a) by (apply Hr; left; reflexivity). cbn.
    destruct (IH (uset v a (revive a (uget v a))) Hnd') as [v' [Hd [Hin Hout]]].
    { intros o Ho. rewrite uget_uset. destruct (outid_eq_dec o a) as [->|Hne]; [contradiction|].
      rewrite (outid_eqb_neq _ _ Hne). apply Hr. right; exact Ho. }
    exists v'. split; [exact Hd|]. split.
    + intros o [->|Ho].
      * rewrite (Hout o Hna), uget_uset, outid_eqb_refl. reflexivity.
      * rewrite (Hin o Ho), uget_uset. destruct (outid_eq_dec o a) as [->|Hne]; [contradiction|].
        rewrite (outid_eqb_neq _ _ Hne). reflexivity.
    + intros o Ho. rewrite Hout by (intros X; apply Ho; right; exact X). rewrite uget_uset.
      destruct (outid_eq_dec o a) as [->|Hne]; [exfalso; apply Ho; left; reflexivity|].
      rewrite (outid_eqb_neq _ _ Hne). reflexivity.
Qed.

Lemma detach_txs_app l1 : forall v l2,
  detach_txs v (l1 ++ l2) = obind (detach_txs v l1) (fun v' => detach_txs v' l2).
Proof.
  induction l1 as [|t l1 IH]; intros v l2; [reflexivity|].
  cbn. destruct (detach_tx v t); cbn; [apply IH | reflexivity | reflexivity].
Qed.

(* ------------------------------------------------------------------ save *)

Lemma save_get db v o :
  uget (save db v) o =
  match uget v o with
  | Some e => if dead e then None else Some e
  | None => uget db o
  end.
Proof.
  induction v as [|[k e] v IH]; [reflexivity|].
  cbn [save fold_right uget]. unfold save1. cbn [fst snd]. fold (save db v).
  destruct (dead e) eqn:Ed.
  - rewrite uget_udel. destruct (outid_eqb o k); [rewrite Ed; reflexivity | exact IH].
  - rewrite uget_uset. destruct (outid_eqb o k); [rewrite Ed; reflexivity | exact IH].
Qed.
