(* C10 — the registered-contract table: the view built by reorganizeChain and the
   delete-then-set batch of SaveChainStatus leave "the first registering
   transaction on the main chain" under every contract hash. *)
From Coq Require Import List NArith Bool Lia.
From Verif Require Import Outcome.
From C10 Require Import Model Maps.
Import ListNotations.
Open Scope N_scope.

(* ------------------------------------------------------------------ the specification *)

Definition regs_tx (h : N) (t : tx) : bool := existsb (N.eqb h) (t_regs t).

Definition reg_block (b : block) (h : N) : option N :=
  match find (regs_tx h) (b_txs b) with Some t => Some (t_id t) | None => None end.

Definition orelse (a b : option N) : option N := match a with Some x => Some x | None => b end.

(* first registering transaction along the chain (tip first, so the oldest block is last) *)
Fixpoint ctab (c : list block) (h : N) : option N :=
  match c with
  | [] => None
  | b :: r => orelse (ctab r h) (reg_block b h)
  end.

Lemma ctab_app l1 l2 h : ctab (l1 ++ l2) h = orelse (ctab l2 h) (ctab l1 h).
Proof.
  induction l1 as [|b l1 IH]; cbn.
  - destruct (ctab l2 h); reflexivity.
  - rewrite IH. destruct (ctab l2 h); cbn; reflexivity.
Qed.

Definition chain_txids (c : list block) : list N := flat_map (fun b => map t_id (b_txs b)) c.

Lemma reg_block_in b h x : reg_block b h = Some x -> In x (map t_id (b_txs b)).
Proof.
  unfold reg_block. destruct (find (regs_tx h) (b_txs b)) as [t|] eqn:Ef; [|discriminate].
  intros E; inversion E; subst. apply find_some in Ef. apply in_map. tauto.
Qed.

Lemma ctab_in c h x : ctab c h = Some x -> In x (chain_txids c).
Proof.
  induction c as [|b c IH]; cbn; [discriminate|].
  destruct (ctab c h) as [y|]; cbn; intros E.
  - inversion E; subst. apply in_or_app. right. apply IH. reflexivity.
  - apply in_or_app. left. eapply reg_block_in. exact E.
Qed.

(* ------------------------------------------------------------------ cmap *)

Definition ckeys (m : cmap) : list N := map fst m.

Lemma cget_cdel m k h : cget (cdel m k) h = if N.eqb h k then None else cget m h.
Proof.
  induction m as [|[k' x] m IH].
  - cbn. destruct (N.eqb h k); reflexivity.
  - unfold cdel in *. cbn [filter fst]. destruct (N.eqb k k') eqn:Ek; cbn [negb cget].
    + apply N.eqb_eq in Ek; subst k'. rewrite IH. destruct (N.eqb h k); reflexivity.
    + rewrite IH. destruct (N.eqb h k) eqn:E1; [|reflexivity].
      apply N.eqb_eq in E1; subst h. rewrite Ek. reflexivity.
Qed.

Lemma cget_cput m k x h : cget (cput m k x) h = if N.eqb h k then Some x else cget m h.
Proof. unfold cput. cbn [cget]. rewrite cget_cdel. destruct (N.eqb h k); reflexivity. Qed.

Lemma ckeys_cdel m k : ~ In k (ckeys (cdel m k)) /\ (NoDup (ckeys m) -> NoDup (ckeys (cdel m k))) /\
                       (forall h, In h (ckeys (cdel m k)) -> In h (ckeys m)).
Proof.
  induction m as [|[k' x] m [IH1 [IH2 IH3]]]; cbn.
  - split; [tauto|]. split; [auto | tauto].
  - unfold cdel in *. cbn [filter fst]. destruct (N.eqb k k') eqn:Ek; cbn [negb].
    + split; [exact IH1|]. split.
      * intros H. inversion H; subst. apply IH2; assumption.
      * intros h Hh. right. apply IH3; exact Hh.
    + cbn [ckeys map fst]. split.
      * intros [H|H]; [subst; rewrite N.eqb_refl in Ek; discriminate | apply IH1; exact H].
      * split.
        -- intros H. inversion H; subst. constructor; [intros X; apply H2; apply IH3; exact X | apply IH2; assumption].
        -- intros h [H|H]; [left; exact H | right; apply IH3; exact H].
Qed.

Lemma ckeys_cput m k x : NoDup (ckeys m) -> NoDup (ckeys (cput m k x)).
Proof.
  intros H. unfold cput. cbn. destruct (ckeys_cdel m k) as [H1 [H2 _]]. constructor; [exact H1 | apply H2; exact H].
Qed.

Lemma cget_none_notin m h : ~ In h (ckeys m) -> cget m h = None.
Proof.
  induction m as [|[k x] m IH]; cbn; [reflexivity|]. intros H.
  destruct (N.eqb h k) eqn:E; [apply N.eqb_eq in E; subst; exfalso; apply H; left; reflexivity|].
  apply IH. intros X; apply H; right; exact X.
Qed.

(* ------------------------------------------------------------------ the attach side of the view *)

Lemma capply1_get i a k h :
  cget (capply1 i a k) h = orelse (cget a h) (if N.eqb h k then Some i else None).
Proof.
  unfold capply1. destruct (cget a k) as [y|] eqn:Ek.
  - destruct (cget a h) eqn:Eh; cbn; [reflexivity|].
    destruct (N.eqb h k) eqn:E; [apply N.eqb_eq in E; subst; congruence | reflexivity].
  - rewrite cget_cput. destruct (N.eqb h k) eqn:E.
    + apply N.eqb_eq in E; subst. rewrite Ek. reflexivity.
    + destruct (cget a h); reflexivity.
Qed.

Lemma capply1_keys i a k : NoDup (ckeys a) -> NoDup (ckeys (capply1 i a k)).
Proof. unfold capply1. destruct (cget a k); [auto | apply ckeys_cput]. Qed.

Lemma capply_tx_get i l : forall a h,
  cget (fold_left (capply1 i) l a) h = orelse (cget a h) (if existsb (N.eqb h) l then Some i else None).
Proof.
  induction l as [|k l IH]; intros a h; cbn.
  - destruct (cget a h); reflexivity.
  - rewrite IH, capply1_get. destruct (cget a h); cbn; [reflexivity|].
    destruct (N.eqb h k); cbn; [reflexivity|]. reflexivity.
Qed.

Lemma capply_tx_keys i l : forall a, NoDup (ckeys a) -> NoDup (ckeys (fold_left (capply1 i) l a)).
Proof. induction l as [|k l IH]; intros a H; cbn; [exact H | apply IH, capply1_keys, H]. Qed.

Lemma capply_txs_get l : forall a h,
  cget (fold_left (fun a t => fold_left (capply1 (t_id t)) (t_regs t) a) l a) h =
  orelse (cget a h) (match find (regs_tx h) l with Some t => Some (t_id t) | None => None end).
Proof.
  induction l as [|t l IH]; intros a h; cbn [fold_left find].
  - destruct (cget a h); reflexivity.
  - rewrite IH, capply_tx_get. unfold regs_tx at 2. destruct (cget a h); cbn; [reflexivity|].
    destruct (existsb (N.eqb h) (t_regs t)); reflexivity.
Qed.

Lemma capply_txs_keys l : forall a, NoDup (ckeys a) ->
  NoDup (ckeys (fold_left (fun a t => fold_left (capply1 (t_id t)) (t_regs t) a) l a)).
Proof. induction l as [|t l IH]; intros a H; cbn; [exact H | apply IH, capply_tx_keys, H]. Qed.

Lemma capply_blocks_get news : forall cv h,
  cget (att (fold_left capply_block news cv)) h = orelse (cget (att cv) h) (ctab (rev news) h).
Proof.
  induction news as [|a news IH]; intros cv h; cbn [fold_left rev].
  - cbn. destruct (cget (att cv) h); reflexivity.
  - rewrite IH, ctab_app. unfold capply_block. cbn [att]. rewrite capply_txs_get.
    cbn [ctab]. unfold reg_block. destruct (cget (att cv) h); cbn; [reflexivity|].
    destruct (find (regs_tx h) (b_txs a)); cbn; [reflexivity|]. destruct (ctab (rev news) h); reflexivity.
Qed.

Lemma capply_blocks_keys news : forall cv, NoDup (ckeys (att cv)) ->
  NoDup (ckeys (att (fold_left capply_block news cv))) /\ det (fold_left capply_block news cv) = det cv.
Proof.
  induction news as [|a news IH]; intros cv H; cbn [fold_left]; [split; [exact H | reflexivity]|].
  destruct (IH (capply_block cv a)) as [H1 H2]; [apply capply_txs_keys, H|]. split; [exact H1 | rewrite H2; reflexivity].
Qed.

(* ------------------------------------------------------------------ the detach side *)

Lemma cdetach_tx_get i l : forall d h,
  cget (fold_left (fun d k => cput d k i) l d) h = if existsb (N.eqb h) l then Some i else cget d h.
Proof.
  induction l as [|k l IH]; intros d h; cbn; [reflexivity|].
  rewrite IH, cget_cput. destruct (N.eqb h k); cbn; [|reflexivity].
  destruct (existsb (N.eqb h) l); reflexivity.
Qed.

Lemma cdetach_tx_keys i l : forall d, NoDup (ckeys d) -> NoDup (ckeys (fold_left (fun d k => cput d k i) l d)).
Proof. induction l as [|k l IH]; intros d H; cbn; [exact H | apply IH, ckeys_cput, H]. Qed.

Lemma cdetach_txs_get l : forall d h,
  cget (fold_left (fun d t => fold_left (fun d k => cput d k (t_id t)) (t_regs t) d) (rev l) d) h =
  match find (regs_tx h) l with Some t => Some (t_id t) | None => cget d h end.
Proof.
  induction l as [|t l IH]; intros d h; cbn [rev find fold_left]; [reflexivity|].
  rewrite fold_left_app. cbn [fold_left]. rewrite cdetach_tx_get. unfold regs_tx at 1.
  destruct (existsb (N.eqb h) (t_regs t)); [reflexivity | apply IH].
Qed.

Lemma cdetach_txs_keys l : forall d, NoDup (ckeys d) ->
  NoDup (ckeys (fold_left (fun d t => fold_left (fun d k => cput d k (t_id t)) (t_regs t) d) l d)).
Proof. induction l as [|t l IH]; intros d H; cbn; [exact H | apply IH, cdetach_tx_keys, H]. Qed.

Lemma cdetach_blocks_get ds : forall cv h,
  cget (det (fold_left cdetach_block ds cv)) h = orelse (ctab ds h) (cget (det cv) h).
Proof.
  induction ds as [|d ds IH]; intros cv h; cbn [fold_left ctab]; [reflexivity|].
  rewrite IH. unfold cdetach_block. cbn [det]. rewrite cdetach_txs_get. unfold reg_block.
  destruct (ctab ds h); cbn; [reflexivity|]. destruct (find (regs_tx h) (b_txs d)); reflexivity.
Qed.

Lemma cdetach_blocks_keys ds : forall cv, NoDup (ckeys (det cv)) ->
  NoDup (ckeys (det (fold_left cdetach_block ds cv))) /\ att (fold_left cdetach_block ds cv) = att cv.
Proof.
  induction ds as [|d ds IH]; intros cv H; cbn [fold_left]; [split; [exact H | reflexivity]|].
  destruct (IH (cdetach_block cv d)) as [H1 H2]; [apply cdetach_txs_keys, H|]. split; [exact H1 | rewrite H2; reflexivity].
Qed.

(* ------------------------------------------------------------------ the batch *)

Definition bstep (h : N) (acc : option N) (op : bop) : option N :=
  match op with
  | BDel k => if N.eqb h k then None else acc
  | BSet k x => if N.eqb h k then Some x else acc
  end.

Lemma fold_bapply_get h ops : forall db,
  cget (fold_left bapply ops db) h = fold_left (bstep h) ops (cget db h).
Proof.
  induction ops as [|op ops IH]; intros db; [reflexivity|].
  cbn [fold_left]. rewrite IH. f_equal. destruct op; cbn [bapply bstep cget]; [apply cget_cdel|].
  destruct (N.eqb h h0); reflexivity.
Qed.

Definition delcond (db : cmap) (p : N * N) : bool := opt_eqb (cget db (fst p)) (Some (snd p)).

Lemma existsb_key_none {A} (f : N * N -> A -> bool) (g : N * N -> bool) h (m : cmap) :
  ~ In h (ckeys m) -> existsb (fun p => N.eqb h (fst p) && g p) m = false.
Proof.
  induction m as [|[k x] m IH]; cbn; [reflexivity|]. intros H.
  destruct (N.eqb h k) eqn:E; [apply N.eqb_eq in E; subst; exfalso; apply H; left; reflexivity|].
  cbn. apply IH. intros X; apply H; right; exact X.
Qed.

Lemma dels_eff db h dt : forall acc,
  fold_left (bstep h) (flat_map (fun p => if delcond db p then [BDel (fst p)] else []) dt) acc =
  if existsb (fun p => N.eqb h (fst p) && delcond db p) dt then None else acc.
Proof.
  induction dt as [|p dt IH]; intros acc; [reflexivity|].
  cbn [flat_map existsb]. rewrite fold_left_app, IH.
  destruct (delcond db p); cbn [fold_left bstep].
  - destruct (N.eqb h (fst p)); cbn; [destruct (existsb _ dt); reflexivity | reflexivity].
  - rewrite andb_false_r. reflexivity.
Qed.

Lemma existsb_del db h dt :
  NoDup (ckeys dt) ->
  existsb (fun p => N.eqb h (fst p) && delcond db p) dt =
  match cget dt h with Some x => opt_eqb (cget db h) (Some x) | None => false end.
Proof.
  induction dt as [|[k x] dt IH]; intros Hnd; [reflexivity|].
  cbn [ckeys map fst] in Hnd. inversion Hnd; subst. cbn [existsb cget fst].
  destruct (N.eqb h k) eqn:E.
  - apply N.eqb_eq in E; subst k. rewrite (existsb_key_none (fun _ (_ : unit) => true)) by assumption.
    rewrite orb_false_r. reflexivity.
  - cbn. apply IH. assumption.
Qed.

Definition setops (db : cmap) (dt : cmap) (p : N * N) : list bop :=
  (match cget db (fst p) with None => [BSet (fst p) (snd p)] | Some _ => [] end) ++
  (match cget dt (fst p) with
   | Some x => if opt_eqb (cget db (fst p)) (Some x) then [BSet (fst p) (snd p)] else []
   | None => []
   end).

Definition setcond (db dt : cmap) (h : N) : bool :=
  (match cget db h with None => true | Some _ => false end) ||
  (match cget dt h with Some x => opt_eqb (cget db h) (Some x) | None => false end).

Lemma setops_eff db dt h p acc :
  fold_left (bstep h) (setops db dt p) acc =
  if N.eqb h (fst p) && setcond db dt (fst p) then Some (snd p) else acc.
Proof.
  unfold setops, setcond. rewrite fold_left_app.
  destruct (cget db (fst p)) as [y|]; destruct (cget dt (fst p)) as [x|]; cbn [fold_left bstep orb];
    try (destruct (opt_eqb _ _)); cbn [fold_left bstep]; destruct (N.eqb h (fst p)); reflexivity.
Qed.

Lemma sets_eff db dt h a : forall acc,
  NoDup (ckeys a) ->
  fold_left (bstep h) (flat_map (setops db dt) a) acc =
  match cget a h with
  | Some x => if setcond db dt h then Some x else acc
  | None => acc
  end.
Proof.
  induction a as [|[k x] a IH]; intros acc Hnd; [reflexivity|].
  cbn [ckeys map fst] in Hnd. inversion Hnd; subst.
  cbn [flat_map cget]. rewrite fold_left_app, setops_eff, IH by assumption. cbn [fst snd].
  destruct (N.eqb h k) eqn:E.
  - apply N.eqb_eq in E; subst k. rewrite (cget_none_notin a h) by assumption. reflexivity.
  - cbn. reflexivity.
Qed.

Lemma csave_get db cv h :
  NoDup (ckeys (det cv)) -> NoDup (ckeys (att cv)) ->
  cget (csave db cv) h =
  let old := cget db h in
  let deleted := match cget (det cv) h with Some x => opt_eqb old (Some x) | None => false end in
  match cget (att cv) h with
  | Some a => if setcond db (det cv) h then Some a else if deleted then None else old
  | None => if deleted then None else old
  end.
Proof.
  intros Hd Ha. unfold csave. rewrite fold_bapply_get, fold_left_app.
  unfold cdel_ops, cset_ops. change (fun p : N * N => if opt_eqb (cget db (fst p)) (Some (snd p)) then [BDel (fst p)] else [])
    with (fun p => if delcond db p then [BDel (fst p)] else []).
  rewrite dels_eff, existsb_del by assumption.
  change (fun p : N * N => _ ++ _) with (setops db (det cv)).
  rewrite sets_eff by assumption. reflexivity.
Qed.

(* ------------------------------------------------------------------ the table after a reorganisation *)

Lemma opt_eqb_eq a b : opt_eqb a b = true <-> a = b.
Proof.
  destruct a, b; cbn; try (split; [discriminate | congruence]); try tauto.
  rewrite N.eqb_eq. split; congruence.
Qed.

Lemma NoDup_app_disj {A} (l1 l2 : list A) x : NoDup (l1 ++ l2) -> In x l1 -> In x l2 -> False.
Proof.
  induction l1 as [|a l1 IH]; intros H H1 H2; [destruct H1|].
  cbn in H. inversion H; subst. destruct H1 as [->|H1].
  - apply H4. apply in_or_app. right; exact H2.
  - apply IH; assumption.
Qed.

Lemma chain_txids_app l1 l2 : chain_txids (l1 ++ l2) = chain_txids l1 ++ chain_txids l2.
Proof. unfold chain_txids. apply flat_map_app. Qed.

Theorem contracts_reorg db ds base news :
  (forall h, cget db h = ctab (ds ++ base) h) ->
  NoDup (chain_txids (ds ++ base)) ->
  forall h,
    cget (csave db (fold_left capply_block news (fold_left cdetach_block ds (mkCV [] [])))) h =
    ctab (rev news ++ base) h.
Proof.
  intros Hdb Hnd h.
  set (cv1 := fold_left cdetach_block ds (mkCV [] [])).
  destruct (cdetach_blocks_keys ds (mkCV [] [])) as [Kd1 Ka1]; [constructor|]. fold cv1 in Kd1, Ka1.
  destruct (capply_blocks_keys news cv1) as [Ka2 Kd2]; [rewrite Ka1; constructor|].
  rewrite csave_get by (rewrite ?Kd2; assumption). cbn zeta. unfold setcond.
  rewrite Kd2. rewrite capply_blocks_get, Ka1. unfold cv1 at 1 2 3. rewrite !cdetach_blocks_get. cbn [att det cget orelse].
  rewrite Hdb, !ctab_app.
  assert (Hne : forall x y, ctab base h = Some x -> ctab ds h = Some y -> x <> y).
  { intros x y Hx Hy ->. apply ctab_in in Hx, Hy. rewrite chain_txids_app in Hnd.
    exact (NoDup_app_disj _ _ y Hnd Hy Hx). }
  destruct (ctab base h) as [x|] eqn:Eb; cbn [orelse].
  - destruct (ctab ds h) as [y|] eqn:Ed; cbn [orelse].
    + assert (Hf : opt_eqb (Some x) (Some y) = false).
      { destruct (opt_eqb (Some x) (Some y)) eqn:E; [|reflexivity]. apply opt_eqb_eq in E. inversion E; subst.
        exfalso; eapply Hne; reflexivity. }
      rewrite Hf. cbn. destruct (ctab (rev news) h); reflexivity.
    + cbn. destruct (ctab (rev news) h); reflexivity.
  - destruct (ctab ds h) as [y|] eqn:Ed; cbn [orelse].
    + assert (Ht : opt_eqb (Some y) (Some y) = true) by (apply opt_eqb_eq; reflexivity).
      rewrite Ht. cbn. destruct (ctab (rev news) h); reflexivity.
    + cbn. destruct (ctab (rev news) h); reflexivity.
Qed.
