(* C10 — the utxo part on one total map: how the map [E] the implementation works
   on (view overlaid on the database) stays related to the map [M] obtained by
   applying the main chain from genesis, through apply and detach. *)
From Coq Require Import List NArith Bool Lia.
From Verif Require Import Outcome.
From C10 Require Import Model Maps.
Import ListNotations.
Open Scope N_scope.

Section Rel.
Variable sb : bool.        (* true: vote heights are exact; false: they may be lower *)
Variable P : params.

(* no uint64 wrap-around in BlockHeight + VotePendingBlockNums(h) *)
Definition hok (h : N) : Prop := forall H, h + vote_pend P H < 18446744073709551616.
Definition hk (h : N) : Prop := sb = false -> hok h.

Definition hrel (t : utyp) (hi hm : N) : Prop :=
  match t with
  | TNormal => True
  | TCoinbase => hi = hm
  | TVote => if sb then hi = hm else hi <= hm
  end.

Lemma hrel_refl t h : hrel t h h.
Proof. destruct t; cbn; auto. destruct sb; [reflexivity | apply N.le_refl]. Qed.

Definition live_rel (m : entry) (eo : option entry) : Prop :=
  exists e, eo = Some e /\ e_typ e = e_typ m /\ e_spent e = false /\
            hrel (e_typ m) (e_height e) (e_height m).

Definition gone_rel (m : entry) (eo : option entry) : Prop :=
  match eo with
  | None => True
  | Some e => e_typ e = e_typ m /\ e_spent e = true /\ hrel (e_typ m) (e_height e) (e_height m)
  end.

Definition rel (eo mo : option entry) : Prop :=
  match mo with
  | None => match eo with None => True | Some e => e_spent e = true end
  | Some m =>
    if e_spent m then
      match e_typ m with TCoinbase => eo = Some m | _ => gone_rel m eo end
    else live_rel m eo
  end.

Definition R (E M : umap) : Prop := forall o, rel (uget E o) (uget M o).

Definition wfm (M : umap) : Prop :=
  forall o m, uget M o = Some m ->
    snd o <> KOther /\ (e_typ m = TCoinbase \/ e_typ m = tk (snd o)) /\ hk (e_height m).

Lemma rel_refl_live x : e_spent x = false -> rel (Some x) (Some x).
Proof. intros Hx. unfold rel. rewrite Hx. exists x. repeat split; auto. apply hrel_refl. Qed.

Lemma locked_fw m e H :
  live_rel m (Some e) -> hk (e_height m) -> locked P m H = false -> locked P e H = false.
Proof.
  intros [e' [He [Ht [_ Hh]]]] Hk Hl. inversion He; subst e'. unfold locked in *. rewrite Ht.
  destruct (e_typ m); cbn in Hh.
  - reflexivity.
  - rewrite Hh. exact Hl.
  - destruct sb eqn:Esb.
    + rewrite Hh. exact Hl.
    + specialize (Hk Esb H). unfold wrap64 in *.
      rewrite N.mod_small in Hl by exact Hk. rewrite N.mod_small by lia.
      apply N.ltb_ge in Hl. apply N.ltb_ge. lia.
Qed.

Lemma locked_strict m e H :
  sb = true -> live_rel m (Some e) -> locked P e H = locked P m H.
Proof.
  intros Es [e' [He [Ht [_ Hh]]]]. inversion He; subst e'. unfold locked. rewrite Ht.
  destruct (e_typ m); cbn in Hh; [reflexivity | rewrite Hh; reflexivity |].
  rewrite Es in Hh. rewrite Hh. reflexivity.
Qed.

Lemma rel_spent_pair m e :
  e_spent m = false -> live_rel m (Some e) -> rel (Some (spend e)) (Some (spend m)).
Proof.
  intros Hm [e' [He [Ht [Hs Hh]]]]. inversion He; subst e'. unfold rel. cbn [spend e_spent e_typ].
  destruct (e_typ m) eqn:Etm.
  - cbn. rewrite Ht, Etm. repeat split; auto.
  - cbn in Hh. unfold spend. rewrite Ht, Hh, Etm. reflexivity.
  - cbn. rewrite Ht, Etm. repeat split; auto.
Qed.

(* ------------------------------------------------------------------ apply *)

Lemma apply_tx_fw b t E M M' :
  R E M -> wfm M -> apply_tx P b M t = Ok M' ->
  exists E', apply_tx P b E t = Ok E' /\ R E' M'.
Proof.
  intros HR Hwf Ha. unfold apply_tx in *. apply obind_ok in Ha. destruct Ha as [M1 [Hs Ho]].
  inversion Ho; subst M'; clear Ho.
  destruct (apply_spends_ok _ _ _ _ _ Hs) as [Hnd [Hin Hout]].
  destruct (apply_spends_succeeds P (b_height b) (t_spends t) E Hnd) as [E1 HE1].
  { intros o Ho. destruct (Hin o Ho) as [m [Hg [Hsp [Hl _]]]].
    specialize (HR o). rewrite Hg in HR. unfold rel in HR. rewrite Hsp in HR.
    destruct HR as [e [He Hrest]]. exists e. split; [exact He|]. split; [tauto|].
    apply (locked_fw m e); [exists e; tauto | apply (Hwf o m Hg) | exact Hl]. }
  rewrite HE1. cbn. eexists. split; [reflexivity|].
  destruct (apply_spends_ok _ _ _ _ _ HE1) as [_ [HinE HoutE]].
  intros o. rewrite !apply_outs_get. destruct (creates (t_outs t) o).
  { apply rel_refl_live. reflexivity. }
  destruct (in_dec outid_eq_dec o (t_spends t)) as [Hi|Hni].
  - destruct (Hin o Hi) as [m [Hg [Hsp [Hl Hm1]]]]. destruct (HinE o Hi) as [e [HgE [HspE [HlE He1]]]].
    rewrite Hm1, He1. apply rel_spent_pair; [exact Hsp|].
    specialize (HR o). rewrite Hg, HgE in HR. unfold rel in HR. rewrite Hsp in HR. exact HR.
  - rewrite (Hout o Hni), (HoutE o Hni). apply HR.
Qed.

Lemma apply_tx_bw b t E M E' :
  sb = true -> R E M -> apply_tx P b E t = Ok E' -> exists M', apply_tx P b M t = Ok M'.
Proof.
  intros Es HR Ha. unfold apply_tx in *. apply obind_ok in Ha. destruct Ha as [E1 [Hs _]].
  destruct (apply_spends_ok _ _ _ _ _ Hs) as [Hnd [Hin _]].
  destruct (apply_spends_succeeds P (b_height b) (t_spends t) M Hnd) as [M1 HM1].
  { intros o Ho. destruct (Hin o Ho) as [e [Hg [Hsp [Hl _]]]].
    specialize (HR o). rewrite Hg in HR. unfold rel in HR.
    destruct (uget M o) as [m|]; [|congruence].
    destruct (e_spent m) eqn:Esm.
    - exfalso. destruct (e_typ m).
      + cbn in HR. destruct HR as [_ [X _]]. congruence.
      + inversion HR; subst. congruence.
      + cbn in HR. destruct HR as [_ [X _]]. congruence.
    - exists m. split; [reflexivity|]. split; [exact Esm|].
      rewrite <- (locked_strict m e _ Es HR). exact Hl. }
  rewrite HM1. cbn. eexists; reflexivity.
Qed.

Lemma apply_tx_wfm b t M M' :
  wfm M -> hk (b_height b) -> apply_tx P b M t = Ok M' ->
  wfm M' /\ (forall o, uget M' o <> None -> uget M o <> None \/ In o (couts (t_outs t))).
Proof.
  intros Hwf Hb Ha. unfold apply_tx in Ha. apply obind_ok in Ha. destruct Ha as [M1 [Hs Ho]].
  inversion Ho; subst M'; clear Ho.
  destruct (apply_spends_ok _ _ _ _ _ Hs) as [Hnd [Hin Hout]].
  split.
  - intros o m. rewrite apply_outs_get. destruct (creates (t_outs t) o) eqn:Ec.
    + intros E; inversion E; subst m. unfold mk_out; cbn [e_typ e_height].
      apply creates_In in Ec. unfold couts in Ec. apply in_map_iff in Ec. destruct Ec as [oz [E1 E2]].
      apply filter_In in E2. destruct E2 as [_ E2]. unfold counts in E2. apply andb_prop in E2.
      destruct E2 as [_ E2]. subst o. split.
      * intros X. rewrite X in E2. discriminate.
      * split; [destruct (is_cb b t); auto | exact Hb].
    + destruct (in_dec outid_eq_dec o (t_spends t)) as [Hi|Hni].
      * destruct (Hin o Hi) as [m0 [Hg [_ [_ Hm1]]]]. rewrite Hm1. intros E; inversion E; subst m.
        apply (Hwf o m0 Hg).
      * rewrite (Hout o Hni). apply Hwf.
  - intros o. rewrite apply_outs_get. destruct (creates (t_outs t) o) eqn:Ec.
    + intros _. right. apply creates_In. exact Ec.
    + intros Hne. left. destruct (in_dec outid_eq_dec o (t_spends t)) as [Hi|Hni].
      * destruct (Hin o Hi) as [m0 [Hg _]]. rewrite Hg. discriminate.
      * rewrite <- (Hout o Hni). exact Hne.
Qed.

Definition txs_couts (l : list tx) : list outid := flat_map (fun t => couts (t_outs t)) l.

Lemma apply_txs_fw b l : forall E M M',
  R E M -> wfm M -> hk (b_height b) -> apply_txs P b M l = Ok M' ->
  exists E', apply_txs P b E l = Ok E' /\ R E' M'.
Proof.
  induction l as [|t l IH]; intros E M M' HR Hwf Hb Ha.
  - cbn in Ha. inversion Ha; subst. exists E. split; [reflexivity | exact HR].
  - cbn in Ha. apply obind_ok in Ha. destruct Ha as [M1 [H1 H2]].
    destruct (apply_tx_fw b t E M M1 HR Hwf H1) as [E1 [HE1 HR1]].
    destruct (apply_tx_wfm b t M M1 Hwf Hb H1) as [Hwf1 _].
    destruct (IH E1 M1 M' HR1 Hwf1 Hb H2) as [E' [HE' HR']].
    exists E'. cbn. rewrite HE1. cbn. split; assumption.
Qed.

Lemma apply_txs_bw b l : forall E M E',
  sb = true -> R E M -> wfm M -> hk (b_height b) -> apply_txs P b E l = Ok E' ->
  exists M', apply_txs P b M l = Ok M'.
Proof.
  induction l as [|t l IH]; intros E M E' Es HR Hwf Hb Ha.
  - eexists; reflexivity.
  - cbn in Ha. apply obind_ok in Ha. destruct Ha as [E1 [H1 H2]].
    destruct (apply_tx_bw b t E M E1 Es HR H1) as [M1 HM1].
    destruct (apply_tx_fw b t E M M1 HR Hwf HM1) as [E1' [HE1' HR1]].
    rewrite H1 in HE1'. inversion HE1'; subst E1'.
    destruct (apply_tx_wfm b t M M1 Hwf Hb HM1) as [Hwf1 _].
    destruct (IH E1 M1 E' Es HR1 Hwf1 Hb H2) as [M' HM'].
    exists M'. cbn. rewrite HM1. cbn. exact HM'.
Qed.

Lemma apply_txs_wfm b l : forall M M',
  wfm M -> hk (b_height b) -> apply_txs P b M l = Ok M' ->
  wfm M' /\ (forall o, uget M' o <> None -> uget M o <> None \/ In o (txs_couts l)).
Proof.
  induction l as [|t l IH]; intros M M' Hwf Hb Ha.
  - cbn in Ha. inversion Ha; subst. split; [exact Hwf | intros o Ho; left; exact Ho].
  - cbn in Ha. apply obind_ok in Ha. destruct Ha as [M1 [H1 H2]].
    destruct (apply_tx_wfm b t M M1 Hwf Hb H1) as [Hwf1 Hd1].
    destruct (IH M1 M' Hwf1 Hb H2) as [Hwf' Hd'].
    split; [exact Hwf'|]. intros o Ho. unfold txs_couts. cbn [flat_map].
    destruct (Hd' o Ho) as [X|X].
    + destruct (Hd1 o X) as [Y|Y]; [left; exact Y | right; apply in_or_app; left; exact Y].
    + right. apply in_or_app. right. exact X.
Qed.

(* ------------------------------------------------------------------ detach *)

Definition novote (l : list outid) : Prop := forall o, In o l -> snd o <> KVote.

Lemma detach_tx_rel b t E M M' L :
  apply_tx P b M t = Ok M' -> R E M' -> wfm M ->
  (forall o, uget M o <> None -> In o L) -> NoDup (L ++ couts (t_outs t)) ->
  (sb = true -> novote (t_spends t)) ->
  exists E', detach_tx E t = Ok E' /\ R E' M.
Proof.
  intros Ha HR Hwf Hdom Hnd Hg. unfold apply_tx in Ha. apply obind_ok in Ha.
  destruct Ha as [M1 [Hs Ho]]. inversion Ho; subst M'; clear Ho.
  destruct (apply_spends_ok _ _ _ _ _ Hs) as [Hnds [Hin Hout]].
  assert (Hdisj : forall o, In o (t_spends t) -> creates (t_outs t) o = false).
  { intros o Ho. destruct (creates (t_outs t) o) eqn:Ec; [|reflexivity]. exfalso.
    apply creates_In in Ec. destruct (Hin o Ho) as [m [Hgm _]].
    assert (HL : In o L) by (apply Hdom; rewrite Hgm; discriminate).
    clear - Hnd HL Ec. induction L as [|a L IH]; [destruct HL|].
    cbn in Hnd. inversion Hnd; subst. destruct HL as [->|HL].
    - apply H1. apply in_or_app. right. exact Ec.
    - apply IH; assumption. }
  assert (HRs : forall o, In o (t_spends t) ->
            exists m, uget M o = Some m /\ e_spent m = false /\ rel (uget E o) (Some (spend m))).
  { intros o Ho. destruct (Hin o Ho) as [m [Hgm [Hsm [_ Hm1]]]]. exists m. repeat split; auto.
    specialize (HR o). rewrite apply_outs_get, (Hdisj o Ho), Hm1 in HR. exact HR. }
  destruct (detach_spends_ok (t_spends t) E Hnds) as [E1 [HE1 [HinE HoutE]]].
  { intros o Ho. destruct (HRs o Ho) as [m [Hgm [Hsm Hr]]]. split; [apply (Hwf o m Hgm)|].
    unfold rel in Hr. cbn [spend e_spent e_typ] in Hr. destruct (uget E o) as [e|]; [|exact I].
    destruct (e_typ m).
    - cbn in Hr. tauto.
    - inversion Hr; subst. reflexivity.
    - cbn in Hr. tauto. }
  unfold detach_tx. rewrite HE1. cbn. eexists. split; [reflexivity|].
  intros o. rewrite detach_outs_get. destruct (creates (t_outs t) o) eqn:Ec.
  - (* created by t: absent before *)
    assert (HM : uget M o = None).
    { destruct (uget M o) eqn:Em; [|reflexivity]. exfalso.
      apply creates_In in Ec. assert (HL : In o L) by (apply Hdom; rewrite Em; discriminate).
      clear - Hnd HL Ec. induction L as [|a L IH]; [destruct HL|].
      cbn in Hnd. inversion Hnd; subst. destruct HL as [->|HL].
      - apply H1. apply in_or_app. right. exact Ec.
      - apply IH; assumption. }
    rewrite HM. reflexivity.
  - destruct (in_dec outid_eq_dec o (t_spends t)) as [Hi|Hni].
    + destruct (HRs o Hi) as [m [Hgm [Hsm Hr]]]. rewrite (HinE o Hi), Hgm. unfold rel. rewrite Hsm.
      destruct (Hwf o m Hgm) as [Hk [Ht _]].
      unfold rel, gone_rel in Hr. cbn [spend e_spent e_typ e_height] in Hr.
      destruct (e_typ m) eqn:Etm.
      * (* normal *)
        cbn in Hr. destruct (uget E o) as [e|]; cbn [revive].
        -- destruct Hr as [X [Y Z]]. exists (unspend e). cbn. rewrite Etm. repeat split; auto.
        -- exists (mkE (tk (snd o)) 0 false). cbn. rewrite Etm. repeat split; auto.
           destruct Ht as [Ht|Ht]; [discriminate | symmetry; exact Ht].
      * (* coinbase: the spent entry is still there *)
        rewrite Hr. cbn [revive]. exists (unspend (spend m)). cbn. rewrite Etm. repeat split; auto.
      * (* vote *)
        cbn in Hr. destruct (uget E o) as [e|]; cbn [revive].
        -- destruct Hr as [X [Y Z]]. exists (unspend e). cbn. rewrite Etm. repeat split; auto.
        -- exists (mkE (tk (snd o)) 0 false). cbn [e_typ e_height e_spent]. rewrite Etm.
           assert (Hko : tk (snd o) = TVote) by (destruct Ht as [Ht|Ht]; [discriminate | symmetry; exact Ht]).
           repeat split; auto. cbn. destruct sb eqn:Esb.
           ++ exfalso. apply (Hg eq_refl o Hi). destruct (snd o); cbn in Hko; try discriminate. reflexivity.
           ++ apply N.le_0_l.
    + rewrite (HoutE o Hni). specialize (HR o). rewrite apply_outs_get, Ec, (Hout o Hni) in HR. exact HR.
Qed.

Lemma NoDup_app_l {A} (l1 l2 : list A) : NoDup (l1 ++ l2) -> NoDup l1.
Proof.
  induction l1 as [|a l1 IH]; intros H; [constructor|].
  cbn in H. inversion H; subst. constructor; [|apply IH; assumption].
  intros X. apply H2. apply in_or_app. left; exact X.
Qed.

Lemma detach_txs_rel b l : forall E M M' L,
  apply_txs P b M l = Ok M' -> R E M' -> wfm M -> hk (b_height b) ->
  (forall o, uget M o <> None -> In o L) -> NoDup (L ++ txs_couts l) ->
  (sb = true -> novote (flat_map t_spends l)) ->
  exists E', detach_txs E (rev l) = Ok E' /\ R E' M.
Proof.
  induction l as [|t l IH]; intros E M M' L Ha HR Hwf Hb Hdom Hnd Hg.
  - cbn in Ha. inversion Ha; subst. exists E. split; [reflexivity | exact HR].
  - cbn in Ha. apply obind_ok in Ha. destruct Ha as [M1 [H1 H2]].
    destruct (apply_tx_wfm b t M M1 Hwf Hb H1) as [Hwf1 Hd1].
    unfold txs_couts in Hnd. cbn [flat_map] in Hnd. rewrite app_assoc in Hnd.
    destruct (IH E M1 M' (L ++ couts (t_outs t)) H2 HR Hwf1 Hb) as [E1 [HE1 HR1]].
    + intros o Ho. apply in_or_app. destruct (Hd1 o Ho) as [X|X]; [left; apply Hdom; exact X | right; exact X].
    + exact Hnd.
    + intros Es o Ho. apply (Hg Es). cbn [flat_map]. apply in_or_app. right; exact Ho.
    + destruct (detach_tx_rel b t E1 M M1 L H1 HR1 Hwf Hdom (NoDup_app_l _ _ Hnd)) as [E' [HE' HR']].
      { intros Es o Ho. apply (Hg Es). cbn [flat_map]. apply in_or_app. left; exact Ho. }
      exists E'. cbn [rev]. rewrite detach_txs_app, HE1. cbn. rewrite HE'. cbn. split; [reflexivity | exact HR'].
Qed.

(* ------------------------------------------------------------------ save *)

Lemma save_rel db v M : R (v ++ db) M -> R (save db v) M.
Proof.
  intros HR o. specialize (HR o). rewrite uget_app in HR. rewrite save_get.
  destruct (uget v o) as [e|]; [|exact HR].
  destruct (dead e) eqn:Ed; [|exact HR].
  unfold dead in Ed. apply andb_prop in Ed. destruct Ed as [Es Et].
  unfold rel in *. destruct (uget M o) as [m|]; [|exact I].
  destruct (e_spent m).
  - destruct (e_typ m) eqn:Etm; try exact I. inversion HR; subst. rewrite Etm in Et. discriminate.
  - destruct HR as [e' [He [_ [X _]]]]. inversion He; subst. congruence.
Qed.

End Rel.
