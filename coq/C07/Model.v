(* C07 — definitions used to state "VM execution terminates within the gas
   limit" about the executable VM model coq/lib/VM.v, plus the model of the
   validator's gas bookkeeping (protocol/validation/tx.go: GasState.updateUsage).
   No proofs in this file. *)
From Coq Require Import List ZArith NArith Bool.
From Verif Require Import GoInt VM.
From VerifGen Require Import Checked.
Import ListNotations.
Open Scope Z_scope.

(* ---------- the potential ---------- *)

(* what a VM still owns: its run limit plus what popping both stacks would refund *)
Definition pot (s : vmst) : Z :=
  runlimit s + stack_cost (dstack s) + stack_cost (astack s).

(* the child-run function that [run] hands to [step] at fuel f *)
Definition child_fn (cr : crypto) (cx : context) (f : nat) : vmst -> child_result :=
  fun c => match run cr cx f c with
           | ROk _ cs => (true, cs)
           | RErr _ cs => (false, cs)
           end.

(* ---------- the one instruction shape that costs nothing ---------- *)

(* the top item of the data stack is a valid number and that number is 0 *)
Definition top_zero (s : vmst) : bool :=
  match dstack s with
  | x :: _ => match as_bigint x with inr 0%N => true | _ => false end
  | [] => false
  end.

(* the next instruction is CHECKMULTISIG and the top item (numPubkeys) is the number 0 *)
Definition multisig0 (s : vmst) : bool :=
  match parse_op (prog s) (pc s) with
  | inr i => (i_op i =? 173)%N && top_zero s
  | inl _ => false
  end.

(* least cost of the instruction about to execute in s *)
Definition min_cost (s : vmst) : Z := if multisig0 s then 0 else 1.

(* ---------- explicit fuel bound ---------- *)

Definition plen (s : vmst) : Z := Z.of_nat (length (prog s)).

(* steps of one VM: lexicographic (potential, distance to the program end);
   children: potential strictly smaller, program no longer than the parent's potential *)
Definition fuel_bound (s : vmst) : Z :=
  pot s * (plen s + 1) + Z.max 0 (plen s - Z.of_N (pc s)) + (pot s + 1) ^ 3 + 1.

(* initial state built by Verify before the first push *)
Definition init_state (cx : context) (gas_limit : Z) : vmst :=
  {| prog := cx_code cx; pc := 0; nextpc := 0; runlimit := gas_limit; deferred := 0;
     expres := match cx_txversion cx with Some 1%N => true | _ => false end;
     vdata := []; dstack := []; astack := [] |}.

(* fuel that is always enough for Verify with this limit and program *)
Definition verify_fuel (cx : context) (gas_limit : Z) : nat :=
  Z.to_nat (gas_limit * (Z.of_nat (length (cx_code cx)) + 1) + Z.of_nat (length (cx_code cx))
            + (gas_limit + 1) ^ 3 + 1).

(* EOutOfFuel is an artefact of the model's fuel, not a Go error: the CheckOutput callback
   (a parameter of the model) is assumed not to return it *)
Definition co_sane (cx : context) : Prop :=
  forall f idx amt asset vmv code alt ex,
    cx_checkoutput cx = Some f -> f idx amt asset vmv code alt ex <> inl EOutOfFuel.

Definition is_oof (r : res unit) : bool :=
  match r with RErr EOutOfFuel _ => true | _ => false end.

(* ---------- programs whose behaviour does not depend on the remaining limit ---------- *)

(* no byte 0xc0 anywhere in the program: CHECKPREDICATE can never be the executed opcode *)
Definition no_checkpredicate (p : item) : Prop := ~ In 192%N p.

(* the same state with d more units of run limit *)
Definition shift (d : Z) (s : vmst) : vmst := set_runlimit s (runlimit s + d).

(* ---------- validator bookkeeping: GasState.updateUsage ---------- *)

Record gas_state := { g_left : Z; g_used : Z; g_storage : Z }.

Inductive uu_res :=
| UOk (g : gas_state)
| UErrNegative (g : gas_state)      (* "updateUsage input negative gas" *)
| UErrCalc (g : gas_state)          (* checked.SubInt64 overflow *)
| UErrOverCredit (g : gas_state).   (* fields already updated when this is returned *)

Definition update_usage (g : gas_state) (gasLeft : Z) : uu_res :=
  if gasLeft <? 0 then UErrNegative g
  else
    match SubInt64 (g_left g) gasLeft with
    | Some (d, true) =>
        let g' := {| g_left := gasLeft; g_used := wrap I64 (g_used g + d); g_storage := g_storage g |} in
        if g_left g' <? g_storage g' then UErrOverCredit g' else UOk g'
    | _ => UErrCalc g
    end.

(* one program verification as the validator does it: Verify with the gas that is
   left, then updateUsage with the result; a VM error aborts the transaction *)
Record vcall := { vc_cx : context; vc_state : list item; vc_args : list item; vc_fuel : nat }.

Inductive vres :=
| VDone (g : gas_state)
| VVmErr (e : vmerr) (g : gas_state)
| VGasErr (r : uu_res).

Fixpoint validate_calls (cr : crypto) (calls : list vcall) (g : gas_state) : vres :=
  match calls with
  | [] => VDone g
  | c :: rest =>
      match verify cr (vc_cx c) (vc_fuel c) (vc_state c) (vc_args c) (g_left g) with
      | (_, Some e) => VVmErr e g
      | (gl, None) =>
          match update_usage g gl with
          | UOk g' => validate_calls cr rest g'
          | r => VGasErr r
          end
      end
  end.
