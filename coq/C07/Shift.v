(* C07 — "a program that needs more gas than provided fails rather than running on".
   For programs that cannot execute CHECKPREDICATE the behaviour of the VM does not
   depend on the remaining run limit except through failing applyCost: a run started
   with d more units is the same run with d added to every run limit, until the
   smaller run fails an applyCost (ERunLimitExceeded, run limit zeroed). *)
From Coq Require Import List ZArith NArith Bool Lia.
From Verif Require Import VM.
From C07 Require Import Model Hoare Ops Proofs.
Import ListNotations.
Open Scope Z_scope.

Section Shift.
  Variable d : Z.
  Hypothesis Hd : 0 <= d.

  Notation sh := (shift d).

  Definition sim {A} (m : M A) (s : vmst) : Prop :=
    match m s with
    | ROk a s' => m (sh s) = ROk a (sh s')
    | RErr e s' => (e = ERunLimitExceeded /\ runlimit s' = 0) \/ m (sh s) = RErr e (sh s')
    end.

  Lemma sim_bind {A B} (m : M A) (f : A -> M B) s :
    sim m s -> (forall a s', sim (f a) s') -> sim (bind m f) s.
  Proof.
    unfold sim, bind. intros Hm Hf. destruct (m s) as [a s'|e s'].
    - rewrite Hm. apply Hf.
    - destruct Hm as [Hm|Hm]; [left; exact Hm|right; rewrite Hm; reflexivity].
  Qed.

  Lemma sim_bind_get {A} (f : vmst -> M A) s :
    sim (f s) s -> f (sh s) (sh s) = f s (sh s) -> sim (bind get f) s.
  Proof.
    unfold sim, bind, get. intros Hm He. rewrite He. exact Hm.
  Qed.

  Lemma sim_ret {A} (a : A) s : sim (ret a) s.
  Proof. reflexivity. Qed.
  Lemma sim_fail {A} e s : sim (@fail A e) s.
  Proof. right. reflexivity. Qed.
  Lemma sim_lift {A} (x : vmerr + A) s : sim (lift x) s.
  Proof. destruct x; [apply sim_fail|apply sim_ret]. Qed.
  Lemma sim_raw {A} (a : A) (g : vmst -> vmst) s :
    g (sh s) = sh (g s) -> sim (fun s' => ROk a (g s')) s.
  Proof. unfold sim. intros ->. reflexivity. Qed.

  Lemma sim_apply_cost n s : sim (apply_cost n) s.
  Proof.
    unfold sim, apply_cost. destruct (runlimit s <? n) eqn:Hlt.
    - left. split; reflexivity.
    - apply Z.ltb_ge in Hlt. change (runlimit (sh s)) with (runlimit s + d).
      assert (Hlt' : (runlimit s + d <? n) = false) by (apply Z.ltb_ge; lia). rewrite Hlt'.
      unfold shift, set_runlimit. simp_st. do 2 f_equal. lia.
  Qed.

  Lemma sim_defer_cost n s : sim (defer_cost n) s.
  Proof. reflexivity. Qed.

  Lemma sim_pop b s : sim (pop b) s.
  Proof.
    unfold sim, pop. change (dstack (sh s)) with (dstack s). destruct (dstack s) as [|x r]; [right; reflexivity|].
    destruct b; [reflexivity|]. unfold shift, set_runlimit, set_dstack. simp_st. do 2 f_equal. lia.
  Qed.

  Lemma sim_top s : sim top s.
  Proof. unfold sim, top. change (dstack (sh s)) with (dstack s). destruct (dstack s); [right|]; reflexivity. Qed.

  Lemma sim_pop_bigint b s : sim (pop_bigint b) s.
  Proof. unfold pop_bigint. apply sim_bind; [apply sim_pop|]. intros. apply sim_lift. Qed.

  Lemma sim_push x b s : sim (push x b) s.
  Proof.
    unfold push. apply sim_bind.
    - destruct b; [apply sim_defer_cost|apply sim_apply_cost].
    - intros. apply sim_raw. reflexivity.
  Qed.

  Lemma sim_push_alt x b s : sim (push_alt x b) s.
  Proof.
    unfold push_alt. apply sim_bind.
    - destruct b; [apply sim_defer_cost|apply sim_apply_cost].
    - intros. apply sim_raw. reflexivity.
  Qed.

  Lemma sim_popn k b : forall s, sim (popn k b) s.
  Proof.
    induction k as [|k IH]; intros s; cbn [popn]; [apply sim_ret|].
    apply sim_bind; [apply sim_pop|]. intros. apply sim_bind; [apply IH|]. intros. apply sim_ret.
  Qed.

  Lemma sim_n_dup_go n k : forall s, sim (n_dup_go n k) s.
  Proof.
    induction k as [|k IH]; intros s; cbn [n_dup_go]; [apply sim_ret|].
    apply sim_bind_get; [|reflexivity]. apply sim_bind; [apply sim_push|]. intros. apply IH.
  Qed.

  Ltac sim1 :=
    cbv beta zeta;
    lazymatch goal with
    | |- sim (bind get _) _ => apply sim_bind_get; [|reflexivity]
    | |- sim (bind _ _) _ => apply sim_bind; [|intros ? ?]
    | |- sim (ret _) _ => apply sim_ret
    | |- sim (fail _) _ => apply sim_fail
    | |- sim (lift _) _ => apply sim_lift
    | |- sim (apply_cost _) _ => apply sim_apply_cost
    | |- sim (defer_cost _) _ => apply sim_defer_cost
    | |- sim (pop_bigint _) _ => apply sim_pop_bigint
    | |- sim (pop _) _ => apply sim_pop
    | |- sim (popn _ _) _ => apply sim_popn
    | |- sim top _ => apply sim_top
    | |- sim (push_bool _ _) _ => apply sim_push
    | |- sim (push_bigint _ _) _ => apply sim_push
    | |- sim (push _ _) _ => apply sim_push
    | |- sim (n_dup_go _ _) _ => apply sim_n_dup_go
    | |- sim (if ?b then _ else _) _ => destruct b
    | |- sim (match ?x with _ => _ end) _ => destruct x
    | |- sim (fun s' => ROk _ (@?g s')) _ => apply (sim_raw _ g); reflexivity
    end.

  Section Ops.
    Variable cr : crypto.
    Variable cx : context.
    Variable rc : vmst -> child_result.

    Lemma exec_op_sim op : op <> 192%N -> forall s, sim (exec_op cr cx rc op) s.
    Proof.
      intros Hne s. destruct op as [|p].
      { cbv beta iota delta [exec_op]. repeat sim1. }
      destruct p as [p|p|]; try destruct p as [p|p|]; try destruct p as [p|p|]; try destruct p as [p|p|];
      try destruct p as [p|p|]; try destruct p as [p|p|]; try destruct p as [p|p|]; try destruct p as [p|p|].
      all: try congruence.
      all: cbv beta iota delta [exec_op]; unfold num1, num2, cmp2, do_hash, do_equal, n_dup, rot_n.
      all: repeat sim1.
    Qed.
  End Ops.
End Shift.
