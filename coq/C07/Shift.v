(* C07 — "a program that needs more gas than provided fails rather than running on".
   For programs that cannot execute CHECKPREDICATE the behaviour of the VM does not
   depend on the remaining run limit except through failing applyCost: a run started
   with d more units is the same run with d added to every run limit, until the
   smaller run fails an applyCost (ERunLimitExceeded, run limit zeroed). *)
From Coq Require Import List ZArith NArith Bool Lia.
From Verif Require Import VM.
From C07 Require Import Model Hoare Ops Proofs.
Import ListNotations.
Open Scope Z_scope.

Section Shift.
  Variable d : Z.
  Hypothesis Hd : 0 <= d.

  Notation sh := (shift d).

  Definition sim {A} (m : M A) (s : vmst) : Prop :=
    match m s with
    | ROk a s' => m (sh s) = ROk a (sh s')
    | RErr e s' => (e = ERunLimitExceeded /\ runlimit s' = 0) \/ m (sh s) = RErr e (sh s')
    end.

  Lemma sim_bind {A B} (m : M A) (f : A -> M B) s :
    sim m s -> (forall a s', sim (f a) s') -> sim (bind m f) s.
  Proof.
    unfold sim, bind. intros Hm Hf. destruct (m s) as [a s'|e s'].
    - rewrite Hm. apply Hf.
    - destruct Hm as [Hm|Hm]; [left; exact Hm|right; rewrite Hm; reflexivity].
  Qed.

  Lemma sim_bind_get {A} (f : vmst -> M A) s :
    sim (f s) s -> f (sh s) (sh s) = f s (sh s) -> sim (bind get f) s.
  Proof.
    unfold sim, bind, get. intros Hm He. rewrite He. exact Hm.
  Qed.

  Lemma sim_ret {A} (a : A) s : sim (ret a) s.
  Proof. reflexivity. Qed.
  Lemma sim_fail {A} e s : sim (@fail A e) s.
  Proof. right. reflexivity. Qed.
  Lemma sim_lift {A} (x : vmerr + A) s : sim (lift x) s.
  Proof. destruct x; [apply sim_fail|apply sim_ret]. Qed.
  Lemma sim_raw {A} (a : A) (g : vmst -> vmst) s :
    g (sh s) = sh (g s) -> sim (fun s' => ROk a (g s')) s.
  Proof. unfold sim. intros ->. reflexivity. Qed.

  Lemma sim_apply_cost n s : sim (apply_cost n) s.
  Proof.
    unfold sim, apply_cost. destruct (runlimit s <? n) eqn:Hlt.
    - left. split; reflexivity.
    - apply Z.ltb_ge in Hlt. change (runlimit (sh s)) with (runlimit s + d).
      assert (Hlt' : (runlimit s + d <? n) = false) by (apply Z.ltb_ge; lia). rewrite Hlt'.
      unfold shift, set_runlimit. simp_st. do 2 f_equal. lia.
  Qed.

  Lemma sim_defer_cost n s : sim (defer_cost n) s.
  Proof. reflexivity. Qed.

  Lemma sim_pop b s : sim (pop b) s.
  Proof.
    unfold sim, pop. change (dstack (sh s)) with (dstack s). destruct (dstack s) as [|x r]; [right; reflexivity|].
    destruct b; [reflexivity|]. unfold shift, set_runlimit, set_dstack. simp_st. do 2 f_equal. lia.
  Qed.

  Lemma sim_top s : sim top s.
  Proof. unfold sim, top. change (dstack (sh s)) with (dstack s). destruct (dstack s); [right|]; reflexivity. Qed.

  Lemma sim_pop_bigint b s : sim (pop_bigint b) s.
  Proof. unfold pop_bigint. apply sim_bind; [apply sim_pop|]. intros. apply sim_lift. Qed.

  Lemma sim_push x b s : sim (push x b) s.
  Proof.
    unfold push. apply sim_bind.
    - destruct b; [apply sim_defer_cost|apply sim_apply_cost].
    - intros. apply sim_raw. reflexivity.
  Qed.

  Lemma sim_push_alt x b s : sim (push_alt x b) s.
  Proof.
    unfold push_alt. apply sim_bind.
    - destruct b; [apply sim_defer_cost|apply sim_apply_cost].
    - intros. apply sim_raw. reflexivity.
  Qed.

  Lemma sim_popn k b : forall s, sim (popn k b) s.
  Proof.
    induction k as [|k IH]; intros s; cbn [popn]; [apply sim_ret|].
    apply sim_bind; [apply sim_pop|]. intros. apply sim_bind; [apply IH|]. intros. apply sim_ret.
  Qed.

  Lemma sim_n_dup_go n k : forall s, sim (n_dup_go n k) s.
  Proof.
    induction k as [|k IH]; intros s; cbn [n_dup_go]; [apply sim_ret|].
    apply sim_bind_get; [|reflexivity]. apply sim_bind; [apply sim_push|]. intros. apply IH.
  Qed.

  Ltac sim1 :=
    cbv beta zeta;
    lazymatch goal with
    | |- sim (bind get _) _ => apply sim_bind_get; [|reflexivity]
    | |- sim (bind _ _) _ => apply sim_bind; [|intros ? ?]
    | |- sim (ret _) _ => apply sim_ret
    | |- sim (fail _) _ => apply sim_fail
    | |- sim (lift _) _ => apply sim_lift
    | |- sim (apply_cost _) _ => apply sim_apply_cost
    | |- sim (defer_cost _) _ => apply sim_defer_cost
    | |- sim (pop_bigint _) _ => apply sim_pop_bigint
    | |- sim (pop _) _ => apply sim_pop
    | |- sim (popn _ _) _ => apply sim_popn
    | |- sim top _ => apply sim_top
    | |- sim (push_bool _ _) _ => apply sim_push
    | |- sim (push_bigint _ _) _ => apply sim_push
    | |- sim (push _ _) _ => apply sim_push
    | |- sim (n_dup_go _ _) _ => apply sim_n_dup_go
    | |- sim (if ?b then _ else _) _ => destruct b
    | |- sim (match ?x with _ => _ end) _ => destruct x
    | |- sim (fun s' => ROk _ (@?g s')) _ => apply (sim_raw _ g); reflexivity
    end.

  Section Ops.
    Variable cr : crypto.
    Variable cx : context.
    Variable rc : vmst -> child_result.

    Lemma exec_op_sim op : op <> 192%N -> forall s, sim (exec_op cr cx rc op) s.
    Proof.
      intros Hne s. destruct op as [|p].
      { cbv beta iota delta [exec_op]. repeat sim1. }
      destruct p as [p|p|]; try destruct p as [p|p|]; try destruct p as [p|p|]; try destruct p as [p|p|];
      try destruct p as [p|p|]; try destruct p as [p|p|]; try destruct p as [p|p|]; try destruct p as [p|p|].
      all: try congruence.
      all: cbv beta iota delta [exec_op]; unfold num1, num2, cmp2, do_hash, do_equal, n_dup, rot_n.
      all: repeat sim1.
    Qed.
  End Ops.

  Section Run.
    Variable cr : crypto.
    Variable cx : context.

    Definition rsim (r r' : res unit) : Prop :=
      match r with
      | ROk a s' => r' = ROk a (sh s')
      | RErr e s' => (e = ERunLimitExceeded /\ runlimit s' = 0) \/ r' = RErr e (sh s')
      end.

    Lemma step_sim rc s :
      (forall i, parse_op (prog s) (pc s) = inr i -> i_op i <> 192%N) ->
      rsim (step cr cx rc s) (step cr cx rc (sh s)).
    Proof.
      intros Hno. unfold step. change (prog (sh s)) with (prog s). change (pc (sh s)) with (pc s).
      destruct (parse_op (prog s) (pc s)) as [e|i] eqn:Hp; [right; reflexivity|].
      specialize (Hno i eq_refl). cbv zeta.
      set (s1 := set_nextpc s ((pc s + i_len i) mod two32)%N).
      change (set_nextpc (sh s) ((pc s + i_len i) mod two32)%N) with (sh s1).
      destruct (is_expansion (i_op i)).
      - change (expres (sh s1)) with (expres s1). destruct (expres s1); [right; reflexivity|].
        change (set_pc (sh s1) (nextpc (sh s1))) with (sh (set_pc s1 (nextpc s1))).
        pose proof (sim_apply_cost 1 (set_pc s1 (nextpc s1))) as H. unfold sim in H. unfold rsim.
        destruct (apply_cost 1 (set_pc s1 (nextpc s1))) as [[] s4|e s4]; exact H.
      - set (s2 := set_vdata (set_deferred s1 0) (i_data i)).
        change (set_vdata (set_deferred (sh s1) 0) (i_data i)) with (sh s2).
        pose proof (exec_op_sim cr cx rc (i_op i) Hno s2) as H. unfold sim in H. unfold rsim.
        destruct (exec_op cr cx rc (i_op i) s2) as [[] s3|e s3].
        + rewrite H. change (deferred (sh s3)) with (deferred s3).
          pose proof (sim_apply_cost (deferred s3) s3) as H2. unfold sim in H2.
          destruct (apply_cost (deferred s3) s3) as [[] s4|e s4].
          * rewrite H2. reflexivity.
          * destruct H2 as [[He Hr]|H2]; [left; split; [exact He|exact Hr]|right; rewrite H2; reflexivity].
        + destruct H as [H|H]; [left; exact H|right; rewrite H; reflexivity].
    Qed.

    Lemma no_cp_parse p pcv i : no_checkpredicate p -> parse_op p pcv = inr i -> i_op i <> 192%N.
    Proof.
      intros Hno Hp Hop. apply Hno. rewrite <- Hop, (parse_op_byte _ _ _ Hp). unfold byte_at.
      apply nth_In. destruct (parse_op_bounds _ _ _ Hp). lia.
    Qed.

    Lemma run_sim f : forall s, 0 <= runlimit s -> no_checkpredicate (prog s) ->
      rsim (run cr cx f s) (run cr cx f (sh s)).
    Proof.
      induction f as [|f IH]; intros s Hr Hno.
      - right. reflexivity.
      - rewrite !run_S. change (pc (sh s)) with (pc s). change (prog (sh s)) with (prog s).
        destruct (pc s <? N.of_nat (length (prog s)))%N; [|reflexivity].
        pose proof (step_sim (child_fn cr cx f) s (fun i Hp => no_cp_parse _ _ _ Hno Hp)) as Hs.
        pose proof (step_spec cr cx anyerr (fun _ _ => Logic.I) (fun _ _ _ _ _ _ _ _ _ _ _ => Logic.I)
                      (child_fn cr cx f) s (child_ok_run cr cx f) Hr) as Hsp.
        unfold rsim in Hs. unfold step_post in Hsp.
        destruct (step cr cx (child_fn cr cx f) s) as [[] s'|e s'].
        + rewrite Hs. destruct Hsp as (Hr' & _ & Hprog & _). apply IH; [exact Hr'|rewrite Hprog; exact Hno].
        + unfold rsim. destruct Hs as [Hs|Hs]; [left; exact Hs|right; rewrite Hs; reflexivity].
    Qed.

    Lemma push_all_sim (f : item -> bool -> M unit) l :
      (forall x s, sim (f x false) s) -> forall s, sim (push_all f l) s.
    Proof.
      intros Hf. induction l as [|x l IH]; intros s; cbn [push_all]; [apply sim_ret|].
      apply sim_bind; [apply Hf|]. intros. apply IH.
    Qed.

    Lemma init_pushes_sim statedata args s : sim (init_pushes statedata args) s.
    Proof.
      unfold init_pushes. apply sim_bind.
      - apply push_all_sim. intros. apply sim_push_alt.
      - intros. apply push_all_sim. intros. apply sim_push.
    Qed.
  End Run.
End Shift.

Theorem insufficient_dichotomy cr cx fuel statedata args L L' :
  no_checkpredicate (cx_code cx) -> 0 <= L' <= L ->
  let r := verify cr cx fuel statedata args L in
  let r' := verify cr cx fuel statedata args L' in
  r' = (0, Some ERunLimitExceeded) \/
  (snd r' = Some EUnexpected /\ snd r = Some EUnexpected /\ fst r' = 0) \/
  (snd r' = snd r /\ fst r = fst r' + (L - L')).
Proof.
  intros Hno HL. cbv zeta. rewrite !verify_unfold.
  destruct (negb (cx_vmversion cx =? 1)%N).
  { right. right. cbn. split; [reflexivity|lia]. }
  set (d := L - L'). assert (Hd : 0 <= d) by (unfold d; lia).
  set (s0 := init_state cx L').
  assert (Hs0 : init_state cx L = shift d s0).
  { unfold s0, init_state, shift, set_runlimit. simp_st. f_equal. unfold d. lia. }
  rewrite Hs0.
  pose proof (init_pushes_sim d Hd statedata args s0) as Hi. unfold sim in Hi.
  pose proof (init_pushes_spec cx statedata args L' ltac:(lia)) as Hsp. fold s0 in Hsp.
  destruct (init_pushes statedata args s0) as [a s1|e s1].
  - rewrite Hi. destruct Hsp as (Hr1 & _ & Hprog & _).
    pose proof (run_sim d Hd cr cx fuel s1 Hr1 ltac:(rewrite Hprog; exact Hno)) as Hr. unfold rsim in Hr.
    destruct (run cr cx fuel s1) as [[] s|e s].
    + rewrite Hr. right. right. cbn [fst snd]. split; [reflexivity|].
      unfold shift. simp_st. fold d. lia.
    + destruct Hr as [[-> Hz]|Hr].
      * left. rewrite Hz. reflexivity.
      * rewrite Hr. destruct e; try (right; right; cbn [fst snd]; split; [reflexivity|unfold shift; simp_st; fold d; lia]).
        right. left. cbn. auto.
  - destruct Hi as [[-> Hz]|Hi].
    + left. rewrite Hz. reflexivity.
    + rewrite Hi. right. right. cbn [fst snd]. split; [reflexivity|unfold shift; simp_st; fold d; lia].
Qed.

Theorem insufficient_fails cr cx fuel statedata args L L' :
  no_checkpredicate (cx_code cx) -> 0 <= L' <= L ->
  L' < L - fst (verify cr cx fuel statedata args L) ->
  exists e, verify cr cx fuel statedata args L' = (0, Some e) /\
            (e = ERunLimitExceeded \/ e = EUnexpected).
Proof.
  intros Hno HL Hlt.
  pose proof (insufficient_dichotomy cr cx fuel statedata args L L' Hno HL) as H. cbv zeta in H.
  pose proof (gas_range cr cx fuel statedata args L' ltac:(lia)) as Hg.
  destruct H as [H|[(H1 & _ & H2)|(_ & H)]].
  - exists ERunLimitExceeded. auto.
  - exists EUnexpected. split; [|auto].
    destruct (verify cr cx fuel statedata args L') as [g e]. cbn [fst snd] in *. subst. reflexivity.
  - lia.
Qed.

(* the guard is satisfiable by real programs, e.g. the loop  1 DROP JUMP:0 *)
Example no_cp_example : no_checkpredicate [81; 117; 99; 0; 0; 0; 0]%N.
Proof. unfold no_checkpredicate. cbn. intros H. repeat (destruct H as [H|H]; [discriminate H|]). exact H. Qed.
