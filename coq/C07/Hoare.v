(* C07 — a small weakest-precondition calculus for the VM monad of lib/VM.v and
   the rules for the cost primitives.

   Inside one instruction, started in a state of potential Phi0 with deferred
   cost 0, the invariant is  I c s :  0 <= c, 0 <= runlimit, deferred <= 0,
   pot s - deferred s + c <= Phi0   ("c units have been paid so far").
   A final deferred push gives  Fin c s  (same without the sign of deferred).
   Every failure satisfies  Err : 0 <= runlimit, pot <= Phi0, not EOutOfFuel. *)
From Coq Require Import List ZArith NArith Bool Lia.
From Verif Require Import VM.
From C07 Require Import Model.
Import ListNotations.
Open Scope Z_scope.

Lemma item_cost_pos d : 8 <= item_cost d.
Proof. unfold item_cost. lia. Qed.

Lemma stack_cost_cons x r : stack_cost (x :: r) = item_cost x + stack_cost r.
Proof. reflexivity. Qed.

Lemma stack_cost_nonneg st : 0 <= stack_cost st.
Proof.
  induction st as [|x r IH]; [cbn; lia|].
  rewrite stack_cost_cons. pose proof (item_cost_pos x). lia.
Qed.

Lemma stack_cost_app a b : stack_cost (a ++ b) = stack_cost a + stack_cost b.
Proof.
  induction a as [|x a IH]; [reflexivity|].
  change ((x :: a) ++ b) with (x :: (a ++ b)). rewrite !stack_cost_cons, IH. lia.
Qed.

Lemma stack_cost_split k l : stack_cost l = stack_cost (firstn k l) + stack_cost (skipn k l).
Proof. rewrite <- stack_cost_app, firstn_skipn. reflexivity. Qed.

Lemma stack_cost_nth k l : (k < length l)%nat -> item_cost (nth k l []) <= stack_cost l.
Proof.
  revert k; induction l as [|x l IH]; intros k Hk; [cbn in Hk; lia|].
  rewrite stack_cost_cons. destruct k as [|k]; cbn [nth].
  - pose proof (stack_cost_nonneg l). lia.
  - cbn in Hk. specialize (IH k ltac:(lia)). pose proof (item_cost_pos x). lia.
Qed.

Lemma pot_nonneg s : 0 <= runlimit s -> 0 <= pot s.
Proof.
  unfold pot. pose proof (stack_cost_nonneg (dstack s)). pose proof (stack_cost_nonneg (astack s)). lia.
Qed.

Definition wp {A} (m : M A) (Q : A -> vmst -> Prop) (E : vmerr -> vmst -> Prop) (s : vmst) : Prop :=
  match m s with ROk a s' => Q a s' | RErr e s' => E e s' end.

Lemma wp_bind {A B} (m : M A) (f : A -> M B) Q E s :
  wp m (fun a s' => wp (f a) Q E s') E s -> wp (bind m f) Q E s.
Proof. unfold wp, bind. destruct (m s); auto. Qed.

Lemma wp_ret {A} (a : A) (Q : A -> vmst -> Prop) E s : Q a s -> wp (ret a) Q E s.
Proof. auto. Qed.

Lemma wp_get (Q : vmst -> vmst -> Prop) E s : Q s s -> wp get Q E s.
Proof. auto. Qed.

Lemma wp_weaken {A} (m : M A) (Q Q' : A -> vmst -> Prop) E s :
  wp m Q E s -> (forall a s', Q a s' -> Q' a s') -> wp m Q' E s.
Proof. unfold wp. destruct (m s); auto. Qed.

Ltac simp_st :=
  cbn [runlimit deferred dstack astack prog nextpc pc vdata expres
       set_runlimit set_deferred set_dstack set_astack set_nextpc set_pc set_vdata] in *.

Section Spec.
  Variable Phi0 : Z.
  Variable prg : item.
  Variable npc : N.
  Variable jf : bool.      (* true: the instruction may set nextpc (JUMP, JUMPIF) *)
  (* which error classes may come out: everything for the gas theorems, everything but the
     model's EOutOfFuel for termination (the CheckOutput callback is a parameter) *)
  Variable okerr : vmerr -> Prop.
  Hypothesis Hnat : forall e, e <> EOutOfFuel -> okerr e.

  Definition fr (s : vmst) : Prop := prog s = prg /\ (jf = true \/ nextpc s = npc).
  Definition I (c : Z) (s : vmst) : Prop :=
    0 <= c /\ 0 <= runlimit s /\ deferred s <= 0 /\ pot s - deferred s + c <= Phi0 /\ fr s.
  Definition Fin (c : Z) (s : vmst) : Prop :=
    0 <= runlimit s /\ pot s - deferred s + c <= Phi0 /\ fr s.
  Definition Err (e : vmerr) (s : vmst) : Prop :=
    okerr e /\ 0 <= runlimit s /\ pot s <= Phi0.

  Lemma I_c c s : I c s -> 0 <= c.
  Proof. unfold I. intuition. Qed.

  Lemma I_Fin c b s : I c s -> b <= c -> Fin b s.
  Proof. unfold I, Fin. intuition lia. Qed.

  Lemma I_weaken c b s : I c s -> 0 <= b <= c -> I b s.
  Proof. unfold I. intuition lia. Qed.

  Lemma Fin_weaken c b s : Fin c s -> b <= c -> Fin b s.
  Proof. unfold Fin. intuition lia. Qed.

  Lemma I_Err_ok c e s : I c s -> okerr e -> Err e s.
  Proof. unfold I, Err. intuition lia. Qed.

  Lemma I_Err c e s : I c s -> e <> EOutOfFuel -> Err e s.
  Proof. intros. eapply I_Err_ok; eauto. Qed.

  Lemma wp_fail_ok {A} c e (Q : A -> vmst -> Prop) s :
    I c s -> okerr e -> wp (fail e) Q Err s.
  Proof. intros; unfold wp, fail. eapply I_Err_ok; eauto. Qed.

  Lemma wp_fail {A} c e (Q : A -> vmst -> Prop) s :
    I c s -> e <> EOutOfFuel -> wp (fail e) Q Err s.
  Proof. intros; unfold wp, fail. eapply I_Err; eauto. Qed.

  Lemma wp_lift {A} c (x : vmerr + A) (Q : A -> vmst -> Prop) s :
    I c s -> (forall e, x = inl e -> e <> EOutOfFuel) ->
    (forall a, x = inr a -> Q a s) -> wp (lift x) Q Err s.
  Proof.
    intros HI He Hq. unfold wp, lift. destruct x as [e|a]; cbn.
    - eapply I_Err; eauto.
    - auto.
  Qed.

  Lemma wp_apply_cost c n (Q : unit -> vmst -> Prop) s :
    I c s -> 0 <= n -> (forall s', I (c + n) s' -> Q tt s') -> wp (apply_cost n) Q Err s.
  Proof.
    intros HI Hn Hq. unfold wp, apply_cost. destruct (runlimit s <? n) eqn:Hlt.
    - apply Z.ltb_lt in Hlt. unfold I, Err, fr, pot in *. simp_st.
      split; [apply Hnat; discriminate|]. intuition lia.
    - apply Z.ltb_ge in Hlt. apply Hq. unfold I, fr, pot in *. simp_st. intuition lia.
  Qed.

  Lemma wp_defer_cost c n (Q : unit -> vmst -> Prop) s :
    I c s -> n <= 0 -> 0 <= c + n -> (forall s', I (c + n) s' -> Q tt s') -> wp (defer_cost n) Q Err s.
  Proof.
    intros HI Hn Hc Hq. unfold wp, defer_cost. apply Hq.
    unfold I, fr, pot in *. simp_st. intuition lia.
  Qed.

  Lemma wp_pop c d (Q : item -> vmst -> Prop) s :
    I c s -> (forall x s', I c s' -> Q x s') -> wp (pop d) Q Err s.
  Proof.
    intros HI Hq. unfold wp, pop. destruct (dstack s) as [|x r] eqn:Hd.
    - eapply I_Err; eauto. discriminate.
    - destruct d; apply Hq; unfold I, fr, pot in *; simp_st; rewrite Hd, stack_cost_cons in *;
        pose proof (item_cost_pos x); intuition lia.
  Qed.

  (* the same, remembering what was on the stack *)
  Lemma wp_pop_top c d (Q : item -> vmst -> Prop) s :
    I c s -> (forall x r s', dstack s = x :: r -> I c s' -> Q x s') -> wp (pop d) Q Err s.
  Proof.
    intros HI Hq. unfold wp, pop. destruct (dstack s) as [|x r] eqn:Hd.
    - eapply I_Err; eauto. discriminate.
    - destruct d; eapply Hq; try reflexivity; unfold I, fr, pot in *; simp_st;
        rewrite Hd, stack_cost_cons in *; pose proof (item_cost_pos x); intuition lia.
  Qed.

  Lemma wp_pop_bigint c d (Q : N -> vmst -> Prop) s :
    I c s -> (forall n s', I c s' -> Q n s') -> wp (pop_bigint d) Q Err s.
  Proof.
    intros HI Hq. unfold pop_bigint. apply wp_bind. eapply wp_pop; eauto.
    intros x s' HI'. eapply wp_lift; eauto.
    intros e. unfold as_bigint. destruct (32 <? length x)%nat; [intros [= <-]; discriminate|].
    destruct (two255 <=? le_decode x)%N; intros [= <-]; discriminate.
  Qed.

  Lemma wp_top c (Q : item -> vmst -> Prop) s :
    I c s -> (forall x r, dstack s = x :: r -> Q x s) -> wp top Q Err s.
  Proof.
    intros HI Hq. unfold wp, top. destruct (dstack s) as [|x r] eqn:Hd.
    - eapply I_Err; eauto. discriminate.
    - eapply Hq; reflexivity.
  Qed.

  Lemma wp_push c x (Q : unit -> vmst -> Prop) s :
    I c s -> (forall s', I c s' -> Q tt s') -> wp (push x false) Q Err s.
  Proof.
    intros HI Hq. unfold push. apply wp_bind. eapply wp_apply_cost; eauto.
    { pose proof (item_cost_pos x). lia. }
    intros s' HI'. unfold wp. apply Hq. unfold I, fr, pot in *. simp_st.
    rewrite stack_cost_cons. intuition lia.
  Qed.

  Lemma wp_push_alt c x (Q : unit -> vmst -> Prop) s :
    I c s -> (forall s', I c s' -> Q tt s') -> wp (push_alt x false) Q Err s.
  Proof.
    intros HI Hq. unfold push_alt. apply wp_bind. eapply wp_apply_cost; eauto.
    { pose proof (item_cost_pos x). lia. }
    intros s' HI'. unfold wp. apply Hq. unfold I, fr, pot in *. simp_st.
    rewrite stack_cost_cons. intuition lia.
  Qed.

  (* a deferred push: the last action of an instruction *)
  Lemma wp_push_def c x (Q : unit -> vmst -> Prop) s :
    I c s -> (forall s', Fin c s' -> Q tt s') -> wp (push x true) Q Err s.
  Proof.
    intros HI Hq. unfold push, wp, bind, defer_cost. apply Hq.
    unfold I, Fin, fr, pot in *. simp_st. rewrite stack_cost_cons. intuition lia.
  Qed.

  Lemma wp_push_bool c b d (Q : unit -> vmst -> Prop) s :
    I c s -> (forall s', Fin c s' -> Q tt s') -> wp (push_bool b d) Q Err s.
  Proof.
    intros HI Hq. unfold push_bool. destruct d.
    - eapply wp_push_def; eauto.
    - eapply wp_push; eauto. intros. apply Hq. eapply I_Fin; eauto. lia.
  Qed.

  Lemma wp_push_bigint c n d (Q : unit -> vmst -> Prop) s :
    I c s -> (forall s', Fin c s' -> Q tt s') -> wp (push_bigint n d) Q Err s.
  Proof.
    intros HI Hq. unfold push_bigint. destruct d.
    - eapply wp_push_def; eauto.
    - eapply wp_push; eauto. intros. apply Hq. eapply I_Fin; eauto. lia.
  Qed.

  Lemma wp_popn c k d (Q : list item -> vmst -> Prop) s :
    I c s -> (forall l s', I c s' -> Q l s') -> wp (popn k d) Q Err s.
  Proof.
    revert Q s. induction k as [|k IH]; intros Q s HI Hq; cbn [popn].
    - apply wp_ret. auto.
    - apply wp_bind. eapply wp_pop; eauto. intros x s1 H1.
      apply wp_bind. eapply IH; eauto. intros l s2 H2. apply wp_ret. auto.
  Qed.

  (* direct stack surgery: replacing the data stack by one of known cost *)
  Lemma I_set_dstack c k s d' :
    I c s -> stack_cost d' + k = stack_cost (dstack s) -> 0 <= c + k -> I (c + k) (set_dstack s d').
  Proof. unfold I, fr, pot. simp_st. intuition lia. Qed.

  Lemma bigint_int64_inr n z : bigint_int64 n = inr z -> 0 <= z /\ z = Z.of_N n.
  Proof. unfold bigint_int64. destruct (two63 <=? n)%N; intros [= <-]. lia. Qed.

  Lemma bigint_int64_inl n e : bigint_int64 n = inl e -> e <> EOutOfFuel.
  Proof. unfold bigint_int64. destruct (two63 <=? n)%N; intros [= <-]. discriminate. Qed.

  Lemma wp_int64 c n (Q : Z -> vmst -> Prop) s :
    I c s -> (forall z, 0 <= z -> z = Z.of_N n -> Q z s) -> wp (lift (bigint_int64 n)) Q Err s.
  Proof.
    intros HI Hq. eapply wp_lift; eauto.
    - intros e. apply bigint_int64_inl.
    - intros z Hz. apply bigint_int64_inr in Hz. destruct Hz. auto.
  Qed.
End Spec.
