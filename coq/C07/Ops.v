(* C07 — every opcode of exec_op pays at least its base cost and never raises
   the potential; failures keep 0 <= runlimit and pot <= Phi0. *)
From Coq Require Import List ZArith NArith Bool Lia.
From Verif Require Import VM.
From C07 Require Import Model Hoare.
Import ListNotations.
Open Scope Z_scope.

Lemma skipn_nth_cons {A} (d : A) k l :
  (k < length l)%nat -> skipn k l = nth k l d :: skipn (S k) l.
Proof.
  revert k. induction l as [|x l IH]; intros k Hk; [cbn in Hk; lia|].
  destruct k as [|k]; [reflexivity|].
  change (skipn (S k) (x :: l)) with (skipn k l). change (nth (S k) (x :: l) d) with (nth k l d).
  change (skipn (S (S k)) (x :: l)) with (skipn (S k) l). apply IH. cbn in Hk. lia.
Qed.

Lemma wp_raw {A} (a : A) (g : vmst -> vmst) (Q : A -> vmst -> Prop) E s :
  Q a (g s) -> wp (fun s' => ROk a (g s')) Q E s.
Proof. auto. Qed.

Ltac no_oof :=
  let e := fresh "e" in let H := fresh "H" in
  intros e H; cbv beta in H;
  unfold range_chk, as_bigint, bigint_int64 in H;
  repeat match type of H with context [if ?b then _ else _] => destruct b end;
  inversion H; discriminate.

Ltac side := try unfold nlen in *; first [ lia | discriminate | eassumption ].

Ltac fin_goal :=
  cbv beta; try unfold nlen in *;
  first [ eapply Fin_weaken; [eassumption | lia]
        | eapply I_Fin; [eassumption | lia] ].

(* one symbolic-execution step on a goal [wp m Q Err s] *)
Ltac introI :=
  let s := fresh "s" in let H := fresh "HI" in
  intros s H; let H' := fresh "Hc" in try (pose proof H as H'; apply I_c in H').
Ltac introVI := let v := fresh "v" in intros v; introI.

Ltac wp1 :=
  cbv beta zeta;
  lazymatch goal with
  | |- wp (bind _ _) _ _ _ => apply wp_bind
  | |- wp (ret _) _ _ _ => apply wp_ret
  | |- wp get _ _ _ => apply wp_get
  | |- wp (fail _) _ _ _ => eapply wp_fail; [eassumption | eassumption | discriminate]
  | |- wp (apply_cost _) _ _ _ => eapply wp_apply_cost; [eassumption | eassumption | side | introI]
  | |- wp (defer_cost _) _ _ _ => eapply wp_defer_cost; [eassumption | side | side | introI]
  | |- wp (pop_bigint _) _ _ _ => eapply wp_pop_bigint; [eassumption | eassumption | introVI]
  | |- wp (pop _) _ _ _ => eapply wp_pop; [eassumption | eassumption | introVI]
  | |- wp (popn _ _) _ _ _ => eapply wp_popn; [eassumption | eassumption | introVI]
  | |- wp top _ _ _ => eapply wp_top; [eassumption | eassumption | intros ? ? ?]
  | |- wp (lift (bigint_int64 _)) _ _ _ => eapply wp_int64; [eassumption | eassumption | intros ? ? ?]
  | |- wp (lift _) _ _ _ => eapply wp_lift; [eassumption | eassumption | no_oof | intros ? ?]
  | |- wp (push_bool _ _) _ _ _ => eapply wp_push_bool; [eassumption | eassumption | introI]
  | |- wp (push_bigint _ _) _ _ _ => eapply wp_push_bigint; [eassumption | eassumption | introI]
  | |- wp (push _ true) _ _ _ => eapply wp_push_def; [eassumption | introI]
  | |- wp (push _ false) _ _ _ => eapply wp_push; [eassumption | eassumption | introI]
  | |- wp (if ?b then _ else _) _ _ _ => destruct b eqn:?
  | |- wp (match ?x with _ => _ end) _ _ _ => destruct x eqn:?
  | |- Fin _ _ _ _ _ _ => fin_goal
  end.

Ltac wpgo := repeat wp1.

(* ---- CHECKPREDICATE split into the part before the child VM runs and the rest ---- *)

Definition mk_child (predicate : item) (limit : Z) (ds : list item) : vmst :=
  {| prog := predicate; pc := 0; nextpc := 0; runlimit := limit; deferred := 0;
     expres := false; vdata := []; dstack := ds; astack := [] |}.

Definition cp_prefix : M (vmst * nat) :=
  apply_cost 256 ;;; defer_cost (-256 + 64) ;;;
  lb <- pop_bigint true ;; limit <- lift (bigint_int64 lb) ;;
  predicate <- pop true ;;
  nb <- pop_bigint true ;; n <- lift (bigint_int64 nb) ;;
  s <- get ;;
  let l := Z.of_nat (length (dstack s)) in
  let n := if n =? 0 then l else n in
  if l <? n then fail EDataStackUnderflow
  else
    let limit := if limit =? 0 then runlimit s else limit in
    apply_cost limit ;;;
    s1 <- get ;;
    let k := Z.to_nat n in
    ret (mk_child predicate limit (firstn k (dstack s1)), k).

Definition cp_cont (rc : vmst -> child_result) (ck : vmst * nat) : M unit :=
  (fun s' => ROk tt (set_dstack s' (skipn (snd ck) (dstack s')))) ;;;
  let '(ok, cs) := rc (fst ck) in
  defer_cost (- runlimit cs) ;;; defer_cost (- stack_cost (dstack cs)) ;;;
  defer_cost (- stack_cost (astack cs)) ;;;
  push_bool (ok && negb (match dstack cs with [] => true | t :: _ => negb (as_bool t) end)) true.

Lemma bind_assoc {A B C} (m : M A) (f : A -> M B) (g : B -> M C) s :
  bind (bind m f) g s = bind m (fun x => bind (f x) g) s.
Proof. unfold bind. destruct (m s); reflexivity. Qed.

Lemma bind_cong {A B} (m : M A) (f g : A -> M B) s :
  (forall a s', f a s' = g a s') -> bind m f s = bind m g s.
Proof. intros H. unfold bind. destruct (m s); auto. Qed.

Lemma cp_split cr cx rc s : exec_op cr cx rc 192 s = bind cp_prefix (cp_cont rc) s.
Proof.
  unfold cp_prefix. cbv beta iota delta [exec_op].
  repeat (rewrite bind_assoc; apply bind_cong; intros; cbv beta zeta).
  match goal with |- context [if ?b then _ else _] => destruct b end; [reflexivity|].
  repeat (rewrite bind_assoc; apply bind_cong; intros; cbv beta zeta).
  reflexivity.
Qed.

Section Ops.
  Variable cr : crypto.
  Variable cx : context.
  Variable okerr : vmerr -> Prop.
  Hypothesis Hnat : forall e, e <> EOutOfFuel -> okerr e.
  Hypothesis Hco : forall f idx amt asset vmv code alt ex e,
    cx_checkoutput cx = Some f -> f idx amt asset vmv code alt ex = inl e -> okerr e.
  Variable rc : vmst -> child_result.
  Hypothesis Hrc : forall c, 0 <= runlimit c ->
    0 <= runlimit (snd (rc c)) /\ pot (snd (rc c)) <= pot c.

  Variable Phi0 : Z.
  Variable prg : item.
  Variable npc : N.

  Notation II jf := (I Phi0 prg npc jf).
  Notation FF jf := (Fin Phi0 prg npc jf).
  Notation EE := (Err Phi0 okerr).

  (* shape of the statement for an instruction body m that pays at least b *)
  Definition pays (jf : bool) (b : Z) (m : M unit) : Prop :=
    forall c s, II jf c s -> wp m (fun _ s' => FF jf (c + b) s') EE s.

  (* ---- instructions that rearrange the stack directly ---- *)

  Lemma I_setd jf c k s d' :
    II jf c s -> stack_cost d' + k = stack_cost (dstack s) -> 0 <= c + k -> II jf (c + k) (set_dstack s d').
  Proof. apply I_set_dstack. Qed.

  Lemma I_set_nextpc c s t : II true c s -> II true c (set_nextpc s t).
  Proof. unfold I, fr, pot. simp_st. intuition. Qed.

  Lemma wp_n_dup_go jf n k c s (Q : unit -> vmst -> Prop) :
    II jf c s -> (forall s', II jf c s' -> Q tt s') -> wp (n_dup_go n k) Q EE s.
  Proof.
    revert s Q. induction k as [|k IH]; intros s Q HI Hq; cbn [n_dup_go].
    - apply wp_ret. auto.
    - apply wp_bind, wp_get. cbv beta. apply wp_bind.
      eapply wp_push; [eassumption | eassumption |]. intros s1 H1. cbv beta. eapply IH; eauto.
  Qed.

  Lemma pays_n_dup jf n : pays jf (Z.of_nat n) (n_dup n).
  Proof.
    intros c s HI. pose proof (I_c _ _ _ _ _ _ HI). unfold n_dup. wp1. wp1. wp1. wp1. wp1.
    - wp1.
    - eapply wp_n_dup_go; [eassumption|]. intros. fin_goal.
  Qed.

  Lemma pays_rot_n jf n b : 0 <= b -> forall c s, II jf (c + b) s -> 0 <= c ->
    wp (rot_n n) (fun _ s' => FF jf (c + b) s') EE s.
  Proof.
    intros Hb c s HI Hc. unfold rot_n. wp1; [wp1|]. wp1. wp1. wp1; [wp1|].
    apply Z.ltb_ge in Heqb1. apply Z.ltb_ge in Heqb0.
    apply wp_raw. eapply I_Fin; [|apply Z.le_refl].
    replace (c + b) with (c + b + 0) by lia. apply I_setd; [assumption| |lia].
    set (k := Z.to_nat (n - 1)). set (st := dstack s) in *.
    assert (Hk : (k < length st)%nat) by lia.
    rewrite (stack_cost_split k st).
    rewrite stack_cost_cons, stack_cost_app.
    pose proof (skipn_nth_cons ([] : item) k st Hk) as Hs. rewrite Hs, stack_cost_cons. lia.
  Qed.

  Ltac start :=
    let c := fresh "c" in let s := fresh "s" in let HI := fresh "HI" in
    intros c s HI; pose proof (I_c _ _ _ _ _ _ HI);
    cbv beta iota delta [exec_op].

  Ltac raw_fin :=
    apply wp_raw; cbv beta;
    unfold Fin, I, fr, pot in *; simp_st;
    repeat match goal with H : dstack _ = _ |- _ => rewrite H in * end;
    repeat match goal with H : astack _ = _ |- _ => rewrite H in * end;
    rewrite ?stack_cost_cons in *; intuition lia.

  Lemma pays_99 : pays true 1 (exec_op cr cx rc 99).
  Proof. start. do 4 wp1. apply wp_raw. cbv beta. eapply I_Fin; [apply I_set_nextpc; eassumption | lia]. Qed.

  Lemma pays_100 : pays true 1 (exec_op cr cx rc 100).
  Proof.
    start. wpgo. apply wp_raw. cbv beta. eapply I_Fin; [apply I_set_nextpc; eassumption | lia].
  Qed.

  Lemma pays_107 jf : pays jf 1 (exec_op cr cx rc 107).
  Proof. start. do 5 wp1. - wp1. - raw_fin. Qed.

  Lemma pays_108 jf : pays jf 1 (exec_op cr cx rc 108).
  Proof. start. do 5 wp1. - wp1. - raw_fin. Qed.

  Lemma pays_113 jf : pays jf 1 (exec_op cr cx rc 113).
  Proof. start. do 4 wp1. repeat (wp1; [wp1|]). raw_fin. Qed.

  Lemma pays_114 jf : pays jf 1 (exec_op cr cx rc 114).
  Proof. start. do 4 wp1. repeat (wp1; [wp1|]). raw_fin. Qed.

  Lemma pays_124 jf : pays jf 1 (exec_op cr cx rc 124).
  Proof. start. do 4 wp1. repeat (wp1; [wp1|]). raw_fin. Qed.

  Lemma wp_apply_cost_keep jf c n (Q : unit -> vmst -> Prop) s :
    II jf c s -> 0 <= n -> (forall s', II jf (c + n) s' -> dstack s' = dstack s -> Q tt s') ->
    wp (apply_cost n) Q EE s.
  Proof.
    intros HI Hn Hq.
    assert (Hw : wp (apply_cost n) (fun _ s' => II jf (c + n) s') EE s)
      by (eapply wp_apply_cost; eauto).
    unfold wp, apply_cost in *. destruct (runlimit s <? n); [exact Hw|]. apply Hq; [exact Hw|reflexivity].
  Qed.

  Lemma pays_131 jf : pays jf 1 (exec_op cr cx rc 131).
  Proof.
    start. do 4 wp1. eapply wp_bind, wp_apply_cost_keep; [eassumption|unfold nlen; lia|].
    intros s1 HI1 Hd1. cbv beta. apply wp_raw.
    match goal with Hd : dstack ?s0 = ?v :: _ |- _ =>
      apply I_Fin with (c := c + 1 + nlen v + 0); [|unfold nlen; lia];
      apply I_setd; [eassumption| |unfold nlen; lia];
      rewrite Hd1, Hd; cbn [tl]; rewrite !stack_cost_cons; unfold item_cost; rewrite map_length; lia
    end.
  Qed.

  Lemma pays_119 jf : pays jf 1 (exec_op cr cx rc 119).
  Proof.
    start. wpgo. apply wp_raw. cbv beta.
    match goal with Hd : dstack ?s1 = ?v :: _, HI1 : I _ _ _ _ _ ?s1 |- _ =>
      assert (HI2 : II jf (c + 1 + item_cost v) (set_dstack s1 (tl (dstack s1))))
        by (apply I_setd; [eassumption| |pose proof (item_cost_pos v); lia];
            rewrite Hd; cbn [tl]; rewrite stack_cost_cons; lia);
      pose proof (item_cost_pos v)
    end.
    wpgo. apply wp_raw. cbv beta. eapply I_Fin; [|apply Z.le_refl].
    match goal with |- I _ _ _ _ _ (set_dstack _ (?v :: _)) =>
      replace (c + 1) with (c + 1 + item_cost v + - item_cost v) by lia;
      apply I_setd; [eassumption| |lia]; rewrite stack_cost_cons; lia
    end.
  Qed.

  Lemma pays_125 jf : pays jf 1 (exec_op cr cx rc 125).
  Proof.
    start. wpgo. apply wp_raw. cbv beta.
    match goal with Hd : dstack ?s1 = ?a :: ?b :: ?r, HI1 : I _ _ _ _ _ ?s1 |- _ =>
      pose proof (item_cost_pos a); pose proof (item_cost_pos b);
      assert (HI2 : II jf (c + 1 + (item_cost a + item_cost b)) (set_dstack s1 r))
        by (apply I_setd; [eassumption| |lia]; rewrite Hd, !stack_cost_cons; lia)
    end.
    wpgo. apply wp_raw. cbv beta. eapply I_Fin; [|apply Z.le_refl].
    match goal with |- I _ _ _ _ _ (set_dstack _ (?a :: ?b :: _)) =>
      replace (c + 1) with (c + 1 + (item_cost a + item_cost b) + - (item_cost a + item_cost b)) by lia;
      apply I_setd; [eassumption| |lia]; rewrite !stack_cost_cons; lia
    end.
  Qed.

  Lemma pays_193 jf : pays jf 1 (exec_op cr cx rc 193).
  Proof.
    start. wpgo. eapply wp_fail_ok; [eassumption|]. eapply Hco; [reflexivity | eassumption].
  Qed.

  (* ---- CHECKPREDICATE ---- *)

  Lemma I_top_bound jf c s x r : II jf c s -> dstack s = x :: r -> item_cost x + c <= Phi0.
  Proof.
    unfold I, pot. intros HI Hd. rewrite Hd, stack_cost_cons in HI.
    pose proof (stack_cost_nonneg r). pose proof (stack_cost_nonneg (astack s)). intuition lia.
  Qed.

  Definition cp_post (jf : bool) (c : Z) (ck : vmst * nat) (s' : vmst) : Prop :=
    exists limit pred,
      fst ck = mk_child pred limit (firstn (snd ck) (dstack s')) /\ 0 <= limit /\
      II jf (c + 64 + limit) s' /\ item_cost pred + c + 64 <= Phi0 /\ 0 <= c.

  Lemma cp_prefix_spec jf c s : II jf c s -> wp cp_prefix (cp_post jf c) EE s.
  Proof.
    intros HI. pose proof (I_c _ _ _ _ _ _ HI). unfold cp_prefix.
    do 9 wp1.
    eapply wp_pop_top; [eassumption | eassumption |]. intros pred r s3 Hd HI3. cbv beta.
    pose proof (I_top_bound _ _ _ _ _ HI2 Hd) as Hpred.
    wpgo.
    match goal with |- wp (apply_cost ?L) _ _ ?s4 =>
      assert (HL : 0 <= L) by
        (match goal with H : I _ _ _ _ _ s4 |- _ => pose proof H as (_ & ? & _) end;
         match goal with |- context [?z =? 0] => destruct (z =? 0) end; lia);
      set (lim := L) in *
    end.
    wpgo.
    unfold cp_post. cbn [fst snd]. exists lim, pred. split; [reflexivity|].
    split; [lia|]. split; [|lia]. replace (c + 64 + lim) with (c + 256 + (-256 + 64) + lim) by lia. assumption.
  Qed.

  Lemma cp_cont_spec jf c ck s : cp_post jf c ck s ->
    wp (cp_cont rc ck) (fun _ s' => FF jf (c + 64) s') EE s.
  Proof.
    intros (limit & pred & Hck & Hl & HI & _ & Hc0). destruct ck as [child k]. cbn [fst snd] in *.
    pose proof (I_c _ _ _ _ _ _ HI) as Hc.
    unfold cp_cont. cbn [fst snd]. apply wp_bind, wp_raw. cbv beta.
    set (scf := stack_cost (firstn k (dstack s))).
    assert (Hscf : 0 <= scf) by apply stack_cost_nonneg.
    assert (HI1 : II jf (c + 64 + limit + scf) (set_dstack s (skipn k (dstack s)))).
    { apply I_setd; [assumption| |lia]. rewrite (stack_cost_split k (dstack s)). subst scf. lia. }
    assert (Hchild : 0 <= runlimit child) by (subst child; exact Hl).
    destruct (Hrc child Hchild) as [Hr Hp].
    assert (Hpc : pot child = limit + scf) by (subst child scf; unfold pot, mk_child; simp_st; change (stack_cost []) with 0; lia).
    destruct (rc child) as [ok cs]. cbn [snd] in *. rewrite Hpc in Hp. unfold pot in Hp.
    pose proof (stack_cost_nonneg (dstack cs)). pose proof (stack_cost_nonneg (astack cs)).
    wpgo.
  Qed.

  Lemma pays_192 jf : pays jf 64 (exec_op cr cx rc 192).
  Proof.
    intros c s HI. unfold wp. rewrite cp_split.
    change (wp (bind cp_prefix (cp_cont rc)) (fun _ s' => FF jf (c + 64) s') EE s).
    apply wp_bind. eapply wp_weaken; [apply cp_prefix_spec; eassumption|].
    intros ck s' Hpost. apply cp_cont_spec. assumption.
  Qed.

  (* ---- CHECKMULTISIG: the cost is 1024 * numPubkeys, which may be 0 ---- *)

  Lemma pays_173 jf : forall c s, II jf c s ->
    wp (exec_op cr cx rc 173) (fun _ s' => FF jf (c + (if top_zero s then 0 else 1)) s') EE s.
  Proof.
    start. unfold pop_bigint at 1. do 2 apply wp_bind.
    eapply wp_pop_top; [eassumption | eassumption |]. intros x r s1 Hd HI1. cbv beta.
    eapply wp_lift; [eassumption | eassumption | no_oof |]. intros a Ha. cbv beta.
    apply wp_bind. eapply wp_int64; [eassumption | eassumption |]. intros z Hz0 Hz. cbv beta.
    assert (Hb : (if top_zero s then 0 else 1) <= z * 1024).
    { unfold top_zero. rewrite Hd, Ha. destruct a; lia. }
    set (b := if top_zero s then 0 else 1) in *.
    wpgo.
  Qed.

  Lemma pays_weaken jf b b' m : pays jf b m -> b' <= b -> pays jf b' m.
  Proof.
    intros Hp Hb c s HI. eapply wp_weaken; [apply Hp; eassumption|].
    intros ? s' HF. cbv beta in *. eapply Fin_weaken; [eassumption|lia].
  Qed.

  Lemma pays_rot jf : pays jf 1 (exec_op cr cx rc 123) /\ pays jf 1 (exec_op cr cx rc 122).
  Proof.
    split; start; wpgo.
    all: match goal with HI2 : I _ _ _ _ (?c + 2) ?s2 |- wp (rot_n ?n) _ _ ?s2 =>
      eapply wp_weaken; [apply (pays_rot_n jf n 2 ltac:(lia) c s2 HI2 ltac:(lia))|];
      intros ? s' HF; cbv beta in *; eapply Fin_weaken; [eassumption|lia] end.
  Qed.

  Ltac generic :=
    let c := fresh "c" in let s := fresh "s" in let HI := fresh "HI" in
    intros c s HI; pose proof (I_c _ _ _ _ _ _ HI);
    cbv beta iota delta [exec_op]; unfold num1, num2, cmp2, do_hash, do_equal;
    wpgo.

  Lemma exec_op_pays op jf :
    op <> 173%N -> (op = 99%N \/ op = 100%N -> jf = true) -> pays jf 1 (exec_op cr cx rc op).
  Proof.
    intros Hne Hj. destruct op as [|p].
    { generic. }
    destruct p as [p|p|]; try destruct p as [p|p|]; try destruct p as [p|p|]; try destruct p as [p|p|];
    try destruct p as [p|p|]; try destruct p as [p|p|]; try destruct p as [p|p|]; try destruct p as [p|p|].
    all: try congruence.
    all: try solve [generic].
    all: try (specialize (Hj ltac:(auto)); subst jf).
    all: first [ apply pays_n_dup with (n := 1%nat) | exact pays_99 | exact pays_100
               | apply pays_107 | apply pays_108 | apply pays_113 | apply pays_114
               | apply pays_119 | apply pays_124 | apply pays_125 | apply pays_131 | apply pays_193
               | apply (pays_weaken jf _ 1 _ (pays_n_dup jf 2)); lia
               | apply (pays_weaken jf _ 1 _ (pays_n_dup jf 3)); lia
               | apply (proj1 (pays_rot jf)) | apply (proj2 (pays_rot jf))
               | apply (pays_weaken jf _ 1 _ (pays_192 jf)); lia
               | idtac ].
    all: match goal with |- pays _ _ (exec_op _ _ _ ?o) => idtac o end.
  Qed.

  Definition op_cost (op : N) (s : vmst) : Z := if (op =? 173)%N && top_zero s then 0 else 1.

  Theorem exec_op_cost op jf :
    (op = 99%N \/ op = 100%N -> jf = true) ->
    forall c s, II jf c s ->
      wp (exec_op cr cx rc op) (fun _ s' => FF jf (c + op_cost op s) s') EE s.
  Proof.
    intros Hj c s HI. unfold op_cost. destruct (N.eqb_spec op 173) as [->|Hne].
    - cbn [andb]. apply pays_173. assumption.
    - cbn [andb]. apply exec_op_pays; assumption.
  Qed.
End Ops.

(* the child-run function matters only for CHECKPREDICATE, and there only at the child it starts *)
Lemma exec_op_ext cr cx rc1 rc2 op s :
  (forall ck s', cp_prefix s = ROk ck s' -> rc1 (fst ck) = rc2 (fst ck)) ->
  exec_op cr cx rc1 op s = exec_op cr cx rc2 op s.
Proof.
  intros H. destruct (N.eqb_spec op 192) as [->|Hne].
  - rewrite !cp_split. unfold bind. destruct (cp_prefix s) as [ck s'|e s'] eqn:Hp; [|reflexivity].
    unfold cp_cont, bind. rewrite (H _ _ eq_refl). reflexivity.
  - clear H. destruct op as [|p]; [reflexivity|].
    destruct p as [p|p|]; try destruct p as [p|p|]; try destruct p as [p|p|]; try destruct p as [p|p|];
    try destruct p as [p|p|]; try destruct p as [p|p|]; try destruct p as [p|p|]; try destruct p as [p|p|].
    all: try reflexivity.
    congruence.
Qed.
