(* C07 — step / run / verify level: potential, gas range, termination. *)
From Coq Require Import List ZArith NArith Bool Lia.
From Verif Require Import GoInt VM VMRun.
From VerifGen Require Import Checked.
From C07 Require Import Model Hoare Ops.
Import ListNotations.
Open Scope Z_scope.

(* ---------- facts about ParseOp ---------- *)

Lemma parse_op_err p pcv e : parse_op p pcv = inl e -> e <> EOutOfFuel.
Proof.
  unfold parse_op.
  repeat match goal with
         | |- context [if ?b then _ else _] => destruct b
         | |- context [match ?x with _ => _ end] => destruct x
         end; intros [= <-]; discriminate.
Qed.

Lemma parse_op_bounds p pcv i : parse_op p pcv = inr i ->
  (pcv < N.of_nat (length p) /\ N.of_nat (length p) <= 2147483647)%N.
Proof.
  unfold parse_op.
  destruct (2147483647 <? N.of_nat (length p))%N eqn:H1; [discriminate|].
  destruct (N.of_nat (length p) <=? pcv)%N eqn:H2; [discriminate|].
  intros _. apply N.ltb_ge in H1. apply N.leb_gt in H2. lia.
Qed.

Lemma parse_op_byte p pcv i : parse_op p pcv = inr i -> i_op i = byte_at p pcv.
Proof.
  unfold parse_op.
  repeat match goal with
         | |- context [if ?b then _ else _] => destruct b
         | |- context [match ?x with _ => _ end] => destruct x
         end; intros [= <-]; reflexivity.
Qed.

Lemma parse_op_len_plain p pcv i : parse_op p pcv = inr i -> i_op i = 173%N -> i_len i = 1%N.
Proof.
  intros Hp Hop. pose proof (parse_op_byte _ _ _ Hp) as Hb. rewrite Hop in Hb.
  revert Hp. unfold parse_op. rewrite <- Hb.
  repeat match goal with
         | |- context [if ?b then _ else _] => let E := fresh "E" in destruct b eqn:E; try (vm_compute in E; discriminate E)
         end; try discriminate; intros [= <-]; reflexivity.
Qed.

Lemma expansion_not_173 op : is_expansion op = true -> op <> 173%N.
Proof. intros H ->. vm_compute in H. discriminate. Qed.

(* ---------- one step ---------- *)

Section Step.
  Variable cr : crypto.
  Variable cx : context.
  Variable okerr : vmerr -> Prop.
  Hypothesis Hnat : forall e, e <> EOutOfFuel -> okerr e.
  Hypothesis Hco : forall f idx amt asset vmv code alt ex e,
    cx_checkoutput cx = Some f -> f idx amt asset vmv code alt ex = inl e -> okerr e.

  Definition child_ok (rc : vmst -> child_result) : Prop :=
    forall c, 0 <= runlimit c -> 0 <= runlimit (snd (rc c)) /\ pot (snd (rc c)) <= pot c.

  Definition step_post (s : vmst) (r : res unit) : Prop :=
    match r with
    | ROk _ s' =>
        0 <= runlimit s' /\ pot s' + min_cost s <= pot s /\ prog s' = prog s /\
        (multisig0 s = true -> pc s' = (pc s + 1)%N)
    | RErr e s' => okerr e /\ 0 <= runlimit s' /\ pot s' <= pot s
    end.

  Lemma step_spec rc s : child_ok rc -> 0 <= runlimit s -> step_post s (step cr cx rc s).
  Proof.
    intros Hrc Hr. unfold step_post, step, min_cost, multisig0.
    destruct (parse_op (prog s) (pc s)) as [e|i] eqn:Hp.
    { split; [apply Hnat; eapply parse_op_err; eassumption|]. lia. }
    set (npc := ((pc s + i_len i) mod two32)%N).
    destruct (is_expansion (i_op i)) eqn:Hex.
    { apply expansion_not_173 in Hex. apply N.eqb_neq in Hex. rewrite Hex. cbn [andb].
      simp_st. destruct (expres s).
      - split; [apply Hnat; discriminate|]. unfold pot; simp_st. lia.
      - unfold apply_cost. simp_st. destruct (runlimit s <? 1) eqn:Hlt.
        + apply Z.ltb_lt in Hlt. split; [apply Hnat; discriminate|]. unfold pot in *; simp_st. lia.
        + apply Z.ltb_ge in Hlt. unfold pot in *; simp_st.
          repeat split; try lia; try discriminate. }
    set (s2 := set_vdata (set_deferred (set_nextpc s npc) 0) (i_data i)).
    set (jf := ((i_op i =? 99) || (i_op i =? 100))%N).
    assert (HI : I (pot s) (prog s) npc jf 0 s2).
    { unfold I, fr, pot, s2. simp_st. repeat split; try lia; try (right; reflexivity). }
    assert (Hj : i_op i = 99%N \/ i_op i = 100%N -> jf = true).
    { unfold jf. intros [-> | ->]; reflexivity. }
    pose proof (exec_op_cost cr cx okerr Hnat Hco rc Hrc (pot s) (prog s) npc (i_op i) jf Hj 0 s2 HI) as Hw.
    unfold wp in Hw. replace (op_cost (i_op i) s2) with
      (if (i_op i =? 173)%N && top_zero s then 0 else 1) in Hw by reflexivity.
    destruct (exec_op cr cx rc (i_op i) s2) as [[] s3|e s3]; [|exact Hw].
    destruct Hw as (Hr3 & Hp3 & Hprog & Hnpc).
    unfold apply_cost. destruct (runlimit s3 <? deferred s3) eqn:Hlt.
    - split; [apply Hnat; discriminate|]. unfold pot. simp_st. change (stack_cost []) with 0.
      pose proof (pot_nonneg s Hr). unfold pot in *. lia.
    - apply Z.ltb_ge in Hlt. unfold pot in *. simp_st. repeat split; try lia; try assumption.
      intros Hm. apply andb_prop in Hm. destruct Hm as [Hop _]. apply N.eqb_eq in Hop.
      destruct Hnpc as [Hjt | Hn].
      + unfold jf in Hjt. rewrite Hop in Hjt. discriminate.
      + rewrite Hn. unfold npc. rewrite (parse_op_len_plain _ _ _ Hp Hop).
        destruct (parse_op_bounds _ _ _ Hp). apply N.mod_small. unfold two32. lia.
  Qed.
End Step.

(* ---------- whole runs: the potential never grows ---------- *)

Definition anyerr (e : vmerr) : Prop := True.

Section Run.
  Variable cr : crypto.
  Variable cx : context.

  Lemma run_S f s :
    run cr cx (S f) s =
    if (pc s <? N.of_nat (length (prog s)))%N then
      match step cr cx (child_fn cr cx f) s with
      | RErr e s' => RErr e s'
      | ROk _ s' => run cr cx f s'
      end
    else ROk tt s.
  Proof. reflexivity. Qed.

  Definition run_post (s : vmst) (r : res unit) : Prop :=
    match r with ROk _ s' | RErr _ s' => 0 <= runlimit s' /\ pot s' <= pot s end.

  Lemma min_cost_nonneg s : 0 <= min_cost s <= 1.
  Proof. unfold min_cost. destruct (multisig0 s); lia. Qed.

  Lemma child_ok_of_run f :
    (forall s, 0 <= runlimit s -> run_post s (run cr cx f s)) -> child_ok (child_fn cr cx f).
  Proof.
    intros IH c Hc. unfold child_fn. specialize (IH c Hc). unfold run_post in IH.
    destruct (run cr cx f c); cbn [snd]; exact IH.
  Qed.

  Lemma run_inv fuel : forall s, 0 <= runlimit s -> run_post s (run cr cx fuel s).
  Proof.
    induction fuel as [|f IH]; intros s Hr.
    - cbn. lia.
    - rewrite run_S. destruct (pc s <? N.of_nat (length (prog s)))%N; [|cbn; lia].
      pose proof (step_spec cr cx anyerr (fun _ _ => Logic.I) (fun _ _ _ _ _ _ _ _ _ _ _ => Logic.I)
                    (child_fn cr cx f) s (child_ok_of_run f IH) Hr) as Hs.
      unfold step_post in Hs. destruct (step cr cx (child_fn cr cx f) s) as [[] s'|e s'].
      + destruct Hs as (H1 & H2 & _). specialize (IH s' H1). unfold run_post in *.
        pose proof (min_cost_nonneg s). destruct (run cr cx f s'); lia.
      + unfold run_post. lia.
  Qed.

  Lemma child_ok_run f : child_ok (child_fn cr cx f).
  Proof. apply child_ok_of_run. apply run_inv. Qed.

  (* every executed instruction: the potential drops by at least 1, except CHECKMULTISIG
     with zero public keys, where it does not rise *)
  Theorem step_potential f s :
    0 <= runlimit s ->
    match step cr cx (child_fn cr cx f) s with
    | ROk _ s' => 0 <= runlimit s' /\ pot s' + min_cost s <= pot s
    | RErr _ s' => 0 <= runlimit s' /\ pot s' <= pot s
    end.
  Proof.
    intros Hr.
    pose proof (step_spec cr cx anyerr (fun _ _ => Logic.I) (fun _ _ _ _ _ _ _ _ _ _ _ => Logic.I)
                  (child_fn cr cx f) s (child_ok_run f) Hr) as Hs.
    unfold step_post in Hs. destruct (step cr cx (child_fn cr cx f) s); tauto.
  Qed.

  (* ---------- Verify: 0 <= gasLeft <= limit ---------- *)

  Lemma push_all_inv (f : item -> bool -> M unit) l :
    (forall Phi0 prg npc c x (Q : unit -> vmst -> Prop) s,
        I Phi0 prg npc true c s -> (forall s', I Phi0 prg npc true c s' -> Q tt s') ->
        wp (f x false) Q (Err Phi0 (fun e => e <> EOutOfFuel)) s) ->
    forall Phi0 prg npc c s, I Phi0 prg npc true c s ->
      wp (push_all f l) (fun _ s' => I Phi0 prg npc true c s') (Err Phi0 (fun e => e <> EOutOfFuel)) s.
  Proof.
    intros Hf Phi0 prg npc c. induction l as [|x l IH]; intros s HI; cbn [push_all].
    - apply wp_ret. assumption.
    - apply wp_bind. eapply Hf; [eassumption|]. intros s' HI'. apply IH. assumption.
  Qed.

  Lemma push_all_pc (f : item -> bool -> M unit) l :
    (forall x s a s', f x false s = ROk a s' -> pc s' = pc s) ->
    forall s a s', push_all f l s = ROk a s' -> pc s' = pc s.
  Proof.
    intros Hf. induction l as [|x l IH]; intros s a s' H; cbn [push_all] in H.
    - inversion H. reflexivity.
    - unfold bind in H. destruct (f x false s) as [a1 s1|] eqn:E; [|discriminate].
      apply Hf in E. apply IH in H. congruence.
  Qed.

  Lemma push_pc x s a s' : push x false s = ROk a s' -> pc s' = pc s.
  Proof.
    unfold push, bind, apply_cost. destruct (runlimit s <? item_cost x); [discriminate|].
    intros [= _ <-]. reflexivity.
  Qed.
  Lemma push_alt_pc x s a s' : push_alt x false s = ROk a s' -> pc s' = pc s.
  Proof.
    unfold push_alt, bind, apply_cost. destruct (runlimit s <? item_cost x); [discriminate|].
    intros [= _ <-]. reflexivity.
  Qed.

  Definition init_pushes (statedata args : list item) : M unit :=
    push_all push_alt statedata ;;; push_all push args.

  Lemma init_pushes_spec statedata args L : 0 <= L ->
    match init_pushes statedata args (init_state cx L) with
    | ROk _ s1 => 0 <= runlimit s1 /\ pot s1 <= L /\ prog s1 = cx_code cx /\ pc s1 = 0%N
    | RErr e s1 => e <> EOutOfFuel /\ 0 <= runlimit s1 /\ pot s1 <= L
    end.
  Proof.
    intros HL. set (s0 := init_state cx L).
    assert (HI : I L (cx_code cx) 0%N true 0 s0).
    { unfold I, fr, pot, s0, init_state. simp_st. change (stack_cost []) with 0. repeat split; try lia; try (left; reflexivity). }
    assert (Hw : wp (init_pushes statedata args) (fun _ s' => I L (cx_code cx) 0%N true 0 s')
                   (Err L (fun e => e <> EOutOfFuel)) s0).
    { unfold init_pushes. apply wp_bind.
      eapply wp_weaken.
      - apply push_all_inv; [|exact HI]. intros. eapply wp_push_alt; eauto.
      - intros ? s' HI'. cbv beta. apply push_all_inv; [|exact HI']. intros. eapply wp_push; eauto. }
    unfold wp in Hw. destruct (init_pushes statedata args s0) as [a s1|e s1] eqn:E.
    - unfold I, fr in Hw. repeat split; try tauto; try lia.
      unfold init_pushes, bind in E.
      destruct (push_all push_alt statedata s0) as [a0 sa|] eqn:E1; [|discriminate].
      apply (push_all_pc _ _ push_alt_pc) in E1. apply (push_all_pc _ _ push_pc) in E. rewrite E, E1. reflexivity.
    - exact Hw.
  Qed.

  Lemma verify_unfold fuel statedata args L :
    verify cr cx fuel statedata args L =
    if negb (cx_vmversion cx =? 1)%N then (L, Some EUnsupportedVM)
    else
      match init_pushes statedata args (init_state cx L) with
      | RErr e s => (runlimit s, Some e)
      | ROk _ s1 =>
          match run cr cx fuel s1 with
          | RErr EUnexpected s => (0, Some EUnexpected)
          | RErr e s => (runlimit s, Some e)
          | ROk _ s => (runlimit s, if false_result s then Some EFalseVMResult else None)
          end
      end.
  Proof. reflexivity. Qed.

  Theorem gas_range fuel statedata args L : 0 <= L ->
    0 <= fst (verify cr cx fuel statedata args L) <= L.
  Proof.
    intros HL. rewrite verify_unfold. destruct (negb (cx_vmversion cx =? 1)%N); [cbn; lia|].
    pose proof (init_pushes_spec statedata args L HL) as Hp.
    destruct (init_pushes statedata args (init_state cx L)) as [a s1|e s1].
    - destruct Hp as (Hr & Hpot & _). pose proof (run_inv fuel s1 Hr) as Hrun. unfold run_post in Hrun.
      assert (Hb : forall s, 0 <= runlimit s /\ pot s <= pot s1 -> 0 <= runlimit s <= L).
      { intros s [H1 H2]. unfold pot in *.
        pose proof (stack_cost_nonneg (dstack s)). pose proof (stack_cost_nonneg (astack s)). lia. }
      destruct (run cr cx fuel s1) as [[] s|e s].
      + cbn [fst]. auto.
      + destruct e; cbn [fst]; auto; lia.
    - destruct Hp as (_ & Hr & Hpot). cbn [fst]. unfold pot in Hpot.
      pose proof (stack_cost_nonneg (dstack s1)). pose proof (stack_cost_nonneg (astack s1)). lia.
  Qed.
End Run.

(* ---------- termination: explicit fuel bound, result independent of extra fuel ---------- *)

Lemma cube_mono a b : 0 <= a <= b -> a ^ 3 <= b ^ 3.
Proof. intros. apply Z.pow_le_mono_l. lia. Qed.

Definition child_small (s c : vmst) : Prop :=
  0 <= runlimit c /\ pot c + 64 <= pot s /\ plen c + 72 <= pot s /\ pc c = 0%N.

Lemma fb_step s s' :
  0 <= runlimit s -> 0 <= runlimit s' -> pot s' + min_cost s <= pot s -> prog s' = prog s ->
  (multisig0 s = true -> pc s' = (pc s + 1)%N) ->
  (pc s < N.of_nat (length (prog s)))%N ->
  fuel_bound s' + 1 <= fuel_bound s.
Proof.
  intros Hr Hr' Hp Hprog Hpc Hlt. unfold fuel_bound, plen. rewrite Hprog.
  pose proof (pot_nonneg s Hr) as HP. pose proof (pot_nonneg s' Hr') as HP'.
  set (P := pot s) in *. set (P' := pot s') in *. set (L := Z.of_nat (length (prog s))).
  assert (HL : 0 <= L) by (unfold L; lia).
  assert (Hlt' : Z.of_N (pc s) < L) by (unfold L; lia).
  unfold min_cost in Hp. destruct (multisig0 s).
  - rewrite (Hpc eq_refl).
    assert (P' * (L + 1) <= P * (L + 1)) by (apply Z.mul_le_mono_nonneg_r; lia).
    assert ((P' + 1) ^ 3 <= (P + 1) ^ 3) by (apply cube_mono; lia).
    lia.
  - assert (P' * (L + 1) <= (P - 1) * (L + 1)) by (apply Z.mul_le_mono_nonneg_r; lia).
    assert ((P' + 1) ^ 3 <= (P + 1) ^ 3) by (apply cube_mono; lia).
    lia.
Qed.

Lemma fb_child s c : 0 <= runlimit s -> child_small s c -> fuel_bound c + 1 <= fuel_bound s.
Proof.
  intros Hr (Hrc & Hp & Hl & Hpc). unfold fuel_bound. rewrite Hpc.
  pose proof (pot_nonneg s Hr) as HP. pose proof (pot_nonneg c Hrc) as HPc.
  assert (HLc : 0 <= plen c) by (unfold plen; lia).
  assert (HLs : 0 <= plen s) by (unfold plen; lia).
  set (P := pot s) in *. set (Pc := pot c) in *. set (Lc := plen c) in *. set (Ls := plen s) in *.
  assert (H1 : Pc * (Lc + 1) <= P * P).
  { transitivity (P * (Lc + 1)); [apply Z.mul_le_mono_nonneg_r; lia | apply Z.mul_le_mono_nonneg_l; lia]. }
  assert (H2 : (Pc + 1) ^ 3 <= P ^ 3) by (apply cube_mono; lia).
  assert (H3 : (P + 1) ^ 3 = P ^ 3 + 3 * (P * P) + 3 * P + 1) by ring.
  assert (H4 : 0 <= P * Ls + P) by nia.
  assert (H5 : 0 <= P * P) by nia.
  replace (Z.of_N 0) with 0 by reflexivity.
  replace (P * (Ls + 1)) with (P * Ls + P) by ring. lia.
Qed.

Section Term.
  Variable cr : crypto.
  Variable cx : context.
  Hypothesis Hsane : co_sane cx.

  Definition nooof (e : vmerr) : Prop := e <> EOutOfFuel.

  Lemma Hco_nooof : forall f idx amt asset vmv code alt ex e,
    cx_checkoutput cx = Some f -> f idx amt asset vmv code alt ex = inl e -> nooof e.
  Proof. intros f idx amt asset vmv code alt ex e Hf He ->. eapply Hsane; eauto. Qed.

  Lemma step_ext rc1 rc2 s : 0 <= runlimit s ->
    (forall c, child_small s c -> rc1 c = rc2 c) -> step cr cx rc1 s = step cr cx rc2 s.
  Proof.
    intros Hr H. unfold step. destruct (parse_op (prog s) (pc s)) as [e|i]; [reflexivity|].
    destruct (is_expansion (i_op i)); [reflexivity|].
    set (npc := ((pc s + i_len i) mod two32)%N).
    set (s2 := set_vdata (set_deferred (set_nextpc s npc) 0) (i_data i)).
    rewrite (exec_op_ext cr cx rc1 rc2 (i_op i) s2); [reflexivity|].
    intros ck s' Hp. apply H.
    assert (HI : I (pot s) (prog s) npc true 0 s2).
    { unfold I, fr, pot, s2. simp_st. repeat split; try lia; try (left; reflexivity). }
    pose proof (cp_prefix_spec anyerr (fun _ _ => Logic.I) _ _ _ _ _ _ HI) as Hw.
    unfold wp in Hw. rewrite Hp in Hw.
    destruct Hw as (limit & pred & Hck & Hl & HI' & Hpred & _).
    rewrite Hck. unfold child_small, pot, plen, mk_child. simp_st. change (stack_cost []) with 0.
    destruct HI' as (_ & Hr' & Hd' & Hpot' & _). unfold pot in Hpot'.
    rewrite (stack_cost_split (snd ck) (dstack s')) in Hpot'.
    pose proof (stack_cost_nonneg (skipn (snd ck) (dstack s'))).
    pose proof (stack_cost_nonneg (astack s')).
    unfold item_cost in Hpred. unfold pot in *. repeat split; lia.
  Qed.

  Lemma fuel_bound_pos s : 0 <= runlimit s -> 1 <= fuel_bound s.
  Proof.
    intros Hr. pose proof (pot_nonneg s Hr). unfold fuel_bound.
    assert (0 <= plen s) by (unfold plen; lia).
    assert (0 <= pot s * (plen s + 1)) by (apply Z.mul_nonneg_nonneg; lia).
    assert (0 <= (pot s + 1) ^ 3) by (apply Z.pow_nonneg; lia). lia.
  Qed.

  Lemma fuel_enough f : forall s, 0 <= runlimit s -> fuel_bound s <= Z.of_nat f ->
    is_oof (run cr cx f s) = false /\
    forall f', (f <= f')%nat -> run cr cx f' s = run cr cx f s.
  Proof.
    induction f as [|f IH]; intros s Hr Hb.
    { pose proof (fuel_bound_pos s Hr). lia. }
    assert (Hchild : forall f', (f <= f')%nat -> forall c, child_small s c ->
                       child_fn cr cx f' c = child_fn cr cx f c).
    { intros f' Hf c Hc. pose proof (fb_child s c Hr Hc).
      destruct Hc as (Hrc & _). destruct (IH c Hrc ltac:(lia)) as [_ Heq].
      unfold child_fn. rewrite (Heq f' Hf). reflexivity. }
    pose proof (step_spec cr cx nooof (fun e H => H) Hco_nooof (child_fn cr cx f) s
                  (child_ok_run cr cx f) Hr) as Hs.
    split.
    - rewrite run_S. destruct (pc s <? N.of_nat (length (prog s)))%N eqn:Hlt; [|reflexivity].
      unfold step_post in Hs. destruct (step cr cx (child_fn cr cx f) s) as [[] s'|e s'].
      + destruct Hs as (H1 & H2 & H3 & H4). apply N.ltb_lt in Hlt.
        pose proof (fb_step s s' Hr H1 H2 H3 H4 Hlt). apply (IH s' H1). lia.
      + destruct Hs as [He _]. unfold nooof in He. destruct e; try reflexivity. congruence.
    - intros f' Hf'. destruct f' as [|f']; [lia|]. rewrite !run_S.
      destruct (pc s <? N.of_nat (length (prog s)))%N eqn:Hlt; [|reflexivity].
      rewrite (step_ext (child_fn cr cx f') (child_fn cr cx f) s Hr (Hchild f' ltac:(lia))).
      unfold step_post in Hs. destruct (step cr cx (child_fn cr cx f) s) as [[] s'|e s']; [|reflexivity].
      destruct Hs as (H1 & H2 & H3 & H4). apply N.ltb_lt in Hlt.
      pose proof (fb_step s s' Hr H1 H2 H3 H4 Hlt).
      destruct (IH s' H1 ltac:(lia)) as [_ Heq]. apply Heq. lia.
  Qed.

  (* Verify: with verify_fuel (or more) the result never is EOutOfFuel and does not depend on the fuel *)
  Lemma verify_fuel_bound s1 L : 0 <= L -> 0 <= runlimit s1 -> pot s1 <= L -> prog s1 = cx_code cx -> pc s1 = 0%N ->
    fuel_bound s1 <= Z.of_nat (verify_fuel cx L).
  Proof.
    intros HL Hr Hp Hprog Hpc. unfold verify_fuel, fuel_bound, plen. rewrite Hprog, Hpc.
    pose proof (pot_nonneg s1 Hr) as HP.
    set (Ln := Z.of_nat (length (cx_code cx))). assert (0 <= Ln) by (unfold Ln; lia).
    assert (pot s1 * (Ln + 1) <= L * (Ln + 1)) by (apply Z.mul_le_mono_nonneg_r; lia).
    assert ((pot s1 + 1) ^ 3 <= (L + 1) ^ 3) by (apply cube_mono; lia).
    assert (0 <= L * (Ln + 1)) by (apply Z.mul_nonneg_nonneg; lia).
    assert (0 <= (L + 1) ^ 3) by (apply Z.pow_nonneg; lia).
    rewrite Z2Nat.id by lia. replace (Z.of_N 0) with 0 by reflexivity. lia.
  Qed.

  Theorem verify_terminates statedata args L f : 0 <= L -> (verify_fuel cx L <= f)%nat ->
    snd (verify cr cx f statedata args L) <> Some EOutOfFuel /\
    verify cr cx f statedata args L = verify cr cx (verify_fuel cx L) statedata args L.
  Proof.
    intros HL Hf. rewrite !verify_unfold. destruct (negb (cx_vmversion cx =? 1)%N); [split; [discriminate|reflexivity]|].
    pose proof (init_pushes_spec cx statedata args L HL) as Hp.
    destruct (init_pushes statedata args (init_state cx L)) as [a s1|e s1].
    - destruct Hp as (Hr & Hpot & Hprog & Hpc).
      pose proof (verify_fuel_bound s1 L HL Hr Hpot Hprog Hpc) as Hb.
      destruct (fuel_enough (verify_fuel cx L) s1 Hr Hb) as [Hno Heq].
      rewrite (Heq f Hf). split; [|reflexivity].
      destruct (run cr cx (verify_fuel cx L) s1) as [[] s|e s].
      + cbn [snd]. destruct (false_result s); discriminate.
      + destruct e; cbn [snd]; try discriminate; cbn in Hno; discriminate.
    - destruct Hp as (He & _). split; [|reflexivity]. cbn [snd]. congruence.
  Qed.
End Term.

(* ---------- the open finding: CHECKMULTISIG with zero public keys is free ---------- *)

Definition dummy_crypto : crypto :=
  {| h_sha256 := fun _ => []; h_sha3 := fun _ => []; h_ripemd160 := fun _ => [];
     sig_verify := fun _ _ _ => false |}.
Definition dummy_context : context :=
  mk_context [173%N] [] None None None None None None None false.

Definition msg32 : item := repeat 7%N 32.

(* about to execute CHECKMULTISIG on  <msg> 0 0  *)
Definition ms0_state : vmst :=
  {| prog := [173%N]; pc := 0; nextpc := 0; runlimit := 1000; deferred := 0; expres := false;
     vdata := []; dstack := [[]; []; msg32]; astack := [] |}.

Definition ms0_after : vmst :=
  {| prog := [173%N]; pc := 1; nextpc := 1; runlimit := 1047; deferred := -47; expres := false;
     vdata := []; dstack := [[1%N]]; astack := [] |}.

Lemma ms0_step : step dummy_crypto dummy_context (child_fn dummy_crypto dummy_context 0) ms0_state = ROk tt ms0_after.
Proof. vm_compute. reflexivity. Qed.

Lemma ms0_pot : pot ms0_after = pot ms0_state.
Proof. vm_compute. reflexivity. Qed.

Lemma ms0_guard : multisig0 ms0_state = true.
Proof. vm_compute. reflexivity. Qed.

Theorem multisig0_refutes :
  ~ (forall cr cx fuel s s', 0 <= runlimit s ->
       step cr cx (child_fn cr cx fuel) s = ROk tt s' -> pot s' + 1 <= pot s).
Proof.
  intros H. specialize (H dummy_crypto dummy_context 0%nat ms0_state ms0_after ltac:(cbn; lia) ms0_step).
  rewrite ms0_pot in H. lia.
Qed.

Theorem costs_outside cr cx fuel s s' :
  0 <= runlimit s -> multisig0 s = false ->
  step cr cx (child_fn cr cx fuel) s = ROk tt s' -> pot s' + 1 <= pot s.
Proof.
  intros Hr Hg Hs. pose proof (step_potential cr cx fuel s Hr) as H. rewrite Hs in H.
  unfold min_cost in H. rewrite Hg in H. tauto.
Qed.

(* the guard is decidable and non-trivially satisfiable the other way: a state about to run ADD *)
Example guard_example :
  multisig0 {| prog := [147%N]; pc := 0; nextpc := 0; runlimit := 10; deferred := 0; expres := false;
               vdata := []; dstack := [[1%N]; [2%N]]; astack := [] |} = false.
Proof. vm_compute. reflexivity. Qed.

Example co_sane_example : co_sane (mk_context [81%N] [] None None None None None None None true).
Proof.
  unfold co_sane, mk_context. cbn [cx_checkoutput]. intros f idx amt asset vmv code alt ex [= <-].
  unfold test_checkoutput. destruct (5 <? idx)%N; discriminate.
Qed.

(* ---------- validator bookkeeping ---------- *)

Lemma wrap_small x : - 2 ^ 63 <= x <= 2 ^ 63 - 1 -> wrap I64 x = x.
Proof. intros H. apply in_range_wrap. unfold in_range, tmin, tmax. apply andb_true_intro. split; apply Z.leb_le; lia. Qed.

Lemma SubInt64_small a b : 0 <= b <= a -> a <= 2 ^ 63 - 1 -> SubInt64 a b = Some (a - b, true).
Proof.
  intros Hb Ha. unfold SubInt64, ocmp, obind2, oret, gadd, gsub.
  rewrite (wrap_small (- 2 ^ 63 + b)) by lia. rewrite (wrap_small (a - b)) by lia.
  assert (H1 : (a <? - 2 ^ 63 + b) = false) by (apply Z.ltb_ge; lia).
  assert (H2 : (b <? 0) = false) by (apply Z.ltb_ge; lia).
  rewrite H1, H2. destruct (b >? 0); reflexivity.
Qed.

Definition gs_inv (total : Z) (g : gas_state) : Prop :=
  0 <= g_left g /\ 0 <= g_used g /\ g_left g + g_used g = total.

Lemma update_usage_spec total g gl : total <= 2 ^ 63 - 1 -> gs_inv total g -> 0 <= gl <= g_left g ->
  exists g', (update_usage g gl = UOk g' \/ update_usage g gl = UErrOverCredit g') /\
             gs_inv total g' /\ g_left g' = gl /\ g_used g' = g_used g + (g_left g - gl) /\
             g_storage g' = g_storage g.
Proof.
  intros Ht (H1 & H2 & H3) Hgl. unfold update_usage.
  assert (Hlt : (gl <? 0) = false) by (apply Z.ltb_ge; lia). rewrite Hlt.
  rewrite SubInt64_small by lia. rewrite wrap_small by lia.
  eexists. split.
  - cbn [g_left g_storage]. destruct (gl <? g_storage g); [right|left]; reflexivity.
  - unfold gs_inv. cbn [g_left g_used g_storage]. repeat split; lia.
Qed.

Definition vres_ok (total : Z) (r : vres) : Prop :=
  match r with
  | VDone g' | VVmErr _ g' | VGasErr (UErrOverCredit g') => gs_inv total g'
  | VGasErr _ => False
  end.

Theorem validate_calls_ok cr total calls : total <= 2 ^ 63 - 1 ->
  forall g, gs_inv total g -> vres_ok total (validate_calls cr calls g).
Proof.
  intros Ht. induction calls as [|c rest IH]; intros g Hg; cbn [validate_calls].
  - exact Hg.
  - pose proof (gas_range cr (vc_cx c) (vc_fuel c) (vc_state c) (vc_args c) (g_left g) (proj1 Hg)) as Hr.
    destruct (verify cr (vc_cx c) (vc_fuel c) (vc_state c) (vc_args c) (g_left g)) as [gl [e|]]; cbn [fst] in Hr.
    + exact Hg.
    + destruct (update_usage_spec total g gl Ht Hg Hr) as (g' & [Hu | Hu] & Hinv & _); rewrite Hu.
      * apply IH. exact Hinv.
      * exact Hinv.
Qed.

(* the invariant of the bookkeeping is satisfiable by the validator's initial state
   (setGas caps GasLeft at MaxGasAmount = 300000; storage gas already charged) *)
Example gs_inv_example : gs_inv 300000 {| g_left := 299000; g_used := 1000; g_storage := 1000 |}.
Proof. unfold gs_inv. cbn. lia. Qed.

Example update_usage_example :
  update_usage {| g_left := 299000; g_used := 1000; g_storage := 1000 |} 298000 =
  UOk {| g_left := 298000; g_used := 2000; g_storage := 1000 |}.
Proof. vm_compute. reflexivity. Qed.
