(* C07 — step / run / verify level: potential, gas range, termination. *)
From Coq Require Import List ZArith NArith Bool Lia.
From Verif Require Import VM.
From C07 Require Import Model Hoare Ops.
Import ListNotations.
Open Scope Z_scope.

(* ---------- facts about ParseOp ---------- *)

Lemma parse_op_err p pcv e : parse_op p pcv = inl e -> e <> EOutOfFuel.
Proof.
  unfold parse_op.
  repeat match goal with
         | |- context [if ?b then _ else _] => destruct b
         | |- context [match ?x with _ => _ end] => destruct x
         end; intros [= <-]; discriminate.
Qed.

Lemma parse_op_bounds p pcv i : parse_op p pcv = inr i ->
  (pcv < N.of_nat (length p) /\ N.of_nat (length p) <= 2147483647)%N.
Proof.
  unfold parse_op.
  destruct (2147483647 <? N.of_nat (length p))%N eqn:H1; [discriminate|].
  destruct (N.of_nat (length p) <=? pcv)%N eqn:H2; [discriminate|].
  intros _. apply N.ltb_ge in H1. apply N.leb_gt in H2. lia.
Qed.

Lemma parse_op_byte p pcv i : parse_op p pcv = inr i -> i_op i = byte_at p pcv.
Proof.
  unfold parse_op.
  repeat match goal with
         | |- context [if ?b then _ else _] => destruct b
         | |- context [match ?x with _ => _ end] => destruct x
         end; intros [= <-]; reflexivity.
Qed.

Lemma parse_op_len_plain p pcv i : parse_op p pcv = inr i -> i_op i = 173%N -> i_len i = 1%N.
Proof.
  intros Hp Hop. pose proof (parse_op_byte _ _ _ Hp) as Hb. rewrite Hop in Hb.
  revert Hp. unfold parse_op. rewrite <- Hb.
  repeat match goal with
         | |- context [if ?b then _ else _] => let E := fresh "E" in destruct b eqn:E; try (vm_compute in E; discriminate E)
         end; try discriminate; intros [= <-]; reflexivity.
Qed.

Lemma expansion_not_173 op : is_expansion op = true -> op <> 173%N.
Proof. intros H ->. vm_compute in H. discriminate. Qed.

(* ---------- one step ---------- *)

Section Step.
  Variable cr : crypto.
  Variable cx : context.
  Variable okerr : vmerr -> Prop.
  Hypothesis Hnat : forall e, e <> EOutOfFuel -> okerr e.
  Hypothesis Hco : forall f idx amt asset vmv code alt ex e,
    cx_checkoutput cx = Some f -> f idx amt asset vmv code alt ex = inl e -> okerr e.

  Definition child_ok (rc : vmst -> child_result) : Prop :=
    forall c, 0 <= runlimit c -> 0 <= runlimit (snd (rc c)) /\ pot (snd (rc c)) <= pot c.

  Definition step_post (s : vmst) (r : res unit) : Prop :=
    match r with
    | ROk _ s' =>
        0 <= runlimit s' /\ pot s' + min_cost s <= pot s /\ prog s' = prog s /\
        (multisig0 s = true -> pc s' = (pc s + 1)%N)
    | RErr e s' => okerr e /\ 0 <= runlimit s' /\ pot s' <= pot s
    end.

  Lemma step_spec rc s : child_ok rc -> 0 <= runlimit s -> step_post s (step cr cx rc s).
  Proof.
    intros Hrc Hr. unfold step_post, step, min_cost, multisig0.
    destruct (parse_op (prog s) (pc s)) as [e|i] eqn:Hp.
    { split; [apply Hnat; eapply parse_op_err; eassumption|]. lia. }
    set (npc := ((pc s + i_len i) mod two32)%N).
    destruct (is_expansion (i_op i)) eqn:Hex.
    { apply expansion_not_173 in Hex. apply N.eqb_neq in Hex. rewrite Hex. cbn [andb].
      simp_st. destruct (expres s).
      - split; [apply Hnat; discriminate|]. unfold pot; simp_st. lia.
      - unfold apply_cost. simp_st. destruct (runlimit s <? 1) eqn:Hlt.
        + apply Z.ltb_lt in Hlt. split; [apply Hnat; discriminate|]. unfold pot in *; simp_st. lia.
        + apply Z.ltb_ge in Hlt. unfold pot in *; simp_st.
          repeat split; try lia; try discriminate. }
    set (s2 := set_vdata (set_deferred (set_nextpc s npc) 0) (i_data i)).
    set (jf := ((i_op i =? 99) || (i_op i =? 100))%N).
    assert (HI : I (pot s) (prog s) npc jf 0 s2).
    { unfold I, fr, pot, s2. simp_st. repeat split; try lia; try (right; reflexivity). }
    assert (Hj : i_op i = 99%N \/ i_op i = 100%N -> jf = true).
    { unfold jf. intros [-> | ->]; reflexivity. }
    pose proof (exec_op_cost cr cx okerr Hnat Hco rc Hrc (pot s) (prog s) npc (i_op i) jf Hj 0 s2 HI) as Hw.
    unfold wp in Hw. replace (op_cost (i_op i) s2) with
      (if (i_op i =? 173)%N && top_zero s then 0 else 1) in Hw by reflexivity.
    destruct (exec_op cr cx rc (i_op i) s2) as [[] s3|e s3]; [|exact Hw].
    destruct Hw as (Hr3 & Hp3 & Hprog & Hnpc).
    unfold apply_cost. destruct (runlimit s3 <? deferred s3) eqn:Hlt.
    - split; [apply Hnat; discriminate|]. unfold pot. simp_st. change (stack_cost []) with 0.
      pose proof (pot_nonneg s Hr). unfold pot in *. lia.
    - apply Z.ltb_ge in Hlt. unfold pot in *. simp_st. repeat split; try lia; try assumption.
      intros Hm. apply andb_prop in Hm. destruct Hm as [Hop _]. apply N.eqb_eq in Hop.
      destruct Hnpc as [Hjt | Hn].
      + unfold jf in Hjt. rewrite Hop in Hjt. discriminate.
      + rewrite Hn. unfold npc. rewrite (parse_op_len_plain _ _ _ Hp Hop).
        destruct (parse_op_bounds _ _ _ Hp). apply N.mod_small. unfold two32. lia.
  Qed.
End Step.

(* ---------- whole runs: the potential never grows ---------- *)

Definition anyerr (e : vmerr) : Prop := True.

Section Run.
  Variable cr : crypto.
  Variable cx : context.

  Lemma run_S f s :
    run cr cx (S f) s =
    if (pc s <? N.of_nat (length (prog s)))%N then
      match step cr cx (child_fn cr cx f) s with
      | RErr e s' => RErr e s'
      | ROk _ s' => run cr cx f s'
      end
    else ROk tt s.
  Proof. reflexivity. Qed.

  Definition run_post (s : vmst) (r : res unit) : Prop :=
    match r with ROk _ s' | RErr _ s' => 0 <= runlimit s' /\ pot s' <= pot s end.

  Lemma min_cost_nonneg s : 0 <= min_cost s <= 1.
  Proof. unfold min_cost. destruct (multisig0 s); lia. Qed.

  Lemma child_ok_of_run f :
    (forall s, 0 <= runlimit s -> run_post s (run cr cx f s)) -> child_ok (child_fn cr cx f).
  Proof.
    intros IH c Hc. unfold child_fn. specialize (IH c Hc). unfold run_post in IH.
    destruct (run cr cx f c); cbn [snd]; exact IH.
  Qed.

  Lemma run_inv fuel : forall s, 0 <= runlimit s -> run_post s (run cr cx fuel s).
  Proof.
    induction fuel as [|f IH]; intros s Hr.
    - cbn. lia.
    - rewrite run_S. destruct (pc s <? N.of_nat (length (prog s)))%N; [|cbn; lia].
      pose proof (step_spec cr cx anyerr (fun _ _ => Logic.I) (fun _ _ _ _ _ _ _ _ _ _ _ => Logic.I)
                    (child_fn cr cx f) s (child_ok_of_run f IH) Hr) as Hs.
      unfold step_post in Hs. destruct (step cr cx (child_fn cr cx f) s) as [[] s'|e s'].
      + destruct Hs as (H1 & H2 & _). specialize (IH s' H1). unfold run_post in *.
        pose proof (min_cost_nonneg s). destruct (run cr cx f s'); lia.
      + unfold run_post. lia.
  Qed.

  Lemma child_ok_run f : child_ok (child_fn cr cx f).
  Proof. apply child_ok_of_run. apply run_inv. Qed.

  (* every executed instruction: the potential drops by at least 1, except CHECKMULTISIG
     with zero public keys, where it does not rise *)
  Theorem step_potential f s :
    0 <= runlimit s ->
    match step cr cx (child_fn cr cx f) s with
    | ROk _ s' => 0 <= runlimit s' /\ pot s' + min_cost s <= pot s
    | RErr _ s' => 0 <= runlimit s' /\ pot s' <= pot s
    end.
  Proof.
    intros Hr.
    pose proof (step_spec cr cx anyerr (fun _ _ => Logic.I) (fun _ _ _ _ _ _ _ _ _ _ _ => Logic.I)
                  (child_fn cr cx f) s (child_ok_run f) Hr) as Hs.
    unfold step_post in Hs. destruct (step cr cx (child_fn cr cx f) s); tauto.
  Qed.

  (* ---------- Verify: 0 <= gasLeft <= limit ---------- *)

  Lemma push_all_inv (f : item -> bool -> M unit) l :
    (forall Phi0 prg npc c x (Q : unit -> vmst -> Prop) s,
        I Phi0 prg npc true c s -> (forall s', I Phi0 prg npc true c s' -> Q tt s') ->
        wp (f x false) Q (Err Phi0 (fun e => e <> EOutOfFuel)) s) ->
    forall Phi0 prg npc c s, I Phi0 prg npc true c s ->
      wp (push_all f l) (fun _ s' => I Phi0 prg npc true c s') (Err Phi0 (fun e => e <> EOutOfFuel)) s.
  Proof.
    intros Hf Phi0 prg npc c. induction l as [|x l IH]; intros s HI; cbn [push_all].
    - apply wp_ret. assumption.
    - apply wp_bind. eapply Hf; [eassumption|]. intros s' HI'. apply IH. assumption.
  Qed.

  Lemma push_all_pc (f : item -> bool -> M unit) l :
    (forall x s a s', f x false s = ROk a s' -> pc s' = pc s) ->
    forall s a s', push_all f l s = ROk a s' -> pc s' = pc s.
  Proof.
    intros Hf. induction l as [|x l IH]; intros s a s' H; cbn [push_all] in H.
    - inversion H. reflexivity.
    - unfold bind in H. destruct (f x false s) as [a1 s1|] eqn:E; [|discriminate].
      apply Hf in E. apply IH in H. congruence.
  Qed.

  Lemma push_pc x s a s' : push x false s = ROk a s' -> pc s' = pc s.
  Proof.
    unfold push, bind, apply_cost. destruct (runlimit s <? item_cost x); [discriminate|].
    intros [= _ <-]. reflexivity.
  Qed.
  Lemma push_alt_pc x s a s' : push_alt x false s = ROk a s' -> pc s' = pc s.
  Proof.
    unfold push_alt, bind, apply_cost. destruct (runlimit s <? item_cost x); [discriminate|].
    intros [= _ <-]. reflexivity.
  Qed.

  Definition init_pushes (statedata args : list item) : M unit :=
    push_all push_alt statedata ;;; push_all push args.

  Lemma init_pushes_spec statedata args L : 0 <= L ->
    match init_pushes statedata args (init_state cx L) with
    | ROk _ s1 => 0 <= runlimit s1 /\ pot s1 <= L /\ prog s1 = cx_code cx /\ pc s1 = 0%N
    | RErr e s1 => e <> EOutOfFuel /\ 0 <= runlimit s1 /\ pot s1 <= L
    end.
  Proof.
    intros HL. set (s0 := init_state cx L).
    assert (HI : I L (cx_code cx) 0%N true 0 s0).
    { unfold I, fr, pot, s0, init_state. simp_st. change (stack_cost []) with 0. repeat split; try lia; try (left; reflexivity). }
    assert (Hw : wp (init_pushes statedata args) (fun _ s' => I L (cx_code cx) 0%N true 0 s')
                   (Err L (fun e => e <> EOutOfFuel)) s0).
    { unfold init_pushes. apply wp_bind.
      eapply wp_weaken.
      - apply push_all_inv; [|exact HI]. intros. eapply wp_push_alt; eauto.
      - intros ? s' HI'. cbv beta. apply push_all_inv; [|exact HI']. intros. eapply wp_push; eauto. }
    unfold wp in Hw. destruct (init_pushes statedata args s0) as [a s1|e s1] eqn:E.
    - unfold I, fr in Hw. repeat split; try tauto; try lia.
      unfold init_pushes, bind in E.
      destruct (push_all push_alt statedata s0) as [a0 sa|] eqn:E1; [|discriminate].
      apply (push_all_pc _ _ push_alt_pc) in E1. apply (push_all_pc _ _ push_pc) in E. rewrite E, E1. reflexivity.
    - exact Hw.
  Qed.

  Lemma verify_unfold fuel statedata args L :
    verify cr cx fuel statedata args L =
    if negb (cx_vmversion cx =? 1)%N then (L, Some EUnsupportedVM)
    else
      match init_pushes statedata args (init_state cx L) with
      | RErr e s => (runlimit s, Some e)
      | ROk _ s1 =>
          match run cr cx fuel s1 with
          | RErr EUnexpected s => (0, Some EUnexpected)
          | RErr e s => (runlimit s, Some e)
          | ROk _ s => (runlimit s, if false_result s then Some EFalseVMResult else None)
          end
      end.
  Proof. reflexivity. Qed.

  Theorem gas_range fuel statedata args L : 0 <= L ->
    0 <= fst (verify cr cx fuel statedata args L) <= L.
  Proof.
    intros HL. rewrite verify_unfold. destruct (negb (cx_vmversion cx =? 1)%N); [cbn; lia|].
    pose proof (init_pushes_spec statedata args L HL) as Hp.
    destruct (init_pushes statedata args (init_state cx L)) as [a s1|e s1].
    - destruct Hp as (Hr & Hpot & _). pose proof (run_inv fuel s1 Hr) as Hrun. unfold run_post in Hrun.
      assert (Hb : forall s, 0 <= runlimit s /\ pot s <= pot s1 -> 0 <= runlimit s <= L).
      { intros s [H1 H2]. unfold pot in *.
        pose proof (stack_cost_nonneg (dstack s)). pose proof (stack_cost_nonneg (astack s)). lia. }
      destruct (run cr cx fuel s1) as [[] s|e s].
      + cbn [fst]. auto.
      + destruct e; cbn [fst]; auto; lia.
    - destruct Hp as (_ & Hr & Hpot). cbn [fst]. unfold pot in Hpot.
      pose proof (stack_cost_nonneg (dstack s1)). pose proof (stack_cost_nonneg (astack s1)). lia.
  Qed.
End Run.
