(* C07 — VM execution terminates within the gas limit. PROPERTY THEOREMS ONLY.
   All statements are about the executable VM model coq/lib/VM.v (tied to
   protocol/vm by the correspondence harness), for every program, argument
   list, state data, context, crypto instantiation and gas limit >= 0. *)
From Coq Require Import List ZArith NArith Bool.
From Verif Require Import GoInt VM.
From C07 Require Import Model Proofs Shift.
Import ListNotations.
Open Scope Z_scope.

(* Phi(s) = run limit + refund value of both stacks (Model.pot).
   Every executed instruction (expansion NOPs included; a child VM started by
   CHECKPREDICATE runs inside the step) lowers Phi by at least min_cost, which is 1
   except for CHECKMULTISIG with numPubkeys = 0 (Model.multisig0); Phi never rises,
   also when the instruction fails; the run limit stays >= 0. *)
Theorem c07_potential : forall cr cx fuel s,
  0 <= runlimit s ->
  match step cr cx (child_fn cr cx fuel) s with
  | ROk _ s' => 0 <= runlimit s' /\ pot s' + min_cost s <= pot s
  | RErr _ s' => 0 <= runlimit s' /\ pot s' <= pot s
  end.
Proof. exact step_potential. Qed.
Print Assumptions c07_potential.

(* the full sentence of the property: "every executed instruction consumes at least one unit" *)
Definition c07_every_instruction_costs : Prop :=
  forall cr cx fuel s s', 0 <= runlimit s ->
    step cr cx (child_fn cr cx fuel) s = ROk tt s' -> pot s' + 1 <= pot s.

(* OPEN FINDING: <32-byte msg> 0 0 CHECKMULTISIG executes for free (cost 1024 * 0) *)
Theorem c07_refuted_multisig0 : ~ c07_every_instruction_costs.
Proof. exact multisig0_refutes. Qed.
Print Assumptions c07_refuted_multisig0.

(* ... and it holds outside exactly that instruction shape (decidable guard multisig0) *)
Theorem c07_holds_outside : forall cr cx fuel s s',
  0 <= runlimit s -> multisig0 s = false ->
  step cr cx (child_fn cr cx fuel) s = ROk tt s' -> pot s' + 1 <= pot s.
Proof. exact costs_outside. Qed.
Print Assumptions c07_holds_outside.

(* Verify returns 0 <= gasLeft <= limit: successful and failing runs, the recovered-panic
   case, an unsupported VM version, and any amount of fuel *)
Theorem c07_gas_range : forall cr cx fuel statedata args limit,
  0 <= limit -> 0 <= fst (verify cr cx fuel statedata args limit) <= limit.
Proof. exact gas_range. Qed.
Print Assumptions c07_gas_range.

(* Termination: from every state with a non-negative run limit, fuel_bound s steps of fuel
   suffice (explicit bound: Phi*(len+1) + (len-pc) + (Phi+1)^3 + 1, nested children
   included); the result is not the model's EOutOfFuel and is the same for any larger
   fuel, so fuel is a proof device and not a bound on the claim. *)
Theorem c07_terminates : forall cr cx, co_sane cx -> forall fuel s,
  0 <= runlimit s -> fuel_bound s <= Z.of_nat fuel ->
  is_oof (run cr cx fuel s) = false /\
  forall fuel', (fuel <= fuel')%nat -> run cr cx fuel' s = run cr cx fuel s.
Proof. exact fuel_enough. Qed.
Print Assumptions c07_terminates.

Theorem c07_verify_terminates : forall cr cx, co_sane cx -> forall statedata args limit fuel,
  0 <= limit -> (verify_fuel cx limit <= fuel)%nat ->
  snd (verify cr cx fuel statedata args limit) <> Some EOutOfFuel /\
  verify cr cx fuel statedata args limit = verify cr cx (verify_fuel cx limit) statedata args limit.
Proof. exact verify_terminates. Qed.
Print Assumptions c07_verify_terminates.

(* A program that needs more gas than provided fails rather than running on. For programs
   that cannot execute CHECKPREDICATE (no byte 0xc0): running with a smaller limit L' <= L
   either reproduces the run with L exactly (same outcome, same gas consumption) or fails
   with gasLeft 0 -- with ERunLimitExceeded, or with the recovered-panic class when the run
   with L ended that way too. *)
Theorem c07_insufficient_dichotomy : forall cr cx fuel statedata args L L',
  no_checkpredicate (cx_code cx) -> 0 <= L' <= L ->
  let r := verify cr cx fuel statedata args L in
  let r' := verify cr cx fuel statedata args L' in
  r' = (0, Some ERunLimitExceeded) \/
  (snd r' = Some EUnexpected /\ snd r = Some EUnexpected /\ fst r' = 0) \/
  (snd r' = snd r /\ fst r = fst r' + (L - L')).
Proof. exact insufficient_dichotomy. Qed.
Print Assumptions c07_insufficient_dichotomy.

(* in particular: if the run with L consumed more than L', the run with L' fails with no gas left *)
Theorem c07_insufficient_fails : forall cr cx fuel statedata args L L',
  no_checkpredicate (cx_code cx) -> 0 <= L' <= L ->
  L' < L - fst (verify cr cx fuel statedata args L) ->
  exists e, verify cr cx fuel statedata args L' = (0, Some e) /\
            (e = ERunLimitExceeded \/ e = EUnexpected).
Proof. exact insufficient_fails. Qed.
Print Assumptions c07_insufficient_fails.

(* The validator's bookkeeping (GasState.updateUsage after every vm.Verify, any sequence
   of program verifications): updateUsage never receives negative gas and its checked
   subtraction never overflows -- the only gas error left is ErrOverGasCredit -- and
   GasLeft >= 0, GasUsed >= 0, GasLeft + GasUsed = the initial total are invariant. *)
Theorem c07_updateUsage : forall cr total calls, total <= 2 ^ 63 - 1 ->
  forall g, gs_inv total g -> vres_ok total (validate_calls cr calls g).
Proof. exact validate_calls_ok. Qed.
Print Assumptions c07_updateUsage.

(* ---- The bookkeeping of the model is the code's (translator tools/gofrag) ----------------------

   VerifGen.FragValidation.GasState_updateUsage is GENERATED from GasState.updateUsage
   (protocol/validation/tx.go) on every run.  C07/Tie.v: [st_of b g] = the generated record with
   BTMValue b and the three fields of the model's state; [code_view b r] = the model's result as
   the code reports it (both causes of ErrGasCalculate are one error; the state is returned on
   every path). *)
From Verif Require Import GoFrag.
From VerifGen Require Import FragValidation.
From C07 Require Import Tie.

(* TIE: the generated method is the hand-written update_usage of theorem c07_updateUsage *)
Theorem c07_tie_updateUsage : forall b g gasLeft,
  in_range I64 (g_left g) = true -> in_range I64 gasLeft = true ->
  GasState_updateUsage (st_of b g) gasLeft = code_view b (update_usage g gasLeft).
Proof. exact tie_update_usage. Qed.
Print Assumptions c07_tie_updateUsage.

(* SPEC of the generated method, all int64 inputs *)
Theorem c07_code_updateUsage : forall g gasLeft,
  in_range I64 (GasState_GasLeft g) = true -> in_range I64 gasLeft = true ->
  GasState_updateUsage g gasLeft =
  if (gasLeft <? 0) || negb (in_range I64 (GasState_GasLeft g - gasLeft)) then Some (Some ErrGasCalculate, g)
  else
    let g' := mkGasState (GasState_BTMValue g) gasLeft
                (wrap I64 (GasState_GasUsed g + (GasState_GasLeft g - gasLeft))) (GasState_StorageGas g) in
    if GasState_StorageGas g >? gasLeft then Some (Some ErrOverGasCredit, g') else Some (None, g').
Proof. exact updateUsage_spec. Qed.
Print Assumptions c07_code_updateUsage.
