(* C07 — running the model on harness cases: the VM case (lib/VMRun.vm_case) followed by
   the validator's updateUsage on the gas the VM returned. *)
From Coq Require Import List ZArith NArith Bool.
From Verif Require Import Cmp VM VMRun.
From C07 Require Import Model.
Import ListNotations.
Open Scope Z_scope.

(* (class, GasLeft, GasUsed): class 0 = nil, 1 = negative-gas error, 2 = subtraction overflow, 3 = ErrOverGasCredit *)
Definition uu_obs := (N * Z * Z)%type.

Definition uu_case (left used storage gl : Z) : uu_obs :=
  match update_usage {| g_left := left; g_used := used; g_storage := storage |} gl with
  | UOk g => (0%N, g_left g, g_used g)
  | UErrNegative g => (1%N, g_left g, g_used g)
  | UErrCalc g => (2%N, g_left g, g_used g)
  | UErrOverCredit g => (3%N, g_left g, g_used g)
  end.

Definition uu_obs_eqb (a b : uu_obs) : bool :=
  N.eqb (fst (fst a)) (fst (fst b)) && Z.eqb (snd (fst a)) (snd (fst b)) && Z.eqb (snd a) (snd b).

Definition c07obs := (vmobs * uu_obs)%type.

(* VMRun.vm_case with more fuel: vm_case gives the run "potential + 2" steps, which is not
   enough when CHECKMULTISIG with zero keys (cost 0, finding multisig-zero-keys) sits in a
   loop: then there can be more steps than units of potential.  Zero-cost steps advance pc, so
   between two paying steps there are fewer than len of them; 2*potential + len + 16 covers
   every generated case (a shortfall would show up as EOutOfFuel = mismatch). *)
Definition vm_case_fuel (cr : crypto) (cx : context) (vmversion : N) (statedata args : list item) (gas : Z) : vmobs :=
  let cx := {| cx_vmversion := vmversion; cx_code := cx_code cx; cx_entryid := cx_entryid cx;
               cx_txversion := cx_txversion cx; cx_blockheight := cx_blockheight cx;
               cx_assetid := cx_assetid cx; cx_amount := cx_amount cx; cx_destpos := cx_destpos cx;
               cx_spentoutputid := cx_spentoutputid cx; cx_txsighash := cx_txsighash cx;
               cx_checkoutput := cx_checkoutput cx |} in
  if negb (vmversion =? 1)%N then {| o_gas := gas; o_err := Some EUnsupportedVM; o_stack := None; o_trace := []; o_steps := 0%N |}
  else
    let s0 := init_state cx gas in
    match (push_all push_alt statedata ;;; push_all push args) s0 with
    | RErr e s => {| o_gas := runlimit s; o_err := Some e; o_stack := None; o_trace := []; o_steps := 0%N |}
    | ROk _ s1 =>
        let fuel := Z.to_nat (2 * pot s1 + Z.of_nat (length (prog s1)) + 16) in
        match run_tr cr cx fuel s1 [] with
        | (RErr e s, tr) =>
            {| o_gas := match e with EUnexpected => 0 | _ => runlimit s end;
               o_err := Some e; o_stack := None; o_trace := firstn 64 tr; o_steps := N.of_nat (length tr) |}
        | (ROk _ s, tr) =>
            {| o_gas := runlimit s; o_err := if false_result s then Some EFalseVMResult else None;
               o_stack := Some (rev (dstack s)); o_trace := firstn 64 tr; o_steps := N.of_nat (length tr) |}
        end
    end.

Definition c07_case (cr : crypto) (cx : context) (vmversion : N) (statedata args : list item)
  (gas used storage : Z) : c07obs :=
  let o := vm_case_fuel cr cx vmversion statedata args gas in
  (o, uu_case gas used storage (o_gas o)).

Definition c07obs_eqb (a b : c07obs) : bool :=
  vmobs_eqb (fst a) (fst b) && uu_obs_eqb (snd a) (snd b).
