(* C07 — running the model on harness cases: the VM case (lib/VMRun.vm_case) followed by
   the validator's updateUsage on the gas the VM returned. *)
From Coq Require Import List ZArith NArith Bool.
From Verif Require Import Cmp VM VMRun.
From C07 Require Import Model.
Import ListNotations.
Open Scope Z_scope.

(* (class, GasLeft, GasUsed): class 0 = nil, 1 = negative-gas error, 2 = subtraction overflow, 3 = ErrOverGasCredit *)
Definition uu_obs := (N * Z * Z)%type.

Definition uu_case (left used storage gl : Z) : uu_obs :=
  match update_usage {| g_left := left; g_used := used; g_storage := storage |} gl with
  | UOk g => (0%N, g_left g, g_used g)
  | UErrNegative g => (1%N, g_left g, g_used g)
  | UErrCalc g => (2%N, g_left g, g_used g)
  | UErrOverCredit g => (3%N, g_left g, g_used g)
  end.

Definition uu_obs_eqb (a b : uu_obs) : bool :=
  N.eqb (fst (fst a)) (fst (fst b)) && Z.eqb (snd (fst a)) (snd (fst b)) && Z.eqb (snd a) (snd b).

Definition c07obs := (vmobs * uu_obs)%type.

Definition c07_case (cr : crypto) (cx : context) (vmversion : N) (statedata args : list item)
  (gas used storage : Z) : c07obs :=
  let o := vm_case cr cx vmversion statedata args gas in
  (o, uu_case gas used storage (o_gas o)).

Definition c07obs_eqb (a b : c07obs) : bool :=
  vmobs_eqb (fst a) (fst b) && uu_obs_eqb (snd a) (snd b).
