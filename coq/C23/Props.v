(* C23 — Confirmed transactions leave the mempool.  PROPERTY THEOREMS ONLY.

   Model (C23/Model.v): a node = main chain (tip first), the chain's set of
   spendable outputs, the four maps of protocol.TxPool (C22/Model.v, repaired
   tree), the error cache, and the TxMsgEvent stream.  A history is any list of
     NSubmit t       Chain.ValidateTx (HaveTransaction guard incl. the error cache,
                     dust filter / validation as an arbitrary function
                     [valid id best-height], processTransaction with orphan handling
                     and promotion; addTransaction posts New)
     NTip h hint     tryReorganize(h) for ANY stored block h (the fork choice is not
                     constrained): calcReorganizeChain, the txsToRestore /
                     txsToRemove bookkeeping exactly as written, refusal if the new
                     chain does not apply, RemoveTransaction for every key of
                     txsToRemove (posts Remove when the transaction was pooled),
                     ValidateTx for every value of txsToRestore
     NExpire hs      ExpireOrphan removing the orphans hs
   from [init_node g c0] (main chain = [g], c0 = the outputs spendable there,
   empty pool), over ANY block store Sto (any tree, any transactions in the
   blocks).  Go's map iteration orders (orphansByPrev's inner maps, txsToRemove,
   txsToRestore) are arbitrary permutations.  [nrun] executes a history;
   c23_run_total: it never gets stuck.

   c23_disjoint        pool ∩ txs(main chain) = ∅ after every history, i.e. after
                       every block connection or reorganisation and every
                       submission in between — for all block trees and submission
                       orders, under the decidable guard [univ_ok_b c0 U] on the
                       transactions U of the stored blocks and the submissions:
                       an id names one transaction, AN OUTPUT ID BELONGS TO ONE
                       TRANSACTION, unspendable outputs are not spent, every
                       transaction has an input, none re-creates an output of c0.
   c23_events_paired   in every chronological prefix of the event stream each id
                       has at most as many Remove as New: every Remove t is
                       preceded by a New t that no earlier Remove t has used, and
                       each New t is used by at most one Remove t.  No guard.
   C23_refuted_twin    without "an output id belongs to one transaction" the first
                       statement is false (twin transactions; finding, replayed on
                       the implementation by the harness corpus). *)
From Coq Require Import List NArith Bool Permutation.
From C22 Require Import Model Prims.
From C23 Require Import Model Chain Proofs Guard History.
Import ListNotations.

Theorem c23_disjoint :
  forall Sto c0 valid ordP ordRm ordRs,
    (forall o l, Permutation (ordP o l) l) ->
    (forall hint l, Permutation (ordRm hint l) l) ->
    (forall hint l, Permutation (ordRs hint l) l) ->
    forall g ops n,
      univ_ok_b c0 (universe Sto ops) = true ->
      nrun Sto c0 valid ordP ordRm ordRs (init_node g c0) ops = Some n ->
      forall h, has (pool (npool n)) h = true -> ~ In h (map tid (main_txs (nmain n))).
Proof. exact disjoint_all_histories. Qed.
Print Assumptions c23_disjoint.

Theorem c23_events_paired :
  forall Sto c0 valid ordP ordRm ordRs g ops n,
    nrun Sto c0 valid ordP ordRm ordRs (init_node g c0) ops = Some n ->
    forall pre suf, rev (nev n) = pre ++ suf ->
    forall h, (n_rm h pre <= n_new h pre)%nat.
Proof. exact events_all_histories. Qed.
Print Assumptions c23_events_paired.

(* the same as the greedy matching the harness's oracle runs on the implementation's stream *)
Theorem c23_events_matching :
  forall Sto c0 valid ordP ordRm ordRs g ops n,
    nrun Sto c0 valid ordP ordRm ordRs (init_node g c0) ops = Some n ->
    paired (rev (nev n)) = true.
Proof. exact events_greedy_all_histories. Qed.
Print Assumptions c23_events_matching.

(* a pooled transaction always has an addition not yet used by a removal *)
Theorem c23_pooled_has_open_addition :
  forall Sto c0 valid ordP ordRm ordRs g ops n,
    nrun Sto c0 valid ordP ordRm ordRs (init_node g c0) ops = Some n ->
    forall h, has (pool (npool n)) h = true -> (n_rm h (nev n) < n_new h (nev n))%nat.
Proof. exact pooled_has_open_addition. Qed.
Print Assumptions c23_pooled_has_open_addition.

(* histories never get stuck: the premise [nrun ... = Some n] is always met *)
Theorem c23_run_total :
  forall Sto c0 valid ordP ordRm ordRs,
    (forall o l, Permutation (ordP o l) l) ->
    forall ops n, exists n', nrun Sto c0 valid ordP ordRm ordRs n ops = Some n'.
Proof. exact run_total. Qed.
Print Assumptions c23_run_total.

(* The inductive invariant behind c23_disjoint (pool bookkeeping of C22, the
   chain's spendable set is the one of the main chain, main-chain transactions
   belong to the universe, pool and main chain disjoint): it holds initially ... *)
Theorem c23_inv_init : forall c0 U g, ninv c0 U (init_node g c0).
Proof. exact init_ninv. Qed.
Print Assumptions c23_inv_init.

(* ... every single operation preserves it ... *)
Theorem c23_inv_step :
  forall Sto c0 valid ordP ordRm ordRs,
    (forall o l, Permutation (ordP o l) l) ->
    (forall hint l, Permutation (ordRm hint l) l) ->
    (forall hint l, Permutation (ordRs hint l) l) ->
    forall U n o n',
      wf_univ U -> (forall t, In t U -> ins t <> []) ->
      (forall t o, In t U -> In o (map fst (outs t)) -> ~ In o c0) ->
      (forall b t, In b Sto -> In t (btxs b) -> In t U) ->
      (forall t, In t (nop_txs o) -> In t U) ->
      ninv c0 U n -> nstep Sto c0 valid ordP ordRm ordRs n o = Some n' -> ninv c0 U n'.
Proof. exact step_keeps_inv. Qed.
Print Assumptions c23_inv_step.

(* ... and it contains the statement *)
Theorem c23_inv_implies_disjoint :
  forall c0 U n, ninv c0 U n ->
    forall h, has (pool (npool n)) h = true -> ~ In h (map tid (main_txs (nmain n))).
Proof. exact inv_implies_disjoint. Qed.
Print Assumptions c23_inv_implies_disjoint.

(* the two facts about the chain the argument rests on: on a main chain that
   applies, an input of a confirmed transaction is not spendable, and it was
   spendable at the start or is created by a confirmed transaction *)
Theorem c23_confirmed_inputs_not_spendable :
  forall U c0, wf_univ U -> (forall t, In t U -> ins t <> []) ->
    (forall t o, In t U -> In o (map fst (outs t)) -> ~ In o c0) ->
    forall main c t o,
      (forall t, In t (main_txs main) -> In t U) ->
      chain_utxo c0 main = Some c -> In t (main_txs main) -> In o (ins t) -> ~ In o c.
Proof. exact confirmed_inputs_not_spendable. Qed.
Print Assumptions c23_confirmed_inputs_not_spendable.

(* without "an output id belongs to one transaction" the statement is false (finding) *)
Theorem C23_refuted_twin : ~ C23_full.
Proof. exact refuted_twin. Qed.
Print Assumptions C23_refuted_twin.

(* ... and with it, it holds: the guard excludes exactly that class *)
Theorem C23_holds_outside :
  forall Sto c0 valid ordP ordRm ordRs,
    (forall o l, Permutation (ordP o l) l) ->
    (forall hint l, Permutation (ordRm hint l) l) ->
    (forall hint l, Permutation (ordRs hint l) l) ->
    forall g ops n,
      univ_ok_b c0 (universe Sto ops) = true ->
      nrun Sto c0 valid ordP ordRm ordRs (init_node g c0) ops = Some n ->
      disjoint_pool_main n.
Proof. exact disjoint_all_histories. Qed.
Print Assumptions C23_holds_outside.
