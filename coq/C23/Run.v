(* C23 — helpers used by the generated case files.

   A case: the outputs spendable at the start (labels), the start block
   (label, height; it is part of the store), the universe of transactions (labels for ids and output
   ids; with each its TimeRange, 0 = none, and "dust" flag), the stored blocks
   (label, parent label, height, positions of their transactions in the
   universe) and the operation list.  Result, per operation:
     label of the best block; sorted pooled ids; sorted orphan ids;
     the events posted during the operation as (kind, id), kind 0 = New,
     1 = Remove, stably sorted by id (the per-id order is what the property
     is about; the order between different ids follows Go's map iteration),
     adjacent repetitions of a New collapsed.
   Orders: processOrphans' inner maps in list order, txsToRemove in list
   order, txsToRestore: values whose id is not in the hint first (they posted
   nothing), then the hinted ids in hint order (the order in which the
   implementation posted their additions). *)
From Coq Require Import List NArith Bool.
From Verif Require Import Cmp.
From C22 Require Import Model Run.
From C23 Require Import Model.
Import ListNotations.

Inductive iop :=
| ISubmit (i : N)
| ITip (h : N) (hint : list N)
| IExpire (hs : list N).

Definition utx := (tx * (N * bool))%type.     (* transaction, TimeRange, dust *)

Definition nth_tx (univ : list utx) (i : N) : option tx :=
  option_map fst (nth_error univ (N.to_nat i)).

Fixpoint pick_txs (univ : list utx) (is : list N) : list tx :=
  match is with
  | [] => []
  | i :: is' => match nth_tx univ i with Some t => t :: pick_txs univ is' | None => pick_txs univ is' end
  end.

Definition mk_store (univ : list utx) (bs : list (N * N * N * list N)) : list block :=
  map (fun b => match b with (id, prev, h, is) => mkBlock id prev h (pick_txs univ is) end) bs.

Fixpoint range_of (univ : list utx) (h : N) : option (N * bool) :=
  match univ with
  | [] => None
  | (t, r) :: u' => if N.eqb (tid t) h then Some r else range_of u' h
  end.

(* the dust filter, then checkTimeRange: TimeRange = 0 or TimeRange >= height of the best block *)
Definition valid_of (univ : list utx) (h height : N) : bool :=
  match range_of univ h with
  | Some (r, dust) => negb dust && (N.eqb r 0%N || N.leb height r)
  | None => true
  end.

Definition ordRm_id (hint l : list N) : list N := l.
Definition ordRs_hint (hint : list N) (l : list tx) : list tx :=
  filter (fun t => negb (memN (tid t) hint)) l ++
  flat_map (fun h => filter (fun t => N.eqb (tid t) h) l) hint.

Definition resolve (univ : list utx) (o : iop) : option nop :=
  match o with
  | ISubmit i => option_map NSubmit (nth_tx univ i)
  | ITip h hint => Some (NTip h hint)
  | IExpire hs => Some (NExpire hs)
  end.

Definition ev_code (e : event) : N * N :=
  match e with ENew h => (0%N, h) | ERemove h => (1%N, h) end.

Definition obs := (N * list N * list N * list (N * N))%type.

Definition best_id (n : node) : N := match nmain n with b :: _ => bid b | [] => 0%N end.

(* addTransaction may run twice in a row for one orphan (it sits in the work list of
   processOrphans once per output of the new transaction it spends, and how often
   depends on Go's map order): adjacent repetitions of one New are collapsed *)
Fixpoint collapse (l : list (N * N)) : list (N * N) :=
  match l with
  | [] => []
  | x :: l' =>
    match l' with
    | y :: _ => if N.eqb (fst x) 0 && N.eqb (fst y) 0 && N.eqb (snd x) (snd y) then collapse l' else x :: collapse l'
    | [] => [x]
    end
  end.

(* the events posted by the step, oldest first, then stably sorted by id *)
Definition step_events (before after : list event) : list (N * N) :=
  collapse (sort_by snd (map ev_code (rev (firstn (length after - length before) after)))).

Definition observe (n0 n1 : node) : obs :=
  (best_id n1,
   sort_by (fun x => x) (map fst (pool (npool n1))),
   sort_by (fun x => x) (map fst (orphans (npool n1))),
   step_events (nev n0) (nev n1)).

Definition cres := option (list obs).

Section Case.
  Variable Sto : list block.
  Variable c0 : list N.
  Variable univ : list utx.

  Fixpoint run_ops (n : node) (ops : list iop) : cres :=
    match ops with
    | [] => Some []
    | o :: ops' =>
      match resolve univ o with
      | None => None
      | Some no =>
        match nstep Sto c0 (valid_of univ) idP ordRm_id ordRs_hint n no with
        | None => None
        | Some n1 =>
          match run_ops n1 ops' with
          | None => None
          | Some rs => Some (observe n n1 :: rs)
          end
        end
      end
    end.
End Case.

Definition run_case (c0 : list N) (g : N * N) (univ : list utx)
           (bs : list (N * N * N * list N)) (ops : list iop) : cres :=
  let gb := mkBlock (fst g) 0 (snd g) [] in
  run_ops (gb :: mk_store univ bs) c0 univ (init_node gb c0) ops.

Definition obs_eqb : obs -> obs -> bool :=
  pair_eqb (pair_eqb (pair_eqb N.eqb (list_eqb N.eqb)) (list_eqb N.eqb))
           (list_eqb (pair_eqb N.eqb N.eqb)).

Definition cres_eqb : cres -> cres -> bool := option_eqb (list_eqb obs_eqb).
