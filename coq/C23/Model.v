(* C23 — confirmed transactions leave the mempool
   (protocol/block.go: tryReorganize / reorganizeChain with its txsToRestore /
   txsToRemove bookkeeping; protocol/tx.go: Chain.ValidateTx; protocol/txpool.go:
   the event posting of addTransaction / RemoveTransaction).
   EXECUTABLE MODEL ONLY (no proofs).

   The pool (tp.pool, tp.utxo, tp.orphans, tp.orphansByPrev) and its primitive
   operations are the ones of C22/Model.v (removeOrphan, addOrphan,
   addTransaction, addRely, RemoveTransaction, checkOrphanUtxos), on the tree
   with the C22 repairs, which is the tree the check runs against.  This file
   adds what C23 is about:

   * the event stream: addTransaction posts  New t, RemoveTransaction posts
     Remove t when (and only when) t was pooled.  [nev] is the stream, NEWEST
     FIRST.  processTransaction / processOrphans are re-stated here with the
     posting in place ([po_loop_ev]); their pool component is C22's po_loop
     (C23/Proofs.v: po_loop_ev_fst).
   * Chain.ValidateTx with its HaveTransaction guard (pooled OR in the error
     cache), the dust filter / validation.ValidateTx as a function
     [valid tid height] (any function: time-range expiry depends on the height
     of the best block), failures recorded in the error cache [nerr].
   * the block store [Sto] (blocks by hash label), the main chain [nmain] (tip
     first), the chain's set of spendable outputs [nutxo].
   * tryReorganize / reorganizeChain, exactly as written:
       calcReorganizeChain   walks down from the new tip (through the store)
                             and from the best block (along the main chain)
                             comparing heights, until both meet;
       detach loop           every non-coinbase transaction of a detached block
                             goes to txsToRestore;
       attach loop           a transaction of an attached block that is in
                             txsToRestore is deleted from it, any other goes
                             to txsToRemove;
       (an error anywhere before setState leaves chain and pool untouched)
       setState; RemoveTransaction for every key of txsToRemove (map order);
       ValidateTx for every value of txsToRestore (map order), errors ignored.
     A block lists its non-coinbase transactions ([btxs] = b.Transactions[1:]).

   The chain's utxo view.  The code computes the view of the new main chain
   incrementally (DetachBlock / ApplyBlock on a view loaded from the store);
   property C10 is that this equals the view of the main chain computed from
   its beginning.  The model uses the latter form: [chain_utxo c0 main] applies
   the blocks of [main] in order to the set [c0] of outputs spendable before the
   first of them (ApplyTransaction: every input must be present and unspent and
   is consumed, then the spendable outputs are added).  A reorganisation whose
   new chain does not apply is refused, as in the code.  Coinbase outputs of the
   blocks of a history are not modelled (they mature after 10 blocks); coinbase
   maturity and the vote lock are not checked (the model accepts more chains
   than the node does).

   Map iteration orders are explicit: [ordP] (inner maps of orphansByPrev, as in
   C22), [ordRm] (txsToRemove), [ordRs] (txsToRestore); the last two get the
   operation's [hint] so that a case can fix them per reorganisation.  The
   theorems hold for all permutations.

   Identifiers (block hashes, transaction ids, output ids) are labels in N.
   Not modelled: capacity limits (ErrPoolIsFull, the LRU bound of the error
   cache), fork choice (the new tip of a reorganisation is an input: any stored
   block), block validation other than the spend rules above. *)
From Coq Require Import List NArith Bool PeanoNat.
From C22 Require Import Model.
Import ListNotations.

Record block := mkBlock { bid : N; bprev : N; bheight : N; btxs : list tx }.

Inductive event := ENew (h : N) | ERemove (h : N).

(* ---- the chain's set of spendable outputs -------------------------------- *)
Definition removeN (o : N) (c : list N) : list N := filter (fun x => negb (N.eqb x o)) c.

(* the inputs of a transaction, one after the other: present, then consumed *)
Fixpoint spend_all (c : list N) (os : list N) : option (list N) :=
  match os with
  | [] => Some c
  | o :: os' => if memN o c then spend_all (removeN o c) os' else None
  end.

Definition spendable_outs (t : tx) : list N := map fst (filter snd (outs t)).

Definition apply_tx (c : list N) (t : tx) : option (list N) :=
  match spend_all c (ins t) with
  | Some c1 => Some (spendable_outs t ++ c1)
  | None => None
  end.

Fixpoint apply_txs (c : list N) (ts : list tx) : option (list N) :=
  match ts with
  | [] => Some c
  | t :: ts' =>
    match apply_tx c t with
    | Some c1 => apply_txs c1 ts'
    | None => None
    end
  end.

(* main chain, tip first *)
Fixpoint chain_utxo (c0 : list N) (main : list block) : option (list N) :=
  match main with
  | [] => Some c0
  | b :: below =>
    match chain_utxo c0 below with
    | Some c => apply_txs c (btxs b)
    | None => None
    end
  end.

Definition main_txs (main : list block) : list tx := flat_map btxs main.

Fixpoint find_block (l : list block) (k : N) : option block :=
  match l with
  | [] => None
  | b :: l' => if N.eqb (bid b) k then Some b else find_block l' k
  end.

(* ---- the node -------------------------------------------------------------- *)
Record node := mkNode {
  nmain : list block;     (* main chain, tip first *)
  nutxo : list N;         (* spendable outputs of the main chain *)
  npool : state;          (* the four maps of TxPool *)
  nerr : list N;          (* ids in the error cache *)
  nev : list event        (* TxMsgEvent stream, newest first *)
}.

Definition best_height (main : list block) : N :=
  match main with b :: _ => bheight b | [] => 0 end.

Inductive nop :=
| NSubmit (t : tx)                   (* Chain.ValidateTx *)
| NTip (h : N) (hint : list N)       (* tryReorganize(h): the fork choice selected block h *)
| NExpire (hs : list N).             (* ExpireOrphan: the orphans hs have expired *)

Section Model.
  Variable Sto : list block.                          (* the block store *)
  Variable c0 : list N.                             (* spendable before the first modelled block *)
  Variable valid : N -> N -> bool.                  (* tx id -> best height -> dust filter and validation pass *)
  Variable ordP : N -> amap tx -> amap tx.          (* range over orphansByPrev[o] *)
  Variable ordRm : list N -> list N -> list N.      (* hint -> keys of txsToRemove -> iteration order *)
  Variable ordRs : list N -> list tx -> list tx.    (* hint -> values of txsToRestore -> iteration order *)

  (* processOrphans' loop with the posting of addTransaction *)
  Fixpoint po_loop_ev (c : list N) (fuel : nat) (st : state) (ev : list event) (wl : list tx) {struct fuel}
    : option (state * list event) :=
    match wl with
    | [] => Some (st, ev)
    | x :: wl' =>
      match fuel with
      | O => None
      | S f =>
        if is_nil (check_orphan_utxos c st x) then
          let mw := add_rely ordP (obp st) wl' x in
          let st1 := with_obp st (fst mw) in
          let st2 := remove_orphan st1 (tid x) in
          let st3 := add_transaction st2 x in
          po_loop_ev c f st3 (ENew (tid x) :: ev) (snd mw)
        else po_loop_ev c f st ev wl'
      end
    end.

  (* TxPool.processTransaction *)
  Definition process_tx (n : node) (t : tx) : option node :=
    let st := npool n in
    match check_orphan_utxos (nutxo n) st t with
    | [] =>
      let st1 := add_transaction st t in
      let mw := add_rely ordP (obp st1) [] t in
      match po_loop_ev (nutxo n) (S (obp_size (obp st1))) (with_obp st1 (fst mw))
                       (ENew (tid t) :: nev n) (snd mw) with
      | Some (st', ev') => Some (mkNode (nmain n) (nutxo n) st' (nerr n) ev')
      | None => None
      end
    | req => Some (mkNode (nmain n) (nutxo n) (add_orphan st 0 t req) (nerr n) (nev n))
    end.

  (* Chain.ValidateTx *)
  Definition validate (n : node) (t : tx) : option node :=
    if has (pool (npool n)) (tid t) || memN (tid t) (nerr n) then Some n
    else if valid (tid t) (best_height (nmain n)) then process_tx n t
    else Some (mkNode (nmain n) (nutxo n) (npool n) (tid t :: nerr n) (nev n)).

  (* TxPool.RemoveTransaction *)
  Definition remove_ev (n : node) (h : N) : node :=
    if has (pool (npool n)) h
    then mkNode (nmain n) (nutxo n) (remove_transaction (npool n) h) (nerr n) (ERemove h :: nev n)
    else n.

  Fixpoint validate_all (n : node) (ts : list tx) : option node :=
    match ts with
    | [] => Some n
    | t :: ts' =>
      match validate n t with
      | Some n1 => validate_all n1 ts'
      | None => None
      end
    end.

  (* calcReorganizeChain.  [a] walks down from the new tip through the store,
     the other pointer along the main chain [main] (its head is the current
     detach candidate).  Result: blocks to attach (lowest first), blocks to
     detach (highest first), and the part of the main chain that stays (its
     head is the common ancestor). *)
  Fixpoint calc_reorg (fuel : nat) (a : block) (att det main : list block) {struct fuel}
    : option (list block * list block * list block) :=
    match main with
    | [] => None
    | d :: below =>
      if N.eqb (bid a) (bid d) then Some (att, det, main)
      else
        match fuel with
        | O => None
        | S f =>
          let ar := N.leb (bheight d) (bheight a) in
          let dr := N.leb (bheight a) (bheight d) in
          match (if ar then find_block Sto (bprev a) else Some a) with
          | None => None
          | Some a' =>
            calc_reorg f a' (if ar then a :: att else att)
                       (if dr then det ++ [d] else det)
                       (if dr then below else main)
          end
        end
    end.

  (* the detach loop's  txsToRestore[tx.ID] = tx *)
  Definition detach_txs (m : amap tx) (b : block) : amap tx :=
    fold_left (fun m t => insert (tid t) t m) (btxs b) m.

  (* the attach loop's  if _, ok := txsToRestore[tx.ID]; !ok { txsToRemove[tx.ID] = tx } else { delete(txsToRestore, tx.ID) } *)
  Definition attach_step (rr : amap tx * amap tx) (t : tx) : amap tx * amap tx :=
    if has (fst rr) (tid t) then (remove (tid t) (fst rr), snd rr)
    else (fst rr, insert (tid t) t (snd rr)).

  Definition attach_txs (rr : amap tx * amap tx) (b : block) : amap tx * amap tx :=
    fold_left attach_step (btxs b) rr.

  Definition reorg_maps (att det : list block) : amap tx * amap tx :=
    fold_left attach_txs att (fold_left detach_txs det [], []).

  Definition reorg_fuel (a : block) (main : list block) : nat :=
    S (N.to_nat (bheight a) + N.to_nat (best_height main)).

  (* reorganizeChain *)
  Definition reorganize (n : node) (hint : list N) (tipb : block) : option node :=
    match calc_reorg (reorg_fuel tipb (nmain n)) tipb [] [] (nmain n) with
    | None => Some n
    | Some (att, det, rest) =>
      let main' := rev att ++ rest in
      match chain_utxo c0 main' with
      | None => Some n
      | Some c' =>
        let rr := reorg_maps att det in
        let n1 := mkNode main' c' (npool n) (nerr n) (nev n) in
        let n2 := fold_left remove_ev (ordRm hint (map fst (snd rr))) n1 in
        validate_all n2 (ordRs hint (map snd (fst rr)))
      end
    end.

  (* tryReorganize *)
  Definition try_reorganize (n : node) (h : N) (hint : list N) : option node :=
    match nmain n with
    | [] => Some n
    | best :: _ =>
      if N.eqb (bid best) h then Some n
      else match find_block Sto h with
           | None => Some n
           | Some tb => reorganize n hint tb
           end
    end.

  Definition nstep (n : node) (o : nop) : option node :=
    match o with
    | NSubmit t => validate n t
    | NTip h hint => try_reorganize n h hint
    | NExpire hs =>
      Some (mkNode (nmain n) (nutxo n) (fold_left remove_orphan hs (npool n)) (nerr n) (nev n))
    end.

  Fixpoint nrun (n : node) (ops : list nop) : option node :=
    match ops with
    | [] => Some n
    | o :: ops' =>
      match nstep n o with
      | Some n1 => nrun n1 ops'
      | None => None
      end
    end.
End Model.

(* the node at the start of a history: main chain = one block g without
   modelled transactions (everything below it is summarised by c0), empty pool.
   For a reorganisation to find the fork point, g must be in the store. *)
Definition init_node (g : block) (c0 : list N) : node :=
  mkNode [mkBlock (bid g) (bprev g) (bheight g) []] c0 empty_state [] [].

Definition nop_txs (o : nop) : list tx :=
  match o with NSubmit t => [t] | _ => [] end.

(* the transactions a history can meet: those of stored blocks and the submitted ones *)
Definition universe (Sto : list block) (ops : list nop) : list tx :=
  main_txs Sto ++ flat_map nop_txs ops.

(* ---- the event property, as counts ---------------------------------------- *)
Definition n_new (h : N) (ev : list event) : nat :=
  length (filter (fun e => match e with ENew h' => N.eqb h' h | _ => false end) ev).
Definition n_rm (h : N) (ev : list event) : nat :=
  length (filter (fun e => match e with ERemove h' => N.eqb h' h | _ => false end) ev).

(* ... and as the greedy matching the harness's oracle runs (chronological
   stream; [open] = ids of additions not yet matched by a removal) *)
Fixpoint remove_one (h : N) (l : list N) : list N :=
  match l with
  | [] => []
  | x :: l' => if N.eqb x h then l' else x :: remove_one h l'
  end.

Fixpoint paired_from (open : list N) (evs : list event) : bool :=
  match evs with
  | [] => true
  | ENew h :: r => paired_from (h :: open) r
  | ERemove h :: r => if memN h open then paired_from (remove_one h open) r else false
  end.

Definition paired (chron : list event) : bool := paired_from [] chron.
