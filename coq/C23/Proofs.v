(* C23 — proofs: the event invariant (unconditional), the pool/main-chain
   disjointness invariant (in a universe without shared output ids), totality. *)
From Coq Require Import List NArith Bool PeanoNat Lia Permutation.
From C22 Require Import Model Maps Prims Proofs.
From C23 Require Import Model Chain.
Import ListNotations.

(* ------------------------------------------------------------------------- *)
(* small facts about the pool component of C22's primitives                   *)
Lemma add_transaction_pool st t : pool (add_transaction st t) = insert (tid t) t (pool st).
Proof. rewrite add_transaction_eq. unfold plain_add; cbn [pool]. rewrite remove_orphan_pool. reflexivity. Qed.

Lemma promote_pool st m x :
  pool (add_transaction (remove_orphan (with_obp st m) (tid x)) x) = insert (tid x) x (pool st).
Proof. rewrite add_transaction_pool, remove_orphan_pool. reflexivity. Qed.

Lemma remove_transaction_pool st h :
  has (pool st) h = true -> pool (remove_transaction st h) = remove h (pool st).
Proof.
  unfold remove_transaction, has. destruct (lookup (pool st) h); [reflexivity|discriminate].
Qed.

Lemma fold_remove_orphan_pool hs : forall st, pool (fold_left remove_orphan hs st) = pool st.
Proof.
  induction hs as [|h hs IH]; cbn; intros st; [reflexivity|]. rewrite IH. apply remove_orphan_pool.
Qed.

Lemma has_keys {V} (m : list (N * V)) k : has m k = true <-> In k (map fst m).
Proof.
  rewrite has_true. split.
  - intros [v H]. apply lookup_In in H. apply in_map_iff. exists (k, v). auto.
  - induction m as [|[k' v'] m IH]; cbn; [tauto|]. intros [E|Hin].
    + subst. rewrite N.eqb_refl. eauto.
    + destruct (N.eqb k' k); [eauto|auto].
Qed.

Lemma find_block_In l k b : find_block l k = Some b -> In b l.
Proof.
  induction l as [|x l IH]; cbn; [discriminate|]. destruct (N.eqb (bid x) k).
  - intros H; inversion H; subst. auto.
  - auto.
Qed.

(* ------------------------------------------------------------------------- *)
(* events: counts                                                              *)
Lemma n_new_new h x ev : n_new h (ENew x :: ev) = (if N.eqb x h then 1 else 0) + n_new h ev.
Proof. unfold n_new; cbn. destruct (N.eqb x h); reflexivity. Qed.
Lemma n_new_rm h x ev : n_new h (ERemove x :: ev) = n_new h ev.
Proof. reflexivity. Qed.
Lemma n_rm_new h x ev : n_rm h (ENew x :: ev) = n_rm h ev.
Proof. reflexivity. Qed.
Lemma n_rm_rm h x ev : n_rm h (ERemove x :: ev) = (if N.eqb x h then 1 else 0) + n_rm h ev.
Proof. unfold n_rm; cbn. destruct (N.eqb x h); reflexivity. Qed.

(* every chronological prefix (= suffix of the newest-first stream) has, per id,
   no more removals than additions *)
Fixpoint ev_ok (ev : list event) : Prop :=
  match ev with
  | [] => True
  | e :: r => (forall h, n_rm h (e :: r) <= n_new h (e :: r)) /\ ev_ok r
  end.

Definition ev_inv (st : state) (ev : list event) : Prop :=
  ev_ok ev /\ (forall h, n_rm h ev <= n_new h ev) /\
  (forall h, has (pool st) h = true -> n_rm h ev < n_new h ev).

Lemma ev_inv_init : ev_inv empty_state [].
Proof. split; [exact I|]. split; [intros; cbn; lia|]. cbn. discriminate. Qed.

Lemma ev_inv_same st st' ev : pool st' = pool st -> ev_inv st ev -> ev_inv st' ev.
Proof. intros E [A [B C]]. split; [exact A|]. split; [exact B|]. rewrite E. exact C. Qed.

Lemma ev_inv_add st st' x ev :
  (forall h, has (pool st') h = true -> h = x \/ has (pool st) h = true) ->
  ev_inv st ev -> ev_inv st' (ENew x :: ev).
Proof.
  intros Hp [A [B C]].
  assert (B' : forall h, n_rm h (ENew x :: ev) <= n_new h (ENew x :: ev)).
  { intros h. rewrite n_rm_new, n_new_new. specialize (B h). lia. }
  split; [split; [exact B'|exact A]|]. split; [exact B'|].
  intros h Hh. rewrite n_rm_new, n_new_new. destruct (Hp h Hh) as [E|Hin].
  - subst. rewrite N.eqb_refl. specialize (B x). lia.
  - specialize (C h Hin). lia.
Qed.

Lemma ev_inv_remove st st' x ev :
  has (pool st) x = true ->
  (forall h, has (pool st') h = true -> h <> x /\ has (pool st) h = true) ->
  ev_inv st ev -> ev_inv st' (ERemove x :: ev).
Proof.
  intros Hx Hp [A [B C]].
  assert (B' : forall h, n_rm h (ERemove x :: ev) <= n_new h (ERemove x :: ev)).
  { intros h. rewrite n_rm_rm, n_new_rm. destruct (N.eqb_spec x h).
    - subst. specialize (C h Hx). lia.
    - specialize (B h). lia. }
  split; [split; [exact B'|exact A]|]. split; [exact B'|].
  intros h Hh. rewrite n_rm_rm, n_new_rm. destruct (Hp h Hh) as [Hn Hin].
  destruct (N.eqb_spec x h); [congruence|]. specialize (C h Hin). lia.
Qed.

(* the statement in chronological form: for every split of the stream into a
   prefix and a rest, the prefix has, per id, no more removals than additions *)
Lemma n_new_app h a b : n_new h (a ++ b) = n_new h a + n_new h b.
Proof. unfold n_new. rewrite filter_app, app_length. reflexivity. Qed.
Lemma n_rm_app h a b : n_rm h (a ++ b) = n_rm h a + n_rm h b.
Proof. unfold n_rm. rewrite filter_app, app_length. reflexivity. Qed.
Lemma n_new_rev h a : n_new h (rev a) = n_new h a.
Proof.
  induction a as [|e a IH]; [reflexivity|]. cbn [rev]. rewrite n_new_app, IH.
  change (e :: a) with ([e] ++ a). rewrite n_new_app. lia.
Qed.
Lemma n_rm_rev h a : n_rm h (rev a) = n_rm h a.
Proof.
  induction a as [|e a IH]; [reflexivity|]. cbn [rev]. rewrite n_rm_app, IH.
  change (e :: a) with ([e] ++ a). rewrite n_rm_app. lia.
Qed.

Lemma ev_ok_suffix ev : ev_ok ev -> forall a b, ev = a ++ b -> forall h, n_rm h b <= n_new h b.
Proof.
  induction ev as [|e r IH]; intros Hok a b E h.
  - destruct a; destruct b; try discriminate. cbn; lia.
  - destruct Hok as [H1 H2]. destruct a as [|e' a].
    + cbn in E. subst b. apply H1.
    + inversion E; subst. eapply IH; eauto.
Qed.

Lemma ev_ok_prefixes ev :
  ev_ok ev -> forall pre suf, rev ev = pre ++ suf -> forall h, n_rm h pre <= n_new h pre.
Proof.
  intros Hok pre suf E h.
  assert (E2 : ev = rev suf ++ rev pre).
  { rewrite <- rev_app_distr, <- E, rev_involutive. reflexivity. }
  pose proof (ev_ok_suffix ev Hok _ _ E2 h) as H. rewrite n_rm_rev, n_new_rev in H. exact H.
Qed.

(* the counting form implies the greedy matching (the harness's oracle) *)
Fixpoint count_in (h : N) (l : list N) : nat :=
  match l with [] => 0 | x :: l' => (if N.eqb x h then 1 else 0) + count_in h l' end.

Lemma count_in_pos h l : 0 < count_in h l -> memN h l = true.
Proof.
  induction l as [|x l IH]; cbn; [lia|]. destruct (N.eqb x h); [reflexivity|]. cbn. exact IH.
Qed.

Lemma count_in_remove_one h x l :
  memN x l = true ->
  count_in h (remove_one x l) = count_in h l - (if N.eqb x h then 1 else 0).
Proof.
  induction l as [|y l IH]; cbn; [discriminate|]. destruct (N.eqb_spec y x).
  - subst y. intros _. destruct (N.eqb x h); cbn; lia.
  - intros Hm. cbn. rewrite (IH Hm). destruct (N.eqb_spec y h); destruct (N.eqb_spec x h); lia.
Qed.

Lemma paired_from_counts evs : forall open,
  (forall pre suf, evs = pre ++ suf -> forall h, n_rm h pre <= count_in h open + n_new h pre) ->
  paired_from open evs = true.
Proof.
  induction evs as [|e evs IH]; intros open H; [reflexivity|]. destruct e as [x|x]; cbn.
  - apply IH. intros pre suf E h. specialize (H (ENew x :: pre) suf). cbn [app] in H.
    rewrite E in H. specialize (H eq_refl h). rewrite n_rm_new, n_new_new in H. cbn. lia.
  - assert (Hm : memN x open = true).
    { apply count_in_pos. specialize (H [ERemove x] evs eq_refl x).
      rewrite n_rm_rm, N.eqb_refl in H. cbn in H. lia. }
    rewrite Hm. apply IH. intros pre suf E h. specialize (H (ERemove x :: pre) suf). cbn [app] in H.
    rewrite E in H. specialize (H eq_refl h). rewrite n_rm_rm, n_new_rm in H.
    rewrite (count_in_remove_one h x open Hm).
    destruct (N.eqb_spec x h); [|lia].
    subst x. assert (0 < count_in h open).
    { clear - Hm. induction open as [|y l IH]; cbn in *; [discriminate|].
      destruct (N.eqb y h); [lia|]. cbn. auto. }
    lia.
Qed.

Lemma ev_ok_paired ev : ev_ok ev -> paired (rev ev) = true.
Proof.
  intros Hok. apply paired_from_counts. intros pre suf E h. cbn.
  exact (ev_ok_prefixes ev Hok pre suf E h).
Qed.

(* ------------------------------------------------------------------------- *)
Section Main.
  Variable Sto : list block.
  Variable c0 : list N.
  Variable valid : N -> N -> bool.
  Variable ordP : N -> amap tx -> amap tx.
  Variable ordRm : list N -> list N -> list N.
  Variable ordRs : list N -> list tx -> list tx.

  Notation po_loop_ev := (po_loop_ev ordP).
  Notation process_tx := (process_tx ordP).
  Notation validate := (validate valid ordP).
  Notation validate_all := (validate_all valid ordP).
  Notation reorganize := (reorganize Sto c0 valid ordP ordRm ordRs).
  Notation nstep := (nstep Sto c0 valid ordP ordRm ordRs).
  Notation nrun := (nrun Sto c0 valid ordP ordRm ordRs).

  (* ---- events: every operation keeps ev_inv (no hypothesis at all) ---------- *)
  Lemma po_loop_ev_evinv c : forall fuel st ev wl st' ev',
    ev_inv st ev -> po_loop_ev c fuel st ev wl = Some (st', ev') -> ev_inv st' ev'.
  Proof.
    induction fuel as [|f IH]; intros st ev wl st' ev' I E; destruct wl as [|x wl']; cbn in E.
    - inversion E; subst; exact I.
    - discriminate.
    - inversion E; subst; exact I.
    - destruct (is_nil (missing c st x)).
      + eapply IH; [|exact E]. apply (ev_inv_add st); [|exact I].
        intros h. rewrite promote_pool, has_insert, orb_true_iff, N.eqb_eq. intros [H|H]; auto.
      + eapply IH; eauto.
  Qed.

  Lemma process_tx_evinv n t n' :
    ev_inv (npool n) (nev n) -> process_tx n t = Some n' -> ev_inv (npool n') (nev n').
  Proof.
    intros I E. unfold Model.process_tx in E.
    destruct (check_orphan_utxos (nutxo n) (npool n) t) as [|o req].
    - match type of E with context [Model.po_loop_ev ?a ?b ?c ?d ?e ?f] =>
        destruct (Model.po_loop_ev a b c d e f) as [[st' ev']|] eqn:El end; [|discriminate].
      inversion E; subst; cbn [npool nev]. eapply po_loop_ev_evinv; [|exact El].
      apply (ev_inv_add (npool n)); [|exact I].
      intros h. unfold with_obp; cbn [pool]. rewrite add_transaction_pool, has_insert, orb_true_iff, N.eqb_eq.
      intros [H|H]; auto.
    - inversion E; subst; cbn [npool nev]. eapply ev_inv_same; [|exact I]. reflexivity.
  Qed.

  Lemma validate_evinv n t n' :
    ev_inv (npool n) (nev n) -> validate n t = Some n' -> ev_inv (npool n') (nev n').
  Proof.
    intros I E. unfold Model.validate in E.
    destruct (has (pool (npool n)) (tid t) || memN (tid t) (nerr n)).
    { inversion E; subst; exact I. }
    destruct (valid (tid t) (best_height (nmain n))).
    - eapply process_tx_evinv; eauto.
    - inversion E; subst; exact I.
  Qed.

  Lemma validate_all_evinv ts : forall n n',
    ev_inv (npool n) (nev n) -> validate_all n ts = Some n' -> ev_inv (npool n') (nev n').
  Proof.
    induction ts as [|t ts IH]; cbn; intros n n' I E.
    - inversion E; subst; exact I.
    - destruct (Model.validate valid ordP n t) as [n1|] eqn:Ev; [|discriminate].
      eapply IH; [|exact E]. eapply validate_evinv; eauto.
  Qed.

  Lemma remove_ev_evinv n h : ev_inv (npool n) (nev n) -> ev_inv (npool (remove_ev n h)) (nev (remove_ev n h)).
  Proof.
    intros I. unfold remove_ev. destruct (has (pool (npool n)) h) eqn:Hh; [|exact I].
    cbn [npool nev]. apply (ev_inv_remove (npool n)); [exact Hh| |exact I].
    intros k. rewrite remove_transaction_pool by exact Hh. rewrite has_remove, andb_true_iff, negb_true_iff, N.eqb_neq.
    intros [H1 H2]. split; [congruence|exact H2].
  Qed.

  Lemma fold_remove_ev_evinv ks : forall n,
    ev_inv (npool n) (nev n) ->
    ev_inv (npool (fold_left remove_ev ks n)) (nev (fold_left remove_ev ks n)).
  Proof.
    induction ks as [|k ks IH]; cbn; intros n I; [exact I|]. apply IH. apply remove_ev_evinv; exact I.
  Qed.

  Lemma nstep_evinv n o n' :
    ev_inv (npool n) (nev n) -> nstep n o = Some n' -> ev_inv (npool n') (nev n').
  Proof.
    intros I E. destruct o as [t|h hint|hs]; cbn in E.
    - eapply validate_evinv; eauto.
    - unfold try_reorganize in E. destruct (nmain n) as [|best below] eqn:Em.
      { inversion E; subst; exact I. }
      destruct (N.eqb (bid best) h). { inversion E; subst; exact I. }
      destruct (find_block Sto h) as [tb|]; [|inversion E; subst; exact I].
      unfold Model.reorganize in E.
      destruct (calc_reorg Sto _ tb [] [] (nmain n)) as [[[att det] rest]|]; [|inversion E; subst; exact I].
      destruct (chain_utxo c0 (rev att ++ rest)) as [c'|]; [|inversion E; subst; exact I].
      eapply validate_all_evinv; [|exact E]. apply fold_remove_ev_evinv. exact I.
    - inversion E; subst; cbn [npool nev]. eapply ev_inv_same; [|exact I].
      apply fold_remove_orphan_pool.
  Qed.

  Lemma nrun_evinv ops : forall n n',
    ev_inv (npool n) (nev n) -> nrun n ops = Some n' -> ev_inv (npool n') (nev n').
  Proof.
    induction ops as [|o ops IH]; cbn; intros n n' I E.
    - inversion E; subst; exact I.
    - destruct (Model.nstep Sto c0 valid ordP ordRm ordRs n o) as [n1|] eqn:Es; [|discriminate].
      eapply IH; [|exact E]. eapply nstep_evinv; eauto.
  Qed.

  (* ---- disjointness --------------------------------------------------------- *)
  Hypothesis ordP_perm : forall o l, Permutation (ordP o l) l.
  Hypothesis ordRm_perm : forall hint l, Permutation (ordRm hint l) l.
  Hypothesis ordRs_perm : forall hint l, Permutation (ordRs hint l) l.
  Variable U : list tx.
  Hypothesis WF : wf_univ U.
  Hypothesis NE : forall t, In t U -> ins t <> [].
  Hypothesis C0 : forall t o, In t U -> In o (map fst (outs t)) -> ~ In o c0.
  Hypothesis HS : forall b t, In b Sto -> In t (btxs b) -> In t U.

  Definition disj (main : list block) (st : state) : Prop :=
    forall h, has (pool st) h = true -> ~ In h (map tid (main_txs main)).

  Record ninv (n : node) : Prop := {
    i_b : binv U (npool n);
    i_c : chain_utxo c0 (nmain n) = Some (nutxo n);
    i_m : forall t, In t (main_txs (nmain n)) -> In t U;
    i_d : disj (nmain n) (npool n)
  }.

  Section Fixed.
    Variable main : list block.
    Variable c : list N.
    Hypothesis Hc : chain_utxo c0 main = Some c.
    Hypothesis Hm : forall t, In t (main_txs main) -> In t U.

    (* a transaction all of whose inputs are available is not on the main chain *)
    Lemma complete_fresh st x :
      binv U st -> disj main st -> In x U -> missing c st x = [] ->
      ~ In (tid x) (map tid (main_txs main)).
    Proof.
      intros B D HU Hmis Hin. apply in_map_iff in Hin. destruct Hin as [t' [Et Ht']].
      destruct WF as [W1 [W2 _]].
      assert (t' = x) by (apply W1; auto). subst t'.
      pose proof (NE x HU) as Hne. destruct (ins x) as [|o os] eqn:Ei; [congruence|].
      assert (Ho : In o (ins x)) by (rewrite Ei; left; reflexivity).
      apply missing_nil in Hmis. specialize (Hmis o Ho). unfold avail in Hmis.
      apply orb_true_iff in Hmis. destruct Hmis as [Hc1|Hu].
      - apply memN_In in Hc1.
        exact (confirmed_inputs_not_spendable U c0 WF NE C0 main c x o Hm Hc Ht' Ho Hc1).
      - apply (b_utxo _ _ B) in Hu. destruct Hu as [h [P [Hl Hout]]].
        destruct (b_pool _ _ B _ _ Hl) as [HtP HUP].
        destruct (confirmed_inputs_created U c0 WF NE C0 main c x o Hm Hc Ht' Ho) as [H0|[t2 [Ht2 Ho2]]].
        + apply (C0 P o HUP); [|exact H0]. apply in_map_iff. exists (o, true). auto.
        + assert (t2 = P).
          { apply (W2 t2 P o); auto; apply in_map_iff; exists (o, true); auto. }
          subst t2. apply (D h).
          * apply has_true. eauto.
          * rewrite <- HtP. apply in_map. exact Ht2.
    Qed.

    Lemma po_loop_ev_dinv : forall fuel st ev wl st' ev',
      binv U st -> disj main st -> (forall t, In t wl -> In t U) ->
      po_loop_ev c fuel st ev wl = Some (st', ev') -> binv U st' /\ disj main st'.
    Proof.
      induction fuel as [|f IH]; intros st ev wl st' ev' B D HW E; destruct wl as [|x wl']; cbn in E.
      - inversion E; subst; auto.
      - discriminate.
      - inversion E; subst; auto.
      - change (check_orphan_utxos c st x) with (missing c st x) in E.
        destruct (is_nil (missing c st x)) eqn:En.
        + apply is_nil_true in En.
          destruct (add_rely ordP (obp st) wl' x) as [m1 wl1] eqn:Er. cbn [fst snd] in E.
          assert (HUx : In x U) by (apply HW; left; reflexivity).
          pose proof (loop_promoted ordP ordP_perm st wl' x m1 wl1 Er) as P.
          pose proof (loop_binv ordP ordP_perm U WF st wl' x m1 wl1 HUx B Er) as B'.
          eapply IH; [exact B'| | |exact E].
          * intros h. rewrite promote_pool, has_insert, orb_true_iff, N.eqb_eq. intros [H|H].
            -- subst h. exact (complete_fresh st x B D HUx En).
            -- apply D; exact H.
          * apply (promoted_univ U st wl' x _ wl1 B P). intros t Ht. apply HW. right; exact Ht.
        + eapply IH; [exact B|exact D| |exact E]. intros t Ht. apply HW. right; exact Ht.
    Qed.
  End Fixed.

  Lemma process_tx_ninv n t n' :
    ninv n -> In t U -> has (pool (npool n)) (tid t) = false ->
    process_tx n t = Some n' -> ninv n'.
  Proof.
    intros [B Hc Hm D] HU Hp E. unfold Model.process_tx in E.
    change (check_orphan_utxos (nutxo n) (npool n) t) with (missing (nutxo n) (npool n) t) in E.
    destruct (missing (nutxo n) (npool n) t) as [|o req] eqn:Em.
    - destruct (add_rely ordP (obp (add_transaction (npool n) t)) [] t) as [m1 wl1] eqn:Er.
      cbn [fst snd] in E.
      match type of E with context [Model.po_loop_ev ?a ?b ?c ?d ?e ?f] =>
        destruct (Model.po_loop_ev a b c d e f) as [[st' ev']|] eqn:El end; [|discriminate].
      inversion E; subst n'. clear E.
      pose proof (init_promoted ordP ordP_perm (npool n) t m1 wl1 Er) as P.
      pose proof (init_binv ordP ordP_perm U WF (npool n) t m1 wl1 HU B Er) as B'.
      assert (D' : disj (nmain n) (with_obp (add_transaction (npool n) t) m1)).
      { intros h. unfold with_obp; cbn [pool]. rewrite add_transaction_pool, has_insert, orb_true_iff, N.eqb_eq.
        intros [H|H].
        - subst h. exact (complete_fresh (nmain n) (nutxo n) Hc Hm (npool n) t B D HU Em).
        - apply D; exact H. }
      assert (HW : forall t', In t' wl1 -> In t' U).
      { apply (promoted_univ U (npool n) [] t _ wl1 B P). intros t' []. }
      destruct (po_loop_ev_dinv (nmain n) (nutxo n) Hc Hm _ _ _ _ _ _ B' D' HW El) as [B2 D2].
      constructor; cbn [npool nmain nutxo]; assumption.
    - inversion E; subst n'. clear E. rewrite <- Em.
      constructor; cbn [npool nmain nutxo]; try assumption.
      apply add_orphan_binv; auto. intros o' Ho'. apply missing_In in Ho'. tauto.
  Qed.

  Lemma validate_ninv n t n' : ninv n -> In t U -> validate n t = Some n' -> ninv n'.
  Proof.
    intros I HU E. unfold Model.validate in E.
    destruct (has (pool (npool n)) (tid t)) eqn:Hp; cbn [orb] in E.
    { inversion E; subst; exact I. }
    destruct (memN (tid t) (nerr n)). { inversion E; subst; exact I. }
    destruct (valid (tid t) (best_height (nmain n))).
    - eapply process_tx_ninv; eauto.
    - inversion E; subst. destruct I as [B Hc Hm D]. constructor; cbn [npool nmain nutxo]; assumption.
  Qed.

  Lemma validate_all_ninv ts : forall n n',
    ninv n -> (forall t, In t ts -> In t U) -> validate_all n ts = Some n' -> ninv n'.
  Proof.
    induction ts as [|t ts IH]; cbn; intros n n' I HU E.
    - inversion E; subst; exact I.
    - destruct (Model.validate valid ordP n t) as [n1|] eqn:Ev; [|discriminate].
      eapply IH; [|intros x Hx; apply HU; right; exact Hx|exact E].
      eapply validate_ninv; eauto.
  Qed.

  (* the RemoveTransaction loop: chain fields untouched, the pool shrinks, the keys are gone *)
  Lemma fold_remove_ev_spec ks : forall n,
    binv U (npool n) ->
    let n2 := fold_left remove_ev ks n in
    binv U (npool n2) /\ nmain n2 = nmain n /\ nutxo n2 = nutxo n /\
    (forall h, has (pool (npool n2)) h = true -> has (pool (npool n)) h = true /\ ~ In h ks).
  Proof.
    induction ks as [|k ks IH]; cbn [fold_left]; intros n B; cbv zeta.
    - split; [exact B|]. split; [reflexivity|]. split; [reflexivity|].
      intros h Hh. split; [exact Hh|intros []].
    - assert (B1 : binv U (npool (remove_ev n k))).
      { unfold remove_ev. destruct (has (pool (npool n)) k); [|exact B]. cbn [npool].
        apply remove_transaction_binv; assumption. }
      assert (P1 : forall h, has (pool (npool (remove_ev n k))) h = true ->
                             has (pool (npool n)) h = true /\ h <> k).
      { intros h. unfold remove_ev. destruct (has (pool (npool n)) k) eqn:Hk.
        - cbn [npool]. rewrite remove_transaction_pool by exact Hk.
          rewrite has_remove, andb_true_iff, negb_true_iff, N.eqb_neq. intros [H1 H2]. split; [exact H2|congruence].
        - intros H. split; [exact H|]. intros ->. congruence. }
      pose proof (IH (remove_ev n k) B1) as X. cbv zeta in X. destruct X as [B2 [E1 [E2 H2]]].
      split; [exact B2|]. split; [|split].
      + rewrite E1. unfold remove_ev. destruct (has (pool (npool n)) k); reflexivity.
      + rewrite E2. unfold remove_ev. destruct (has (pool (npool n)) k); reflexivity.
      + intros h Hh. destruct (H2 h Hh) as [H3 H4]. destruct (P1 h H3) as [H5 H6].
        split; [exact H5|]. intros [X|X]; [congruence|contradiction].
  Qed.

  (* calcReorganizeChain: the old chain is detached-part ++ rest; attached blocks are stored *)
  Lemma calc_reorg_spec : forall fuel a att det main att' det' rest,
    In a Sto -> (forall b, In b att -> In b Sto) ->
    calc_reorg Sto fuel a att det main = Some (att', det', rest) ->
    (forall b, In b att' -> In b Sto) /\ det' ++ rest = det ++ main.
  Proof.
    induction fuel as [|f IH]; intros a att det main att' det' rest Ha Hatt E;
      destruct main as [|d below]; cbn in E; try discriminate.
    - destruct (N.eqb (bid a) (bid d)); [|discriminate]. inversion E; subst. auto.
    - destruct (N.eqb (bid a) (bid d)). { inversion E; subst. auto. }
      destruct (N.leb (bheight d) (bheight a)) eqn:Ear; destruct (N.leb (bheight a) (bheight d)) eqn:Edr.
      + destruct (find_block Sto (bprev a)) as [a'|] eqn:Ef; [|discriminate].
        apply IH in E.
        * destruct E as [E1 E2]. split; [exact E1|]. rewrite E2, <- app_assoc. reflexivity.
        * eapply find_block_In; eauto.
        * intros b [X|X]; [subst; exact Ha|auto].
      + destruct (find_block Sto (bprev a)) as [a'|] eqn:Ef; [|discriminate].
        apply IH in E; auto.
        * eapply find_block_In; eauto.
        * intros b [X|X]; [subst; exact Ha|auto].
      + apply IH in E; auto.
        destruct E as [E1 E2]. split; [exact E1|]. rewrite E2, <- app_assoc. reflexivity.
      + apply IH in E; auto.
  Qed.

  (* txsToRestore / txsToRemove *)
  Lemma detach_fold_keys ts : forall (m : amap tx) k,
    has (fold_left (fun m t => insert (tid t) t m) ts m) k = true ->
    has m k = true \/ In k (map tid ts).
  Proof.
    induction ts as [|t ts IH]; cbn; intros m k H; [auto|].
    apply IH in H. destruct H as [H|H]; [|auto].
    rewrite has_insert, orb_true_iff, N.eqb_eq in H. destruct H; auto.
  Qed.

  Lemma detach_fold_vals ts : forall (m : amap tx) k v,
    In (k, v) (fold_left (fun m t => insert (tid t) t m) ts m) -> In (k, v) m \/ In v ts.
  Proof.
    induction ts as [|t ts IH]; cbn; intros m k v H; [auto|].
    apply IH in H. destruct H as [H|H]; [|auto].
    apply In_insert in H. destruct H as [[_ E]|[H _]]; [subst; auto|auto].
  Qed.

  Lemma restore0_keys det : forall (m : amap tx) k,
    has (fold_left detach_txs det m) k = true -> has m k = true \/ In k (map tid (main_txs det)).
  Proof.
    induction det as [|b det IH]; cbn; intros m k H; [auto|].
    apply IH in H. unfold main_txs; cbn. rewrite map_app, in_app_iff. destruct H as [H|H]; [|auto].
    apply detach_fold_keys in H. tauto.
  Qed.

  Lemma restore0_vals det : forall (m : amap tx) k v,
    In (k, v) (fold_left detach_txs det m) -> In (k, v) m \/ In v (main_txs det).
  Proof.
    induction det as [|b det IH]; cbn; intros m k v H; [auto|].
    apply IH in H. unfold main_txs; cbn. rewrite in_app_iff. destruct H as [H|H]; [|auto].
    apply detach_fold_vals in H. tauto.
  Qed.

  Lemma attach_fold_spec ts : forall (rr : amap tx * amap tx),
    let rr' := fold_left attach_step ts rr in
    (forall k, has (fst rr') k = true -> has (fst rr) k = true) /\
    (forall k v, In (k, v) (fst rr') -> In (k, v) (fst rr)) /\
    (forall k, has (snd rr) k = true -> has (snd rr') k = true) /\
    (forall t, In t ts -> has (fst rr) (tid t) = false -> has (snd rr') (tid t) = true).
  Proof.
    induction ts as [|t ts IH]; cbn [fold_left]; intros rr; cbv zeta.
    - repeat split; auto; intros t [].
    - pose proof (IH (attach_step rr t)) as X. cbv zeta in X. destruct X as [H1 [H2 [H3 H4]]].
      assert (S1 : forall k, has (fst (attach_step rr t)) k = true -> has (fst rr) k = true).
      { intros k. unfold attach_step. destruct (has (fst rr) (tid t)); cbn [fst]; [|auto].
        rewrite has_remove, andb_true_iff. tauto. }
      assert (S2 : forall k v, In (k, v) (fst (attach_step rr t)) -> In (k, v) (fst rr)).
      { intros k v. unfold attach_step. destruct (has (fst rr) (tid t)); cbn [fst]; [|auto].
        intros H. apply In_remove in H. tauto. }
      assert (S3 : forall k, has (snd rr) k = true -> has (snd (attach_step rr t)) k = true).
      { intros k. unfold attach_step. destruct (has (fst rr) (tid t)); cbn [snd]; [auto|].
        rewrite has_insert. intros ->. apply orb_true_r. }
      split; [auto|]. split; [auto|]. split; [auto|].
      intros t' [E|Hin] Hno.
      + subst t'. apply H3. unfold attach_step. rewrite Hno. cbn [snd]. rewrite has_insert, N.eqb_refl. reflexivity.
      + apply H4; [exact Hin|]. destruct (has (fst (attach_step rr t)) (tid t')) eqn:X; [|reflexivity].
        apply S1 in X. congruence.
  Qed.

  Lemma attach_blocks_spec att : forall (rr : amap tx * amap tx),
    let rr' := fold_left attach_txs att rr in
    (forall k, has (fst rr') k = true -> has (fst rr) k = true) /\
    (forall k v, In (k, v) (fst rr') -> In (k, v) (fst rr)) /\
    (forall k, has (snd rr) k = true -> has (snd rr') k = true) /\
    (forall t, In t (main_txs att) -> has (fst rr) (tid t) = false -> has (snd rr') (tid t) = true).
  Proof.
    induction att as [|b att IH]; cbn [fold_left]; intros rr; cbv zeta.
    - repeat split; auto; intros t [].
    - pose proof (IH (attach_txs rr b)) as X. cbv zeta in X. destruct X as [H1 [H2 [H3 H4]]].
      pose proof (attach_fold_spec (btxs b) rr) as Y. cbv zeta in Y. destruct Y as [G1 [G2 [G3 G4]]].
      fold (attach_txs rr b) in G1, G2, G3, G4.
      split; [auto|]. split; [auto|]. split; [auto|].
      intros t Ht Hno. unfold main_txs in Ht; cbn in Ht. apply in_app_or in Ht. destruct Ht as [Ht|Ht].
      + apply H3. apply G4; assumption.
      + apply H4; [exact Ht|]. destruct (has (fst (attach_txs rr b)) (tid t)) eqn:X; [|reflexivity].
        apply G1 in X. congruence.
  Qed.

  Lemma reorg_maps_spec att det :
    (forall t, In t (main_txs att) -> ~ In (tid t) (map tid (main_txs det)) ->
               In (tid t) (map fst (snd (reorg_maps att det)))) /\
    (forall v, In v (map snd (fst (reorg_maps att det))) -> In v (main_txs det)).
  Proof.
    unfold reorg_maps.
    pose proof (attach_blocks_spec att (fold_left detach_txs det [], [])) as X. cbv zeta in X.
    destruct X as [H1 [H2 [H3 H4]]].
    cbn [fst snd] in *. split.
    - intros t Ht Hn. apply has_keys. apply H4; [exact Ht|].
      destruct (has (fold_left detach_txs det []) (tid t)) eqn:X; [|reflexivity].
      apply restore0_keys in X. destruct X as [X|X]; [discriminate|contradiction].
    - intros v Hv. apply in_map_iff in Hv. destruct Hv as [[k v'] [E Hin]]. cbn in E; subst v'.
      apply H2 in Hin. apply restore0_vals in Hin. destruct Hin as [[]|Hin]. exact Hin.
  Qed.

  Lemma main_txs_app a b : main_txs (a ++ b) = main_txs a ++ main_txs b.
  Proof. unfold main_txs. apply flat_map_app. Qed.

  Lemma main_txs_rev_In a t : In t (main_txs (rev a)) <-> In t (main_txs a).
  Proof.
    unfold main_txs. rewrite !in_flat_map. split; intros [b [Hb Ht]]; exists b;
      (split; [|exact Ht]); [apply in_rev; exact Hb|apply in_rev in Hb; exact Hb].
  Qed.

  Lemma reorganize_ninv n hint tb n' :
    ninv n -> In tb Sto -> reorganize n hint tb = Some n' -> ninv n'.
  Proof.
    intros I Htb E. unfold Model.reorganize in E.
    destruct (calc_reorg Sto _ tb [] [] (nmain n)) as [[[att det] rest]|] eqn:Ec;
      [|inversion E; subst; exact I].
    destruct (chain_utxo c0 (rev att ++ rest)) as [c'|] eqn:Eu; [|inversion E; subst; exact I].
    destruct (calc_reorg_spec _ _ _ _ _ _ _ _ Htb (fun b (H : In b []) => match H with end) Ec) as [Hatt Hsplit].
    cbn [app] in Hsplit.
    destruct I as [B Hc Hm D].
    destruct (reorg_maps_spec att det) as [Rrm Rrs].
    set (n1 := mkNode (rev att ++ rest) c' (npool n) (nerr n) (nev n)) in E.
    pose proof (fold_remove_ev_spec (ordRm hint (map fst (snd (reorg_maps att det)))) n1 B) as X.
    cbv zeta in X. destruct X as [B2 [E1 [E2 H2]]].
    assert (Hm' : forall t, In t (main_txs (rev att ++ rest)) -> In t U).
    { intros t Ht. rewrite main_txs_app in Ht. apply in_app_or in Ht. destruct Ht as [Ht|Ht].
      - apply (proj1 (main_txs_rev_In att t)) in Ht. unfold main_txs in Ht. apply in_flat_map in Ht.
        destruct Ht as [b [Hb Ht]]. exact (HS b t (Hatt b Hb) Ht).
      - apply Hm. rewrite <- Hsplit, main_txs_app. apply in_or_app; auto. }
    assert (Hdet : forall t, In t (main_txs det) -> In t U).
    { intros t Ht. apply Hm. rewrite <- Hsplit, main_txs_app. apply in_or_app; auto. }
    eapply validate_all_ninv; [| |exact E].
    - constructor.
      + exact B2.
      + rewrite E1, E2. exact Eu.
      + rewrite E1. exact Hm'.
      + rewrite E1. cbn [nmain n1]. intros h Hh Hin. destruct (H2 h Hh) as [Hold Hnk].
        cbn [npool n1] in Hold. specialize (D h Hold).
        rewrite <- Hsplit, main_txs_app, map_app, in_app_iff in D.
        rewrite main_txs_app, map_app, in_app_iff in Hin. destruct Hin as [Hin|Hin]; [|tauto].
        apply in_map_iff in Hin. destruct Hin as [t [Et Ht]]. apply (proj1 (main_txs_rev_In att t)) in Ht.
        apply Hnk. apply (Permutation_in _ (Permutation_sym (ordRm_perm hint _))).
        rewrite <- Et. apply Rrm; [exact Ht|]. rewrite Et. tauto.
    - intros t Ht. apply (Permutation_in _ (ordRs_perm hint _)) in Ht. apply Hdet. apply Rrs. exact Ht.
  Qed.

  Lemma fold_remove_orphan_binv hs : forall st, binv U st -> binv U (fold_left remove_orphan hs st).
  Proof.
    induction hs as [|h hs IH]; cbn; intros st B; [exact B|]. apply IH. apply remove_orphan_binv; exact B.
  Qed.

  Lemma nstep_ninv n o n' :
    ninv n -> (forall t, In t (nop_txs o) -> In t U) -> nstep n o = Some n' -> ninv n'.
  Proof.
    intros I HU E. destruct o as [t|h hint|hs]; cbn in E.
    - eapply validate_ninv; eauto. apply HU. left; reflexivity.
    - unfold try_reorganize in E. destruct (nmain n) as [|best below] eqn:Em.
      { inversion E; subst; exact I. }
      destruct (N.eqb (bid best) h). { inversion E; subst; exact I. }
      destruct (find_block Sto h) as [tb|] eqn:Ef; [|inversion E; subst; exact I].
      eapply reorganize_ninv; eauto. eapply find_block_In; eauto.
    - inversion E; subst. destruct I as [B Hc Hm D]. constructor; cbn [npool nmain nutxo]; auto.
      + apply fold_remove_orphan_binv; exact B.
      + intros k. rewrite fold_remove_orphan_pool. apply D.
  Qed.

  Lemma nrun_ninv ops : forall n n',
    ninv n -> (forall t, In t (flat_map nop_txs ops) -> In t U) -> nrun n ops = Some n' -> ninv n'.
  Proof.
    induction ops as [|o ops IH]; cbn; intros n n' I HU E.
    - inversion E; subst; exact I.
    - destruct (Model.nstep Sto c0 valid ordP ordRm ordRs n o) as [n1|] eqn:Es; [|discriminate].
      eapply IH; [| |exact E].
      + eapply nstep_ninv; eauto. intros t Ht. apply HU. apply in_or_app; auto.
      + intros t Ht. apply HU. apply in_or_app; auto.
  Qed.

  Lemma init_ninv g : ninv (init_node g c0).
  Proof.
    constructor; cbn.
    - destruct (empty_inv U []) as [B _]. exact B.
    - reflexivity.
    - intros t [].
    - intros h H. discriminate.
  Qed.
End Main.
