(* C23 — totality, the decidable guard of the disjointness theorem, and the
   theorems over all histories in the form Props.v states them. *)
From Coq Require Import List NArith Bool PeanoNat Lia Permutation.
From Verif Require Import Cmp.
From C22 Require Import Model Maps Prims Proofs Guard.
From C23 Require Import Model Chain Proofs.
Import ListNotations.

(* ---- the guard --------------------------------------------------------------
   wf_univ_b (C22/Guard.v): an id names one transaction, an output id belongs to
   one transaction, outputs that are not spendable are not spent;
   every transaction has an input; no transaction creates an output that was
   spendable before the first modelled block. *)
Definition has_input_b (U : list tx) : bool := forallb (fun t => negb (is_nil (ins t))) U.
Definition c0_fresh_b (c0 : list N) (U : list tx) : bool :=
  forallb (fun t => forallb (fun o => negb (memN o c0)) (map fst (outs t))) U.

Definition univ_ok_b (c0 : list N) (U : list tx) : bool :=
  wf_univ_b U && has_input_b U && c0_fresh_b c0 U.

(* the same without "an output id belongs to one transaction" *)
Definition pair_ok_weak (t1 t2 : tx) : bool :=
  (negb (N.eqb (tid t1) (tid t2)) || tx_eqb t1 t2) &&
  forallb (fun ob : N * bool => snd ob || negb (memN (fst ob) (ins t2))) (outs t1).
Definition univ_weak_b (c0 : list N) (U : list tx) : bool :=
  forallb (fun t1 => forallb (pair_ok_weak t1) U) U && has_input_b U && c0_fresh_b c0 U.

Lemma has_input_sound U : has_input_b U = true -> forall t, In t U -> ins t <> [].
Proof.
  unfold has_input_b. rewrite forallb_forall. intros H t Ht E. specialize (H t Ht).
  rewrite E in H. discriminate.
Qed.

Lemma c0_fresh_sound c0 U :
  c0_fresh_b c0 U = true -> forall t o, In t U -> In o (map fst (outs t)) -> ~ In o c0.
Proof.
  unfold c0_fresh_b. rewrite forallb_forall. intros H t o Ht Ho Hc. specialize (H t Ht).
  rewrite forallb_forall in H. specialize (H o Ho). apply negb_true_iff in H.
  apply memN_In in Hc. congruence.
Qed.

Definition disjoint_pool_main (n : node) : Prop :=
  forall h, has (pool (npool n)) h = true -> ~ In h (map tid (main_txs (nmain n))).

(* the event statement: in every chronological prefix of the stream, each id
   has at most as many removals as additions *)
Definition events_paired (n : node) : Prop :=
  forall pre suf, rev (nev n) = pre ++ suf -> forall h, n_rm h pre <= n_new h pre.

Section All.
  Variable Sto : list block.
  Variable c0 : list N.
  Variable valid : N -> N -> bool.
  Variable ordP : N -> amap tx -> amap tx.
  Variable ordRm : list N -> list N -> list N.
  Variable ordRs : list N -> list tx -> list tx.

  Notation nrun := (nrun Sto c0 valid ordP ordRm ordRs).
  Notation nstep := (nstep Sto c0 valid ordP ordRm ordRs).

  (* ---- events: no hypothesis ------------------------------------------------- *)
  Theorem events_all_histories g ops n :
    nrun (init_node g c0) ops = Some n -> events_paired n.
  Proof.
    intros E pre suf Es h.
    assert (I : ev_inv (npool n) (nev n)).
    { eapply nrun_evinv; [|exact E]. apply ev_inv_init. }
    destruct I as [A _]. exact (ev_ok_prefixes _ A pre suf Es h).
  Qed.

  Theorem events_greedy_all_histories g ops n :
    nrun (init_node g c0) ops = Some n -> paired (rev (nev n)) = true.
  Proof.
    intros E. assert (I : ev_inv (npool n) (nev n)).
    { eapply nrun_evinv; [|exact E]. apply ev_inv_init. }
    destruct I as [A _]. apply ev_ok_paired; exact A.
  Qed.

  (* a pooled transaction has an addition that no removal has matched yet *)
  Theorem pooled_has_open_addition g ops n :
    nrun (init_node g c0) ops = Some n ->
    forall h, has (pool (npool n)) h = true -> n_rm h (nev n) < n_new h (nev n).
  Proof.
    intros E. assert (I : ev_inv (npool n) (nev n)).
    { eapply nrun_evinv; [|exact E]. apply ev_inv_init. }
    destruct I as [_ [_ C]]. exact C.
  Qed.

  Hypothesis ordP_perm : forall o l, Permutation (ordP o l) l.

  (* ---- totality ---------------------------------------------------------------- *)
  Lemma po_loop_ev_total c : forall fuel st ev wl,
    obp_size (obp st) + length wl <= fuel ->
    exists r, po_loop_ev ordP c fuel st ev wl = Some r.
  Proof.
    induction fuel as [|f IH]; intros st ev wl Hm; destruct wl as [|x wl']; cbn [po_loop_ev].
    - eauto.
    - cbn in Hm. lia.
    - eauto.
    - destruct (is_nil (check_orphan_utxos c st x)).
      + destruct (add_rely ordP (obp st) wl' x) as [m1 wl1] eqn:Er. cbn [fst snd].
        destruct (add_rely_spec ordP ordP_perm _ _ _ _ _ Er) as [_ [_ [_ [_ [_ Q6]]]]].
        apply IH. rewrite add_transaction_eq. unfold plain_add; cbn [obp].
        pose proof (remove_orphan_size (remove_orphan (with_obp st m1) (tid x)) (tid x)).
        pose proof (remove_orphan_size (with_obp st m1) (tid x)).
        unfold with_obp in *; cbn [obp] in *. cbn [length] in Hm. lia.
      + apply IH. cbn [length] in Hm. lia.
  Qed.

  Lemma validate_total n t : exists n', validate valid ordP n t = Some n'.
  Proof.
    unfold validate. destruct (has (pool (npool n)) (tid t) || memN (tid t) (nerr n)); [eauto|].
    destruct (valid (tid t) (best_height (nmain n))); [|eauto].
    unfold process_tx. destruct (check_orphan_utxos (nutxo n) (npool n) t); [|eauto].
    destruct (add_rely ordP (obp (add_transaction (npool n) t)) [] t) as [m1 wl1] eqn:Er.
    cbn [fst snd].
    destruct (add_rely_spec ordP ordP_perm _ _ _ _ _ Er) as [_ [_ [_ [_ [_ Q6]]]]].
    destruct (po_loop_ev_total (nutxo n) (S (obp_size (obp (add_transaction (npool n) t))))
                (with_obp (add_transaction (npool n) t) m1) (ENew (tid t) :: nev n) wl1) as [[st' ev'] Hs].
    - unfold with_obp; cbn [obp]. cbn [length] in Q6. lia.
    - rewrite Hs. eauto.
  Qed.

  Lemma validate_all_total ts : forall n, exists n', validate_all valid ordP n ts = Some n'.
  Proof.
    induction ts as [|t ts IH]; cbn; intros n; [eauto|].
    destruct (validate_total n t) as [n1 E]. rewrite E. apply IH.
  Qed.

  Lemma nstep_total n o : exists n', nstep n o = Some n'.
  Proof.
    destruct o as [t|h hint|hs]; cbn.
    - apply validate_total.
    - unfold try_reorganize. destruct (nmain n); [eauto|]. destruct (N.eqb (bid b) h); [eauto|].
      destruct (find_block Sto h); [|eauto]. unfold reorganize.
      destruct (calc_reorg Sto _ b0 [] [] _) as [[[att det] rest]|]; [|eauto].
      destruct (chain_utxo c0 (rev att ++ rest)); [|eauto]. apply validate_all_total.
    - eauto.
  Qed.

  Theorem run_total ops : forall n, exists n', nrun n ops = Some n'.
  Proof.
    induction ops as [|o ops IH]; cbn; intros n; [eauto|].
    destruct (nstep_total n o) as [n1 E]. rewrite E. apply IH.
  Qed.

  (* ---- disjointness ---------------------------------------------------------------- *)
  Hypothesis ordRm_perm : forall hint l, Permutation (ordRm hint l) l.
  Hypothesis ordRs_perm : forall hint l, Permutation (ordRs hint l) l.

  Lemma store_in_universe ops b t : In b Sto -> In t (btxs b) -> In t (universe Sto ops).
  Proof.
    intros Hb Ht. unfold universe. apply in_or_app. left. unfold main_txs. apply in_flat_map. eauto.
  Qed.

  Theorem disjoint_all_histories g ops n :
    univ_ok_b c0 (universe Sto ops) = true ->
    nrun (init_node g c0) ops = Some n -> disjoint_pool_main n.
  Proof.
    unfold univ_ok_b. rewrite !andb_true_iff. intros [[G1 G2] G3] E.
    apply wf_univ_b_sound in G1.
    pose proof (has_input_sound _ G2) as NE. pose proof (c0_fresh_sound _ _ G3) as C0.
    assert (I : ninv c0 (universe Sto ops) n).
    { eapply (nrun_ninv Sto c0 valid ordP ordRm ordRs ordP_perm ordRm_perm ordRs_perm
                (universe Sto ops) G1 NE C0 (store_in_universe ops)); [| |exact E].
      - apply init_ninv.
      - intros t Ht. unfold universe. apply in_or_app; auto. }
    exact (i_d _ _ _ I).
  Qed.

  (* one step, from the invariant *)
  Theorem step_keeps_inv U n o n' :
    wf_univ U -> (forall t, In t U -> ins t <> []) ->
    (forall t o, In t U -> In o (map fst (outs t)) -> ~ In o c0) ->
    (forall b t, In b Sto -> In t (btxs b) -> In t U) ->
    (forall t, In t (nop_txs o) -> In t U) ->
    ninv c0 U n -> nstep n o = Some n' -> ninv c0 U n'.
  Proof.
    intros WF NE C0 HS HU I E.
    exact (nstep_ninv Sto c0 valid ordP ordRm ordRs ordP_perm ordRm_perm ordRs_perm U WF NE C0 HS n o n' I HU E).
  Qed.
End All.

Theorem inv_implies_disjoint c0 U n : ninv c0 U n -> disjoint_pool_main n.
Proof. intros I. exact (i_d _ _ _ I). Qed.

(* the statement without the guard's "an output id belongs to one transaction" *)
Definition C23_full : Prop :=
  forall Sto c0 valid ordP ordRm ordRs g ops n,
    (forall o l, Permutation (ordP o l) l) ->
    (forall hint l, Permutation (ordRm hint l) l) ->
    (forall hint l, Permutation (ordRs hint l) l) ->
    univ_weak_b c0 (universe Sto ops) = true ->
    nrun Sto c0 valid ordP ordRm ordRs (init_node g c0) ops = Some n ->
    disjoint_pool_main n.
