(* C23 — concrete histories: the hypotheses of the theorems are satisfiable by
   a non-trivial history (a reorganisation forth and back with transactions on
   one branch, on both, and a conflicting pair), and the statement without the
   guard's "an output id belongs to one transaction" is false (twin
   transactions: same inputs and outputs, different TimeRange). *)
From Coq Require Import List NArith Bool Permutation.
From C22 Require Import Model Run.
From C23 Require Import Model Chain Proofs Guard Run.
Import ListNotations.
Open Scope N_scope.

(* roots 100..103 *)
Definition hc0 : list N := [100; 101; 102; 103].
Definition g0 : block := mkBlock 0 0 21 [].
Definition tA := mkTx 1 [100] [(10, true); (11, true)].   (* on branch A only *)
Definition tB := mkTx 2 [10] [(20, true)].                (* child of tA, on branch A *)
Definition tC := mkTx 3 [101] [(30, true)].               (* on both branches *)
Definition tD := mkTx 4 [102] [(40, true)].               (* conflicts with tE *)
Definition tE := mkTx 5 [102] [(50, true); (51, false)].
Definition tF := mkTx 6 [103; 30] [(60, true)].           (* never confirmed *)
Definition bA1 := mkBlock 1 0 22 [tA; tC].
Definition bA2 := mkBlock 2 1 23 [tB; tD].
Definition bB1 := mkBlock 3 0 22 [tC].
Definition bB2 := mkBlock 4 3 23 [tE].
Definition bB3 := mkBlock 5 4 24 [].
Definition bA3 := mkBlock 6 2 24 [].
Definition bA4 := mkBlock 7 6 25 [].
Definition hstore := [g0; bA1; bA2; bB1; bB2; bB3; bA3; bA4].
Definition hops : list nop :=
  [NSubmit tB; NSubmit tA; NSubmit tC; NTip 1 []; NSubmit tD; NSubmit tF; NTip 2 [];
   NTip 5 []; NSubmit tE; NTip 7 []].

Definition vtrue (h height : N) : bool := true.
Definition hrun := nrun hstore hc0 vtrue idP ordRm_id ordRs_hint (init_node g0 hc0) hops.

Example guard_satisfiable : univ_ok_b hc0 (universe hstore hops) = true.
Proof. vm_compute. reflexivity. Qed.

(* after the reorganisation to B: tA, tB (detached, not on B) are back in the
   pool, tD is an orphan (its input is spent by tE on B) ... *)
Example history_mid :
  option_map (fun n => (Run.best_id n, sort_by (fun x => x) (map fst (pool (npool n))),
                        sort_by (fun x => x) (map fst (orphans (npool n)))))
             (nrun hstore hc0 vtrue idP ordRm_id ordRs_hint (init_node g0 hc0) (firstn 8 hops))
  = Some (5, [1; 2; 6], [4]).
Proof. vm_compute. reflexivity. Qed.

(* ... and after the reorganisation back to A they have left it again; tD, now
   confirmed, is still parked as an orphan (orphans are not in the pool) *)
Example history_end :
  option_map (fun n => (Run.best_id n, sort_by (fun x => x) (map fst (pool (npool n))),
                        sort_by (fun x => x) (map fst (orphans (npool n))),
                        map tid (main_txs (nmain n)), rev (nev n))) hrun
  = Some (7, [6], [4; 5], [2; 4; 1; 3],
          [ENew 1; ENew 2; ENew 3; ERemove 3; ERemove 1; ENew 4; ENew 6; ERemove 4; ERemove 2;
           ENew 1; ENew 2; ERemove 2; ERemove 1]).
Proof. vm_compute. reflexivity. Qed.

(* ---- twins ---------------------------------------------------------------------
   T and T' spend the same output and create the same output id 10 (they differ in
   TimeRange only, which is not part of the output id).  T' is pooled; T and then P
   (which spends output 10) are confirmed; P is submitted again: its input is listed
   in the pool's output index (under T'), so P enters the pool although it is on the
   main chain, and no later block removes it. *)
Definition wc0 : list N := [100].
Definition tT := mkTx 1 [100] [(10, true)].
Definition tT' := mkTx 2 [100] [(10, true)].
Definition tP := mkTx 3 [10] [(11, true)].
Definition wstore := [g0; mkBlock 1 0 22 [tT]; mkBlock 2 1 23 [tP]; mkBlock 3 2 24 []].
Definition wops : list nop := [NSubmit tT'; NTip 1 []; NTip 2 []; NSubmit tP; NTip 3 []].
Definition wrun := nrun wstore wc0 vtrue idP ordRm_id ordRs_hint (init_node g0 wc0) wops.

Lemma idP_perm : forall o (l : amap tx), Permutation (idP o l) l.
Proof. intros; apply Permutation_refl. Qed.
Lemma ordRm_id_perm : forall hint l, Permutation (ordRm_id hint l) l.
Proof. intros; apply Permutation_refl. Qed.
(* with an empty hint the restore order is the list order *)
Definition ordRs_id (hint : list N) (l : list tx) : list tx := l.
Lemma ordRs_id_perm : forall hint l, Permutation (ordRs_id hint l) l.
Proof. intros; apply Permutation_refl. Qed.

Definition wrun_id := nrun wstore wc0 vtrue idP ordRm_id ordRs_id (init_node g0 wc0) wops.

Lemma twin_weak_guard : univ_weak_b wc0 (universe wstore wops) = true.
Proof. vm_compute. reflexivity. Qed.

Lemma twin_outside_guard : univ_ok_b wc0 (universe wstore wops) = false.
Proof. vm_compute. reflexivity. Qed.

Lemma twin_run :
  option_map (fun n => (map fst (pool (npool n)), map tid (main_txs (nmain n)))) wrun_id
  = Some ([3; 2], [3; 1]).
Proof. vm_compute. reflexivity. Qed.

Theorem refuted_twin : ~ C23_full.
Proof.
  intros H.
  destruct wrun_id as [n|] eqn:E; [|vm_compute in E; discriminate].
  pose proof (H wstore wc0 vtrue idP ordRm_id ordRs_id g0 wops n
                idP_perm ordRm_id_perm ordRs_id_perm twin_weak_guard E) as D.
  assert (X : wrun_id = Some n) by exact E.
  vm_compute in X. inversion X; subst n. clear - D.
  apply (D 3); vm_compute; auto.
Qed.
