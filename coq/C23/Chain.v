(* C23 — facts about the chain's set of spendable outputs (chain_utxo):
   in a transaction universe where an output id belongs to one transaction,
   every transaction has an input and the initially spendable outputs are not
   created by any transaction, a main chain that applies
     - never lists an output spent on it as spendable,
     - spends only outputs that were initially spendable or created on it. *)
From Coq Require Import List NArith Bool PeanoNat Lia.
From C22 Require Import Model Maps Prims.
From C23 Require Import Model.
Import ListNotations.

Definition created (ts : list tx) : list N := flat_map spendable_outs ts.
Definition spent (ts : list tx) : list N := flat_map ins ts.

Lemma removeN_In o c x : In x (removeN o c) <-> In x c /\ x <> o.
Proof.
  unfold removeN. rewrite filter_In. rewrite negb_true_iff, N.eqb_neq. tauto.
Qed.

Lemma spend_all_spec os : forall c c1,
  spend_all c os = Some c1 ->
  (forall o, In o os -> In o c) /\ (forall x, In x c1 <-> In x c /\ ~ In x os).
Proof.
  induction os as [|o os IH]; cbn; intros c c1 H.
  - inversion H; subst. split; [tauto|]. intros x; tauto.
  - destruct (memN o c) eqn:Hm; [|discriminate].
    apply memN_In in Hm. apply IH in H. destruct H as [H1 H2]. split.
    + intros o' [E|Hin]; [subst; exact Hm|]. apply H1 in Hin. apply removeN_In in Hin. tauto.
    + intros x. rewrite H2, removeN_In. split.
      * intros [[Hc Hn] Hno]. split; [exact Hc|]. intros [E|Hin]; [subst; auto|auto].
      * intros [Hc Hno]. split; [split; [exact Hc|]|]; intros X; apply Hno; [left; auto|right; auto].
Qed.

Lemma spendable_outs_In t o : In o (spendable_outs t) <-> In (o, true) (outs t).
Proof.
  unfold spendable_outs. rewrite in_map_iff. split.
  - intros [[o' b] [E Hin]]. cbn in E; subst o'. apply filter_In in Hin. destruct Hin as [Hin Hb].
    cbn in Hb; subst b. exact Hin.
  - intros Hin. exists (o, true). split; [reflexivity|]. apply filter_In. auto.
Qed.

Lemma created_In ts o : In o (created ts) <-> exists t, In t ts /\ In (o, true) (outs t).
Proof.
  unfold created. rewrite in_flat_map. split; intros [t [Ht Ho]]; exists t;
    (split; [exact Ht|]); apply spendable_outs_In; exact Ho.
Qed.

Lemma spent_In ts o : In o (spent ts) <-> exists t, In t ts /\ In o (ins t).
Proof. unfold spent. apply in_flat_map. Qed.

Section Chain.
  Variable U : list tx.
  Variable c0 : list N.
  Hypothesis WF : wf_univ U.
  Hypothesis NE : forall t, In t U -> ins t <> [].
  Hypothesis C0 : forall t o, In t U -> In o (map fst (outs t)) -> ~ In o c0.

  (* [done]: the transactions applied so far; [c]: the spendable set *)
  Record uinv (done : list tx) (c : list N) : Prop := {
    u_src : forall o, In o c -> In o c0 \/ In o (created done);
    u_spent : forall o, In o (spent done) -> ~ In o c;
    u_from : forall o, In o (spent done) -> In o c0 \/ In o (created done)
  }.

  Lemma uinv_init : uinv [] c0.
  Proof. constructor; cbn; intros; tauto. Qed.

  Lemma out_fst t o b : In (o, b) (outs t) -> In o (map fst (outs t)).
  Proof. intros H. apply in_map_iff. exists (o, b). auto. Qed.

  (* a transaction whose inputs are all spendable has not been applied before *)
  Lemma fresh_tx done c t :
    uinv done c -> In t U -> (forall o, In o (ins t) -> In o c) -> ~ In t done.
  Proof.
    intros I HU Hs Hd. pose proof (NE t HU) as Hne.
    destruct (ins t) as [|o os] eqn:E; [congruence|].
    apply (u_spent _ _ I o).
    - apply spent_In. exists t. split; [exact Hd|rewrite E; left; reflexivity].
    - apply Hs. left; reflexivity.
  Qed.

  Lemma apply_tx_uinv done c t c1 :
    (forall x, In x done -> In x U) -> In t U ->
    uinv done c -> apply_tx c t = Some c1 -> uinv (done ++ [t]) c1.
  Proof.
    intros HD HU I E. unfold apply_tx in E.
    destruct (spend_all c (ins t)) as [c'|] eqn:Es; [|discriminate]. inversion E; subst c1. clear E.
    destruct (spend_all_spec _ _ _ Es) as [S1 S2].
    pose proof (fresh_tx done c t I HU S1) as Hfresh.
    (* an output of t that exists already leads to t having been applied *)
    assert (Hnew : forall o, In (o, true) (outs t) -> In o c0 \/ In o (created done) -> False).
    { intros o Ho [H0|Hc].
      - apply (C0 t o HU); [eapply out_fst; eauto|exact H0].
      - apply created_In in Hc. destruct Hc as [t' [Ht' Ho']].
        destruct WF as [_ [W2 _]].
        assert (t' = t) by (apply (W2 t' t o); auto; eapply out_fst; eauto).
        subst t'. exact (Hfresh Ht'). }
    constructor.
    - intros o Hin. apply in_app_or in Hin. destruct Hin as [Hin|Hin].
      + right. apply created_In. exists t. split; [apply in_or_app; right; left; reflexivity|].
        apply spendable_outs_In; exact Hin.
      + apply S2 in Hin. destruct (u_src _ _ I o (proj1 Hin)) as [H|H]; [auto|].
        right. apply created_In in H. destruct H as [t' [Ht' Ho']]. apply created_In.
        exists t'. split; [apply in_or_app; auto|exact Ho'].
    - intros o Hs Hin. apply spent_In in Hs. destruct Hs as [t' [Ht' Ho']].
      apply in_app_or in Hin. apply in_app_or in Ht'.
      destruct Ht' as [Ht'|[Et|[]]].
      + assert (Hsd : In o (spent done)) by (apply spent_In; eauto).
        destruct Hin as [Hin|Hin].
        * apply spendable_outs_In in Hin. exact (Hnew o Hin (u_from _ _ I o Hsd)).
        * apply S2 in Hin. exact (u_spent _ _ I o Hsd (proj1 Hin)).
      + subst t'. destruct Hin as [Hin|Hin].
        * apply spendable_outs_In in Hin. exact (Hnew o Hin (u_src _ _ I o (S1 o Ho'))).
        * apply S2 in Hin. tauto.
    - intros o Hs. apply spent_In in Hs. destruct Hs as [t' [Ht' Ho']].
      apply in_app_or in Ht'.
      assert (Hsrc : In o c0 \/ In o (created done)).
      { destruct Ht' as [Ht'|[Et|[]]].
        - apply (u_from _ _ I). apply spent_In; eauto.
        - subst t'. apply (u_src _ _ I). auto. }
      destruct Hsrc as [H|H]; [auto|]. right. apply created_In in H. destruct H as [x [Hx Hox]].
      apply created_In. exists x. split; [apply in_or_app; auto|exact Hox].
  Qed.

  Lemma apply_txs_uinv ts : forall done c c1,
    (forall x, In x done -> In x U) -> (forall x, In x ts -> In x U) ->
    uinv done c -> apply_txs c ts = Some c1 -> uinv (done ++ ts) c1.
  Proof.
    induction ts as [|t ts IH]; cbn; intros done c c1 HD HT I E.
    - inversion E; subst. rewrite app_nil_r. exact I.
    - destruct (apply_tx c t) as [c2|] eqn:Et; [|discriminate].
      replace (done ++ t :: ts) with ((done ++ [t]) ++ ts) by (rewrite <- app_assoc; reflexivity).
      apply (IH (done ++ [t]) c2 c1); auto.
      + intros x Hx. apply in_app_or in Hx. destruct Hx as [Hx|[Hx|[]]]; [auto|subst; auto].
      + eapply apply_tx_uinv; eauto.
  Qed.

  (* chronological transaction list of a main chain (tip first) *)
  Definition chron (main : list block) : list tx := flat_map btxs (rev main).

  Lemma chron_In main t : In t (chron main) <-> In t (main_txs main).
  Proof.
    unfold chron, main_txs. rewrite !in_flat_map. split; intros [b [Hb Ht]]; exists b;
      (split; [|exact Ht]); [apply in_rev; exact Hb|apply in_rev in Hb; exact Hb].
  Qed.

  Lemma chain_utxo_uinv main : forall c,
    (forall t, In t (main_txs main) -> In t U) ->
    chain_utxo c0 main = Some c -> uinv (chron main) c.
  Proof.
    induction main as [|b below IH]; cbn [chain_utxo]; intros c HU E.
    - inversion E; subst. apply uinv_init.
    - destruct (chain_utxo c0 below) as [c1|] eqn:Eb; [|discriminate].
      unfold chron. cbn [rev]. rewrite flat_map_app. cbn [flat_map]. rewrite app_nil_r.
      assert (HUb : forall t, In t (main_txs below) -> In t U).
      { intros t Ht. apply HU. unfold main_txs; cbn. apply in_or_app; auto. }
      apply (apply_txs_uinv (btxs b) (chron below) c1 c); auto.
      + intros x Hx. apply HUb. apply chron_In; exact Hx.
      + intros x Hx. apply HU. unfold main_txs; cbn. apply in_or_app; auto.
  Qed.

  (* the two facts used by the pool argument *)
  Theorem confirmed_inputs_not_spendable main c t o :
    (forall t, In t (main_txs main) -> In t U) ->
    chain_utxo c0 main = Some c -> In t (main_txs main) -> In o (ins t) -> ~ In o c.
  Proof.
    intros HU E Ht Ho. apply (u_spent _ _ (chain_utxo_uinv main c HU E)).
    apply spent_In. exists t. split; [apply chron_In; exact Ht|exact Ho].
  Qed.

  Theorem confirmed_inputs_created main c t o :
    (forall t, In t (main_txs main) -> In t U) ->
    chain_utxo c0 main = Some c -> In t (main_txs main) -> In o (ins t) ->
    In o c0 \/ exists t', In t' (main_txs main) /\ In (o, true) (outs t').
  Proof.
    intros HU E Ht Ho.
    destruct (u_from _ _ (chain_utxo_uinv main c HU E) o) as [H|H].
    - apply spent_In. exists t. split; [apply chron_In; exact Ht|exact Ho].
    - auto.
    - right. apply created_In in H. destruct H as [t' [Ht' Ho']]. exists t'.
      split; [apply chron_In; exact Ht'|exact Ho'].
  Qed.
End Chain.
