(* C20 — lemmas, part 2: what draining each iterator yields, the simulation between
   the two backends, the equivalence theorem, the abstract-map and iteration specs. *)
From Coq Require Import List NArith ZArith Bool Lia Sorted Permutation.
From Verif Require Import Cmp.
From C20 Require Import Model Order.
Import ListNotations.

(* ---- draining the memdb iterator --------------------------------------------------- *)

Definition mkv (m : mdb) (k : bytes) : bytes * bytes := (k, nonnil (mem_get m k)).

Lemma skipn_nth {A} : forall (L : list A) j, (j < length L)%nat ->
  exists x, nth_error L j = Some x /\ skipn j L = x :: skipn (S j) L.
Proof.
  induction L as [|a L IH]; intros j H; cbn in H; [lia|].
  destruct j as [|j].
  - exists a. split; reflexivity.
  - destruct (IH j) as [x [E1 E2]]; [lia|]. exists x. split; [exact E1|]. cbn [skipn]. exact E2.
Qed.

Lemma mi_next_end L i : (Z.of_nat (length L) - 1 <= i)%Z ->
  mi_next (mkMiter L i) = (false, mkMiter L i).
Proof.
  intros H. unfold mi_next. cbn [mi_last mi_keys].
  assert (C : (i >=? Z.of_nat (length L) - 1)%Z = true) by (apply Z.geb_le; lia).
  rewrite C. reflexivity.
Qed.
Lemma mi_next_more L i : (i < Z.of_nat (length L) - 1)%Z ->
  mi_next (mkMiter L i) = (true, mkMiter L (i + 1)).
Proof.
  intros H. unfold mi_next. cbn [mi_last mi_keys].
  destruct (i >=? Z.of_nat (length L) - 1)%Z eqn:E; [|reflexivity]. apply Z.geb_le in E. lia.
Qed.
Lemma mi_key_neg L i : (i < 0)%Z -> mi_key (mkMiter L i) = Some [].
Proof. intros H. unfold mi_key. cbn [mi_last]. apply Z.ltb_lt in H. rewrite H. reflexivity. Qed.
Lemma mi_value_neg m L i : (i < 0)%Z -> mi_value m (mkMiter L i) = Some [].
Proof. intros H. unfold mi_value. cbn [mi_last]. apply Z.ltb_lt in H. rewrite H. reflexivity. Qed.
Lemma mi_key_at L i k : (0 <= i)%Z -> nth_error L (Z.to_nat i) = Some k -> mi_key (mkMiter L i) = Some k.
Proof.
  intros H E. unfold mi_key. cbn [mi_last mi_keys]. apply Z.ltb_ge in H. rewrite H. exact E.
Qed.
Lemma mi_value_at m L i k : (0 <= i)%Z -> nth_error L (Z.to_nat i) = Some k ->
  mi_value m (mkMiter L i) = Some (nonnil (mem_get m k)).
Proof.
  intros H E. unfold mi_value. rewrite (mi_key_at L i k H E). cbn [mi_last].
  apply Z.ltb_ge in H. rewrite H. reflexivity.
Qed.

Lemma mem_collect m L : forall n i fuel,
  (-1 <= i)%Z -> (Z.of_nat (length L) - 1 - i = Z.of_nat n)%Z -> (n < fuel)%nat ->
  collect mi_next mi_key (mi_value m) fuel (mkMiter L i)
  = WOk (map (mkv m) (skipn (Z.to_nat (i + 1)) L)).
Proof.
  induction n as [|n IH]; intros i fuel Hi Hn Hf; (destruct fuel as [|f]; [lia|]); cbn [collect].
  - rewrite mi_next_end by lia. rewrite skipn_all2; [reflexivity | lia].
  - rewrite mi_next_more by lia.
    destruct (skipn_nth L (Z.to_nat (i + 1))) as [k [E1 E2]]; [lia|].
    rewrite (mi_key_at L (i + 1) k), (mi_value_at m L (i + 1) k); [|lia|exact E1|lia|exact E1].
    rewrite (IH (i + 1)%Z f); [|lia|lia|lia].
    rewrite E2. cbn [map]. unfold mkv at 2.
    replace (Z.to_nat (i + 1 + 1)) with (S (Z.to_nat (i + 1))) by lia. reflexivity.
Qed.

(* a fresh iterator: last = -1 *)
Lemma mem_drain_fresh m L : mem_drain m (mkMiter L (-1)) = OIter [] [] (map (mkv m) L).
Proof.
  unfold mem_drain, drive. cbn [mi_keys]. rewrite mi_key_neg, mi_value_neg by lia.
  rewrite (mem_collect m L (length L) (-1)%Z); [reflexivity | lia | lia | lia].
Qed.

(* positioned on the first key by Seek *)
Lemma mem_drain_first m k r :
  mem_drain m (mkMiter (k :: r) 0) = OIter k (nonnil (mem_get m k)) (map (mkv m) r).
Proof.
  unfold mem_drain, drive. cbn [mi_keys].
  rewrite (mi_key_at (k :: r) 0 k), (mi_value_at m (k :: r) 0 k); [|lia|reflexivity|lia|reflexivity].
  rewrite (mem_collect m (k :: r) (length r) 0%Z); [reflexivity | lia | cbn [length]; lia | cbn [length]; lia].
Qed.

Lemma seek_index_first point k r : ble point k = true -> seek_index (k :: r) point 0 = Some 0%Z.
Proof. intros H. cbn. rewrite H. reflexivity. Qed.

(* IteratorPrefixWithStart with a non-nil start, in terms of the sorted key list *)
Lemma mem_drain_seek m L st : (forall k, In k L -> ble st k = true) ->
  mem_drain m (mi_seek (mkMiter L (-1)) st)
  = match L with
    | [] => OIter [] [] []
    | k :: r => OIter k (nonnil (mem_get m k)) (map (mkv m) r)
    end.
Proof.
  intros H. unfold mi_seek. cbn [mi_keys]. destruct L as [|k r].
  - cbn [seek_index]. apply mem_drain_fresh.
  - rewrite seek_index_first; [|apply H; left; reflexivity]. apply mem_drain_first.
Qed.

(* ---- draining the goleveldb iterator -------------------------------------------------- *)

Lemma ldb_collect_fwd all : forall rest cur fuel, (length rest < fuel)%nat ->
  collect li_next li_key li_value fuel (mkLiter all FWD cur rest) = WOk rest.
Proof.
  induction rest as [|[k v] rest IH]; intros cur fuel H; (destruct fuel as [|f]; [lia|]); cbn [collect].
  - reflexivity.
  - unfold li_next. cbn [li_dir li_rest li_all li_enter]. unfold li_key, li_value. cbn [li_cur fst snd].
    rewrite IH; [reflexivity | cbn [length] in H; lia].
Qed.

Lemma ldb_collect_soi all fuel : (length all < fuel)%nat ->
  collect li_next li_key li_value fuel (mkLiter all SOI None []) = WOk all.
Proof.
  intros H. destruct fuel as [|f]; [lia|]. cbn [collect]. unfold li_next. cbn [li_dir li_all].
  destruct all as [|[k v] r]; cbn [li_enter]; [reflexivity|].
  unfold li_key, li_value. cbn [li_cur fst snd].
  rewrite ldb_collect_fwd; [reflexivity | cbn [length] in H; lia].
Qed.

Lemma ldb_drain_fresh all : ldb_drain (mkLiter all SOI None []) = OIter [] [] all.
Proof.
  unfold ldb_drain, drive. cbn [li_all li_key li_value li_cur].
  rewrite ldb_collect_soi; [reflexivity | lia].
Qed.

Lemma ldb_drain_seek all st :
  ldb_drain (snd (li_seek (mkLiter all SOI None []) st))
  = match drop_below st all with
    | [] => OIter [] [] []
    | x :: r => OIter (fst x) (snd x) r
    end.
Proof.
  unfold li_seek. cbn [li_all]. pose proof (drop_below_length st all) as LEN.
  destruct (drop_below st all) as [|x r]; cbn [li_enter snd].
  - unfold ldb_drain, drive. cbn [li_all li_key li_value li_cur collect li_next li_dir]. reflexivity.
  - unfold ldb_drain, drive. cbn [li_all li_key li_value li_cur].
    rewrite ldb_collect_fwd; [reflexivity | cbn [length] in LEN; lia].
Qed.

(* ---- the simulation -------------------------------------------------------------------- *)

Record simdb (m : mdb) (d : ldb) : Prop := {
  sd_nodup : NoDup (map fst m);
  sd_sorted : ssorted (map fst d);
  sd_lookup : forall k, mlookup m k = mlookup d k;
  sd_wf : Forall isbytes (map fst d) }.

Lemma simdb_keys m d : simdb m d -> forall k, In k (map fst m) <-> In k (map fst d).
Proof. intros S k. rewrite !in_keys_lookup, (sd_lookup _ _ S). tauto. Qed.

Lemma simdb_init : simdb [] [].
Proof. split; cbn; try constructor; auto. Qed.

Lemma simdb_set m d k v : simdb m d -> isbytes k -> simdb (mem_set m k v) (ldb_put d k (nonnil v)).
Proof.
  intros S W. split.
  - unfold mem_set. cbn [map fst]. constructor; [apply mremove_notin | apply mremove_nodup, S].
  - apply ldb_put_sorted, S.
  - intros x. unfold mem_set. cbn [mlookup]. rewrite ldb_put_lookup, mlookup_remove, (beq_sym x k).
    destruct (beq k x); [reflexivity | apply S].
  - apply Forall_forall. intros x I. apply ldb_put_keys_in in I. destruct I as [->|I]; [exact W|].
    pose proof (sd_wf _ _ S) as F. rewrite Forall_forall in F. apply F. exact I.
Qed.

Lemma simdb_delete m d k : simdb m d -> simdb (mem_delete m k) (ldb_del d k).
Proof.
  intros S. unfold mem_delete, ldb_del. split.
  - apply mremove_nodup, S.
  - apply mremove_sorted, S.
  - intros x. rewrite !mlookup_remove. destruct (beq k x); [reflexivity | apply S].
  - rewrite mremove_keys. apply Forall_forall. intros x I. apply filter_In in I.
    pose proof (sd_wf _ _ S) as F. rewrite Forall_forall in F. apply F. tauto.
Qed.

Definition conv (o : bop) : lrec :=
  match o with
  | BOSet k v => LPut k (nonnil v)
  | BODel k => LDel k
  end.
Definition bop_wf (o : bop) : Prop :=
  match o with BOSet k _ => isbytes k | BODel _ => True end.

Lemma simdb_write : forall ops m d, simdb m d -> Forall bop_wf ops ->
  simdb (mem_write m ops) (ldb_write d (map conv ops)).
Proof.
  induction ops as [|o ops IH]; intros m d S W; cbn; [exact S|].
  inversion W; subst. apply IH; [|assumption].
  destruct o as [k v|k]; cbn; [apply simdb_set | apply simdb_delete]; assumption.
Qed.

Record sim (ms : mstate) (ls : lstate) : Prop := {
  sim_db : simdb (ms_db ms) (ls_db ls);
  sim_batch : ls_batch ls = map conv (ms_batch ms);
  sim_bwf : Forall bop_wf (ms_batch ms) }.

Lemma sim_init : sim mem_init ldb_init.
Proof. split; cbn; [apply simdb_init | reflexivity | constructor]. Qed.

(* which byte strings of an operation must be byte strings: the stored keys and the prefixes *)
Definition op_wf (o : op) : Prop :=
  match o with
  | Put _ k _ | BSet k _ => isbytes k
  | IterPrefix p | IterStart p _ => isbytes p
  | _ => True
  end.

(* ---- iterations: both backends yield the entries selected by the same predicate -------- *)

Definition lkv (d : ldb) (k : bytes) : bytes * bytes := (k, nonnil (mlookup d k)).

(* the entries of an ordered map whose keys satisfy f, rebuilt from the keys *)
Lemma entries_from_keys (d : ldb) (f : bytes -> bool) : NoDup (map fst d) ->
  map (lkv d) (filter f (map fst d)) = filter (fun kv => f (fst kv)) d.
Proof.
  intros ND. rewrite <- keys_filter. rewrite map_map.
  rewrite <- (map_id (filter (fun kv => f (fst kv)) d)) at 2.
  apply map_ext_in. intros [k v] I. apply filter_In in I. destruct I as [I _].
  unfold lkv. cbn [fst]. rewrite (lookup_in_nodup d k v ND I). reflexivity.
Qed.

Lemma mkv_lkv m d : simdb m d -> forall k, mkv m k = lkv d k.
Proof. intros S k. unfold mkv, lkv, mem_get. rewrite (sd_lookup _ _ S). reflexivity. Qed.

(* sort.Strings over the matching keys of the Go map = the matching keys of the ordered map *)
Lemma sorted_keys_agree m d f : simdb m d ->
  sort_strings (filter f (map fst m)) = filter f (map fst d).
Proof.
  intros S. apply ssorted_unique.
  - apply sort_strings_ssorted. apply NoDup_filter. apply S.
  - apply ssorted_filter. apply S.
  - intros x. rewrite sort_strings_in, !filter_In, (simdb_keys _ _ S). tauto.
Qed.

Lemma range_filter_prefix (d : ldb) p : isbytes p -> Forall isbytes (map fst d) ->
  filter (fun kv => in_range p (prefix_limit p) (fst kv)) d = filter (fun kv => has_prefix p (fst kv)) d.
Proof.
  intros Wp W. apply filter_ext_in. intros [k v] I. cbn [fst]. apply in_range_prefix; [exact Wp|].
  rewrite Forall_forall in W. apply W. change k with (fst (k, v)). apply in_map. exact I.
Qed.

(* the common description of what a prefix iteration returns *)
Definition prefix_entries (d : ldb) (p : bytes) : list (bytes * bytes) :=
  filter (fun kv => has_prefix p (fst kv)) d.
(* ... and a start-bounded one *)
Definition start_entries (d : ldb) (p st : bytes) : list (bytes * bytes) :=
  filter (fun kv => has_prefix p (fst kv) && negb (blt (fst kv) st)) d.
Definition positioned (e : list (bytes * bytes)) : obs :=
  match e with
  | [] => OIter [] [] []
  | x :: r => OIter (fst x) (snd x) r
  end.

Lemma mem_iter_prefix_obs m d p : simdb m d ->
  mem_drain m (mem_iter_prefix m p) = OIter [] [] (prefix_entries d p).
Proof.
  intros S. unfold mem_iter_prefix. rewrite mem_drain_fresh. f_equal.
  rewrite (sorted_keys_agree m d (has_prefix p) S).
  rewrite (map_ext _ _ (mkv_lkv m d S)).
  apply entries_from_keys. apply ssorted_nodup, S.
Qed.

Lemma ldb_iter_prefix_obs d p : isbytes p -> Forall isbytes (map fst d) ->
  ldb_drain (ldb_iter_prefix d p) = OIter [] [] (prefix_entries d p).
Proof.
  intros Wp W. unfold ldb_iter_prefix, ldb_new_iter. rewrite ldb_drain_fresh.
  rewrite range_filter_prefix; auto.
Qed.

Lemma ldb_iter_all_obs d : ldb_drain (ldb_iter_all d) = OIter [] [] (prefix_entries d []).
Proof.
  unfold ldb_iter_all. rewrite ldb_drain_fresh. unfold prefix_entries. cbn [has_prefix].
  rewrite filter_all; auto.
Qed.

Lemma mem_iter_start_none_obs m d p : simdb m d ->
  mem_drain m (mem_iter_start m p None) = OIter [] [] (prefix_entries d p).
Proof.
  intros S. unfold mem_iter_start, mem_sorted_keys. rewrite mem_drain_fresh. f_equal.
  cbn [nonnil].
  rewrite (sorted_keys_agree m d (fun k => has_prefix p k && negb (blt k [])) S).
  rewrite (map_ext _ _ (mkv_lkv m d S)).
  rewrite (entries_from_keys d (fun k => has_prefix p k && negb (blt k [])));
    [|apply ssorted_nodup, S].
  unfold prefix_entries. apply filter_ext. intros [k v]. cbn [fst].
  assert (E : blt k [] = false) by (destruct k; reflexivity). rewrite E. apply andb_true_r.
Qed.

Lemma mem_iter_start_some_obs m d p st : simdb m d ->
  mem_drain m (mem_iter_start m p (Some st)) = positioned (start_entries d p st).
Proof.
  intros S. unfold mem_iter_start, mem_sorted_keys. cbn [nonnil].
  set (f := fun k => has_prefix p k && negb (blt k st)).
  rewrite (sorted_keys_agree m d f S).
  rewrite mem_drain_seek.
  2:{ intros k I. apply filter_In in I. destruct I as [_ I]. unfold f in I.
      apply andb_prop in I. rewrite ble_blt. tauto. }
  pose proof (entries_from_keys d f (ssorted_nodup _ (sd_sorted _ _ S))) as E.
  unfold start_entries. fold f in E. change (fun kv : bytes * bytes => has_prefix p (fst kv) && negb (blt (fst kv) st))
    with (fun kv : bytes * bytes => f (fst kv)).
  rewrite <- E. destruct (filter f (map fst d)) as [|k r]; cbn [map positioned]; [reflexivity|].
  unfold lkv at 1 2. cbn [fst snd]. unfold mem_get. rewrite (sd_lookup _ _ S).
  rewrite (map_ext _ _ (mkv_lkv m d S)). reflexivity.
Qed.

Lemma ldb_iter_start_some_obs d p st : isbytes p -> Forall isbytes (map fst d) -> ssorted (map fst d) ->
  ldb_drain (ldb_iter_start d p (Some st)) = positioned (start_entries d p st).
Proof.
  intros Wp W S. unfold ldb_iter_start, ldb_iter_prefix, ldb_new_iter.
  rewrite ldb_drain_seek. rewrite range_filter_prefix; auto.
  rewrite drop_below_filter.
  2:{ rewrite (keys_filter (has_prefix p)). apply ssorted_filter. exact S. }
  rewrite filter_filter. reflexivity.
Qed.

(* ---- one step, all steps ---------------------------------------------------------------- *)

Lemma step_sim ms ls o : sim ms ls -> op_wf o ->
  sim (fst (mem_step ms o)) (fst (ldb_step ls o)) /\ snd (mem_step ms o) = snd (ldb_step ls o).
Proof.
  intros [SD SB SW] W. destruct o as [k|sy k v|sy k| |k v|k| | |p|p s]; cbn [mem_step ldb_step fst snd].
  - split; [split; assumption|]. unfold mem_get, ldb_get. rewrite (sd_lookup _ _ SD). reflexivity.
  - split; [|reflexivity]. split; cbn; auto. apply simdb_set; assumption.
  - split; [|reflexivity]. split; cbn; auto. apply simdb_delete; assumption.
  - split; [|reflexivity]. split; cbn; auto.
  - split; [|reflexivity]. split; cbn [ms_db ls_db ms_batch ls_batch]; auto.
    + rewrite SB, map_app. reflexivity.
    + apply Forall_app. split; [assumption|]. constructor; [exact W|constructor].
  - split; [|reflexivity]. split; cbn [ms_db ls_db ms_batch ls_batch]; auto.
    + rewrite SB, map_app. reflexivity.
    + apply Forall_app. split; [assumption|]. constructor; [exact I|constructor].
  - split; [|reflexivity]. split; cbn [ms_db ls_db ms_batch ls_batch]; auto.
    rewrite SB. apply simdb_write; assumption.
  - split; [split; assumption|]. rewrite (mem_iter_prefix_obs _ _ [] SD), ldb_iter_all_obs. reflexivity.
  - split; [split; assumption|].
    rewrite (mem_iter_prefix_obs _ _ p SD), ldb_iter_prefix_obs; [reflexivity | exact W | apply SD].
  - split; [split; assumption|]. destruct s as [st|].
    + rewrite (mem_iter_start_some_obs _ _ p st SD), ldb_iter_start_some_obs;
        [reflexivity | exact W | apply SD | apply SD].
    + rewrite (mem_iter_start_none_obs _ _ p SD). unfold ldb_iter_start.
      rewrite ldb_iter_prefix_obs; [reflexivity | exact W | apply SD].
Qed.

Lemma run_sim : forall ops ms ls, sim ms ls -> Forall op_wf ops ->
  mem_run_from ms ops = ldb_run_from ls ops.
Proof.
  induction ops as [|o ops IH]; intros ms ls S W; cbn [mem_run_from ldb_run_from]; [reflexivity|].
  inversion W; subst. destruct (step_sim ms ls o S) as [S' E]; [assumption|].
  destruct (mem_step ms o) as [ms' ob]. destruct (ldb_step ls o) as [ls' ob'].
  cbn [fst snd] in *. subst ob'. f_equal. apply IH; assumption.
Qed.

(* THE EQUIVALENCE: for every operation sequence the two backends return the same results *)
Lemma equiv : forall ops, Forall op_wf ops -> mem_run ops = ldb_run ops.
Proof. intros ops W. apply run_sim; [apply sim_init | exact W]. Qed.

Lemma perm_filter {A} (f : A -> bool) l l' : Permutation l l' -> Permutation (filter f l) (filter f l').
Proof.
  induction 1 as [|x l l' P IH|x y l|l l' l'' P1 IH1 P2 IH2]; cbn.
  - constructor.
  - destruct (f x); [constructor|]; exact IH.
  - destruct (f x), (f y); try apply Permutation_refl. apply perm_swap.
  - eapply Permutation_trans; eassumption.
Qed.

(* the in-memory result does not depend on the order in which Go traverses the map *)
Lemma map_order_irrelevant : forall (m m' : mdb) f,
  NoDup (map fst m) -> Permutation m m' ->
  sort_strings (filter f (map fst m)) = sort_strings (filter f (map fst m')).
Proof.
  intros m m' f ND P. apply sort_strings_perm.
  - apply NoDup_filter. exact ND.
  - apply perm_filter. apply Permutation_map. exact P.
Qed.

(* ---- no panic, no fuel exhaustion --------------------------------------------------------- *)

Definition obs_ok (o : obs) : Prop := o <> OPanic /\ o <> OFuel.

Lemma positioned_ok e : obs_ok (positioned e).
Proof. destruct e; cbn; split; discriminate. Qed.

Lemma ldb_step_ok st o : obs_ok (snd (ldb_step st o)).
Proof.
  destruct o as [k|sy k v|sy k| |k v|k| | |p|p s]; cbn [ldb_step snd]; try (split; discriminate).
  - rewrite ldb_iter_all_obs. split; discriminate.
  - unfold ldb_iter_prefix, ldb_new_iter. rewrite ldb_drain_fresh. split; discriminate.
  - destruct s as [st'|]; unfold ldb_iter_start, ldb_iter_prefix, ldb_new_iter.
    + rewrite ldb_drain_seek. apply (positioned_ok (drop_below st' _)).
    + rewrite ldb_drain_fresh. split; discriminate.
Qed.

Lemma ldb_run_ok : forall ops st, Forall obs_ok (ldb_run_from st ops).
Proof.
  induction ops as [|o ops IH]; intros st; cbn [ldb_run_from]; [constructor|].
  pose proof (ldb_step_ok st o) as K. destruct (ldb_step st o) as [st' ob]. constructor; [exact K | apply IH].
Qed.

Lemma no_panic : forall ops, Forall op_wf ops ->
  Forall obs_ok (mem_run ops) /\ Forall obs_ok (ldb_run ops).
Proof. intros ops W. rewrite (equiv ops W). split; apply ldb_run_ok. Qed.

(* ---- both backends refine the abstract map ------------------------------------------------ *)

(* the abstract store: a partial function from keys to (non-nil) values, and the pending batch *)
Definition amap := bytes -> option bytes.
Definition a_set (f : amap) (k v : bytes) : amap := fun x => if beq k x then Some v else f x.
Definition a_del (f : amap) (k : bytes) : amap := fun x => if beq k x then None else f x.
Definition a_apply (f : amap) (o : bop) : amap :=
  match o with BOSet k v => a_set f k (nonnil v) | BODel k => a_del f k end.
Definition a_step (st : amap * list bop) (o : op) : amap * list bop :=
  match o with
  | Put _ k v => (a_set (fst st) k (nonnil v), snd st)
  | Del _ k => (a_del (fst st) k, snd st)
  | BNew => (fst st, [])
  | BSet k v => (fst st, snd st ++ [BOSet k v])
  | BDel k => (fst st, snd st ++ [BODel k])
  | BWrite => (fold_left a_apply (snd st) (fst st), snd st)
  | _ => st
  end.
Definition a_run (ops : list op) : amap * list bop := fold_left a_step ops (fun _ => None, []).

Definition mem_state (ops : list op) : mstate := fold_left (fun st o => fst (mem_step st o)) ops mem_init.
Definition ldb_state (ops : list op) : lstate := fold_left (fun st o => fst (ldb_step st o)) ops ldb_init.

Definition mrefines (a : amap * list bop) (ms : mstate) : Prop :=
  (forall k, mem_get (ms_db ms) k = fst a k) /\ ms_batch ms = snd a.
Definition lrefines (a : amap * list bop) (ls : lstate) : Prop :=
  (forall k, ldb_get (ls_db ls) k = fst a k) /\ ls_batch ls = map conv (snd a).

Lemma mem_write_refines : forall b m f, (forall k, mem_get m k = f k) ->
  forall k, mem_get (mem_write m b) k = fold_left a_apply b f k.
Proof.
  induction b as [|o b IH]; intros m f H k; cbn; [apply H|].
  apply IH. intros x. destruct o as [k' v|k']; cbn; unfold mem_get, mem_set, mem_delete, a_set, a_del.
  - cbn [mlookup]. rewrite mlookup_remove, (beq_sym x k'). destruct (beq k' x); [reflexivity|apply H].
  - rewrite mlookup_remove. destruct (beq k' x); [reflexivity|apply H].
Qed.

Lemma ldb_write_refines : forall b d f, (forall k, ldb_get d k = f k) ->
  forall k, ldb_get (ldb_write d (map conv b)) k = fold_left a_apply b f k.
Proof.
  induction b as [|o b IH]; intros d f H k; cbn; [apply H|].
  apply IH. intros x. destruct o as [k' v|k']; cbn; unfold ldb_get, ldb_del, a_set, a_del.
  - rewrite ldb_put_lookup. destruct (beq k' x); [reflexivity|apply H].
  - rewrite mlookup_remove. destruct (beq k' x); [reflexivity|apply H].
Qed.

Lemma mem_step_refines a ms o : mrefines a ms -> mrefines (a_step a o) (fst (mem_step ms o)).
Proof.
  intros [H B]. destruct o as [k|sy k v|sy k| |k v|k| | |p|p s]; cbn [mem_step a_step fst snd];
    try (split; assumption); split; cbn [ms_db ms_batch fst snd]; try assumption; try reflexivity;
    try (rewrite B; reflexivity).
  - intros x. unfold mem_get, mem_set, a_set. cbn [mlookup]. rewrite mlookup_remove, (beq_sym x k).
    destruct (beq k x); [reflexivity|apply H].
  - intros x. unfold mem_get, mem_delete, a_del. rewrite mlookup_remove.
    destruct (beq k x); [reflexivity|apply H].
  - intros x. rewrite B. apply mem_write_refines. exact H.
Qed.

Lemma ldb_step_refines a ls o : lrefines a ls -> lrefines (a_step a o) (fst (ldb_step ls o)).
Proof.
  intros [H B]. destruct o as [k|sy k v|sy k| |k v|k| | |p|p s]; cbn [ldb_step a_step fst snd];
    try (split; assumption); split; cbn [ls_db ls_batch fst snd]; try assumption; try reflexivity;
    try (rewrite B, map_app; reflexivity).
  - intros x. unfold ldb_get, a_set. rewrite ldb_put_lookup.
    destruct (beq k x); [reflexivity|apply H].
  - intros x. unfold ldb_get, ldb_del, a_del. rewrite mlookup_remove.
    destruct (beq k x); [reflexivity|apply H].
  - intros x. rewrite B. apply ldb_write_refines. exact H.
Qed.

Lemma refines_run : forall ops a ms ls, mrefines a ms -> lrefines a ls ->
  mrefines (fold_left a_step ops a) (fold_left (fun st o => fst (mem_step st o)) ops ms) /\
  lrefines (fold_left a_step ops a) (fold_left (fun st o => fst (ldb_step st o)) ops ls).
Proof.
  induction ops as [|o ops IH]; intros a ms ls HM HL; cbn [fold_left]; [split; assumption|].
  apply IH; [apply mem_step_refines | apply ldb_step_refines]; assumption.
Qed.

(* after any operation sequence a Get on either backend returns the abstract map's value *)
Lemma refines_map : forall ops k,
  mem_get (ms_db (mem_state ops)) k = fst (a_run ops) k /\
  ldb_get (ls_db (ldb_state ops)) k = fst (a_run ops) k.
Proof.
  intros ops k. destruct (refines_run ops (fun _ => None, []) mem_init ldb_init) as [[HM _] [HL _]].
  - split; reflexivity.
  - split; reflexivity.
  - split; [apply HM | apply HL].
Qed.

(* the states reached by a run are related by the simulation *)
Lemma sim_states : forall ops, Forall op_wf ops -> sim (mem_state ops) (ldb_state ops).
Proof.
  intros ops. unfold mem_state, ldb_state. generalize sim_init. generalize mem_init, ldb_init.
  induction ops as [|o ops IH]; intros ms ls S W; cbn [fold_left]; [exact S|].
  inversion W; subst. apply IH; [|assumption]. apply step_sim; assumption.
Qed.

Lemma run_from_app_last : forall ops st o d,
  nth (length ops) (ldb_run_from st (ops ++ [o])) d
  = snd (ldb_step (fold_left (fun st o => fst (ldb_step st o)) ops st) o).
Proof.
  induction ops as [|a ops IH]; intros st o d; cbn [app ldb_run_from length fold_left].
  - destruct (ldb_step st o); reflexivity.
  - specialize (IH (fst (ldb_step st a)) o d). destruct (ldb_step st a) as [st' ob]. cbn [nth fst] in *. exact IH.
Qed.

(* ---- what an iteration returns, in terms of the abstract map -------------------------------- *)

(* the entries e are exactly the bindings of the map that satisfy sel, in key order *)
Definition lists_selected (f : amap) (sel : bytes -> bool) (e : list (bytes * bytes)) : Prop :=
  ssorted (map fst e) /\
  forall k v, In (k, v) e <-> (sel k = true /\ f k = Some v).

Lemma filter_lists_selected (d : ldb) (f : amap) sel :
  ssorted (map fst d) -> (forall k, mlookup d k = f k) ->
  lists_selected f sel (filter (fun kv => sel (fst kv)) d).
Proof.
  intros S H. split.
  - rewrite (keys_filter sel). apply ssorted_filter. exact S.
  - intros k v. rewrite filter_In. cbn [fst]. rewrite <- H. split.
    + intros [I E]. split; [exact E|]. apply lookup_in_nodup; [apply ssorted_nodup; exact S | exact I].
    + intros [E L]. split; [|exact E]. clear - L. induction d as [|[k' v'] d IH]; cbn in *; [discriminate|].
      destruct (beq k k') eqn:B.
      * apply beq_true in B. inversion L; subst. left; reflexivity.
      * right. apply IH. exact L.
Qed.

(* the observation of the last operation of a run *)
Definition last_obs (ops : list op) (o : op) : obs := nth (length ops) (ldb_run (ops ++ [o])) ODone.

Lemma iter_prefix_spec ops p : Forall op_wf ops -> isbytes p ->
  exists e, last_obs ops (IterPrefix p) = OIter [] [] e /\
            lists_selected (fst (a_run ops)) (has_prefix p) e.
Proof.
  intros W Wp. unfold last_obs, ldb_run. rewrite run_from_app_last. cbn [ldb_step snd].
  fold (ldb_state ops). pose proof (sim_states ops W) as [SD _ _].
  rewrite ldb_iter_prefix_obs; [|exact Wp|apply SD].
  eexists. split; [reflexivity|]. apply filter_lists_selected; [apply SD|].
  intros k. apply (proj2 (refines_map ops k)).
Qed.

Lemma iter_start_spec ops p st : Forall op_wf ops -> isbytes p ->
  exists e, last_obs ops (IterStart p (Some st)) = positioned e /\
            lists_selected (fst (a_run ops)) (fun k => has_prefix p k && ble st k) e.
Proof.
  intros W Wp. unfold last_obs, ldb_run. rewrite run_from_app_last. cbn [ldb_step snd].
  fold (ldb_state ops). pose proof (sim_states ops W) as [SD _ _].
  rewrite ldb_iter_start_some_obs; [|exact Wp|apply SD|apply SD].
  eexists. split; [reflexivity|]. unfold start_entries.
  assert (E : forall kv : bytes * bytes, has_prefix p (fst kv) && negb (blt (fst kv) st)
                = (fun k => has_prefix p k && ble st k) (fst kv)).
  { intros kv. cbn beta. rewrite ble_blt. reflexivity. }
  rewrite (filter_ext _ _ E).
  apply (filter_lists_selected (ls_db (ldb_state ops)) (fst (a_run ops)) (fun k => has_prefix p k && ble st k)); [apply SD|].
  intros k. apply (proj2 (refines_map ops k)).
Qed.

(* a nil start is plain prefix iteration; Iterator() is iteration over the empty prefix *)
Lemma iter_start_none ops p : last_obs ops (IterStart p None) = last_obs ops (IterPrefix p).
Proof. unfold last_obs, ldb_run. rewrite !run_from_app_last. reflexivity. Qed.

Lemma iter_all_is_prefix ops : Forall op_wf ops -> last_obs ops IterAll = last_obs ops (IterPrefix []).
Proof.
  intros W. unfold last_obs, ldb_run. rewrite !run_from_app_last. cbn [ldb_step snd].
  fold (ldb_state ops). pose proof (sim_states ops W) as [SD _ _].
  rewrite ldb_iter_all_obs, ldb_iter_prefix_obs; [reflexivity | constructor | apply SD].
Qed.

(* ---- the hypotheses are satisfiable, the model computes, the old defects are real ---------- *)

Open Scope N_scope.

Definition ex_ops : list op :=
  [ Put false [97;49] (Some [1]); Put false [97;50] (Some [2]); Put true [98;49] None;
    BSet [97;255] (Some []); BSet [97;255;255] (Some [7]); BDel [97;49]; BWrite;
    Get [98;49]; Get [97;49];
    IterPrefix [97]; IterPrefix [97;255];
    IterStart [97] (Some [97;50]); IterStart [97] (Some [98]); IterStart [98] (Some [97;49]);
    IterStart [97] None; IterAll ].

Example ex_wf : Forall op_wf ex_ops.
Proof. repeat constructor. Qed.

Example ex_run : ldb_run ex_ops =
  [ ODone; ODone; ODone; ODone; ODone; ODone; ODone;
    OGet (Some []); OGet None;
    OIter [] [] [([97;50],[2]); ([97;255],[]); ([97;255;255],[7])];
    OIter [] [] [([97;255],[]); ([97;255;255],[7])];
    OIter [97;50] [2] [([97;255],[]); ([97;255;255],[7])];
    OIter [] [] [];
    OIter [98;49] [] [];
    OIter [] [] [([97;50],[2]); ([97;255],[]); ([97;255;255],[7])];
    OIter [] [] [([97;50],[2]); ([97;255],[]); ([97;255;255],[7]); ([98;49],[])] ].
Proof. vm_compute. reflexivity. Qed.

Example ex_run_mem : mem_run ex_ops = ldb_run ex_ops.
Proof. vm_compute. reflexivity. Qed.

(* the memory backend of the pinned tree: prefix "a", start "a2" on {a1, a2, b1} yields b1 *)
Example legacy_ignores_prefix :
  let m : mdb := [([98;49],[3]); ([97;50],[2]); ([97;49],[1])] in
  legacy_drain m (legacy_iter_start m (Some [97;50])) = OIter [97;50] [2] [([98;49],[3])] /\
  mem_drain m (mem_iter_start m [97] (Some [97;50])) = OIter [97;50] [2] [].
Proof. vm_compute. split; reflexivity. Qed.

(* ... and Value() of an unpositioned iterator was the value of the empty key *)
Example legacy_value_of_empty_key :
  let m : mdb := [([],[9]); ([97],[1])] in
  legacy_drain m (mem_iter_prefix m [97]) = OIter [] [9] [([97],[1])] /\
  mem_drain m (mem_iter_prefix m [97]) = OIter [] [] [([97],[1])].
Proof. vm_compute. split; reflexivity. Qed.

(* byte strings are needed: with a "byte" above 255 the range of BytesPrefix is not the prefix set *)
Example range_needs_bytes :
  in_range [97;255] (prefix_limit [97;255]) [97;300] = true /\ has_prefix [97;255] [97;300] = false.
Proof. vm_compute. split; reflexivity. Qed.
