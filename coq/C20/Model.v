(* C20 — storage backends are interchangeable.  EXECUTABLE MODEL ONLY (no proofs).

   Two implementations of the dbm.DB / Batch / Iterator interface of
   database/leveldb/db.go:

   mem_*   mirrors database/leveldb/mem_db.go (with the repair of this round: the
           start-bounded iterator filters by prefix, a nil value is stored as an empty
           one, Value() of an unpositioned iterator is empty like Key()).  The Go map is
           an association list with distinct keys in ARBITRARY order (the model conses new
           keys in front); every iteration collects the matching keys and sorts them
           (sort.Strings), exactly as the code does.  The iterator is the code's
           (keys, last) pair with last : int, Seek is the linear scan of the code.

   ldb_*   is goleveldb as its documentation specifies it, behind the thin wrapper
           go_level_db.go: an ordered map (strictly sorted list); Put copies the value
           (nil becomes empty), Get returns a copy (never nil for a present key);
           NewIterator(util.BytesPrefix(p)) ranges over [p, limit p) where limit p is p
           with its last non-0xff byte incremented and everything after it cut off (no
           upper limit when p is all 0xff); the iterator is before the first entry until
           Next/Seek; Seek moves to the first entry >= the key inside the range; Key/Value
           are nil when the iterator is not on an entry.  goleveldb is third-party: it
           is specified here, not verified; the correspondence runs the real library.

   A byte is an N below 256; byte strings are [list N] ([bytes] of Verif.Cmp); a Go
   []byte argument that may be nil is [val = option bytes] (None = nil).  Go string
   comparison, bytes.Compare and goleveldb's default comparer are all the
   lexicographic byte order [bcmp].

   Observables (what a caller of dbm.DB can see, and what the harness records):
     Get          nil (absent) or the bytes (present, possibly empty);
     an iteration Key() and Value() of the fresh iterator (for the start-bounded iterator
                  this is the entry Seek positioned it on — store_checkpoint.go reads
                  iter.Value() there), then Key()/Value() after every successful Next().
                  Iterator keys and values are compared as contents (nil = empty).
   Key()/Value() after Next() has returned false are not observed (the interface leaves
   them open; the two backends differ there), iterations are atomic operations (no write
   between creating an iterator and draining it), only forward iteration is modelled. *)
From Coq Require Import List NArith ZArith Bool.
From Verif Require Import Cmp.
Import ListNotations.

(* ---- byte strings ------------------------------------------------------- *)

(* bytes.Compare / Go string comparison *)
Fixpoint bcmp (a b : bytes) : comparison :=
  match a, b with
  | [], [] => Eq
  | [], _ :: _ => Lt
  | _ :: _, [] => Gt
  | x :: a', y :: b' =>
      match N.compare x y with
      | Eq => bcmp a' b'
      | c => c
      end
  end.
Definition blt (a b : bytes) : bool := match bcmp a b with Lt => true | _ => false end.
Definition ble (a b : bytes) : bool := match bcmp a b with Gt => false | _ => true end.
Definition beq (a b : bytes) : bool := match bcmp a b with Eq => true | _ => false end.

(* strings.HasPrefix(k, p) *)
Fixpoint has_prefix (p k : bytes) : bool :=
  match p, k with
  | [], _ => true
  | _ :: _, [] => false
  | x :: p', y :: k' => N.eqb x y && has_prefix p' k'
  end.

Definition val := option bytes.            (* a Go []byte that may be nil *)
Definition nonnil (v : val) : bytes :=      (* its contents *)
  match v with Some b => b | None => [] end.

(* ---- operations and observations --------------------------------------- *)

Inductive op :=
| Get (k : bytes)
| Put (sync : bool) (k : bytes) (v : val)   (* Set / SetSync *)
| Del (sync : bool) (k : bytes)             (* Delete / DeleteSync *)
| BNew                                      (* NewBatch: a fresh current batch *)
| BSet (k : bytes) (v : val)                (* Set on the current batch *)
| BDel (k : bytes)                          (* Delete on the current batch *)
| BWrite                                    (* Write of the current batch (may be repeated) *)
| IterAll                                   (* Iterator() *)
| IterPrefix (p : bytes)                    (* IteratorPrefix(p) *)
| IterStart (p : bytes) (s : val).          (* IteratorPrefixWithStart(p, s, false) *)

Inductive obs :=
| ODone                                               (* a write: nothing returned *)
| OGet (v : val)
| OIter (k0 v0 : bytes) (items : list (bytes * bytes))
| OPanic                                              (* the Go code would panic *)
| OFuel.                                              (* model ran out of fuel (never: Proofs) *)

(* ---- draining an iterator: the loop of every caller ---------------------
     k0 := it.Key(); v0 := it.Value(); for it.Next() { it.Key(), it.Value() }
   [key]/[value] return None where the Go code would panic. *)
Inductive walk := WOk (items : list (bytes * bytes)) | WPanic | WFuel.

Section Drive.
  Context {I : Type}.
  Variable next : I -> bool * I.
  Variable key value : I -> option bytes.

  Fixpoint collect (fuel : nat) (it : I) : walk :=
    match fuel with
    | O => WFuel
    | S f =>
        let (more, it') := next it in
        if more then
          match key it', value it' with
          | Some k, Some v =>
              match collect f it' with
              | WOk l => WOk ((k, v) :: l)
              | w => w
              end
          | _, _ => WPanic
          end
        else WOk []
    end.

  Definition drive (fuel : nat) (it : I) : obs :=
    match key it, value it with
    | Some k0, Some v0 =>
        match collect fuel it with
        | WOk l => OIter k0 v0 l
        | WPanic => OPanic
        | WFuel => OFuel
        end
    | _, _ => OPanic
    end.
End Drive.

(* ======================================================================= *)
(* memdb: database/leveldb/mem_db.go                                        *)
(* ======================================================================= *)

Definition mdb := list (bytes * bytes).      (* map[string][]byte *)

Fixpoint mlookup (m : mdb) (k : bytes) : option bytes :=
  match m with
  | [] => None
  | (k', v) :: r => if beq k k' then Some v else mlookup r k
  end.
Definition mremove (m : mdb) (k : bytes) : mdb :=
  filter (fun kv => negb (beq k (fst kv))) m.

(* Get: db.db[string(key)] — the zero value nil when absent *)
Definition mem_get (m : mdb) (k : bytes) : val := mlookup m k.
(* Set/SetSync: db.db[string(key)] = nonNilBytes(value) *)
Definition mem_set (m : mdb) (k : bytes) (v : val) : mdb := (k, nonnil v) :: mremove m k.
(* Delete/DeleteSync: delete(db.db, string(key)) *)
Definition mem_delete (m : mdb) (k : bytes) : mdb := mremove m k.

(* memDBBatch: the recorded operations, replayed in order by Write *)
Inductive bop := BOSet (k : bytes) (v : val) | BODel (k : bytes).
Definition mem_apply (m : mdb) (o : bop) : mdb :=
  match o with
  | BOSet k v => mem_set m k v
  | BODel k => mem_delete m k
  end.
Definition mem_write (m : mdb) (ops : list bop) : mdb := fold_left mem_apply ops m.

(* sort.Strings *)
Fixpoint insert_sorted (k : bytes) (l : list bytes) : list bytes :=
  match l with
  | [] => [k]
  | x :: r => if ble k x then k :: l else x :: insert_sorted k r
  end.
Definition sort_strings (l : list bytes) : list bytes := fold_right insert_sorted [] l.

(* memDBIterator *)
Record miter := mkMiter { mi_keys : list bytes; mi_last : Z }.

(* Seek: for i, key := range it.keys { if key >= point { it.last = i; return true } } *)
Fixpoint seek_index (keys : list bytes) (point : bytes) (i : Z) : option Z :=
  match keys with
  | [] => None
  | k :: r => if ble point k then Some i else seek_index r point (i + 1)
  end.
Definition mi_seek (it : miter) (point : bytes) : miter :=
  match seek_index (mi_keys it) point 0 with
  | Some i => mkMiter (mi_keys it) i
  | None => it
  end.
(* Next: if it.last >= len(it.keys)-1 { return false }; it.last++ *)
Definition mi_next (it : miter) : bool * miter :=
  if (mi_last it >=? Z.of_nat (length (mi_keys it)) - 1)%Z then (false, it)
  else (true, mkMiter (mi_keys it) (mi_last it + 1)).
(* Key: "" when last < 0, else it.keys[it.last] (index panic when out of range) *)
Definition mi_key (it : miter) : option bytes :=
  if (mi_last it <? 0)%Z then Some [] else nth_error (mi_keys it) (Z.to_nat (mi_last it)).
(* Value: "" when last < 0, else it.db.Get(it.Key()); contents only *)
Definition mi_value (m : mdb) (it : miter) : option bytes :=
  if (mi_last it <? 0)%Z then Some []
  else match mi_key it with
       | Some k => Some (nonnil (mem_get m k))
       | None => None
       end.

(* IteratorPrefix: the keys with the prefix, sorted; last = -1 *)
Definition mem_iter_prefix (m : mdb) (p : bytes) : miter :=
  mkMiter (sort_strings (filter (has_prefix p) (map fst m))) (-1).
(* getSortedKeys(prefix, start, false): keys with the prefix that are not below start
   (bytes.Compare with a nil start: nothing is below it) *)
Definition mem_sorted_keys (m : mdb) (p : bytes) (s : val) : list bytes :=
  sort_strings (filter (fun k => has_prefix p k && negb (blt k (nonnil s))) (map fst m)).
(* IteratorPrefixWithStart + newMemDBIteratorWithArgs: Seek(start) when start != nil *)
Definition mem_iter_start (m : mdb) (p : bytes) (s : val) : miter :=
  let it := mkMiter (mem_sorted_keys m p s) (-1) in
  match s with
  | Some st => mi_seek it st
  | None => it
  end.

Definition mem_drain (m : mdb) (it : miter) : obs :=
  drive mi_next mi_key (mi_value m) (S (length (mi_keys it))) it.

Record mstate := mkM { ms_db : mdb; ms_batch : list bop }.
Definition mem_init : mstate := mkM [] [].

Definition mem_step (st : mstate) (o : op) : mstate * obs :=
  match o with
  | Get k => (st, OGet (mem_get (ms_db st) k))
  | Put _ k v => (mkM (mem_set (ms_db st) k v) (ms_batch st), ODone)
  | Del _ k => (mkM (mem_delete (ms_db st) k) (ms_batch st), ODone)
  | BNew => (mkM (ms_db st) [], ODone)
  | BSet k v => (mkM (ms_db st) (ms_batch st ++ [BOSet k v]), ODone)
  | BDel k => (mkM (ms_db st) (ms_batch st ++ [BODel k]), ODone)
  | BWrite => (mkM (mem_write (ms_db st) (ms_batch st)) (ms_batch st), ODone)
  | IterAll => (st, mem_drain (ms_db st) (mem_iter_prefix (ms_db st) []))
  | IterPrefix p => (st, mem_drain (ms_db st) (mem_iter_prefix (ms_db st) p))
  | IterStart p s => (st, mem_drain (ms_db st) (mem_iter_start (ms_db st) p s))
  end.

Fixpoint mem_run_from (st : mstate) (ops : list op) : list obs :=
  match ops with
  | [] => []
  | o :: r => let (st', ob) := mem_step st o in ob :: mem_run_from st' r
  end.
Definition mem_run (ops : list op) : list obs := mem_run_from mem_init ops.

(* ======================================================================= *)
(* goleveldb behind database/leveldb/go_level_db.go                         *)
(* ======================================================================= *)

Definition ldb := list (bytes * bytes).      (* ordered map: strictly sorted by key *)

Definition ldb_get (d : ldb) (k : bytes) : val := mlookup d k.
Fixpoint ldb_put (d : ldb) (k v : bytes) : ldb :=
  match d with
  | [] => [(k, v)]
  | (k', v') :: r =>
      match bcmp k k' with
      | Lt => (k, v) :: d
      | Eq => (k, v) :: r
      | Gt => (k', v') :: ldb_put r k v
      end
  end.
Definition ldb_del (d : ldb) (k : bytes) : ldb := mremove d k.

(* leveldb.Batch: records with copied keys/values, replayed in order by DB.Write *)
Inductive lrec := LPut (k v : bytes) | LDel (k : bytes).
Definition ldb_apply (d : ldb) (r : lrec) : ldb :=
  match r with
  | LPut k v => ldb_put d k v
  | LDel k => ldb_del d k
  end.
Definition ldb_write (d : ldb) (b : list lrec) : ldb := fold_left ldb_apply b d.

(* util.BytesPrefix(p).Limit: scanning from the end, the first byte below 0xff is
   incremented and the rest dropped; nil (no limit) when there is none *)
Fixpoint prefix_limit (p : bytes) : option bytes :=
  match p with
  | [] => None
  | c :: r =>
      match prefix_limit r with
      | Some l => Some (c :: l)
      | None => if (c <? 255)%N then Some [(c + 1)%N] else None
      end
  end.
(* util.Range{Start, Limit}: Start <= key < Limit (Limit nil: unbounded) *)
Definition in_range (start : bytes) (limit : option bytes) (k : bytes) : bool :=
  ble start k && match limit with Some l => blt k l | None => true end.

(* iterator.Iterator of DB.NewIterator(slice, nil): a snapshot of the entries in the range *)
Inductive ldir := SOI | EOI | FWD.
Record liter := mkLiter {
  li_all : list (bytes * bytes);
  li_dir : ldir;
  li_cur : option (bytes * bytes);
  li_rest : list (bytes * bytes) }.

Definition li_enter (all l : list (bytes * bytes)) : bool * liter :=
  match l with
  | [] => (false, mkLiter all EOI None [])
  | x :: r => (true, mkLiter all FWD (Some x) r)
  end.
Definition li_next (it : liter) : bool * liter :=
  match li_dir it with
  | EOI => (false, it)
  | SOI => li_enter (li_all it) (li_all it)
  | FWD => li_enter (li_all it) (li_rest it)
  end.
Fixpoint drop_below (key : bytes) (l : list (bytes * bytes)) : list (bytes * bytes) :=
  match l with
  | [] => []
  | x :: r => if blt (fst x) key then drop_below key r else l
  end.
Definition li_seek (it : liter) (key : bytes) : bool * liter :=
  li_enter (li_all it) (drop_below key (li_all it)).
(* goLevelDBIterator.Key/Value: a copy of source.Key()/Value(), nil (empty) off an entry *)
Definition li_key (it : liter) : option bytes :=
  Some (match li_cur it with Some kv => fst kv | None => [] end).
Definition li_value (it : liter) : option bytes :=
  Some (match li_cur it with Some kv => snd kv | None => [] end).

Definition ldb_new_iter (d : ldb) (start : bytes) (limit : option bytes) : liter :=
  mkLiter (filter (fun kv => in_range start limit (fst kv)) d) SOI None [].
(* Iterator(): NewIterator(nil, nil) *)
Definition ldb_iter_all (d : ldb) : liter := mkLiter d SOI None [].
(* IteratorPrefix(p): NewIterator(util.BytesPrefix(p), nil) *)
Definition ldb_iter_prefix (d : ldb) (p : bytes) : liter :=
  ldb_new_iter d p (prefix_limit p).
(* IteratorPrefixWithStart(p, s, false) + newGoLevelDBIterator: Seek(s) when s != nil *)
Definition ldb_iter_start (d : ldb) (p : bytes) (s : val) : liter :=
  let it := ldb_iter_prefix d p in
  match s with
  | Some st => snd (li_seek it st)
  | None => it
  end.

Definition ldb_drain (it : liter) : obs :=
  drive li_next li_key li_value (S (length (li_all it))) it.

Record lstate := mkL { ls_db : ldb; ls_batch : list lrec }.
Definition ldb_init : lstate := mkL [] [].

Definition ldb_step (st : lstate) (o : op) : lstate * obs :=
  match o with
  | Get k => (st, OGet (ldb_get (ls_db st) k))
  | Put _ k v => (mkL (ldb_put (ls_db st) k (nonnil v)) (ls_batch st), ODone)
  | Del _ k => (mkL (ldb_del (ls_db st) k) (ls_batch st), ODone)
  | BNew => (mkL (ls_db st) [], ODone)
  | BSet k v => (mkL (ls_db st) (ls_batch st ++ [LPut k (nonnil v)]), ODone)
  | BDel k => (mkL (ls_db st) (ls_batch st ++ [LDel k]), ODone)
  | BWrite => (mkL (ldb_write (ls_db st) (ls_batch st)) (ls_batch st), ODone)
  | IterAll => (st, ldb_drain (ldb_iter_all (ls_db st)))
  | IterPrefix p => (st, ldb_drain (ldb_iter_prefix (ls_db st) p))
  | IterStart p s => (st, ldb_drain (ldb_iter_start (ls_db st) p s))
  end.

Fixpoint ldb_run_from (st : lstate) (ops : list op) : list obs :=
  match ops with
  | [] => []
  | o :: r => let (st', ob) := ldb_step st o in ob :: ldb_run_from st' r
  end.
Definition ldb_run (ops : list op) : list obs := ldb_run_from ldb_init ops.

(* ---- the iterators of the memory backend of the pinned tree (before the repair), kept for
   the record: IteratorPrefixWithStart ignored the prefix and Value() of an unpositioned
   iterator was Get("").  Proofs.v shows the witnesses on which they differ from the repaired
   code.  (The third repaired difference — Set stored a nil value as nil, so that Get reported
   the key as absent — needs no model: [mem_set] stores [nonnil v].) *)
Definition legacy_sorted_keys (m : mdb) (s : val) : list bytes :=
  sort_strings (filter (fun k => negb (blt k (nonnil s))) (map fst m)).
Definition legacy_iter_start (m : mdb) (s : val) : miter :=
  let it := mkMiter (legacy_sorted_keys m s) (-1) in
  match s with Some st => mi_seek it st | None => it end.
Definition legacy_value (m : mdb) (it : miter) : option bytes :=
  match mi_key it with Some k => Some (nonnil (mem_get m k)) | None => None end.
Definition legacy_drain (m : mdb) (it : miter) : obs :=
  drive mi_next mi_key (legacy_value m) (S (length (mi_keys it))) it.
