(* C20 — Storage backends are interchangeable.  PROPERTY THEOREMS ONLY.

   Model (C20/Model.v): two executable implementations of the dbm.DB / Batch / Iterator
   interface of database/leveldb/db.go, run on operation sequences:
     mem_run   mirrors mem_db.go (Go map = association list in arbitrary order; every
               iterator collects, filters and SORTS the keys; (keys, last) iterator with
               the code's Seek / Next / Key / Value);
     ldb_run   goleveldb as documented behind go_level_db.go (ordered map; range of
               util.BytesPrefix; snapshot iterator with Seek inside the range; copies).
   An operation sequence is any list of
     Get k | Put sync k v | Del sync k | BNew | BSet k v | BDel k | BWrite
     | IterAll | IterPrefix p | IterStart p s
   (values and the start may be nil; a batch may mix sets and deletes of the same key and be
   written several times; an iteration observes Key()/Value() of the fresh iterator — the
   entry Seek positioned it on — and Key()/Value() after every successful Next()).

   Vocabulary (C20/Order.v, C20/Proofs.v):
     isbytes l       every element of l is below 256;
     op_wf o         the keys that o stores and the prefix o iterates over are byte strings
                     (nothing is asked of looked-up/deleted keys, values, start keys);
     obs_ok o        o is neither a Go panic nor the model's out-of-fuel marker;
     a_run ops       the abstract store after ops: a partial function key -> value plus
                     the pending batch;
     last_obs ops o  what operation o returns when issued after ops (LevelDB model; equal
                     to the memory backend's by c20_equiv);
     lists_selected f sel e   e is sorted strictly by key and contains exactly the bindings
                     (k, v) of f with sel k;
     positioned e    the observation of an iterator that Seek placed on the first entry of
                     e (Key/Value = that entry, the following Next()s yield the rest), or
                     on nothing when e is empty. *)
From Coq Require Import List NArith ZArith Bool Permutation.
From Verif Require Import Cmp.
From C20 Require Import Model Order Proofs.
Import ListNotations.

(* THE PROPERTY: for every operation sequence the in-memory and the LevelDB backend return
   identical results *)
Theorem c20_equiv : forall ops, Forall op_wf ops -> mem_run ops = ldb_run ops.
Proof. exact equiv. Qed.
Print Assumptions c20_equiv.

(* ... and none of the operations panics on either backend (nor does the model run out of
   fuel, so the equality above is about real results) *)
Theorem c20_no_panic : forall ops, Forall op_wf ops ->
  Forall obs_ok (mem_run ops) /\ Forall obs_ok (ldb_run ops).
Proof. exact no_panic. Qed.
Print Assumptions c20_no_panic.

(* both backends refine the abstract map for get / set / delete / batch: after any sequence,
   Get returns the abstract store's binding (nil when there is none; a stored nil or empty
   value is a binding to the empty string, not an absence) *)
Theorem c20_refines_map : forall ops k,
  mem_get (ms_db (mem_state ops)) k = fst (a_run ops) k /\
  ldb_get (ls_db (ldb_state ops)) k = fst (a_run ops) k.
Proof. exact refines_map. Qed.
Print Assumptions c20_refines_map.

(* prefix iteration yields exactly the bindings whose key has the prefix, sorted by key; the
   fresh iterator is on no entry (empty Key/Value) *)
Theorem c20_prefix_iteration : forall ops p, Forall op_wf ops -> isbytes p ->
  exists e, last_obs ops (IterPrefix p) = OIter [] [] e /\
            lists_selected (fst (a_run ops)) (has_prefix p) e.
Proof. exact iter_prefix_spec. Qed.
Print Assumptions c20_prefix_iteration.

(* start-bounded forward iteration is positioned on the first binding with the prefix whose key
   is >= start and continues with the following ones — wherever start lies: before, inside or
   after the prefix range; nothing outside the prefix is ever returned *)
Theorem c20_start_iteration : forall ops p st, Forall op_wf ops -> isbytes p ->
  exists e, last_obs ops (IterStart p (Some st)) = positioned e /\
            lists_selected (fst (a_run ops)) (fun k => has_prefix p k && ble st k) e.
Proof. exact iter_start_spec. Qed.
Print Assumptions c20_start_iteration.

(* a nil start is plain prefix iteration, Iterator() is iteration over the empty prefix *)
Theorem c20_start_nil : forall ops p,
  last_obs ops (IterStart p None) = last_obs ops (IterPrefix p).
Proof. exact iter_start_none. Qed.
Print Assumptions c20_start_nil.

Theorem c20_iter_all : forall ops, Forall op_wf ops ->
  last_obs ops IterAll = last_obs ops (IterPrefix []).
Proof. exact iter_all_is_prefix. Qed.
Print Assumptions c20_iter_all.

(* the key range of util.BytesPrefix(p) — [p, p with its last non-0xff byte incremented) —
   is exactly the set of byte strings with prefix p (also for p = "a\xff", "\xff\xff", "") *)
Theorem c20_range_is_prefix : forall p k, isbytes p -> isbytes k ->
  in_range p (prefix_limit p) k = has_prefix p k.
Proof. exact in_range_prefix. Qed.
Print Assumptions c20_range_is_prefix.

(* what the memory backend iterates over does not depend on Go's map traversal order *)
Theorem c20_map_order_irrelevant : forall (m m' : mdb) f,
  NoDup (map fst m) -> Permutation m m' ->
  sort_strings (filter f (map fst m)) = sort_strings (filter f (map fst m')).
Proof. exact map_order_irrelevant. Qed.
Print Assumptions c20_map_order_irrelevant.
