(* C20 — lemmas, part 1: the byte-string order, association lists, sorting, the
   prefix range of util.BytesPrefix. *)
From Coq Require Import List NArith ZArith Bool Lia Sorted Permutation.
From Verif Require Import Cmp.
From C20 Require Import Model.
Import ListNotations.

Ltac ncmp := repeat match goal with
  | H : N.compare ?a ?b = Lt |- _ => apply -> (N.compare_lt_iff a b) in H
  | H : N.compare ?a ?b = Gt |- _ => apply -> (N.compare_gt_iff a b) in H
  | H : N.compare ?a ?b = Eq |- _ => apply N.compare_eq in H
  | |- N.compare ?a ?b = Lt => apply <- (N.compare_lt_iff a b)
  end.

(* ---- bcmp is a total order ------------------------------------------------ *)

Lemma bcmp_refl a : bcmp a a = Eq.
Proof. induction a as [|x a IH]; cbn; [reflexivity|]. rewrite N.compare_refl. exact IH. Qed.

Lemma bcmp_eq a b : bcmp a b = Eq -> a = b.
Proof.
  revert b; induction a as [|x a IH]; intros [|y b]; cbn; try discriminate; auto.
  destruct (N.compare x y) eqn:E; try discriminate.
  intros H. apply N.compare_eq in E. subst. f_equal. auto.
Qed.

Lemma bcmp_antisym a b : bcmp b a = CompOpp (bcmp a b).
Proof.
  revert b; induction a as [|x a IH]; intros [|y b]; cbn; auto.
  rewrite (N.compare_antisym x y). destruct (N.compare x y); cbn; auto.
Qed.

Lemma bcmp_lt_trans a b c : bcmp a b = Lt -> bcmp b c = Lt -> bcmp a c = Lt.
Proof.
  revert b c; induction a as [|x a IH]; intros [|y b] [|z c]; cbn; try discriminate; auto.
  destruct (N.compare x y) eqn:E1; destruct (N.compare y z) eqn:E2; try discriminate; intros H1 H2.
  - apply N.compare_eq in E1. apply N.compare_eq in E2. subst. rewrite N.compare_refl. eauto.
  - apply N.compare_eq in E1. subst. rewrite E2. reflexivity.
  - apply N.compare_eq in E2. subst. rewrite E1. reflexivity.
  - assert (E : N.compare x z = Lt).
    { ncmp. lia. }
    rewrite E. reflexivity.
Qed.

Lemma beq_true a b : beq a b = true <-> a = b.
Proof.
  unfold beq. split.
  - destruct (bcmp a b) eqn:E; try discriminate. intros _. apply bcmp_eq. exact E.
  - intros ->. rewrite bcmp_refl. reflexivity.
Qed.
Lemma beq_refl a : beq a a = true.
Proof. apply beq_true. reflexivity. Qed.
Lemma beq_false a b : beq a b = false <-> a <> b.
Proof.
  split.
  - intros H E. apply beq_true in E. congruence.
  - intros H. destruct (beq a b) eqn:E; auto. apply beq_true in E. contradiction.
Qed.
Lemma beq_sym a b : beq a b = beq b a.
Proof.
  destruct (beq a b) eqn:E.
  - apply beq_true in E. subst. symmetry. apply beq_refl.
  - apply beq_false in E. symmetry. apply beq_false. congruence.
Qed.

Lemma blt_irrefl a : blt a a = false.
Proof. unfold blt. rewrite bcmp_refl. reflexivity. Qed.
Lemma blt_trans a b c : blt a b = true -> blt b c = true -> blt a c = true.
Proof.
  unfold blt. destruct (bcmp a b) eqn:E1; try discriminate. destruct (bcmp b c) eqn:E2; try discriminate.
  intros _ _. rewrite (bcmp_lt_trans _ _ _ E1 E2). reflexivity.
Qed.
Lemma ble_blt a b : ble a b = negb (blt b a).
Proof. unfold ble, blt. rewrite (bcmp_antisym a b). destruct (bcmp a b); reflexivity. Qed.
Lemma blt_asym a b : blt a b = true -> blt b a = false.
Proof.
  intros H. destruct (blt b a) eqn:E; auto.
  pose proof (blt_trans _ _ _ H E) as C. rewrite blt_irrefl in C. discriminate.
Qed.
Lemma blt_total a b : blt a b = false -> blt b a = false -> a = b.
Proof.
  unfold blt. rewrite (bcmp_antisym a b). destruct (bcmp a b) eqn:E; cbn; try discriminate.
  intros _ _. apply bcmp_eq. exact E.
Qed.
Lemma ble_neq_blt a b : ble a b = true -> a <> b -> blt a b = true.
Proof.
  rewrite ble_blt. intros H N. destruct (blt a b) eqn:E; auto.
  apply negb_true_iff in H. elim N. apply blt_total; assumption.
Qed.
Lemma ble_false_blt a b : ble a b = false -> blt b a = true.
Proof. rewrite ble_blt. intros H. apply negb_false_iff in H. exact H. Qed.
Lemma blt_ble_trans a b c : ble a b = true -> blt b c = true -> blt a c = true.
Proof.
  intros H1 H2. destruct (beq a b) eqn:E.
  - apply beq_true in E. subst. exact H2.
  - apply beq_false in E. eapply blt_trans; [apply ble_neq_blt; eassumption | exact H2].
Qed.

(* ---- strictly sorted lists of keys ------------------------------------------ *)

Definition ltb_rel (a b : bytes) : Prop := blt a b = true.
Definition ssorted (l : list bytes) : Prop := StronglySorted ltb_rel l.

Lemma ssorted_cons_inv x l : ssorted (x :: l) -> ssorted l /\ Forall (ltb_rel x) l.
Proof. intros H. inversion H; subst. split; assumption. Qed.

Lemma ssorted_nodup l : ssorted l -> NoDup l.
Proof.
  induction l as [|x l IH]; intros H; constructor.
  - apply ssorted_cons_inv in H. destruct H as [_ F]. intros I.
    rewrite Forall_forall in F. specialize (F _ I). unfold ltb_rel in F. rewrite blt_irrefl in F. discriminate.
  - apply IH. apply ssorted_cons_inv in H. tauto.
Qed.

Lemma ssorted_unique : forall l1 l2, ssorted l1 -> ssorted l2 ->
  (forall x, In x l1 <-> In x l2) -> l1 = l2.
Proof.
  induction l1 as [|x l1 IH]; intros [|y l2] S1 S2 M.
  - reflexivity.
  - exfalso. apply (proj2 (M y)). left; reflexivity.
  - exfalso. apply (proj1 (M x)). left; reflexivity.
  - apply ssorted_cons_inv in S1. destruct S1 as [S1 F1].
    apply ssorted_cons_inv in S2. destruct S2 as [S2 F2].
    rewrite Forall_forall in F1, F2. unfold ltb_rel in F1, F2.
    assert (E : x = y).
    { destruct (proj1 (M x) (or_introl eq_refl)) as [E|I]; [congruence|].
      destruct (proj2 (M y) (or_introl eq_refl)) as [E|I']; [congruence|].
      pose proof (blt_asym _ _ (F2 _ I)) as C. rewrite (F1 _ I') in C. discriminate. }
    subst y. f_equal. apply IH; auto.
    intros z. split; intros I.
    + destruct (proj1 (M z) (or_intror I)) as [E|I']; auto.
      subst z. specialize (F1 _ I). rewrite blt_irrefl in F1. discriminate.
    + destruct (proj2 (M z) (or_intror I)) as [E|I']; auto.
      subst z. specialize (F2 _ I). rewrite blt_irrefl in F2. discriminate.
Qed.

Lemma ssorted_filter f l : ssorted l -> ssorted (filter f l).
Proof.
  induction l as [|x l IH]; intros H; cbn; [constructor|].
  apply ssorted_cons_inv in H. destruct H as [S F].
  destruct (f x); [|apply IH; exact S]. constructor; [apply IH; exact S|].
  apply Forall_forall. intros z I. rewrite Forall_forall in F. apply filter_In in I. apply F. tauto.
Qed.

(* sort.Strings *)
Lemma insert_sorted_in x k l : In x (insert_sorted k l) <-> x = k \/ In x l.
Proof.
  induction l as [|a l IH]; cbn.
  - intuition congruence.
  - destruct (ble k a); cbn; [intuition congruence|]. rewrite IH. intuition congruence.
Qed.

Lemma insert_sorted_ssorted k l : ssorted l -> ~ In k l -> ssorted (insert_sorted k l).
Proof.
  induction l as [|a l IH]; intros S NI; cbn.
  - constructor; constructor.
  - pose proof (ssorted_cons_inv _ _ S) as [S' F]. destruct (ble k a) eqn:E.
    + assert (L : blt k a = true).
      { apply ble_neq_blt; auto. intros ->. apply NI. left; reflexivity. }
      constructor; [exact S|]. constructor; [exact L|].
      apply Forall_forall. intros z I. rewrite Forall_forall in F. eapply blt_trans; [exact L | apply F; exact I].
    + constructor.
      * apply IH; auto. intros I. apply NI. right; exact I.
      * apply Forall_forall. intros z I. rewrite Forall_forall in F. apply insert_sorted_in in I. destruct I as [->|I].
        -- apply ble_false_blt. exact E.
        -- apply F. exact I.
Qed.

Lemma sort_strings_in x l : In x (sort_strings l) <-> In x l.
Proof.
  induction l as [|a l IH]; cbn; [tauto|]. rewrite insert_sorted_in, IH. intuition congruence.
Qed.

Lemma sort_strings_ssorted l : NoDup l -> ssorted (sort_strings l).
Proof.
  induction 1 as [|a l NI ND IH]; cbn; [constructor|].
  apply insert_sorted_ssorted; auto. rewrite sort_strings_in. exact NI.
Qed.

(* the result of sorting does not depend on the order in which the map was traversed *)
Lemma sort_strings_perm l l' : NoDup l -> Permutation l l' -> sort_strings l = sort_strings l'.
Proof.
  intros ND P. apply ssorted_unique.
  - apply sort_strings_ssorted; exact ND.
  - apply sort_strings_ssorted. eapply Permutation_NoDup; eassumption.
  - intros x. rewrite !sort_strings_in. split; apply Permutation_in; [exact P | symmetry; exact P].
Qed.

Lemma sort_strings_sorted_id l : ssorted l -> sort_strings l = l.
Proof.
  intros S. apply ssorted_unique; auto.
  - apply sort_strings_ssorted. apply ssorted_nodup. exact S.
  - intros x. apply sort_strings_in.
Qed.

(* ---- association lists --------------------------------------------------------- *)

Lemma mlookup_remove m k x : mlookup (mremove m k) x = if beq k x then None else mlookup m x.
Proof.
  unfold mremove. induction m as [|[k' v] m IH]; cbn.
  - destruct (beq k x); reflexivity.
  - destruct (beq k k') eqn:E; cbn.
    + apply beq_true in E. subst k'. rewrite IH. rewrite (beq_sym x k). destruct (beq k x); reflexivity.
    + rewrite IH. destruct (beq x k') eqn:E2; [|reflexivity].
      apply beq_true in E2. subst k'. rewrite E. reflexivity.
Qed.

Lemma in_keys_lookup m k : In k (map fst m) <-> mlookup m k <> None.
Proof.
  induction m as [|[k' v] m IH]; cbn.
  - intuition congruence.
  - destruct (beq k k') eqn:E.
    + apply beq_true in E. subst. intuition congruence.
    + apply beq_false in E. rewrite IH. intuition congruence.
Qed.

Lemma keys_filter (f : bytes -> bool) (m : list (bytes * bytes)) :
  map fst (filter (fun kv => f (fst kv)) m) = filter f (map fst m).
Proof.
  induction m as [|[k v] m IH]; cbn; [reflexivity|]. destruct (f k); cbn; rewrite IH; reflexivity.
Qed.

Lemma mremove_keys m k : map fst (mremove m k) = filter (fun x => negb (beq k x)) (map fst m).
Proof. unfold mremove. apply (keys_filter (fun x => negb (beq k x))). Qed.

Lemma mremove_nodup m k : NoDup (map fst m) -> NoDup (map fst (mremove m k)).
Proof. intros H. rewrite mremove_keys. apply NoDup_filter. exact H. Qed.

Lemma mremove_notin m k : ~ In k (map fst (mremove m k)).
Proof. rewrite mremove_keys. intros I. apply filter_In in I. rewrite beq_refl in I. destruct I; discriminate. Qed.

Lemma lookup_in_nodup m k v : NoDup (map fst m) -> In (k, v) m -> mlookup m k = Some v.
Proof.
  induction m as [|[k' v'] m IH]; cbn; intros ND I; [contradiction|].
  inversion ND; subst. destruct I as [E|I].
  - inversion E; subst. rewrite beq_refl. reflexivity.
  - destruct (beq k k') eqn:E; [|auto].
    apply beq_true in E. subst k'. exfalso. apply H1. change k with (fst (k, v)). apply in_map. exact I.
Qed.

(* ordered insertion (goleveldb Put) *)
Lemma ldb_put_lookup d k v x : mlookup (ldb_put d k v) x = if beq k x then Some v else mlookup d x.
Proof.
  induction d as [|[k' v'] d IH]; cbn.
  - rewrite (beq_sym x k). reflexivity.
  - destruct (bcmp k k') eqn:E; cbn.
    + apply bcmp_eq in E. subst k'. rewrite (beq_sym x k). destruct (beq k x); reflexivity.
    + rewrite (beq_sym x k). reflexivity.
    + rewrite IH. destruct (beq x k') eqn:E2; [|reflexivity].
      apply beq_true in E2. subst k'. assert (N : beq k x = false).
      { unfold beq. rewrite E. reflexivity. }
      rewrite N. reflexivity.
Qed.

Lemma ldb_put_keys_in d k v x : In x (map fst (ldb_put d k v)) <-> x = k \/ In x (map fst d).
Proof.
  rewrite !in_keys_lookup, ldb_put_lookup. destruct (beq k x) eqn:E.
  - apply beq_true in E. subst. intuition congruence.
  - apply beq_false in E. intuition congruence.
Qed.

Lemma ldb_put_sorted d k v : ssorted (map fst d) -> ssorted (map fst (ldb_put d k v)).
Proof.
  induction d as [|[k' v'] d IH]; cbn; intros S.
  - constructor; constructor.
  - pose proof (ssorted_cons_inv _ _ S) as [S' F]. destruct (bcmp k k') eqn:E; cbn.
    + apply bcmp_eq in E. subst k'. exact S.
    + assert (L : blt k k' = true) by (unfold blt; rewrite E; reflexivity).
      constructor; [exact S|]. constructor; [exact L|].
      apply Forall_forall. intros z I. rewrite Forall_forall in F. eapply blt_trans; [exact L | apply F; exact I].
    + constructor; [apply IH; exact S'|].
      apply Forall_forall. intros z I. rewrite Forall_forall in F. apply ldb_put_keys_in in I. destruct I as [->|I].
      * unfold ltb_rel, blt. rewrite (bcmp_antisym k k'), E. reflexivity.
      * apply F. exact I.
Qed.

Lemma mremove_sorted d k : ssorted (map fst d) -> ssorted (map fst (mremove d k)).
Proof. intros S. rewrite mremove_keys. apply ssorted_filter. exact S. Qed.

(* ---- byte strings and the prefix range --------------------------------------------- *)

Definition isbytes (l : bytes) : Prop := Forall (fun x => (x < 256)%N) l.

Lemma in_range_prefix : forall p k, isbytes p -> isbytes k ->
  in_range p (prefix_limit p) k = has_prefix p k.
Proof.
  induction p as [|c r IH]; intros k Hp Hk.
  - destruct k; reflexivity.
  - inversion Hp as [|? ? Hc Hr]; subst.
    destruct k as [|y k]; [reflexivity|].
    inversion Hk as [|? ? Hy Hk']; subst.
    specialize (IH k Hr Hk'). unfold in_range in *.
    cbn [prefix_limit has_prefix].
    destruct (prefix_limit r) as [l|] eqn:EL.
    + unfold ble, blt in *. cbn [bcmp]. rewrite (N.compare_antisym c y).
      destruct (N.compare c y) eqn:E; cbn [CompOpp].
      * apply N.compare_eq in E. subst y. rewrite N.eqb_refl. cbn. exact IH.
      * assert (N : N.eqb c y = false) by (apply N.eqb_neq; ncmp; lia).
        rewrite N. reflexivity.
      * assert (N : N.eqb c y = false) by (apply N.eqb_neq; ncmp; lia).
        rewrite N. reflexivity.
    + destruct (N.ltb c 255) eqn:EC.
      * apply N.ltb_lt in EC. unfold ble, blt in *. cbn [bcmp].
        destruct (N.compare c y) eqn:E.
        -- apply N.compare_eq in E. subst y. rewrite N.eqb_refl.
           assert (L : N.compare c (c + 1) = Lt) by (ncmp; lia).
           rewrite L. cbn. rewrite andb_true_r in IH. rewrite andb_true_r. exact IH.
        -- ncmp.
           assert (N : N.eqb c y = false) by (apply N.eqb_neq; lia). rewrite N.
           destruct (N.compare y (c + 1)) eqn:E2.
           ++ destruct k; reflexivity.
           ++ ncmp. lia.
           ++ reflexivity.
        -- ncmp.
           assert (N : N.eqb c y = false) by (apply N.eqb_neq; lia). rewrite N. reflexivity.
      * apply N.ltb_ge in EC. assert (c = 255%N) by lia. subst c.
        unfold ble in *. cbn [bcmp].
        destruct (N.compare 255 y) eqn:E.
        -- apply N.compare_eq in E. subst y. cbn. exact IH.
        -- ncmp. lia.
        -- ncmp.
           assert (N : N.eqb 255 y = false) by (apply N.eqb_neq; lia). rewrite N. reflexivity.
Qed.

(* every key with the prefix is at or after it, and below the limit *)
Lemma has_prefix_ble p k : has_prefix p k = true -> ble p k = true.
Proof.
  revert k; induction p as [|c r IH]; intros [|y k]; cbn; try reflexivity; try discriminate.
  intros H. apply andb_prop in H. destruct H as [E H]. apply N.eqb_eq in E. subst y.
  unfold ble in *. cbn. rewrite N.compare_refl. apply IH. exact H.
Qed.

Lemma filter_filter {A} (f g : A -> bool) l :
  filter f (filter g l) = filter (fun x => g x && f x) l.
Proof.
  induction l as [|a l IH]; cbn; [reflexivity|].
  destruct (g a); cbn; [destruct (f a)|]; rewrite IH; reflexivity.
Qed.

Lemma filter_all {A} (f : A -> bool) l : (forall x, In x l -> f x = true) -> filter f l = l.
Proof.
  induction l as [|a l IH]; cbn; intros H; [reflexivity|].
  rewrite (H a (or_introl eq_refl)). f_equal. apply IH. intros x I. apply H. right; exact I.
Qed.

(* on a sorted run, skipping the entries below a key is filtering *)
Lemma drop_below_filter key (l : list (bytes * bytes)) : ssorted (map fst l) ->
  drop_below key l = filter (fun kv => negb (blt (fst kv) key)) l.
Proof.
  induction l as [|[k v] l IH]; cbn [drop_below filter map fst]; intros S; [reflexivity|].
  apply ssorted_cons_inv in S. destruct S as [S F].
  destruct (blt k key) eqn:E; cbn [negb].
  - apply IH. exact S.
  - f_equal. symmetry. apply filter_all. intros [k2 v2] I. cbn [fst].
    rewrite Forall_forall in F. assert (L : blt k k2 = true).
    { apply F. change k2 with (fst (k2, v2)). apply in_map. exact I. }
    destruct (blt k2 key) eqn:E2; [|reflexivity].
    rewrite (blt_trans _ _ _ L E2) in E. discriminate.
Qed.

Lemma drop_below_length key (l : list (bytes * bytes)) : length (drop_below key l) <= length l.
Proof.
  induction l as [|x l IH]; cbn; [lia|]. destruct (blt (fst x) key); cbn; lia.
Qed.
