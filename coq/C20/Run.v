(* C20 — helpers used by the generated case files (correspondence). *)
From Coq Require Import List NArith ZArith Bool.
From Verif Require Import Cmp.
From C20 Require Import Model.
Import ListNotations.

Definition item_eqb (a b : bytes * bytes) : bool :=
  bytes_eqb (fst a) (fst b) && bytes_eqb (snd a) (snd b).

Definition obs_eqb (a b : obs) : bool :=
  match a, b with
  | ODone, ODone => true
  | OGet x, OGet y => option_eqb bytes_eqb x y
  | OIter k v l, OIter k' v' l' => bytes_eqb k k' && bytes_eqb v v' && list_eqb item_eqb l l'
  | OPanic, OPanic => true
  | OFuel, OFuel => true
  | _, _ => false
  end.

(* both models against what each real backend returned *)
Definition agree2 (ops : list op) (om ol : list obs) : bool :=
  list_eqb obs_eqb (mem_run ops) om && list_eqb obs_eqb (ldb_run ops) ol.
(* the usual case: both real backends returned the same observations *)
Definition agree (ops : list op) (o : list obs) : bool := agree2 ops o o.

(* byte strings in the case files are single hexadecimal numerals: a leading 1 followed by
   two hex digits per byte (parsing one numeral is much cheaper for Coq's front end than a
   list of numerals); [b] decodes them *)
Fixpoint dec (fuel : nat) (n : N) (acc : bytes) : bytes :=
  match fuel with
  | O => acc
  | S f => if (n <=? 1)%N then acc else dec f (n / 256)%N ((n mod 256)%N :: acc)
  end.
Definition b (n : N) : bytes := dec (N.to_nat (N.size n)) n [].

(* short names for the case files *)
Notation g := Get (only parsing).
Notation p := (Put false) (only parsing).
Notation ps := (Put true) (only parsing).
Notation d := (Del false) (only parsing).
Notation ds := (Del true) (only parsing).
Notation bn := BNew (only parsing).
Notation bs := BSet (only parsing).
Notation bd := BDel (only parsing).
Notation bw := BWrite (only parsing).
Notation ia := IterAll (only parsing).
Notation ip := IterPrefix (only parsing).
Notation it := IterStart (only parsing).
Notation oD := ODone (only parsing).
Notation oG := OGet (only parsing).
Notation oI := OIter (only parsing).
Notation oP := OPanic (only parsing).
Notation N_ := None (only parsing).
Notation S_ := Some (only parsing).

Example b_decodes : b 0x161ff00 = [97; 255; 0]%N /\ b 0x1 = [] /\ b 0x100 = [0]%N.
Proof. vm_compute. repeat split. Qed.
