(* C38 — blocks proposed by the node pass the node's own validation: executable model.
   NO PROOFS HERE.

   Mirrors
     proposal/proposal.go            newBlockBuilder, build, applyTransactionFromPool, applyTransactions
                                     (batches of batchApplyNum = 16, timeout status, softMaxTxNum = 1024),
                                     preValidateTxs (per-transaction verdict, utxo load/apply on the
                                     builder's running view, gas budget gasLeft), createCoinbaseTx (first
                                     block of an epoch pays the previous checkpoint's rewards; the
                                     proposer's own program is merged into output 0, the others are
                                     appended in map order), applyCoinbaseTransaction,
                                     calculateBlockCommitment, Chain.SignBlockHeader
     proposal/sort.go                byTime
     protocol/validation/tx.go       ValidateTx: the three checks that read the block header (version,
                                     serialized size, time range) around the entry-graph validation [core]
     database/utxo_view.go           getTransactionsUtxo (lazy load into a view)
     protocol/state/utxo_view.go     ApplyTransaction = applySpendUtxo (entries are marked spent IN PLACE, a
                                     failure half way leaves the earlier marks) + applyOutputUtxo; ApplyBlock
     protocol/validation/block.go    ValidateBlockHeader, checkBlockTime, verifyBlockSignature,
                                     ValidateBlock, checkCoinbaseAmount, checkoutRewardCoinbase
     protocol/block.go               processBlock, saveBlock, tryReorganize, reorganizeChain for a block
                                     that extends the best block (nothing to detach)
     database/utxo_view.go           saveUtxoView (spent non-coinbase entries are deleted)

   Hashes (blocks, transactions, outputs, programs, keys) are opaque labels (N); only their
   equality is used.

   Parameters (Section variables):
     P          consensus parameters;
     core       the entry-graph part of validation.ValidateTx (checkValid of the header: value balance,
                programs run by the VM, gas accounting), as a function of what it reads: the block
                height (BLOCKHEIGHT, vote lock), whether the transaction is block.Transactions[0]
                (coinbase placement) and the transaction; None = rejected, Some g = GasUsed.  The
                proposer and the block validator call THE SAME function;
     proposer   the key scheduled for a block time given the timestamp of the checkpoint the block
                consults (Checkpoint.GetValidator, property C15);
     choose     fork choice: the hash casper.BestChain returns for the stored blocks (ANY function);
     merkle     the merkle root as a function of the transaction-id list (types.TxMerkleRoot);
     header_id  the block hash as a function of parent, height, timestamp, merkle root;
     cb_meta    what MapTx makes of the coinbase the proposer builds for a height and an output list:
                transaction id, serialized size, ids of the outputs that become UTXOs.

   Explicit inputs instead of ambient effects:
     stop i     "getTimeoutStatus() >= timeoutWarn after batch i" (the two timers);
     order      the iteration order of the Go map checkpoint.Rewards in createCoinbaseTx;
     now        the validator's clock in checkBlockTime;
     ck         what Chain.PrevCheckpointByPrevHash(best block) returns (both sides call it with the
                same argument): timestamp and reward table.

   Go integers: heights, times and amounts are uint64 and stay far below 2^64 (no wrap modelled
   except where the validator sums in uint64: gas sum and reward sums, as written); gasLeft is
   int64, it is only ever decreased after the test gasLeft-GasUsed >= 0, so it is kept in N with
   the test written gas <? gu; the final [b.gasLeft -= coinbase gas] is never read. *)
From Coq Require Import List NArith Bool.
Import ListNotations.
Open Scope N_scope.

Inductive utype := Normal | Coinbase | Vote.

Definition utype_eqb (a b : utype) : bool :=
  match a, b with
  | Normal, Normal | Coinbase, Coinbase | Vote, Vote => true
  | _, _ => false
  end.

Definition out_type (t : utype) : utype := match t with Vote => Vote | _ => Normal end.

Record tx := mkT {
  tid : N;
  tversion : N;                 (* TxData.Version *)
  tsize : N;                    (* SerializedSize *)
  ttimerange : N;               (* TimeRange *)
  tspends : list N;             (* SpentOutputIDs, in order *)
  touts : list (N * utype)      (* ResultIds that become UTXOs (original / vote output, amount > 0) *)
}.

Record blk := mkB {
  bid : N; bparent : N; bheight : N; bversion : N; btime : N;
  bsig : N;                     (* key under which the witness verifies for this header (0 = none) *)
  broot : N;                    (* committed merkle root *)
  btxs : list tx;
  bcb : list (N * N * N)        (* outputs of the first transaction: program, amount, 1 = original BTM output *)
}.

Record params := mkP {
  p_epoch : N; p_interval : N; p_offset : N; p_maturity : N; p_lock : N -> N; p_maxgas : N
}.

Definition two64 : N := 18446744073709551616.
Definition w64 (x : N) : N := x mod two64.
Definition max_int64 : N := 9223372036854775807.
Definition batch_num : nat := 16.      (* batchApplyNum *)
Definition soft_max : nat := 1024.     (* softMaxTxNum *)

(* ---- UTXO entries ------------------------------------------------------------------------ *)
Record entry := mkE { etype : utype; eheight : N; espent : bool }.
Definition umap := N -> option entry.
Definition uempty : umap := fun _ => None.
Definition uset (m : umap) (k : N) (e : entry) : umap := fun x => if x =? k then Some e else m x.

Record ckpt := mkCk { ck_time : N; ck_rewards : list (N * N) }.

(* the node: best block (hash, height, timestamp), hashes of the stored blocks, utxo table *)
Record cstate := mkS {
  s_best : N; s_height : N; s_time : N; s_stored : list N; s_utxo : umap
}.

Inductive rule := RVersion | RHeight | RParent | RTime | RSig | RTx | RGas | RCoinbase | RMerkle.
Inductive verdict := VOk | VBad (r : rule).

Section Model.
Variable P : params.
Variable core : N -> bool -> tx -> option N.
Variable proposer : N -> N -> N.
Variable choose : list N -> N.
Variable merkle : list N -> N.
Variable header_id : N -> N -> N -> N -> N.
Variable cb_meta : N -> list (N * N) -> N * N * list N.

(* ---- validation.ValidateTx: bv = block.Version, h = block.Height,
        first = (block.Transactions is non-empty and its first element is this transaction) --- *)
Definition validate_tx (bv h : N) (first : bool) (t : tx) : option N :=
  if (bv =? 1) && negb (tversion t =? 1) then None           (* ErrTxVersion *)
  else if tsize t =? 0 then None                              (* ErrWrongTransactionSize *)
  else if negb (ttimerange t =? 0) && (ttimerange t <? h) then None   (* ErrBadTimeRange *)
  else core h first t.

(* ---- state/utxo_view.go ------------------------------------------------------------------ *)

Definition mature (h : N) (e : entry) : bool :=
  match etype e with
  | Coinbase => eheight e + p_maturity P <=? h
  | Vote => eheight e + p_lock P h <=? h
  | Normal => true
  end.

(* applySpendUtxo: returns whether it succeeded AND the map as it is left (entries already
   marked spent stay marked when a later input fails) *)
Fixpoint apply_spends (h : N) (m : umap) (sps : list N) : bool * umap :=
  match sps with
  | [] => (true, m)
  | o :: r =>
    match m o with
    | None => (false, m)                                      (* fail to find utxo entry *)
    | Some e =>
      if espent e then (false, m)                             (* utxo has been spent *)
      else if mature h e then apply_spends h (uset m o (mkE (etype e) (eheight e) true)) r
      else (false, m)
    end
  end.

(* applyOutputUtxo; cb = the transaction is block.Transactions[0] *)
Fixpoint apply_outs (h : N) (cb : bool) (m : umap) (outs : list (N * utype)) : umap :=
  match outs with
  | [] => m
  | (o, t) :: r => apply_outs h cb (uset m o (mkE (if cb then Coinbase else out_type t) h false)) r
  end.

(* ApplyTransaction *)
Definition apply_tx (h : N) (cb : bool) (m : umap) (t : tx) : bool * umap :=
  let '(ok, m1) := apply_spends h m (tspends t) in
  if ok then (true, apply_outs h cb m1 (touts t)) else (false, m1).

(* ---- the builder's running view over the database -------------------------------------- *)

(* getTransactionsUtxo for one transaction: entries not yet in the view are read from the db *)
Definition load1 (db v : umap) (o : N) : umap :=
  match v o with
  | Some _ => v
  | None => match db o with Some e => uset v o e | None => v end
  end.

Fixpoint load (db v : umap) (sps : list N) : umap :=
  match sps with
  | [] => v
  | o :: r => load db (load1 db v o) r
  end.

(* preValidateTxs on one batch: per transaction (kept?), the view and gasLeft afterwards.
   The loop runs while gasLeft > 0; a rejected transaction is reported with an error (false),
   a transaction that does not fit into gasLeft ends the batch without a result entry. *)
Fixpoint pre_validate (h : N) (db v : umap) (gas : N) (txs : list tx) : list (tx * bool) * umap * N :=
  match txs with
  | [] => ([], v, gas)
  | t :: r =>
    if gas =? 0 then ([], v, gas)
    else
      match validate_tx 0 h false t with                      (* scratch header: Version 0, no Transactions *)
      | None =>
        let '(res, v', g') := pre_validate h db v gas r in ((t, false) :: res, v', g')
      | Some gu =>
        let v1 := load db v (tspends t) in
        if gas <? gu then ([], v1, gas)
        else
          let '(ok, v2) := apply_tx h false v1 t in
          if ok then
            let '(res, v', g') := pre_validate h db v2 (gas - gu) r in ((t, true) :: res, v', g')
          else
            let '(res, v', g') := pre_validate h db v2 gas r in ((t, false) :: res, v', g')
      end
  end.

(* the batches applyTransactions forms: 16 at a time, the rest at the last index *)
Fixpoint batches_aux (cur : list tx) (l : list tx) : list (list tx) :=
  match l with
  | [] => match cur with [] => [] | _ :: _ => [rev cur] end
  | t :: r =>
    let cur' := t :: cur in
    if Nat.leb batch_num (length cur') then rev cur' :: batches_aux [] r
    else batches_aux cur' r
  end.
Definition batches (l : list tx) : list (list tx) := batches_aux [] l.

Definition kept (res : list (tx * bool)) : list tx := map fst (filter snd res).
Definition dropped (res : list (tx * bool)) : list tx := map fst (filter (fun x => negb (snd x)) res).

(* applyTransactions: acc = block.Transactions[1:], rem = transactions removed from the pool *)
Fixpoint run_batches (h : N) (db : umap) (stop : nat -> bool) (i : nat) (v : umap) (gas : N)
         (acc rem : list tx) (bs : list (list tx)) : list tx * list tx * umap * N :=
  match bs with
  | [] => (acc, rem, v, gas)
  | b :: r =>
    let '(res, v', gas') := pre_validate h db v gas b in
    let acc' := acc ++ kept res in
    let rem' := rem ++ dropped res in
    if stop i || Nat.ltb soft_max (S (length acc')) then (acc', rem', v', gas')
    else run_batches h db stop (S i) v' gas' acc' rem' r
  end.

(* sort.Sort(byTime): insertion sort on the arrival time (the pool stamps strictly increasing
   times; for equal stamps sort.Sort's order is unspecified - the theorems hold for every order) *)
Fixpoint insert_by_time (x : N * tx) (l : list (N * tx)) : list (N * tx) :=
  match l with
  | [] => [x]
  | y :: r => if fst x <? fst y then x :: l else y :: insert_by_time x r
  end.
Fixpoint sort_by_time (l : list (N * tx)) : list (N * tx) :=
  match l with
  | [] => []
  | x :: r => insert_by_time x (sort_by_time r)
  end.

(* ---- createCoinbaseTx ------------------------------------------------------------------- *)

(* for controlProgram, amount := range checkpoint.Rewards (in the order [order]) *)
Fixpoint cb_fold (script own : N) (oth : list (N * N)) (order : list (N * N)) : option (N * list (N * N)) :=
  match order with
  | [] => Some (own, oth)
  | (p, a) :: r =>
    if p =? script then cb_fold script a oth r               (* builder.Outputs()[0].Amount = amount *)
    else if max_int64 <? a then None                          (* AddOutput: ErrBadAmount *)
    else cb_fold script own (oth ++ [(p, a)]) r
  end.

Definition create_coinbase (h script : N) (order : list (N * N)) : option (list (N * N)) :=
  if (h mod p_epoch P =? 1) && negb (h =? 1) then
    match cb_fold script 0 [] order with
    | Some (own, oth) => Some ((script, own) :: oth)
    | None => None
    end
  else Some [(script, 0)].

(* NewBlockTemplate.  st = the node, order = the previous checkpoint's reward table as iterated, script = the proposer's coinbase
   program, me = the node's key, ts = the requested timestamp, cands = GetTransactions() sorted.
   Result: the signed block and the transactions removed from the pool; None = an error is returned. *)
Definition propose (st : cstate) (order : list (N * N)) (script me ts : N)
           (stop : nat -> bool) (cands : list tx) : option (blk * list tx) :=
  let h := s_height st + 1 in
  let '(acc, rem, _, _) :=
      run_batches h (s_utxo st) stop 0 uempty (p_maxgas P) [] [] (batches cands) in
  match create_coinbase h script order with
  | None => None
  | Some outs =>
    let '(cid, csz, couts) := cb_meta h outs in
    let cbtx := mkT cid 1 csz 0 [] (map (fun o => (o, Normal)) couts) in
    match validate_tx 0 h true cbtx with                      (* Version 0 header, Transactions = [coinbase] *)
    | None => None
    | Some _ =>
      let txs := cbtx :: acc in
      let root := merkle (map tid txs) in
      Some (mkB (header_id (s_best st) h ts root) (s_best st) h 1 ts me root txs
                (map (fun pa => (fst pa, snd pa, 1)) outs), rem)
    end
  end.

Definition propose_pool (st : cstate) (order : list (N * N)) (script me ts : N)
           (stop : nat -> bool) (pool : list (N * tx)) : option (blk * list tx) :=
  propose st order script me ts stop (map snd (sort_by_time pool)).

(* ---- validation/block.go ------------------------------------------------------------------ *)

(* the loop of ValidateBlock over the validation results: first error wins, gas summed in uint64 *)
Fixpoint check_txs (h : N) (first : bool) (sum : N) (ts : list tx) : verdict :=
  match ts with
  | [] => VOk
  | t :: r =>
    match validate_tx 1 h first t with
    | None => VBad RTx
    | Some g => let s := w64 (sum + g) in
                if p_maxgas P <? s then VBad RGas else check_txs h false s r
    end
  end.

Fixpoint tbl_get (t : list (N * N)) (k : N) : N :=
  match t with
  | [] => 0
  | (k', v) :: r => if k' =? k then v else tbl_get r k
  end.

Fixpoint tbl_add (t : list (N * N)) (k a : N) : list (N * N) :=
  match t with
  | [] => [(k, w64 a)]
  | (k', v) :: r => if k' =? k then (k', w64 (v + a)) :: r else (k', v) :: tbl_add r k a
  end.

(* checkoutRewardCoinbase: output amounts grouped by program; a zero first output is skipped *)
Fixpoint out_map (first : bool) (outs : list (N * N * N)) (acc : list (N * N)) : list (N * N) :=
  match outs with
  | [] => acc
  | (p, a, _) :: r => if first && (a =? 0) then out_map false r acc else out_map false r (tbl_add acc p a)
  end.

Definition pays (outs : list (N * N * N)) (tbl : list (N * N)) : bool :=
  let m := out_map true outs [] in
  Nat.eqb (length m) (length tbl) && forallb (fun kv => tbl_get m (fst kv) =? snd kv) tbl.

(* checkCoinbaseAmount *)
Definition check_coinbase (ck : ckpt) (b : blk) : bool :=
  match btxs b with
  | [] => false
  | _ :: _ =>
    forallb (fun o => snd o =? 1) (bcb b) &&
    (if bheight b mod p_epoch P =? 1 then pays (bcb b) (ck_rewards ck)
     else match bcb b with [(_, a, _)] => a =? 0 | _ => false end)
  end.

(* ValidateBlockHeader + ValidateBlock for a block whose parent is the best block of s *)
Definition validate_block (now : N) (ck : ckpt) (s : cstate) (b : blk) : verdict :=
  if negb (bversion b =? 1) then VBad RVersion
  else if negb (bheight b =? s_height s + 1) then VBad RHeight
  else if negb (bparent b =? s_best s) then VBad RParent
  else if btime b <? s_time s + p_interval P then VBad RTime
  else if now + p_offset P <? btime b then VBad RTime
  else if negb (bsig b =? proposer (ck_time ck) (btime b)) || (bsig b =? 0) then VBad RSig
  else match check_txs (bheight b) true 0 (btxs b) with
       | VBad r => VBad r
       | VOk =>
         if negb (check_coinbase ck b) then VBad RCoinbase
         else if negb (merkle (map tid (btxs b)) =? broot b) then VBad RMerkle
         else VOk
       end.

(* ---- protocol/block.go -------------------------------------------------------------------- *)

(* ApplyBlock on the table (the viewpoint of reorganizeChain - every input loaded first, unloaded
   entries read through, everything saved at the end - as a working copy of the table) *)
Fixpoint apply_txs (h : N) (cb : bool) (m : umap) (ts : list tx) : option umap :=
  match ts with
  | [] => Some m
  | t :: r => let '(ok, m1) := apply_tx h cb m t in
              if ok then apply_txs h false m1 r else None
  end.

Definition apply_block (m : umap) (b : blk) : option umap := apply_txs (bheight b) true m (btxs b).

(* saveUtxoView *)
Definition normalise (m : umap) : umap :=
  fun x => match m x with
           | Some e => if espent e && negb (utype_eqb (etype e) Coinbase) then None else Some e
           | None => None
           end.

(* what ProcessBlock returns and what is observed afterwards:
   (isOrphan, error class 0 none / 1 ErrBadBlock / 2 other, hash of the best block) *)
Definition obs := (bool * N * N)%type.

(* Chain.processBlock.  None = outside this model: the block's parent is a stored block other than
   the best block, or the fork choice returns a third block (side branches and reorganisations
   with a detach part are property C13's subject). *)
Definition process_block (now : N) (ck : ckpt) (s : cstate) (b : blk) : option (cstate * obs) :=
  let known := existsb (N.eqb (bid b)) (s_stored s) in
  if known && (bheight b <=? s_height s) then Some (s, (false, 0, s_best s))
  else if negb (existsb (N.eqb (bparent b)) (s_stored s)) then Some (s, (true, 0, s_best s))
  else if negb (bparent b =? s_best s) then None
  else
    match validate_block now ck s b with
    | VBad _ => Some (s, (false, 1, s_best s))
    | VOk =>
      let st := if known then s_stored s else s_stored s ++ [bid b] in
      let s1 := mkS (s_best s) (s_height s) (s_time s) st (s_utxo s) in
      let target := choose st in
      if target =? s_best s then Some (s1, (false, 0, s_best s))
      else if target =? bid b then
        match apply_block (s_utxo s) b with
        | Some m => Some (mkS (bid b) (bheight b) (btime b) st (normalise m), (false, 0, bid b))
        | None => Some (s1, (false, 2, s_best s))
        end
      else None
    end.

End Model.
