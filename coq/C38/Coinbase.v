(* C38 — the coinbase the proposer builds passes checkCoinbaseAmount, for every iteration order of
   the reward map. *)
From Coq Require Import List Arith NArith Bool Lia Permutation.
From C38 Require Import Model.
Import ListNotations.
Open Scope N_scope.

Definition keys (l : list (N * N)) : list N := map fst l.

Definition not_script (script : N) (pa : N * N) : bool := negb (fst pa =? script).

Lemma tbl_add_fresh t : forall k a, ~ In k (keys t) -> tbl_add t k a = t ++ [(k, w64 a)].
Proof.
  induction t as [|[k' v] r IH]; intros k a Hn; cbn [tbl_add app]; [reflexivity|].
  destruct (k' =? k) eqn:E.
  - apply N.eqb_eq in E. subst. exfalso. apply Hn. left. reflexivity.
  - rewrite IH; [reflexivity|]. intro H. apply Hn. right. exact H.
Qed.

Definition okey (x : N * N * N) : N := fst (fst x).
Definition oval (x : N * N * N) : N * N := (fst (fst x), w64 (snd (fst x))).

Lemma out_map_fresh outs : forall acc,
  NoDup (keys acc ++ map okey outs) ->
  out_map false outs acc = acc ++ map oval outs.
Proof.
  induction outs as [|[[p a] f] r IH]; intros acc Hnd; cbn [out_map map].
  - rewrite app_nil_r. reflexivity.
  - cbn [andb].
    assert (Hp : ~ In p (keys acc)).
    { cbn [map okey fst] in Hnd. apply NoDup_remove_2 in Hnd. intro H. apply Hnd.
      apply in_or_app. left. exact H. }
    rewrite (tbl_add_fresh acc p a Hp). rewrite IH.
    + rewrite <- app_assoc. reflexivity.
    + unfold keys. rewrite map_app. cbn [map fst]. rewrite <- app_assoc. exact Hnd.
Qed.

Lemma tbl_get_in m : forall k v, NoDup (keys m) -> In (k, v) m -> tbl_get m k = v.
Proof.
  induction m as [|[k' v'] r IH]; intros k v Hnd Hin; [destruct Hin|].
  cbn [tbl_get]. cbn [keys map fst] in Hnd. inversion Hnd as [|? ? Hnot Hnd']; subst.
  destruct Hin as [Heq|Hin].
  - inversion Heq; subst. rewrite N.eqb_refl. reflexivity.
  - destruct (k' =? k) eqn:E.
    + apply N.eqb_eq in E. subst. exfalso. apply Hnot.
      change k with (fst (k, v)). apply in_map. exact Hin.
    + apply IH; assumption.
Qed.

Lemma keys_filter_in script l k : In k (keys (filter (not_script script) l)) -> In k (keys l) /\ k <> script.
Proof.
  unfold keys. intros H. apply in_map_iff in H. destruct H as [[k' v] [Hk Hin]]. cbn in Hk. subst.
  apply filter_In in Hin. destruct Hin as [Hin Hf]. unfold not_script in Hf. cbn in Hf.
  split.
  - change k with (fst (k, v)). apply in_map. exact Hin.
  - intro; subst. rewrite N.eqb_refl in Hf. discriminate.
Qed.

Lemma NoDup_keys_filter script l : NoDup (keys l) -> NoDup (keys (filter (not_script script) l)).
Proof.
  induction l as [|[k v] r IH]; intros Hnd; cbn [filter]; [constructor|].
  cbn [keys map fst] in Hnd. inversion Hnd as [|? ? Hnot Hnd']; subst.
  destruct (not_script script (k, v)).
  - cbn [keys map fst]. constructor; [|apply IH; exact Hnd'].
    intro H. apply keys_filter_in in H. apply Hnot. apply H.
  - apply IH. exact Hnd'.
Qed.

Lemma filter_all script l : ~ In script (keys l) -> filter (not_script script) l = l.
Proof.
  induction l as [|[k v] r IH]; intros Hn; cbn [filter]; [reflexivity|].
  unfold not_script at 1. cbn [fst].
  destruct (k =? script) eqn:E.
  - apply N.eqb_eq in E. subst. exfalso. apply Hn. left. reflexivity.
  - cbn [negb]. f_equal. apply IH. intro H. apply Hn. right. exact H.
Qed.

Lemma filter_length script l a :
  NoDup (keys l) -> In (script, a) l -> S (length (filter (not_script script) l)) = length l.
Proof.
  induction l as [|[k v] r IH]; intros Hnd Hin; [destruct Hin|].
  cbn [keys map fst] in Hnd. inversion Hnd as [|? ? Hnot Hnd']; subst.
  cbn [filter length]. unfold not_script at 1. cbn [fst].
  destruct Hin as [Heq|Hin].
  - inversion Heq; subst. rewrite N.eqb_refl. cbn [negb]. rewrite filter_all; [reflexivity|exact Hnot].
  - destruct (k =? script) eqn:E.
    + apply N.eqb_eq in E. subst. exfalso. apply Hnot.
      change script with (fst (script, a)). apply in_map. exact Hin.
    + cbn [negb length]. f_equal. apply IH; assumption.
Qed.

Lemma nodup_keys_fun l k v1 v2 : NoDup (keys l) -> In (k, v1) l -> In (k, v2) l -> v1 = v2.
Proof.
  intros Hnd H1 H2. rewrite <- (tbl_get_in l k v1 Hnd H1). apply tbl_get_in; assumption.
Qed.

(* the loop over checkpoint.Rewards *)
Lemma cb_fold_spec script order : forall own oth own' oth',
  cb_fold script own oth order = Some (own', oth') ->
  oth' = oth ++ filter (not_script script) order /\
  ((exists a, In (script, a) order /\ (~ In script (keys order) \/ True) /\
              (NoDup (keys order) -> own' = a)) \/
   (~ In script (keys order) /\ own' = own)).
Proof.
  induction order as [|[p a] r IH]; intros own oth own' oth' H; cbn [cb_fold] in H.
  - inversion H; subst. split; [rewrite app_nil_r; reflexivity|]. right. split; [intros []|reflexivity].
  - cbn [filter]. unfold not_script at 1. cbn [fst].
    destruct (p =? script) eqn:E.
    + apply N.eqb_eq in E. subst p. cbn [negb].
      apply IH in H. destruct H as [Ho Hown]. split; [exact Ho|]. left.
      destruct Hown as [[a' [Hin [_ Ha']]]|[Hn Heq]].
      * exists a'. split; [right; exact Hin|]. split; [right; exact I|].
        intros Hnd. cbn [keys map fst] in Hnd. inversion Hnd as [|? ? Hnot Hnd']; subst.
        exfalso. apply Hnot. change script with (fst (script, a')). apply in_map. exact Hin.
      * exists a. split; [left; reflexivity|]. split; [right; exact I|]. intros _. exact Heq.
    + destruct (max_int64 <? a); [discriminate|]. cbn [negb].
      apply IH in H. destruct H as [Ho Hown]. split.
      * rewrite Ho. rewrite <- app_assoc. reflexivity.
      * destruct Hown as [[a' [Hin [_ Ha']]]|[Hn Heq]].
        -- left. exists a'. split; [right; exact Hin|]. split; [right; exact I|].
           intros Hnd. apply Ha'. cbn [keys map fst] in Hnd. inversion Hnd; assumption.
        -- right. split; [|exact Heq]. intros [Hk|Hk]; [|exact (Hn Hk)].
           cbn in Hk. subst. rewrite N.eqb_refl in E. discriminate.
Qed.

Definition rewards_ok (tbl : list (N * N)) : Prop :=
  NoDup (keys tbl) /\ Forall (fun pa => 0 < snd pa /\ snd pa < two64) tbl.

Lemma w64_small a : a < two64 -> w64 a = a.
Proof. intros H. unfold w64. apply N.mod_small. exact H. Qed.

Definition to3 (pa : N * N) : N * N * N := (fst pa, snd pa, 1).

Lemma map_oval_to3 l : Forall (fun pa => snd pa < two64) l -> map oval (map to3 l) = l.
Proof.
  induction l as [|[k v] r IH]; intros HF; [reflexivity|].
  inversion HF; subst.
  change (map oval (map to3 ((k, v) :: r))) with ((k, w64 v) :: map oval (map to3 r)).
  cbn [snd] in H1. rewrite (w64_small v H1). f_equal. apply IH. assumption.
Qed.

Lemma map_okey_to3 l : map okey (map to3 l) = keys l.
Proof. unfold keys. rewrite map_map. apply map_ext. intros [k v]. reflexivity. Qed.

Lemma Forall_filter {A} (Pp : A -> Prop) f (l : list A) : Forall Pp l -> Forall Pp (filter f l).
Proof.
  intros H. apply Forall_forall. intros x Hx. apply filter_In in Hx.
  rewrite Forall_forall in H. apply H. apply Hx.
Qed.

(* checkoutRewardCoinbase accepts createCoinbaseTx's outputs *)
Lemma pays_created script order tbl own oth :
  rewards_ok order -> Permutation order tbl ->
  cb_fold script 0 [] order = Some (own, oth) ->
  pays (map to3 ((script, own) :: oth)) tbl = true.
Proof.
  intros [Hnd HF] Hperm Hfold.
  apply cb_fold_spec in Hfold. destruct Hfold as [Hoth Hown]. cbn [app] in Hoth.
  assert (HFlt : Forall (fun pa : N * N => snd pa < two64) order).
  { eapply Forall_impl; [|exact HF]. intros pa [_ H]. exact H. }
  (* the map the validator builds *)
  assert (Hm : exists m, out_map true (map to3 ((script, own) :: oth)) [] = m /\
                         NoDup (keys m) /\ length m = length order /\
                         (forall k v, In (k, v) order -> In (k, v) m)).
  { destruct Hown as [[a [Hin [_ Ha]]]|[Hn Hz]].
    - specialize (Ha Hnd). subst own.
      assert (Hapos : 0 < a /\ a < two64).
      { rewrite Forall_forall in HF. apply (HF (script, a) Hin). }
      destruct Hapos as [Hapos Halt].
      cbn [map out_map]. unfold to3 at 1. cbn [fst snd andb].
      assert (Ea : (a =? 0) = false) by (apply N.eqb_neq; lia).
      rewrite Ea. cbn [tbl_add].
      rewrite out_map_fresh.
      + rewrite map_oval_to3 by (subst oth; apply Forall_filter; exact HFlt).
        rewrite (w64_small a Halt). cbn [app].
        eexists. split; [reflexivity|]. split; [|split].
        * cbn [keys map fst]. constructor.
          -- subst oth. intro H. apply keys_filter_in in H. destruct H as [_ H]. apply H. reflexivity.
          -- subst oth. apply NoDup_keys_filter. exact Hnd.
        * cbn [length]. subst oth. eapply filter_length; eassumption.
        * intros k v Hkv. destruct (N.eq_dec k script) as [->|Hne].
          -- left. f_equal. eapply nodup_keys_fun; eassumption.
          -- right. subst oth. apply filter_In. split; [exact Hkv|].
             unfold not_script. cbn. apply negb_true_iff. apply N.eqb_neq. exact Hne.
      + rewrite map_okey_to3. cbn [keys map fst app]. constructor.
        * subst oth. intro H. apply keys_filter_in in H. destruct H as [_ H]. apply H. reflexivity.
        * subst oth. apply NoDup_keys_filter. exact Hnd.
    - subst own. rewrite (filter_all _ _ Hn) in Hoth. subst oth.
      cbn [map out_map]. unfold to3 at 1. cbn [fst snd andb]. rewrite N.eqb_refl.
      rewrite out_map_fresh.
      + rewrite map_oval_to3 by exact HFlt. cbn [app].
        eexists. split; [reflexivity|]. split; [exact Hnd|]. split; [reflexivity|]. auto.
      + rewrite map_okey_to3. cbn [keys map app]. exact Hnd. }
  destruct Hm as [m [Hm [Hndm [Hlen Hin]]]].
  unfold pays. rewrite Hm. apply andb_true_intro. split.
  - apply PeanoNat.Nat.eqb_eq. rewrite Hlen. apply Permutation_length. exact Hperm.
  - apply forallb_forall. intros [k v] Hkv. cbn [fst snd]. apply N.eqb_eq.
    apply tbl_get_in; [exact Hndm|]. apply Hin.
    eapply Permutation_in; [apply Permutation_sym; exact Hperm|exact Hkv].
Qed.

Lemma forallb_to3 l : forallb (fun o : N * N * N => snd o =? 1) (map to3 l) = true.
Proof.
  apply forallb_forall. intros x Hx. apply in_map_iff in Hx. destruct Hx as [pa [<- _]]. reflexivity.
Qed.
