(* C38 — the hypothesis [cb_gas0] discharged on the value-level model of validation.ValidateTx
   (C01/Model.v, tied to the code by C01's own correspondence run): a transaction whose only
   input is a coinbase input is validated with GasUsed = 0 - for every VM, every iteration order
   of the parity map, every constant table, every block and every output list.  (The coinbase
   entry sets StorageGas to 0 before chargeStorageGas runs, and no program is run.) *)
From Coq Require Import ZArith NArith List Bool Lia.
From Verif Require Import Outcome GoInt.
From VerifGen Require Import Checked.
From C01 Require Import Model.
Import ListNotations.
Open Scope Z_scope.

Lemma add00 : AddInt64 0 0 = Some (0, true).
Proof. vm_compute. reflexivity. Qed.

Lemma set_gas_used cs g btm size g' : set_gas cs g btm size = Ok g' -> GasUsed g' = GasUsed g.
Proof.
  unfold set_gas. intros H.
  destruct (btm <? 0); [discriminate|].
  destruct (DivInt64 btm (c_gasrate cs)) as [[q [|]]|]; try discriminate.
  destruct (MulInt64 size (c_storagerate cs)) as [[sg [|]]|]; try discriminate.
  inversion H; subst. reflexivity.
Qed.

Lemma check_parity_used cs size : forall l g g',
  check_parity cs size l g = Ok g' -> GasUsed g' = GasUsed g.
Proof.
  induction l as [|[a amt] r IH]; intros g g' H; cbn [check_parity] in H.
  - inversion H; subst. reflexivity.
  - destruct (N.eqb a BTM).
    + destruct (set_gas cs g amt size) as [g1| |] eqn:E; try discriminate.
      rewrite (IH _ _ H). eapply set_gas_used. exact E.
    + destruct (amt =? 0); [apply IH; exact H|discriminate].
Qed.

Lemma charge_storage_zero g g' :
  GasUsed g = 0 -> StorageGas g = 0 -> charge_storage g = Ok g' -> GasUsed g' = 0.
Proof.
  intros Hu Hs H. unfold charge_storage in H. rewrite Hu, Hs in H.
  destruct (SubInt64 (GasLeft g) 0) as [[gl ok]|]; [|discriminate].
  destruct (negb ok || (gl <? 0)); [discriminate|].
  rewrite add00 in H. inversion H; subst. reflexivity.
Qed.

Section WithParams.
Variable cs : consts.
Variable vm : nat -> Z -> option Z.
Variable perm : pmap -> pmap.

Lemma check_results_done b t : forall outs g g',
  check_results cs vm perm b t outs true g = Ok g' -> g' = g.
Proof.
  induction outs as [|o r IH]; intros g g' H; cbn [check_results] in H.
  - inversion H; subst. reflexivity.
  - destruct (is_vote o && negb (o_aux o =? 64)); [discriminate|].
    destruct (is_vote o && (o_amount o <? c_minvote cs)); [discriminate|].
    destruct (is_vote o && negb (N.eqb (o_asset o) BTM)); [discriminate|].
    apply IH. exact H.
Qed.

Lemma check_mux_coinbase b t i g' :
  t_inputs t = [i] -> i_kind i = KCoinbase ->
  check_mux cs vm perm b t gas0 = Ok g' -> GasUsed g' = 0.
Proof.
  intros Hin Hk H. unfold check_mux in H.
  destruct (add_sources (mux_sources t) []) as [m1| |]; try discriminate.
  destruct (sub_dests (mux_dests t) m1) as [m2| |]; try discriminate.
  destruct (check_parity cs (wrap I64 (t_size t)) (perm m2) gas0) as [g1| |] eqn:Ep; try discriminate.
  apply check_parity_used in Ep. cbn in Ep.
  rewrite Hin in H. cbn [check_inputs existsb] in H.
  unfold check_input in H. rewrite Hk in H.
  destruct (negb (b_first b)); [discriminate|].
  destruct (mux_sources t) as [|[a0 v0] rest]; [discriminate|].
  destruct (negb (N.eqb a0 BTM)); [discriminate|].
  destruct (i_aux i >? c_arblimit cs); [discriminate|].
  cbn [Nat.eqb negb] in H.
  eapply charge_storage_zero; [| |exact H]; cbn; [exact Ep|reflexivity].
Qed.

(* validation.ValidateTx of a transaction whose only input is a coinbase input: GasUsed = 0 *)
Theorem coinbase_only_gas_zero b t i g :
  t_inputs t = [i] -> i_kind i = KCoinbase ->
  validate cs vm perm b t = Ok g -> GasUsed g = 0.
Proof.
  intros Hin Hk H. unfold validate in H.
  destruct ((b_version b =? 1) && negb (t_version t =? 1)); [discriminate|].
  destruct (t_size t =? 0); [discriminate|].
  destruct (negb (t_timerange t =? 0) && (t_timerange t <? b_height b)); [discriminate|].
  destruct (has_dup (map i_id (t_inputs t))); [discriminate|].
  destruct (check_results cs vm perm b t (t_outputs t) false gas0) as [g1| |] eqn:Er; try discriminate.
  destruct ((t_version t =? 1) && match t_outputs t with [] => true | _ => false end); [discriminate|].
  inversion H; subst g1. clear H.
  destruct (t_outputs t) as [|o r]; cbn [check_results] in Er.
  - inversion Er; subst. reflexivity.
  - destruct (is_vote o && negb (o_aux o =? 64)); [discriminate|].
    destruct (check_mux cs vm perm b t gas0) as [g2| |] eqn:Em; try discriminate.
    destruct (is_vote o && (o_amount o <? c_minvote cs)); [discriminate|].
    destruct (is_vote o && negb (N.eqb (o_asset o) BTM)); [discriminate|].
    apply check_results_done in Er. subst g.
    eapply check_mux_coinbase; eassumption.
Qed.

End WithParams.
