(* C38 — blocks proposed by the node pass the node's own validation.  PROPERTY THEOREMS ONLY.

   Model: C38/Model.v mirrors proposal/proposal.go (NewBlockTemplate: the pool sorted by arrival
   time, batches of 16, preValidateTxs with the per-transaction verdict, the utxo load/apply on the
   builder's running view and the gasLeft budget, timeout and soft-limit stops, createCoinbaseTx
   with the reward map iterated in any order, merkle root, signature), protocol/validation/block.go
   (ValidateBlockHeader, ValidateBlock, checkCoinbaseAmount), protocol/state/utxo_view.go
   (ApplyTransaction with its in-place spent marks, ApplyBlock), database/utxo_view.go (lazy load,
   saveUtxoView) and protocol/block.go (processBlock for a block that extends the best block).

   Universally quantified in every theorem: the consensus parameters P, the entry-graph
   transaction validator [core] (ANY function of height, coinbase position and transaction - the
   proposer and the block validator call the same one), the proposer schedule, the fork choice,
   the merkle and header hash functions, what MapTx makes of the coinbase ([cb_meta]); the chain
   state (best block, stored blocks, utxo table - any table), the previous checkpoint (any reward
   table), the iteration order of the reward map, the pool (any list of transactions of any
   size: valid, conflicting, chained, expired, immature, gas-heavy), the stop points of the two
   timers ([stop], any function of the batch index), the node's coinbase program and key, the
   requested timestamp and the validator's clock.

   Hypotheses:
     p_maxgas P < 2^64                      MaxBlockGas is a uint64 constant;
     wf_state st                            the best block is stored;
     wf_ck st ck                            the reward table of the previous checkpoint has one entry per
                                            program, every amount is positive and below 2^64 (a block adds at
                                            least half a block reward to its proposer's entry), and the
                                            checkpoint a block at height 1 consults (genesis) has no rewards;
     Permutation order (ck_rewards ck)      [order] is the reward map, iterated in any order;
     Forall admitted cands                  every pool transaction passed validation.ValidateTx under a
                                            Version-1 header at SOME height (how Chain.ValidateTx admits);
     me <> 0, proposer (ck_time ck) ts = me   the requested timestamp lies in the local key's slot;
     s_time st + interval <= ts <= now + offset   the timestamp window of checkBlockTime;
     cb_fresh st b                          the utxo table has no entry under the ids of the new coinbase's
                                            outputs (they commit to the new height through the coinbase input);
     cb_gas0 b                              validating the proposer's coinbase consumes no gas (its only input is
                                            the coinbase input: no program runs, storage gas is waived) - the
                                            proposer never checks that the coinbase fits into gasLeft;
     the fork choice returns the new block or the old best block (a third block: property C13).
   The asymmetries between proposer and validator - scratch header with Version 0 instead of 1,
   empty Transactions during pre-validation, a view that keeps the spent marks of rejected
   transactions and never sees the coinbase outputs - are part of the model and are proved
   irrelevant under these hypotheses. *)
From Coq Require Import List ZArith NArith Bool Permutation.
From C38 Require Import Model Utxo Coinbase Proofs Examples.
From C01 Require Model.
From C38 Require CoinbaseGas.
Import ListNotations.
Open Scope N_scope.

(* The block NewBlockTemplate returns passes ValidateBlock (header rules, every transaction valid,
   gas sum within MaxBlockGas, coinbase amounts, merkle root) and ApplyBlock on the node's utxo
   table; it extends the best block and every transaction in it other than the coinbase comes
   from the pool. *)
Theorem c38_valid :
  forall P core proposer merkle header_id cb_meta
         st ck order script me ts stop cands now b rem,
    p_maxgas P < two64 ->
    wf_ck st ck -> Permutation order (ck_rewards ck) ->
    Forall (admitted core) cands ->
    me <> 0 -> proposer (ck_time ck) ts = me ->
    s_time st + p_interval P <= ts -> ts <= now + p_offset P ->
    propose P core merkle header_id cb_meta st order script me ts stop cands = Some (b, rem) ->
    cb_fresh st b -> cb_gas0 core b ->
    validate_block P core proposer merkle now ck st b = VOk /\
    (exists m, apply_block P (s_utxo st) b = Some m) /\
    bparent b = s_best st /\ bheight b = s_height st + 1 /\
    incl (tl (btxs b)) cands.
Proof.
  intros P core proposer merkle header_id cb_meta. exact (proposed_valid P core proposer merkle header_id cb_meta).
Qed.
Print Assumptions c38_valid.

(* Fed back to the chain, the block is accepted: ProcessBlock returns (not orphan, no error), the
   block is stored, and when the fork choice returns it, it is the best block afterwards and the
   utxo table is the old one with the block applied (saveUtxoView's rule). *)
Theorem c38_accepts :
  forall P core proposer choose merkle header_id cb_meta
         st ck order script me ts stop cands now b rem,
    p_maxgas P < two64 ->
    wf_state st -> wf_ck st ck -> Permutation order (ck_rewards ck) ->
    Forall (admitted core) cands ->
    me <> 0 -> proposer (ck_time ck) ts = me ->
    s_time st + p_interval P <= ts -> ts <= now + p_offset P ->
    propose P core merkle header_id cb_meta st order script me ts stop cands = Some (b, rem) ->
    cb_fresh st b -> cb_gas0 core b ->
    (choose (stored_after st b) = bid b \/ choose (stored_after st b) = s_best st) ->
    exists s' m,
      process_block P core proposer choose merkle now ck st b
        = Some (s', (false, 0, choose (stored_after st b))) /\
      s_best s' = choose (stored_after st b) /\
      s_stored s' = stored_after st b /\ In (bid b) (s_stored s') /\
      apply_block P (s_utxo st) b = Some m /\
      (choose (stored_after st b) <> s_best st ->
         s_height s' = s_height st + 1 /\ s_utxo s' = normalise m).
Proof.
  intros P core proposer choose merkle header_id cb_meta.
  exact (proposed_accepted P core proposer choose merkle header_id cb_meta).
Qed.
Print Assumptions c38_accepts.

(* The same for the pool as the node holds it (arrival time, transaction), sorted by arrival time. *)
Theorem c38_accepts_pool :
  forall P core proposer choose merkle header_id cb_meta
         st ck order script me ts stop pool now b rem,
    p_maxgas P < two64 ->
    wf_state st -> wf_ck st ck -> Permutation order (ck_rewards ck) ->
    Forall (admitted core) (map snd pool) ->
    me <> 0 -> proposer (ck_time ck) ts = me ->
    s_time st + p_interval P <= ts -> ts <= now + p_offset P ->
    propose_pool P core merkle header_id cb_meta st order script me ts stop pool = Some (b, rem) ->
    cb_fresh st b -> cb_gas0 core b ->
    (choose (stored_after st b) = bid b \/ choose (stored_after st b) = s_best st) ->
    exists s' m,
      process_block P core proposer choose merkle now ck st b
        = Some (s', (false, 0, choose (stored_after st b))) /\
      s_best s' = choose (stored_after st b) /\ In (bid b) (s_stored s') /\
      apply_block P (s_utxo st) b = Some m /\
      incl (tl (btxs b)) (map snd pool).
Proof.
  intros P core proposer choose merkle header_id cb_meta.
  exact (proposed_accepted_pool P core proposer choose merkle header_id cb_meta).
Qed.
Print Assumptions c38_accepts_pool.

(* Proposer/validator asymmetry 1: for a pool-admitted transaction the verdict under the scratch
   header (Version 0) is the verdict under the real header (Version 1), at every height and
   position. *)
Theorem c38_scratch_header_irrelevant :
  forall core t h first,
    admitted core t ->
    validate_tx core 1 h first t = validate_tx core 0 h first t.
Proof.
  intros core t h first Ha. apply validate_tx_v1. apply (admitted_version core). exact Ha.
Qed.
Print Assumptions c38_scratch_header_irrelevant.

(* Proposer/validator asymmetry 2: whatever the builder's lazily loaded view (with the spent marks
   left by rejected transactions) lets a transaction spend, the validator's table lets it spend,
   and the relation between the two is kept. *)
Theorem c38_view_simulation :
  forall P h db t v V v',
    loaded db v (tspends t) -> R v db V ->
    apply_tx P h false v t = (true, v') ->
    exists V', apply_tx P h false V t = (true, V') /\ R v' db V'.
Proof. intros P h db t v V v'. exact (apply_tx_sim P h db t v V v'). Qed.
Print Assumptions c38_view_simulation.

(* createCoinbaseTx's outputs pass checkoutRewardCoinbase for EVERY iteration order of the reward map. *)
Theorem c38_coinbase_any_order :
  forall script order tbl own oth,
    rewards_ok order -> Permutation order tbl ->
    cb_fold script 0 [] order = Some (own, oth) ->
    pays (map to3 ((script, own) :: oth)) tbl = true.
Proof. exact pays_created. Qed.
Print Assumptions c38_coinbase_any_order.

(* The hypothesis [cb_gas0], on the value-level model of validation.ValidateTx (C01/Model.v, tied to
   the code by C01's correspondence run): a transaction whose only input is a coinbase input is
   validated with GasUsed = 0, for every VM, parity-map order, constant table, block, output list. *)
Theorem c38_coinbase_gas_zero :
  forall cs vm perm b t i g,
    C01.Model.t_inputs t = [i] -> C01.Model.i_kind i = C01.Model.KCoinbase ->
    C01.Model.validate cs vm perm b t = Outcome.Ok g -> C01.Model.GasUsed g = Z0.
Proof. exact CoinbaseGas.coinbase_only_gas_zero. Qed.
Print Assumptions c38_coinbase_gas_zero.

(* Necessity of the positivity hypothesis (what the code does when it fails): a reward entry of
   amount 0 under the proposer's own program makes the proposer's coinbase fail the validator's
   count - unreachable on a real chain, every block adds a positive subsidy. *)
Theorem c38_zero_reward_would_fail :
  pays (map to3 [(1, 0)]) [(1, 0)] = false.
Proof. exact zero_reward_fails. Qed.
Print Assumptions c38_zero_reward_would_fail.

(* The hypotheses are satisfiable by a non-trivial instance: an epoch-first block over a pool with a
   double-spend pair, a parent and its child and an expired transaction (C38/Examples.v). *)
Theorem c38_hypotheses_satisfiable : example_statement.
Proof. exact example_holds. Qed.
Print Assumptions c38_hypotheses_satisfiable.
