(* C38 — the hypotheses of the theorems are satisfiable by a non-trivial instance, and a witness
   for the necessity of the positivity hypothesis on rewards. *)
From Coq Require Import List NArith Bool Lia Permutation.
From C38 Require Import Model Utxo Coinbase Proofs.
Import ListNotations.
Open Scope N_scope.

Definition exP : params := mkP 4 6000 24000 10 (fun _ => 3) 10000000.

(* entry-graph validation: every transaction passes with 100 gas, a first transaction with 0 *)
Definition ex_core (h : N) (first : bool) (t : tx) : option N := if first then Some 0 else Some 100.
Definition ex_proposer (ck t : N) : N := 1.
Definition ex_choose (l : list N) : N := last l 0.
Definition ex_merkle (ids : list N) : N := fold_left (fun a i => a * 1000 + i) ids 1.
Definition ex_header (p h t r : N) : N := 101.
Definition ex_cbmeta (h : N) (outs : list (N * N)) : N * N * list N := (50, 120, [60; 61]).

Definition ex_db : umap :=
  fun o => match o with
           | 1 => Some (mkE Normal 5 false)
           | 2 => Some (mkE Normal 6 false)
           | 3 => Some (mkE Coinbase 17 false)      (* matures at 27 *)
           | _ => None
           end.

Definition ex_st : cstate := mkS 100 20 1000000 [99; 100] ex_db.
Definition ex_ck : ckpt := mkCk 990000 [(7, 500); (8, 300)].
Definition ex_order : list (N * N) := [(8, 300); (7, 500)].     (* the map iterated the other way *)

Definition t1 := mkT 11 1 200 0 [1] [(21, Normal); (22, Normal)].
Definition t2 := mkT 12 1 200 0 [1] [(23, Normal)].               (* double spend of output 1 *)
Definition t3 := mkT 13 1 200 0 [21] [(24, Vote)].                (* child of t1 *)
Definition t4 := mkT 14 1 200 20 [2] [(25, Normal)].              (* time range 20: expired at height 21 *)
Definition t5 := mkT 15 1 200 0 [3] [(26, Normal)].               (* immature coinbase spend *)
Definition t6 := mkT 16 1 200 0 [2] [(27, Normal)].
Definition ex_pool : list (N * tx) := [(3, t3); (1, t1); (2, t2); (6, t6); (4, t4); (5, t5)].

Definition ex_result :=
  propose_pool exP ex_core ex_merkle ex_header ex_cbmeta ex_st ex_order 7 1 1006000 (fun _ => false) ex_pool.

Definition example_statement : Prop :=
  exists b rem,
    ex_result = Some (b, rem) /\
    map tid (btxs b) = [50; 11; 13; 16] /\ map tid rem = [12; 14; 15] /\
    bcb b = [(7, 500, 1); (8, 300, 1)] /\
    p_maxgas exP < two64 /\ wf_state ex_st /\ wf_ck ex_st ex_ck /\
    Permutation ex_order (ck_rewards ex_ck) /\
    Forall (admitted ex_core) (map snd ex_pool) /\
    ex_proposer (ck_time ex_ck) 1006000 = 1 /\
    s_time ex_st + p_interval exP <= 1006000 /\ 1006000 <= 1006000 + p_offset exP /\
    cb_fresh ex_st b /\ cb_gas0 ex_core b /\
    ex_choose (stored_after ex_st b) = bid b /\
    match process_block exP ex_core ex_proposer ex_choose ex_merkle 1006000 ex_ck ex_st b with
    | Some (s', o) => o = (false, 0, 101) /\ s_best s' = 101 /\ s_height s' = 21 /\
                      s_utxo s' 1 = None /\ s_utxo s' 22 = Some (mkE Normal 21 false) /\
                      s_utxo s' 24 = Some (mkE Vote 21 false) /\ s_utxo s' 60 = Some (mkE Coinbase 21 false)
    | None => False
    end.

Lemma example_holds : example_statement.
Proof.
  unfold example_statement.
  destruct ex_result as [[b rem]|] eqn:E; [|vm_compute in E; discriminate].
  vm_compute in E. inversion E; subst b rem. clear E.
  eexists. eexists. split; [reflexivity|].
  split; [reflexivity|]. split; [reflexivity|]. split; [reflexivity|].
  split; [reflexivity|].
  split; [right; left; reflexivity|].
  split.
  { split.
    - split.
      + cbn. constructor; [intros [H|[]]; discriminate|]. constructor; [intros []|constructor].
      + repeat constructor.
    - intros H. discriminate. }
  split; [apply perm_swap|].
  split.
  { cbn [map snd ex_pool]. repeat constructor; exists 20; vm_compute; discriminate. }
  split; [reflexivity|].
  split; [vm_compute; discriminate|].
  split; [vm_compute; discriminate|].
  split.
  { cbn. intros o [H|[H|[]]]; subst; reflexivity. }
  split.
  { cbn. intros g H. inversion H. reflexivity. }
  split; [reflexivity|].
  vm_compute. repeat split; reflexivity.
Qed.

Lemma zero_reward_fails : pays (map to3 [(1, 0)]) [(1, 0)] = false.
Proof. reflexivity. Qed.
