(* C38 — the builder's running view against the validator's table.

   R v db V: every entry that is unspent in the builder's effective map (view over db) is
   present, identical, in the validator's table V.  The builder's map may carry extra "spent"
   marks (left behind by transactions it rejected half way); V may carry extra entries (the
   outputs of the new coinbase).  Both are harmless: what the builder spends, the validator can
   spend. *)
From Coq Require Import List NArith Bool Lia.
From C38 Require Import Model.
Import ListNotations.
Open Scope N_scope.

Definition eff (v db : umap) : umap := fun o => match v o with Some e => Some e | None => db o end.

Definition R (v db V : umap) : Prop :=
  forall o e, eff v db o = Some e -> espent e = false -> V o = Some e.

Lemma uset_same m k e : uset m k e k = Some e.
Proof. unfold uset. rewrite N.eqb_refl. reflexivity. Qed.

Lemma uset_other m k e x : x <> k -> uset m k e x = m x.
Proof. intros H. unfold uset. apply N.eqb_neq in H. rewrite H. reflexivity. Qed.

Lemma R_uset v db V o e : R v db V -> R (uset v o e) db (uset V o e).
Proof.
  intros HR x ex Hx Hs. unfold eff in Hx.
  destruct (N.eq_dec x o) as [->|Hne].
  - rewrite uset_same in Hx |- *. exact Hx.
  - rewrite uset_other in Hx |- * by exact Hne. apply HR; assumption.
Qed.

(* marking an entry spent on the builder's side only *)
Lemma R_spent_left v db V o e : espent e = true -> R v db V -> R (uset v o e) db V.
Proof.
  intros He HR x ex Hx Hs. unfold eff in Hx.
  destruct (N.eq_dec x o) as [->|Hne].
  - rewrite uset_same in Hx. inversion Hx; subst. congruence.
  - rewrite uset_other in Hx by exact Hne. apply HR; assumption.
Qed.

(* ---- load ------------------------------------------------------------------------------ *)

Lemma eff_load1 db v o x : eff (load1 db v o) db x = eff v db x.
Proof.
  unfold load1. destruct (v o) eqn:Hv; [reflexivity|].
  destruct (db o) eqn:Hd; [|reflexivity].
  unfold eff. destruct (N.eq_dec x o) as [->|Hne].
  - rewrite uset_same, Hv, Hd. reflexivity.
  - rewrite uset_other by exact Hne. reflexivity.
Qed.

Lemma eff_load db sps : forall v x, eff (load db v sps) db x = eff v db x.
Proof.
  induction sps as [|o r IH]; intros v x; cbn [load]; [reflexivity|].
  rewrite IH. apply eff_load1.
Qed.

Lemma R_load db sps v V : R v db V -> R (load db v sps) db V.
Proof. intros HR o e H. rewrite eff_load in H. apply HR; exact H. Qed.

Lemma load1_keeps db v o x : v x <> None -> load1 db v o x <> None.
Proof.
  intros H. unfold load1. destruct (v o); [exact H|]. destruct (db o); [|exact H].
  unfold uset. destruct (x =? o); [discriminate|exact H].
Qed.

Lemma load_keeps db sps : forall v x, v x <> None -> load db v sps x <> None.
Proof.
  induction sps as [|o r IH]; intros v x H; cbn [load]; [exact H|].
  apply IH. apply load1_keeps. exact H.
Qed.

Lemma load1_loaded db v o : load1 db v o o = None -> db o = None.
Proof.
  unfold load1. destruct (v o) eqn:Hv.
  - rewrite Hv. discriminate.
  - destruct (db o) eqn:Hd; [|reflexivity]. rewrite uset_same. discriminate.
Qed.

(* after the load every input of the transaction is in the view unless the db has no entry *)
Definition loaded (db v : umap) (sps : list N) : Prop :=
  forall o, In o sps -> v o = None -> db o = None.

Lemma load_loaded db sps : forall v, loaded db (load db v sps) sps.
Proof.
  induction sps as [|o r IH]; intros v x Hin Hn; [destruct Hin|].
  cbn [load] in Hn. destruct Hin as [->|Hin].
  - destruct (load1 db v x x) eqn:H1.
    + exfalso. eapply load_keeps; [|exact Hn]. rewrite H1. discriminate.
    + apply load1_loaded in H1. exact H1.
  - eapply IH; eassumption.
Qed.

Section WithP.
Variable P : params.

(* ---- applySpendUtxo -------------------------------------------------------------------- *)

(* it only ever marks entries spent *)
Lemma spends_mono h sps : forall m ok m',
  apply_spends P h m sps = (ok, m') ->
  (forall o e, m' o = Some e -> espent e = false -> m o = Some e) /\
  (forall o, m' o = None -> m o = None).
Proof.
  induction sps as [|o r IH]; intros m ok m' H; cbn [apply_spends] in H.
  - inversion H; subst. split; auto.
  - destruct (m o) as [e|] eqn:Hm; [|inversion H; subst; split; auto].
    destruct (espent e) eqn:Hs; [inversion H; subst; split; auto|].
    destruct (mature P h e); [|inversion H; subst; split; auto].
    apply IH in H. destruct H as [H1 H2]. split.
    + intros x ex Hx Hsx. specialize (H1 x ex Hx Hsx).
      destruct (N.eq_dec x o) as [->|Hne].
      * rewrite uset_same in H1. inversion H1; subst. discriminate.
      * rewrite uset_other in H1 by exact Hne. exact H1.
    + intros x Hx. specialize (H2 x Hx).
      destruct (N.eq_dec x o) as [->|Hne].
      * rewrite uset_same in H2. discriminate.
      * rewrite uset_other in H2 by exact Hne. exact H2.
Qed.

Lemma R_mono v v' db V :
  (forall o e, v' o = Some e -> espent e = false -> v o = Some e) ->
  (forall o, v' o = None -> v o = None) ->
  R v db V -> R v' db V.
Proof.
  intros H1 H2 HR o e He Hs. apply HR; [|exact Hs]. unfold eff in *.
  destruct (v' o) as [e'|] eqn:Hv'.
  - inversion He; subst. rewrite (H1 o e Hv' Hs). reflexivity.
  - rewrite (H2 o Hv'). exact He.
Qed.

Lemma spends_fail_R h sps v ok v' db V :
  apply_spends P h v sps = (ok, v') -> R v db V -> R v' db V.
Proof.
  intros H HR. apply spends_mono in H. destruct H as [H1 H2].
  eapply R_mono; eassumption.
Qed.

(* what the builder's view lets through, the validator's table lets through *)
Lemma spends_sim h db sps : forall v V v',
  loaded db v sps -> R v db V ->
  apply_spends P h v sps = (true, v') ->
  exists V', apply_spends P h V sps = (true, V') /\ R v' db V'.
Proof.
  induction sps as [|o r IH]; intros v V v' Hl HR H; cbn [apply_spends] in H |- *.
  - inversion H; subst. exists V. split; [reflexivity|exact HR].
  - destruct (v o) as [e|] eqn:Hv; [|discriminate].
    destruct (espent e) eqn:Hs; [discriminate|].
    destruct (mature P h e) eqn:Hmat; [|discriminate].
    assert (HV : V o = Some e).
    { apply HR; [|exact Hs]. unfold eff. rewrite Hv. reflexivity. }
    rewrite HV, Hs, Hmat.
    eapply IH; [| |exact H].
    + intros x Hin Hx. destruct (N.eq_dec x o) as [->|Hne].
      * rewrite uset_same in Hx. discriminate.
      * rewrite uset_other in Hx by exact Hne. apply Hl; [right; exact Hin|exact Hx].
    + apply R_uset. exact HR.
Qed.

Lemma R_apply_outs h cb db outs : forall v V,
  R v db V -> R (apply_outs h cb v outs) db (apply_outs h cb V outs).
Proof.
  induction outs as [|[o t] r IH]; intros v V HR; cbn [apply_outs]; [exact HR|].
  apply IH. apply R_uset. exact HR.
Qed.

Lemma apply_tx_sim h db t v V v' :
  loaded db v (tspends t) -> R v db V ->
  apply_tx P h false v t = (true, v') ->
  exists V', apply_tx P h false V t = (true, V') /\ R v' db V'.
Proof.
  intros Hl HR H. unfold apply_tx in *.
  destruct (apply_spends P h v (tspends t)) as [ok v1] eqn:Hs.
  destruct ok; [|discriminate]. inversion H; subst.
  destruct (spends_sim h db _ _ _ _ Hl HR Hs) as [V1 [HV1 HR1]].
  rewrite HV1. eexists. split; [reflexivity|]. apply R_apply_outs. exact HR1.
Qed.

Lemma apply_tx_fail_R h db t v V v' :
  R v db V -> apply_tx P h false v t = (false, v') -> R v' db V.
Proof.
  intros HR H. unfold apply_tx in H.
  destruct (apply_spends P h v (tspends t)) as [ok v1] eqn:Hs.
  destruct ok; [discriminate|]. inversion H; subst.
  eapply spends_fail_R; eassumption.
Qed.

(* ---- the coinbase outputs are new ----------------------------------------------------- *)

Lemma apply_outs_other h cb outs : forall m x,
  ~ In x (map fst outs) -> apply_outs h cb m outs x = m x.
Proof.
  induction outs as [|[o t] r IH]; intros m x Hn; cbn [apply_outs]; [reflexivity|].
  rewrite IH by (intro; apply Hn; right; assumption).
  apply uset_other. intro; subst. apply Hn. left. reflexivity.
Qed.

Lemma R_init h db outs :
  (forall o, In o (map fst outs) -> db o = None) ->
  R uempty db (apply_outs h true db outs).
Proof.
  intros Hf o e He Hs. unfold eff, uempty in He.
  rewrite apply_outs_other; [exact He|].
  intro Hin. rewrite (Hf o Hin) in He. discriminate.
Qed.

Lemma apply_txs_app h : forall a m b m1,
  apply_txs P h false m a = Some m1 ->
  apply_txs P h false m (a ++ b) = apply_txs P h false m1 b.
Proof.
  induction a as [|t a IH]; intros m b m1 H; cbn [apply_txs app] in *.
  - inversion H; subst. reflexivity.
  - destruct (apply_tx P h false m t) as [ok m2]. destruct ok; [|discriminate].
    apply IH. exact H.
Qed.

End WithP.
