(* C38 — the proposer's block passes the validator: composition.
   (i)   every transaction preValidateTxs keeps is individually valid for the validator too
         (same function; the scratch header's Version 0 only skips the transaction-version test,
         which pool admission has already made);
   (ii)  the running view accepted the kept transactions in order, so ApplyBlock on the table
         succeeds (C38/Utxo.v);
   (iii) the gasLeft bookkeeping bounds the block's gas sum by MaxBlockGas;
   (iv)  createCoinbaseTx's outputs pass checkCoinbaseAmount for every map order (C38/Coinbase.v). *)
From Coq Require Import List Arith NArith Bool Lia Permutation.
From C38 Require Import Model Utxo Coinbase.
Import ListNotations.
Open Scope N_scope.

Section Proofs.
Variable P : params.
Variable core : N -> bool -> tx -> option N.
Variable proposer : N -> N -> N.
Variable choose : list N -> N.
Variable merkle : list N -> N.
Variable header_id : N -> N -> N -> N -> N.
Variable cb_meta : N -> list (N * N) -> N * N * list N.

Notation validate_tx := (validate_tx core).
Notation pre_validate := (pre_validate P core).
Notation run_batches := (run_batches P core).
Notation propose := (propose P core merkle header_id cb_meta).
Notation validate_block := (validate_block P core proposer merkle).
Notation process_block := (process_block P core proposer choose merkle).

(* ---- per-transaction validation: proposer's scratch header vs the real header ---------- *)

Lemma validate_tx_v1 h f t : tversion t = 1 -> validate_tx 1 h f t = validate_tx 0 h f t.
Proof. intros Hv. unfold Model.validate_tx. rewrite Hv. reflexivity. Qed.

Lemma validate_tx_core bv h f t g : validate_tx bv h f t = Some g -> core h f t = Some g.
Proof.
  unfold Model.validate_tx. intros H.
  destruct ((bv =? 1) && negb (tversion t =? 1)); [discriminate|].
  destruct (tsize t =? 0); [discriminate|].
  destruct (negb (ttimerange t =? 0) && (ttimerange t <? h)); [discriminate|]. exact H.
Qed.

(* a transaction the pool admitted (Chain.ValidateTx: validation.ValidateTx under the best block's
   header, whose Version is 1) has version 1 *)
Definition admitted (t : tx) : Prop := exists h0, validate_tx 1 h0 false t <> None.

Lemma admitted_version t : admitted t -> tversion t = 1.
Proof.
  intros [h0 H]. unfold Model.validate_tx in H.
  destruct (tversion t =? 1) eqn:E; [apply N.eqb_eq in E; exact E|].
  exfalso. apply H. reflexivity.
Qed.

Definition valid0 (h : N) (t : tx) : Prop := exists g, validate_tx 0 h false t = Some g.
Definition gas_of (h : N) (t : tx) : N :=
  match validate_tx 0 h false t with Some g => g | None => 0 end.
Definition gas_sum (h : N) (l : list tx) : N := fold_right (fun t s => gas_of h t + s) 0 l.

Lemma gas_sum_app h a b : gas_sum h (a ++ b) = gas_sum h a + gas_sum h b.
Proof. induction a as [|t a IH]; cbn [gas_sum fold_right app] in *; [reflexivity|]. fold (gas_sum h (a ++ b)). fold (gas_sum h a). rewrite IH. lia. Qed.

Lemma kept_cons_true t res : kept ((t, true) :: res) = t :: kept res.
Proof. reflexivity. Qed.
Lemma kept_cons_false t res : kept ((t, false) :: res) = kept res.
Proof. reflexivity. Qed.

(* ---- preValidateTxs on one batch --------------------------------------------------------- *)

Lemma pre_validate_inv h db : forall txs v gas V res v' gas',
  R v db V ->
  pre_validate h db v gas txs = (res, v', gas') ->
  exists V',
    apply_txs P h false V (kept res) = Some V' /\ R v' db V' /\
    gas_sum h (kept res) + gas' = gas /\
    Forall (valid0 h) (kept res) /\ incl (kept res) txs.
Proof.
  induction txs as [|t r IH]; intros v gas V res v' gas' HR H; cbn [Model.pre_validate] in H.
  - inversion H; subst. exists V. cbn. repeat split; auto. intros x [].
  - destruct (gas =? 0) eqn:Eg.
    { inversion H; subst. exists V. cbn. repeat split; auto. intros x []. }
    destruct (validate_tx 0 h false t) as [gu|] eqn:Hv.
    + destruct (gas <? gu) eqn:Elt.
      { inversion H; subst. exists V. cbn. repeat split; auto.
        - apply R_load. exact HR.
        - intros x []. }
      apply N.ltb_ge in Elt.
      destruct (apply_tx P h false (load db v (tspends t)) t) as [ok v2] eqn:Ha.
      destruct ok.
      * destruct (pre_validate h db v2 (gas - gu) r) as [[res1 v1] g1] eqn:Hr.
        inversion H; subst. clear H.
        destruct (apply_tx_sim P h db t _ V v2 (load_loaded db (tspends t) v) (R_load db _ v V HR) Ha)
          as [V1 [HV1 HR1]].
        destruct (IH _ _ _ _ _ _ HR1 Hr) as [V' [HA [HR' [Hg [HF Hi]]]]].
        exists V'. rewrite kept_cons_true. split; [|split; [|split; [|split]]].
        -- cbn [apply_txs]. rewrite HV1. exact HA.
        -- exact HR'.
        -- cbn [gas_sum fold_right]. fold (gas_sum h (kept res1)).
           unfold gas_of. rewrite Hv. lia.
        -- constructor; [exists gu; exact Hv|exact HF].
        -- intros x [Hx|Hx]; [left; exact Hx|right; apply Hi; exact Hx].
      * destruct (pre_validate h db v2 gas r) as [[res1 v1] g1] eqn:Hr.
        inversion H; subst. clear H.
        assert (HR2 : R v2 db V).
        { eapply apply_tx_fail_R; [|exact Ha]. apply R_load. exact HR. }
        destruct (IH _ _ _ _ _ _ HR2 Hr) as [V' [HA [HR' [Hg [HF Hi]]]]].
        exists V'. rewrite kept_cons_false. repeat split; auto.
        intros x Hx. right. apply Hi. exact Hx.
    + destruct (pre_validate h db v gas r) as [[res1 v1] g1] eqn:Hr.
      inversion H; subst. clear H.
      destruct (IH _ _ _ _ _ _ HR Hr) as [V' [HA [HR' [Hg [HF Hi]]]]].
      exists V'. rewrite kept_cons_false. repeat split; auto.
      intros x Hx. right. apply Hi. exact Hx.
Qed.

(* ---- applyTransactions: all batches ------------------------------------------------------ *)

Lemma run_batches_inv h db stop V0 G : forall bs i v gas acc rem V accR remR vR gasR,
  apply_txs P h false V0 acc = Some V -> R v db V ->
  gas_sum h acc + gas = G -> Forall (valid0 h) acc ->
  run_batches h db stop i v gas acc rem bs = (accR, remR, vR, gasR) ->
  exists V', apply_txs P h false V0 accR = Some V' /\
             gas_sum h accR <= G /\ Forall (valid0 h) accR /\
             incl accR (acc ++ concat bs).
Proof.
  induction bs as [|b r IH]; intros i v gas acc rem V accR remR vR gasR HA HR Hg HF H;
    cbn [Model.run_batches] in H.
  - inversion H; subst. exists V. repeat split; auto; [lia|].
    cbn [concat]. rewrite app_nil_r. apply incl_refl.
  - destruct (pre_validate h db v gas b) as [[res v'] gas'] eqn:Hp.
    destruct (pre_validate_inv h db _ _ _ _ _ _ _ HR Hp) as [V1 [HA1 [HR1 [Hg1 [HF1 Hi1]]]]].
    assert (HA2 : apply_txs P h false V0 (acc ++ kept res) = Some V1).
    { rewrite (apply_txs_app P h acc V0 (kept res) V HA). exact HA1. }
    assert (Hg2 : gas_sum h (acc ++ kept res) + gas' = G).
    { rewrite gas_sum_app. lia. }
    assert (HF2 : Forall (valid0 h) (acc ++ kept res)).
    { apply Forall_app. split; assumption. }
    assert (Hi2 : incl (acc ++ kept res) (acc ++ concat (b :: r))).
    { cbn [concat]. apply incl_app; [apply incl_appl, incl_refl|].
      apply incl_appr. apply incl_appl. exact Hi1. }
    destruct (stop i || Nat.ltb soft_max (S (length (acc ++ kept res)))).
    + inversion H; subst. exists V1. repeat split; auto. lia.
    + destruct (IH _ _ _ _ _ _ _ _ _ _ HA2 HR1 Hg2 HF2 H) as [V' [HA' [Hg' [HF' Hi']]]].
      exists V'. repeat split; auto.
      intros x Hx. apply Hi' in Hx. apply in_app_or in Hx. destruct Hx as [Hx|Hx].
      * apply Hi2. exact Hx.
      * cbn [concat]. apply in_or_app. right. apply in_or_app. right. exact Hx.
Qed.

Lemma concat_batches_aux : forall l cur, concat (batches_aux cur l) = rev cur ++ l.
Proof.
  induction l as [|t r IH]; intros cur; cbn [batches_aux].
  - destruct cur; [reflexivity|]. cbn [concat]. rewrite app_nil_r. reflexivity.
  - destruct (Nat.leb batch_num (length (t :: cur))).
    + cbn [concat]. rewrite IH. cbn [rev app]. rewrite <- app_assoc. reflexivity.
    + rewrite IH. cbn [rev]. rewrite <- app_assoc. reflexivity.
Qed.

Lemma concat_batches l : concat (batches l) = l.
Proof. unfold batches. rewrite concat_batches_aux. reflexivity. Qed.

(* ---- the validator's loop over the transactions -------------------------------------------- *)

Lemma check_txs_ok h : forall acc sum,
  p_maxgas P < two64 ->
  Forall (fun t => tversion t = 1) acc -> Forall (valid0 h) acc ->
  sum + gas_sum h acc <= p_maxgas P ->
  check_txs P core h false sum acc = VOk.
Proof.
  induction acc as [|t r IH]; intros sum Hm Hv HF Hs; cbn [check_txs]; [reflexivity|].
  inversion Hv; subst. inversion HF; subst.
  cbn [gas_sum fold_right] in Hs. fold (gas_sum h r) in Hs.
  rewrite validate_tx_v1 by assumption.
  destruct H3 as [g Hg]. unfold gas_of in Hs. rewrite Hg in Hs. rewrite Hg.
  rewrite w64_small by lia.
  destruct (p_maxgas P <? sum + g) eqn:E; [apply N.ltb_lt in E; lia|].
  apply IH; auto. lia.
Qed.

(* ---- hypotheses of the theorem ------------------------------------------------------------- *)

Definition wf_state (st : cstate) : Prop := In (s_best st) (s_stored st).

Definition wf_ck (st : cstate) (ck : ckpt) : Prop :=
  rewards_ok (ck_rewards ck) /\ (s_height st = 0 -> ck_rewards ck = []).

(* the outputs of the new coinbase (their ids commit to the new height) are not in the table *)
Definition cb_fresh (st : cstate) (b : blk) : Prop :=
  match btxs b with
  | cb :: _ => forall o, In o (map fst (touts cb)) -> s_utxo st o = None
  | [] => True
  end.

(* validation of the proposer's coinbase consumes no gas (its only input is the coinbase input:
   no program runs and the storage gas is waived) *)
Definition cb_gas0 (b : blk) : Prop :=
  match btxs b with
  | cb :: _ => forall g, core (bheight b) true cb = Some g -> g = 0
  | [] => True
  end.

Definition stored_after (st : cstate) (b : blk) : list N :=
  if existsb (N.eqb (bid b)) (s_stored st) then s_stored st else s_stored st ++ [bid b].

Lemma rewards_ok_perm a b : Permutation a b -> rewards_ok b -> rewards_ok a.
Proof.
  intros Hp [Hnd HF]. split.
  - eapply Permutation_NoDup; [|exact Hnd]. unfold keys. apply Permutation_map.
    apply Permutation_sym. exact Hp.
  - apply Forall_forall. intros x Hx. rewrite Forall_forall in HF. apply HF.
    eapply Permutation_in; eassumption.
Qed.

Lemma existsb_in x l : In x l -> existsb (N.eqb x) l = true.
Proof. intros H. apply existsb_exists. exists x. split; [exact H|apply N.eqb_refl]. Qed.

(* ---- the block passes ValidateBlock and ApplyBlock ----------------------------------------- *)

Lemma proposed_valid st ck order script me ts stop cands now b rem :
  p_maxgas P < two64 ->
  wf_ck st ck -> Permutation order (ck_rewards ck) ->
  Forall admitted cands ->
  me <> 0 -> proposer (ck_time ck) ts = me ->
  s_time st + p_interval P <= ts -> ts <= now + p_offset P ->
  propose st order script me ts stop cands = Some (b, rem) ->
  cb_fresh st b -> cb_gas0 b ->
  validate_block now ck st b = VOk /\
  (exists m, apply_block P (s_utxo st) b = Some m) /\
  bparent b = s_best st /\ bheight b = s_height st + 1 /\
  incl (tl (btxs b)) cands.
Proof.
  intros Hmax [Hrw Hgen] Hperm Hadm Hme Hslot Htime Hoff Hprop Hfresh Hgas0.
  unfold Model.propose in Hprop.
  set (h := s_height st + 1) in *.
  destruct (run_batches h (s_utxo st) stop 0 uempty (p_maxgas P) [] [] (batches cands))
    as [[[acc rem0] vv] gg] eqn:Hrb.
  destruct (create_coinbase P h script order) as [outs|] eqn:Hcb; [|discriminate].
  destruct (cb_meta h outs) as [[cid csz] couts] eqn:Hmeta.
  set (cbtx := mkT cid 1 csz 0 [] (map (fun o => (o, Normal)) couts)) in *.
  destruct (validate_tx 0 h true cbtx) as [g0|] eqn:Hvcb; [|discriminate].
  inversion Hprop; subst b rem. clear Hprop.
  unfold cb_fresh in Hfresh. unfold cb_gas0 in Hgas0. cbn [btxs bheight] in Hfresh, Hgas0.
  (* the validator's table after the coinbase *)
  set (V0 := apply_outs h true (s_utxo st) (touts cbtx)).
  assert (HR0 : R uempty (s_utxo st) V0) by (apply R_init; exact Hfresh).
  assert (HA0 : apply_txs P h false V0 [] = Some V0) by reflexivity.
  assert (HG0 : gas_sum h [] + p_maxgas P = p_maxgas P) by apply N.add_0_l.
  destruct (run_batches_inv h (s_utxo st) stop V0 (p_maxgas P) _ _ _ _ _ _ _ _ _ _ _
              HA0 HR0 HG0 (Forall_nil _) Hrb)
    as [V' [HA [Hg [HF Hi]]]].
  cbn [app] in Hi. rewrite concat_batches in Hi.
  assert (Hver : Forall (fun t => tversion t = 1) acc).
  { apply Forall_forall. intros t Ht. apply admitted_version.
    rewrite Forall_forall in Hadm. apply Hadm. apply Hi. exact Ht. }
  assert (Hg0 : g0 = 0) by (apply Hgas0; eapply validate_tx_core; exact Hvcb).
  subst g0.
  split; [|split; [|split; [|split]]].
  - unfold Model.validate_block.
    cbn [bversion bheight bparent btime bsig btxs broot bcb].
    fold h. rewrite !N.eqb_refl. cbn [negb].
    destruct (ts <? s_time st + p_interval P) eqn:E1; [apply N.ltb_lt in E1; lia|].
    destruct (now + p_offset P <? ts) eqn:E2; [apply N.ltb_lt in E2; lia|].
    rewrite Hslot, N.eqb_refl. cbn [negb orb].
    destruct (me =? 0) eqn:E3; [apply N.eqb_eq in E3; contradiction|].
    cbn [check_txs].
    rewrite validate_tx_v1 by reflexivity. rewrite Hvcb.
    change (w64 (0 + 0)) with 0.
    destruct (p_maxgas P <? 0) eqn:E4; [apply N.ltb_lt in E4; lia|].
    rewrite (check_txs_ok h acc 0 Hmax Hver HF) by lia.
    match goal with |- context [check_coinbase P ck ?B] =>
      assert (Hcc : check_coinbase P ck B = true) end.
    { unfold check_coinbase. cbn [btxs bcb bheight].
      change (map (fun pa : N * N => (fst pa, snd pa, 1)) outs) with (map to3 outs).
      rewrite forallb_to3. cbn [andb].
      unfold create_coinbase in Hcb.
      destruct (h mod p_epoch P =? 1) eqn:Ee.
      - destruct (h =? 1) eqn:E1'.
        + cbn [negb andb] in Hcb. inversion Hcb; subst outs.
          apply N.eqb_eq in E1'. assert (Hz : s_height st = 0) by (unfold h in E1'; lia).
          rewrite (Hgen Hz). reflexivity.
        + cbn [negb andb] in Hcb.
          destruct (cb_fold script 0 [] order) as [[own oth]|] eqn:Hfold; [|discriminate].
          inversion Hcb; subst outs.
          eapply pays_created; [|exact Hperm|exact Hfold].
          eapply rewards_ok_perm; eassumption.
      - cbn [andb] in Hcb. inversion Hcb; subst outs. reflexivity. }
    rewrite Hcc. reflexivity.
  - exists V'. unfold apply_block. cbn [bheight btxs apply_txs].
    unfold apply_tx. cbn [tspends apply_spends]. fold V0. exact HA.
  - reflexivity.
  - reflexivity.
  - cbn [btxs tl]. exact Hi.
Qed.

(* ---- fed back to the chain ------------------------------------------------------------------ *)

Lemma proposed_accepted st ck order script me ts stop cands now b rem :
  p_maxgas P < two64 ->
  wf_state st -> wf_ck st ck -> Permutation order (ck_rewards ck) ->
  Forall admitted cands ->
  me <> 0 -> proposer (ck_time ck) ts = me ->
  s_time st + p_interval P <= ts -> ts <= now + p_offset P ->
  propose st order script me ts stop cands = Some (b, rem) ->
  cb_fresh st b -> cb_gas0 b ->
  (choose (stored_after st b) = bid b \/ choose (stored_after st b) = s_best st) ->
  exists s' m,
    process_block now ck st b = Some (s', (false, 0, choose (stored_after st b))) /\
    s_best s' = choose (stored_after st b) /\
    s_stored s' = stored_after st b /\ In (bid b) (s_stored s') /\
    apply_block P (s_utxo st) b = Some m /\
    (choose (stored_after st b) <> s_best st ->
       s_height s' = s_height st + 1 /\ s_utxo s' = normalise m).
Proof.
  intros Hmax Hwf Hck Hperm Hadm Hme Hslot Htime Hoff Hprop Hfresh Hgas0 Hch.
  destruct (proposed_valid st ck order script me ts stop cands now b rem
              Hmax Hck Hperm Hadm Hme Hslot Htime Hoff Hprop Hfresh Hgas0)
    as [Hval [[m Hm] [Hpar [Hh _]]]].
  assert (Hin : In (bid b) (stored_after st b)).
  { unfold stored_after. destruct (existsb (N.eqb (bid b)) (s_stored st)) eqn:E.
    - apply existsb_exists in E. destruct E as [x [Hx Hxe]]. apply N.eqb_eq in Hxe. subst. exact Hx.
    - apply in_or_app. right. left. reflexivity. }
  unfold Model.process_block. fold (stored_after st b).
  assert (Hle : (bheight b <=? s_height st) = false) by (apply N.leb_gt; lia).
  rewrite Hle, andb_false_r.
  rewrite Hpar. rewrite (existsb_in _ _ Hwf). cbn [negb]. rewrite N.eqb_refl. cbn [negb].
  rewrite Hval.
  destruct (choose (stored_after st b) =? s_best st) eqn:Eb.
  - apply N.eqb_eq in Eb. eexists. exists m. split; [rewrite Eb; reflexivity|].
    cbn [s_best s_stored s_height s_utxo].
    split; [symmetry; exact Eb|]. split; [reflexivity|]. split; [exact Hin|]. split; [exact Hm|].
    intros Hne. contradiction.
  - apply N.eqb_neq in Eb. destruct Hch as [Hc|Hc]; [|contradiction].
    rewrite Hc, N.eqb_refl, Hm. eexists. exists m. split; [reflexivity|].
    cbn [s_best s_stored s_height s_utxo].
    split; [reflexivity|]. split; [reflexivity|]. split; [exact Hin|]. split; [reflexivity|].
    intros _. split; [exact Hh|reflexivity].
Qed.

(* ---- the pool as the node holds it ----------------------------------------------------------- *)

Lemma insert_in x : forall l y, In y (insert_by_time x l) -> y = x \/ In y l.
Proof.
  induction l as [|z r IH]; intros y H; cbn [insert_by_time] in H.
  - destruct H as [H|[]]. left. symmetry. exact H.
  - destruct (fst x <? fst z).
    + destruct H as [H|H]; [left; symmetry; exact H|right; exact H].
    + destruct H as [H|H]; [right; left; exact H|].
      apply IH in H. destruct H as [H|H]; [left; exact H|right; right; exact H].
Qed.

Lemma sort_in : forall l y, In y (sort_by_time l) -> In y l.
Proof.
  induction l as [|x r IH]; intros y H; cbn [sort_by_time] in H; [exact H|].
  apply insert_in in H. destruct H as [H|H]; [left; symmetry; exact H|right; apply IH; exact H].
Qed.

Lemma sorted_incl pool : incl (map snd (sort_by_time pool)) (map snd pool).
Proof.
  intros t Ht. apply in_map_iff in Ht. destruct Ht as [x [Hx Hin]]. subst.
  apply in_map. apply sort_in. exact Hin.
Qed.

Lemma proposed_accepted_pool st ck order script me ts stop pool now b rem :
  p_maxgas P < two64 ->
  wf_state st -> wf_ck st ck -> Permutation order (ck_rewards ck) ->
  Forall admitted (map snd pool) ->
  me <> 0 -> proposer (ck_time ck) ts = me ->
  s_time st + p_interval P <= ts -> ts <= now + p_offset P ->
  propose_pool P core merkle header_id cb_meta st order script me ts stop pool = Some (b, rem) ->
  cb_fresh st b -> cb_gas0 b ->
  (choose (stored_after st b) = bid b \/ choose (stored_after st b) = s_best st) ->
  exists s' m,
    process_block now ck st b = Some (s', (false, 0, choose (stored_after st b))) /\
    s_best s' = choose (stored_after st b) /\ In (bid b) (s_stored s') /\
    apply_block P (s_utxo st) b = Some m /\
    incl (tl (btxs b)) (map snd pool).
Proof.
  intros Hmax Hwf Hck Hperm Hadm Hme Hslot Htime Hoff Hprop Hfresh Hgas0 Hch.
  unfold propose_pool in Hprop.
  assert (Hadm' : Forall admitted (map snd (sort_by_time pool))).
  { apply Forall_forall. intros t Ht. rewrite Forall_forall in Hadm. apply Hadm.
    apply sorted_incl. exact Ht. }
  destruct (proposed_accepted st ck order script me ts stop _ now b rem
              Hmax Hwf Hck Hperm Hadm' Hme Hslot Htime Hoff Hprop Hfresh Hgas0 Hch)
    as [s' [m [H1 [H2 [_ [H4 [H5 _]]]]]]].
  destruct (proposed_valid st ck order script me ts stop _ now b rem
              Hmax Hck Hperm Hadm' Hme Hslot Htime Hoff Hprop Hfresh Hgas0)
    as [_ [_ [_ [_ Hincl]]]].
  exists s', m. repeat split; auto.
  intros t Ht. apply sorted_incl. apply Hincl. exact Ht.
Qed.

End Proofs.
