(* C38 — helpers used by the generated case files.

   A case = one call of proposal.NewBlockTemplate on a real node followed by Chain.ProcessBlock of
   the result.  Inputs (all read off the node / the pool BEFORE the call, hashes as small labels):
   the best block (label, height, timestamp), the stored block labels, the utxo entries of every
   output the pool transactions touch, the previous checkpoint (timestamp, reward table) and the
   order in which the reward map was iterated, the node's coinbase program and key, the requested
   timestamp, the validator's clock, whether the warn timer had fired, the pool (arrival rank,
   transaction), and the tables of the model's parameters computed by the harness with the real
   primitives: validation.ValidateTx per transaction under a Version-1 header of the new height
   ([core]), what MapTx made of the coinbase ([cb_meta]), the label of the new block's hash.
   Compared with the implementation: the transaction ids of the block in order, the coinbase outputs
   (program, amount), per pool transaction whether it was removed from the pool, what ProcessBlock
   returned with the best block afterwards, and the utxo entries of the tracked outputs afterwards.
   None = NewBlockTemplate returned an error.

   Instance of the parameters = chainlib.DefaultOptions: epoch length 4, block interval 6000 ms,
   MaxTimeOffsetMs 24000, coinbase maturity 10, vote lock 3, MaxBlockGas 10^7; four federation keys
   labelled 1..4 scheduled round-robin from the checkpoint timestamp + interval (closed form of
   getValidatorOrder, C15); fork choice = the block stored last (the proposed block extends the best
   block of a node whose stored blocks form one chain, so it is the highest block of the tree). *)
From Coq Require Import List NArith Bool.
From Verif Require Import Cmp.
From C38 Require Import Model.
Import ListNotations.
Open Scope N_scope.

Definition run_params : params := mkP 4 6000 24000 10 (fun _ => 3) 10000000.

Definition run_proposer (ck t : N) : N :=
  let start := ck + 6000 in
  ((t - start) / 6000) mod 4 + 1.

Definition run_choose (l : list N) : N := last l 0.

Definition run_merkle (ids : list N) : N :=
  fold_left (fun a i => (a * 1000003 + i + 1) mod 2305843009213693951) ids 7.

Definition dec_type (t : N) : utype := match t with 1 => Coinbase | 2 => Vote | _ => Normal end.
Definition enc_type (t : utype) : N := match t with Normal => 0 | Coinbase => 1 | Vote => 2 end.

Definition mk_umap (l : list (N * (N * N * bool))) : umap :=
  fun o => match find (fun kv => fst kv =? o) l with
           | Some (_, (t, h, s)) => Some (mkE (dec_type t) h s)
           | None => None
           end.

Definition mk_core (tab : list (N * bool * option N)) (h : N) (first : bool) (t : tx) : option N :=
  match find (fun e => (fst (fst e) =? tid t) && Bool.eqb (snd (fst e)) first) tab with
  | Some (_, r) => r
  | None => None
  end.

Definition obs_entry (e : option entry) : option (N * N * bool) :=
  match e with Some e => Some (enc_type (etype e), eheight e, espent e) | None => None end.

Definition cres := option (list N * list (N * N) * list bool * (bool * N * N) * list (option (N * N * bool))).

Definition run_case
           (best height time : N) (stored : list N)
           (db : list (N * (N * N * bool)))
           (ckt : N) (rewards order : list (N * N))
           (script me ts now : N) (stop_first : bool)
           (pool : list (N * tx))
           (coretab : list (N * bool * option N))
           (cbm : N * N * list N) (newid : N)
           (tracked : list N) : cres :=
  let st := mkS best height time stored (mk_umap db) in
  let ck := mkCk ckt rewards in
  let core := mk_core coretab in
  let merk := run_merkle in
  let hid := fun _ _ _ _ : N => newid in
  let cbmeta := fun (_ : N) (_ : list (N * N)) => cbm in
  match propose_pool run_params core merk hid cbmeta st order script me ts (fun _ => stop_first) pool with
  | None => None
  | Some (b, rem) =>
    let removed := map (fun p => existsb (N.eqb (tid (snd p))) (map tid rem)) pool in
    let cbouts := map (fun o => (fst (fst o), snd (fst o))) (bcb b) in
    match process_block run_params core run_proposer run_choose merk now ck st b with
    | Some (s', o) =>
      Some (map tid (btxs b), cbouts, removed, o, map (fun x => obs_entry (s_utxo s' x)) tracked)
    | None =>
      Some (map tid (btxs b), cbouts, removed, (false, 9, 0), [])
    end
  end.

Definition entry_eqb : option (N * N * bool) -> option (N * N * bool) -> bool :=
  option_eqb (pair_eqb (pair_eqb N.eqb N.eqb) Bool.eqb).

Definition cres_eqb : cres -> cres -> bool :=
  option_eqb
    (pair_eqb
       (pair_eqb
          (pair_eqb
             (pair_eqb (list_eqb N.eqb) (list_eqb (pair_eqb N.eqb N.eqb)))
             (list_eqb Bool.eqb))
          (pair_eqb (pair_eqb Bool.eqb N.eqb) N.eqb))
       (list_eqb entry_eqb)).
