(* C36 — examples: the hypotheses of the theorems are satisfiable by non-trivial
   values, and the window behaves as stated on a concrete history. *)
From Coq Require Import List ZArith NArith Bool Lia Sorted.
From Coq Require Import String.
From Verif Require Import Cmp.
From C36 Require Import Model Proofs.
Import ListNotations.
Open Scope Z_scope.

(* ---- examples: the hypotheses are satisfiable by non-trivial values ------------------------------ *)
Definition ex_sec : str := s2b "3f5a0c9be27d41886a10ffee0b5c7d2e91a4b3c8d7e6f5041322314f5e6d7c8b".
Definition ex_lan : option (list N) := Some [0;0;0;0;0;0;0;0;0;0;255;255;10;0;0;5]%N.
Definition ex_req (u p : str) : request := mkReq ex_lan (s2b "/list-transactions") (Some (u, p)).

(* create, use, delete, re-create with another secret; times non-decreasing *)
Definition ex_hist : history :=
  [ (0, ECreate (s2b "ab") ex_sec);
    (1000, ERequest (ex_req (s2b "ab") ex_sec));
    (2000, EDelete (s2b "ab"));
    (2500, ERequest (ex_req (s2b "ab") ex_sec)) ].

Example ex_times_ok : times_ok ex_hist 400000.
Proof. unfold times_ok. cbn. repeat (constructor; [|repeat constructor; lia]). constructor. Qed.

Example ex_nonlocal_api :
  is_local (origin (ex_req (s2b "ab") ex_sec)) = false /\ api_path (path (ex_req (s2b "ab") ex_sec)) = true.
Proof. split; vm_compute; reflexivity. Qed.

(* within the window the deleted token's pair is still admitted, after it no more;
   a shifted split of the same characters is never admitted *)
Example ex_window :
  padmitted (pexec (pinit false) ex_hist) (ex_req (s2b "ab") ex_sec) 300000 = true /\
  padmitted (pexec (pinit false) ex_hist) (ex_req (s2b "ab") ex_sec) 400000 = false /\
  padmitted (pexec (pinit false) ex_hist) (ex_req (s2b "a") (s2b "b" ++ ex_sec)) 2600 = false.
Proof. repeat split; vm_compute; reflexivity. Qed.

Example ex_no_create : no_create (s2b "ab") [(2500, ERequest (ex_req (s2b "ab") ex_sec))].
Proof. intros t id sec [H|[]]. discriminate. Qed.

Example ex_no_colon : ~ In colon ex_sec.
Proof. vm_compute. intuition discriminate. Qed.
