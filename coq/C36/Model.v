(* C36 — RPC access control.  EXECUTABLE MODEL ONLY (no proofs).

   Mirrors  /repo/accesstoken/accesstoken.go  (CredentialStore: Create, Check, Delete)
   and      /repo/net/http/authn/authn.go     (API: Authenticate, localhostAuthn,
            tokenAuthn, cachedTokenAuthnCheck)  with the repair of the cache key in
   place (the cache is keyed by the pair (user, pw); the pinned tree keyed it by the
   concatenation user+pw).  The model is generic in the cache-key function so that
   both variants are instances:  [pair_key] (repaired code, what the harness is
   compared with) and [concat_key] (pinned code; refuted in C36/History.v).

   Strings are byte lists.  The token database (key = id, value = JSON of the
   token) is abstracted to an association list  id |-> token string "id:secret";
   the fresh secret (hex of 32 bytes of crypto/rand) is an input of ECreate.  The
   wall clock is an explicit input: every event of a history carries the time at
   which it is processed (unit: millisecond; only requests read the clock). *)
From Coq Require Import List ZArith NArith Bool Ascii String.
From Verif Require Import Cmp.
Import ListNotations.
Open Scope Z_scope.

Definition str := list N.

Fixpoint s2b (s : string) : str :=
  match s with
  | EmptyString => []
  | String c r => N_of_ascii c :: s2b r
  end.

(* strings.HasPrefix s p *)
Fixpoint has_prefix (p s : str) : bool :=
  match p, s with
  | [], _ => true
  | a :: p', b :: s' => N.eqb a b && has_prefix p' s'
  | _ :: _, [] => false
  end.

(* strings.Split s sep for a one-byte separator: n separators give n+1 parts *)
Fixpoint split_on (sep : N) (s : str) : list str :=
  match s with
  | [] => [[]]
  | c :: r =>
    if N.eqb c sep then [] :: split_on sep r
    else match split_on sep r with
         | [] => [[c]]
         | x :: xs => (c :: x) :: xs
         end
  end.

(* ---- Go maps / the key-value database as association lists ----------------- *)
Section Assoc.
  Variables (A V : Type) (eqb : A -> A -> bool).
  Fixpoint alookup (k : A) (m : list (A * V)) : option V :=
    match m with
    | [] => None
    | (k', v) :: m' => if eqb k k' then Some v else alookup k m'
    end.
  Fixpoint aremove (k : A) (m : list (A * V)) : list (A * V) :=
    match m with
    | [] => []
    | (k', v) :: m' => if eqb k k' then aremove k m' else (k', v) :: aremove k m'
    end.
  Definition aset (k : A) (v : V) (m : list (A * V)) : list (A * V) := (k, v) :: aremove k m.
End Assoc.
Arguments alookup {A V} eqb k m.
Arguments aremove {A V} eqb k m.
Arguments aset {A V} eqb k v m.

(* ---- accesstoken.go ---------------------------------------------------------- *)
(* validIDRegexp = ^[\w-]+$  : one or more of [0-9A-Za-z_-]; the class is ASCII-only,
   so the byte-wise reading is exact (a byte >= 0x80 never matches) *)
Definition is_word_char (c : N) : bool :=
  ((48 <=? c) && (c <=? 57) || (65 <=? c) && (c <=? 90) || (97 <=? c) && (c <=? 122)
   || (c =? 95) || (c =? 45))%N.

Definition valid_id (id : str) : bool :=
  match id with
  | [] => false
  | _ => forallb is_word_char id
  end.

Definition colon : N := 58%N.

(* Token.Token = fmt.Sprintf("%s:%x", id, secret) ; [sec] is the "%x" part *)
Definition token_string (id sec : str) : str := id ++ colon :: sec.

Definition tstore := list (str * str).     (* id |-> token string *)

Inductive cres := COk | CBadID | CDuplicate.

Definition create (st : tstore) (id sec : str) : tstore * cres :=
  if negb (valid_id id) then (st, CBadID)
  else match alookup bytes_eqb id st with
       | Some _ => (st, CDuplicate)
       | None => (aset bytes_eqb id (token_string id sec) st, COk)
       end.

Inductive kres := KOk | KNoMatch | KInvalid.

Definition check (st : tstore) (id pw : str) : kres :=
  match alookup bytes_eqb id st with
  | None => KNoMatch
  | Some tok =>
    match split_on colon tok with
    | [_; s] => if bytes_eqb s pw then KOk else KInvalid
    | _ => KInvalid
    end
  end.

Definition delete (st : tstore) (id : str) : tstore := aremove bytes_eqb id st.

(* ---- authn.go ------------------------------------------------------------------ *)
Definition token_expiry : Z := 300000.      (* time.Minute * 5, in ms *)
Definition loopback_on : bool := true.

(* origin of a request: the bytes of net.ParseIP(host) where host comes from
   net.SplitHostPort(req.RemoteAddr); None when either fails (ParseIP -> nil) *)
Definition all_zero (l : list N) : bool := forallb (N.eqb 0) l.

(* net.IP.To4 *)
Definition to4 (ip : list N) : option (list N) :=
  if Nat.eqb (List.length ip) 4 then Some ip
  else if Nat.eqb (List.length ip) 16 && all_zero (firstn 10 ip)
          && N.eqb (nth 10 ip 0%N) 255 && N.eqb (nth 11 ip 0%N) 255
       then Some (skipn 12 ip)
       else None.

Definition ipv6_loopback : list N := [0;0;0;0;0;0;0;0;0;0;0;0;0;0;0;1]%N.

(* net.IP.IsLoopback *)
Definition ip_is_loopback (ip : list N) : bool :=
  match to4 ip with
  | Some ip4 => N.eqb (nth 0 ip4 0%N) 127
  | None => bytes_eqb ip ipv6_loopback
  end.

(* API.localhostAuthn *)
Definition is_local (origin : option (list N)) : bool :=
  match origin with
  | None => false
  | Some ip => ip_is_loopback ip
  end.

Record request := mkReq {
  origin : option (list N);
  path : str;
  creds : option (str * str)     (* req.BasicAuth(): (user, pw) or not ok *)
}.

Definition p_backup := s2b "/backup-wallet".
Definition p_restore := s2b "/restore-wallet".
Definition p_listtok := s2b "/list-access-tokens".
Definition p_dashboard := s2b "/dashboard".
Definition p_dashboard_slash := s2b "/dashboard/".
Definition p_equity := s2b "/equity".
Definition p_equity_slash := s2b "/equity/".

Definition local_only_path (p : str) : bool :=
  has_prefix p_backup p || has_prefix p_restore p || has_prefix p_listtok p.

(* static pages served without authentication, by design *)
Definition exempt_path (p : str) : bool :=
  has_prefix p_dashboard_slash p || bytes_eqb p p_dashboard
  || has_prefix p_equity_slash p || bytes_eqb p p_equity.

(* an "API path" of the property: everything that is not an exempt static page *)
Definition api_path (p : str) : bool := negb (exempt_path p).

Inductive aclass := ANil | ANoToken | AInvalid | ALocalOnly.

Definition aclass_eqb (a b : aclass) : bool :=
  match a, b with
  | ANil, ANil | ANoToken, ANoToken | AInvalid, AInvalid | ALocalOnly, ALocalOnly => true
  | _, _ => false
  end.

(* the tail of Authenticate: order of checks as in the code *)
Definition decide (local : bool) (p : str) (terr : aclass) : aclass :=
  if negb local && has_prefix p_backup p then ALocalOnly
  else if negb local && has_prefix p_restore p then ALocalOnly
  else if negb local && has_prefix p_listtok p then ALocalOnly
  else if has_prefix p_dashboard_slash p || bytes_eqb p p_dashboard then ANil
  else if has_prefix p_equity_slash p || bytes_eqb p p_equity then ANil
  else if loopback_on && local then ANil
  else terr.

Inductive event :=
| ECreate (id sec : str)
| EDelete (id : str)
| ECheck (id pw : str)
| ERequest (r : request).

Definition history := list (Z * event).

Inductive obs :=
| OCreate (c : cres)
| ODelete
| OCheck (k : kres)
| OReq (a : aclass) (ctx_token : str) (ctx_local : bool).

Section Authn.
  Variable K : Type.
  Variable key : str -> str -> K.          (* cache key of a (user, pw) pair *)
  Variable keqb : K -> K -> bool.

  Record state := mkState {
    disabled : bool;
    store : tstore;
    cache : list (K * Z)                   (* tokenMap: key |-> lastLookup *)
  }.

  Definition init (dis : bool) : state := mkState dis [] [].

  (* API.cachedTokenAuthnCheck; true = nil error *)
  Definition cached_check (st : state) (u p : str) (now : Z) : state * bool :=
    let k := key u p in
    let fresh :=
      match alookup keqb k (cache st) with
      | Some t => negb (now >? t + token_expiry)     (* !time.Now().After(last+expiry) *)
      | None => false
      end in
    if fresh then (st, true)
    else match check (store st) u p with
         | KOk => (mkState (disabled st) (store st) (aset keqb k now (cache st)), true)
         | _ => (st, false)
         end.

  (* API.tokenAuthn: (state, (token, error class)) *)
  Definition token_authn (st : state) (c : option (str * str)) (now : Z)
    : state * (str * aclass) :=
    if disabled st then (st, ([], ANil))
    else match c with
         | None => (st, ([], ANoToken))
         | Some (u, p) =>
           let r := cached_check st u p now in
           (fst r, (u, if snd r then ANil else AInvalid))
         end.

  (* API.Authenticate: new state, error class, authn.Token(ctx), authn.Localhost(ctx) *)
  Definition authenticate (st : state) (r : request) (now : Z)
    : state * (aclass * str * bool) :=
    let ta := token_authn st (creds r) now in
    let terr := snd (snd ta) in
    let tok := match terr with ANil => fst (snd ta) | _ => [] end in
    let local := is_local (origin r) in
    (fst ta, (decide local (path r) terr, tok, local)).

  Definition admitted (st : state) (r : request) (now : Z) : bool :=
    aclass_eqb (fst (fst (snd (authenticate st r now)))) ANil.

  Definition step (st : state) (te : Z * event) : state * obs :=
    match snd te with
    | ECreate id sec =>
      let r := create (store st) id sec in
      (mkState (disabled st) (fst r) (cache st), OCreate (snd r))
    | EDelete id => (mkState (disabled st) (delete (store st) id) (cache st), ODelete)
    | ECheck id pw => (st, OCheck (check (store st) id pw))
    | ERequest r =>
      let a := authenticate st r (fst te) in
      (fst a, OReq (fst (fst (snd a))) (snd (fst (snd a))) (snd (snd a)))
    end.

  Fixpoint run (st : state) (h : history) : state * list obs :=
    match h with
    | [] => (st, [])
    | te :: h' =>
      let s1 := step st te in
      let s2 := run (fst s1) h' in
      (fst s2, snd s1 :: snd s2)
    end.

  (* the state after a history *)
  Definition exec (st : state) (h : history) : state :=
    fold_left (fun s te => fst (step s te)) h st.
End Authn.

Arguments disabled {K} s.
Arguments store {K} s.
Arguments cache {K} s.
Arguments mkState {K} _ _ _.

(* ---- the two instances --------------------------------------------------------- *)
(* repaired code: tokenMap map[tokenCred]tokenResult, tokenCred{user, pw} *)
Definition pair_key (u p : str) : str * str := (u, p).
Definition pair_keqb : str * str -> str * str -> bool := pair_eqb bytes_eqb bytes_eqb.
(* pinned code: tokenMap[user+pw] *)
Definition concat_key (u p : str) : str := u ++ p.

(* ---- specification side: which tokens are issued (live) after a history ------- *)
(* Create(id) issues (id, sec) when id is well-formed and not in use; Delete(id)
   withdraws it.  Independent of the model's store and of the cache. *)
Definition tokmap := str -> option str.

Definition issue_step (m : tokmap) (e : event) : tokmap :=
  match e with
  | ECreate id sec =>
    if valid_id id then
      match m id with
      | None => fun x => if bytes_eqb x id then Some sec else m x
      | Some _ => m
      end
    else m
  | EDelete id => fun x => if bytes_eqb x id then None else m x
  | _ => m
  end.

Definition issued_from (m : tokmap) (h : history) : tokmap :=
  fold_left (fun m te => issue_step m (snd te)) h m.

Definition issued (h : history) : tokmap := issued_from (fun _ => None) h.
