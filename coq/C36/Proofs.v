(* C36 — proofs about the model of C36/Model.v. *)
From Coq Require Import List ZArith NArith Bool Lia Sorted.
From Verif Require Import Cmp.
From C36 Require Import Model.
Import ListNotations.
Open Scope Z_scope.

(* ---- byte strings -------------------------------------------------------------- *)
Lemma bytes_eqb_refl (a : str) : bytes_eqb a a = true.
Proof. apply bytes_eqb_eq. reflexivity. Qed.

Lemma bytes_eqb_neq (a b : str) : bytes_eqb a b = false <-> a <> b.
Proof.
  split.
  - intros E H. apply bytes_eqb_eq in H. congruence.
  - intros H. destruct (bytes_eqb a b) eqn:E; [|reflexivity].
    apply bytes_eqb_eq in E. contradiction.
Qed.

(* ---- association lists ----------------------------------------------------------- *)
Section AssocFacts.
  Variables (A V : Type) (eqb : A -> A -> bool).
  Hypothesis eqb_spec : forall a b, eqb a b = true <-> a = b.

  Lemma eqb_refl' a : eqb a a = true.
  Proof. apply eqb_spec. reflexivity. Qed.

  Lemma alookup_aremove (k k' : A) (m : list (A * V)) :
    alookup eqb k' (aremove eqb k m) = if eqb k' k then None else alookup eqb k' m.
  Proof.
    induction m as [|[k0 v] m IH]; cbn.
    - destruct (eqb k' k); reflexivity.
    - destruct (eqb k k0) eqn:E1.
      + apply eqb_spec in E1. subst k0. rewrite IH.
        destruct (eqb k' k) eqn:E2; reflexivity.
      + cbn. destruct (eqb k' k0) eqn:E3.
        * apply eqb_spec in E3. subst k0.
          destruct (eqb k' k) eqn:E2; [|reflexivity].
          apply eqb_spec in E2. subst k'. rewrite eqb_refl' in E1. discriminate.
        * exact IH.
  Qed.

  Lemma alookup_aset (k k' : A) (v : V) (m : list (A * V)) :
    alookup eqb k' (aset eqb k v m) = if eqb k' k then Some v else alookup eqb k' m.
  Proof.
    unfold aset. cbn. destruct (eqb k' k) eqn:E; [reflexivity|].
    rewrite alookup_aremove, E. reflexivity.
  Qed.
End AssocFacts.

(* ---- strings.Split ---------------------------------------------------------------- *)
Lemma split_on_nonnil sep s : split_on sep s <> [].
Proof.
  destruct s as [|c r]; cbn; [discriminate|].
  destruct (N.eqb c sep); [discriminate|].
  destruct (split_on sep r); discriminate.
Qed.

Lemma split_on_app_nosep sep a b :
  ~ In sep a -> split_on sep (a ++ sep :: b) = a :: split_on sep b.
Proof.
  induction a as [|c a IH]; intros Hn; cbn.
  - rewrite N.eqb_refl. reflexivity.
  - destruct (N.eqb c sep) eqn:E.
    + apply N.eqb_eq in E. subst c. exfalso. apply Hn. left. reflexivity.
    + rewrite IH; [reflexivity|]. intros Hi. apply Hn. right. exact Hi.
Qed.

Lemma split_on_single sep s x : split_on sep s = [x] -> x = s /\ ~ In sep s.
Proof.
  revert x. induction s as [|c r IH]; intros x; cbn.
  - intros E. inversion E. split; [reflexivity|]. intros [].
  - destruct (N.eqb c sep) eqn:E.
    + intros E2. inversion E2 as [[E3 E4]]. exfalso. exact (split_on_nonnil _ _ E4).
    + destruct (split_on sep r) as [|y ys] eqn:Es.
      * exfalso. exact (split_on_nonnil _ _ Es).
      * intros E2. inversion E2; subst. destruct (IH y eq_refl) as [-> Hn].
        split; [reflexivity|]. intros [Hc|Hi]; [|exact (Hn Hi)].
        subst c. rewrite N.eqb_refl in E. discriminate.
Qed.

Lemma split_on_nosep sep s : ~ In sep s -> split_on sep s = [s].
Proof.
  induction s as [|c r IH]; intros Hn; cbn; [reflexivity|].
  destruct (N.eqb c sep) eqn:E.
  - apply N.eqb_eq in E. subst c. exfalso. apply Hn. left. reflexivity.
  - rewrite IH; [reflexivity|]. intros Hi. apply Hn. right. exact Hi.
Qed.

(* ---- accesstoken ---------------------------------------------------------------------- *)
Lemma valid_id_no_colon id : valid_id id = true -> ~ In colon id.
Proof.
  intros Hv Hi. assert (Hf : forallb is_word_char id = true).
  { destruct id; [discriminate|exact Hv]. }
  rewrite forallb_forall in Hf. specialize (Hf _ Hi). vm_compute in Hf. discriminate.
Qed.

Lemma check_ok_inv st id sec pw :
  alookup bytes_eqb id st = Some (token_string id sec) -> valid_id id = true ->
  check st id pw = KOk -> pw = sec.
Proof.
  intros Hl Hv. unfold check. rewrite Hl. unfold token_string.
  rewrite split_on_app_nosep by (apply valid_id_no_colon; exact Hv).
  destruct (split_on colon sec) as [|s [|s' l]] eqn:Es; try discriminate.
  destruct (bytes_eqb s pw) eqn:E; [|discriminate]. intros _.
  apply bytes_eqb_eq in E. apply split_on_single in Es. destruct Es as [-> _]. symmetry. exact E.
Qed.

Lemma check_ok_complete st id sec :
  alookup bytes_eqb id st = Some (token_string id sec) -> valid_id id = true ->
  ~ In colon sec -> check st id sec = KOk.
Proof.
  intros Hl Hv Hn. unfold check. rewrite Hl. unfold token_string.
  rewrite split_on_app_nosep by (apply valid_id_no_colon; exact Hv).
  rewrite split_on_nosep by exact Hn. rewrite bytes_eqb_refl. reflexivity.
Qed.

(* ---- the specification's token map ------------------------------------------------------ *)
Lemma issued_from_app m h1 h2 : issued_from m (h1 ++ h2) = issued_from (issued_from m h1) h2.
Proof. unfold issued_from. apply fold_left_app. Qed.

Lemma issued_app h1 h2 : issued (h1 ++ h2) = issued_from (issued h1) h2.
Proof. apply issued_from_app. Qed.

Lemma issued_snoc h te : issued (h ++ [te]) = issue_step (issued h) (snd te).
Proof. rewrite issued_app. reflexivity. Qed.

Lemma issued_from_cons m te h : issued_from m (te :: h) = issued_from (issue_step m (snd te)) h.
Proof. reflexivity. Qed.

(* a live token stays live until a Delete of its id *)
Lemma issue_step_keeps m e u p :
  m u = Some p -> issue_step m e u = Some p \/ e = EDelete u.
Proof.
  intros Hm. destruct e as [id sec|id|id pw|r]; cbn; auto.
  - destruct (valid_id id); auto. destruct (m id) eqn:Ei; auto.
    destruct (bytes_eqb u id) eqn:E; auto.
    apply bytes_eqb_eq in E. subst id. congruence.
  - destruct (bytes_eqb u id) eqn:E; auto.
    apply bytes_eqb_eq in E. subst id. auto.
Qed.

Lemma lost_by_delete l : forall m u p,
  m u = Some p -> issued_from m l u <> Some p ->
  exists l1 td l2, l = l1 ++ (td, EDelete u) :: l2 /\ issued_from m l1 u = Some p.
Proof.
  induction l as [|[t e] l IH]; intros m u p Hm Hn.
  - exfalso. apply Hn. exact Hm.
  - rewrite issued_from_cons in Hn. cbn [snd] in Hn.
    destruct (issue_step_keeps m e u p Hm) as [Hk|He].
    + destruct (IH _ _ _ Hk Hn) as (l1 & td & l2 & -> & Hl).
      exists ((t, e) :: l1), td, l2. split; [reflexivity|]. exact Hl.
    + subst e. exists [], t, l. split; [reflexivity|]. exact Hm.
Qed.

Definition no_create (u : str) (l : history) : Prop :=
  forall t id sec, In (t, ECreate id sec) l -> id <> u.

Lemma none_stays_none l : forall m u,
  m u = None -> no_create u l -> issued_from m l u = None.
Proof.
  induction l as [|[t e] l IH]; intros m u Hm Hc; [exact Hm|].
  rewrite issued_from_cons. apply IH.
  - cbn [snd]. destruct e as [id sec|id|id pw|r]; cbn; auto.
    + destruct (valid_id id); auto. destruct (m id); auto.
      destruct (bytes_eqb u id) eqn:E; auto.
      apply bytes_eqb_eq in E. subst id. exfalso. exact (Hc t u sec (or_introl eq_refl) eq_refl).
    + destruct (bytes_eqb u id); auto.
  - intros t' id sec Hi. apply (Hc t' id sec). right. exact Hi.
Qed.

Lemma none_after_delete h1 td u l :
  no_create u l -> issued (h1 ++ (td, EDelete u) :: l) u = None.
Proof.
  intros Hc. rewrite issued_app, issued_from_cons. apply none_stays_none; [|exact Hc].
  cbn. rewrite bytes_eqb_refl. reflexivity.
Qed.

(* ---- time ---------------------------------------------------------------------------------- *)
(* the events of h are processed at non-decreasing times, all of them <= now *)
Definition times_ok (h : history) (now : Z) : Prop :=
  StronglySorted Z.le (map fst h ++ [now]).

Lemma sorted_split (l1 : list Z) x l2 :
  StronglySorted Z.le (l1 ++ x :: l2) -> Forall (Z.le x) l2.
Proof.
  induction l1 as [|a l1 IH]; cbn; intros H; apply StronglySorted_inv in H; destruct H as [H1 H2].
  - exact H2.
  - exact (IH H1).
Qed.

Lemma times_ok_split h now h1 t e h2 :
  times_ok h now -> h = h1 ++ (t, e) :: h2 ->
  t <= now /\ forall t' e', In (t', e') h2 -> t <= t'.
Proof.
  unfold times_ok. intros Hs ->. rewrite map_app in Hs. cbn [map fst] in Hs.
  rewrite <- app_assoc in Hs. cbn [app] in Hs. apply sorted_split in Hs.
  rewrite Forall_forall in Hs. split.
  - apply Hs. apply in_or_app. right. left. reflexivity.
  - intros t' e' Hi. apply Hs. apply in_or_app. left.
    change t' with (fst (t', e')). apply in_map. exact Hi.
Qed.

(* ---- the tail of Authenticate ------------------------------------------------------------------ *)
Lemma decide_nonlocal_api p terr :
  api_path p = true -> decide false p terr = ANil -> terr = ANil.
Proof.
  unfold api_path, exempt_path, decide. intros Ha. apply negb_true_iff in Ha.
  cbn [negb andb].
  destruct (has_prefix p_backup p); [discriminate|].
  destruct (has_prefix p_restore p); [discriminate|].
  destruct (has_prefix p_listtok p); [discriminate|].
  destruct (has_prefix p_dashboard_slash p); [discriminate|].
  destruct (bytes_eqb p p_dashboard); [discriminate|].
  destruct (has_prefix p_equity_slash p); [discriminate|].
  destruct (bytes_eqb p p_equity); [discriminate|].
  cbn. rewrite ?andb_false_r. auto.
Qed.

Lemma decide_local_only p terr :
  local_only_path p = true -> decide false p terr = ALocalOnly.
Proof.
  unfold local_only_path, decide. cbn [negb andb].
  destruct (has_prefix p_backup p); [reflexivity|].
  destruct (has_prefix p_restore p); [reflexivity|].
  destruct (has_prefix p_listtok p); [reflexivity|]. discriminate.
Qed.

Lemma decide_not_local_only_ok local p :
  local_only_path p = false -> decide local p ANil = ANil.
Proof.
  unfold local_only_path, decide. intros H.
  apply orb_false_iff in H. destruct H as [H H3]. apply orb_false_iff in H. destruct H as [H1 H2].
  rewrite H1, H2, H3, !andb_false_r.
  destruct (has_prefix p_dashboard_slash p || bytes_eqb p p_dashboard); [reflexivity|].
  destruct (has_prefix p_equity_slash p || bytes_eqb p p_equity); [reflexivity|].
  destruct (loopback_on && local); reflexivity.
Qed.

Lemma decide_local_ok p terr : decide true p terr = ANil.
Proof.
  unfold decide. cbn [negb andb].
  destruct (has_prefix p_dashboard_slash p || bytes_eqb p p_dashboard); [reflexivity|].
  destruct (has_prefix p_equity_slash p || bytes_eqb p p_equity); reflexivity.
Qed.

(* ================================================================================================ *)
(* the development for an arbitrary INJECTIVE cache key                                              *)
Section Gen.
  Variable K : Type.
  Variable key : str -> str -> K.
  Variable keqb : K -> K -> bool.
  Hypothesis keqb_spec : forall a b, keqb a b = true <-> a = b.
  Hypothesis key_inj : forall u p u' p', key u p = key u' p' -> u = u' /\ p = p'.

  Notation state := (state K).
  Notation exec := (exec K key keqb).
  Notation step := (step K key keqb).
  Notation authenticate := (authenticate K key keqb).
  Notation cached_check := (cached_check K key keqb).
  Notation token_authn := (token_authn K key keqb).
  Notation admitted := (admitted K key keqb).

  Lemma exec_snoc st h te : exec st (h ++ [te]) = fst (step (exec st h) te).
  Proof. unfold Model.exec. rewrite fold_left_app. reflexivity. Qed.

  Lemma run_exec h : forall st, fst (run K key keqb st h) = exec st h.
  Proof.
    induction h as [|te h IH]; intros st; [reflexivity|].
    cbn [run fst]. rewrite IH. reflexivity.
  Qed.

  (* (u, p) was checked against the token database, successfully, by a request
     processed at time t *)
  Definition validated_at (h : history) (u p : str) (t : Z) : Prop :=
    exists h1 r h2, h = h1 ++ (t, ERequest r) :: h2 /\ creds r = Some (u, p) /\ issued h1 u = Some p.

  Lemma validated_at_snoc h u p t te : validated_at h u p t -> validated_at (h ++ [te]) u p t.
  Proof.
    intros (h1 & r & h2 & -> & Hc & Hi). exists h1, r, (h2 ++ [te]).
    split; [|split; assumption]. rewrite <- app_assoc. reflexivity.
  Qed.

  Definition inv (h : history) (st : state) : Prop :=
    (forall id, alookup bytes_eqb id (store st) = option_map (token_string id) (issued h id)) /\
    (forall id sec, issued h id = Some sec -> valid_id id = true) /\
    (forall k t, alookup keqb k (cache st) = Some t ->
                 exists u p, k = key u p /\ validated_at h u p t).

  Lemma inv_init dis : inv [] (init K dis).
  Proof.
    split; [|split].
    - intros id. reflexivity.
    - intros id sec H. discriminate.
    - intros k t H. discriminate.
  Qed.

  Lemma inv_check_ok h st u p :
    inv h st -> check (store st) u p = KOk -> issued h u = Some p.
  Proof.
    intros (I1 & I2 & _) Hc. specialize (I1 u).
    destruct (issued h u) as [sec|] eqn:Ei; cbn in I1.
    - f_equal. symmetry. eapply check_ok_inv; eauto.
    - unfold check in Hc. rewrite I1 in Hc. discriminate.
  Qed.

  (* what a request does to the state *)
  Lemma cached_check_state st u p now :
    fst (cached_check st u p now) = st \/
    (check (store st) u p = KOk /\
     fst (cached_check st u p now) =
       mkState (disabled st) (store st) (aset keqb (key u p) now (cache st))).
  Proof.
    unfold Model.cached_check.
    destruct (match alookup keqb (key u p) (cache st) with
              | Some t => negb (now >? t + token_expiry) | None => false end); [left; reflexivity|].
    destruct (check (store st) u p); [right; split; reflexivity | left; reflexivity | left; reflexivity].
  Qed.

  Lemma authenticate_state st r now :
    fst (authenticate st r now) = st \/
    (exists u p, creds r = Some (u, p) /\ check (store st) u p = KOk /\
       fst (authenticate st r now) =
         mkState (disabled st) (store st) (aset keqb (key u p) now (cache st))).
  Proof.
    unfold Model.authenticate. cbn [fst]. unfold Model.token_authn.
    destruct (disabled st) eqn:Hd; [left; reflexivity|].
    destruct (creds r) as [[u p]|]; [|left; reflexivity]. cbn [fst].
    destruct (cached_check_state st u p now) as [H|[H1 H2]]; [left; exact H|].
    right. exists u, p. split; [reflexivity|]. split; [exact H1|].
    rewrite H2, Hd. reflexivity.
  Qed.

  Lemma inv_step h st te : inv h st -> inv (h ++ [te]) (fst (step st te)).
  Proof.
    intros Hinv. pose proof Hinv as (I1 & I2 & I3). destruct te as [t e].
    assert (I3' : forall k t0, alookup keqb k (cache st) = Some t0 ->
                  exists u p, k = key u p /\ validated_at (h ++ [(t, e)]) u p t0).
    { intros k t0 Hk. destruct (I3 k t0 Hk) as (u & p & -> & Hv).
      exists u, p. split; [reflexivity|]. apply validated_at_snoc. exact Hv. }
    unfold Model.step. cbn [snd fst]. destruct e as [id sec|id|id pw|r]; cbn [fst].
    - (* Create *)
      unfold create. destruct (valid_id id) eqn:Hv; cbn [negb].
      + destruct (alookup bytes_eqb id (store st)) as [tok|] eqn:Hl; cbn [fst].
        * assert (Hs : exists s, issued h id = Some s).
          { specialize (I1 id). rewrite Hl in I1. destruct (issued h id); [eauto|discriminate]. }
          destruct Hs as [s Hs].
          assert (Hstep : issued (h ++ [(t, ECreate id sec)]) = issued h).
          { rewrite issued_snoc. cbn. rewrite Hv, Hs. reflexivity. }
          split; [|split]; cbn [store cache]; rewrite ?Hstep; auto.
        * assert (Hs : issued h id = None).
          { specialize (I1 id). rewrite Hl in I1. destruct (issued h id); [discriminate|reflexivity]. }
          assert (Hstep : forall x, issued (h ++ [(t, ECreate id sec)]) x
                                    = if bytes_eqb x id then Some sec else issued h x).
          { intros x. rewrite issued_snoc. cbn. rewrite Hv, Hs. reflexivity. }
          split; [|split]; cbn [store cache]; auto.
          -- intros x. rewrite Hstep, (alookup_aset _ _ _ bytes_eqb_eq).
             destruct (bytes_eqb x id) eqn:E; [|apply I1].
             apply bytes_eqb_eq in E. subst x. reflexivity.
          -- intros x s. rewrite Hstep. destruct (bytes_eqb x id) eqn:E; [|apply I2].
             apply bytes_eqb_eq in E. subst x. intros _. exact Hv.
      + cbn [fst].
        assert (Hstep : issued (h ++ [(t, ECreate id sec)]) = issued h).
        { rewrite issued_snoc. cbn. rewrite Hv. reflexivity. }
        split; [|split]; cbn [store cache]; rewrite ?Hstep; auto.
    - (* Delete *)
      assert (Hstep : forall x, issued (h ++ [(t, EDelete id)]) x
                                = if bytes_eqb x id then None else issued h x).
      { intros x. rewrite issued_snoc. reflexivity. }
      split; [|split]; cbn [store cache]; auto.
      + intros x. rewrite Hstep. unfold delete. rewrite (alookup_aremove _ _ _ bytes_eqb_eq).
        destruct (bytes_eqb x id); [reflexivity|apply I1].
      + intros x s. rewrite Hstep. destruct (bytes_eqb x id); [discriminate|apply I2].
    - (* Check *)
      assert (Hstep : issued (h ++ [(t, ECheck id pw)]) = issued h).
      { rewrite issued_snoc. reflexivity. }
      split; [|split]; rewrite ?Hstep; auto.
    - (* Request *)
      assert (Hstep : issued (h ++ [(t, ERequest r)]) = issued h).
      { rewrite issued_snoc. reflexivity. }
      destruct (authenticate_state st r t) as [Hs|(u & p & Hc & Hk & Hs)]; rewrite Hs.
      + split; [|split]; rewrite ?Hstep; auto.
      + split; [|split]; cbn [store cache]; rewrite ?Hstep; auto.
        intros k t0. rewrite (alookup_aset _ _ _ keqb_spec).
        destruct (keqb k (key u p)) eqn:E; [|apply I3'].
        apply keqb_spec in E. subst k. intros Ht. inversion Ht; subst t0.
        exists u, p. split; [reflexivity|]. exists h, r, []. split; [reflexivity|].
        split; [exact Hc|]. eapply inv_check_ok; eauto.
  Qed.

  Lemma inv_exec dis h : inv h (exec (init K dis) h).
  Proof.
    induction h as [|te h IH] using rev_ind.
    - apply inv_init.
    - rewrite exec_snoc. apply inv_step. exact IH.
  Qed.

  Lemma step_disabled st te : disabled (fst (step st te)) = disabled st.
  Proof.
    destruct te as [t e]. unfold Model.step. cbn [snd fst]. destruct e as [id sec|id|id pw|r]; try reflexivity.
    destruct (authenticate_state st r t) as [Hs|(u & p & _ & _ & Hs)]; rewrite Hs; reflexivity.
  Qed.

  Lemma exec_disabled dis h : disabled (exec (init K dis) h) = dis.
  Proof.
    induction h as [|te h IH] using rev_ind; [reflexivity|].
    rewrite exec_snoc, step_disabled. exact IH.
  Qed.

  (* ---- the property, for a state satisfying the invariant ------------------------- *)
  Lemma admitted_inv st r now :
    admitted st r now = true -> decide (is_local (origin r)) (path r)
                                      (snd (snd (token_authn st (creds r) now))) = ANil.
  Proof.
    unfold Model.admitted, Model.authenticate. cbn [fst snd].
    destruct (decide _ _ _); try discriminate. reflexivity.
  Qed.

  Lemma token_ok_inv h st c now :
    inv h st -> disabled st = false ->
    snd (snd (token_authn st c now)) = ANil ->
    exists u p, c = Some (u, p) /\
      (issued h u = Some p \/ exists t, validated_at h u p t /\ now <= t + token_expiry).
  Proof.
    intros Hinv Hd. unfold Model.token_authn. rewrite Hd.
    destruct c as [[u p]|]; [|discriminate]. cbn [snd].
    destruct (snd (cached_check st u p now)) eqn:Hc; [|discriminate]. intros _.
    exists u, p. split; [reflexivity|].
    unfold Model.cached_check in Hc.
    destruct (alookup keqb (key u p) (cache st)) as [t|] eqn:Hl.
    - destruct (negb (now >? t + token_expiry)) eqn:Hf.
      + right. destruct Hinv as (_ & _ & I3). destruct (I3 _ _ Hl) as (u' & p' & Hk & Hv).
        apply key_inj in Hk. destruct Hk as [<- <-]. exists t. split; [exact Hv|].
        apply negb_true_iff in Hf. lia.
      + left. destruct (check (store st) u p) eqn:Hk; try discriminate.
        eapply inv_check_ok; eauto.
    - left. destruct (check (store st) u p) eqn:Hk; try discriminate.
      eapply inv_check_ok; eauto.
  Qed.

  Theorem gen_admit_only_issued h r now :
    is_local (origin r) = false -> api_path (path r) = true ->
    admitted (exec (init K false) h) r now = true ->
    exists u p, creds r = Some (u, p) /\
      (issued h u = Some p \/ exists t, validated_at h u p t /\ now <= t + token_expiry).
  Proof.
    intros Hl Ha Hadm. apply admitted_inv in Hadm. rewrite Hl in Hadm.
    apply decide_nonlocal_api in Hadm; [|exact Ha].
    eapply token_ok_inv; eauto using inv_exec, exec_disabled.
  Qed.

  Theorem gen_local_only dis h r now :
    is_local (origin r) = false -> local_only_path (path r) = true ->
    admitted (exec (init K dis) h) r now = false /\
    fst (fst (snd (authenticate (exec (init K dis) h) r now))) = ALocalOnly.
  Proof.
    intros Hl Hp. unfold Model.admitted, Model.authenticate. cbn [fst snd].
    rewrite Hl, decide_local_only by exact Hp. split; reflexivity.
  Qed.

  (* with a monotone clock: live now, or deleted at most [token_expiry] ago *)
  Theorem gen_admit_live_or_recently_deleted h r now :
    times_ok h now ->
    is_local (origin r) = false -> api_path (path r) = true ->
    admitted (exec (init K false) h) r now = true ->
    exists u p, creds r = Some (u, p) /\
      (issued h u = Some p \/
       exists h1 td h2, h = h1 ++ (td, EDelete u) :: h2 /\ issued h1 u = Some p /\
                        now <= td + token_expiry).
  Proof.
    intros Ht Hl Ha Hadm.
    destruct (gen_admit_only_issued h r now Hl Ha Hadm) as (u & p & Hc & [Hi|(t & Hv & Hle)]);
      exists u, p; (split; [exact Hc|]); [left; exact Hi|].
    destruct Hv as (h1 & r' & h2 & Hh & _ & Hi1).
    destruct (issued h u) as [q|] eqn:Eq.
    - destruct (bytes_eqb q p) eqn:E.
      + apply bytes_eqb_eq in E. subst q. left. reflexivity.
      + right. apply bytes_eqb_neq in E.
        assert (Hn : issued_from (issued h1) ((t, ERequest r') :: h2) u <> Some p).
        { rewrite <- issued_app, <- Hh, Eq. congruence. }
        destruct (lost_by_delete _ _ _ _ Hi1 Hn) as (l1 & td & l2 & Hl1 & Hi2).
        destruct l1 as [|a l1]; [discriminate|]. inversion Hl1; subst a h2.
        destruct (times_ok_split h now h1 t (ERequest r') _ Ht Hh) as [_ Hafter].
        exists (h1 ++ (t, ERequest r') :: l1), td, l2. split; [|split].
        * rewrite Hh, <- app_assoc. reflexivity.
        * rewrite issued_app. exact Hi2.
        * assert (t <= td) by (apply (Hafter td (EDelete u)); apply in_or_app; right; left; reflexivity).
          lia.
    - right.
      assert (Hn : issued_from (issued h1) ((t, ERequest r') :: h2) u <> Some p).
      { rewrite <- issued_app, <- Hh, Eq. discriminate. }
      destruct (lost_by_delete _ _ _ _ Hi1 Hn) as (l1 & td & l2 & Hl1 & Hi2).
      destruct l1 as [|a l1]; [discriminate|]. inversion Hl1; subst a h2.
      destruct (times_ok_split h now h1 t (ERequest r') _ Ht Hh) as [_ Hafter].
      exists (h1 ++ (t, ERequest r') :: l1), td, l2. split; [|split].
      * rewrite Hh, <- app_assoc. reflexivity.
      * rewrite issued_app. exact Hi2.
      * assert (t <= td) by (apply (Hafter td (EDelete u)); apply in_or_app; right; left; reflexivity).
        lia.
  Qed.

  (* a deleted token is refused once the window has passed *)
  Theorem gen_cache_window h1 td u h2 r now p :
    times_ok (h1 ++ (td, EDelete u) :: h2) now -> no_create u h2 ->
    td + token_expiry < now ->
    is_local (origin r) = false -> api_path (path r) = true -> creds r = Some (u, p) ->
    admitted (exec (init K false) (h1 ++ (td, EDelete u) :: h2)) r now = false.
  Proof.
    intros Ht Hnc Hlate Hl Ha Hc.
    destruct (admitted _ r now) eqn:Hadm; [exfalso|reflexivity].
    destruct (gen_admit_live_or_recently_deleted _ r now Ht Hl Ha Hadm)
      as (u' & p' & Hc' & Hcase).
    rewrite Hc in Hc'. inversion Hc'; subst u' p'. clear Hc'.
    destruct Hcase as [Hi|(g1 & td' & g2 & Hh & Hi & Hle)].
    - rewrite none_after_delete in Hi by exact Hnc. discriminate.
    - apply app_eq_app in Hh. destruct Hh as (l & [[H1 H2]|[H1 H2]]).
      + (* the witnessing delete is at or before the given one *)
        destruct l as [|a l].
        * cbn in H2. inversion H2; subst. lia.
        * cbn in H2. inversion H2; subst a g2.
          destruct (times_ok_split _ now g1 td' (EDelete u) _ Ht
                      ltac:(rewrite H1, <- app_assoc; reflexivity)) as [_ Hafter].
          assert (td' <= td) by (apply (Hafter td (EDelete u)); apply in_or_app; right; left; reflexivity).
          lia.
      + (* ... or after it: then the id was not live before it *)
        destruct l as [|a l].
        * cbn in H2. inversion H2; subst. lia.
        * cbn in H2. inversion H2; subst a h2. subst g1.
          rewrite none_after_delete in Hi; [discriminate|].
          intros t' id sec Hin. apply (Hnc t' id sec). apply in_or_app. left. exact Hin.
  Qed.

  (* non-vacuity of the mechanism: the exact pair of a live token is admitted *)
  Theorem gen_live_admitted h r now u p :
    issued h u = Some p -> ~ In colon p -> creds r = Some (u, p) ->
    (is_local (origin r) = true \/ local_only_path (path r) = false) ->
    admitted (exec (init K false) h) r now = true.
  Proof.
    intros Hi Hn Hc Hp. pose proof (inv_exec false h) as Hinv.
    assert (Hchk : check (store (exec (init K false) h)) u p = KOk).
    { destruct Hinv as (I1 & I2 & _). eapply check_ok_complete; eauto.
      rewrite I1, Hi. reflexivity. }
    unfold Model.admitted, Model.authenticate. cbn [fst snd].
    unfold Model.token_authn. rewrite exec_disabled, Hc. cbn [snd].
    assert (Hok : snd (cached_check (exec (init K false) h) u p now) = true).
    { unfold Model.cached_check.
      destruct (match alookup keqb (key u p) (cache (exec (init K false) h)) with
                | Some t => negb (now >? t + token_expiry) | None => false end); [reflexivity|].
      rewrite Hchk. reflexivity. }
    rewrite Hok. destruct Hp as [Hp|Hp].
    - rewrite Hp, decide_local_ok. reflexivity.
    - rewrite decide_not_local_only_ok by exact Hp. reflexivity.
  Qed.
End Gen.

(* ================================================================================================ *)
(* the repaired code: the cache key is the pair itself                                               *)
Lemma pair_keqb_spec : forall a b, pair_keqb a b = true <-> a = b.
Proof.
  intros [a1 a2] [b1 b2]. unfold pair_keqb, pair_eqb. cbn [fst snd]. split.
  - intros H. apply andb_prop in H. destruct H as [H1 H2].
    apply bytes_eqb_eq in H1. apply bytes_eqb_eq in H2. subst. reflexivity.
  - intros H. inversion H; subst. rewrite !bytes_eqb_refl. reflexivity.
Qed.

Lemma pair_key_inj : forall u p u' p', pair_key u p = pair_key u' p' -> u = u' /\ p = p'.
Proof. intros u p u' p' H. inversion H. auto. Qed.

Definition P := (str * str)%type.
Definition pstate := state P.
Definition pinit : bool -> pstate := init P.
Definition pexec : pstate -> history -> pstate := exec P pair_key pair_keqb.
Definition prun : pstate -> history -> pstate * list obs := run P pair_key pair_keqb.
Definition pauthenticate : pstate -> request -> Z -> pstate * (aclass * str * bool) :=
  authenticate P pair_key pair_keqb.
Definition padmitted : pstate -> request -> Z -> bool := admitted P pair_key pair_keqb.

Definition validated_at_p := validated_at.

Definition admit_only_issued := gen_admit_only_issued P pair_key pair_keqb pair_keqb_spec pair_key_inj.
Definition local_only := gen_local_only P pair_key pair_keqb.
Definition admit_live_or_recently_deleted :=
  gen_admit_live_or_recently_deleted P pair_key pair_keqb pair_keqb_spec pair_key_inj.
Definition cache_window := gen_cache_window P pair_key pair_keqb pair_keqb_spec pair_key_inj.
Definition live_admitted := gen_live_admitted P pair_key pair_keqb pair_keqb_spec.
Definition prun_exec : forall h st, fst (prun st h) = pexec st h := run_exec P pair_key pair_keqb.

(* the full statement, for an arbitrary key function (used for the pinned variant in
   C36/History.v; for the repaired code it is c36_admit_only_issued in C36/Props.v) *)
Definition admit_only_issued_stmt (K : Type) (key : str -> str -> K) (keqb : K -> K -> bool) : Prop :=
  forall (h : history) (r : request) (now : Z),
    is_local (origin r) = false -> api_path (path r) = true ->
    admitted K key keqb (exec K key keqb (init K false) h) r now = true ->
    exists u p, creds r = Some (u, p) /\
      (issued h u = Some p \/ exists t, validated_at h u p t /\ now <= t + token_expiry).

Lemma admit_only_issued_stmt_pair : admit_only_issued_stmt P pair_key pair_keqb.
Proof. exact admit_only_issued. Qed.


(* ---- the same statement read off the observations of a whole history --------------------------- *)
Lemma prun_nth h1 : forall st e h2,
  nth_error (snd (prun st (h1 ++ e :: h2))) (length h1)
  = Some (snd (step P pair_key pair_keqb (pexec st h1) e)).
Proof.
  induction h1 as [|a h1 IH]; intros st e h2.
  - reflexivity.
  - cbn [app length]. unfold prun. cbn [run snd nth_error]. apply IH.
Qed.

Lemma every_request_in_history h1 t r h2 tok l :
  is_local (origin r) = false -> api_path (path r) = true ->
  nth_error (snd (prun (pinit false) (h1 ++ (t, ERequest r) :: h2))) (length h1)
    = Some (OReq ANil tok l) ->
  exists u p, creds r = Some (u, p) /\
    (issued h1 u = Some p \/ exists t0, validated_at h1 u p t0 /\ t <= t0 + token_expiry).
Proof.
  intros Hl Ha Hn. rewrite prun_nth in Hn. injection Hn as Hc _ _.
  apply (admit_only_issued h1 r t Hl Ha).
  unfold admitted, authenticate. cbn [fst snd]. unfold pexec, pinit in Hc. rewrite Hc. reflexivity.
Qed.
