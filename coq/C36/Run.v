(* C36 — helpers used by the generated case files.

   Reading a literal is by far the most expensive part of evaluating a case file, so
   cases are written compactly:
   - byte strings are lists of pieces: [L len v] = the len bytes of the big-endian
     number v; [HX n v] = the 2n lowercase hexadecimal digits of the n-byte number v;
   - [vocab] (one per file, in its header): the request paths and origin addresses
     of the harness's vocabulary;  [V i] = entry i;
   - per case a table of the issued tokens (id, secret) in order of issue;
     [TI i] / [TS i] = id / secret of token i, [W i] = id||secret, [K i] = "id:secret",
     [SW i off len] / [SK i off len] = substrings of these;  [CSplit i k] = the
     credential pair (first k bytes of W i, the rest);
   - the clock: [ADV s] moves it by s seconds; every other event is processed one
     millisecond after the previous one.
   The result is the projection compared with the implementation:
     per event a code (Create 10 ok / 11 bad id / 12 duplicate; Delete 20;
     Check 30 ok / 31 no such id / 32 invalid; Request 40 nil / 41 no token /
     42 invalid token / 43 local only), and for requests authn.Token(ctx) and
     authn.Localhost(ctx);
     for each probed id which issued token string (index in the table; 999 = none
     of them) the database holds under it; the number of cache entries. *)
From Coq Require Import List ZArith NArith Bool.
From Verif Require Import Cmp.
From C36 Require Import Model.
Import ListNotations.

Inductive piece := L (len v : N) | HX (nbytes v : N).

(* the n digits of v in base 2^shift, most significant first *)
Fixpoint be_digits (shift mask : N) (n : nat) (v : N) (acc : list N) : list N :=
  match n with
  | O => acc
  | S n' => be_digits shift mask n' (N.shiftr v shift) (N.land v mask :: acc)
  end.

Definition hexdigit (d : N) : N := if (d <? 10)%N then (48 + d)%N else (87 + d)%N.

Definition ev_piece (p : piece) : str :=
  match p with
  | L len v => be_digits 8 255 (N.to_nat len) v []
  | HX nb v => map hexdigit (be_digits 4 15 (N.to_nat (2 * nb)) v [])
  end.

Definition ps (l : list piece) : str := concat (map ev_piece l).

Inductive sx :=
| P (l : list piece)
| V (i : N)
| TI (i : N) | TS (i : N) | W (i : N) | K (i : N)
| SW (i off len : N) | SK (i off len : N).

Inductive cx := CNone | CP (u p : sx) | CSplit (i k : N).

Inductive cev :=
| CT (i : N)                               (* successful Create of token i *)
| CC (id : sx)                             (* Create that issued nothing *)
| CD (id : sx)
| CK (id pw : sx)
| CR (ip : option sx) (p : sx) (c : cx)
| ADV (s : N).

Section Resolve.
  Variable vocab : list str.
  Variable toks : list (str * str).

  Definition nthN {A} (l : list A) (i : N) (d : A) : A := nth (N.to_nat i) l d.
  Definition tid (i : N) : str := fst (nthN toks i ([], [])).
  Definition tsec (i : N) : str := snd (nthN toks i ([], [])).
  Definition tw (i : N) : str := tid i ++ tsec i.
  Definition tk (i : N) : str := token_string (tid i) (tsec i).
  Definition sub (s : str) (off len : N) : str := firstn (N.to_nat len) (skipn (N.to_nat off) s).

  Definition ev_sx (e : sx) : str :=
    match e with
    | P l => ps l
    | V i => nthN vocab i []
    | TI i => tid i
    | TS i => tsec i
    | W i => tw i
    | K i => tk i
    | SW i off len => sub (tw i) off len
    | SK i off len => sub (tk i) off len
    end.

  Definition ev_cx (c : cx) : option (str * str) :=
    match c with
    | CNone => None
    | CP u p => Some (ev_sx u, ev_sx p)
    | CSplit i k => Some (firstn (N.to_nat k) (tw i), skipn (N.to_nat k) (tw i))
    end.

  (* (virtual seconds, step counter) -> timed history *)
  Fixpoint timed (vsec : Z) (tick : Z) (evs : list cev) : history :=
    match evs with
    | [] => []
    | ADV s :: r => timed (vsec + Z.of_N s) tick r
    | e :: r =>
      let t := (vsec * 1000 + (tick + 1))%Z in
      let ev :=
        match e with
        | CT i => ECreate (tid i) (tsec i)
        | CC id => ECreate (ev_sx id) []
        | CD id => EDelete (ev_sx id)
        | CK id pw => ECheck (ev_sx id) (ev_sx pw)
        | CR ip p c => ERequest (mkReq (option_map ev_sx ip) (ev_sx p) (ev_cx c))
        | ADV _ => ECheck [] []
        end in
      (t, ev) :: timed vsec (tick + 1) r
    end.

  Fixpoint tok_index (s : str) (i : nat) (n : N) : N :=
    match i with
    | O => 999
    | S i' => if bytes_eqb (tk n) s then n else tok_index s i' (N.succ n)
    end.
End Resolve.

Definition obs_code (o : obs) : N * list N * bool :=
  match o with
  | OCreate COk => (10, [], false)
  | OCreate CBadID => (11, [], false)
  | OCreate CDuplicate => (12, [], false)
  | ODelete => (20, [], false)
  | OCheck KOk => (30, [], false)
  | OCheck KNoMatch => (31, [], false)
  | OCheck KInvalid => (32, [], false)
  | OReq ANil t l => (40, t, l)
  | OReq ANoToken t l => (41, t, l)
  | OReq AInvalid t l => (42, t, l)
  | OReq ALocalOnly t l => (43, t, l)
  end%N.

Definition cres := (list (N * list N * bool) * (list (option N) * N))%type.

Definition run_case (vocab : list str) (dis : bool) (tokens : list (list piece * list piece))
           (evs : list cev) (ids : list sx) : cres :=
  let toks := map (fun t => (ps (fst t), ps (snd t))) tokens in
  let h := timed vocab toks 0 0 evs in
  let r := run (str * str) pair_key pair_keqb (init (str * str) dis) h in
  let st := fst r in
  (map obs_code (snd r),
   (map (fun id => option_map (fun s => tok_index toks s (List.length toks) 0)
                              (alookup bytes_eqb (ev_sx vocab toks id) (store st))) ids,
    N.of_nat (List.length (cache st)))).

(* observed values *)
Definition r10 : N * list N * bool := (10, [], false)%N.
Definition r11 : N * list N * bool := (11, [], false)%N.
Definition r12 : N * list N * bool := (12, [], false)%N.
Definition r18 : N * list N * bool := (18, [], false)%N.
Definition r19 : N * list N * bool := (19, [], false)%N.
Definition r20 : N * list N * bool := (20, [], false)%N.
Definition r30 : N * list N * bool := (30, [], false)%N.
Definition r31 : N * list N * bool := (31, [], false)%N.
Definition r32 : N * list N * bool := (32, [], false)%N.
Definition r38 : N * list N * bool := (38, [], false)%N.
Definition r40 (tok : list piece) (l : bool) : N * list N * bool := (40%N, ps tok, l).
Definition r41 (tok : list piece) (l : bool) : N * list N * bool := (41%N, ps tok, l).
Definition r42 (tok : list piece) (l : bool) : N * list N * bool := (42%N, ps tok, l).
Definition r43 (tok : list piece) (l : bool) : N * list N * bool := (43%N, ps tok, l).
Definition observed (evs : list (N * list N * bool)) (toks : list (option N)) (n : N) : cres :=
  (evs, (toks, n)).

Definition cres_eqb : cres -> cres -> bool :=
  pair_eqb (list_eqb (pair_eqb (pair_eqb N.eqb bytes_eqb) Bool.eqb))
    (pair_eqb (list_eqb (option_eqb N.eqb)) N.eqb).

(* the encoding on an example (checked at compile time) *)
Example ps_example :
  ps [L 3 0x61623a; HX 2 0x0fa1; L 2 0x0001]%N = [97; 98; 58; 48; 102; 97; 49; 0; 1]%N.
Proof. vm_compute. reflexivity. Qed.

Example timed_example :
  timed [] [([97], [48])]%N 0 0 [CT 0; ADV 2; CD (TI 0); CK (W 0) (SK 0 1 2)]%N
  = [(1%Z, ECreate [97] [48]); (2002%Z, EDelete [97]); (2003%Z, ECheck [97; 48] [58; 48])]%N.
Proof. vm_compute. reflexivity. Qed.
