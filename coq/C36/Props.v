(* C36 — RPC access control admits only authorised callers.  PROPERTY THEOREMS ONLY.

   Model: C36/Model.v mirrors accesstoken.go (Create / Check / Delete over the token
   database) and authn.go (Authenticate: tokenAuthn -> cachedTokenAuthnCheck,
   localhostAuthn via net.IP.IsLoopback, the three local-only prefixes, the
   /dashboard and /equity exemption, the loopback bypass, else the token result),
   with the repair of the cache key in place: the cache is keyed by the pair
   (user, pw) as /repo's working tree now does  (p... = the model at [pair_key]).
   The pinned tree's key user+pw is refuted in C36/History.v.

   A history is ANY list of timed events  ECreate id secret | EDelete id |
   ECheck id pw | ERequest (origin, path, credentials)  (any ids, secrets, paths,
   origins, credentials, any interleaving, any length); [pexec (pinit false) h] is
   the state of an API with authentication ENABLED after h.
   [issued h u = Some p]: (u, p) is the (id, secret) of a token that is live after h
   (created with a well-formed unused id, not deleted since) - defined on the
   history alone, not on the model's store.
   [validated_at h u p t]: some request of h, processed at time t, carried exactly
   the credentials (u, p) while (u, p) was live.
   [api_path]: every path except the static pages /dashboard, /dashboard/...,
   /equity, /equity/... which the code serves without authentication by design
   (interpretation of "request" in the property, stated in DESIGN.md C36).
   Times are in ms; token_expiry = 300000 (5 minutes). *)
From Coq Require Import List ZArith NArith.
From Verif Require Import Cmp.
From C36 Require Import Model Proofs.
Import ListNotations.
Open Scope Z_scope.

(* A non-loopback request to an API path, arriving at any time [now] after any
   history, is admitted only if its credentials are exactly the (id, secret) of a
   token that is live, or that was live when a request with these very credentials
   validated it at most 5 minutes before. *)
Theorem c36_admit_only_issued :
  forall (h : history) (r : request) (now : Z),
    is_local (origin r) = false -> api_path (path r) = true ->
    padmitted (pexec (pinit false) h) r now = true ->
    exists u p, creds r = Some (u, p) /\
      (issued h u = Some p \/
       exists t, validated_at h u p t /\ now <= t + token_expiry).
Proof. exact admit_only_issued. Qed.
Print Assumptions c36_admit_only_issued.

(* The same, read off the observations of a whole history: whenever the i-th event
   of a history is such a request and its recorded result is "nil error", its
   credentials were issued and live / recently validated at that point. *)
Theorem c36_every_request_in_history :
  forall (h1 : history) (t : Z) (r : request) (h2 : history) tok l,
    is_local (origin r) = false -> api_path (path r) = true ->
    nth_error (snd (prun (pinit false) (h1 ++ (t, ERequest r) :: h2))) (length h1)
      = Some (OReq ANil tok l) ->
    exists u p, creds r = Some (u, p) /\
      (issued h1 u = Some p \/
       exists t0, validated_at h1 u p t0 /\ t <= t0 + token_expiry).
Proof. exact every_request_in_history. Qed.
Print Assumptions c36_every_request_in_history.

(* In the words of the property (clock non-decreasing along the history): the token
   is live, or it was deleted at most 5 minutes ago. *)
Theorem c36_admit_live_or_recently_deleted :
  forall (h : history) (r : request) (now : Z),
    times_ok h now ->
    is_local (origin r) = false -> api_path (path r) = true ->
    padmitted (pexec (pinit false) h) r now = true ->
    exists u p, creds r = Some (u, p) /\
      (issued h u = Some p \/
       exists h1 td h2, h = h1 ++ (td, EDelete u) :: h2 /\ issued h1 u = Some p /\
                        now <= td + token_expiry).
Proof. exact admit_live_or_recently_deleted. Qed.
Print Assumptions c36_admit_live_or_recently_deleted.

(* Non-loopback requests to wallet backup / restore and token listing are refused
   whatever the credentials, the history, and whether authentication is enabled. *)
Theorem c36_local_only :
  forall (dis : bool) (h : history) (r : request) (now : Z),
    is_local (origin r) = false -> local_only_path (path r) = true ->
    padmitted (pexec (pinit dis) h) r now = false /\
    fst (fst (snd (pauthenticate (pexec (pinit dis) h) r now))) = ALocalOnly.
Proof. exact local_only. Qed.
Print Assumptions c36_local_only.

(* A deleted token is refused once the window has passed: if id u was deleted at
   time td, not created again, and now > td + 5 min, then no password is accepted
   for u from a non-loopback origin. *)
Theorem c36_cache_window :
  forall (h1 : history) (td : Z) (u : str) (h2 : history) (r : request) (now : Z) (p : str),
    times_ok (h1 ++ (td, EDelete u) :: h2) now -> no_create u h2 ->
    td + token_expiry < now ->
    is_local (origin r) = false -> api_path (path r) = true -> creds r = Some (u, p) ->
    padmitted (pexec (pinit false) (h1 ++ (td, EDelete u) :: h2)) r now = false.
Proof. exact cache_window. Qed.
Print Assumptions c36_cache_window.

(* The mechanism is not vacuous: the exact pair of a live token (secret without ':',
   as the hex secrets are) is admitted from any origin on every path that is not
   local-only, and from a loopback origin on every path. *)
Theorem c36_live_token_admitted :
  forall (h : history) (r : request) (now : Z) (u p : str),
    issued h u = Some p -> ~ In colon p -> creds r = Some (u, p) ->
    (is_local (origin r) = true \/ local_only_path (path r) = false) ->
    padmitted (pexec (pinit false) h) r now = true.
Proof. exact live_admitted. Qed.
Print Assumptions c36_live_token_admitted.

(* [prun] (evaluated on the correspondence cases) and [pexec] agree on the state *)
Theorem c36_run_state : forall h st, fst (prun st h) = pexec st h.
Proof. exact prun_exec. Qed.
Print Assumptions c36_run_state.
