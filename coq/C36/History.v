(* C36 — history: the cache key of the PINNED tree (tokenMap[user+pw]) violates the
   property.  The same model with [concat_key] admits, from a LAN address, the pair
   ("a", "b"+s) once the issued token ("ab", s) has been used: both pairs
   concatenate to the same key.  Replayed on the real code before the repair
   (authn.API + accesstoken store): ("a", "b"+s) -> nil error.  Not an obligation
   of the check any more: /repo carries the repair (key = the pair), which is what
   C36/Props.v is about. *)
From Coq Require Import List ZArith NArith Bool Lia.
From Coq Require Import String.
From Verif Require Import Cmp.
From C36 Require Import Model Proofs Examples.
Import ListNotations.
Open Scope Z_scope.

Definition w_hist : history :=
  [ (0, ECreate (s2b "ab") ex_sec);
    (1000, ERequest (ex_req (s2b "ab") ex_sec)) ].
Definition w_req : request := ex_req (s2b "a") (s2b "b" ++ ex_sec).

(* the shifted pair is admitted by the pinned keying ... *)
Lemma concat_key_admits_shifted_pair :
  is_local (origin w_req) = false /\ api_path (path w_req) = true /\
  admitted str concat_key bytes_eqb (exec str concat_key bytes_eqb (init str false) w_hist) w_req 2000 = true.
Proof. repeat split; vm_compute; reflexivity. Qed.

(* ... and refused by the repaired keying *)
Lemma pair_key_refuses_shifted_pair : padmitted (pexec (pinit false) w_hist) w_req 2000 = false.
Proof. vm_compute. reflexivity. Qed.

Theorem c36_refuted_concat_cache_key : ~ admit_only_issued_stmt str concat_key bytes_eqb.
Proof.
  intros H. destruct concat_key_admits_shifted_pair as (H1 & H2 & H3).
  destruct (H w_hist w_req 2000 H1 H2 H3) as (u & p & Hc & Hcase).
  cbn in Hc. inversion Hc; subst u p. clear Hc.
  destruct Hcase as [Hi|(t & (h1 & r & h2 & Hh & Hcr & Hi) & _)].
  - vm_compute in Hi. discriminate.
  - destruct h1 as [|e1 [|e2 [|e3 h1]]]; cbn in Hh.
    + inversion Hh.
    + inversion Hh; subst. vm_compute in Hcr. discriminate.
    + inversion Hh.
    + inversion Hh.
Qed.
Print Assumptions c36_refuted_concat_cache_key.
