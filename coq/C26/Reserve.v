(* C26 — what Reserve / ReserveParticular return, in terms of the funds of the request. *)
From Coq Require Import List ZArith NArith Bool Lia Permutation.
From Coq Require Import ZifyBool ZifyN ZifyNat.
From Verif Require Import Outcome.
From C26 Require Import Model Proofs Select.
Import ListNotations.
Open Scope N_scope.

Lemma funds_nodup st acct asset uu vote : NoDup (map uid (funds st acct asset uu vote)).
Proof. apply dedup_ids_nodup. Qed.

Lemma funds_In st acct asset uu vote u :
  In u (funds st acct asset uu vote) -> In u (sources st uu) /\ matches acct asset vote u = true.
Proof. intros H. apply dedup_ids_In in H. destruct H as [H _]. apply filter_In in H. exact H. Qed.

(* One lemma for everything a Reserve call can do, provided the funds of the request sum
   to less than 2^64 (so that no uint64 addition in findUtxos/optUTXOs/Reserve wraps). *)
Lemma reserve_analysis st acct asset amount uu vote exp ord :
  let F := funds st acct asset uu vote in
  let M := filter (mature (height st)) F in
  let U := filter (unreserved (reserved st)) M in
  sumN F < two64 ->
  match reserve true st acct asset amount uu vote exp ord with
  | (st', RBadOrder) => st' = st
  | (st', RPanic _) => st' = st /\ amount = 0
  | (st', RErr EInsufficient) => st' = st /\ sumN F < amount
  | (st', RErr EImmature) => st' = st /\ amount <= sumN F /\ sumN M < amount
  | (st', RErr EReserved) => st' = st /\ amount <= sumN M /\ sumN U < amount
  | (st', RErr EMatchUTXO) => False
  | (st', RNone) => False
  | (st', RRes id us change) =>
    amount <= sumN U /\
    NoDup (map uid us) /\ (forall u, In u us -> In u U) /\
    amount <= sumN us /\ change = sumN us - amount /\
    id = add64 (next st) 1 /\
    st' = set_reservation st (fold_left (fun m u => rput (uid u) id m) us (reserved st))
                          (rsv_put (mkR id us change exp) (resvs st)) id
  end.
Proof.
  intros F M U HF. unfold reserve. rewrite find_utxos_spec. fold F. fold M.
  set (I := filter (fun u => negb (mature (height st) u)) F).
  destruct (arrange M ord) as [sorted|] eqn:Ea; [|reflexivity].
  destruct (sorted_desc sorted); cbn [negb]; [|reflexivity].
  apply arrange_perm in Ea. unfold opt_utxos.
  set (U' := filter (fun u => negb (rmem (uid u) (reserved st))) sorted).
  set (R := filter (fun u => rmem (uid u) (reserved st)) sorted).
  assert (HUR : sumN R + sumN U' = sumN sorted)
    by apply (sumN_filter_split (fun u => rmem (uid u) (reserved st)) sorted).
  assert (HMI : sumN M + sumN I = sumN F) by apply (sumN_filter_split (mature (height st)) F).
  assert (HsM : sumN M = sumN sorted) by (apply sumN_perm; exact Ea).
  assert (HU : sumN U = sumN U') by (apply sumN_perm; apply (perm_filter (unreserved (reserved st))); exact Ea).
  assert (HndU : NoDup (map uid U')).
  { apply NoDup_map_filter. eapply Permutation_NoDup; [apply Permutation_map; exact Ea|].
    apply NoDup_map_filter. apply funds_nodup. }
  assert (HinU : forall u, In u U' -> In u U).
  { intros u Hu. apply filter_In in Hu. destruct Hu as [Hu Hr]. apply filter_In. split; [|exact Hr].
    eapply Permutation_in; [apply Permutation_sym; exact Ea | exact Hu]. }
  assert (Hinv : loop_inv amount (sumN U') U' [] 0 None).
  { unfold loop_inv. cbn [sumN rp_repl]. repeat split; lia. }
  pose proof (opt_loop_spec amount (sumN U') ltac:(lia) U' [] 0 None Hinv) as Hpost.
  unfold loop_post in Hpost.
  destruct (opt_loop amount U' [] 0 None) as [[o a]|]; [|split; [reflexivity | exact Hpost]].
  destruct Hpost as (P1 & P2 & P3 & P4 & P5 & P6). cbn [app rp_repl sumN] in *.
  rewrite (sum64_sumN R) by lia. rewrite (sum64_sumN I) by lia.
  rewrite (add64_small a (sumN R)) by lia. rewrite (add64_small (a + sumN R) (sumN I)) by lia.
  assert (Hlt : a < amount -> a = sumN U').
  { intros H. apply P4 in H. destruct H as [_ H]. subst o. exact P1. }
  destruct (a + sumN R + sumN I <? amount) eqn:E1; [split; [reflexivity | lia]|].
  destruct (a + sumN R <? amount) eqn:E2; [split; [reflexivity | lia]|].
  destruct (a <? amount) eqn:E3; [split; [reflexivity | lia]|].
  split; [lia|]. split; [auto|]. split; [auto|]. split; [lia|].
  split; [rewrite sub64_small by lia; lia|]. split; reflexivity.
Qed.

(* ---- ReserveParticular ------------------------------------------------------------------ *)
Lemma uget_Some i l u : uget i l = Some u -> In u l /\ uid u = i.
Proof. unfold uget. intros H. apply find_some in H. destruct H as [H E]. apply N.eqb_eq in E. auto. Qed.

Lemma find_utxo_Some st out uu u :
  find_utxo st out uu = Some u ->
  uid u = out /\ (In u (confirmed st) \/ In u (contract st) \/ (uu = true /\ In u (unconf st))).
Proof.
  unfold find_utxo. destruct uu.
  - destruct (uget out (unconf st)) eqn:E1.
    + intros H; inversion H; subst. apply uget_Some in E1. tauto.
    + destruct (uget out (confirmed st)) eqn:E2.
      * intros H; inversion H; subst. apply uget_Some in E2. tauto.
      * intros H. apply uget_Some in H. tauto.
  - destruct (uget out (confirmed st)) eqn:E2.
    + intros H; inversion H; subst. apply uget_Some in E2. tauto.
    + intros H. apply uget_Some in H. tauto.
Qed.

Lemma reserve_particular_analysis st out uu exp :
  match reserve_particular st out uu exp with
  | (st', RErr EReserved) => st' = st /\ rmem out (reserved st) = true
  | (st', RErr EMatchUTXO) => st' = st /\ rmem out (reserved st) = false /\ find_utxo st out uu = None
  | (st', RErr EImmature) =>
    st' = st /\ rmem out (reserved st) = false /\
    exists u, find_utxo st out uu = Some u /\ height st < uvh u
  | (st', RRes id us change) =>
    exists u, us = [u] /\ change = 0 /\ find_utxo st out uu = Some u /\ uid u = out /\
              uvh u <= height st /\ rmem out (reserved st) = false /\
              id = add64 (next st) 1 /\
              st' = set_reservation st (rput (uid u) id (reserved st))
                                    (rsv_put (mkR id [u] 0 exp) (resvs st)) id
  | (_, _) => False
  end.
Proof.
  unfold reserve_particular. destruct (rmem out (reserved st)) eqn:Er; [auto|].
  destruct (find_utxo st out uu) as [u|] eqn:Ef; [|auto].
  destruct (height st <? uvh u) eqn:Eh.
  - split; [reflexivity|]. split; [reflexivity|]. exists u. split; [reflexivity | lia].
  - exists u. apply find_utxo_Some in Ef. destruct Ef as [Ef _].
    repeat split; auto. lia.
Qed.
