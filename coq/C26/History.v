(* C26 — the pinned tree (findUtxos without de-duplication) violates the property.

   One 5-unit output that is both in the wallet DB and in the unconfirmed map (the
   state between the wallet attaching a block and processing the pool's removal
   event), a request for 8 with unconfirmed outputs allowed: the pinned findUtxos
   returns the output twice, optUTXOs takes both copies, and Reserve succeeds with a
   reservation that holds the same output twice and reports change 2, although the
   account owns 5.  With the repair the same call fails with "insufficient". *)
From Coq Require Import List ZArith NArith Bool.
From Verif Require Import Outcome.
From C26 Require Import Model Proofs.
Import ListNotations.
Open Scope N_scope.

Definition w_u : utxo := mkU 1 1 1 0 5 0.
Definition w_state : state := init_state [w_u] [] [w_u] 100.

Lemma pinned_double_reserve :
  snd (run_gen false w_state [OReserve 1 1 8 true 0 10 [1; 1]]) = [RRes 1 [w_u; w_u] 2].
Proof. vm_compute. reflexivity. Qed.

Lemma repaired_insufficient :
  snd (run w_state [OReserve 1 1 8 true 0 10 [1]]) = [RErr EInsufficient].
Proof. vm_compute. reflexivity. Qed.

Lemma pinned_violates :
  exists st ops st' id us change,
    run_gen false st ops = (st', [RRes id us change]) /\
    ~ NoDup (map uid us) /\
    sumN (funds st 1 1 true 0) < 8 /\ ops = [OReserve 1 1 8 true 0 10 [1; 1]].
Proof.
  exists w_state, [OReserve 1 1 8 true 0 10 [1; 1]].
  eexists; exists 1, [w_u; w_u], 2. split; [vm_compute; reflexivity|]. split; [|split; [reflexivity|reflexivity]].
  intros H. inversion H as [|? ? Hn _]; subst. apply Hn. left. reflexivity.
Qed.
