(* C26 — UTXO reservations never overlap and cover the request.  PROPERTY THEOREMS ONLY.

   Model: C26/Model.v mirrors account/utxo_keeper.go (findUtxos with the repair in
   place: an output id is taken once even when it is both in the wallet DB and in
   the unconfirmed map; findUtxo; optUTXOs statement by statement: the reserved
   split, the greedy prefix, the replace-largest loop with desireUtxoCount;
   Reserve, ReserveParticular, cancel, expireReservation) with uint64 wrap-around.
   [run] = [run_gen true].  An operation sequence is any list of
     OReserve / OReserveParticular / OCancel / OExpire                (the keeper)
     OAddUnconfirmed / ORemoveUnconfirmed / ODbPut / ODbDel /
     OContractPut / OContractDel / OSetHeight                         (wallet, chain)
   with arbitrary arguments.  The result of sort.Slice inside Reserve is the
   argument [ord] of OReserve: the theorems hold for EVERY order (a call whose
   [ord] is not a sorting of the candidates returns RBadOrder and changes nothing).

   Vocabulary (C26/Proofs.v):
     sources st uu       the DB's "ACU:" entries, then (uu = use unconfirmed) the unconfirmed map
     funds st a s uu v   the outputs of account a, asset s, vote v among the sources, each id once
     mature h / unreserved m   ValidHeight <= h / id not a key of the reserved map
     sumN                the true (unbounded) sum of amounts
     ids r               the output ids held by reservation r.

   Side conditions, the only hypotheses: uint64 arithmetic does not wrap.  For the
   bookkeeping (1.) the reservation counter must not wrap ([fits_id], C26/Struct.v:
   nextIndex + 1 < 2^64 at a reservation; implied by "fewer than 2^64 operations");
   for the amounts (2., 3.) the funds of the request sum to less than 2^64. *)
From Coq Require Import List ZArith NArith Bool.
From Verif Require Import Outcome.
From C26 Require Import Model Proofs Select Reserve Inv Struct Main History.
Import ListNotations.
Open Scope N_scope.

(* 1. NO OVERLAP.  After ANY sequence of fewer than 2^64 operations (any arguments, any
   amounts - also when uint64 sums wrap -, any interleaving of reservations,
   particular reservations, cancellations, expiries and wallet/chain events), from a
   keeper over any wallet DB: every live reservation holds pairwise distinct outputs,
   two different live reservations share no output, and the keys of the reserved map
   are exactly the outputs held by live reservations. *)
Theorem c26_no_overlap :
  forall (conf contr unc : list utxo) (h : N) (ops : list op) (st : state) (rs : list result),
    N.of_nat (length ops) < two64 ->
    run (init_state conf contr unc h) ops = (st, rs) ->
    (forall r, In r (resvs st) -> NoDup (ids r)) /\
    (forall i j r1 r2, nth_error (resvs st) i = Some r1 -> nth_error (resvs st) j = Some r2 -> i <> j ->
                       forall o, In o (ids r1) -> ~ In o (ids r2)) /\
    (forall o, rmem o (reserved st) = true <-> exists r, In r (resvs st) /\ In o (ids r)).
Proof. exact reachable_no_overlap_length. Qed.
Print Assumptions c26_no_overlap.

(* The inductive invariant behind it: it holds for the empty keeper, every single
   operation preserves it, and it implies the statement above. *)
Theorem c26_inv_init : forall conf contr unc h, inv (init_state conf contr unc h).
Proof. exact inv_init. Qed.
Print Assumptions c26_inv_init.

Theorem c26_inv_step : forall st o, inv st -> fits_id st o -> inv (fst (step st o)).
Proof. exact step_inv_id. Qed.
Print Assumptions c26_inv_step.

Theorem c26_inv_implies_no_overlap : forall st, inv st -> no_overlap st.
Proof. exact inv_no_overlap. Qed.
Print Assumptions c26_inv_implies_no_overlap.

(* 2. COVER.  A successful Reserve, from ANY keeper state: the reservation holds
   pairwise distinct outputs; each is one of the keeper's outputs (DB, or the
   unconfirmed map when allowed) of the requested account, asset and vote key,
   mature at the current height and not reserved before the call; their true sum
   reaches the requested amount and the change is exactly the excess; the
   reservation is live afterwards under the returned id and its outputs are
   reserved. *)
Theorem c26_covers :
  forall st acct asset amount uu vote exp ord st' id us change,
    sumN (funds st acct asset uu vote) < two64 ->
    reserve true st acct asset amount uu vote exp ord = (st', RRes id us change) ->
    NoDup (map uid us) /\
    (forall u, In u us ->
       In u (sources st uu) /\ matches acct asset vote u = true /\
       uvh u <= height st /\ rmem (uid u) (reserved st) = false) /\
    amount <= sumN us /\ change = sumN us - amount /\
    rsv_get id (resvs st') = Some (mkR id us change exp) /\
    (forall u, In u us -> rmem (uid u) (reserved st') = true).
Proof. exact reserve_covers. Qed.
Print Assumptions c26_covers.

(* The same for ReserveParticular: exactly the requested output, found in the DB
   ("ACU:" or "SCU:") or, when allowed, in the unconfirmed map; mature; not reserved
   before; change 0. *)
Theorem c26_covers_particular :
  forall st out uu exp st' id us change,
    reserve_particular st out uu exp = (st', RRes id us change) ->
    exists u, us = [u] /\ change = 0 /\ uid u = out /\
              (In u (confirmed st) \/ In u (contract st) \/ (uu = true /\ In u (unconf st))) /\
              uvh u <= height st /\ rmem (uid u) (reserved st) = false /\
              rsv_get id (resvs st') = Some (mkR id us change exp) /\
              rmem (uid u) (reserved st') = true.
Proof. exact reserve_particular_covers. Qed.
Print Assumptions c26_covers_particular.

(* 3. ERROR CLASSES.  With F the funds of the request, M the mature ones, U the
   mature unreserved ones: Reserve answers "insufficient" exactly when F falls
   short, "immature" exactly when F suffices but M falls short, "reserved" exactly
   when M suffices but U falls short, and succeeds exactly when U suffices. *)
Theorem c26_error_classes :
  forall st acct asset amount uu vote exp ord,
    let F := funds st acct asset uu vote in
    let M := filter (mature (height st)) F in
    let U := filter (unreserved (reserved st)) M in
    let r := snd (reserve true st acct asset amount uu vote exp ord) in
    sumN F < two64 -> 0 < amount -> r <> RBadOrder ->
    (r = RErr EInsufficient <-> sumN F < amount) /\
    (r = RErr EImmature <-> amount <= sumN F /\ sumN M < amount) /\
    (r = RErr EReserved <-> amount <= sumN M /\ sumN U < amount) /\
    ((exists id us change, r = RRes id us change) <-> amount <= sumN U).
Proof. exact reserve_classes. Qed.
Print Assumptions c26_error_classes.

Theorem c26_error_classes_particular :
  forall st out uu exp,
    let r := snd (reserve_particular st out uu exp) in
    (r = RErr EReserved <-> rmem out (reserved st) = true) /\
    (r = RErr EMatchUTXO <-> rmem out (reserved st) = false /\ find_utxo st out uu = None) /\
    (r = RErr EImmature <->
     rmem out (reserved st) = false /\ exists u, find_utxo st out uu = Some u /\ height st < uvh u) /\
    ((exists id us change, r = RRes id us change) <->
     rmem out (reserved st) = false /\ exists u, find_utxo st out uu = Some u /\ uvh u <= height st).
Proof. exact reserve_particular_classes. Qed.
Print Assumptions c26_error_classes_particular.

(* a failed Reserve changes nothing (whatever the amounts) *)
Theorem c26_failure_no_effect :
  forall st acct asset amount uu vote exp ord st' e,
    reserve true st acct asset amount uu vote exp ord = (st', RErr e) -> st' = st.
Proof. exact reserve_failure_no_effect. Qed.
Print Assumptions c26_failure_no_effect.

(* optUTXOs dereferences optList.Front() of an empty list only for a request of 0 *)
Theorem c26_no_panic :
  forall st acct asset amount uu vote exp ord p,
    sumN (funds st acct asset uu vote) < two64 -> 0 < amount ->
    snd (reserve true st acct asset amount uu vote exp ord) <> RPanic p.
Proof. exact reserve_no_panic. Qed.
Print Assumptions c26_no_panic.

(* 4. The pinned tree (no de-duplication in findUtxos) violates the property: one
   5-unit output present in the DB and in the unconfirmed map, request 8: the
   reservation succeeds holding that output twice. *)
Theorem c26_pinned_tree_violates :
  exists st ops st' id us change,
    run_gen false st ops = (st', [RRes id us change]) /\
    ~ NoDup (map uid us) /\
    sumN (funds st 1 1 true 0) < 8 /\ ops = [OReserve 1 1 8 true 0 10 [1; 1]].
Proof. exact pinned_violates. Qed.
Print Assumptions c26_pinned_tree_violates.
