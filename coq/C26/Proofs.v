(* C26 — proofs about the model of account/utxo_keeper.go (C26/Model.v). *)
From Coq Require Import List ZArith NArith Bool Lia Permutation.
From Coq Require Import ZifyBool ZifyN ZifyNat.
From Verif Require Import Outcome.
From C26 Require Import Model.
Import ListNotations.
Open Scope N_scope.

(* ---- specification vocabulary ----------------------------------------------------- *)

(* the true (unbounded) sum of the amounts *)
Fixpoint sumN (l : list utxo) : N :=
  match l with [] => 0 | u :: l' => uamt u + sumN l' end.

(* first occurrence of every output id, ids in [seen] excluded *)
Fixpoint dedup_ids (seen : list N) (l : list utxo) : list utxo :=
  match l with
  | [] => []
  | u :: l' => if memN (uid u) seen then dedup_ids seen l' else u :: dedup_ids (uid u :: seen) l'
  end.

(* where Reserve looks: the DB's "ACU:" entries, then (if asked) the unconfirmed map *)
Definition sources (st : state) (use_unconf : bool) : list utxo :=
  confirmed st ++ (if use_unconf then unconf st else []).

(* the funds of (account, asset, vote): each output once *)
Definition funds (st : state) (acct asset : N) (use_unconf : bool) (vote : N) : list utxo :=
  dedup_ids [] (filter (matches acct asset vote) (sources st use_unconf)).

Definition mature (h : N) (u : utxo) : bool := negb (h <? uvh u).
Definition unreserved (rsv : list (N * N)) (u : utxo) : bool := negb (rmem (uid u) rsv).

Definition ids (r : resv) : list N := map uid (rutxos r).
Definition held (rs : list resv) : list N := flat_map ids rs.

(* ---- uint64 arithmetic without wrap-around ------------------------------------------ *)
Lemma two64_pos : 0 < two64. Proof. reflexivity. Qed.

Lemma add64_small a b : a + b < two64 -> add64 a b = a + b.
Proof. intros H. unfold add64. apply N.mod_small. exact H. Qed.

Lemma sub64_small a b : b <= a -> a < two64 -> sub64 a b = a - b.
Proof.
  intros Hb Ha. unfold sub64.
  replace (a + two64 - b) with ((a - b) + 1 * two64) by lia.
  rewrite N.mod_add by (intro E; discriminate E).
  apply N.mod_small. lia.
Qed.

Lemma sumN_app l1 l2 : sumN (l1 ++ l2) = sumN l1 + sumN l2.
Proof. induction l1 as [|u l1 IH]; cbn [sumN app]; [reflexivity | rewrite IH; lia]. Qed.

Lemma sumN_perm l1 l2 : Permutation l1 l2 -> sumN l1 = sumN l2.
Proof. induction 1; cbn [sumN]; lia. Qed.

Lemma sumN_filter_split (p : utxo -> bool) l :
  sumN (filter p l) + sumN (filter (fun u => negb (p u)) l) = sumN l.
Proof.
  induction l as [|u l IH]; cbn [filter sumN]; [reflexivity|].
  destruct (p u); cbn [negb sumN]; lia.
Qed.

Lemma sumN_filter_le (p : utxo -> bool) l : sumN (filter p l) <= sumN l.
Proof. pose proof (sumN_filter_split p l). lia. Qed.

Lemma sum64_acc l : forall a, a + sumN l < two64 ->
  fold_left (fun a u => add64 a (uamt u)) l a = a + sumN l.
Proof.
  induction l as [|u l IH]; intros a H; cbn [fold_left sumN] in *; [lia|].
  rewrite add64_small by lia. rewrite IH by lia. lia.
Qed.

Lemma sum64_sumN l : sumN l < two64 -> sum64 l = sumN l.
Proof. intros H. unfold sum64. rewrite sum64_acc; lia. Qed.

(* ---- lists ------------------------------------------------------------------------------ *)
Lemma memN_In x l : memN x l = true <-> In x l.
Proof.
  unfold memN. rewrite existsb_exists. split.
  - intros [y [Hy E]]. apply N.eqb_eq in E. subst. exact Hy.
  - intros H. exists x. split; [exact H | apply N.eqb_refl].
Qed.

Lemma memN_false x l : memN x l = false <-> ~ In x l.
Proof.
  rewrite <- memN_In. destruct (memN x l).
  - split; [discriminate | intros H; exfalso; apply H; reflexivity].
  - split; [intros _ H; discriminate | reflexivity].
Qed.

Lemma perm_filter {A} (p : A -> bool) l1 l2 :
  Permutation l1 l2 -> Permutation (filter p l1) (filter p l2).
Proof.
  induction 1; cbn [filter].
  - constructor.
  - destruct (p x); [constructor|]; assumption.
  - destruct (p x), (p y); try apply Permutation_refl. apply perm_swap.
  - eapply perm_trans; eassumption.
Qed.

Lemma NoDup_map_filter {A B} (f : A -> B) (p : A -> bool) l :
  NoDup (map f l) -> NoDup (map f (filter p l)).
Proof.
  induction l as [|x l IH]; cbn [map filter]; intros H; [constructor|].
  inversion H as [|? ? Hn Hd]; subst.
  destruct (p x); cbn [map]; [constructor|]; auto.
  intros Hin. apply Hn. apply in_map_iff in Hin. destruct Hin as [y [E Hy]].
  apply filter_In in Hy. apply in_map_iff. exists y. tauto.
Qed.

Lemma NoDup_app_l {A} (l1 l2 : list A) : NoDup (l1 ++ l2) -> NoDup l1.
Proof.
  induction l1 as [|x l1 IH]; cbn [app]; intros H; [constructor|].
  inversion H; subst. constructor; [|auto]. intros Hin. apply H2. apply in_or_app. auto.
Qed.

Lemma NoDup_app_r {A} (l1 l2 : list A) : NoDup (l1 ++ l2) -> NoDup l2.
Proof. induction l1 as [|x l1 IH]; cbn [app]; intros H; [exact H|]. inversion H; auto. Qed.

Lemma NoDup_app_disj {A} (l1 l2 : list A) x : NoDup (l1 ++ l2) -> In x l1 -> In x l2 -> False.
Proof.
  induction l1 as [|y l1 IH]; cbn [app]; intros H H1 H2; [destruct H1|].
  inversion H; subst. destruct H1 as [E|H1]; [subst; apply H4; apply in_or_app; auto | eauto].
Qed.

Lemma NoDup_app_intro {A} (l1 l2 : list A) :
  NoDup l1 -> NoDup l2 -> (forall x, In x l1 -> In x l2 -> False) -> NoDup (l1 ++ l2).
Proof.
  induction l1 as [|y l1 IH]; cbn [app]; intros H1 H2 Hd; [exact H2|].
  inversion H1; subst. constructor.
  - intros Hin. apply in_app_or in Hin. destruct Hin as [Hin|Hin]; [auto | apply (Hd y); cbn; auto].
  - apply IH; auto. intros x Hx. apply Hd. cbn; auto.
Qed.

(* ---- the reserved map ------------------------------------------------------------------------ *)
Lemma rmem_rdel o o' m : rmem o (rdel o' m) = negb (o' =? o) && rmem o m.
Proof.
  unfold rmem, rdel. induction m as [|[k v] m IH]; cbn [filter existsb fst]; [destruct (o' =? o); reflexivity|].
  destruct (k =? o') eqn:E1; cbn [negb existsb fst].
  - apply N.eqb_eq in E1. subst k. rewrite IH. destruct (o' =? o); reflexivity.
  - rewrite IH. destruct (k =? o) eqn:E2; cbn [orb]; [|reflexivity].
    apply N.eqb_eq in E2. subst k. rewrite N.eqb_sym, E1. reflexivity.
Qed.

Lemma rmem_rput o o' id m : rmem o (rput o' id m) = (o' =? o) || rmem o m.
Proof.
  unfold rput. change (rmem o ((o', id) :: rdel o' m)) with ((o' =? o) || rmem o (rdel o' m)).
  rewrite rmem_rdel. destruct (o' =? o); reflexivity.
Qed.

Lemma rmem_fold_rput id us : forall m o,
  rmem o (fold_left (fun m u => rput (uid u) id m) us m) = true <-> In o (map uid us) \/ rmem o m = true.
Proof.
  induction us as [|u us IH]; intros m o; cbn [fold_left map In]; [tauto|].
  rewrite IH, rmem_rput. rewrite orb_true_iff, N.eqb_eq. tauto.
Qed.

Lemma rmem_fold_rdel us : forall m o,
  rmem o (fold_left (fun m u => rdel (uid u) m) us m) = true <-> ~ In o (map uid us) /\ rmem o m = true.
Proof.
  induction us as [|u us IH]; intros m o; cbn [fold_left map In]; [tauto|].
  rewrite IH, rmem_rdel. rewrite andb_true_iff, negb_true_iff, N.eqb_neq. tauto.
Qed.
