(* C26 — the part of the analysis that does not depend on amounts: whatever the sums do
   (even when uint64 additions wrap), a Reserve picks pairwise distinct, unreserved
   candidates, and a failed call changes nothing.  This makes the no-overlap theorem
   independent of the no-wrap-around side condition on amounts. *)
From Coq Require Import List ZArith NArith Bool Lia Permutation.
From Coq Require Import ZifyBool ZifyN ZifyNat.
From Verif Require Import Outcome.
From C26 Require Import Model Proofs Select Reserve Inv.
Import ListNotations.
Open Scope N_scope.

Definition picks_from (l o : list utxo) : Prop :=
  (forall x, In x o -> In x l) /\ (NoDup (map uid l) -> NoDup (map uid o)).

Lemma picks_from_refl l : picks_from l l.
Proof. split; auto. Qed.

Lemma picks_from_trans l l' o : picks_from l l' -> picks_from l' o -> picks_from l o.
Proof. intros [A1 A2] [B1 B2]. split; auto. Qed.

Lemma picks_from_prefix l1 l2 : picks_from (l1 ++ l2) l1.
Proof. split; [intros x Hx; apply in_or_app; auto | rewrite map_app; apply NoDup_app_l]. Qed.

Lemma picks_from_tl l : picks_from l (tl l).
Proof.
  destruct l as [|a l]; [apply picks_from_refl|]. split; cbn [tl map]; [intros x Hx; cbn; auto|].
  intros H. inversion H; assumption.
Qed.

Lemma picks_from_app_tl l1 l2 : picks_from (l1 ++ l2) (tl l1 ++ l2).
Proof.
  destruct l1 as [|a l1]; [apply picks_from_refl|]. cbn [tl app]. apply (picks_from_tl (a :: l1 ++ l2)).
Qed.

Lemma opt_loop_picks amount : forall rest opt oamt rp o a,
  opt_loop amount rest opt oamt rp = Some (o, a) -> picks_from (opt ++ rp_repl rp ++ rest) o.
Proof.
  induction rest as [|u rest' IH]; intros opt oamt rp o a H; cbn [opt_loop] in H.
  - inversion H; subst. apply picks_from_prefix.
  - assert (Hinner : forall repl ramt,
               match inner_step amount u opt oamt repl ramt with
               | LStop => Some (opt, oamt) | LPanic => None
               | LNext o1 a1 rp1 => opt_loop amount rest' o1 a1 rp1 end = Some (o, a) ->
               picks_from (opt ++ repl ++ u :: rest') o).
    { intros repl ramt E. unfold inner_step in E.
      destruct (Z.of_nat (length repl) <=? desire_utxo_count - Z.of_nat (length opt))%Z.
      - destruct (amount <=? add64 ramt (uamt u)).
        + apply IH in E. cbn [rp_repl app] in E.
          eapply picks_from_trans; [|exact E].
          replace ((tl opt ++ repl ++ [u]) ++ rest') with (tl opt ++ (repl ++ u :: rest'))
            by (rewrite <- !app_assoc; reflexivity).
          apply picks_from_app_tl.
        + apply IH in E. cbn [rp_repl] in E. rewrite <- app_assoc in E. exact E.
      - inversion E; subst. apply picks_from_prefix. }
    unfold loop_step in H. destruct rp as [[repl ramt]|]; cbn [rp_repl].
    + apply (Hinner repl ramt H).
    + destruct (oamt <? amount).
      * apply IH in H. cbn [rp_repl app] in *. rewrite <- app_assoc in H. exact H.
      * destruct opt as [|big opt']; [discriminate|]. apply (Hinner [] _ H).
Qed.

(* Reserve, whatever the amounts: failure changes nothing; success adds one reservation
   over distinct unreserved outputs under the id nextIndex+1 (mod 2^64) *)
Lemma reserve_structure st acct asset amount uu vote exp ord :
  match reserve true st acct asset amount uu vote exp ord with
  | (st', RRes id us change) =>
    NoDup (map uid us) /\ (forall u, In u us -> rmem (uid u) (reserved st) = false) /\
    id = add64 (next st) 1 /\
    st' = set_reservation st (fold_left (fun m u => rput (uid u) id m) us (reserved st))
                          (rsv_put (mkR id us change exp) (resvs st)) id
  | (st', _) => st' = st
  end.
Proof.
  unfold reserve. rewrite find_utxos_spec.
  set (M := filter (mature (height st)) (funds st acct asset uu vote)).
  destruct (arrange M ord) as [sorted|] eqn:Ea; [|reflexivity].
  destruct (sorted_desc sorted); cbn [negb]; [|reflexivity].
  apply arrange_perm in Ea. unfold opt_utxos.
  set (U := filter (fun u => negb (rmem (uid u) (reserved st))) sorted).
  destruct (opt_loop amount U [] 0 None) as [[o a]|] eqn:El; [|reflexivity].
  destruct (add64 (add64 a _) _ <? amount); [reflexivity|].
  destruct (add64 a _ <? amount); [reflexivity|].
  destruct (a <? amount); [reflexivity|].
  apply opt_loop_picks in El. cbn [app rp_repl] in El. destruct El as [P1 P2].
  split; [|split; [|split; reflexivity]].
  - apply P2. apply NoDup_map_filter. eapply Permutation_NoDup; [apply Permutation_map; exact Ea|].
    apply NoDup_map_filter. apply funds_nodup.
  - intros u Hu. apply P1 in Hu. apply filter_In in Hu. destruct Hu as [_ Hu].
    apply negb_true_iff in Hu. exact Hu.
Qed.

(* the only side condition the bookkeeping needs: the reservation counter does not wrap *)
Definition fits_id (st : state) (o : op) : Prop :=
  match o with
  | OReserve _ _ _ _ _ _ _ | OReserveParticular _ _ _ => next st + 1 < two64
  | _ => True
  end.

Fixpoint run_fits_id (st : state) (ops : list op) : Prop :=
  match ops with
  | [] => True
  | o :: ops' => fits_id st o /\ run_fits_id (fst (step st o)) ops'
  end.

Lemma step_inv_id st o : inv st -> fits_id st o -> inv (fst (step st o)).
Proof.
  intros Hinv Hfit. destruct o; try (apply step_inv; [exact Hinv | exact Hfit]).
  cbn [step step_gen fst].
  pose proof (reserve_structure st acct asset amount use_unconf vote exp ord) as H.
  destruct (reserve true st acct asset amount use_unconf vote exp ord) as [st' r]. cbn [fst].
  destruct r as [|id us change|e|p|]; try (subst; exact Hinv).
  destruct H as (Hnd & Hfree & Eid & Est). subst st' id. apply add_inv; auto.
Qed.

Lemma run_inv_id ops : forall st, inv st -> run_fits_id st ops -> inv (fst (run st ops)).
Proof.
  induction ops as [|o ops IH]; intros st Hinv Hf; [exact Hinv|].
  destruct Hf as [Hf1 Hf2]. rewrite run_step. cbn [fst]. apply IH; [apply step_inv_id|]; assumption.
Qed.

(* the counter grows by at most one per operation *)
Lemma cancel_next st id : next (cancel st id) = next st.
Proof. unfold cancel. destruct (rsv_get id (resvs st)); reflexivity. Qed.

Lemma expire_next now l : forall st,
  next (fold_left (fun s r => if (rexpiry r <? now)%Z then cancel s (rid r) else s) l st) = next st.
Proof.
  induction l as [|r l IH]; intros st; cbn [fold_left]; [reflexivity|].
  rewrite IH. destruct (rexpiry r <? now)%Z; [apply cancel_next | reflexivity].
Qed.

Lemma step_next st o : next st + 1 < two64 -> next (fst (step st o)) <= next st + 1.
Proof.
  intros Hn. destruct o; cbn [step step_gen fst set_env next]; try lia.
  - pose proof (reserve_structure st acct asset amount use_unconf vote exp ord) as H.
    destruct (reserve true st acct asset amount use_unconf vote exp ord) as [st' r]. cbn [fst].
    destruct r as [|id us change|e|p|]; try (subst; lia).
    destruct H as (_ & _ & Eid & Est). subst st' id. cbn [set_reservation next].
    rewrite add64_small by lia. lia.
  - pose proof (reserve_particular_analysis st out use_unconf exp) as H.
    destruct (reserve_particular st out use_unconf exp) as [st' r]. cbn [fst].
    destruct r as [|id us change|e|p|]; try (destruct H; fail).
    + destruct H as (u & _ & _ & _ & _ & _ & _ & Eid & Est). subst st' id. cbn [set_reservation next].
      rewrite add64_small by lia. lia.
    + destruct e; try (destruct H; fail); destruct H as [H _]; subst; lia.
  - rewrite cancel_next. lia.
  - unfold expire. rewrite expire_next. lia.
Qed.

Lemma run_fits_id_by_length ops : forall st,
  next st + N.of_nat (length ops) < two64 -> run_fits_id st ops.
Proof.
  induction ops as [|o ops IH]; intros st H; cbn [run_fits_id length] in *; [exact I|].
  assert (Hn : next st + 1 < two64) by lia.
  split; [destruct o; cbn [fits_id]; auto|].
  apply IH. pose proof (step_next st o Hn). lia.
Qed.
