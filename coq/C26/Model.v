(* C26 — UTXO reservations (account/utxo_keeper.go).  EXECUTABLE MODEL ONLY.

   State of a utxoKeeper: the wallet DB entries under "ACU:" ([confirmed], the
   ones findUtxos iterates) and under "SCU:" ([contract], reachable only through
   findUtxo), the [unconf]irmed map, the [reserved] map (output id ->
   reservation id), the live reservations [resvs], nextIndex and the current
   height.  Maps are association lists; every function below is written so that
   the ORDER of those lists does not matter for what the code can observe,
   except where the Go code itself depends on an order — the result of
   sort.Slice (not stable, and its input order comes from a Go map): there the
   order is an explicit argument [ord] of the Reserve operation, checked to be
   a permutation of the candidates that is sorted by amount, largest first, and
   the theorems hold for EVERY such order.

   Output ids, account ids, asset ids and vote keys are labels ([N]); only
   equality is used.  Amounts are uint64: every addition/subtraction wraps
   modulo 2^64 as in Go ([add64]/[sub64]).  Time is an integer ([Z]); only
   "expiry before now" is used.

   The flag [dedup] selects the behaviour of findUtxos:
     true  = the tree with the repair (an output id is taken once, even when it
             is both in the DB and in the unconfirmed map);
     false = the pinned tree (no de-duplication).
   The property theorems are about [dedup = true]; C26/History.v shows that the
   pinned behaviour violates the property. *)
From Coq Require Import List ZArith NArith Bool.
From Verif Require Import Outcome.
Import ListNotations.
Open Scope N_scope.

Definition two64 : N := 18446744073709551616.
Definition add64 (a b : N) : N := (a + b) mod two64.
Definition sub64 (a b : N) : N := (a + two64 - b) mod two64.   (* a - b on uint64, for a, b < 2^64 *)

Record utxo := mkU { uid : N; uacct : N; uasset : N; uvote : N; uamt : N; uvh : N }.
(* uvh = ValidHeight *)

Record resv := mkR { rid : N; rutxos : list utxo; rchange : N; rexpiry : Z }.

Record state := mkS {
  confirmed : list utxo;
  contract : list utxo;
  unconf : list utxo;
  reserved : list (N * N);
  resvs : list resv;
  next : N;
  height : N }.

Definition init_state (conf contr unc : list utxo) (h : N) : state :=
  mkS conf contr unc [] [] 0 h.

(* ---- Go maps as association lists ------------------------------------------- *)
Definition memN (x : N) (l : list N) : bool := existsb (N.eqb x) l.

Definition uget (i : N) (l : list utxo) : option utxo := find (fun u => uid u =? i) l.
Definition udel (i : N) (l : list utxo) : list utxo := filter (fun u => negb (uid u =? i)) l.
Definition uput (u : utxo) (l : list utxo) : list utxo := u :: udel (uid u) l.

Definition rmem (o : N) (m : list (N * N)) : bool := existsb (fun p => fst p =? o) m.
Definition rdel (o : N) (m : list (N * N)) : list (N * N) := filter (fun p => negb (fst p =? o)) m.
Definition rput (o id : N) (m : list (N * N)) : list (N * N) := (o, id) :: rdel o m.

Definition rsv_get (id : N) (l : list resv) : option resv := find (fun r => rid r =? id) l.
Definition rsv_del (id : N) (l : list resv) : list resv := filter (fun r => negb (rid r =? id)) l.
Definition rsv_put (r : resv) (l : list resv) : list resv := r :: rsv_del (rid r) l.

(* ---- findUtxos ---------------------------------------------------------------- *)
Definition matches (acct asset vote : N) (u : utxo) : bool :=
  (uacct u =? acct) && (uasset u =? asset) && (uvote u =? vote).

(* the closure appendUtxo; acc = (seen, utxos, immatureAmount) *)
Definition append_utxo (dedup : bool) (acct asset vote h : N)
           (acc : list N * list utxo * N) (u : utxo) : list N * list utxo * N :=
  let '(seen, utxos, imm) := acc in
  if negb (matches acct asset vote u) then acc
  else if dedup && memN (uid u) seen then acc
  else if h <? uvh u then (uid u :: seen, utxos, add64 imm (uamt u))
  else (uid u :: seen, utxos ++ [u], imm).

Definition find_utxos (dedup : bool) (st : state) (acct asset : N) (use_unconf : bool) (vote : N)
  : list utxo * N :=
  let f := append_utxo dedup acct asset vote (height st) in
  let acc := fold_left f (confirmed st) ([], [], 0) in
  let acc' := if use_unconf then fold_left f (unconf st) acc else acc in
  (snd (fst acc'), snd acc').

(* ---- findUtxo ----------------------------------------------------------------- *)
Definition find_utxo (st : state) (out : N) (use_unconf : bool) : option utxo :=
  match (if use_unconf then uget out (unconf st) else None) with
  | Some u => Some u
  | None =>
    match uget out (confirmed st) with
    | Some u => Some u
    | None => uget out (contract st)
    end
  end.

(* ---- the result of sort.Slice: a permutation, sorted by amount descending ------ *)
Fixpoint extract (i : N) (pool : list utxo) : option (utxo * list utxo) :=
  match pool with
  | [] => None
  | u :: pool' =>
    if uid u =? i then Some (u, pool')
    else match extract i pool' with
         | Some (v, rest) => Some (v, u :: rest)
         | None => None
         end
  end.

Fixpoint arrange (pool : list utxo) (ord : list N) : option (list utxo) :=
  match ord with
  | [] => match pool with [] => Some [] | _ => None end
  | i :: ord' =>
    match extract i pool with
    | None => None
    | Some (u, pool') =>
      match arrange pool' ord' with
      | Some l => Some (u :: l)
      | None => None
      end
    end
  end.

Fixpoint sorted_desc (l : list utxo) : bool :=
  match l with
  | [] => true
  | u :: l' =>
    match l' with
    | [] => true
    | v :: _ => (uamt v <=? uamt u) && sorted_desc l'
    end
  end.

(* ---- optUTXOs ----------------------------------------------------------------- *)
Definition desire_utxo_count : Z := 5.

Definition sum64 (l : list utxo) : N := fold_left (fun a u => add64 a (uamt u)) l 0.

(* One visit of a node of utxoList.  [rp = None]: at the head of the outer loop;
   [rp = Some (replaceList, replaceAmount)]: inside the inner (replace) loop. *)
Inductive loop_next :=
| LStop                                    (* break with optList/optAmount as they are *)
| LPanic                                   (* optList.Front() is nil and is dereferenced *)
| LNext (opt : list utxo) (oamt : N) (rp : option (list utxo * N)).

Definition inner_step (amount : N) (u : utxo) (opt : list utxo) (oamt : N)
           (repl : list utxo) (ramt : N) : loop_next :=
  if (Z.of_nat (length repl) <=? desire_utxo_count - Z.of_nat (length opt))%Z then
    let repl' := repl ++ [u] in
    let ramt' := add64 ramt (uamt u) in
    if amount <=? ramt' then LNext (tl opt ++ repl') ramt' None
    else LNext opt oamt (Some (repl', ramt'))
  else LStop.

Definition loop_step (amount : N) (u : utxo) (opt : list utxo) (oamt : N)
           (rp : option (list utxo * N)) : loop_next :=
  match rp with
  | Some (repl, ramt) => inner_step amount u opt oamt repl ramt
  | None =>
    if oamt <? amount then LNext (opt ++ [u]) (add64 oamt (uamt u)) None
    else match opt with
         | [] => LPanic
         | big :: _ => inner_step amount u opt oamt [] (sub64 oamt (uamt big))
         end
  end.

Fixpoint opt_loop (amount : N) (rest : list utxo) (opt : list utxo) (oamt : N)
         (rp : option (list utxo * N)) : option (list utxo * N) :=
  match rest with
  | [] => Some (opt, oamt)
  | u :: rest' =>
    match loop_step amount u opt oamt rp with
    | LStop => Some (opt, oamt)
    | LPanic => None
    | LNext opt' oamt' rp' => opt_loop amount rest' opt' oamt' rp'
    end
  end.

(* (optUtxos, optAmount, reservedAmount); None = nil dereference *)
Definition opt_utxos (rsv : list (N * N)) (sorted : list utxo) (amount : N)
  : option (list utxo * N * N) :=
  let avail := filter (fun u => negb (rmem (uid u) rsv)) sorted in
  let ramt := sum64 (filter (fun u => rmem (uid u) rsv) sorted) in
  match opt_loop amount avail [] 0 None with
  | None => None
  | Some (opt, oamt) => Some (opt, oamt, ramt)
  end.

(* ---- results -------------------------------------------------------------------- *)
Inductive errclass := EInsufficient | EImmature | EReserved | EMatchUTXO.

Inductive result :=
| RNone                                             (* operations that return nothing *)
| RRes (id : N) (us : list utxo) (change : N)       (* a reservation *)
| RErr (e : errclass)
| RPanic (p : panicclass)
| RBadOrder.   (* [ord] is not a sorting of the candidates: not an execution of the code *)

Definition set_reservation (st : state) (rsv : list (N * N)) (rs : list resv) (nx : N) : state :=
  mkS (confirmed st) (contract st) (unconf st) rsv rs nx (height st).

(* ---- Reserve ---------------------------------------------------------------------- *)
Definition reserve (dedup : bool) (st : state) (acct asset amount : N) (use_unconf : bool)
           (vote : N) (exp : Z) (ord : list N) : state * result :=
  let '(cands, imm) := find_utxos dedup st acct asset use_unconf vote in
  match arrange cands ord with
  | None => (st, RBadOrder)
  | Some sorted =>
    if negb (sorted_desc sorted) then (st, RBadOrder) else
    match opt_utxos (reserved st) sorted amount with
    | None => (st, RPanic NilDeref)
    | Some (opt, oamt, ramt) =>
      if add64 (add64 oamt ramt) imm <? amount then (st, RErr EInsufficient)
      else if add64 oamt ramt <? amount then (st, RErr EImmature)
      else if oamt <? amount then (st, RErr EReserved)
      else
        let id := add64 (next st) 1 in
        let change := sub64 oamt amount in
        (set_reservation st
           (fold_left (fun m u => rput (uid u) id m) opt (reserved st))
           (rsv_put (mkR id opt change exp) (resvs st)) id,
         RRes id opt change)
    end
  end.

(* ---- ReserveParticular -------------------------------------------------------------- *)
Definition reserve_particular (st : state) (out : N) (use_unconf : bool) (exp : Z) : state * result :=
  if rmem out (reserved st) then (st, RErr EReserved)
  else match find_utxo st out use_unconf with
       | None => (st, RErr EMatchUTXO)
       | Some u =>
         if height st <? uvh u then (st, RErr EImmature)
         else
           let id := add64 (next st) 1 in
           (set_reservation st (rput (uid u) id (reserved st))
                            (rsv_put (mkR id [u] 0 exp) (resvs st)) id,
            RRes id [u] 0)
       end.

(* ---- cancel / expireReservation -------------------------------------------------------- *)
Definition cancel (st : state) (id : N) : state :=
  match rsv_get id (resvs st) with
  | None => st
  | Some r =>
    set_reservation st
      (fold_left (fun m u => rdel (uid u) m) (rutxos r) (reserved st))
      (rsv_del id (resvs st)) (next st)
  end.

(* ranges over the reservations present at the start; cancel(rid) removes only rid *)
Definition expire (st : state) (now : Z) : state :=
  fold_left (fun s r => if (rexpiry r <? now)%Z then cancel s (rid r) else s) (resvs st) st.

(* ---- operations --------------------------------------------------------------------------- *)
Inductive op :=
| OReserve (acct asset amount : N) (use_unconf : bool) (vote : N) (exp : Z) (ord : list N)
| OReserveParticular (out : N) (use_unconf : bool) (exp : Z)
| OCancel (id : N)
| OExpire (now : Z)
(* the environment: wallet and chain *)
| OAddUnconfirmed (us : list utxo)
| ORemoveUnconfirmed (ids : list N)
| ODbPut (u : utxo)            (* batch.Set(StandardUTXOKey(u.OutputID), u) *)
| ODbDel (i : N)
| OContractPut (u : utxo)      (* batch.Set(ContractUTXOKey(u.OutputID), u) *)
| OContractDel (i : N)
| OSetHeight (h : N).

Definition set_env (st : state) (conf contr unc : list utxo) (h : N) : state :=
  mkS conf contr unc (reserved st) (resvs st) (next st) h.

Definition step_gen (dedup : bool) (st : state) (o : op) : state * result :=
  match o with
  | OReserve acct asset amount uu vote exp ord => reserve dedup st acct asset amount uu vote exp ord
  | OReserveParticular out uu exp => reserve_particular st out uu exp
  | OCancel id => (cancel st id, RNone)
  | OExpire now => (expire st now, RNone)
  | OAddUnconfirmed us =>
    (set_env st (confirmed st) (contract st) (fold_left (fun m u => uput u m) us (unconf st)) (height st), RNone)
  | ORemoveUnconfirmed ids =>
    (set_env st (confirmed st) (contract st) (fold_left (fun m i => udel i m) ids (unconf st)) (height st), RNone)
  | ODbPut u => (set_env st (uput u (confirmed st)) (contract st) (unconf st) (height st), RNone)
  | ODbDel i => (set_env st (udel i (confirmed st)) (contract st) (unconf st) (height st), RNone)
  | OContractPut u => (set_env st (confirmed st) (uput u (contract st)) (unconf st) (height st), RNone)
  | OContractDel i => (set_env st (confirmed st) (udel i (contract st)) (unconf st) (height st), RNone)
  | OSetHeight h => (set_env st (confirmed st) (contract st) (unconf st) h, RNone)
  end.

Fixpoint run_gen (dedup : bool) (st : state) (ops : list op) : state * list result :=
  match ops with
  | [] => (st, [])
  | o :: ops' =>
    let '(st', r) := step_gen dedup st o in
    let '(st'', rs) := run_gen dedup st' ops' in
    (st'', r :: rs)
  end.

Definition step := step_gen true.
Definition run := run_gen true.
