(* C26 — the invariant of the keeper's bookkeeping, over all operation sequences. *)
From Coq Require Import List ZArith NArith Bool Lia Permutation.
From Coq Require Import ZifyBool ZifyN ZifyNat.
From Verif Require Import Outcome.
From C26 Require Import Model Proofs Select Reserve.
Import ListNotations.
Open Scope N_scope.

(* [held rs] lists every output id held by the live reservations, with multiplicity.
   The invariant: no id occurs twice (neither inside one reservation nor in two),
   the reserved map has exactly those ids as keys, reservation ids are pairwise
   different and not above nextIndex. *)
Definition inv (st : state) : Prop :=
  NoDup (held (resvs st)) /\
  (forall o, rmem o (reserved st) = true <-> In o (held (resvs st))) /\
  NoDup (map rid (resvs st)) /\
  (forall r, In r (resvs st) -> rid r <= next st).

(* the precondition under which uint64 arithmetic does not wrap in one step *)
Definition fits (st : state) (o : op) : Prop :=
  match o with
  | OReserve acct asset amount uu vote _ _ =>
    next st + 1 < two64 /\ sumN (funds st acct asset uu vote) < two64
  | OReserveParticular _ _ _ => next st + 1 < two64
  | _ => True
  end.

Fixpoint run_fits (st : state) (ops : list op) : Prop :=
  match ops with
  | [] => True
  | o :: ops' => fits st o /\ run_fits (fst (step st o)) ops'
  end.

Lemma inv_init conf contr unc h : inv (init_state conf contr unc h).
Proof.
  unfold inv, init_state; cbn. repeat split; try constructor; try discriminate; try tauto.
Qed.

(* ---- the reservation map ---------------------------------------------------------------------- *)
Lemma rsv_del_fresh id rs : (forall r, In r rs -> rid r <> id) -> rsv_del id rs = rs.
Proof.
  induction rs as [|a rs IH]; intros H; cbn [rsv_del filter]; [reflexivity|].
  destruct (rid a =? id) eqn:E.
  - apply N.eqb_eq in E. exfalso. apply (H a); cbn; auto.
  - cbn [negb]. f_equal. apply IH. intros r Hr. apply H. cbn; auto.
Qed.

Lemma rsv_get_Some id rs r : rsv_get id rs = Some r -> In r rs /\ rid r = id.
Proof. unfold rsv_get. intros H. apply find_some in H. destruct H as [H E]. apply N.eqb_eq in E. auto. Qed.

Lemma held_del id : forall rs r,
  NoDup (map rid rs) -> rsv_get id rs = Some r ->
  Permutation (held rs) (ids r ++ held (rsv_del id rs)).
Proof.
  induction rs as [|a rs IH]; intros r Hnd Hg; [discriminate|].
  cbn [map] in Hnd. inversion Hnd as [|? ? Hn Hd]; subst.
  unfold rsv_get in Hg. cbn [find] in Hg. cbn [rsv_del filter].
  destruct (rid a =? id) eqn:E.
  - inversion Hg; subst a. apply N.eqb_eq in E. cbn [negb].
    change (filter (fun r0 => negb (rid r0 =? id)) rs) with (rsv_del id rs).
    rewrite rsv_del_fresh; [apply Permutation_refl|].
    intros r0 Hr0 E0. apply Hn. rewrite E, <- E0. apply in_map. exact Hr0.
  - cbn [negb held flat_map]. specialize (IH r Hd Hg). fold (held rs). fold (held (rsv_del id rs)).
    change (filter (fun r0 => negb (rid r0 =? id)) rs) with (rsv_del id rs).
    eapply perm_trans; [apply Permutation_app_head; exact IH|].
    rewrite !app_assoc. apply Permutation_app_tail. apply Permutation_app_comm.
Qed.

Lemma in_rsv_del id rs r : In r (rsv_del id rs) -> In r rs.
Proof. unfold rsv_del. intros H. apply filter_In in H. tauto. Qed.

(* ---- each operation preserves the invariant ------------------------------------------------------ *)
Lemma cancel_inv st id : inv st -> inv (cancel st id).
Proof.
  intros (I1 & I2 & I3 & I4). unfold cancel.
  destruct (rsv_get id (resvs st)) as [r|] eqn:Eg; [|repeat split; auto; apply I2].
  pose proof (held_del id _ _ I3 Eg) as Hp.
  assert (Hnd : NoDup (ids r ++ held (rsv_del id (resvs st)))) by (eapply Permutation_NoDup; eauto).
  unfold inv, set_reservation; cbn [resvs reserved next]. repeat split.
  - eapply NoDup_app_r; eauto.
  - intros H. apply rmem_fold_rdel in H. destruct H as [Hn Hr]. apply I2 in Hr.
    eapply Permutation_in in Hr; [|exact Hp]. apply in_app_or in Hr. destruct Hr; [contradiction | assumption].
  - intros H. apply rmem_fold_rdel. split.
    + intros Hin. eapply NoDup_app_disj; eauto.
    + apply I2. eapply Permutation_in; [apply Permutation_sym; exact Hp|]. apply in_or_app. auto.
  - apply NoDup_map_filter. exact I3.
  - intros r0 H. apply I4. eapply in_rsv_del; eauto.
Qed.

Lemma expire_inv now l : forall st, inv st ->
  inv (fold_left (fun s r => if (rexpiry r <? now)%Z then cancel s (rid r) else s) l st).
Proof.
  induction l as [|r l IH]; intros st H; cbn [fold_left]; [exact H|].
  apply IH. destruct (rexpiry r <? now)%Z; [apply cancel_inv|]; exact H.
Qed.

(* a new reservation with a fresh id over outputs that are distinct and not reserved *)
Lemma add_inv st us change exp :
  inv st -> next st + 1 < two64 ->
  NoDup (map uid us) -> (forall u, In u us -> rmem (uid u) (reserved st) = false) ->
  let id := add64 (next st) 1 in
  inv (set_reservation st (fold_left (fun m u => rput (uid u) id m) us (reserved st))
                       (rsv_put (mkR id us change exp) (resvs st)) id).
Proof.
  intros (I1 & I2 & I3 & I4) Hn Hnd Hfree id.
  assert (Eid : id = next st + 1) by (unfold id; apply add64_small; exact Hn).
  assert (Hfresh : forall r, In r (resvs st) -> rid r <> id) by (intros r Hr; apply I4 in Hr; lia).
  unfold rsv_put. cbn [rid]. rewrite rsv_del_fresh by exact Hfresh.
  unfold inv, set_reservation; cbn [resvs reserved next held flat_map ids rutxos map rid].
  fold (held (resvs st)). repeat split.
  - apply NoDup_app_intro; auto. intros o Ho Hh. apply I2 in Hh.
    apply in_map_iff in Ho. destruct Ho as [u [E Hu]]. apply Hfree in Hu. congruence.
  - intros H. apply rmem_fold_rput in H. apply in_or_app. destruct H as [H|H]; [auto | right; apply I2; exact H].
  - intros H. apply rmem_fold_rput. apply in_app_or in H. destruct H as [H|H]; [auto | right; apply I2; exact H].
  - constructor; [|exact I3]. intros Hin. apply in_map_iff in Hin. destruct Hin as [r [E Hr]].
    apply (Hfresh r Hr). exact E.
  - intros r [E|Hr]; [subst r; cbn [rid]; lia | apply I4 in Hr; lia].
Qed.

Lemma set_env_inv st conf contr unc h : inv st -> inv (set_env st conf contr unc h).
Proof. intros H. exact H. Qed.

Lemma step_inv st o : inv st -> fits st o -> inv (fst (step st o)).
Proof.
  intros Hinv Hfit. destruct o; cbn [step step_gen fst]; try (apply set_env_inv; exact Hinv).
  - destruct Hfit as [Hn HF].
    pose proof (reserve_analysis st acct asset amount use_unconf vote exp ord HF) as H.
    destruct (reserve true st acct asset amount use_unconf vote exp ord) as [st' r]. cbn [fst].
    destruct r as [|id us change|e|p|].
    + destruct H.
    + destruct H as (_ & Hnd & Hin & _ & _ & Eid & Est). subst st' id.
      apply add_inv; auto. intros u Hu. apply Hin in Hu. apply filter_In in Hu.
      destruct Hu as [_ Hu]. unfold unreserved in Hu. apply negb_true_iff in Hu. exact Hu.
    + destruct e; try (destruct H as [H _]; subst; exact Hinv). destruct H.
    + destruct H as [H _]; subst; exact Hinv.
    + subst; exact Hinv.
  - pose proof (reserve_particular_analysis st out use_unconf exp) as H.
    destruct (reserve_particular st out use_unconf exp) as [st' r]. cbn [fst].
    destruct r as [|id us change|e|p|]; try (destruct H; fail).
    + destruct H as (u & Eus & _ & _ & Eu & _ & Hr & Eid & Est). subst st' id us.
      apply add_inv; auto.
      * cbn. constructor; [intros []|constructor].
      * intros v [E|[]]. subst v. rewrite Eu. exact Hr.
    + destruct e; try (destruct H as [H _]; subst; exact Hinv). destruct H.
  - apply cancel_inv. exact Hinv.
  - apply expire_inv. exact Hinv.
Qed.

Lemma run_step st o ops :
  run st (o :: ops) = (fst (run (fst (step st o)) ops), snd (step st o) :: snd (run (fst (step st o)) ops)).
Proof.
  unfold run, step. cbn [run_gen]. destruct (step_gen true st o) as [st' r]. cbn [fst snd].
  destruct (run_gen true st' ops) as [st'' rs]. reflexivity.
Qed.

Lemma run_inv ops : forall st, inv st -> run_fits st ops -> inv (fst (run st ops)).
Proof.
  induction ops as [|o ops IH]; intros st Hinv Hf; [exact Hinv|].
  destruct Hf as [Hf1 Hf2]. rewrite run_step. cbn [fst]. apply IH; [apply step_inv|]; assumption.
Qed.

(* ---- what the invariant says ------------------------------------------------------------------------- *)
Lemma held_In_split rs : forall i r, nth_error rs i = Some r ->
  exists l1 l2 : list resv, rs = l1 ++ r :: l2 /\ length l1 = i.
Proof.
  induction rs as [|a rs IH]; intros [|i] r H; cbn [nth_error] in H; try discriminate.
  - inversion H; subst. exists [], rs. auto.
  - destruct (IH _ _ H) as (l1 & l2 & E & L). exists (a :: l1), l2. subst. auto.
Qed.

Lemma held_app l1 l2 : held (l1 ++ l2) = held l1 ++ held l2.
Proof. unfold held. apply flat_map_app. Qed.

Lemma held_in rs r o : In r rs -> In o (ids r) -> In o (held rs).
Proof. intros Hr Ho. unfold held. apply in_flat_map. exists r. auto. Qed.

(* pairwise disjointness and distinctness inside, from NoDup of the concatenation *)
Lemma nodup_held_pairwise rs :
  NoDup (held rs) ->
  (forall r, In r rs -> NoDup (ids r)) /\
  (forall i j r1 r2, nth_error rs i = Some r1 -> nth_error rs j = Some r2 -> i <> j ->
                     forall o, In o (ids r1) -> In o (ids r2) -> False).
Proof.
  intros Hnd. split.
  - intros r Hr. apply in_split in Hr. destruct Hr as (l1 & l2 & E). subst rs.
    rewrite held_app in Hnd. apply NoDup_app_r in Hnd. cbn [held flat_map] in Hnd.
    eapply NoDup_app_l; eauto.
  - assert (Hlt : forall i j r1 r2, nth_error rs i = Some r1 -> nth_error rs j = Some r2 -> (i < j)%nat ->
                                    forall o, In o (ids r1) -> In o (ids r2) -> False).
    { intros i j r1 r2 H1 H2 Hij o Ho1 Ho2.
      destruct (held_In_split _ _ _ H1) as (l1 & l2 & E & L). subst rs.
      rewrite held_app in Hnd. apply NoDup_app_r in Hnd. cbn [held flat_map] in Hnd. fold (held l2) in Hnd.
      assert (Hin2 : In r2 l2).
      { rewrite nth_error_app2 in H2 by lia. replace (j - length l1)%nat with (S (j - length l1 - 1)) in H2 by lia.
        cbn [nth_error] in H2. eapply nth_error_In; eauto. }
      eapply NoDup_app_disj; [exact Hnd | exact Ho1 | eapply held_in; eauto]. }
    intros i j r1 r2 H1 H2 Hij o Ho1 Ho2.
    destruct (Nat.lt_total i j) as [H|[H|H]]; [eauto | contradiction | eauto].
Qed.
