(* C26 — helpers used by the generated case files.

   A case is an initial keeper state (DB entries under "ACU:" and "SCU:", the
   unconfirmed map, the height; no reservations) and an operation list in the
   model's own vocabulary; output ids, accounts, assets and vote keys are small
   labels chosen by the harness.  The result is the projection compared with the
   implementation: per operation the result (reservation id, held output labels in
   order, change / error class / panic), and at the end the reserved map sorted by
   output label, the live reservations sorted by id (id, held labels, change,
   expiry) and the labels in the unconfirmed map, sorted. *)
From Coq Require Import List ZArith NArith Bool.
From Verif Require Import Outcome Cmp.
From C26 Require Import Model.
Import ListNotations.
Open Scope N_scope.

Definition U := mkU.

Fixpoint ins_by {A} (key : A -> N) (x : A) (l : list A) : list A :=
  match l with
  | [] => [x]
  | y :: l' => if key x <=? key y then x :: l else y :: ins_by key x l'
  end.
Definition sort_by {A} (key : A -> N) (l : list A) : list A := fold_right (ins_by key) [] l.

(* tag, payload *)
Definition proj_result (r : result) : N * list N :=
  match r with
  | RNone => (0, [])
  | RRes id us change => (1, id :: change :: map uid us)
  | RErr EInsufficient => (2, [1])
  | RErr EImmature => (2, [2])
  | RErr EReserved => (2, [3])
  | RErr EMatchUTXO => (2, [4])
  | RPanic _ => (3, [])
  | RBadOrder => (4, [])
  end.

Definition cres : Type :=
  list (N * list N) * (list (N * N) * (list (N * (list N * (N * N))) * list N)).

Definition run_case (conf contr unc : list utxo) (h : N) (ops : list op) : cres :=
  let '(st, rs) := run (init_state conf contr unc h) ops in
  (map proj_result rs,
   (sort_by fst (reserved st),
    (map (fun r => (rid r, (map uid (rutxos r), (rchange r, Z.to_N (rexpiry r))))) (sort_by rid (resvs st)),
     sort_by (fun x => x) (map uid (unconf st))))).

Definition cres_eqb : cres -> cres -> bool :=
  pair_eqb (list_eqb (pair_eqb N.eqb (list_eqb N.eqb)))
    (pair_eqb (list_eqb (pair_eqb N.eqb N.eqb))
       (pair_eqb (list_eqb (pair_eqb N.eqb (pair_eqb (list_eqb N.eqb) (pair_eqb N.eqb N.eqb))))
                 (list_eqb N.eqb))).
