(* C26 — findUtxos, the sorting permutation and optUTXOs: what a Reserve call computes. *)
From Coq Require Import List ZArith NArith Bool Lia Permutation.
From Coq Require Import ZifyBool ZifyN ZifyNat.
From Verif Require Import Outcome.
From C26 Require Import Model Proofs.
Import ListNotations.
Open Scope N_scope.

(* ---- dedup_ids ------------------------------------------------------------------------ *)
Lemma dedup_ids_In seen l u : In u (dedup_ids seen l) -> In u l /\ ~ In (uid u) seen.
Proof.
  revert seen. induction l as [|v l IH]; intros seen H; cbn [dedup_ids] in H; [destruct H|].
  destruct (memN (uid v) seen) eqn:E.
  - apply IH in H. cbn; tauto.
  - destruct H as [H|H].
    + subst v. apply memN_false in E. cbn; tauto.
    + apply IH in H. cbn in *. tauto.
Qed.

Lemma dedup_ids_nodup l : forall seen, NoDup (map uid (dedup_ids seen l)).
Proof.
  induction l as [|v l IH]; intros seen; cbn [dedup_ids map]; [constructor|].
  destruct (memN (uid v) seen); [apply IH|].
  cbn [map]. constructor; [|apply IH].
  intros Hin. apply in_map_iff in Hin. destruct Hin as [w [E Hw]].
  apply dedup_ids_In in Hw. destruct Hw as [_ Hw]. apply Hw. rewrite E. cbn; auto.
Qed.

(* ---- findUtxos (with the repair) = the mature funds + the sum of the immature ones ------- *)
Lemma fold_append_spec acct asset vote h l : forall seen utxos imm,
  exists seen',
    fold_left (append_utxo true acct asset vote h) l (seen, utxos, imm) =
    (seen',
     utxos ++ filter (mature h) (dedup_ids seen (filter (matches acct asset vote) l)),
     fold_left (fun a u => add64 a (uamt u))
               (filter (fun u => negb (mature h u)) (dedup_ids seen (filter (matches acct asset vote) l))) imm).
Proof.
  induction l as [|u l IH]; intros seen utxos imm; cbn [fold_left filter dedup_ids].
  - exists seen. rewrite app_nil_r. reflexivity.
  - unfold append_utxo at 2. destruct (matches acct asset vote u) eqn:Em; cbn [negb].
    + cbn [dedup_ids andb]. destruct (memN (uid u) seen) eqn:Es.
      * apply IH.
      * cbn [filter]. replace (mature h u) with (negb (h <? uvh u)) by reflexivity.
        destruct (h <? uvh u) eqn:Eh; cbn [negb fold_left].
        -- destruct (IH (uid u :: seen) utxos (add64 imm (uamt u))) as [s' E]. exists s'. rewrite E.
           reflexivity.
        -- destruct (IH (uid u :: seen) (utxos ++ [u]) imm) as [s' E]. exists s'. rewrite E.
           rewrite <- app_assoc. reflexivity.
    + apply IH.
Qed.

Lemma find_utxos_sources st acct asset uu vote :
  find_utxos true st acct asset uu vote =
  let acc := fold_left (append_utxo true acct asset vote (height st)) (sources st uu) ([], [], 0) in
  (snd (fst acc), snd acc).
Proof.
  unfold find_utxos, sources. destruct uu.
  - rewrite fold_left_app. reflexivity.
  - rewrite app_nil_r. reflexivity.
Qed.

Lemma find_utxos_spec st acct asset uu vote :
  find_utxos true st acct asset uu vote =
  (filter (mature (height st)) (funds st acct asset uu vote),
   sum64 (filter (fun u => negb (mature (height st) u)) (funds st acct asset uu vote))).
Proof.
  rewrite find_utxos_sources.
  destruct (fold_append_spec acct asset vote (height st) (sources st uu) [] [] 0) as [s' E].
  cbv zeta. rewrite E. reflexivity.
Qed.

(* ---- arrange: a permutation of the candidates ---------------------------------------------- *)
Lemma extract_perm i pool : forall u rest, extract i pool = Some (u, rest) -> Permutation pool (u :: rest).
Proof.
  induction pool as [|v pool IH]; intros u rest H; cbn [extract] in H; [discriminate|].
  destruct (uid v =? i).
  - inversion H; subst. apply Permutation_refl.
  - destruct (extract i pool) as [[w r]|] eqn:E; [|discriminate].
    inversion H; subst. specialize (IH _ _ eq_refl).
    eapply perm_trans; [apply perm_skip; exact IH | apply perm_swap].
Qed.

Lemma arrange_perm ord : forall pool l, arrange pool ord = Some l -> Permutation pool l.
Proof.
  induction ord as [|i ord IH]; intros pool l H; cbn [arrange] in H.
  - destruct pool; [|discriminate]. inversion H. constructor.
  - destruct (extract i pool) as [[u rest]|] eqn:E; [|discriminate].
    destruct (arrange rest ord) as [l'|] eqn:E2; [|discriminate].
    inversion H; subst. apply extract_perm in E. apply IH in E2.
    eapply perm_trans; [exact E | apply perm_skip; exact E2].
Qed.

(* ---- optUTXOs: the loop ------------------------------------------------------------------------ *)
Definition rp_repl (rp : option (list utxo * N)) : list utxo :=
  match rp with Some (r, _) => r | None => [] end.

(* what holds at every visit of a node, as long as the amounts involved stay below 2^64:
   optAmount is the sum of optList; inside the replace loop optAmount already reaches
   the request and replaceAmount is the sum of optList without its front, plus replaceList *)
Definition loop_inv (amount T : N) (rest opt : list utxo) (oamt : N) (rp : option (list utxo * N)) : Prop :=
  oamt = sumN opt /\
  sumN opt + sumN (rp_repl rp) + sumN rest <= T /\
  match rp with
  | None => True
  | Some (repl, ramt) =>
    amount <= oamt /\ exists big opt', opt = big :: opt' /\ ramt = sumN opt' + sumN repl
  end.

Definition loop_post (amount : N) (rest opt : list utxo) (oamt : N) (rp : option (list utxo * N))
           (res : option (list utxo * N)) : Prop :=
  match res with
  | None => amount = 0
  | Some (o, a) =>
    a = sumN o /\
    (forall x, In x o -> In x (opt ++ rp_repl rp ++ rest)) /\
    (NoDup (map uid (opt ++ rp_repl rp ++ rest)) -> NoDup (map uid o)) /\
    (a < amount -> rp = None /\ o = opt ++ rest) /\
    (amount <= oamt -> amount <= a) /\
    a <= sumN opt + sumN (rp_repl rp) + sumN rest
  end.

Lemma inner_step_cases amount T u rest' big opt' oamt repl ramt :
  T < two64 ->
  oamt = sumN (big :: opt') -> amount <= oamt -> ramt = sumN opt' + sumN repl ->
  sumN (big :: opt') + sumN repl + sumN (u :: rest') <= T ->
  inner_step amount u (big :: opt') oamt repl ramt = LStop \/
  (inner_step amount u (big :: opt') oamt repl ramt = LNext (opt' ++ repl ++ [u]) (ramt + uamt u) None /\
   amount <= ramt + uamt u) \/
  (inner_step amount u (big :: opt') oamt repl ramt = LNext (big :: opt') oamt (Some (repl ++ [u], ramt + uamt u)) /\
   ramt + uamt u < amount).
Proof.
  intros HT Ho Ha Hr Hb. unfold inner_step.
  destruct (Z.of_nat (length repl) <=? desire_utxo_count - Z.of_nat (length (big :: opt')))%Z; [|left; reflexivity].
  right. cbn [sumN] in Hb. rewrite add64_small by lia. cbn [tl].
  destruct (amount <=? ramt + uamt u) eqn:E.
  - left. split; [reflexivity | lia].
  - right. split; [reflexivity | lia].
Qed.

Lemma opt_loop_spec amount T : T < two64 ->
  forall rest opt oamt rp,
    loop_inv amount T rest opt oamt rp ->
    loop_post amount rest opt oamt rp (opt_loop amount rest opt oamt rp).
Proof.
  intros HT. induction rest as [|u rest' IH]; intros opt oamt rp (Ho & Hb & Hrp).
  - cbn [opt_loop loop_post]. repeat split.
    + exact Ho.
    + intros x Hx. apply in_or_app. auto.
    + rewrite map_app. apply NoDup_app_l.
    + destruct rp as [[repl ramt]|]; [lia | reflexivity].
    + rewrite app_nil_r. reflexivity.
    + auto.
    + lia.
  - cbn [opt_loop].
    (* the common part: a visit inside (or entering) the replace loop *)
    assert (Hvisit : forall big opt' repl ramt,
               opt = big :: opt' -> amount <= oamt -> ramt = sumN opt' + sumN repl ->
               sumN opt + sumN repl + sumN (u :: rest') <= T ->
               match match inner_step amount u opt oamt repl ramt with
                     | LStop => Some (opt, oamt)
                     | LPanic => None
                     | LNext o1 a1 rp1 => opt_loop amount rest' o1 a1 rp1
                     end with
               | None => amount = 0
               | Some (o, a) =>
                 a = sumN o /\
                 (forall x, In x o -> In x (opt ++ repl ++ u :: rest')) /\
                 (NoDup (map uid (opt ++ repl ++ u :: rest')) -> NoDup (map uid o)) /\
                 amount <= a /\
                 a <= sumN opt + sumN repl + sumN (u :: rest')
               end).
    { intros big opt' repl ramt Eo Ha Hr Hb'. subst opt.
      destruct (inner_step_cases amount T u rest' big opt' oamt repl ramt HT Ho Ha Hr Hb')
        as [E | [[E Hge] | [E Hlt]]]; rewrite E.
      - repeat split; auto; try lia.
        + intros x Hx. apply in_or_app. auto.
        + rewrite map_app. apply NoDup_app_l.
      - assert (Hinv : loop_inv amount T rest' (opt' ++ repl ++ [u]) (ramt + uamt u) None).
        { unfold loop_inv. cbn [rp_repl sumN] in *. rewrite !sumN_app. cbn [sumN]. repeat split; lia. }
        specialize (IH _ _ _ Hinv). unfold loop_post in IH.
        destruct (opt_loop amount rest' (opt' ++ repl ++ [u]) (ramt + uamt u) None) as [[o a]|]; [|exact IH].
        destruct IH as (I1 & I2 & I3 & I4 & I5 & I6). cbn [rp_repl app] in *. repeat split.
        + exact I1.
        + intros x Hx. apply I2 in Hx. rewrite !in_app_iff in Hx. cbn [In] in *.
          rewrite !in_app_iff. cbn [In]. tauto.
        + intros Hnd. apply I3. cbn [map] in Hnd. inversion Hnd; subst.
          rewrite <- !app_assoc. cbn [app]. assumption.
        + auto.
        + rewrite !sumN_app in I6. cbn [sumN] in *. lia.
      - assert (Hinv : loop_inv amount T rest' (big :: opt') oamt (Some (repl ++ [u], ramt + uamt u))).
        { unfold loop_inv. cbn [rp_repl sumN] in *. rewrite !sumN_app. cbn [sumN]. repeat split; try lia.
          exists big, opt'. split; [reflexivity | lia]. }
        specialize (IH _ _ _ Hinv). unfold loop_post in IH.
        destruct (opt_loop amount rest' (big :: opt') oamt (Some (repl ++ [u], ramt + uamt u))) as [[o a]|]; [|exact IH].
        destruct IH as (I1 & I2 & I3 & I4 & I5 & I6). cbn [rp_repl] in *. repeat split.
        + exact I1.
        + intros x Hx. apply I2 in Hx. rewrite <- app_assoc in Hx. exact Hx.
        + intros Hnd. apply I3. rewrite <- app_assoc. exact Hnd.
        + auto.
        + rewrite sumN_app in I6. cbn [sumN] in *. lia. }
    unfold loop_step. destruct rp as [[repl ramt]|].
    + destruct Hrp as (Ha & big & opt' & Eo & Hr). cbn [rp_repl] in Hb.
      specialize (Hvisit big opt' repl ramt Eo Ha Hr Hb). unfold loop_post.
      destruct (match inner_step amount u opt oamt repl ramt with
                | LStop => Some (opt, oamt) | LPanic => None
                | LNext o1 a1 rp1 => opt_loop amount rest' o1 a1 rp1 end) as [[o a]|]; [|exact Hvisit].
      destruct Hvisit as (V1 & V2 & V3 & V4 & V5). cbn [rp_repl]. repeat split; auto; lia.
    + destruct (oamt <? amount) eqn:El.
      * assert (Hinv : loop_inv amount T rest' (opt ++ [u]) (add64 oamt (uamt u)) None).
        { cbn [rp_repl sumN] in *. unfold loop_inv. rewrite sumN_app. cbn [sumN rp_repl].
          rewrite add64_small by lia. repeat split; lia. }
        specialize (IH _ _ _ Hinv). unfold loop_post in *.
        destruct (opt_loop amount rest' (opt ++ [u]) (add64 oamt (uamt u)) None) as [[o a]|]; [|exact IH].
        destruct IH as (I1 & I2 & I3 & I4 & I5 & I6). cbn [rp_repl app] in *. repeat split.
        -- exact I1.
        -- intros x Hx. apply I2 in Hx. rewrite <- app_assoc in Hx. exact Hx.
        -- intros Hnd. apply I3. rewrite <- app_assoc. exact Hnd.
        -- apply I4 in H. destruct H as [_ H]. rewrite H, <- app_assoc. reflexivity.
        -- lia.
        -- rewrite sumN_app in I6. cbn [sumN] in *. lia.
      * destruct opt as [|big opt'].
        -- cbn [loop_post sumN] in *. lia.
        -- cbn [rp_repl sumN] in Hb.
           assert (Hr : sub64 oamt (uamt big) = sumN opt' + sumN []).
           { cbn [sumN] in *. rewrite sub64_small by lia. lia. }
           assert (Hb' : sumN (big :: opt') + sumN [] + sumN (u :: rest') <= T) by (cbn [sumN] in *; lia).
           assert (Ha : amount <= oamt) by lia.
           specialize (Hvisit big opt' [] (sub64 oamt (uamt big)) eq_refl Ha Hr Hb'). unfold loop_post.
           destruct (match inner_step amount u (big :: opt') oamt [] (sub64 oamt (uamt big)) with
                     | LStop => Some (big :: opt', oamt) | LPanic => None
                     | LNext o1 a1 rp1 => opt_loop amount rest' o1 a1 rp1 end) as [[o a]|]; [|exact Hvisit].
           destruct Hvisit as (V1 & V2 & V3 & V4 & V5). cbn [rp_repl app] in *. repeat split; auto; lia.
Qed.
