(* C26 — the statements of the property, proved from the invariant and the analysis lemmas. *)
From Coq Require Import List ZArith NArith Bool Lia Permutation.
From Coq Require Import ZifyBool ZifyN ZifyNat.
From Verif Require Import Outcome.
From C26 Require Import Model Proofs Select Reserve Inv Struct.
Import ListNotations.
Open Scope N_scope.

(* ---- no overlap --------------------------------------------------------------------------- *)
Definition no_overlap (st : state) : Prop :=
  (forall r, In r (resvs st) -> NoDup (ids r)) /\
  (forall i j r1 r2, nth_error (resvs st) i = Some r1 -> nth_error (resvs st) j = Some r2 -> i <> j ->
                     forall o, In o (ids r1) -> ~ In o (ids r2)) /\
  (forall o, rmem o (reserved st) = true <-> exists r, In r (resvs st) /\ In o (ids r)).

Lemma inv_no_overlap st : inv st -> no_overlap st.
Proof.
  intros (I1 & I2 & _ & _). destruct (nodup_held_pairwise _ I1) as [H1 H2]. repeat split.
  - exact H1.
  - intros i j r1 r2 E1 E2 Hij o Ho1 Ho2. exact (H2 i j r1 r2 E1 E2 Hij o Ho1 Ho2).
  - intros H. apply I2 in H. unfold held in H. apply in_flat_map in H. exact H.
  - intros H. apply I2. unfold held. apply in_flat_map. exact H.
Qed.

Lemma reachable_no_overlap st0 ops st rs :
  inv st0 -> run_fits st0 ops -> run st0 ops = (st, rs) -> no_overlap st.
Proof.
  intros Hinv Hf Hr. apply inv_no_overlap. replace st with (fst (run st0 ops)) by (rewrite Hr; reflexivity).
  apply run_inv; assumption.
Qed.

Lemma reachable_no_overlap_init conf contr unc h ops st rs :
  run_fits (init_state conf contr unc h) ops ->
  run (init_state conf contr unc h) ops = (st, rs) -> no_overlap st.
Proof. apply reachable_no_overlap. apply inv_init. Qed.

(* the same without any condition on amounts: only the reservation counter must not wrap,
   which any history of fewer than 2^64 operations guarantees *)
Lemma reachable_no_overlap_id st0 ops st rs :
  inv st0 -> run_fits_id st0 ops -> run st0 ops = (st, rs) -> no_overlap st.
Proof.
  intros Hinv Hf Hr. apply inv_no_overlap. replace st with (fst (run st0 ops)) by (rewrite Hr; reflexivity).
  apply run_inv_id; assumption.
Qed.

Lemma reachable_no_overlap_length conf contr unc h ops st rs :
  N.of_nat (length ops) < two64 ->
  run (init_state conf contr unc h) ops = (st, rs) -> no_overlap st.
Proof.
  intros Hl. apply reachable_no_overlap_id; [apply inv_init|].
  apply run_fits_id_by_length. cbn [init_state next]. lia.
Qed.

(* ---- a successful reservation covers the request ------------------------------------------------ *)
Lemma rsv_get_put r rs : rsv_get (rid r) (rsv_put r rs) = Some r.
Proof. unfold rsv_get, rsv_put. cbn [find]. rewrite N.eqb_refl. reflexivity. Qed.

Lemma reserve_covers st acct asset amount uu vote exp ord st' id us change :
  sumN (funds st acct asset uu vote) < two64 ->
  reserve true st acct asset amount uu vote exp ord = (st', RRes id us change) ->
  NoDup (map uid us) /\
  (forall u, In u us ->
     In u (sources st uu) /\ matches acct asset vote u = true /\
     uvh u <= height st /\ rmem (uid u) (reserved st) = false) /\
  amount <= sumN us /\ change = sumN us - amount /\
  rsv_get id (resvs st') = Some (mkR id us change exp) /\
  (forall u, In u us -> rmem (uid u) (reserved st') = true).
Proof.
  intros HF E. pose proof (reserve_analysis st acct asset amount uu vote exp ord HF) as H.
  rewrite E in H. destruct H as (_ & Hnd & Hin & Hge & Hch & Eid & Est).
  split; [exact Hnd|]. split; [|split; [exact Hge|split; [exact Hch|]]].
  - intros u Hu. apply Hin in Hu. apply filter_In in Hu. destruct Hu as [Hu Hr].
    apply filter_In in Hu. destruct Hu as [Hu Hm]. apply funds_In in Hu. destruct Hu as [Hs Hmt].
    unfold unreserved in Hr. apply negb_true_iff in Hr. unfold mature in Hm. apply negb_true_iff in Hm.
    repeat split; auto. lia.
  - subst st'. cbn [set_reservation resvs reserved]. split.
    + apply (rsv_get_put (mkR id us change exp)).
    + intros u Hu. apply rmem_fold_rput. left. apply in_map. exact Hu.
Qed.

Lemma reserve_particular_covers st out uu exp st' id us change :
  reserve_particular st out uu exp = (st', RRes id us change) ->
  exists u, us = [u] /\ change = 0 /\ uid u = out /\
            (In u (confirmed st) \/ In u (contract st) \/ (uu = true /\ In u (unconf st))) /\
            uvh u <= height st /\ rmem (uid u) (reserved st) = false /\
            rsv_get id (resvs st') = Some (mkR id us change exp) /\
            rmem (uid u) (reserved st') = true.
Proof.
  intros E. pose proof (reserve_particular_analysis st out uu exp) as H. rewrite E in H.
  destruct H as (u & Eus & Ech & Ef & Eu & Hh & Hr & Eid & Est). exists u.
  apply find_utxo_Some in Ef. destruct Ef as [_ Ef]. subst us change st'.
  repeat split; auto.
  - rewrite Eu. exact Hr.
  - cbn [set_reservation resvs]. apply (rsv_get_put (mkR id [u] 0 exp)).
  - cbn [set_reservation reserved]. rewrite rmem_rput, N.eqb_refl. reflexivity.
Qed.

(* ---- failures are reported by their class ----------------------------------------------------------- *)
Lemma reserve_classes st acct asset amount uu vote exp ord :
  let F := funds st acct asset uu vote in
  let M := filter (mature (height st)) F in
  let U := filter (unreserved (reserved st)) M in
  let r := snd (reserve true st acct asset amount uu vote exp ord) in
  sumN F < two64 -> 0 < amount -> r <> RBadOrder ->
  (r = RErr EInsufficient <-> sumN F < amount) /\
  (r = RErr EImmature <-> amount <= sumN F /\ sumN M < amount) /\
  (r = RErr EReserved <-> amount <= sumN M /\ sumN U < amount) /\
  ((exists id us change, r = RRes id us change) <-> amount <= sumN U).
Proof.
  intros F M U r HF Hpos Hbad.
  pose proof (reserve_analysis st acct asset amount uu vote exp ord HF) as H. fold F M U in H.
  assert (HMF : sumN M <= sumN F) by apply sumN_filter_le.
  assert (HUM : sumN U <= sumN M) by apply sumN_filter_le.
  subst r. destruct (reserve true st acct asset amount uu vote exp ord) as [st' r]. cbn [snd] in *.
  destruct r as [|id us change|e|p|]; [destruct H| | | |congruence].
  - destruct H as (H & _). repeat split; try discriminate; try lia; eauto.
  - destruct e; [| | |destruct H]; destruct H as (_ & H);
      (repeat split; try discriminate; try lia; try reflexivity;
       try (intros (? & ? & ? & ?); discriminate)).
  - destruct H as (_ & H). lia.
Qed.

Lemma reserve_failure_no_effect st acct asset amount uu vote exp ord st' e :
  reserve true st acct asset amount uu vote exp ord = (st', RErr e) -> st' = st.
Proof.
  intros E. pose proof (reserve_structure st acct asset amount uu vote exp ord) as H.
  rewrite E in H. exact H.
Qed.

Lemma reserve_no_panic st acct asset amount uu vote exp ord p :
  sumN (funds st acct asset uu vote) < two64 -> 0 < amount ->
  snd (reserve true st acct asset amount uu vote exp ord) <> RPanic p.
Proof.
  intros HF Hpos E. pose proof (reserve_analysis st acct asset amount uu vote exp ord HF) as H.
  destruct (reserve true st acct asset amount uu vote exp ord) as [st' r]. cbn [snd] in E.
  destruct r as [| | |q|]; try discriminate E. destruct H as [_ H]. lia.
Qed.

Ltac rp_fin :=
  try discriminate; try reflexivity; eauto;
  repeat match goal with
         | H : _ /\ _ |- _ => destruct H
         | H : exists _, _ |- _ => destruct H
         end;
  try discriminate; try congruence;
  try (match goal with
       | H1 : find_utxo ?s ?o ?b = Some _, H2 : find_utxo ?s ?o ?b = Some _ |- _ =>
         rewrite H1 in H2; inversion H2; subst
       end; lia).

Lemma reserve_particular_classes st out uu exp :
  let r := snd (reserve_particular st out uu exp) in
  (r = RErr EReserved <-> rmem out (reserved st) = true) /\
  (r = RErr EMatchUTXO <-> rmem out (reserved st) = false /\ find_utxo st out uu = None) /\
  (r = RErr EImmature <->
   rmem out (reserved st) = false /\ exists u, find_utxo st out uu = Some u /\ height st < uvh u) /\
  ((exists id us change, r = RRes id us change) <->
   rmem out (reserved st) = false /\ exists u, find_utxo st out uu = Some u /\ uvh u <= height st).
Proof.
  intros r. pose proof (reserve_particular_analysis st out uu exp) as H. subst r.
  destruct (reserve_particular st out uu exp) as [st' r]. cbn [snd].
  destruct r as [|id us change|e|p|]; try (destruct H; fail);
    [destruct H as (u & _ & _ & Ef & _ & Hh & Hr & _)
    |destruct e; try (destruct H; fail);
     [destruct H as (_ & Hr & u & Ef & Hh) | destruct H as (_ & Hr) | destruct H as (_ & Hr & Ef)]];
    (split; [|split; [|split]]); (split; intro Hx); rp_fin.
Qed.

(* ---- the hypotheses are satisfiable by a non-trivial history ------------------------------------------- *)
(* output 1 (5 units) is both in the DB and in the unconfirmed map; outputs 2, 3 in the DB,
   output 4 immature, output 5 only unconfirmed *)
Definition ex_u (i amt vh : N) : utxo := mkU i 1 1 0 amt vh.
Definition ex_state : state :=
  init_state [ex_u 1 5 0; ex_u 2 3 0; ex_u 3 3 0; ex_u 4 9 200] [] [ex_u 1 5 0; ex_u 5 2 0] 100.
Definition ex_ops : list op :=
  [OReserve 1 1 8 true 0 10 [1; 2; 3; 5];
   OReserve 1 1 4 true 0 20 [1; 3; 2; 5];
   OReserveParticular 5 true 30;
   OReserveParticular 5 true 30;
   OExpire 15;
   OReserve 1 1 6 true 0 40 [1; 2; 3; 5];
   OCancel 2;
   OReserve 1 1 20 true 0 50 [1; 2; 3; 5]].

Example ex_fits : run_fits ex_state ex_ops.
Proof. vm_compute. repeat split; reflexivity. Qed.

Example ex_results :
  snd (run ex_state ex_ops) =
  [RRes 1 [ex_u 2 3 0; ex_u 3 3 0; ex_u 5 2 0] 0; RRes 2 [ex_u 1 5 0] 1; RErr EReserved; RErr EReserved;
   RNone; RRes 3 [ex_u 2 3 0; ex_u 3 3 0] 0; RNone; RErr EImmature].
Proof. vm_compute. reflexivity. Qed.
