(* C29 — all lemmas (re-exported) and non-triviality examples for the hypotheses. *)
From Coq Require Import String.
From Coq Require Import List Arith NArith Bool Lia.
From Verif Require Import Outcome Cmp.
From C29 Require Export Model ProofsBits ProofsPolymod ProofsBech32 ProofsSubst ProofsBase32 ProofsMnemonic.
Import ListNotations.
Open Scope N_scope.

(* the mnemonic hypotheses are satisfiable: words = indices, a constant hash byte *)
Definition ex_index (w : N) : option N := if w <? 2048 then Some w else None.
Example mnemonic_hyps_satisfiable :
  (forall i, i < 2048 -> ex_index ((fun i => i) i) = Some i) /\ (forall d : list N, (fun _ => 37) d < 256).
Proof.
  split; [|intros; reflexivity]. intros i Hi. unfold ex_index.
  replace (i <? 2048) with true by (symmetry; apply N.ltb_lt; exact Hi). reflexivity.
Qed.

Example valid_entropy_example : valid_entropy (map N.of_nat (seq 7 16)).
Proof. split; [repeat constructor | left; reflexivity]. Qed.

(* a concrete address and a concrete rejected substitution, by evaluation *)
Example address_example :
  encode_address (net_hrp MainNet) (repeat 0 20) =
  Ok (codes "bn1qqqqqqqqqqqqqqqqqqqqqqqqqqqqqqqqq3kc3g2"%string).
Proof. vm_compute. reflexivity. Qed.
