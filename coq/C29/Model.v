(* C29 — addresses and text encodings: executable model (no proofs).
   Mirrors /repo/common/bech32/bech32.go, /repo/common/address.go,
   /repo/encoding/base32/base32.go and the bit packing of
   /repo/wallet/mnemonic/mnemonic.go.

   A Go string / []byte is a [list N] of byte codes.  [Panic] marks the places
   where the Go code indexes or slices and would panic when out of range. *)
From Coq Require Import String Ascii.
From Coq Require Import List Arith NArith Bool.
From Verif Require Import Outcome Cmp.
Import ListNotations.
Open Scope N_scope.

Definition str := list N.

Fixpoint codes (s : string) : str :=
  match s with
  | EmptyString => []
  | String a t => N_of_ascii a :: codes t
  end.

Inductive terr := EInvalid | EUnknownType | EWitnessVer | EProgLen | EFuel.
Definition res (A : Type) := outcome terr A.

Definition str_eqb : str -> str -> bool := list_eqb N.eqb.

(* strings.ToLower / ToUpper on an ASCII string *)
Definition to_lower (c : N) : N := if (65 <=? c) && (c <=? 90) then c + 32 else c.
Definition to_upper (c : N) : N := if (97 <=? c) && (c <=? 122) then c - 32 else c.

(* strings.LastIndexByte: None stands for -1 *)
Fixpoint last_index (c : N) (s : str) : option nat :=
  match s with
  | [] => None
  | x :: t =>
    match last_index c t with
    | Some i => Some (S i)
    | None => if x =? c then Some 0%nat else None
    end
  end.

(* strings.IndexByte *)
Fixpoint index_of (c : N) (l : str) : option N :=
  match l with
  | [] => None
  | x :: t => if x =? c then Some 0 else option_map N.succ (index_of c t)
  end.

(* ------------------------------------------------------------------ bech32 *)

Definition charset : str := Eval vm_compute in codes "qpzry9x8gf2tvdw0s3jn54khce6mua7l"%string.

Definition gen : list N := [0x3b6a57b2; 0x26508e6d; 0x1ea119fa; 0x3d4233dd; 0x2a1462b3].

(* for i := 0; i < 5; i++ { if (b>>i)&1 == 1 { chk ^= gen[i] } } *)
Fixpoint gen_xor (b : N) (i : N) (gs : list N) (chk : N) : N :=
  match gs with
  | [] => chk
  | g :: gs' =>
    gen_xor b (i + 1) gs' (if N.land (N.shiftr b i) 1 =? 1 then N.lxor chk g else chk)
  end.

Definition polymod_step (chk v : N) : N :=
  let b := N.shiftr chk 25 in
  let chk1 := N.lxor (N.shiftl (N.land chk 0x1ffffff) 5) v in
  gen_xor b 0 gen chk1.

Definition polymod (values : list N) : N := fold_left polymod_step values 1.

Definition hrp_expand (hrp : str) : list N :=
  map (fun c => N.shiftr c 5) hrp ++ [0] ++ map (fun c => N.land c 31) hrp.

Definition checksum (hrp : str) (data : list N) : list N :=
  let pm := N.lxor (polymod (hrp_expand hrp ++ data ++ [0; 0; 0; 0; 0; 0])) 1 in
  map (fun i => N.land (N.shiftr pm (5 * (5 - i))) 31) [0; 1; 2; 3; 4; 5].

Definition verify_checksum (hrp : str) (data : list N) : bool :=
  polymod (hrp_expand hrp ++ data) =? 1.

Fixpoint to_bytes (chars : str) : option (list N) :=
  match chars with
  | [] => Some []
  | c :: t =>
    match index_of c charset with
    | None => None
    | Some i => match to_bytes t with None => None | Some r => Some (i :: r) end
    end
  end.

(* toChars: a data byte >= 32 is an error; charset[b] cannot go out of range after the guard *)
Fixpoint to_chars (data : list N) : res str :=
  match data with
  | [] => Ok []
  | b :: t =>
    if 32 <=? b then Err EInvalid
    else match nth_error charset (N.to_nat b) with
         | None => Panic IndexOOR
         | Some c => match to_chars t with Ok r => Ok (c :: r) | Err e => Err e | Panic p => Panic p end
         end
  end.

Definition bech32_encode (hrp : str) (data : list N) : res str :=
  match to_chars (data ++ checksum hrp data) with
  | Ok chars => Ok (hrp ++ [49] ++ chars)
  | Err e => Err e
  | Panic p => Panic p
  end.

Definition printable (c : N) : bool := (33 <=? c) && (c <=? 126).

Definition bech32_decode (bech : str) : res (str * list N) :=
  let n := length bech in
  if (n <? 8)%nat || (90 <? n)%nat then Err EInvalid else
  if negb (forallb printable bech) then Err EInvalid else
  let lower := map to_lower bech in
  let upper := map to_upper bech in
  if negb (str_eqb bech lower) && negb (str_eqb bech upper) then Err EInvalid else
  match last_index 49 lower with
  | None => Err EInvalid
  | Some one =>
    if (one <? 1)%nat || (n <? one + 7)%nat then Err EInvalid else
    let hrp := firstn one lower in
    let data := skipn (S one) lower in
    match to_bytes data with
    | None => Err EInvalid
    | Some decoded =>
      (* decoded[:len(decoded)-6] is evaluated on both the success and the
         checksum-failure path *)
      if (length decoded <? 6)%nat then Panic IndexOOR else
      if verify_checksum hrp decoded
      then Ok (hrp, firstn (length decoded - 6) decoded)
      else Err EInvalid
    end
  end.

(* ------------------------------------------------------------- ConvertBits *)

Definition b8 (x : N) : N := N.land x 255.   (* uint8 truncation *)

(* the inner loop "for remFromBits > 0"; at most 8 iterations.  Returns the
   new (nextByte, filledBits) and the bytes appended to regrouped. *)
Fixpoint cb_inner (fuel : nat) (toBits b rem nb fb : N) : option (N * N * list N) :=
  if rem =? 0 then Some (nb, fb, []) else
  match fuel with
  | O => None
  | S f =>
    let remTo := toBits - fb in
    let ext := if remTo <? rem then remTo else rem in
    let nb1 := b8 (N.lor (N.shiftl nb ext) (N.shiftr b (8 - ext))) in
    let b1 := b8 (N.shiftl b ext) in
    let rem1 := rem - ext in
    let fb1 := fb + ext in
    if fb1 =? toBits then
      match cb_inner f toBits b1 rem1 0 0 with
      | None => None
      | Some (nb2, fb2, em) => Some (nb2, fb2, nb1 :: em)
      end
    else cb_inner f toBits b1 rem1 nb1 fb1
  end.

Definition cb_step (fromBits toBits : N) (nb fb x : N) : option (N * N * list N) :=
  cb_inner 8 toBits (b8 (N.shiftl x (8 - fromBits))) fromBits nb fb.

Fixpoint cb_loop (fromBits toBits : N) (data : list N) (nb fb : N) : option (N * N * list N) :=
  match data with
  | [] => Some (nb, fb, [])
  | x :: t =>
    match cb_step fromBits toBits nb fb x with
    | None => None
    | Some (nb1, fb1, em) =>
      match cb_loop fromBits toBits t nb1 fb1 with
      | None => None
      | Some (nb2, fb2, em2) => Some (nb2, fb2, em ++ em2)
      end
    end
  end.

Definition convert_bits (data : list N) (fromBits toBits : N) (pad : bool) : res (list N) :=
  if (fromBits <? 1) || (8 <? fromBits) || (toBits <? 1) || (8 <? toBits) then Err EInvalid else
  match cb_loop fromBits toBits data 0 0 with
  | None => Err EFuel
  | Some (nb, fb, out) =>
    if pad && (0 <? fb) then Ok (out ++ [b8 (N.shiftl nb (toBits - fb))])
    else if (0 <? fb) && ((4 <? fb) || negb (nb =? 0)) then Err EInvalid
    else Ok out
  end.

(* ----------------------------------------------------------------- address *)

Inductive net := MainNet | TestNet | SoloNet.
Definition net_hrp (n : net) : str :=
  match n with
  | MainNet => [98; 110]    (* "bn" *)
  | TestNet => [116; 110]   (* "tn" *)
  | SoloNet => [115; 110]   (* "sn" *)
  end.

Definition decode_segwit (address : str) : res (N * list N) :=
  match bech32_decode address with
  | Err e => Err e
  | Panic p => Panic p
  | Ok (_, data) =>
    match data with
    | [] => Err EInvalid
    | version :: rest =>
      if 16 <? version then Err EInvalid else
      match convert_bits rest 5 8 false with
      | Err e => Err e
      | Panic p => Panic p
      | Ok regrouped =>
        let l := length regrouped in
        if (l <? 2)%nat || (40 <? l)%nat then Err EInvalid else
        if (version =? 0) && negb (l =? 20)%nat && negb (l =? 32)%nat then Err EInvalid else
        Ok (version, regrouped)
      end
    end
  end.

Definition encode_segwit (hrp : str) (ver : N) (prog : list N) : res str :=
  match convert_bits prog 8 5 true with
  | Err e => Err e
  | Panic p => Panic p
  | Ok converted =>
    match bech32_encode hrp (ver :: converted) with
    | Err e => Err e
    | Panic p => Panic p
    | Ok bech =>
      (* "Check validity by decoding the created address" *)
      match decode_segwit bech with
      | Err e => Err EInvalid
      | Panic p => Panic p
      | Ok (v, p) => if (v =? ver) && str_eqb p prog then Ok bech else Err EInvalid
      end
    end
  end.

(* DecodeAddress(addr, param): the result is the address object, observed as
   (hrp, witness program); the kind (P2WPKH / P2WSH) is the program length. *)
Definition decode_address (nethrp : str) (addr : str) : res (str * list N) :=
  match last_index 49 addr with
  | None => Err EUnknownType
  | Some one =>
    if (1 <? one)%nat then
      let prefix := firstn (S one) addr in
      if str_eqb (map to_lower prefix) (nethrp ++ [49]) then
        match decode_segwit addr with
        | Err e => Err e
        | Panic p => Panic p
        | Ok (ver, prog) =>
          if negb (ver =? 0) then Err EWitnessVer else
          let hrp := firstn (length prefix - 1) prefix in
          if (length prog =? 20)%nat || (length prog =? 32)%nat
          then Ok (map to_lower hrp, prog)
          else Err EProgLen
        end
      else Err EUnknownType
    else Err EUnknownType
  end.

(* NewAddressWitnessPubKeyHash / ScriptHash (prog, param) followed by EncodeAddress *)
Definition encode_address (nethrp : str) (prog : list N) : res str :=
  if (length prog =? 20)%nat || (length prog =? 32)%nat
  then encode_segwit (map to_lower nethrp) 0 prog
  else Err EInvalid.

(* s with the character at position i replaced by c *)
Fixpoint subst (s : str) (i : nat) (c : N) : str :=
  match s, i with
  | [], _ => []
  | _ :: t, O => c :: t
  | x :: t, S j => x :: subst t j c
  end.

(* ------------------------------------------------------------------ base32 *)
(* StdEncoding / HexEncoding (padding '=').  [alpha] is the 32-character
   alphabet. *)

Definition alpha_std : str := Eval vm_compute in codes "ABCDEFGHIJKLMNOPQRSTUVWXYZ234567"%string.
Definition alpha_hex : str := Eval vm_compute in codes "0123456789ABCDEFGHIJKLMNOPQRSTUV"%string.
Definition padc : N := 61.  (* '=' *)

Definition a5 (x : N) : N := N.land x 31.

(* the 8 five-bit blocks of one quantum; missing source bytes contribute 0
   (the switch with fallthrough in Encode) *)
Definition b32_blocks (s0 s1 s2 s3 s4 : N) : list N :=
  [ N.shiftr s0 3;
    N.lor (a5 (b8 (N.shiftl s0 2))) (a5 (N.shiftr s1 6));
    a5 (N.shiftr s1 1);
    N.lor (a5 (b8 (N.shiftl s1 4))) (a5 (N.shiftr s2 4));
    N.lor (a5 (b8 (N.shiftl s2 1))) (N.shiftr s3 7);
    a5 (N.shiftr s3 2);
    N.lor (a5 (b8 (N.shiftl s3 3))) (N.shiftr s4 5);
    a5 s4 ].

Definition alpha_at (alpha : str) (b : N) : N := nth (N.to_nat b) alpha 0.

(* one quantum of Encode: k = number of source bytes present (1..5) *)
Definition b32_quantum (alpha : str) (k : nat) (s0 s1 s2 s3 s4 : N) : str :=
  let cs := map (alpha_at alpha) (b32_blocks s0 s1 s2 s3 s4) in
  match k with
  | 1%nat => firstn 2 cs ++ repeat padc 6
  | 2%nat => firstn 4 cs ++ repeat padc 4
  | 3%nat => firstn 5 cs ++ repeat padc 3
  | 4%nat => firstn 7 cs ++ repeat padc 1
  | _ => cs
  end.

Fixpoint b32_encode (alpha : str) (src : list N) : str :=
  match src with
  | [] => []
  | [s0] => b32_quantum alpha 1 s0 0 0 0 0
  | [s0; s1] => b32_quantum alpha 2 s0 s1 0 0 0
  | [s0; s1; s2] => b32_quantum alpha 3 s0 s1 s2 0 0
  | [s0; s1; s2; s3] => b32_quantum alpha 4 s0 s1 s2 s3 0
  | s0 :: s1 :: s2 :: s3 :: s4 :: rest => b32_quantum alpha 5 s0 s1 s2 s3 s4 ++ b32_encode alpha rest
  end.

(* decodeMap[in]: 0xFF when not in the alphabet *)
Definition b32_dmap (alpha : str) (c : N) : N :=
  match index_of c alpha with Some i => i | None => 255 end.

(* result of reading one quantum *)
Inductive qres :=
| QErr
| QOk (dbuf : list N) (dlen : nat) (endp : bool) (rest : str).

(* for k := 0; k < 8-1-j; k++ { if len(src) > k && src[k] != pad -> error } *)
Fixpoint pad_ok (cnt : nat) (src : str) : bool :=
  match cnt with
  | O => true
  | S c => match src with
           | [] => true
           | x :: t => (x =? padc) && pad_ok c t
           end
  end.

(* the loop "for j := 0; j < 8;" ; [k] = 8 - j iterations left, dbuf in order *)
Fixpoint b32_read (alpha : str) (k : nat) (j : nat) (dbuf : list N) (src : str) : qres :=
  match k with
  | O => QOk dbuf 8 false src
  | S k' =>
    match src with
    | [] => QErr                          (* missing padding *)
    | c :: src' =>
      if (c =? padc) && (2 <=? j)%nat && (length src' <? 8)%nat then
        if (length src' + j <? 7)%nat then QErr
        else if negb (pad_ok (7 - j) src') then QErr
        else if (j =? 1)%nat || (j =? 3)%nat || (j =? 6)%nat then QErr
        else QOk dbuf j true src'
      else
        let d := b32_dmap alpha c in
        if d =? 255 then QErr
        else b32_read alpha k' (S j) (dbuf ++ [d]) src'
    end
  end.

Definition d_at (dbuf : list N) (i : nat) : N := nth i dbuf 0.

(* the packing switch; number of bytes produced by dlen *)
Definition b32_pack (dbuf : list N) (dlen : nat) : list N :=
  let d := d_at dbuf in
  let y0 := b8 (N.lor (N.shiftl (d 0%nat) 3) (N.shiftr (d 1%nat) 2)) in
  let y1 := b8 (N.lor (N.lor (N.shiftl (d 1%nat) 6) (N.shiftl (d 2%nat) 1)) (N.shiftr (d 3%nat) 4)) in
  let y2 := b8 (N.lor (N.shiftl (d 3%nat) 4) (N.shiftr (d 4%nat) 1)) in
  let y3 := b8 (N.lor (N.lor (N.shiftl (d 4%nat) 7) (N.shiftl (d 5%nat) 2)) (N.shiftr (d 6%nat) 3)) in
  let y4 := b8 (N.lor (N.shiftl (d 6%nat) 5) (d 7%nat)) in
  match dlen with
  | 8%nat => [y0; y1; y2; y3; y4]
  | 7%nat => [y0; y1; y2; y3]
  | 5%nat => [y0; y1; y2]
  | 4%nat => [y0; y1]
  | 2%nat => [y0]
  | _ => []
  end.

(* the outer loop of decode; [cap] = len(dst) still available.  Writing
   beyond it, or dst[5:] with fewer than 5 bytes left, panics in Go. *)
Fixpoint b32_loop (alpha : str) (fuel : nat) (cap : nat) (src : str) : res (list N) :=
  match src with
  | [] => Ok []
  | _ =>
    match fuel with
    | O => Err EFuel
    | S f =>
      match b32_read alpha 8 0 [] src with
      | QErr => Err EInvalid
      | QOk dbuf dlen endp rest =>
        let bytes := b32_pack dbuf dlen in
        if (cap <? length bytes)%nat then Panic IndexOOR else
        if endp then Ok bytes
        else if (cap <? 5)%nat then Panic IndexOOR
        else match b32_loop alpha f (cap - 5) rest with
             | Ok r => Ok (bytes ++ r)
             | Err e => Err e
             | Panic p => Panic p
             end
      end
    end
  end.

(* bytes.Map(removeNewlinesMapper) on an ASCII string *)
Definition strip_nl (s : str) : str := filter (fun c => negb ((c =? 10) || (c =? 13))) s.

Definition b32_decode (alpha : str) (s : str) : res (list N) :=
  let s' := strip_nl s in
  b32_loop alpha (S (length s')) (length s' / 8 * 5)%nat s'.

(* --------------------------------------------------------------- mnemonic *)
(* big.Int SetBytes / Bytes *)
Definition be_to_n (bs : list N) : N := fold_left (fun acc b => acc * 256 + b) bs 0.

Fixpoint n_to_be_fuel (fuel : nat) (x : N) (acc : list N) : list N :=
  match fuel with
  | O => acc
  | S f => if x =? 0 then acc else n_to_be_fuel f (x / 256) (x mod 256 :: acc)
  end.
Definition n_to_be (x : N) : list N := n_to_be_fuel (N.to_nat (N.size x)) x [].

Definition pad_slice (s : list N) (len : nat) : list N :=
  if (length s <? len)%nat then repeat 0 (len - length s) ++ s else s.

Section Mnemonic.
  Variable W : Type.                         (* words *)
  Variable word : N -> W.                    (* wordList[i] *)
  Variable word_index : W -> option N.       (* wordMap *)
  Variable sha_first : list N -> N.          (* sha256(data)[0] *)

  Definition valid_entropy_bits (bits : nat) : bool :=
    (bits mod 32 =? 0)%nat && (128 <=? bits)%nat && (bits <=? 256)%nat.

  (* addChecksum: shift in the first len/4 bits of the hash byte, MSB first *)
  Fixpoint add_cs_bits (cnt : nat) (i : N) (cs : N) (x : N) : N :=
    match cnt with
    | O => x
    | S c =>
      let x2 := x * 2 in
      add_cs_bits c (i + 1) cs (if 0 <? N.land cs (if 7 <? i then 0 else N.shiftl 1 (7 - i)) then N.lor x2 1 else x2)
    end.

  Definition add_checksum (data : list N) : list N :=
    n_to_be (add_cs_bits (length data / 4) 0 (sha_first data) (be_to_n data)).

  (* words[i] for i = sentenceLength-1 downto 0 *)
  Fixpoint take_words (cnt : nat) (x : N) (acc : list W) : list W :=
    match cnt with
    | O => acc
    | S c => take_words c (x / 2048) (word (N.land x 2047) :: acc)
    end.

  Definition new_mnemonic (entropy : list N) : res (list W) :=
    let bits := (length entropy * 8)%nat in
    let csbits := (bits / 32)%nat in
    let slen := ((bits + csbits) / 11)%nat in
    if negb (valid_entropy_bits bits) then Err EInvalid else
    Ok (take_words slen (be_to_n (add_checksum entropy)) []).

  Fixpoint words_to_n (ws : list W) (b : N) : option N :=
    match ws with
    | [] => Some b
    | w :: t =>
      match word_index w with
      | None => None
      | Some i => words_to_n t (N.lor (b * 2048) i)
      end
    end.

  Definition cs_mask (n : nat) : option N :=
    match n with
    | 12%nat => Some 15 | 15%nat => Some 31 | 18%nat => Some 63
    | 21%nat => Some 127 | 24%nat => Some 255 | _ => None
    end.
  Definition cs_shift (n : nat) : option N :=
    match n with
    | 12%nat => Some 16 | 15%nat => Some 8 | 18%nat => Some 4 | 21%nat => Some 2 | _ => None
    end.

  (* EntropyFromMnemonic on the word slice (after strings.Fields) *)
  Definition entropy_from_mnemonic (ws : list W) : res (list N) :=
    let n := length ws in
    if negb (n mod 3 =? 0)%nat || (n <? 12)%nat || (24 <? n)%nat then Err EInvalid else
    match words_to_n ws 0 with
    | None => Err EInvalid
    | Some b =>
      match cs_mask n with
      | None => Panic NilDeref        (* nil *big.Int from the map *)
      | Some mask =>
        let checksum := N.land b mask in
        let entropy := pad_slice (n_to_be (b / (mask + 1))) (n / 3 * 4) in
        let h := sha_first entropy in
        if (n =? 24)%nat then
          if checksum =? h then Ok entropy else Err EInvalid
        else
          match cs_shift n with
          | None => Panic NilDeref
          | Some sh => if checksum =? h / sh then Ok entropy else Err EInvalid
          end
      end
    end.
End Mnemonic.
