(* C29 — bech32 and segwit addresses: round trips, network separation,
   totality of the decoders. *)
From Coq Require Import List Arith NArith Bool Lia.
From Verif Require Import Outcome Cmp.
From C29 Require Import Model ProofsBits ProofsPolymod.
Import ListNotations.
Open Scope N_scope.

(* ---- generic list facts ---- *)
Lemma str_eqb_eq a b : str_eqb a b = true <-> a = b.
Proof. apply bytes_eqb_eq. Qed.

Lemma str_eqb_refl a : str_eqb a a = true.
Proof. apply str_eqb_eq. reflexivity. Qed.

Lemma str_eqb_neq a b : a <> b -> str_eqb a b = false.
Proof. intros H. destruct (str_eqb a b) eqn:E; [apply str_eqb_eq in E; contradiction | reflexivity]. Qed.

Lemma last_index_none c l : ~ In c l -> last_index c l = None.
Proof.
  induction l as [|x l IH]; intros H; cbn; [reflexivity|].
  rewrite IH by (intro; apply H; right; assumption).
  destruct (x =? c) eqn:E; [|reflexivity]. apply N.eqb_eq in E. exfalso. apply H. left. exact E.
Qed.

Lemma last_index_app c l1 l2 : ~ In c l2 -> last_index c (l1 ++ c :: l2) = Some (length l1).
Proof.
  intros H. induction l1 as [|x l1 IH]; cbn.
  - rewrite (last_index_none c l2 H), N.eqb_refl. reflexivity.
  - rewrite IH. reflexivity.
Qed.

Lemma last_index_lt c l i : last_index c l = Some i -> (i < length l)%nat /\ nth i l 0 = c.
Proof.
  revert i; induction l as [|x l IH]; intros i H; cbn in H; [discriminate|].
  destruct (last_index c l) as [j|] eqn:E.
  - inversion H; subst. destruct (IH j eq_refl). cbn. split; [lia | assumption].
  - destruct (x =? c) eqn:Ex; [|discriminate]. inversion H; subst. apply N.eqb_eq in Ex. cbn. split; [lia | assumption].
Qed.

Lemma subst_split : forall s i c, (i < length s)%nat -> subst s i c = firstn i s ++ c :: skipn (S i) s.
Proof.
  induction s as [|x s IH]; intros i c H; cbn in H; [lia|].
  destruct i as [|i]; cbn; [reflexivity|]. rewrite IH by lia. reflexivity.
Qed.

Lemma subst_length : forall s i c, length (subst s i c) = length s.
Proof. induction s as [|x s IH]; intros [|i] c; cbn; try reflexivity. rewrite IH. reflexivity. Qed.

(* ---- the character set ---- *)
Definition cs_at (b : N) : N := nth (N.to_nat b) charset 0.

Definition charset_ok (b : N) : bool :=
  match nth_error charset (N.to_nat b) with
  | Some c => (c =? cs_at b) &&
              match index_of c charset with Some i => i =? b | None => false end &&
              printable c && (to_lower c =? c) && negb (c =? 49)
  | None => false
  end.

Lemma charset_facts : forall b, b < 32 ->
  nth_error charset (N.to_nat b) = Some (cs_at b) /\ index_of (cs_at b) charset = Some b /\
  printable (cs_at b) = true /\ to_lower (cs_at b) = cs_at b /\ cs_at b <> 49.
Proof.
  assert (H : forallN 32 charset_ok = true) by (vm_compute; reflexivity).
  intros b Hb. pose proof (forallN_spec _ _ H b Hb) as Hc. unfold charset_ok in Hc.
  destruct (nth_error charset (N.to_nat b)) as [c|]; [|discriminate].
  repeat (apply andb_prop in Hc; destruct Hc as [Hc ?]).
  apply N.eqb_eq in Hc. subst c.
  destruct (index_of (cs_at b) charset) as [i|]; [|discriminate].
  repeat split; try assumption.
  - f_equal. apply N.eqb_eq. assumption.
  - apply N.eqb_eq. assumption.
  - intro E. rewrite E in *. discriminate.
Qed.

(* a character whose index in the charset is v is charset[v] *)
Lemma index_of_lt : forall l c v, index_of c l = Some v -> v < N.of_nat (length l) /\ nth (N.to_nat v) l 0 = c.
Proof.
  induction l as [|x l IH]; intros c v H; cbn in H; [discriminate|].
  destruct (x =? c) eqn:E.
  - inversion H; subst. apply N.eqb_eq in E. cbn. split; [lia | exact E].
  - destruct (index_of c l) as [w|] eqn:Ew; [|discriminate]. cbn in H. inversion H; subst.
    destruct (IH c w Ew) as [H1 H2]. split; [cbn [length]; lia|].
    rewrite N2Nat.inj_succ. cbn. exact H2.
Qed.

Lemma index_charset c v : index_of c charset = Some v -> v < 32 /\ cs_at v = c.
Proof. intros H. apply index_of_lt in H. exact H. Qed.

Lemma to_chars_ok : forall l, all_lt 32 l -> to_chars l = Ok (map cs_at l).
Proof.
  induction 1 as [|b l Hb Hl IH]; cbn [to_chars map]; [reflexivity|].
  replace (32 <=? b) with false by (symmetry; apply N.leb_gt; exact Hb).
  destruct (charset_facts b Hb) as (E & _). rewrite E, IH. reflexivity.
Qed.

Lemma to_bytes_chars : forall l, all_lt 32 l -> to_bytes (map cs_at l) = Some l.
Proof.
  induction 1 as [|b l Hb Hl IH]; cbn [to_bytes map]; [reflexivity|].
  destruct (charset_facts b Hb) as (_ & E & _). rewrite E, IH. reflexivity.
Qed.

Lemma to_bytes_length : forall s d, to_bytes s = Some d -> length d = length s.
Proof.
  induction s as [|c s IH]; intros d H; cbn [to_bytes] in H.
  - inversion H. reflexivity.
  - destruct (index_of c charset); [|discriminate]. destruct (to_bytes s) as [r|]; [|discriminate].
    inversion H; subst. cbn. rewrite (IH r eq_refl). reflexivity.
Qed.

Lemma to_bytes_lt : forall s d, to_bytes s = Some d -> all_lt 32 d /\ s = map cs_at d.
Proof.
  induction s as [|c s IH]; intros d H; cbn [to_bytes] in H.
  - inversion H. split; constructor.
  - destruct (index_of c charset) as [v|] eqn:Ev; [|discriminate]. destruct (to_bytes s) as [r|]; [|discriminate].
    inversion H; subst. destruct (IH r eq_refl) as [H1 H2]. apply index_charset in Ev. destruct Ev as [Ev1 Ev2].
    split; [constructor; assumption|]. cbn [map]. rewrite Ev2, <- H2. reflexivity.
Qed.

Lemma chars_printable l : all_lt 32 l -> forallb printable (map cs_at l) = true.
Proof.
  induction 1 as [|b l Hb Hl IH]; cbn [map forallb]; [reflexivity|].
  destruct (charset_facts b Hb) as (_ & _ & E & _). rewrite E, IH. reflexivity.
Qed.

Lemma chars_lower l : all_lt 32 l -> map to_lower (map cs_at l) = map cs_at l.
Proof.
  induction 1 as [|b l Hb Hl IH]; cbn [map]; [reflexivity|].
  destruct (charset_facts b Hb) as (_ & _ & _ & E & _). rewrite E, IH. reflexivity.
Qed.

Lemma chars_no_sep l : all_lt 32 l -> ~ In 49 (map cs_at l).
Proof.
  induction 1 as [|b l Hb Hl IH]; cbn [map In]; [tauto|].
  destruct (charset_facts b Hb) as (_ & _ & _ & _ & E). intros [H|H]; [exact (E H) | exact (IH H)].
Qed.

(* ---- sufficient conditions for Bech32Decode to succeed ---- *)
Lemma bech32_decode_ok hrp chars decoded :
  let s := hrp ++ 49 :: chars in
  (8 <= length s <= 90)%nat -> forallb printable s = true -> map to_lower s = s ->
  ~ In 49 chars -> (1 <= length hrp)%nat -> (6 <= length chars)%nat ->
  to_bytes chars = Some decoded -> verify_checksum hrp decoded = true ->
  bech32_decode s = Ok (hrp, firstn (length decoded - 6) decoded).
Proof.
  intros s Hlen Hpr Hlow Hsep Hh Hc Hb Hv. unfold bech32_decode.
  replace ((length s <? 8)%nat || (90 <? length s)%nat) with false
    by (symmetry; apply orb_false_intro; apply Nat.ltb_ge; lia).
  rewrite Hpr. cbn [negb]. rewrite Hlow, str_eqb_refl. cbn [negb andb].
  unfold s at 1. rewrite (last_index_app 49 hrp chars Hsep).
  assert (Ls : length s = (length hrp + S (length chars))%nat) by (unfold s; rewrite app_length; reflexivity).
  replace ((length hrp <? 1)%nat || (length s <? length hrp + 7)%nat) with false
    by (symmetry; apply orb_false_intro; apply Nat.ltb_ge; lia).
  unfold s. rewrite firstn_app, firstn_all, Nat.sub_diag, app_nil_r. cbn [firstn].
  replace (skipn (S (length hrp)) (hrp ++ 49 :: chars)) with chars.
  2:{ change (49 :: chars) with ([49] ++ chars). rewrite app_assoc.
      replace (S (length hrp)) with (length (hrp ++ [49])) by (rewrite app_length; cbn; lia).
      rewrite skipn_app, skipn_all, Nat.sub_diag. reflexivity. }
  rewrite Hb. pose proof (to_bytes_length _ _ Hb) as Ld.
  replace (length decoded <? 6)%nat with false by (symmetry; apply Nat.ltb_ge; lia).
  rewrite Hv. reflexivity.
Qed.

(* ---- what a successful Bech32Decode tells about its input ---- *)
Lemma bech32_decode_inv s hrp data : bech32_decode s = Ok (hrp, data) ->
  exists one decoded,
    (8 <= length s <= 90)%nat /\ forallb printable s = true /\
    (s = map to_lower s \/ s = map to_upper s) /\
    last_index 49 (map to_lower s) = Some one /\ (1 <= one)%nat /\ (one + 7 <= length s)%nat /\
    hrp = firstn one (map to_lower s) /\
    to_bytes (skipn (S one) (map to_lower s)) = Some decoded /\
    verify_checksum hrp decoded = true /\ data = firstn (length decoded - 6) decoded.
Proof.
  unfold bech32_decode. intros H.
  destruct ((length s <? 8)%nat || (90 <? length s)%nat) eqn:E1; [discriminate|].
  destruct (forallb printable s) eqn:E2; [|discriminate]. cbn [negb] in H.
  destruct (negb (str_eqb s (map to_lower s)) && negb (str_eqb s (map to_upper s))) eqn:E3; [discriminate|].
  destruct (last_index 49 (map to_lower s)) as [one|] eqn:E4; [|discriminate].
  destruct ((one <? 1)%nat || (length s <? one + 7)%nat) eqn:E5; [discriminate|].
  destruct (to_bytes (skipn (S one) (map to_lower s))) as [decoded|] eqn:E6; [|discriminate].
  destruct (length decoded <? 6)%nat eqn:E7; [discriminate|].
  destruct (verify_checksum (firstn one (map to_lower s)) decoded) eqn:E8; [|discriminate].
  inversion H; subst. exists one, decoded.
  apply orb_false_elim in E1. destruct E1 as [E1a E1b]. apply Nat.ltb_ge in E1a, E1b.
  apply orb_false_elim in E5. destruct E5 as [E5a E5b]. apply Nat.ltb_ge in E5a, E5b.
  repeat split; try assumption; try lia.
  apply andb_false_elim in E3. destruct E3 as [E3|E3]; apply negb_false_iff in E3; apply str_eqb_eq in E3; tauto.
Qed.

Theorem bech32_decode_total s : is_panic (bech32_decode s) = false.
Proof.
  unfold bech32_decode.
  destruct ((length s <? 8)%nat || (90 <? length s)%nat) eqn:E1; [reflexivity|].
  destruct (negb (forallb printable s)); [reflexivity|].
  destruct (negb (str_eqb s (map to_lower s)) && negb (str_eqb s (map to_upper s))); [reflexivity|].
  destruct (last_index 49 (map to_lower s)) as [one|] eqn:E4; [|reflexivity].
  destruct ((one <? 1)%nat || (length s <? one + 7)%nat) eqn:E5; [reflexivity|].
  destruct (to_bytes (skipn (S one) (map to_lower s))) as [decoded|] eqn:E6; [|reflexivity].
  apply to_bytes_length in E6. rewrite skipn_length, map_length in E6.
  apply orb_false_elim in E5. destruct E5 as [E5a E5b]. apply Nat.ltb_ge in E5a, E5b.
  replace (length decoded <? 6)%nat with false by (symmetry; apply Nat.ltb_ge; lia).
  destruct (verify_checksum _ decoded); reflexivity.
Qed.

Lemma convert_bits_no_panic data f t p : is_panic (convert_bits data f t p) = false.
Proof.
  pose proof (convert_bits_total data f t p) as H. destruct (convert_bits data f t p); [reflexivity | reflexivity | contradiction].
Qed.

Theorem decode_segwit_total s : is_panic (decode_segwit s) = false.
Proof.
  unfold decode_segwit. pose proof (bech32_decode_total s) as H.
  destruct (bech32_decode s) as [[h data]|e|p]; [|reflexivity|discriminate].
  destruct data as [|v rest]; [reflexivity|]. destruct (16 <? v); [reflexivity|].
  pose proof (convert_bits_no_panic rest 5 8 false) as Hc.
  destruct (convert_bits rest 5 8 false) as [r|e|p]; [|reflexivity|discriminate].
  destruct ((length r <? 2)%nat || (40 <? length r)%nat); [reflexivity|].
  destruct ((v =? 0) && negb (length r =? 20)%nat && negb (length r =? 32)%nat); reflexivity.
Qed.

Theorem decode_address_total h s : is_panic (decode_address h s) = false.
Proof.
  unfold decode_address. destruct (last_index 49 s) as [one|]; [|reflexivity].
  destruct (1 <? one)%nat; [|reflexivity].
  destruct (str_eqb _ _); [|reflexivity].
  pose proof (decode_segwit_total s) as H.
  destruct (decode_segwit s) as [[v p]|e|p]; [|reflexivity|discriminate].
  destruct (negb (v =? 0)); [reflexivity|].
  destruct ((length p =? 20)%nat || (length p =? 32)%nat); reflexivity.
Qed.

(* ---- bech32 round trip ---- *)
Definition valid_hrp (hrp : str) : Prop :=
  (1 <= length hrp)%nat /\ forallb printable hrp = true /\ map to_lower hrp = hrp.

Theorem bech32_roundtrip hrp data :
  valid_hrp hrp -> all_lt 32 data -> (length hrp + 7 + length data <= 90)%nat ->
  exists s, bech32_encode hrp data = Ok s /\ bech32_decode s = Ok (hrp, data).
Proof.
  intros (Hh1 & Hh2 & Hh3) Hd Hlen.
  pose proof (checksum_lt hrp data) as Hcs.
  assert (Hall : all_lt 32 (data ++ checksum hrp data)) by (apply Forall_app; split; assumption).
  unfold bech32_encode. rewrite (to_chars_ok _ Hall).
  eexists; split; [reflexivity|].
  change (hrp ++ [49] ++ map cs_at (data ++ checksum hrp data))
    with (hrp ++ 49 :: map cs_at (data ++ checksum hrp data)).
  assert (L : length (map cs_at (data ++ checksum hrp data)) = (length data + 6)%nat)
    by (rewrite map_length, app_length, checksum_length; reflexivity).
  rewrite (bech32_decode_ok hrp _ (data ++ checksum hrp data)).
  - rewrite app_length, checksum_length. replace (length data + 6 - 6)%nat with (length data) by lia.
    rewrite firstn_app, firstn_all, Nat.sub_diag. cbn [firstn]. rewrite app_nil_r. reflexivity.
  - rewrite app_length. cbn [length]. rewrite L. lia.
  - rewrite forallb_app, Hh2. cbn [forallb]. rewrite chars_printable by exact Hall. reflexivity.
  - rewrite map_app, Hh3. cbn [map]. rewrite chars_lower by exact Hall. reflexivity.
  - apply chars_no_sep. exact Hall.
  - exact Hh1.
  - rewrite L. lia.
  - apply to_bytes_chars. exact Hall.
  - apply checksum_verifies.
Qed.

(* ---- segwit addresses ---- *)
Definition is_program (prog : list N) : Prop :=
  (length prog = 20 \/ length prog = 32)%nat /\ all_lt 256 prog.

Lemma net_hrp_valid p : valid_hrp (net_hrp p).
Proof. destruct p; repeat split; cbn; lia. Qed.

Lemma net_hrp_shape p : exists h0, net_hrp p = [h0; 110] /\ (h0 = 98 \/ h0 = 116 \/ h0 = 115).
Proof. destruct p; eexists; split; try reflexivity; tauto. Qed.

(* the shape of an encoded address: prefix, separator, characters of the 5-bit
   values D whose polymod (with the expanded prefix) is 1 *)
Lemma address_shape p prog : is_program prog ->
  exists D,
    all_lt 32 D /\ (7 <= length D)%nat /\ (length D <= 87)%nat /\
    encode_address (net_hrp p) prog = Ok (net_hrp p ++ 49 :: map cs_at D) /\
    verify_checksum (net_hrp p) D = true /\
    decode_segwit (net_hrp p ++ 49 :: map cs_at D) = Ok (0, prog).
Proof.
  intros [Hlen Hb].
  destruct (convert_bits_roundtrip prog Hb) as (five & E5 & H5 & E8).
  pose proof (convert_8_5_length prog five Hb E5) as L5.
  assert (Lf : (length five = 32 \/ length five = 52)%nat).
  { destruct Hlen as [Hl|Hl]; rewrite Hl in L5; [left | right]; rewrite L5; reflexivity. }
  assert (Hd : all_lt 32 (0 :: five)) by (constructor; [reflexivity | exact H5]).
  destruct (bech32_roundtrip (net_hrp p) (0 :: five) (net_hrp_valid p) Hd) as (s & Es & Ds).
  { destruct p; cbn [net_hrp length]; lia. }
  pose proof (checksum_lt (net_hrp p) (0 :: five)) as Hcs.
  remember ((0 :: five) ++ checksum (net_hrp p) (0 :: five)) as DD eqn:EDD.
  assert (Hall : all_lt 32 DD) by (subst DD; apply Forall_app; split; assumption).
  assert (LDD : length DD = (length five + 7)%nat)
    by (subst DD; rewrite app_length, checksum_length; cbn [length]; lia).
  assert (Hs : s = net_hrp p ++ 49 :: map cs_at DD).
  { unfold bech32_encode in Es. rewrite <- EDD, (to_chars_ok _ Hall) in Es. injection Es as Es. symmetry. exact Es. }
  exists DD.
  assert (Eseg : decode_segwit s = Ok (0, prog)).
  { unfold decode_segwit. rewrite Ds. change (16 <? 0) with false. cbv iota. rewrite E8.
    replace ((length prog <? 2)%nat || (40 <? length prog)%nat) with false
      by (symmetry; apply orb_false_intro; apply Nat.ltb_ge; lia).
    replace ((0 =? 0) && negb (length prog =? 20)%nat && negb (length prog =? 32)%nat) with false.
    - reflexivity.
    - destruct Hlen as [Hl|Hl]; rewrite Hl; reflexivity. }
  repeat split.
  - exact Hall.
  - lia.
  - lia.
  - unfold encode_address.
    replace ((length prog =? 20)%nat || (length prog =? 32)%nat) with true
      by (destruct Hlen as [Hl|Hl]; rewrite Hl; reflexivity).
    replace (map to_lower (net_hrp p)) with (net_hrp p) by (destruct p; reflexivity).
    unfold encode_segwit. rewrite E5, Es, Eseg, N.eqb_refl, str_eqb_refl. cbn [andb].
    rewrite Hs. reflexivity.
  - subst DD. apply checksum_verifies.
  - rewrite <- Hs. exact Eseg.
Qed.

Lemma decode_address_own p D prog : all_lt 32 D ->
  decode_segwit (net_hrp p ++ 49 :: map cs_at D) = Ok (0, prog) ->
  (length prog = 20 \/ length prog = 32)%nat ->
  decode_address (net_hrp p) (net_hrp p ++ 49 :: map cs_at D) = Ok (net_hrp p, prog).
Proof.
  intros HD Hseg Hlen. unfold decode_address.
  rewrite (last_index_app 49 (net_hrp p) _ (chars_no_sep D HD)).
  destruct (net_hrp_shape p) as (h0 & Eh & Hh0). rewrite Eh in *. cbn [length app firstn Nat.ltb Nat.leb].
  replace (map to_lower [h0; 110; 49]) with [h0; 110; 49]
    by (destruct Hh0 as [?|[?|?]]; subst h0; reflexivity).
  rewrite str_eqb_refl. cbn [app] in Hseg. rewrite Hseg. cbn [N.eqb negb Nat.sub firstn].
  replace ((length prog =? 20)%nat || (length prog =? 32)%nat) with true
    by (destruct Hlen as [Hl|Hl]; rewrite Hl; reflexivity).
  destruct Hh0 as [?|[?|?]]; subst h0; reflexivity.
Qed.

Lemma decode_address_other p q D : p <> q -> all_lt 32 D ->
  decode_address (net_hrp q) (net_hrp p ++ 49 :: map cs_at D) = Err EUnknownType.
Proof.
  intros Hpq HD. unfold decode_address.
  rewrite (last_index_app 49 (net_hrp p) _ (chars_no_sep D HD)).
  destruct p, q; try congruence; reflexivity.
Qed.

Theorem address_roundtrip p prog : is_program prog ->
  exists a, encode_address (net_hrp p) prog = Ok a /\
            decode_address (net_hrp p) a = Ok (net_hrp p, prog) /\
            forall q, q <> p -> decode_address (net_hrp q) a = Err EUnknownType.
Proof.
  intros Hp. destruct (address_shape p prog Hp) as (D & HD & _ & _ & Henc & _ & Hseg).
  eexists; split; [exact Henc|]. split.
  - apply decode_address_own; [exact HD | exact Hseg | exact (proj1 Hp)].
  - intros q Hq. apply decode_address_other; [congruence | exact HD].
Qed.

(* non-triviality of the hypotheses *)
Example is_program_example : is_program (map N.of_nat (seq 1 20)).
Proof. split; [left; reflexivity | repeat constructor]. Qed.
Example valid_hrp_example : valid_hrp (net_hrp TestNet).
Proof. apply net_hrp_valid. Qed.
