(* C29 — base32 (StdEncoding / HexEncoding, padded): decode (encode bs) = bs for
   every length, and the decoder is total on arbitrary strings. *)
From Coq Require Import List Arith NArith Bool Lia.
From Verif Require Import Outcome Cmp.
From C29 Require Import Model ProofsBits ProofsPolymod.
Import ListNotations.
Open Scope N_scope.

(* ---- byte-level identities, by exhaustive evaluation over one or two bytes ---- *)
Lemma check2 (P : N -> N -> bool) :
  forallN 256 (fun a => forallN 256 (fun b => P a b)) = true ->
  forall a b, a < 256 -> b < 256 -> P a b = true.
Proof.
  intros H a b Ha Hb. pose proof (forallN_spec _ _ H a Ha) as H1. cbv beta in H1.
  exact (forallN_spec _ _ H1 b Hb).
Qed.

Local Notation B1 s0 s1 := (N.lor (a5 (b8 (N.shiftl s0 2))) (a5 (N.shiftr s1 6))) (only parsing).
Local Notation B3 s1 s2 := (N.lor (a5 (b8 (N.shiftl s1 4))) (a5 (N.shiftr s2 4))) (only parsing).
Local Notation B4 s2 s3 := (N.lor (a5 (b8 (N.shiftl s2 1))) (N.shiftr s3 7)) (only parsing).
Local Notation B6 s3 s4 := (N.lor (a5 (b8 (N.shiftl s3 3))) (N.shiftr s4 5)) (only parsing).

Lemma b8_lor a b : b8 (N.lor a b) = N.lor (b8 a) (b8 b).
Proof. unfold b8. apply N.land_lor_distr_l. Qed.

Ltac by_check2 a b Ha Hb :=
  apply N.eqb_eq;
  match goal with |- (?l =? ?r) = true =>
    let P := eval pattern a, b in (l =? r) in
    match P with ?F a b =>
      let H := fresh in
      assert (H : forallN 256 (fun x => forallN 256 (fun y => F x y)) = true) by (vm_compute; reflexivity);
      exact (check2 F H a b Ha Hb)
    end
  end.

Ltac by_check1 a Ha :=
  apply N.eqb_eq;
  match goal with |- (?l =? ?r) = true =>
    let P := eval pattern a in (l =? r) in
    match P with ?F a =>
      let H := fresh in
      assert (H : forallN 256 F = true) by (vm_compute; reflexivity);
      exact (forallN_spec 256 F H a Ha)
    end
  end.

Lemma y0_ok s0 s1 : s0 < 256 -> s1 < 256 ->
  b8 (N.lor (N.shiftl (N.shiftr s0 3) 3) (N.shiftr (B1 s0 s1) 2)) = s0.
Proof. intros H0 H1. by_check2 s0 s1 H0 H1. Qed.

Lemma y4_ok s3 s4 : s3 < 256 -> s4 < 256 ->
  b8 (N.lor (N.shiftl (B6 s3 s4) 5) (a5 s4)) = s4.
Proof. intros H3 H4. by_check2 s3 s4 H3 H4. Qed.

Lemma y1_ok s0 s1 s2 : s0 < 256 -> s1 < 256 -> s2 < 256 ->
  b8 (N.lor (N.lor (N.shiftl (B1 s0 s1) 6) (N.shiftl (a5 (N.shiftr s1 1)) 1)) (N.shiftr (B3 s1 s2) 4)) = s1.
Proof.
  intros H0 H1 H2. rewrite !b8_lor.
  assert (U : b8 (N.shiftl (B1 s0 s1) 6) = b8 (N.shiftl (B1 0 s1) 6)) by by_check2 s0 s1 H0 H1.
  assert (W : b8 (N.shiftr (B3 s1 s2) 4) = b8 (N.shiftr (B3 s1 0) 4)) by by_check2 s1 s2 H1 H2.
  rewrite U, W. by_check1 s1 H1.
Qed.

Lemma y2_ok s1 s2 s3 : s1 < 256 -> s2 < 256 -> s3 < 256 ->
  b8 (N.lor (N.shiftl (B3 s1 s2) 4) (N.shiftr (B4 s2 s3) 1)) = s2.
Proof.
  intros H1 H2 H3. rewrite !b8_lor.
  assert (U : b8 (N.shiftl (B3 s1 s2) 4) = b8 (N.shiftl (B3 0 s2) 4)) by by_check2 s1 s2 H1 H2.
  assert (W : b8 (N.shiftr (B4 s2 s3) 1) = b8 (N.shiftr (B4 s2 0) 1)) by by_check2 s2 s3 H2 H3.
  rewrite U, W. by_check1 s2 H2.
Qed.

Lemma y3_ok s2 s3 s4 : s2 < 256 -> s3 < 256 -> s4 < 256 ->
  b8 (N.lor (N.lor (N.shiftl (B4 s2 s3) 7) (N.shiftl (a5 (N.shiftr s3 2)) 2)) (N.shiftr (B6 s3 s4) 3)) = s3.
Proof.
  intros H2 H3 H4. rewrite !b8_lor.
  assert (U : b8 (N.shiftl (B4 s2 s3) 7) = b8 (N.shiftl (B4 0 s3) 7)) by by_check2 s2 s3 H2 H3.
  assert (W : b8 (N.shiftr (B6 s3 s4) 3) = b8 (N.shiftr (B6 s3 0) 3)) by by_check2 s3 s4 H3 H4.
  rewrite U, W. by_check1 s3 H3.
Qed.

Lemma zero_lt : 0 < 256. Proof. reflexivity. Qed.

Lemma pack_8 s0 s1 s2 s3 s4 : s0 < 256 -> s1 < 256 -> s2 < 256 -> s3 < 256 -> s4 < 256 ->
  b32_pack (b32_blocks s0 s1 s2 s3 s4) 8 = [s0; s1; s2; s3; s4].
Proof.
  intros. unfold b32_pack, b32_blocks, d_at. cbn [nth].
  rewrite y0_ok, y1_ok, y2_ok, y3_ok, y4_ok by assumption. reflexivity.
Qed.

Lemma pack_7 s0 s1 s2 s3 : s0 < 256 -> s1 < 256 -> s2 < 256 -> s3 < 256 ->
  b32_pack (firstn 7 (b32_blocks s0 s1 s2 s3 0)) 7 = [s0; s1; s2; s3].
Proof.
  intros. unfold b32_pack, b32_blocks, d_at. cbn [nth firstn].
  rewrite y0_ok, y1_ok, y2_ok, y3_ok by (assumption || exact zero_lt). reflexivity.
Qed.

Lemma pack_5 s0 s1 s2 : s0 < 256 -> s1 < 256 -> s2 < 256 ->
  b32_pack (firstn 5 (b32_blocks s0 s1 s2 0 0)) 5 = [s0; s1; s2].
Proof.
  intros. unfold b32_pack, b32_blocks, d_at. cbn [nth firstn].
  rewrite y0_ok, y1_ok, y2_ok by (assumption || exact zero_lt). reflexivity.
Qed.

Lemma pack_4 s0 s1 : s0 < 256 -> s1 < 256 ->
  b32_pack (firstn 4 (b32_blocks s0 s1 0 0 0)) 4 = [s0; s1].
Proof.
  intros. unfold b32_pack, b32_blocks, d_at. cbn [nth firstn].
  rewrite y0_ok, y1_ok by (assumption || exact zero_lt). reflexivity.
Qed.

Lemma pack_2 s0 : s0 < 256 ->
  b32_pack (firstn 2 (b32_blocks s0 0 0 0 0)) 2 = [s0].
Proof.
  intros. unfold b32_pack, b32_blocks, d_at. cbn [nth firstn].
  rewrite y0_ok by (assumption || exact zero_lt). reflexivity.
Qed.

(* the eight blocks are 5-bit values *)
Lemma lor_lt a b n : a < 2 ^ n -> b < 2 ^ n -> N.lor a b < 2 ^ n.
Proof.
  rewrite !lt_pow2_shiftr. intros Ha Hb. rewrite N.shiftr_lor, Ha, Hb. reflexivity.
Qed.

Lemma a5_lt x : a5 x < 32.
Proof. apply land31_lt. Qed.

Lemma shr_lt x k m : x < 256 -> 256 <= m * 2 ^ k -> N.shiftr x k < m.
Proof.
  intros Hx Hm. rewrite N.shiftr_div_pow2. apply N.div_lt_upper_bound; [apply N.pow_nonzero; discriminate | lia].
Qed.

Lemma blocks_lt s0 s1 s2 s3 s4 : s0 < 256 -> s1 < 256 -> s2 < 256 -> s3 < 256 -> s4 < 256 ->
  all_lt 32 (b32_blocks s0 s1 s2 s3 s4).
Proof.
  intros H0 H1 H2 H3 H4. unfold b32_blocks, all_lt.
  assert (L : forall a b, a < 32 -> b < 32 -> N.lor a b < 32) by (intros a b; apply (lor_lt a b 5)).
  repeat constructor; try apply a5_lt; try (apply L; try apply a5_lt).
  - apply shr_lt; [assumption | cbn; lia].
  - eapply N.lt_le_trans; [apply (shr_lt s3 7 2); [assumption | cbn; lia] | lia].
  - eapply N.lt_le_trans; [apply (shr_lt s4 5 8); [assumption | cbn; lia] | lia].
Qed.

(* ---- the decoder on an encoded string ---- *)
Definition alpha_ok (alpha : str) (b : N) : bool :=
  let c := alpha_at alpha b in
  (b32_dmap alpha c =? b) && negb (c =? padc) && negb (c =? 10) && negb (c =? 13).

Section Alpha.
  Variable alpha : str.
  Hypothesis Halpha : forallN 32 (alpha_ok alpha) = true.

  Lemma alpha_facts b : b < 32 ->
    b32_dmap alpha (alpha_at alpha b) = b /\ alpha_at alpha b <> padc /\
    alpha_at alpha b <> 10 /\ alpha_at alpha b <> 13.
  Proof.
    intros Hb. pose proof (forallN_spec _ _ Halpha b Hb) as H. unfold alpha_ok in H.
    repeat (apply andb_prop in H; destruct H as [H ?]).
    apply N.eqb_eq in H.
    repeat match goal with X : negb (_ =? _) = true |- _ => apply negb_true_iff in X; apply N.eqb_neq in X end.
    repeat split; assumption.
  Qed.

  Lemma read_prefix : forall ds k j dbuf rest, all_lt 32 ds -> (length ds <= k)%nat ->
    b32_read alpha k j dbuf (map (alpha_at alpha) ds ++ rest) =
    b32_read alpha (k - length ds) (j + length ds) (dbuf ++ ds) rest.
  Proof.
    induction ds as [|d ds IH]; intros k j dbuf rest Hd Hk.
    - cbn [map app length]. rewrite Nat.sub_0_r, Nat.add_0_r, app_nil_r. reflexivity.
    - inversion Hd; subst. cbn [length] in Hk. destruct k as [|k]; [lia|].
      cbn [map app b32_read].
      destruct (alpha_facts d H1) as (E1 & E2 & _).
      replace (alpha_at alpha d =? padc) with false by (symmetry; apply N.eqb_neq; exact E2).
      cbn [andb]. rewrite E1.
      replace (d =? 255) with false by (symmetry; apply N.eqb_neq; lia).
      rewrite IH by (assumption || lia). cbn [length].
      rewrite <- app_assoc. cbn [app]. f_equal; lia.
  Qed.

  Lemma read_full ds rest : all_lt 32 ds -> length ds = 8%nat ->
    b32_read alpha 8 0 [] (map (alpha_at alpha) ds ++ rest) = QOk ds 8 false rest.
  Proof.
    intros Hd L. rewrite read_prefix by (assumption || lia). rewrite L. reflexivity.
  Qed.

  Lemma read_partial ds j : all_lt 32 ds -> length ds = j -> (j = 2 \/ j = 4 \/ j = 5 \/ j = 7)%nat ->
    b32_read alpha 8 0 [] (map (alpha_at alpha) ds ++ repeat padc (8 - j)) = QOk ds j true (repeat padc (7 - j)).
  Proof.
    intros Hd L Hj. rewrite read_prefix by (assumption || lia). cbn [app Nat.add].
    destruct Hj as [E|[E|[E|E]]]; rewrite E in L |- *; rewrite L; reflexivity.
  Qed.

  Lemma quantum_full s0 s1 s2 s3 s4 :
    b32_quantum alpha 5 s0 s1 s2 s3 s4 = map (alpha_at alpha) (b32_blocks s0 s1 s2 s3 s4).
  Proof. reflexivity. Qed.

  Lemma loop_unfold fuel cap src : src <> [] ->
    b32_loop alpha (S fuel) cap src =
    match b32_read alpha 8 0 [] src with
    | QErr => Err EInvalid
    | QOk dbuf dlen endp rest =>
      let bytes := b32_pack dbuf dlen in
      if (cap <? length bytes)%nat then Panic IndexOOR else
      if endp then Ok bytes
      else if (cap <? 5)%nat then Panic IndexOOR
      else match b32_loop alpha fuel (cap - 5) rest with
           | Ok r => Ok (bytes ++ r)
           | Err e => Err e
           | Panic p => Panic p
           end
    end.
  Proof. destruct src; [congruence | reflexivity]. Qed.

  Lemma firstn_blocks_lt j s0 s1 s2 s3 s4 :
    s0 < 256 -> s1 < 256 -> s2 < 256 -> s3 < 256 -> s4 < 256 ->
    all_lt 32 (firstn j (b32_blocks s0 s1 s2 s3 s4)).
  Proof.
    intros. pose proof (blocks_lt s0 s1 s2 s3 s4) as B. unfold all_lt in *.
    apply Forall_forall. intros x Hx. rewrite Forall_forall in B. apply B; try assumption.
    rewrite <- (firstn_skipn j (b32_blocks s0 s1 s2 s3 s4)). apply in_or_app. left. exact Hx.
  Qed.

  (* a final, padded quantum of j characters *)
  Lemma loop_partial fuel cap j s0 s1 s2 s3 bytes :
    s0 < 256 -> s1 < 256 -> s2 < 256 -> s3 < 256 ->
    (j = 2 \/ j = 4 \/ j = 5 \/ j = 7)%nat ->
    b32_pack (firstn j (b32_blocks s0 s1 s2 s3 0)) j = bytes -> (length bytes <= cap)%nat ->
    b32_loop alpha (S fuel) cap
      (map (alpha_at alpha) (firstn j (b32_blocks s0 s1 s2 s3 0)) ++ repeat padc (8 - j)) = Ok bytes.
  Proof.
    intros H0 H1 H2 H3 Hj Hp Hc. rewrite loop_unfold.
    2:{ destruct Hj as [E|[E|[E|E]]]; subst j; discriminate. }
    rewrite (read_partial _ j).
    - cbv zeta. rewrite Hp.
      replace (cap <? length bytes)%nat with false by (symmetry; apply Nat.ltb_ge; lia). reflexivity.
    - apply firstn_blocks_lt; (assumption || exact zero_lt).
    - destruct Hj as [E|[E|[E|E]]]; subst j; reflexivity.
    - exact Hj.
  Qed.

  Lemma loop_full fuel cap s0 s1 s2 s3 s4 rest :
    s0 < 256 -> s1 < 256 -> s2 < 256 -> s3 < 256 -> s4 < 256 -> (5 <= cap)%nat ->
    b32_loop alpha (S fuel) cap (map (alpha_at alpha) (b32_blocks s0 s1 s2 s3 s4) ++ rest) =
    match b32_loop alpha fuel (cap - 5) rest with
    | Ok r => Ok ([s0; s1; s2; s3; s4] ++ r)
    | Err e => Err e
    | Panic p => Panic p
    end.
  Proof.
    intros H0 H1 H2 H3 H4 Hc. rewrite loop_unfold by discriminate.
    rewrite read_full by (reflexivity || (apply blocks_lt; assumption)).
    cbv zeta. rewrite pack_8 by assumption. cbn [length].
    replace (cap <? 5)%nat with false by (symmetry; apply Nat.ltb_ge; lia). reflexivity.
  Qed.

  Lemma quantum_partial k j s0 s1 s2 s3 :
    (k = 1 /\ j = 2 \/ k = 2 /\ j = 4 \/ k = 3 /\ j = 5 \/ k = 4 /\ j = 7)%nat ->
    b32_quantum alpha k s0 s1 s2 s3 0 =
    map (alpha_at alpha) (firstn j (b32_blocks s0 s1 s2 s3 0)) ++ repeat padc (8 - j).
  Proof.
    intros [[? ?]|[[? ?]|[[? ?]|[? ?]]]]; subst k j; unfold b32_quantum; rewrite firstn_map; reflexivity.
  Qed.

  Lemma quantum_length k s0 s1 s2 s3 s4 : length (b32_quantum alpha k s0 s1 s2 s3 s4) = 8%nat.
  Proof. destruct k as [|[|[|[|[|k]]]]]; reflexivity. Qed.

  Lemma loop_encoded : forall n bs, (length bs <= n)%nat -> all_lt 256 bs ->
    forall fuel cap, (length bs < fuel)%nat -> (length bs <= cap)%nat ->
    b32_loop alpha fuel cap (b32_encode alpha bs) = Ok bs.
  Proof.
    induction n as [|n IH]; intros bs Hn Hb fuel cap Hf Hc.
    - destruct bs; [|cbn in Hn; lia]. destruct fuel; reflexivity.
    - destruct fuel as [|fuel]; [lia|].
      destruct bs as [|s0 [|s1 [|s2 [|s3 [|s4 rest]]]]]; unfold all_lt in Hb.
      + reflexivity.
      + inversion Hb; subst. cbn [b32_encode]. rewrite (quantum_partial 1 2) by tauto.
        apply loop_partial; first [assumption | exact zero_lt | tauto | (apply pack_2; assumption) | (apply pack_4; assumption) | (apply pack_5; assumption) | (apply pack_7; assumption)].
      + inversion Hb as [|? ? ? Hb1]; subst. inversion Hb1; subst.
        cbn [b32_encode]. rewrite (quantum_partial 2 4) by tauto.
        apply loop_partial; first [assumption | exact zero_lt | tauto | (apply pack_2; assumption) | (apply pack_4; assumption) | (apply pack_5; assumption) | (apply pack_7; assumption)].
      + inversion Hb as [|? ? ? Hb1]; subst. inversion Hb1 as [|? ? ? Hb2]; subst. inversion Hb2; subst.
        cbn [b32_encode]. rewrite (quantum_partial 3 5) by tauto.
        apply loop_partial; first [assumption | exact zero_lt | tauto | (apply pack_2; assumption) | (apply pack_4; assumption) | (apply pack_5; assumption) | (apply pack_7; assumption)].
      + inversion Hb as [|? ? ? Hb1]; subst. inversion Hb1 as [|? ? ? Hb2]; subst.
        inversion Hb2 as [|? ? ? Hb3]; subst. inversion Hb3; subst.
        cbn [b32_encode]. rewrite (quantum_partial 4 7) by tauto.
        apply loop_partial; first [assumption | exact zero_lt | tauto | (apply pack_2; assumption) | (apply pack_4; assumption) | (apply pack_5; assumption) | (apply pack_7; assumption)].
      + inversion Hb as [|? ? ? Hb1]; subst. inversion Hb1 as [|? ? ? Hb2]; subst.
        inversion Hb2 as [|? ? ? Hb3]; subst. inversion Hb3 as [|? ? ? Hb4]; subst. inversion Hb4; subst.
        cbn [length] in *.
        change (b32_encode alpha (s0 :: s1 :: s2 :: s3 :: s4 :: rest))
          with (b32_quantum alpha 5 s0 s1 s2 s3 s4 ++ b32_encode alpha rest).
        rewrite quantum_full, loop_full by (assumption || lia).
        rewrite IH by (assumption || lia). reflexivity.
  Qed.

  Lemma encode_cap : forall n bs, (length bs <= n)%nat ->
    (length bs <= length (b32_encode alpha bs) / 8 * 5)%nat.
  Proof.
    induction n as [|n IH]; intros bs Hn.
    - destruct bs; [cbn; lia | cbn in Hn; lia].
    - destruct bs as [|s0 [|s1 [|s2 [|s3 [|s4 rest]]]]];
        [cbn; lia | | | | |];
        try (cbn [b32_encode]; rewrite quantum_length; cbn; lia).
      change (b32_encode alpha (s0 :: s1 :: s2 :: s3 :: s4 :: rest))
        with (b32_quantum alpha 5 s0 s1 s2 s3 s4 ++ b32_encode alpha rest).
      rewrite app_length, quantum_length. cbn [length] in *.
      replace (8 + length (b32_encode alpha rest))%nat with (1 * 8 + length (b32_encode alpha rest))%nat by lia.
      rewrite Nat.div_add_l by lia. specialize (IH rest ltac:(lia)). lia.
  Qed.

  Definition no_nl (c : N) : bool := negb ((c =? 10) || (c =? 13)).

  Lemma quantum_no_nl k s0 s1 s2 s3 s4 :
    s0 < 256 -> s1 < 256 -> s2 < 256 -> s3 < 256 -> s4 < 256 ->
    forallb no_nl (b32_quantum alpha k s0 s1 s2 s3 s4) = true.
  Proof.
    intros H0 H1 H2 H3 H4.
    assert (C : forall l, all_lt 32 l -> forallb no_nl (map (alpha_at alpha) l) = true).
    { induction 1 as [|b l Hb Hl IHl]; cbn [map forallb]; [reflexivity|].
      destruct (alpha_facts b Hb) as (_ & _ & E10 & E13). unfold no_nl at 1.
      apply N.eqb_neq in E10, E13. rewrite E10, E13, IHl. reflexivity. }
    unfold b32_quantum.
    destruct k as [|[|[|[|[|k]]]]]; rewrite ?firstn_map, ?forallb_app, ?C;
      try reflexivity; try (apply firstn_blocks_lt; assumption); apply blocks_lt; assumption.
  Qed.

  Lemma encode_no_nl : forall n bs, (length bs <= n)%nat -> all_lt 256 bs ->
    forallb no_nl (b32_encode alpha bs) = true.
  Proof.
    induction n as [|n IH]; intros bs Hn Hb.
    - destruct bs; [reflexivity | cbn in Hn; lia].
    - unfold all_lt in Hb.
      destruct bs as [|s0 [|s1 [|s2 [|s3 [|s4 rest]]]]]; [reflexivity| | | | |];
        repeat match goal with H : Forall _ (_ :: _) |- _ => inversion H; clear H; subst end;
        try (cbn [b32_encode]; apply quantum_no_nl; assumption || exact zero_lt).
      change (b32_encode alpha (s0 :: s1 :: s2 :: s3 :: s4 :: rest))
        with (b32_quantum alpha 5 s0 s1 s2 s3 s4 ++ b32_encode alpha rest).
      rewrite forallb_app, quantum_no_nl by assumption. cbn [length] in Hn. apply IH; [lia | assumption].
  Qed.

  Lemma filter_all {A} (f : A -> bool) l : forallb f l = true -> filter f l = l.
  Proof.
    induction l as [|x l IH]; cbn; [reflexivity|]. intros H. apply andb_prop in H. destruct H as [H1 H2].
    rewrite H1, IH by assumption. reflexivity.
  Qed.

  Theorem b32_roundtrip_alpha bs : all_lt 256 bs -> b32_decode alpha (b32_encode alpha bs) = Ok bs.
  Proof.
    intros Hb. unfold b32_decode, strip_nl.
    change (fun c : N => negb ((c =? 10) || (c =? 13))) with no_nl.
    rewrite (filter_all no_nl) by (apply (encode_no_nl (length bs)); [lia | exact Hb]).
    apply (loop_encoded (length bs)); [lia | exact Hb | | apply (encode_cap (length bs)); lia].
    pose proof (encode_cap (length bs) bs ltac:(lia)) as Hc.
    assert (length (b32_encode alpha bs) / 8 * 5 <= length (b32_encode alpha bs))%nat.
    { pose proof (Nat.div_mod (length (b32_encode alpha bs)) 8 ltac:(lia)). lia. }
    lia.
  Qed.
End Alpha.

Theorem b32_roundtrip_std bs : all_lt 256 bs -> b32_decode alpha_std (b32_encode alpha_std bs) = Ok bs.
Proof. apply b32_roundtrip_alpha. vm_compute. reflexivity. Qed.

Theorem b32_roundtrip_hex bs : all_lt 256 bs -> b32_decode alpha_hex (b32_encode alpha_hex bs) = Ok bs.
Proof. apply b32_roundtrip_alpha. vm_compute. reflexivity. Qed.

(* ---- the decoder is total: no panic, no fuel exhaustion, for any string and alphabet ---- *)
Lemma read_spec alpha : forall k j dbuf src d dl e rest, (j + k = 8)%nat ->
  b32_read alpha k j dbuf src = QOk d dl e rest ->
  (e = false /\ dl = 8%nat /\ length src = (length rest + k)%nat) \/
  (e = true /\ (dl <= 7)%nat /\ (8 <= length src + j)%nat).
Proof.
  induction k as [|k IH]; intros j dbuf src d dl e rest Hjk H.
  - cbn in H. inversion H; subst. left. repeat split. lia.
  - cbn [b32_read] in H. destruct src as [|c src']; [discriminate|].
    destruct ((c =? padc) && (2 <=? j)%nat && (length src' <? 8)%nat).
    + destruct (length src' + j <? 7)%nat eqn:E1; [discriminate|].
      destruct (negb (pad_ok (7 - j) src')); [discriminate|].
      destruct ((j =? 1)%nat || (j =? 3)%nat || (j =? 6)%nat); [discriminate|].
      inversion H; subst. apply Nat.ltb_ge in E1. right. cbn [length]. repeat split; lia.
    + destruct (b32_dmap alpha c =? 255); [discriminate|].
      apply IH in H; [|lia]. cbn [length]. destruct H as [(? & ? & ?)|(? & ? & ?)]; [left | right]; repeat split; (assumption || lia).
Qed.

Lemma pack_length dbuf dl : (dl <= 7)%nat -> (length (b32_pack dbuf dl) <= 4)%nat.
Proof.
  intros H. unfold b32_pack.
  destruct dl as [|[|[|[|[|[|[|[|dl]]]]]]]]; cbn [length]; lia.
Qed.

Lemma pack_length_8 dbuf : length (b32_pack dbuf 8) = 5%nat.
Proof. reflexivity. Qed.

Lemma b32_loop_total alpha : forall fuel cap src,
  (length src < fuel)%nat -> (length src / 8 * 5 <= cap)%nat ->
  match b32_loop alpha fuel cap src with
  | Panic _ => False
  | Err EFuel => False
  | _ => True
  end.
Proof.
  induction fuel as [|fuel IH]; intros cap src Hf Hc; [lia|].
  destruct src as [|c0 src0]; [exact I|].
  set (src := c0 :: src0) in *.
  change (b32_loop alpha (S fuel) cap src) with
    (match b32_read alpha 8 0 [] src with
     | QErr => Err EInvalid
     | QOk dbuf dlen endp rest =>
       let bytes := b32_pack dbuf dlen in
       if (cap <? length bytes)%nat then Panic IndexOOR else
       if endp then Ok bytes
       else if (cap <? 5)%nat then Panic IndexOOR
       else match b32_loop alpha fuel (cap - 5) rest with
            | Ok r => Ok (bytes ++ r)
            | Err e => @Err terr (list N) e
            | Panic p => Panic p
            end
     end).
  destruct (b32_read alpha 8 0 [] src) as [|dbuf dl e rest] eqn:ER; [exact I|].
  apply read_spec in ER; [|reflexivity]. cbv zeta.
  destruct ER as [(He & Hdl & Hlen)|(He & Hdl & Hlen)]; subst e.
  - subst dl. rewrite pack_length_8.
    assert (H8 : (length src / 8 = 1 + length rest / 8)%nat).
    { rewrite Hlen. replace (length rest + 8)%nat with (1 * 8 + length rest)%nat by lia.
      apply Nat.div_add_l. lia. }
    replace (cap <? 5)%nat with false by (symmetry; apply Nat.ltb_ge; lia).
    specialize (IH (cap - 5)%nat rest ltac:(lia) ltac:(lia)).
    destruct (b32_loop alpha fuel (cap - 5) rest) as [r|[]|p]; try exact I; contradiction.
  - pose proof (pack_length dbuf dl Hdl) as HL.
    assert (H8 : (1 <= length src / 8)%nat).
    { apply Nat.div_le_lower_bound; lia. }
    replace (cap <? length (b32_pack dbuf dl))%nat with false by (symmetry; apply Nat.ltb_ge; lia).
    exact I.
Qed.

Theorem b32_decode_total alpha s :
  match b32_decode alpha s with
  | Panic _ => False
  | Err EFuel => False
  | _ => True
  end.
Proof. unfold b32_decode. apply b32_loop_total; lia. Qed.
