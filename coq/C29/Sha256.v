(* SHA-256 (FIPS 180-4), executable; used only to run the mnemonic model on the
   correspondence cases (the theorems treat the hash as a Section variable).
   Checked against the standard test vectors below and against Go's
   crypto/sha256 on every run of the harness. *)
From Coq Require Import List Arith NArith Bool.
Import ListNotations.
Open Scope N_scope.

Definition m32 : N := 0xffffffff.
Definition add32 (a b : N) : N := N.land (a + b) m32.
Definition rotr (x n : N) : N := N.lor (N.shiftr x n) (N.land (N.shiftl x (32 - n)) m32).
Definition not32 (x : N) : N := N.lxor x m32.

Definition K256 : list N :=
 [0x428a2f98; 0x71374491; 0xb5c0fbcf; 0xe9b5dba5; 0x3956c25b; 0x59f111f1; 0x923f82a4; 0xab1c5ed5;
  0xd807aa98; 0x12835b01; 0x243185be; 0x550c7dc3; 0x72be5d74; 0x80deb1fe; 0x9bdc06a7; 0xc19bf174;
  0xe49b69c1; 0xefbe4786; 0x0fc19dc6; 0x240ca1cc; 0x2de92c6f; 0x4a7484aa; 0x5cb0a9dc; 0x76f988da;
  0x983e5152; 0xa831c66d; 0xb00327c8; 0xbf597fc7; 0xc6e00bf3; 0xd5a79147; 0x06ca6351; 0x14292967;
  0x27b70a85; 0x2e1b2138; 0x4d2c6dfc; 0x53380d13; 0x650a7354; 0x766a0abb; 0x81c2c92e; 0x92722c85;
  0xa2bfe8a1; 0xa81a664b; 0xc24b8b70; 0xc76c51a3; 0xd192e819; 0xd6990624; 0xf40e3585; 0x106aa070;
  0x19a4c116; 0x1e376c08; 0x2748774c; 0x34b0bcb5; 0x391c0cb3; 0x4ed8aa4a; 0x5b9cca4f; 0x682e6ff3;
  0x748f82ee; 0x78a5636f; 0x84c87814; 0x8cc70208; 0x90befffa; 0xa4506ceb; 0xbef9a3f7; 0xc67178f2].

Definition H256 : list N :=
 [0x6a09e667; 0xbb67ae85; 0x3c6ef372; 0xa54ff53a; 0x510e527f; 0x9b05688c; 0x1f83d9ab; 0x5be0cd19].

Definition ssig0 x := N.lxor (N.lxor (rotr x 7) (rotr x 18)) (N.shiftr x 3).
Definition ssig1 x := N.lxor (N.lxor (rotr x 17) (rotr x 19)) (N.shiftr x 10).
Definition bsig0 x := N.lxor (N.lxor (rotr x 2) (rotr x 13)) (rotr x 22).
Definition bsig1 x := N.lxor (N.lxor (rotr x 6) (rotr x 11)) (rotr x 25).
Definition ch x y z := N.lxor (N.land x y) (N.land (not32 x) z).
Definition maj x y z := N.lxor (N.lxor (N.land x y) (N.land x z)) (N.land y z).

(* big-endian 32-bit words of a 64-byte block *)
Fixpoint words32 (bs : list N) : list N :=
  match bs with
  | a :: b :: c :: d :: t => (((a * 256 + b) * 256 + c) * 256 + d) :: words32 t
  | _ => []
  end.

(* [rw] = schedule so far, most recent first *)
Fixpoint extend (cnt : nat) (rw : list N) : list N :=
  match cnt with
  | O => rw
  | S c =>
    let w := add32 (add32 (ssig1 (nth 1 rw 0)) (nth 6 rw 0)) (add32 (ssig0 (nth 14 rw 0)) (nth 15 rw 0)) in
    extend c (w :: rw)
  end.

Definition round256 (st : list N) (kw : N * N) : list N :=
  match st with
  | [a; b; c; d; e; f; g; h] =>
    let t1 := add32 (add32 (add32 h (bsig1 e)) (add32 (ch e f g) (fst kw))) (snd kw) in
    let t2 := add32 (bsig0 a) (maj a b c) in
    [add32 t1 t2; a; b; c; add32 d t1; e; f; g]
  | _ => st
  end.

Fixpoint add_all (a b : list N) : list N :=
  match a, b with
  | x :: a', y :: b' => add32 x y :: add_all a' b'
  | _, _ => []
  end.

Definition compress (st : list N) (block : list N) : list N :=
  let w := rev (extend 48 (rev (words32 block))) in
  add_all st (fold_left round256 (combine K256 w) st).

Fixpoint be_bytes (k : nat) (x : N) : list N :=
  match k with
  | O => []
  | S k' => be_bytes k' (x / 256) ++ [x mod 256]
  end.

Definition sha_pad (len : nat) : list N :=
  [128] ++ repeat 0 ((119 - len mod 64) mod 64)%nat ++ be_bytes 8 (N.of_nat len * 8).

Fixpoint blocks (fuel : nat) (st : list N) (bs : list N) : list N :=
  match fuel with
  | O => st
  | S f => match bs with
           | [] => st
           | _ => blocks f (compress st (firstn 64 bs)) (skipn 64 bs)
           end
  end.

Definition sha256 (msg : list N) : list N :=
  let m := msg ++ sha_pad (length msg) in
  flat_map (be_bytes 4) (blocks (S (length m / 64)) H256 m).

Definition sha256_first (msg : list N) : N := hd 0 (sha256 msg).

(* "" -> e3b0c442..., "abc" -> ba7816bf... *)
Example sha256_empty : firstn 4 (sha256 []) = [0xe3; 0xb0; 0xc4; 0x42].
Proof. vm_compute. reflexivity. Qed.
Example sha256_abc : firstn 4 (sha256 [97; 98; 99]) = [0xba; 0x78; 0x16; 0xbf].
Proof. vm_compute. reflexivity. Qed.
(* 56 bytes: two blocks; "abcdbcdecdefdefgefghfghighijhijkijkljklmklmnlmnomnopnopq" -> 248d6a61 *)
Example sha256_two_blocks :
  firstn 4 (sha256 [97;98;99;100;98;99;100;101;99;100;101;102;100;101;102;103;101;102;103;104;102;103;104;105;
                    103;104;105;106;104;105;106;107;105;106;107;108;106;107;108;109;107;108;109;110;108;109;110;111;
                    109;110;111;112;110;111;112;113]) = [0x24; 0x8d; 0x6a; 0x61].
Proof. vm_compute. reflexivity. Qed.
