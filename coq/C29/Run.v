(* C29 — helpers for the correspondence case files: every model result is
   projected to an observation [O tag items] (result class + canonical byte
   strings), the same projection the Go harness applies to the implementation. *)
From Coq Require Import List Arith NArith Bool.
From Verif Require Import Outcome Cmp.
From C29 Require Import Model Sha256.
Import ListNotations.
Open Scope N_scope.

Inductive obs := O (tag : N) (items : list (list N)).

Definition obs_eqb (x y : obs) : bool :=
  match x, y with
  | O t1 i1, O t2 i2 => (t1 =? t2) && list_eqb (list_eqb N.eqb) i1 i2
  end.

Definition err_tag (e : terr) : N :=
  match e with
  | EInvalid => 1 | EUnknownType => 2 | EWitnessVer => 3 | EProgLen => 4 | EFuel => 8
  end.

Definition proj {A} (f : A -> list (list N)) (r : res A) : obs :=
  match r with
  | Ok a => O 0 (f a)
  | Err e => O (err_tag e) []
  | Panic _ => O 9 []
  end.

(* tag only, errors collapsed to 1 (functions whose error values are not exported) *)
Definition coarse (o : obs) : obs :=
  match o with
  | O 0 i => O 0 i
  | O 9 i => O 9 i
  | O 8 i => O 8 i
  | O _ i => O 1 i
  end.

Definition r_bech32_decode (s : str) : obs :=
  coarse (proj (fun p => [fst p; snd p]) (bech32_decode s)).
Definition r_bech32_encode (hrp : str) (data : list N) : obs :=
  coarse (proj (fun s => [s]) (bech32_encode hrp data)).
Definition r_convert (data : list N) (f t : N) (pad : bool) : obs :=
  coarse (proj (fun s => [s]) (convert_bits data f t pad)).
Definition r_decode_segwit (s : str) : obs :=
  coarse (proj (fun p => [[fst p]; snd p]) (decode_segwit s)).
Definition r_encode_segwit (hrp : str) (v : N) (p : list N) : obs :=
  coarse (proj (fun s => [s]) (encode_segwit hrp v p)).
Definition r_decode_address (nethrp : str) (s : str) : obs :=
  proj (fun p => [fst p; snd p]) (decode_address nethrp s).
Definition r_encode_address (nethrp : str) (p : list N) : obs :=
  coarse (proj (fun s => [s]) (encode_address nethrp p)).

Definition tag_of (o : obs) : N := match o with O t _ => t end.

(* all substitutions of position i by the characters cs, decoded on network nethrp:
   the list of result tags *)
Definition r_subst_all (nethrp : str) (addr : str) (i : nat) (cs : list N) : obs :=
  O 0 [map (fun c => tag_of (r_decode_address nethrp (subst addr i c))) cs].

Definition r_polymod (vs : list N) : obs := O 0 [[polymod vs]].
Definition r_checksum (hrp : str) (data : list N) : obs := O 0 [checksum hrp data].
Definition r_hrp_expand (hrp : str) : obs := O 0 [hrp_expand hrp].
Definition r_net_hrps : obs := O 0 [net_hrp MainNet; net_hrp TestNet; net_hrp SoloNet].

Definition r_b32_encode (alpha : str) (bs : list N) : obs := O 0 [b32_encode alpha bs].
Definition r_b32_decode (alpha : str) (s : str) : obs :=
  coarse (proj (fun b => [b]) (b32_decode alpha s)).

(* mnemonic: words are represented by their index in the word list; a word
   that is not in the list is any number >= 2048 *)
Definition widx (w : N) : option N := if w <? 2048 then Some w else None.
Definition r_new_mnemonic (entropy : list N) : obs :=
  coarse (proj (fun ws => [ws]) (new_mnemonic N (fun i => i) sha256_first entropy)).
Definition r_entropy_from (ws : list N) : obs :=
  coarse (proj (fun e => [e]) (entropy_from_mnemonic N widx sha256_first ws)).
Definition r_sha256 (bs : list N) : obs := O 0 [sha256 bs].
