(* C29 — ConvertBits: the regrouping loop preserves the bit stream; 8->5 (pad)
   followed by 5->8 (no pad) is the identity for every length. *)
From Coq Require Import List Arith NArith Bool Lia.
From Verif Require Import Outcome Cmp.
From C29 Require Import Model.
Import ListNotations.
Open Scope N_scope.

(* ---- finite checks lifted to quantified statements ---- *)
Definition forallN (n : N) (P : N -> bool) : bool :=
  forallb P (map N.of_nat (seq 0 (N.to_nat n))).

Lemma forallN_spec n P : forallN n P = true -> forall x, x < n -> P x = true.
Proof.
  unfold forallN. intros H x Hx. rewrite forallb_forall in H. apply H.
  apply in_map_iff. exists (N.to_nat x). split; [apply N2Nat.id|].
  apply in_seq. lia.
Qed.

(* ---- bit lists, most significant bit first ---- *)
Fixpoint bits_of (w : nat) (x : N) : list bool :=
  match w with
  | O => []
  | S w' => N.testbit x (N.of_nat w') :: bits_of w' x
  end.

Definition flat (w : nat) (l : list N) : list bool := flat_map (bits_of w) l.

Lemma bits_of_length w x : length (bits_of w x) = w.
Proof. induction w; cbn; congruence. Qed.

Lemma flat_length w l : length (flat w l) = (w * length l)%nat.
Proof.
  induction l as [|x l IH]; cbn; [lia|].
  rewrite app_length, bits_of_length. unfold flat in IH. rewrite IH. lia.
Qed.

Lemma flat_app w a b : flat w (a ++ b) = flat w a ++ flat w b.
Proof. unfold flat. apply flat_map_app. Qed.

Fixpoint of_bits (bs : list bool) (acc : N) : N :=
  match bs with
  | [] => acc
  | b :: t => of_bits t (2 * acc + (if b then 1 else 0))
  end.

Definition bool_list_eqb : list bool -> list bool -> bool := list_eqb Bool.eqb.
Lemma bool_list_eqb_eq a b : bool_list_eqb a b = true <-> a = b.
Proof. apply list_eqb_eq. intros x y. destruct x, y; cbn; split; congruence. Qed.

Lemma of_bits_8 : forall x, x < 256 -> of_bits (bits_of 8 x) 0 = x.
Proof.
  assert (H : forallN 256 (fun x => of_bits (bits_of 8 x) 0 =? x) = true) by (vm_compute; reflexivity).
  intros x Hx. apply N.eqb_eq. exact (forallN_spec _ _ H x Hx).
Qed.

Lemma bits8_inj x y : x < 256 -> y < 256 -> bits_of 8 x = bits_of 8 y -> x = y.
Proof. intros Hx Hy E. rewrite <- (of_bits_8 x Hx), <- (of_bits_8 y Hy), E. reflexivity. Qed.

Lemma app_inv_length {A} (a b c d : list A) :
  length a = length c -> a ++ b = c ++ d -> a = c /\ b = d.
Proof.
  revert c; induction a as [|x a IH]; intros [|y c] L E; cbn in *; try discriminate.
  - split; [reflexivity | exact E].
  - inversion E; subst. destruct (IH c) as [E1 E2]; [lia | assumption |]. subst. split; reflexivity.
Qed.

Lemma flat8_inj a b :
  Forall (fun x => x < 256) a -> Forall (fun x => x < 256) b -> flat 8 a = flat 8 b -> a = b.
Proof.
  intros Ha; revert b; induction Ha as [|x a Hx Ha IH]; intros b Hb E.
  - destruct b as [|y b]; [reflexivity|]. apply (f_equal (@length bool)) in E.
    rewrite !flat_length in E. cbn in E. lia.
  - destruct b as [|y b].
    + apply (f_equal (@length bool)) in E. rewrite !flat_length in E. cbn in E. lia.
    + inversion Hb; subst. change (bits_of 8 x ++ flat 8 a = bits_of 8 y ++ flat 8 b) in E.
      apply app_inv_length in E; [|rewrite !bits_of_length; reflexivity].
      destruct E as [E1 E2]. f_equal; [apply bits8_inj; assumption | apply IH; assumption].
Qed.

(* ---- the loop preserves the bit stream, given the step property ---- *)
Definition all_lt (k : N) (l : list N) : Prop := Forall (fun y => y < k) l.

Definition step_prop (from to : N) (nb fb x : N) : Prop :=
  match cb_step from to nb fb x with
  | Some (nb', fb', em) =>
      fb' < to /\ nb' < 2 ^ fb' /\ all_lt (2 ^ to) em /\
      flat (N.to_nat to) em ++ bits_of (N.to_nat fb') nb' =
        bits_of (N.to_nat fb) nb ++ bits_of (N.to_nat from) x
  | None => False
  end.

Section Loop.
  Variables from to : N.
  Hypothesis Hstep : forall nb fb x, fb < to -> nb < 2 ^ fb -> x < 2 ^ from -> step_prop from to nb fb x.

  Lemma cb_loop_spec : forall data nb fb,
    all_lt (2 ^ from) data -> fb < to -> nb < 2 ^ fb ->
    exists nb' fb' out,
      cb_loop from to data nb fb = Some (nb', fb', out) /\
      fb' < to /\ nb' < 2 ^ fb' /\ all_lt (2 ^ to) out /\
      flat (N.to_nat to) out ++ bits_of (N.to_nat fb') nb' =
        bits_of (N.to_nat fb) nb ++ flat (N.to_nat from) data.
  Proof.
    induction data as [|x data IH]; intros nb fb Hd Hfb Hnb.
    - exists nb, fb, []. cbn. repeat split; try assumption. constructor. rewrite app_nil_r. reflexivity.
    - inversion Hd; subst.
      pose proof (Hstep nb fb x Hfb Hnb H1) as Hs. unfold step_prop in Hs.
      cbn [cb_loop]. destruct (cb_step from to nb fb x) as [[[nb1 fb1] em]|]; [|contradiction].
      destruct Hs as (Hfb1 & Hnb1 & Hem & Hbits).
      destruct (IH nb1 fb1 H2 Hfb1 Hnb1) as (nb2 & fb2 & out & E & Hfb2 & Hnb2 & Hout & Hb2).
      rewrite E. exists nb2, fb2, (em ++ out). repeat split; try assumption.
      + apply Forall_app; split; assumption.
      + rewrite flat_app, <- app_assoc, Hb2, app_assoc, Hbits, <- app_assoc. reflexivity.
  Qed.
End Loop.

(* ---- the two step properties by exhaustive evaluation ---- *)
Definition step_ok (from to : N) (nb fb x : N) : bool :=
  match cb_step from to nb fb x with
  | Some (nb', fb', em) =>
      (fb' <? to) && (nb' <? 2 ^ fb') && forallb (fun y => y <? 2 ^ to) em &&
      bool_list_eqb (flat (N.to_nat to) em ++ bits_of (N.to_nat fb') nb')
                    (bits_of (N.to_nat fb) nb ++ bits_of (N.to_nat from) x)
  | None => false
  end.

Lemma step_ok_prop from to nb fb x : step_ok from to nb fb x = true -> step_prop from to nb fb x.
Proof.
  unfold step_ok, step_prop. destruct (cb_step from to nb fb x) as [[[nb' fb'] em]|]; [|discriminate].
  intros H. apply andb_prop in H. destruct H as [H H4]. apply andb_prop in H. destruct H as [H H3].
  apply andb_prop in H. destruct H as [H1 H2].
  apply N.ltb_lt in H1. apply N.ltb_lt in H2. apply bool_list_eqb_eq in H4.
  repeat split; try assumption.
  apply Forall_forall. intros y Hy. rewrite forallb_forall in H3. apply N.ltb_lt. apply H3. exact Hy.
Qed.

Definition steps_ok (from to : N) : bool :=
  forallN to (fun fb => forallN (2 ^ fb) (fun nb => forallN (2 ^ from) (fun x => step_ok from to nb fb x))).

Lemma steps_ok_prop from to : steps_ok from to = true ->
  forall nb fb x, fb < to -> nb < 2 ^ fb -> x < 2 ^ from -> step_prop from to nb fb x.
Proof.
  intros H nb fb x Hfb Hnb Hx. apply step_ok_prop.
  pose proof (forallN_spec _ _ H fb Hfb) as H1. cbv beta in H1.
  pose proof (forallN_spec _ _ H1 nb Hnb) as H2. cbv beta in H2.
  exact (forallN_spec _ _ H2 x Hx).
Qed.

Lemma steps_8_5 : steps_ok 8 5 = true.
Proof. vm_compute. reflexivity. Qed.
Lemma steps_5_8 : steps_ok 5 8 = true.
Proof. vm_compute. reflexivity. Qed.

(* padding of the last group, 8 -> 5 *)
Lemma pad_bits : forall fb nb, 0 < fb -> fb < 5 -> nb < 2 ^ fb ->
  b8 (N.shiftl nb (5 - fb)) < 32 /\
  bits_of 5 (b8 (N.shiftl nb (5 - fb))) = bits_of (N.to_nat fb) nb ++ repeat false (N.to_nat (5 - fb)).
Proof.
  assert (H : forallN 5 (fun fb => forallN (2 ^ fb) (fun nb =>
            (fb =? 0) || ((b8 (N.shiftl nb (5 - fb)) <? 32) &&
             bool_list_eqb (bits_of 5 (b8 (N.shiftl nb (5 - fb))))
                           (bits_of (N.to_nat fb) nb ++ repeat false (N.to_nat (5 - fb)))))) = true)
    by (vm_compute; reflexivity).
  intros fb nb H0 H5 Hnb.
  pose proof (forallN_spec _ _ H fb H5) as H1. cbv beta in H1.
  pose proof (forallN_spec _ _ H1 nb Hnb) as H2. cbv beta in H2.
  apply orb_prop in H2. destruct H2 as [H2|H2]; [apply N.eqb_eq in H2; lia|].
  apply andb_prop in H2. destruct H2 as [Ha Hb]. apply N.ltb_lt in Ha. apply bool_list_eqb_eq in Hb.
  split; assumption.
Qed.

(* an all-zero remainder is the number 0 *)
Lemma zero_bits : forall fb nb, fb < 8 -> nb < 2 ^ fb ->
  bits_of (N.to_nat fb) nb = repeat false (N.to_nat fb) -> nb = 0.
Proof.
  assert (H : forallN 8 (fun fb => forallN (2 ^ fb) (fun nb =>
            negb (bool_list_eqb (bits_of (N.to_nat fb) nb) (repeat false (N.to_nat fb))) || (nb =? 0))) = true)
    by (vm_compute; reflexivity).
  intros fb nb H8 Hnb E.
  pose proof (forallN_spec _ _ H fb H8) as H1. cbv beta in H1.
  pose proof (forallN_spec _ _ H1 nb Hnb) as H2. cbv beta in H2.
  apply orb_prop in H2. destruct H2 as [H2|H2]; [|apply N.eqb_eq; exact H2].
  apply bool_list_eqb_eq in E. rewrite E in H2. discriminate.
Qed.

(* ---- 8 -> 5 with padding ---- *)
Lemma convert_8_5 : forall data, all_lt 256 data ->
  exists out p, convert_bits data 8 5 true = Ok out /\ all_lt 32 out /\ (p < 5)%nat /\
    flat 5 out = flat 8 data ++ repeat false p.
Proof.
  intros data Hd.
  destruct (cb_loop_spec 8 5 (steps_ok_prop 8 5 steps_8_5) data 0 0) as (nb & fb & out & E & Hfb & Hnb & Hout & Hb);
    [exact Hd | lia | cbn; lia |].
  unfold convert_bits. cbn [N.ltb N.compare orb]. change ((8 <? 8) || (5 <? 1) || (8 <? 5)) with false.
  cbv iota. rewrite E. cbn [andb].
  change (N.to_nat 0) with 0%nat in Hb. change (N.to_nat 5) with 5%nat in Hb. change (N.to_nat 8) with 8%nat in Hb.
  cbn [bits_of app] in Hb.
  destruct (0 <? fb) eqn:E0.
  - apply N.ltb_lt in E0. destruct (pad_bits fb nb E0 Hfb Hnb) as [Hp1 Hp2].
    exists (out ++ [b8 (N.shiftl nb (5 - fb))]), (N.to_nat (5 - fb)). repeat split.
    + apply Forall_app. split; [exact Hout|]. constructor; [exact Hp1 | constructor].
    + lia.
    + rewrite flat_app. change (flat 5 [b8 (N.shiftl nb (5 - fb))]) with (bits_of 5 (b8 (N.shiftl nb (5 - fb))) ++ []).
      rewrite app_nil_r, Hp2, app_assoc, Hb. reflexivity.
  - apply N.ltb_ge in E0. assert (fb = 0) by lia. subst fb. exists out, 0%nat. repeat split; try assumption; [lia|].
    change (N.to_nat 0) with 0%nat in Hb. cbn [bits_of] in Hb. rewrite app_nil_r in *. exact Hb.
Qed.

(* ---- 5 -> 8 without padding, on a stream that is bytes followed by < 5 zero bits ---- *)
Lemma convert_5_8 : forall out5 data p, all_lt 32 out5 -> all_lt 256 data -> (p < 5)%nat ->
  flat 5 out5 = flat 8 data ++ repeat false p ->
  convert_bits out5 5 8 false = Ok data.
Proof.
  intros out5 data p H5 Hd Hp Hflat.
  destruct (cb_loop_spec 5 8 (steps_ok_prop 5 8 steps_5_8) out5 0 0) as (nb & fb & out & E & Hfb & Hnb & Hout & Hb);
    [exact H5 | lia | cbn; lia |].
  unfold convert_bits. change ((5 <? 1) || (8 <? 5) || (8 <? 1) || (8 <? 8)) with false.
  cbv iota. rewrite E. cbn [andb].
  change (N.to_nat 0) with 0%nat in Hb. change (N.to_nat 5) with 5%nat in Hb. change (N.to_nat 8) with 8%nat in Hb.
  cbn [bits_of app] in Hb.
  rewrite Hflat in Hb.
  assert (HL : (8 * length out + N.to_nat fb = 8 * length data + p)%nat).
  { apply (f_equal (@length bool)) in Hb. rewrite !app_length, !flat_length, bits_of_length, repeat_length in Hb. exact Hb. }
  assert (Hfbp : N.to_nat fb = p) by lia.
  assert (Hlen : length out = length data) by lia.
  apply app_inv_length in Hb; [|rewrite !flat_length; lia].
  destruct Hb as [Hb1 Hb2].
  assert (out = data) by (apply flat8_inj; assumption). subst out.
  rewrite <- Hfbp in Hb2. apply zero_bits in Hb2; [|exact Hfb|exact Hnb]. subst nb.
  assert (fb < 5) by lia.
  destruct (0 <? fb) eqn:E0; cbn [andb].
  - replace (4 <? fb) with false by (symmetry; apply N.ltb_ge; lia). cbn. reflexivity.
  - reflexivity.
Qed.

Theorem convert_bits_roundtrip : forall data, all_lt 256 data ->
  exists five, convert_bits data 8 5 true = Ok five /\ all_lt 32 five /\
               convert_bits five 5 8 false = Ok data.
Proof.
  intros data Hd. destruct (convert_8_5 data Hd) as (out & p & E & H32 & Hp & Hflat).
  exists out. repeat split; try assumption. eapply convert_5_8; eassumption.
Qed.

(* number of 5-bit groups *)
Lemma convert_8_5_length : forall data five, all_lt 256 data ->
  convert_bits data 8 5 true = Ok five -> length five = ((8 * length data + 4) / 5)%nat.
Proof.
  intros data five Hd E. destruct (convert_8_5 data Hd) as (out & p & E' & H32 & Hp & Hflat).
  rewrite E in E'. inversion E'; subst out.
  apply (f_equal (@length bool)) in Hflat. rewrite app_length, !flat_length, repeat_length in Hflat.
  apply Nat.div_unique with (r := (4 - p)%nat); lia.
Qed.

(* ---- the loop never runs out of fuel, never panics ---- *)
Lemma cb_inner_fuel : forall fuel to b rem nb fb,
  (N.to_nat rem <= fuel)%nat -> fb < to ->
  exists r, cb_inner fuel to b rem nb fb = Some r /\ snd (fst r) < to.
Proof.
  induction fuel as [|f IH]; intros to b rem nb fb Hr Hfb.
  - assert (rem = 0) by lia. subst. cbn. eexists; split; [reflexivity | exact Hfb].
  - cbn [cb_inner]. destruct (rem =? 0) eqn:E0; [eexists; split; [reflexivity | exact Hfb]|].
    apply N.eqb_neq in E0.
    set (ext := if to - fb <? rem then to - fb else rem).
    assert (Hext : 1 <= ext /\ ext <= rem /\ ext <= to - fb).
    { unfold ext. destruct (to - fb <? rem) eqn:El; [apply N.ltb_lt in El | apply N.ltb_ge in El]; lia. }
    destruct (fb + ext =? to) eqn:Et.
    + destruct (IH to (b8 (N.shiftl b ext)) (rem - ext) 0 0) as (r & Er & Hr2); [lia | lia |].
      rewrite Er. destruct r as [[nb2 fb2] em]. eexists; split; [reflexivity | exact Hr2].
    + apply N.eqb_neq in Et. apply IH; lia.
Qed.

Lemma cb_loop_total : forall from to data nb fb, from <= 8 -> fb < to ->
  exists r, cb_loop from to data nb fb = Some r /\ snd (fst r) < to.
Proof.
  intros from to data; induction data as [|x data IH]; intros nb fb Hf Hfb.
  - cbn. eexists; split; [reflexivity | exact Hfb].
  - cbn [cb_loop]. unfold cb_step.
    destruct (cb_inner_fuel 8 to (b8 (N.shiftl x (8 - from))) from nb fb) as (r & Er & Hr); [lia | exact Hfb |].
    rewrite Er. destruct r as [[nb1 fb1] em]. cbn in Hr.
    destruct (IH nb1 fb1 Hf Hr) as (r2 & Er2 & Hr2). rewrite Er2. destruct r2 as [[nb2 fb2] em2].
    eexists; split; [reflexivity | exact Hr2].
Qed.

Theorem convert_bits_total : forall data from to pad,
  match convert_bits data from to pad with
  | Panic _ => False
  | Err EFuel => False
  | _ => True
  end.
Proof.
  intros data from to pad. unfold convert_bits.
  destruct ((from <? 1) || (8 <? from) || (to <? 1) || (8 <? to)) eqn:G; [exact I|].
  apply orb_false_elim in G. destruct G as [G G4]. apply orb_false_elim in G. destruct G as [G G3].
  apply orb_false_elim in G. destruct G as [G1 G2].
  apply N.ltb_ge in G1, G2, G3, G4.
  destruct (cb_loop_total from to data 0 0) as (r & Er & _); [lia | lia |].
  rewrite Er. destruct r as [[nb fb] out].
  destruct (pad && (0 <? fb)); [exact I|].
  destruct ((0 <? fb) && ((4 <? fb) || negb (nb =? 0))); exact I.
Qed.
