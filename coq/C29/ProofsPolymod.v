(* C29 — algebra of the bech32 checksum: the step is XOR-affine in the symbol,
   the appended checksum makes the polymod 1, and the step is injective in the
   running state, so two inputs that differ in one symbol never have the same
   polymod. *)
From Coq Require Import List Arith NArith Bool Lia.
From C29 Require Import Model ProofsBits.
Import ListNotations.
Open Scope N_scope.

Ltac xor_solve :=
  apply N.bits_inj; let n := fresh "n" in intro n;
  repeat (rewrite N.lxor_spec || rewrite N.land_spec);
  repeat match goal with |- context [N.testbit ?a n] => destruct (N.testbit a n) end;
  reflexivity.

Lemma land_lxor_l a b c : N.land (N.lxor a b) c = N.lxor (N.land a c) (N.land b c).
Proof. xor_solve. Qed.

Lemma lt_pow2_shiftr x n : x < 2 ^ n <-> N.shiftr x n = 0.
Proof.
  rewrite N.shiftr_div_pow2. symmetry. apply N.div_small_iff. apply N.pow_nonzero. discriminate.
Qed.

Lemma lxor_lt a b n : a < 2 ^ n -> b < 2 ^ n -> N.lxor a b < 2 ^ n.
Proof.
  rewrite !lt_pow2_shiftr. intros Ha Hb. rewrite N.shiftr_lxor, Ha, Hb. reflexivity.
Qed.

Definition P30 : N := 2 ^ 30.
Definition M25 : N := 0x1ffffff.

Lemma M25_ones : M25 = N.ones 25.
Proof. reflexivity. Qed.

Definition G (b : N) : N := gen_xor b 0 gen 0.

Lemma gen_xor_lxor : forall gs b i chk, gen_xor b i gs chk = N.lxor chk (gen_xor b i gs 0).
Proof.
  induction gs as [|g gs IH]; intros b i chk; cbn [gen_xor].
  - rewrite N.lxor_0_r. reflexivity.
  - destruct (N.land (N.shiftr b i) 1 =? 1).
    + rewrite IH. rewrite (IH b (i + 1) (N.lxor 0 g)). rewrite N.lxor_0_l. xor_solve.
    + apply IH.
Qed.

Lemma gen_xor_lt : forall gs b i chk, chk < P30 -> Forall (fun g => g < P30) gs -> gen_xor b i gs chk < P30.
Proof.
  induction gs as [|g gs IH]; intros b i chk Hc Hg; cbn [gen_xor]; [exact Hc|].
  inversion Hg; subst. apply IH; [|assumption].
  destruct (N.land (N.shiftr b i) 1 =? 1); [apply lxor_lt; assumption | exact Hc].
Qed.

Lemma gen_lt : Forall (fun g => g < P30) gen.
Proof. repeat constructor. Qed.

Lemma G_lt b : G b < P30.
Proof. apply gen_xor_lt; [reflexivity | exact gen_lt]. Qed.

Lemma step_form chk v :
  polymod_step chk v = N.lxor (N.lxor (N.shiftl (N.land chk M25) 5) v) (G (N.shiftr chk 25)).
Proof. unfold polymod_step, G. apply gen_xor_lxor. Qed.

Lemma step_v chk v : polymod_step chk v = N.lxor (polymod_step chk 0) v.
Proof. rewrite !step_form, N.lxor_0_r. xor_solve. Qed.

Lemma land_M25_lt c : N.land c M25 < 2 ^ 25.
Proof. rewrite M25_ones, N.land_ones. apply N.mod_lt. discriminate. Qed.

Lemma shl5_lt x k : x < 2 ^ k -> N.shiftl x 5 < 2 ^ (k + 5).
Proof.
  intros H. rewrite N.shiftl_mul_pow2, N.pow_add_r. apply N.mul_lt_mono_pos_r; [reflexivity | exact H].
Qed.

Lemma step_lt chk v : v < P30 -> polymod_step chk v < P30.
Proof.
  intros Hv. rewrite step_form. unfold P30 in *. apply lxor_lt; [apply lxor_lt|].
  - exact (shl5_lt _ 25 (land_M25_lt chk)).
  - exact Hv.
  - apply G_lt.
Qed.

Lemma fold_step_lt : forall vs c, c < P30 -> Forall (fun v => v < P30) vs -> fold_left polymod_step vs c < P30.
Proof.
  induction vs as [|v vs IH]; intros c Hc Hv; cbn [fold_left]; [exact Hc|].
  inversion Hv; subst. apply IH; [apply step_lt; assumption | assumption].
Qed.

Lemma step_low chk e v : e < 2 ^ 25 ->
  polymod_step (N.lxor chk e) v = N.lxor (polymod_step chk v) (N.shiftl e 5).
Proof.
  intros He. rewrite !step_form.
  assert (H1 : N.shiftr (N.lxor chk e) 25 = N.shiftr chk 25).
  { rewrite N.shiftr_lxor. apply lt_pow2_shiftr in He. rewrite He, N.lxor_0_r. reflexivity. }
  assert (H2 : N.land (N.lxor chk e) M25 = N.lxor (N.land chk M25) e).
  { rewrite land_lxor_l. f_equal. rewrite M25_ones, N.land_ones. apply N.mod_small. exact He. }
  rewrite H1, H2, N.shiftl_lxor. xor_solve.
Qed.

(* ---- the appended checksum verifies ---- *)
Fixpoint pack (e : N) (ds : list N) : N :=
  match ds with
  | [] => e
  | d :: t => pack (N.lxor (N.shiftl e 5) d) t
  end.

Lemma fold_pack : forall ds c e k,
  e < 2 ^ (5 * N.of_nat k) -> (k + length ds <= 6)%nat -> Forall (fun d => d < 32) ds ->
  fold_left polymod_step ds (N.lxor c e) =
  N.lxor (fold_left polymod_step (map (fun _ => 0) ds) c) (pack e ds).
Proof.
  induction ds as [|d ds IH]; intros c e k He Hk Hd; cbn [fold_left map pack]; [reflexivity|].
  inversion Hd; subst. cbn [length] in Hk.
  assert (He25 : e < 2 ^ 25).
  { eapply N.lt_le_trans; [exact He|]. apply N.pow_le_mono_r; [discriminate | lia]. }
  rewrite (step_low c e d He25), (step_v c d).
  replace (N.lxor (N.lxor (polymod_step c 0) d) (N.shiftl e 5))
    with (N.lxor (polymod_step c 0) (N.lxor (N.shiftl e 5) d)) by xor_solve.
  apply (IH _ _ (S k)); [| lia | assumption].
  replace (5 * N.of_nat (S k)) with (5 * N.of_nat k + 5) by lia.
  apply lxor_lt; [apply shl5_lt; exact He|].
  eapply N.lt_le_trans; [exact H1|]. change 32 with (2 ^ 5). apply N.pow_le_mono_r; [discriminate | lia].
Qed.

Lemma lxor_shl5_add e d : d < 32 -> N.lxor (N.shiftl e 5) d = e * 32 + d.
Proof.
  intros Hd. symmetry. rewrite N.shiftl_mul_pow2. change (2 ^ 5) with 32. apply N.add_nocarry_lxor.
  apply N.bits_inj. intro n. rewrite N.land_spec, N.bits_0.
  destruct (N.lt_ge_cases n 5) as [Hn|Hn].
  - change 32 with (2 ^ 5). rewrite <- N.shiftl_mul_pow2, N.shiftl_spec_low by exact Hn. reflexivity.
  - rewrite <- (N.mod_small d 32 Hd). change 32 with (2 ^ 5) at 2. rewrite N.mod_pow2_bits_high by exact Hn.
    apply andb_false_r.
Qed.

Definition digits6 (pm : N) : list N :=
  [N.land (N.shiftr pm 25) 31; N.land (N.shiftr pm 20) 31; N.land (N.shiftr pm 15) 31;
   N.land (N.shiftr pm 10) 31; N.land (N.shiftr pm 5) 31; N.land (N.shiftr pm 0) 31].

Lemma land31_lt x : N.land x 31 < 32.
Proof. change 31 with (N.ones 5). rewrite N.land_ones. apply N.mod_lt. discriminate. Qed.

Lemma digits6_lt pm : Forall (fun d => d < 32) (digits6 pm).
Proof. unfold digits6. repeat constructor; apply land31_lt. Qed.

Lemma pack_digits6 pm : pm < P30 -> pack 0 (digits6 pm) = pm.
Proof.
  intros H. unfold digits6, pack.
  rewrite !lxor_shl5_add by apply land31_lt.
  change 31 with (N.ones 5). rewrite !N.land_ones, !N.shiftr_div_pow2.
  change (2 ^ 25) with 33554432. change (2 ^ 20) with 1048576. change (2 ^ 15) with 32768.
  change (2 ^ 10) with 1024. change (2 ^ 5) with 32. change (2 ^ 0) with 1.
  unfold P30 in H. change (2 ^ 30) with 1073741824 in H.
  rewrite N.div_1_r.
  pose proof (N.div_mod pm 32 ltac:(discriminate)).
  pose proof (N.div_mod pm 1024 ltac:(discriminate)).
  pose proof (N.div_mod pm 32768 ltac:(discriminate)).
  pose proof (N.div_mod pm 1048576 ltac:(discriminate)).
  pose proof (N.div_mod pm 33554432 ltac:(discriminate)).
  pose proof (N.mod_lt pm 32 ltac:(discriminate)).
  pose proof (N.mod_lt pm 1024 ltac:(discriminate)).
  pose proof (N.mod_lt pm 32768 ltac:(discriminate)).
  pose proof (N.mod_lt pm 1048576 ltac:(discriminate)).
  pose proof (N.mod_lt pm 33554432 ltac:(discriminate)).
  pose proof (N.div_mod (pm / 32) 32 ltac:(discriminate)).
  pose proof (N.div_mod (pm / 1024) 32 ltac:(discriminate)).
  pose proof (N.div_mod (pm / 32768) 32 ltac:(discriminate)).
  pose proof (N.div_mod (pm / 1048576) 32 ltac:(discriminate)).
  pose proof (N.div_mod (pm / 33554432) 32 ltac:(discriminate)).
  pose proof (N.mod_lt (pm / 32) 32 ltac:(discriminate)).
  pose proof (N.mod_lt (pm / 1024) 32 ltac:(discriminate)).
  pose proof (N.mod_lt (pm / 32768) 32 ltac:(discriminate)).
  pose proof (N.mod_lt (pm / 1048576) 32 ltac:(discriminate)).
  pose proof (N.mod_lt (pm / 33554432) 32 ltac:(discriminate)).
  rewrite N.mul_0_l, N.add_0_l.
  assert (D1 : pm / 32 / 32 = pm / 1024) by (rewrite N.div_div by discriminate; reflexivity).
  assert (D2 : pm / 1024 / 32 = pm / 32768) by (rewrite N.div_div by discriminate; reflexivity).
  assert (D3 : pm / 32768 / 32 = pm / 1048576) by (rewrite N.div_div by discriminate; reflexivity).
  assert (D4 : pm / 1048576 / 32 = pm / 33554432) by (rewrite N.div_div by discriminate; reflexivity).
  assert (D5 : pm / 33554432 / 32 = 0) by (rewrite N.div_div by discriminate; apply N.div_small; exact H).
  rewrite D1 in *. rewrite D2 in *. rewrite D3 in *. rewrite D4 in *. rewrite D5 in *.
  lia.
Qed.

Lemma checksum_digits hrp data :
  checksum hrp data =
  digits6 (N.lxor (polymod (hrp_expand hrp ++ data ++ [0; 0; 0; 0; 0; 0])) 1).
Proof. reflexivity. Qed.

Lemma checksum_lt hrp data : Forall (fun d => d < 32) (checksum hrp data).
Proof. rewrite checksum_digits. apply digits6_lt. Qed.

Lemma checksum_length hrp data : length (checksum hrp data) = 6%nat.
Proof. reflexivity. Qed.

Theorem checksum_verifies hrp data : verify_checksum hrp (data ++ checksum hrp data) = true.
Proof.
  unfold verify_checksum. rewrite checksum_digits. unfold polymod.
  rewrite !app_assoc, !fold_left_app.
  set (s := fold_left polymod_step data (fold_left polymod_step (hrp_expand hrp) 1)).
  set (P := fold_left polymod_step [0; 0; 0; 0; 0; 0] s).
  assert (HP : P < P30).
  { unfold P. cbn [fold_left]. apply step_lt. reflexivity. }
  replace (fold_left polymod_step (digits6 (N.lxor P 1)) s)
    with (fold_left polymod_step (digits6 (N.lxor P 1)) (N.lxor s 0)) by (rewrite N.lxor_0_r; reflexivity).
  rewrite (fold_pack (digits6 (N.lxor P 1)) s 0 0%nat); [| reflexivity | cbn; lia | apply digits6_lt].
  change (map (fun _ : N => 0) (digits6 (N.lxor P 1))) with [0; 0; 0; 0; 0; 0].
  fold P. rewrite pack_digits6 by (apply lxor_lt; [exact HP | reflexivity]).
  apply N.eqb_eq. replace (N.lxor P (N.lxor P 1)) with (N.lxor (N.lxor P P) 1) by xor_solve.
  rewrite N.lxor_nilpotent. reflexivity.
Qed.

(* ---- injectivity of the step in the running state ---- *)
Lemma G_low_inj : forall b1 b2, b1 < 32 -> b2 < 32 -> N.land (G b1) 31 = N.land (G b2) 31 -> b1 = b2.
Proof.
  assert (H : forallN 32 (fun b1 => forallN 32 (fun b2 =>
            negb (N.land (G b1) 31 =? N.land (G b2) 31) || (b1 =? b2))) = true) by (vm_compute; reflexivity).
  intros b1 b2 H1 H2 E.
  pose proof (forallN_spec _ _ H b1 H1) as Ha. cbv beta in Ha.
  pose proof (forallN_spec _ _ Ha b2 H2) as Hb. cbv beta in Hb.
  rewrite E, N.eqb_refl in Hb. cbn in Hb. apply N.eqb_eq. exact Hb.
Qed.

Lemma lxor_cancel_r a b c : N.lxor a c = N.lxor b c -> a = b.
Proof.
  intros H. apply N.lxor_eq.
  replace (N.lxor a b) with (N.lxor (N.lxor a c) (N.lxor b c)) by xor_solve.
  rewrite H. apply N.lxor_nilpotent.
Qed.

Lemma lxor_cancel_l a b c : N.lxor c a = N.lxor c b -> a = b.
Proof. rewrite !(N.lxor_comm c). apply lxor_cancel_r. Qed.

Lemma shl5_low x : N.land (N.shiftl x 5) 31 = 0.
Proof.
  change 31 with (N.ones 5). rewrite N.land_ones, N.shiftl_mul_pow2. apply N.mod_mul. discriminate.
Qed.

Lemma shr25_lt c : c < P30 -> N.shiftr c 25 < 32.
Proof.
  intros H. rewrite N.shiftr_div_pow2. apply N.div_lt_upper_bound; [discriminate|]. exact H.
Qed.

Lemma step_inj c1 c2 v : c1 < P30 -> c2 < P30 -> polymod_step c1 v = polymod_step c2 v -> c1 = c2.
Proof.
  intros H1 H2 E. rewrite !step_form in E.
  set (A1 := N.shiftl (N.land c1 M25) 5) in *. set (A2 := N.shiftl (N.land c2 M25) 5) in *.
  set (G1 := G (N.shiftr c1 25)) in *. set (G2 := G (N.shiftr c2 25)) in *.
  assert (E' : N.lxor A1 G1 = N.lxor A2 G2).
  { apply (lxor_cancel_r _ _ v).
    replace (N.lxor (N.lxor A1 G1) v) with (N.lxor (N.lxor A1 v) G1) by xor_solve.
    replace (N.lxor (N.lxor A2 G2) v) with (N.lxor (N.lxor A2 v) G2) by xor_solve. exact E. }
  assert (EL : N.land G1 31 = N.land G2 31).
  { apply (f_equal (fun t => N.land t 31)) in E'. rewrite !land_lxor_l in E'.
    unfold A1, A2 in E'. rewrite !shl5_low, !N.lxor_0_l in E'. exact E'. }
  assert (Eb : N.shiftr c1 25 = N.shiftr c2 25).
  { apply G_low_inj; [apply shr25_lt; exact H1 | apply shr25_lt; exact H2 | exact EL]. }
  assert (EG : G1 = G2) by (unfold G1, G2; rewrite Eb; reflexivity).
  rewrite EG in E'. apply lxor_cancel_r in E'. unfold A1, A2 in E'.
  rewrite !N.shiftl_mul_pow2 in E'. apply N.mul_cancel_r in E'; [|discriminate].
  rewrite M25_ones, !N.land_ones in E'. rewrite !N.shiftr_div_pow2 in Eb.
  rewrite (N.div_mod c1 (2 ^ 25)), (N.div_mod c2 (2 ^ 25)) by discriminate.
  rewrite Eb, E'. reflexivity.
Qed.

Lemma fold_step_inj : forall vs c1 c2, c1 < P30 -> c2 < P30 -> Forall (fun v => v < P30) vs ->
  fold_left polymod_step vs c1 = fold_left polymod_step vs c2 -> c1 = c2.
Proof.
  induction vs as [|v vs IH]; intros c1 c2 H1 H2 Hv E; cbn [fold_left] in E; [exact E|].
  inversion Hv; subst.
  apply (step_inj c1 c2 v H1 H2). apply IH; try assumption; apply step_lt; assumption.
Qed.

(* two inputs that differ in exactly one symbol have different polymods *)
Theorem polymod_single_error : forall pre x y post,
  x < P30 -> y < P30 -> Forall (fun v => v < P30) post ->
  polymod (pre ++ x :: post) = polymod (pre ++ y :: post) -> x = y.
Proof.
  intros pre x y post Hx Hy Hp E. unfold polymod in E. rewrite !fold_left_app in E. cbn [fold_left] in E.
  apply fold_step_inj in E; [| apply step_lt; assumption | apply step_lt; assumption | assumption].
  rewrite (step_v _ x), (step_v _ y) in E. apply lxor_cancel_l in E. exact E.
Qed.
