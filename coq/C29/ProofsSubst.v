(* C29 — an address with exactly one character replaced is rejected on every
   network. *)
From Coq Require Import List Arith NArith Bool Lia.
From Verif Require Import Outcome Cmp.
From C29 Require Import Model ProofsBits ProofsPolymod ProofsBech32.
Import ListNotations.
Open Scope N_scope.

Lemma decode_address_inv h s r : decode_address h s = Ok r ->
  exists one v prog, last_index 49 s = Some one /\ (1 < one)%nat /\
    map to_lower (firstn (S one) s) = h ++ [49] /\ decode_segwit s = Ok (v, prog).
Proof.
  unfold decode_address. intros H.
  destruct (last_index 49 s) as [one|]; [|discriminate].
  destruct (1 <? one)%nat eqn:E1; [|discriminate].
  destruct (str_eqb (map to_lower (firstn (S one) s)) (h ++ [49])) eqn:E2; [|discriminate].
  destruct (decode_segwit s) as [[v prog]|e|p]; try discriminate.
  exists one, v, prog. apply Nat.ltb_lt in E1. apply str_eqb_eq in E2. repeat split; assumption.
Qed.

Lemma decode_segwit_inv s v prog : decode_segwit s = Ok (v, prog) ->
  exists h data, bech32_decode s = Ok (h, data).
Proof.
  unfold decode_segwit. intros H. destruct (bech32_decode s) as [[h data]|e|p]; try discriminate.
  exists h, data. reflexivity.
Qed.

Lemma to_bytes_app : forall l1 l2 d, to_bytes (l1 ++ l2) = Some d ->
  exists d1 d2, to_bytes l1 = Some d1 /\ to_bytes l2 = Some d2 /\ d = d1 ++ d2.
Proof.
  induction l1 as [|c l1 IH]; intros l2 d H.
  - exists [], d. repeat split. exact H.
  - cbn [app to_bytes] in H. destruct (index_of c charset) as [v|] eqn:Ev; [|discriminate].
    destruct (to_bytes (l1 ++ l2)) as [r|] eqn:Er; [|discriminate]. inversion H; subst.
    destruct (IH l2 r Er) as (d1 & d2 & E1 & E2 & E3). exists (v :: d1), d2.
    cbn [to_bytes]. rewrite Ev, E1. subst r. repeat split. exact E2.
Qed.

Lemma split_nth {A} (l : list A) j d : (j < length l)%nat ->
  l = firstn j l ++ nth j l d :: skipn (S j) l.
Proof.
  revert j; induction l as [|x l IH]; intros j H; cbn in H; [lia|].
  destruct j as [|j]; cbn; [reflexivity|]. f_equal. apply IH. lia.
Qed.

Lemma not_in_skipn {A} (x : A) l n : ~ In x l -> ~ In x (skipn n l).
Proof.
  intros H Hin. apply H. rewrite <- (firstn_skipn n l). apply in_or_app. right. exact Hin.
Qed.

Lemma all_lt_weaken k k' l : k <= k' -> all_lt k l -> all_lt k' l.
Proof. unfold all_lt. intros Hk H. eapply Forall_impl; [|exact H]. intros a Ha. cbv beta in *. lia. Qed.

Lemma all_lt_skipn k l n : all_lt k l -> all_lt k (skipn n l).
Proof.
  unfold all_lt. intros H. apply Forall_forall. intros x Hx. rewrite Forall_forall in H. apply H.
  rewrite <- (firstn_skipn n l). apply in_or_app. right. exact Hx.
Qed.

Lemma all_lt_firstn k l n : all_lt k l -> all_lt k (firstn n l).
Proof.
  unfold all_lt. intros H. apply Forall_forall. intros x Hx. rewrite Forall_forall in H. apply H.
  rewrite <- (firstn_skipn n l). apply in_or_app. left. exact Hx.
Qed.

(* the three prefixes differ only in one expanded symbol *)
Lemma hrp_expand_net p : exists x, hrp_expand (net_hrp p) = [3; 3; 0] ++ x :: [14] /\
  x = match p with MainNet => 2 | TestNet => 20 | SoloNet => 19 end.
Proof. destruct p; eexists; split; reflexivity. Qed.

Lemma verify_two_nets p q D : all_lt 32 D ->
  verify_checksum (net_hrp p) D = true -> verify_checksum (net_hrp q) D = true -> p = q.
Proof.
  intros HD Hp Hq. unfold verify_checksum in *. apply N.eqb_eq in Hp, Hq.
  destruct (hrp_expand_net p) as (x & Ex & Hx). destruct (hrp_expand_net q) as (y & Ey & Hy).
  rewrite Ex in Hp. rewrite Ey in Hq. rewrite <- !app_assoc in Hp, Hq. cbn [app] in Hp, Hq.
  assert (E : x = y).
  { apply (polymod_single_error [3; 3; 0] x y (14 :: D)).
    - subst x; destruct p; reflexivity.
    - subst y; destruct q; reflexivity.
    - constructor; [reflexivity|]. apply (all_lt_weaken 32); [unfold P30; cbn; lia | exact HD].
    - cbn [app]. rewrite Hp, Hq. reflexivity. }
  subst x y. destruct p, q; try reflexivity; discriminate.
Qed.

Lemma verify_one_symbol hrp D j v : all_lt 32 D -> (j < length D)%nat -> v < 32 ->
  verify_checksum hrp D = true ->
  verify_checksum hrp (firstn j D ++ v :: skipn (S j) D) = true -> v = nth j D 0.
Proof.
  intros HD Hj Hv H1 H2. unfold verify_checksum in *. apply N.eqb_eq in H1, H2.
  rewrite (split_nth D j 0 Hj) in H1. rewrite app_assoc in H1, H2.
  apply (polymod_single_error (hrp_expand hrp ++ firstn j D) v (nth j D 0) (skipn (S j) D)).
  - unfold P30. cbn. lia.
  - assert (nth j D 0 < 32).
    { pose proof HD as HD'. unfold all_lt in HD'. rewrite Forall_forall in HD'. apply HD'. apply nth_In. exact Hj. }
    unfold P30. cbn. lia.
  - apply all_lt_skipn. apply (all_lt_weaken 32); [unfold P30; cbn; lia | exact HD].
  - rewrite H1, H2. reflexivity.
Qed.

Lemma hq_shape q : exists h0, net_hrp q = [h0; 110] /\ (h0 = 98 \/ h0 = 116 \/ h0 = 115).
Proof. apply net_hrp_shape. Qed.

Lemma upper_110 : to_upper 110 <> 110.
Proof. discriminate. Qed.

Theorem single_substitution : forall p prog a i c q,
  is_program prog -> encode_address (net_hrp p) prog = Ok a ->
  (i < length a)%nat -> c <> nth i a 0 ->
  exists e, decode_address (net_hrp q) (subst a i c) = Err e.
Proof.
  intros p prog a i c q Hprog Henc Hi Hc.
  destruct (address_shape p prog Hprog) as (D & HD & HD7 & HD87 & Henc' & Hver & Hseg).
  rewrite Henc in Henc'. injection Henc' as Ea.
  destruct (net_hrp_shape p) as (h0 & Ehp & Hh0).
  rewrite Ehp in Ea. cbn [app] in Ea.
  set (chars := map cs_at D) in *.
  assert (Hsep : ~ In 49 chars) by (apply chars_no_sep; exact HD).
  assert (Lc : length chars = length D) by (unfold chars; apply map_length).
  (* not Ok suffices *)
  assert (NotOk : (forall r, decode_address (net_hrp q) (subst a i c) <> Ok r) ->
                  exists e, decode_address (net_hrp q) (subst a i c) = Err e).
  { intros H. pose proof (decode_address_total (net_hrp q) (subst a i c)) as T.
    destruct (decode_address (net_hrp q) (subst a i c)) as [r|e|pp].
    - exfalso. exact (H r eq_refl).
    - exists e. reflexivity.
    - discriminate. }
  apply NotOk. intros r Hr.
  destruct (decode_address_inv _ _ _ Hr) as (one & v & pr & Hone & H1one & Hpre & Hsw).
  destruct (decode_segwit_inv _ _ _ Hsw) as (hh & data & Hb32).
  destruct (bech32_decode_inv _ _ _ Hb32) as (one' & decoded & _ & _ & Hcase & Hone' & _ & _ & Ehh & Htb & Hvf & _).
  destruct (hq_shape q) as (g0 & Ehq & Hg0). rewrite Ehq in Hpre. cbn [app] in Hpre.
  subst a. cbn [length] in Hi.
  destruct i as [|[|[|j]]]; cbn [subst nth] in *.
  - (* first character of the prefix *)
    change (c :: 110 :: 49 :: chars) with ([c; 110] ++ 49 :: chars) in Hone.
    rewrite (last_index_app 49 [c; 110] chars Hsep) in Hone. injection Hone as Hone. subst one.
    pose proof (f_equal (fun l => nth 0 l 0) Hpre) as Hc0. cbn [firstn map nth] in Hc0.
    destruct Hcase as [Hlow|Hup].
    + pose proof (f_equal (fun l => nth 0 l 0) Hlow) as Hl0. cbn [map nth] in Hl0.
      assert (Ecg : c = g0) by congruence. rewrite Ecg in *. clear Ecg.
      rewrite <- Hlow in Hone', Ehh, Htb. clear Hlow.
      change (g0 :: 110 :: 49 :: chars) with ([g0; 110] ++ 49 :: chars) in Hone'.
      rewrite (last_index_app 49 [g0; 110] chars Hsep) in Hone'. injection Hone' as Hone'. subst one'.
      cbn [length firstn skipn app] in Ehh, Htb.
      unfold chars in Htb. rewrite (to_bytes_chars D HD) in Htb. injection Htb as Htb. subst decoded hh.
      rewrite <- Ehq in Hvf.
      pose proof (verify_two_nets p q D HD Hver Hvf) as Epq. subst q.
      rewrite Ehp in Ehq. injection Ehq as Ehq. congruence.
    + pose proof (f_equal (fun l => nth 1 l 0) Hup) as Hu. cbn [map nth] in Hu. vm_compute in Hu. discriminate.
  - (* second character of the prefix *)
    change (h0 :: c :: 49 :: chars) with ([h0; c] ++ 49 :: chars) in Hone.
    rewrite (last_index_app 49 [h0; c] chars Hsep) in Hone. injection Hone as Hone. subst one.
    pose proof (f_equal (fun l => nth 1 l 0) Hpre) as Hc1. cbn [firstn map nth] in Hc1.
    destruct Hcase as [Hlow|Hup].
    + pose proof (f_equal (fun l => nth 1 l 0) Hlow) as Hl1. cbn [map nth] in Hl1. congruence.
    + pose proof (f_equal (fun l => nth 0 l 0) Hup) as Hu. cbn [map nth] in Hu.
      destruct Hh0 as [?|[?|?]]; subst h0; vm_compute in Hu; discriminate.
  - (* the separator *)
    rewrite last_index_none in Hone; [discriminate|].
    intros [H|[H|[H|H]]].
    + destruct Hh0 as [?|[?|?]]; subst h0; discriminate.
    + discriminate.
    + congruence.
    + exact (Hsep H).
  - (* a character of the data part *)
    assert (Hj : (j < length chars)%nat) by lia.
    rewrite (subst_split chars j c Hj) in *.
    destruct (N.eq_dec c 49) as [Ec|Ec].
    + subst c.
      change (h0 :: 110 :: 49 :: firstn j chars ++ 49 :: skipn (S j) chars)
        with ((h0 :: 110 :: 49 :: firstn j chars) ++ 49 :: skipn (S j) chars) in Hone.
      rewrite last_index_app in Hone by (apply not_in_skipn; exact Hsep).
      injection Hone as Hone. subst one.
      apply (f_equal (@length N)) in Hpre. rewrite map_length, firstn_length in Hpre.
      cbn [length] in Hpre. rewrite app_length in Hpre. cbn [length] in Hpre.
      rewrite firstn_length, skipn_length in Hpre. lia.
    + assert (Hsep' : ~ In 49 (firstn j chars ++ c :: skipn (S j) chars)).
      { intros Hin. apply in_app_or in Hin. destruct Hin as [Hin|[Hin|Hin]].
        - apply Hsep. rewrite <- (firstn_skipn j chars). apply in_or_app. left. exact Hin.
        - congruence.
        - exact (not_in_skipn 49 chars (S j) Hsep Hin). }
      set (chars' := firstn j chars ++ c :: skipn (S j) chars) in *.
      change (h0 :: 110 :: 49 :: chars') with ([h0; 110] ++ 49 :: chars') in Hone.
      rewrite (last_index_app 49 [h0; 110] chars' Hsep') in Hone. injection Hone as Hone. subst one.
      destruct Hcase as [Hlow|Hup].
      2:{ pose proof (f_equal (fun l => nth 1 l 0) Hup) as Hu. cbn [map nth] in Hu. vm_compute in Hu. discriminate. }
      rewrite <- Hlow in Hone', Ehh, Htb. clear Hlow.
      change (h0 :: 110 :: 49 :: chars') with ([h0; 110] ++ 49 :: chars') in Hone'.
      rewrite (last_index_app 49 [h0; 110] chars' Hsep') in Hone'. injection Hone' as Hone'. subst one'.
      cbn [length firstn skipn app] in Ehh, Htb. subst hh.
      unfold chars' in Htb. apply to_bytes_app in Htb. destruct Htb as (d1 & d2 & Ed1 & Ed2 & Edec).
      unfold chars in Ed1, Ed2. rewrite firstn_map in Ed1. rewrite skipn_map in Ed2.
      rewrite (to_bytes_chars _ (all_lt_firstn 32 D j HD)) in Ed1. injection Ed1 as Ed1. subst d1.
      cbn [to_bytes] in Ed2. destruct (index_of c charset) as [w|] eqn:Ew; [|discriminate].
      rewrite (to_bytes_chars _ (all_lt_skipn 32 D (S j) HD)) in Ed2. injection Ed2 as Ed2. subst d2 decoded.
      destruct (index_charset c w Ew) as [Hw Ecw].
      rewrite <- Ehp in Hvf.
      pose proof (verify_one_symbol (net_hrp p) D j w HD ltac:(lia) Hw Hver Hvf) as Ewj.
      apply Hc. rewrite <- Ecw, Ewj. unfold chars.
      rewrite (nth_indep (map cs_at D) 0 (cs_at 0)) by (rewrite map_length; lia).
      rewrite map_nth. reflexivity.
Qed.
