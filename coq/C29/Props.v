(* C29 — Addresses and text encodings round-trip and detect corruption.
   PROPERTY THEOREMS ONLY.  The functions are the executable model of
   C29/Model.v (bech32.go, address.go, base32.go, mnemonic.go); strings and byte
   slices are lists of byte codes.  [all_lt k l] = every element of l is < k;
   [is_program] = 20 or 32 bytes; [net] = the three networks of
   consensus/general.go ("bn", "tn", "sn"). *)
From Coq Require Import List Arith NArith Bool.
From Verif Require Import Outcome Cmp.
From C29 Require Import Proofs.
Import ListNotations.
Open Scope N_scope.

(* Every P2WPKH / P2WSH program on each network encodes to an address that
   decodes to the same program on that network and is rejected on the others. *)
Theorem c29_address_roundtrip : forall p prog, is_program prog ->
  exists a, encode_address (net_hrp p) prog = Ok a /\
            decode_address (net_hrp p) a = Ok (net_hrp p, prog) /\
            forall q, q <> p -> decode_address (net_hrp q) a = Err EUnknownType.
Proof. exact address_roundtrip. Qed.
Print Assumptions c29_address_roundtrip.

(* Decoding rejects any address with exactly one character replaced by any
   other byte value, at any position, on every network. *)
Theorem c29_single_substitution : forall p prog a i c q,
  is_program prog -> encode_address (net_hrp p) prog = Ok a ->
  (i < length a)%nat -> c <> nth i a 0 ->
  exists e, decode_address (net_hrp q) (subst a i c) = Err e.
Proof. exact single_substitution. Qed.
Print Assumptions c29_single_substitution.

(* The mechanism: two symbol sequences that differ in exactly one symbol never
   have the same bech32 polymod (arbitrary length). *)
Theorem c29_polymod_single_error : forall pre x y post,
  x < P30 -> y < P30 -> Forall (fun v => v < P30) post ->
  polymod (pre ++ x :: post) = polymod (pre ++ y :: post) -> x = y.
Proof. exact polymod_single_error. Qed.
Print Assumptions c29_polymod_single_error.

(* The checksum appended by Bech32Encode always verifies. *)
Theorem c29_checksum_verifies : forall hrp data,
  verify_checksum hrp (data ++ checksum hrp data) = true.
Proof. exact checksum_verifies. Qed.
Print Assumptions c29_checksum_verifies.

(* bech32: Decode (Encode hrp data) = (hrp, data) for every lower-case printable
   prefix and 5-bit data within the 90-character limit. *)
Theorem c29_bech32_roundtrip : forall hrp data,
  valid_hrp hrp -> all_lt 32 data -> (length hrp + 7 + length data <= 90)%nat ->
  exists s, bech32_encode hrp data = Ok s /\ bech32_decode s = Ok (hrp, data).
Proof. exact bech32_roundtrip. Qed.
Print Assumptions c29_bech32_roundtrip.

(* ConvertBits: 8 -> 5 with padding followed by 5 -> 8 without is the identity, every length. *)
Theorem c29_convert_bits_roundtrip : forall data, all_lt 256 data ->
  exists five, convert_bits data 8 5 true = Ok five /\ all_lt 32 five /\
               convert_bits five 5 8 false = Ok data.
Proof. exact convert_bits_roundtrip. Qed.
Print Assumptions c29_convert_bits_roundtrip.

(* base32 (StdEncoding and HexEncoding): DecodeString (EncodeToString bs) = bs, every length. *)
Theorem c29_base32_roundtrip : forall bs, all_lt 256 bs ->
  b32_decode alpha_std (b32_encode alpha_std bs) = Ok bs.
Proof. exact b32_roundtrip_std. Qed.
Print Assumptions c29_base32_roundtrip.

Theorem c29_base32_roundtrip_hex : forall bs, all_lt 256 bs ->
  b32_decode alpha_hex (b32_encode alpha_hex bs) = Ok bs.
Proof. exact b32_roundtrip_hex. Qed.
Print Assumptions c29_base32_roundtrip_hex.

(* mnemonic: EntropyFromMnemonic (NewMnemonic e) = e for entropy of 16, 20, 24, 28
   or 32 bytes; for every word table whose reverse map inverts it on 0..2047 and
   every hash function whose first output byte is a byte. *)
Theorem c29_mnemonic_roundtrip :
  forall (W : Type) (word : N -> W) (word_index : W -> option N) (sha_first : list N -> N),
  (forall i, i < 2048 -> word_index (word i) = Some i) ->
  (forall d, sha_first d < 256) ->
  forall e, valid_entropy e ->
  exists ws, new_mnemonic W word sha_first e = Ok ws /\
             entropy_from_mnemonic W word_index sha_first ws = Ok e.
Proof. exact mnemonic_roundtrip. Qed.
Print Assumptions c29_mnemonic_roundtrip.

(* Decoding any string never panics (and the modelled loops never run out of fuel). *)
Definition no_panic {A} (r : res A) : Prop :=
  match r with Panic _ => False | Err EFuel => False | _ => True end.

Theorem c29_total :
  (forall s, is_panic (bech32_decode s) = false) /\
  (forall s, is_panic (decode_segwit s) = false) /\
  (forall h s, is_panic (decode_address h s) = false) /\
  (forall data f t pad, no_panic (convert_bits data f t pad)) /\
  (forall alpha s, no_panic (b32_decode alpha s)) /\
  (forall (W : Type) (word_index : W -> option N) (sha_first : list N -> N) ws,
     is_panic (entropy_from_mnemonic W word_index sha_first ws) = false).
Proof.
  exact (conj bech32_decode_total (conj decode_segwit_total (conj decode_address_total
        (conj convert_bits_total (conj b32_decode_total entropy_from_mnemonic_total))))).
Qed.
Print Assumptions c29_total.
