(* C29 — mnemonic bit packing: EntropyFromMnemonic (NewMnemonic e) = e for the
   five entropy lengths, for any injective word table and any hash whose first
   byte is a byte; the decoder never panics. *)
From Coq Require Import List Arith NArith Bool Lia.
From Verif Require Import Outcome Cmp.
From C29 Require Import Model ProofsBits ProofsPolymod.
Import ListNotations.
Open Scope N_scope.

(* ---- big-endian bytes <-> numbers ---- *)
Definition bef (acc b : N) : N := acc * 256 + b.
Lemma be_to_n_fold bs : be_to_n bs = fold_left bef bs 0.
Proof. reflexivity. Qed.

Definition P256 (l : list N) : N := 256 ^ N.of_nat (length l).

Lemma P256_cons x l : P256 (x :: l) = 256 * P256 l.
Proof. unfold P256. cbn [length]. rewrite Nat2N.inj_succ, N.pow_succ_r'. reflexivity. Qed.

Lemma P256_pos l : 0 < P256 l.
Proof. unfold P256. apply N.neq_0_lt_0. apply N.pow_nonzero. discriminate. Qed.

Lemma fold_be : forall l a, fold_left bef l a = a * P256 l + fold_left bef l 0.
Proof.
  induction l as [|x l IH]; intros a; cbn [fold_left].
  - unfold P256. cbn. lia.
  - rewrite IH, (IH (bef 0 x)), P256_cons. unfold bef. lia.
Qed.

Lemma be_cons x l : be_to_n (x :: l) = x * P256 l + be_to_n l.
Proof. rewrite !be_to_n_fold. cbn [fold_left]. rewrite fold_be. unfold bef. lia. Qed.

Lemma be_lt l : all_lt 256 l -> be_to_n l < P256 l.
Proof.
  induction 1 as [|x l Hx Hl IH].
  - unfold P256. cbn. lia.
  - rewrite be_cons, P256_cons. pose proof (P256_pos l). nia.
Qed.

Lemma be_inj : forall a b, all_lt 256 a -> all_lt 256 b -> length a = length b ->
  be_to_n a = be_to_n b -> a = b.
Proof.
  induction a as [|x a IH]; intros [|y b] Ha Hb L E; cbn in L; try lia; [reflexivity|].
  inversion Ha; subst. inversion Hb; subst. rewrite !be_cons in E.
  assert (EP : P256 a = P256 b) by (unfold P256; congruence).
  pose proof (be_lt a H2) as La. pose proof (be_lt b H4) as Lb. rewrite <- EP in *.
  pose proof (P256_pos a) as Pp.
  assert (x = y) by nia. subst y. f_equal. apply IH; try assumption; lia.
Qed.

Lemma be_repeat0 k l : be_to_n (repeat 0 k ++ l) = be_to_n l.
Proof. induction k as [|k IH]; cbn [repeat app]; [reflexivity|]. rewrite be_cons, IH. lia. Qed.

(* n_to_be *)
Lemma n_to_be_fuel_spec : forall f x acc, x < 2 ^ N.of_nat f ->
  be_to_n (n_to_be_fuel f x acc) = x * P256 acc + be_to_n acc.
Proof.
  induction f as [|f IH]; intros x acc Hx; cbn [n_to_be_fuel].
  - cbn in Hx. assert (x = 0) by lia. subst. lia.
  - destruct (x =? 0) eqn:E0; [apply N.eqb_eq in E0; subst; lia|].
    rewrite IH.
    + rewrite P256_cons, be_cons. pose proof (N.div_mod x 256 ltac:(discriminate)). nia.
    + rewrite Nat2N.inj_succ, N.pow_succ_r' in Hx.
      apply N.div_lt_upper_bound; [discriminate|].
      assert (0 < 2 ^ N.of_nat f) by (apply N.neq_0_lt_0, N.pow_nonzero; discriminate). nia.
Qed.

Lemma be_n_to_be x : be_to_n (n_to_be x) = x.
Proof.
  unfold n_to_be. rewrite n_to_be_fuel_spec.
  - unfold P256. cbn. lia.
  - rewrite N2Nat.id. apply N.size_gt.
Qed.

Lemma n_to_be_fuel_bytes : forall f x acc, all_lt 256 acc -> all_lt 256 (n_to_be_fuel f x acc).
Proof.
  induction f as [|f IH]; intros x acc Ha; cbn [n_to_be_fuel]; [exact Ha|].
  destruct (x =? 0); [exact Ha|]. apply IH. constructor; [|exact Ha]. apply N.mod_lt. discriminate.
Qed.

Lemma n_to_be_fuel_len : forall f x acc k, x < 256 ^ N.of_nat k ->
  (length (n_to_be_fuel f x acc) <= k + length acc)%nat.
Proof.
  induction f as [|f IH]; intros x acc k Hx; cbn [n_to_be_fuel]; [lia|].
  destruct (x =? 0) eqn:E0; [lia|]. apply N.eqb_neq in E0.
  destruct k as [|k]; [cbn in Hx; lia|].
  rewrite Nat2N.inj_succ, N.pow_succ_r' in Hx.
  assert (Hq : x / 256 < 256 ^ N.of_nat k) by (apply N.div_lt_upper_bound; [discriminate | exact Hx]).
  specialize (IH (x / 256) (x mod 256 :: acc) k Hq). cbn [length] in IH. lia.
Qed.

Lemma pad_be e : all_lt 256 e -> pad_slice (n_to_be (be_to_n e)) (length e) = e.
Proof.
  intros He. set (l := n_to_be (be_to_n e)).
  assert (Hl : all_lt 256 l) by (apply n_to_be_fuel_bytes; constructor).
  assert (Ll : (length l <= length e)%nat).
  { pose proof (n_to_be_fuel_len (N.to_nat (N.size (be_to_n e))) (be_to_n e) [] (length e) (be_lt e He)) as H.
    cbn [length] in H. unfold l, n_to_be. lia. }
  unfold pad_slice. destruct (length l <? length e)%nat eqn:E.
  - apply be_inj.
    + apply Forall_app. split; [|exact Hl]. apply Forall_forall. intros x Hx. apply repeat_spec in Hx. subst. reflexivity.
    + exact He.
    + rewrite app_length, repeat_length. apply Nat.ltb_lt in E. lia.
    + rewrite be_repeat0. apply be_n_to_be.
  - apply Nat.ltb_ge in E. apply be_inj; try assumption; [lia | apply be_n_to_be].
Qed.

(* ---- checksum bits ---- *)
Lemma lor_1_even x : N.lor (x * 2) 1 = x * 2 + 1.
Proof.
  rewrite N.mul_comm. destruct x as [|p]; reflexivity.
Qed.

Lemma add_cs_bits_lin : forall cnt i cs x,
  add_cs_bits cnt i cs x = x * 2 ^ N.of_nat cnt + add_cs_bits cnt i cs 0.
Proof.
  induction cnt as [|cnt IH]; intros i cs x; cbn [add_cs_bits]; [cbn; lia|].
  rewrite Nat2N.inj_succ, N.pow_succ_r'.
  destruct (0 <? N.land cs (if 7 <? i then 0 else N.shiftl 1 (7 - i))).
  - change (0 * 2) with 0. rewrite (IH _ _ (N.lor (x * 2) 1)), (IH _ _ (N.lor 0 1)), lor_1_even.
    change (N.lor 0 1) with 1. nia.
  - change (0 * 2) with 0. rewrite (IH _ _ (x * 2)). nia.
Qed.

Lemma cs_top_bits : forall c cs, (4 <= c <= 8)%nat -> cs < 256 ->
  add_cs_bits c 0 cs 0 = cs / 2 ^ (8 - N.of_nat c).
Proof.
  assert (H : forallb (fun c => forallN 256 (fun cs => add_cs_bits c 0 cs 0 =? cs / 2 ^ (8 - N.of_nat c)))
                [4; 5; 6; 7; 8]%nat = true) by (vm_compute; reflexivity).
  intros c cs Hc Hcs. rewrite forallb_forall in H.
  assert (Hin : In c [4; 5; 6; 7; 8]%nat) by (cbn; lia).
  apply N.eqb_eq. exact (forallN_spec _ _ (H c Hin) cs Hcs).
Qed.

(* ---- 11-bit digits ---- *)
Fixpoint digits (k : nat) (x : N) : list N :=
  match k with
  | O => []
  | S k' => digits k' (x / 2048) ++ [x mod 2048]
  end.

Lemma digits_lt : forall k x, all_lt 2048 (digits k x).
Proof.
  induction k as [|k IH]; intros x; cbn [digits]; [constructor|].
  apply Forall_app. split; [apply IH|]. constructor; [apply N.mod_lt; discriminate | constructor].
Qed.

Lemma digits_length : forall k x, length (digits k x) = k.
Proof. induction k as [|k IH]; intros x; cbn [digits]; [reflexivity|]. rewrite app_length, IH. cbn. lia. Qed.

Lemma land_2047 x : N.land x 2047 = x mod 2048.
Proof. change 2047 with (N.ones 11). apply N.land_ones. Qed.

Section Words.
  Variable W : Type.
  Variable word : N -> W.
  Variable word_index : W -> option N.
  Variable sha_first : list N -> N.
  Hypothesis word_inj : forall i, i < 2048 -> word_index (word i) = Some i.
  Hypothesis sha_byte : forall d, sha_first d < 256.

  Lemma take_words_digits : forall k x acc,
    take_words W word k x acc = map word (digits k x) ++ acc.
  Proof.
    induction k as [|k IH]; intros x acc; cbn [take_words digits]; [reflexivity|].
    rewrite IH, map_app, <- app_assoc, land_2047. reflexivity.
  Qed.

  Lemma lor_2048 b i : i < 2048 -> N.lor (b * 2048) i = b * 2048 + i.
  Proof.
    intros Hi.
    assert (HL : N.land (b * 2048) i = 0).
    { apply N.bits_inj. intro n. rewrite N.land_spec, N.bits_0.
      destruct (N.lt_ge_cases n 11) as [Hn|Hn].
      - change 2048 with (2 ^ 11). rewrite <- N.shiftl_mul_pow2, N.shiftl_spec_low by exact Hn. reflexivity.
      - rewrite <- (N.mod_small i 2048 Hi). change 2048 with (2 ^ 11) at 2.
        rewrite N.mod_pow2_bits_high by exact Hn. apply andb_false_r. }
    rewrite (N.add_nocarry_lxor _ _ HL). symmetry. apply N.lxor_lor. exact HL.
  Qed.

  Lemma words_to_n_digits : forall ds b, all_lt 2048 ds ->
    words_to_n W word_index (map word ds) b = Some (fold_left (fun a d => a * 2048 + d) ds b).
  Proof.
    induction ds as [|d ds IH]; intros b Hd; cbn [map words_to_n fold_left]; [reflexivity|].
    inversion Hd; subst. rewrite (word_inj d H1), lor_2048 by exact H1. apply IH. exact H2.
  Qed.

  Lemma fold_digits : forall k x b,
    fold_left (fun a d => a * 2048 + d) (digits k x) b = b * 2048 ^ N.of_nat k + x mod 2048 ^ N.of_nat k.
  Proof.
    induction k as [|k IH]; intros x b; cbn [digits].
    - cbn. rewrite N.mod_1_r. lia.
    - rewrite fold_left_app, IH. cbn [fold_left].
      rewrite Nat2N.inj_succ, N.pow_succ_r'.
      set (Q := 2048 ^ N.of_nat k).
      assert (HQ : Q <> 0) by (apply N.pow_nonzero; discriminate).
      rewrite N.mod_mul_r by (assumption || discriminate).
      nia.
  Qed.

  Lemma decode_words k V : V < 2048 ^ N.of_nat k ->
    words_to_n W word_index (take_words W word k V []) 0 = Some V.
  Proof.
    intros HV. rewrite take_words_digits, app_nil_r, words_to_n_digits by apply digits_lt.
    rewrite fold_digits, N.mod_small by exact HV. f_equal; lia.
  Qed.

  Lemma decode_assemble c ws V E T e : (4 <= c <= 8)%nat -> length ws = (3 * c)%nat ->
    words_to_n W word_index ws 0 = Some V ->
    V / 2 ^ N.of_nat c = E -> V mod 2 ^ N.of_nat c = T ->
    pad_slice (n_to_be E) (4 * c) = e -> T = sha_first e / 2 ^ (8 - N.of_nat c) ->
    entropy_from_mnemonic W word_index sha_first ws = Ok e.
  Proof.
    intros Hc L Hw Hd Hm Hp Ht. unfold entropy_from_mnemonic. rewrite L, Hw.
    assert (Hcases : (c = 4 \/ c = 5 \/ c = 6 \/ c = 7 \/ c = 8)%nat) by lia.
    destruct Hcases as [Ec|[Ec|[Ec|[Ec|Ec]]]]; subst c; cbn in *.
    - change 15 with (N.ones 4). rewrite N.land_ones. change (2 ^ 4) with 16.
      rewrite Hd, Hp, Hm, Ht, N.eqb_refl. reflexivity.
    - change 31 with (N.ones 5). rewrite N.land_ones. change (2 ^ 5) with 32.
      rewrite Hd, Hp, Hm, Ht, N.eqb_refl. reflexivity.
    - change 63 with (N.ones 6). rewrite N.land_ones. change (2 ^ 6) with 64.
      rewrite Hd, Hp, Hm, Ht, N.eqb_refl. reflexivity.
    - change 127 with (N.ones 7). rewrite N.land_ones. change (2 ^ 7) with 128.
      rewrite Hd, Hp, Hm, Ht, N.eqb_refl. reflexivity.
    - change 255 with (N.ones 8). rewrite N.land_ones. change (2 ^ 8) with 256.
      rewrite Hd, Hp, Hm, Ht. rewrite N.div_1_r in *. rewrite N.eqb_refl. reflexivity.
  Qed.

  Definition valid_entropy (e : list N) : Prop :=
    all_lt 256 e /\ (length e = 16 \/ length e = 20 \/ length e = 24 \/ length e = 28 \/ length e = 32)%nat.

  Theorem mnemonic_roundtrip e : valid_entropy e ->
    exists ws, new_mnemonic W word sha_first e = Ok ws /\
               entropy_from_mnemonic W word_index sha_first ws = Ok e.
  Proof.
    intros [Hb HL].
    set (c := (length e / 4)%nat).
    assert (Hc : (4 <= c <= 8)%nat /\ length e = (4 * c)%nat).
    { unfold c. destruct HL as [E|[E|[E|[E|E]]]]; rewrite E; cbn; lia. }
    destruct Hc as [Hc HLc].
    set (E := be_to_n e). set (cs := sha_first e).
    set (T := cs / 2 ^ (8 - N.of_nat c)).
    set (V := E * 2 ^ N.of_nat c + T).
    assert (HE : E < 2 ^ (32 * N.of_nat c)).
    { pose proof (be_lt e Hb) as H. unfold P256 in H. rewrite HLc in H.
      replace (32 * N.of_nat c) with (8 * N.of_nat (4 * c)) by lia.
      rewrite N.pow_mul_r. exact H. }
    assert (HT : T < 2 ^ N.of_nat c).
    { unfold T. apply N.div_lt_upper_bound; [apply N.pow_nonzero; discriminate|].
      rewrite <- N.pow_add_r. replace (8 - N.of_nat c + N.of_nat c) with 8 by lia. apply sha_byte. }
    assert (HV : be_to_n (add_checksum sha_first e) = V).
    { unfold add_checksum. rewrite be_n_to_be. fold c cs E. rewrite add_cs_bits_lin.
      rewrite cs_top_bits by (exact Hc || apply sha_byte). reflexivity. }
    assert (HVlt : V < 2048 ^ N.of_nat (3 * c)).
    { replace (2048 ^ N.of_nat (3 * c)) with (2 ^ (32 * N.of_nat c) * 2 ^ N.of_nat c).
      - unfold V. assert (0 < 2 ^ N.of_nat c) by (apply N.neq_0_lt_0, N.pow_nonzero; discriminate). nia.
      - change 2048 with (2 ^ 11). rewrite <- N.pow_mul_r, <- N.pow_add_r. f_equal. lia. }
    assert (Hslen : ((length e * 8 + length e * 8 / 32) / 11 = 3 * c)%nat).
    { destruct HL as [El|[El|[El|[El|El]]]]; unfold c; rewrite El; reflexivity. }
    exists (take_words W word (3 * c) V []). split.
    - unfold new_mnemonic.
      replace (valid_entropy_bits (length e * 8)) with true
        by (destruct HL as [El|[El|[El|[El|El]]]]; rewrite El; reflexivity).
      cbn [negb]. rewrite Hslen, HV. reflexivity.
    - assert (Hdiv : V / 2 ^ N.of_nat c = E).
      { unfold V. rewrite N.div_add_l by (apply N.pow_nonzero; discriminate).
        rewrite (N.div_small T) by exact HT. lia. }
      assert (Hmod : V mod 2 ^ N.of_nat c = T).
      { unfold V. rewrite N.add_comm, N.mod_add by (apply N.pow_nonzero; discriminate).
        apply N.mod_small. exact HT. }
      assert (Hpad : pad_slice (n_to_be E) (4 * c) = e).
      { rewrite <- HLc. apply pad_be. exact Hb. }
      apply (decode_assemble c _ V E T e); try assumption.
      + rewrite take_words_digits, app_nil_r, map_length, digits_length. reflexivity.
      + apply decode_words. exact HVlt.
      + reflexivity.
  Qed.

  (* the decoder never panics, whatever the words *)
  Theorem entropy_from_mnemonic_total ws :
    is_panic (entropy_from_mnemonic W word_index sha_first ws) = false.
  Proof.
    unfold entropy_from_mnemonic.
    destruct (negb (length ws mod 3 =? 0)%nat || (length ws <? 12)%nat || (24 <? length ws)%nat) eqn:G; [reflexivity|].
    apply orb_false_elim in G. destruct G as [G G3]. apply orb_false_elim in G. destruct G as [G1 G2].
    apply negb_false_iff in G1. apply Nat.eqb_eq in G1. apply Nat.ltb_ge in G2, G3.
    destruct (words_to_n W word_index ws 0) as [b|]; [|reflexivity].
    assert (Hn : (length ws = 12 \/ length ws = 15 \/ length ws = 18 \/ length ws = 21 \/ length ws = 24)%nat).
    { pose proof (Nat.div_mod (length ws) 3 ltac:(lia)) as D. rewrite G1 in D. lia. }
    destruct Hn as [E|[E|[E|[E|E]]]]; rewrite E; cbn [cs_mask cs_shift Nat.eqb];
      match goal with |- context [if ?c then _ else _] => destruct c end; reflexivity.
  Qed.
End Words.
