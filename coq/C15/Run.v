(* C15 — helpers used by the generated case files: run the model on one case
   (canonical enumeration order, insertion sort) and compare with the observed
   projection of the implementation's results. *)
From Coq Require Import List NArith Bool.
From Verif Require Import Outcome Cmp.
From C15 Require Import Model.
Import ListNotations.
Open Scope N_scope.

Definition ventry := (key * N * N)%type.            (* PubKey, Order, VoteNum *)
Definition vproj (v : validator) : ventry := (v_pub v, v_order v, v_votes v).
Definition gv_obs := option (option ventry).        (* None = panic; Some None = nil *)

(* status, height, timestamp, votes (sorted by key), AllValidators, EffectiveValidators
   (by Order), GetValidator(t) for each t *)
Definition result :=
  (N * N * N * list entry * list entry * list ventry * list gv_obs)%type.
Definition case_result := option result.             (* None = panic while applying the branch *)

Definition status_of_N (n : N) : status :=
  match n with 0 => Growing | 1 => Unjustified | 2 => Justified | _ => Finalized end.
Definition N_of_status (s : status) : N :=
  match s with Growing => 0 | Unjustified => 1 | Justified => 2 | Finalized => 3 end.

(* short constructors for the case files *)
Definition CP (h ts st : N) (votes : vmap) : checkpoint :=
  {| cp_height := h; cp_ts := ts; cp_status := status_of_N st; cp_votes := votes |}.
Definition B (h ts : N) (txs : list tx) : block := {| b_height := h; b_ts := ts; b_txs := txs |}.
Definition T (ins : list txin) (outs : list txout) : tx := {| tx_ins := ins; tx_outs := outs |}.

Definition run_case (maxn : nat) (E interval minv : N) (fed : list key)
           (c0 : checkpoint) (bs : list block) (ts : list N) : case_result :=
  match run_chain E c0 bs with
  | Ok c =>
      let av := all_validators isort (cp_votes c) (cp_status c) minv in
      let vs := effective_validators isort (cp_votes c) (cp_status c) minv maxn fed in
      Some (N_of_status (cp_status c), cp_height c, cp_ts c, cp_votes c, av, map vproj vs,
            map (fun t => match get_validator vs interval (cp_ts c) t with
                          | Ok o => Some (option_map vproj o)
                          | _ => None
                          end) ts)
  | _ => None
  end.

Definition key_eq : key -> key -> bool := list_eqb N.eqb.
Definition entry_eqb (a b : entry) : bool := key_eq (fst a) (fst b) && (snd a =? snd b).
Definition ventry_eqb (a b : ventry) : bool :=
  match a, b with (k1, o1, v1), (k2, o2, v2) => key_eq k1 k2 && (o1 =? o2) && (v1 =? v2) end.

Definition result_eqb (x y : result) : bool :=
  match x, y with
  | (s1, h1, t1, m1, a1, e1, g1), (s2, h2, t2, m2, a2, e2, g2) =>
      (s1 =? s2) && (h1 =? h2) && (t1 =? t2)
      && list_eqb entry_eqb m1 m2 && list_eqb entry_eqb a1 a2
      && list_eqb ventry_eqb e1 e2
      && list_eqb (option_eqb (option_eqb ventry_eqb)) g1 g2
  end.

Definition case_eqb : case_result -> case_result -> bool := option_eqb result_eqb.
