(* C15 — lemmas: the vote map, applyVotes as a per-key tally, branch histories. *)
From Coq Require Import List NArith Bool Lia Permutation Sorted.
From Coq Require Import ZifyBool ZifyN ZifyNat.
From Verif Require Import Outcome.
From C15 Require Import Model Order.
Import ListNotations.
Open Scope N_scope.

(* ---- lookup / insert / delete --------------------------------------------- *)

Lemma lookup_insert_same k v m : lookup k (insert k v m) = Some v.
Proof.
  induction m as [|[k0 v0] m IH]; cbn.
  - rewrite key_eqb_refl. reflexivity.
  - destruct (key_eqb k k0) eqn:E; cbn.
    + rewrite key_eqb_refl. reflexivity.
    + destruct (key_ltb k k0); cbn.
      * rewrite key_eqb_refl. reflexivity.
      * rewrite E. exact IH.
Qed.

Lemma lookup_insert_other k k' v m : k' <> k -> lookup k' (insert k v m) = lookup k' m.
Proof.
  intros N. apply key_eqb_neq in N.
  induction m as [|[k0 v0] m IH]; cbn.
  - rewrite N. reflexivity.
  - destruct (key_eqb k k0) eqn:E; cbn.
    + apply key_eqb_eq in E. subst. rewrite N. reflexivity.
    + destruct (key_ltb k k0); cbn.
      * rewrite N. reflexivity.
      * destruct (key_eqb k' k0); [reflexivity | exact IH].
Qed.

Lemma lookup_delete_same k m : lookup k (delete k m) = None.
Proof.
  induction m as [|[k0 v0] m IH]; cbn; [reflexivity|].
  destruct (key_eqb k k0) eqn:E; cbn; [exact IH|]. rewrite E. exact IH.
Qed.

Lemma lookup_delete_other k k' m : k' <> k -> lookup k' (delete k m) = lookup k' m.
Proof.
  intros N. apply key_eqb_neq in N.
  induction m as [|[k0 v0] m IH]; cbn; [reflexivity|].
  destruct (key_eqb k k0) eqn:E; cbn.
  - apply key_eqb_eq in E. subst. rewrite N. exact IH.
  - destruct (key_eqb k' k0); [reflexivity | exact IH].
Qed.

(* ---- well-formed maps: keys strictly increasing ---------------------------- *)

Definition wf (m : vmap) : Prop := StronglySorted key_lt (map fst m).

Lemma wf_NoDup m : wf m -> NoDup (map fst m).
Proof.
  unfold wf. induction (map fst m) as [|k l IH]; intros S; [constructor|].
  inversion S as [|? ? S' F]; subst. constructor; [|apply IH; exact S'].
  intros Hin. rewrite Forall_forall in F. specialize (F _ Hin).
  unfold key_lt in F. rewrite key_ltb_irrefl in F. discriminate.
Qed.

Lemma insert_keys k v m x : In x (map fst (insert k v m)) -> x = k \/ In x (map fst m).
Proof.
  induction m as [|[k0 v0] m IH]; cbn.
  - intros [<-|[]]. left; reflexivity.
  - destruct (key_eqb k k0) eqn:E; cbn.
    + intros [<-|H]; [left; reflexivity | right; right; exact H].
    + destruct (key_ltb k k0); cbn.
      * intros [<-|H]; [left; reflexivity | right; exact H].
      * intros [<-|H]; [right; left; reflexivity|].
        destruct (IH H) as [->|H']; [left; reflexivity | right; right; exact H'].
Qed.

Lemma wf_insert k v m : wf m -> wf (insert k v m).
Proof.
  unfold wf. induction m as [|[k0 v0] m IH]; cbn; intros S.
  - constructor; constructor.
  - inversion S as [|? ? S' F]; subst.
    destruct (key_eqb k k0) eqn:E; cbn.
    + apply key_eqb_eq in E. subst. constructor; assumption.
    + destruct (key_ltb k k0) eqn:L; cbn.
      * constructor; [exact S|]. constructor; [exact L|].
        rewrite Forall_forall in *. intros y Hy. unfold key_lt in *.
        eapply key_ltb_trans; [exact L | apply F; exact Hy].
      * constructor; [apply IH; exact S'|].
        rewrite Forall_forall in *. intros y Hy.
        apply insert_keys in Hy. destruct Hy as [->|Hy]; [|apply F; exact Hy].
        unfold key_lt. destruct (key_ltb k0 k) eqn:L2; [reflexivity|].
        exfalso. apply key_eqb_neq in E. apply E. apply key_ltb_total; assumption.
Qed.

Lemma delete_keys k m x : In x (map fst (delete k m)) -> In x (map fst m).
Proof.
  induction m as [|[k0 v0] m IH]; cbn; [tauto|].
  destruct (key_eqb k k0); cbn; [intros H; right; apply IH; exact H|].
  intros [<-|H]; [left; reflexivity | right; apply IH; exact H].
Qed.

Lemma wf_delete k m : wf m -> wf (delete k m).
Proof.
  unfold wf. induction m as [|[k0 v0] m IH]; cbn; intros S; [constructor|].
  inversion S as [|? ? S' F]; subst.
  destruct (key_eqb k k0); cbn; [apply IH; exact S'|].
  constructor; [apply IH; exact S'|].
  rewrite Forall_forall in *. intros y Hy. apply F. eapply delete_keys; exact Hy.
Qed.

Lemma wf_filter p m : wf m -> wf (filter p m).
Proof.
  unfold wf. induction m as [|[k0 v0] m IH]; cbn; intros S; [constructor|].
  inversion S as [|? ? S' F]; subst.
  destruct (p (k0, v0)); cbn; [|apply IH; exact S'].
  constructor; [apply IH; exact S'|].
  rewrite Forall_forall in *. intros y Hy. apply F.
  apply in_map_iff in Hy. destruct Hy as [x [E Hx]]. apply filter_In in Hx.
  rewrite <- E. apply in_map. tauto.
Qed.

Lemma lookup_filter p k m :
  wf m -> lookup k (filter p m) =
          match lookup k m with Some v => if p (k, v) then Some v else None | None => None end.
Proof.
  intros W. induction m as [|[k0 v0] m IH]; cbn; [reflexivity|].
  unfold wf in W. cbn in W. inversion W as [|? ? S' F]; subst.
  destruct (key_eqb k k0) eqn:E.
  - apply key_eqb_eq in E. subst k0.
    destruct (p (k, v0)) eqn:P; cbn.
    + rewrite key_eqb_refl. reflexivity.
    + rewrite (IH S').
      destruct (lookup k m) eqn:L; [|reflexivity].
      exfalso. rewrite Forall_forall in F.
      assert (In k (map fst m)) as Hin.
      { clear -L. induction m as [|[k1 v1] m IH]; cbn in *; [discriminate|].
        destruct (key_eqb k k1) eqn:E; [left; symmetry; apply key_eqb_eq; exact E | right; apply IH; exact L]. }
      specialize (F _ Hin). unfold key_lt in F. rewrite key_ltb_irrefl in F. discriminate.
  - destruct (p (k0, v0)); cbn; [rewrite E|]; apply IH; exact S'.
Qed.

Lemma lookup_In k v m : wf m -> (lookup k m = Some v <-> In (k, v) m).
Proof.
  intros W. induction m as [|[k0 v0] m IH]; cbn; [split; [discriminate | tauto]|].
  unfold wf in W. cbn in W. inversion W as [|? ? S' F]; subst.
  destruct (key_eqb k k0) eqn:E.
  - apply key_eqb_eq in E. subst k0. split.
    + intros H; inversion H; subst. left; reflexivity.
    + intros [H|H]; [inversion H; reflexivity|].
      exfalso. rewrite Forall_forall in F. specialize (F k (in_map fst _ _ H)).
      unfold key_lt in F. rewrite key_ltb_irrefl in F. discriminate.
  - rewrite (IH S'). split; [intros H; right; exact H|].
    intros [H|H]; [|exact H]. inversion H; subst. rewrite key_eqb_refl in E. discriminate.
Qed.

(* ---- the tally of one key -------------------------------------------------- *)

(* events on the vote map, in the order the code applies them *)
Inductive event := EVeto (k : key) (amt : N) | EVote (k : key) (amt : N) | EBoundary.

(* what one event does to the tally of key [k] ([None] = no map entry):
   a veto subtracts when the tally is strictly greater, otherwise removes the
   entry; a vote adds modulo 2^64; an epoch boundary drops a zero entry *)
Definition tally_step (k : key) (t : option N) (e : event) : option N :=
  match e with
  | EVeto k' amt =>
      if key_eqb k k' then
        match t with
        | Some x => if amt <? x then Some (x - amt) else None
        | None => None
        end
      else t
  | EVote k' amt =>
      if key_eqb k k' then Some (w64 (match t with Some x => x | None => 0 end + amt)) else t
  | EBoundary => match t with Some 0 => None | _ => t end
  end.

Definition tally (k : key) (t : option N) (evs : list event) : option N :=
  fold_left (tally_step k) evs t.

Definition apply_event (m : vmap) (e : event) : vmap :=
  match e with
  | EVeto k amt => if amt <? get k m then insert k (get k m - amt) m else delete k m
  | EVote k amt => insert k (w64 (get k m + amt)) m
  | EBoundary => filter (fun e => negb (snd e =? 0)) m
  end.

Lemma apply_event_wf m e : wf m -> wf (apply_event m e).
Proof.
  intros W. destruct e as [k amt|k amt|]; cbn.
  - destruct (amt <? get k m); [apply wf_insert | apply wf_delete]; exact W.
  - apply wf_insert; exact W.
  - apply wf_filter; exact W.
Qed.

Lemma apply_event_lookup m e k : wf m -> lookup k (apply_event m e) = tally_step k (lookup k m) e.
Proof.
  intros W. destruct e as [k' amt|k' amt|]; cbn.
  - destruct (key_eqb k k') eqn:E.
    + apply key_eqb_eq in E. subst k'. unfold get.
      destruct (lookup k m) as [x|] eqn:L.
      * destruct (amt <? x); [apply lookup_insert_same | apply lookup_delete_same].
      * replace (amt <? 0) with false by lia. apply lookup_delete_same.
    + apply key_eqb_neq in E.
      destruct (amt <? get k' m); [apply lookup_insert_other | apply lookup_delete_other]; exact E.
  - destruct (key_eqb k k') eqn:E.
    + apply key_eqb_eq in E. subst k'. rewrite lookup_insert_same. unfold get. reflexivity.
    + apply key_eqb_neq in E. apply lookup_insert_other; exact E.
  - rewrite lookup_filter by exact W. cbn.
    destruct (lookup k m) as [x|]; [|reflexivity].
    destruct (x =? 0) eqn:Z; cbn.
    + apply N.eqb_eq in Z. subst. reflexivity.
    + destruct x; [discriminate | reflexivity].
Qed.

Definition apply_events (m : vmap) (evs : list event) : vmap := fold_left apply_event evs m.

Lemma apply_events_wf evs : forall m, wf m -> wf (apply_events m evs).
Proof.
  unfold apply_events. induction evs as [|e evs IH]; cbn; intros m W; [exact W|].
  apply IH. apply apply_event_wf. exact W.
Qed.

Lemma apply_events_lookup evs : forall m k, wf m ->
  lookup k (apply_events m evs) = tally k (lookup k m) evs.
Proof.
  unfold apply_events, tally. induction evs as [|e evs IH]; cbn; intros m k W; [reflexivity|].
  rewrite IH by (apply apply_event_wf; exact W).
  rewrite apply_event_lookup by exact W. reflexivity.
Qed.

(* ---- events of transactions / blocks --------------------------------------- *)

Definition in_events (i : txin) : list event :=
  match i with IVeto pk amt => [EVeto (hexenc pk) amt] | IOther => [] end.
Definition out_events (o : txout) : list event :=
  match o with OVote pk amt => [EVote (hexenc pk) amt] | OOther => [] end.
Definition tx_events (t : tx) : list event :=
  flat_map in_events (tx_ins t) ++ flat_map out_events (tx_outs t).
Definition txs_events (txs : list tx) : list event := flat_map tx_events txs.
Definition block_events (E : N) (b : block) : list event :=
  (if b_height b mod E =? 1 then [EBoundary] else []) ++ txs_events (b_txs b).
Definition chain_events (E : N) (bs : list block) : list event := flat_map (block_events E) bs.

Lemma apply_events_app m a b : apply_events m (a ++ b) = apply_events (apply_events m a) b.
Proof. unfold apply_events. apply fold_left_app. Qed.

Lemma fold_apply_in ins : forall m,
  fold_left apply_in ins m = apply_events m (flat_map in_events ins).
Proof.
  induction ins as [|i ins IH]; intros m; [reflexivity|].
  cbn [fold_left flat_map]. rewrite IH, apply_events_app. destruct i; reflexivity.
Qed.

Lemma fold_apply_out outs : forall m,
  fold_left apply_out outs m = apply_events m (flat_map out_events outs).
Proof.
  induction outs as [|o outs IH]; intros m; [reflexivity|].
  cbn [fold_left flat_map]. rewrite IH, apply_events_app. destruct o; reflexivity.
Qed.

Lemma apply_tx_events m t : apply_tx m t = apply_events m (tx_events t).
Proof.
  unfold apply_tx, tx_events. rewrite fold_apply_in, fold_apply_out, apply_events_app. reflexivity.
Qed.

Lemma apply_votes_events txs : forall m, apply_votes m txs = apply_events m (txs_events txs).
Proof.
  unfold apply_votes, txs_events.
  induction txs as [|t txs IH]; intros m; [reflexivity|].
  cbn [fold_left flat_map]. rewrite IH, apply_tx_events, apply_events_app. reflexivity.
Qed.

Lemma chain_step_votes E c b :
  cp_votes (chain_step E c b) = apply_events (cp_votes c) (block_events E b).
Proof.
  unfold chain_step, block_events, increase. cbn.
  rewrite apply_votes_events.
  destruct (b_height b mod E =? 1); cbn; reflexivity.
Qed.

Lemma fold_chain_votes E bs : forall c,
  cp_votes (fold_left (chain_step E) bs c) = apply_events (cp_votes c) (chain_events E bs).
Proof.
  unfold chain_events.
  induction bs as [|b bs IH]; intros c; [reflexivity|].
  cbn [fold_left flat_map]. rewrite IH, chain_step_votes, apply_events_app. reflexivity.
Qed.

(* any branch: the map stays well formed and every key holds its tally *)
Lemma run_chain_votes E c bs c' :
  wf (cp_votes c) -> run_chain E c bs = Ok c' ->
  wf (cp_votes c') /\
  forall k, lookup k (cp_votes c') = tally k (lookup k (cp_votes c)) (chain_events E bs).
Proof.
  intros W R. unfold run_chain in R.
  destruct bs as [|b bs].
  - inversion R; subst. split; [exact W | intros; reflexivity].
  - destruct (E =? 0); [discriminate|].
    assert (c' = fold_left (chain_step E) (b :: bs) c) as -> by (inversion R; reflexivity).
    clear R. rewrite fold_chain_votes. split.
    + apply apply_events_wf. exact W.
    + intros k. apply apply_events_lookup. exact W.
Qed.

(* ---- without floor and wrap-around the tally is the plain difference -------- *)

Fixpoint votes_of (k : key) (evs : list event) : N :=
  match evs with
  | [] => 0
  | EVote k' a :: r => (if key_eqb k k' then a else 0) + votes_of k r
  | _ :: r => votes_of k r
  end.
Fixpoint vetoes_of (k : key) (evs : list event) : N :=
  match evs with
  | [] => 0
  | EVeto k' a :: r => (if key_eqb k k' then a else 0) + vetoes_of k r
  | _ :: r => vetoes_of k r
  end.

(* "no veto reaches the running tally, no sum reaches 2^64": every prefix keeps
   vetoes strictly below initial + votes, and initial + votes below 2^64 *)
Fixpoint plain (k : key) (x : N) (evs : list event) : Prop :=
  match evs with
  | [] => True
  | EVeto k' a :: r => if key_eqb k k' then a < x /\ plain k (x - a) r else plain k x r
  | EVote k' a :: r => if key_eqb k k' then x + a < two64 /\ plain k (x + a) r else plain k x r
  | EBoundary :: r => x <> 0 /\ plain k x r
  end.

Lemma tally_plain k evs : forall x, plain k x evs ->
  tally k (Some x) evs = Some (x + votes_of k evs - vetoes_of k evs) /\
  vetoes_of k evs <= x + votes_of k evs.
Proof.
  induction evs as [|e evs IH]; cbn; intros x P.
  - split; [f_equal; lia | lia].
  - destruct e as [k' a|k' a|]; cbn.
    + destruct (key_eqb k k') eqn:E.
      * destruct P as [P1 P2]. replace (a <? x) with true by lia.
        destruct (IH _ P2) as [H1 H2]. unfold tally in H1. rewrite H1. split; [f_equal; lia | lia].
      * apply IH; exact P.
    + destruct (key_eqb k k') eqn:E.
      * destruct P as [P1 P2]. unfold w64. rewrite N.mod_small by exact P1.
        destruct (IH _ P2) as [H1 H2]. unfold tally in H1. rewrite H1. split; [f_equal; lia | lia].
      * apply IH; exact P.
    + destruct P as [P1 P2]. destruct x as [|p]; [contradiction|]. apply IH; exact P2.
Qed.
